(* reads history lines on stdin (or from the file given as argument), prints the model's trace:
   BEGIN <id> / trace lines / DONE -- the same framing as the Rust harness *)

let ascii_of_char (c : char) : Model.ascii =
  let n = Char.code c in
  let b i = (n lsr i) land 1 = 1 in
  Model.Ascii (b 0, b 1, b 2, b 3, b 4, b 5, b 6, b 7)

let char_of_ascii (a : Model.ascii) : char =
  match a with
  | Model.Ascii (b0, b1, b2, b3, b4, b5, b6, b7) ->
    let v b i = if b then 1 lsl i else 0 in
    Char.chr (v b0 0 + v b1 1 + v b2 2 + v b3 3 + v b4 4 + v b5 5 + v b6 6 + v b7 7)

let coq_of_string (s : string) : Model.string =
  let r = ref Model.EmptyString in
  for i = Stdlib.String.length s - 1 downto 0 do
    r := Model.String (ascii_of_char s.[i], !r)
  done;
  !r

let string_of_coq (s : Model.string) : string =
  let b = Buffer.create 128 in
  let rec go = function
    | Model.EmptyString -> ()
    | Model.String (a, t) -> Buffer.add_char b (char_of_ascii a); go t in
  go s;
  Buffer.contents b

let () =
  let ic = if Array.length Sys.argv > 1 then open_in Sys.argv.(1) else stdin in
  (try
     while true do
       let line = Stdlib.String.trim (input_line ic) in
       if line <> "" && line.[0] = 'H' then begin
         let id = match Stdlib.String.split_on_char ' ' line with _ :: i :: _ -> i | _ -> "?" in
         print_string ("BEGIN " ^ id ^ "\n");
         List.iter (fun l -> print_string (string_of_coq l); print_char '\n')
           (Model.run_history (coq_of_string line));
         print_string "DONE\n"
       end
     done
   with End_of_file -> ());
  flush stdout
