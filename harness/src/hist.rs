//! History executor: runs one textual history (DESIGN.md appendix C) against the real crate and
//! against std::vec::Vec (shadow oracle), evaluates the implementation-side monitors after every
//! operation and prints one canonical trace line per operation.
use crate::alloc;
use crate::elem::{self, lg, Elem, User};
use minivec::MiniVec;
use std::fmt::Write;
use std::panic::{catch_unwind, AssertUnwindSafe};

pub trait E: Elem + Clone + PartialEq + PartialOrd + std::fmt::Debug + std::hash::Hash {}
impl<T: Elem + Clone + PartialEq + PartialOrd + std::fmt::Debug + std::hash::Hash> E for T {}

pub struct Script {
  s: Vec<u8>,
  pos: usize,
  pub hint: Option<usize>,
}
impl Script {
  pub fn new(t: &str) -> Script {
    // optional prefix h<digits>: claimed size hint
    let mut hint = None;
    let mut body = t;
    if let Some(rest) = t.strip_prefix('h') {
      if let Some(ix) = rest.find(':') {
        hint = rest[..ix].parse().ok();
        body = &rest[ix + 1..];
      }
    }
    let body = if body == "-" { "" } else { body };
    Script { s: body.as_bytes().to_vec(), pos: 0, hint }
  }
  pub fn next(&mut self, default: u8) -> u8 {
    if self.pos < self.s.len() {
      self.pos += 1;
      self.s[self.pos - 1]
    } else {
      default
    }
  }
}

/// scripted source / replacement iterator: S = Some(fresh element), N = None, P = panic;
/// after the script is exhausted: None for ever.  Deliberately NOT fused.
pub struct ScriptIter<T: E> {
  sc: Script,
  _m: std::marker::PhantomData<T>,
}
impl<T: E> ScriptIter<T> {
  fn new(t: &str) -> Self {
    ScriptIter { sc: Script::new(t), _m: std::marker::PhantomData }
  }
}
impl<T: E> Iterator for ScriptIter<T> {
  type Item = T;
  fn next(&mut self) -> Option<T> {
    match self.sc.next(b'N') {
      b'S' => {
        let e = T::fresh(None);
        elem::log_call(format!("g{}", e.id()));
        Some(e)
      }
      b'P' => {
        elem::log_call("gP".to_string());
        elem::script_panic()
      }
      _ => {
        elem::log_call("gn".to_string());
        None
      }
    }
  }
  fn size_hint(&self) -> (usize, Option<usize>) {
    match self.sc.hint {
      Some(h) => (h, Some(h)),
      None => (0, None),
    }
  }
}

type Pred<T> = Box<dyn FnMut(&mut T) -> bool>;

enum It<T: E> {
  Drain(usize, minivec::Drain<'static, T>),
  Splice(usize, minivec::Splice<'static, ScriptIter<T>>),
  Filter(usize, minivec::DrainFilter<'static, T, Pred<T>>),
  Into(minivec::IntoIter<T>),
}

pub struct World<T: E> {
  vecs: Vec<Option<Box<MiniVec<T>>>>,
  shadow: Vec<Option<Vec<i64>>>,
  req_align: Vec<usize>,
  borrowed: Vec<bool>,
  iters: Vec<Option<It<T>>>,
  ishadow: Vec<Option<std::collections::VecDeque<i64>>>,
  irange: Vec<Option<(usize, usize)>>,
  /// identities handed out by iterator i so far
  /// set by a monitor after which the history is abandoned (see `abandon`)
  pub fatal: bool,
  iyield: Vec<Vec<u32>>,
  /// plain-data classes: the values the vector held when iterator i was created
  ibefore: Vec<Vec<u32>>,
  iscript: Vec<Option<String>>,
  shadow_ok: bool,
  pub out: String,
  mon: Vec<String>,
}

fn lib<R>(f: impl FnOnce() -> R) -> Result<R, ()> {
  unsafe {
    alloc::PANIC_SKIP = false;
    alloc::TRACK = 1;
  }
  let r = catch_unwind(AssertUnwindSafe(f));
  unsafe {
    alloc::TRACK = 0;
    alloc::PANIC_SKIP = false;
    alloc::PANIC_SKIP_ONCE = false;
  }
  r.map_err(|_| ())
}

fn ids<T: E>(s: &[T]) -> String {
  let v: Vec<String> = s.iter().map(|x| x.id().to_string()).collect();
  format!("[{}]", v.join(","))
}

enum Bound {
  I(usize),
  Ex(usize),
  U,
}
fn to_b(b: &Bound) -> std::ops::Bound<usize> {
  match b {
    Bound::I(n) => std::ops::Bound::Included(*n),
    Bound::Ex(n) => std::ops::Bound::Excluded(*n),
    Bound::U => std::ops::Bound::Unbounded,
  }
}

impl<T: E> World<T> {
  pub fn new() -> Self {
    World {
      vecs: vec![],
      shadow: vec![],
      req_align: vec![],
      borrowed: vec![],
      iters: vec![],
      ishadow: vec![],
      irange: vec![],
      fatal: false,
      iyield: vec![],
      ibefore: vec![],
      iscript: vec![],
      shadow_ok: true,
      out: String::new(),
      mon: vec![],
    }
  }

  fn slot(&mut self, v: usize) {
    while self.vecs.len() <= v {
      self.vecs.push(None);
      self.shadow.push(None);
      self.req_align.push(0);
      self.borrowed.push(false);
    }
  }
  fn islot(&mut self, i: usize) {
    while self.iters.len() <= i {
      self.iters.push(None);
      self.ishadow.push(None);
      self.irange.push(None);
      self.iscript.push(None);
      self.iyield.push(vec![]);
      self.ibefore.push(vec![]);
    }
  }
  fn put(&mut self, v: usize, mv: MiniVec<T>, sh: Vec<i64>) {
    self.slot(v);
    // an overwritten vector is dropped by the library
    if let Some(old) = self.vecs[v].take() {
      let _ = lib(move || drop(old));
    }
    self.vecs[v] = Some(Box::new(mv));
    self.shadow[v] = Some(sh);
    self.req_align[v] = 0;
    self.borrowed[v] = false;
  }
  fn has(&self, v: usize) -> bool {
    v < self.vecs.len() && self.vecs[v].is_some() && !self.borrowed[v]
  }
  fn vref(&mut self, v: usize) -> &'static mut MiniVec<T> {
    let p: *mut MiniVec<T> = &mut **self.vecs[v].as_mut().unwrap();
    unsafe { &mut *p }
  }

  /// argument expressions: base (L = len, C = capacity, M = usize::MAX, or digits) followed by
  /// any number of <op><digits> with op in + - / * applied left to right, wrapping
  fn arg(&mut self, t: &str, v: usize) -> usize {
    let b = t.as_bytes();
    let mut i = 0;
    let mut acc: usize = match b.first() {
      Some(b'L') => {
        i = 1;
        if self.has(v) { self.vref(v).len() } else { 0 }
      }
      Some(b'C') => {
        i = 1;
        if self.has(v) { self.vref(v).capacity() } else { 0 }
      }
      Some(b'M') => {
        i = 1;
        usize::MAX
      }
      _ => {
        let mut n: usize = 0;
        while i < b.len() && b[i].is_ascii_digit() {
          n = n.wrapping_mul(10).wrapping_add((b[i] - b'0') as usize);
          i += 1;
        }
        n
      }
    };
    while i < b.len() {
      let op = b[i];
      i += 1;
      let mut n: usize = 0;
      while i < b.len() && b[i].is_ascii_digit() {
        n = n.wrapping_mul(10).wrapping_add((b[i] - b'0') as usize);
        i += 1;
      }
      acc = match op {
        b'+' => acc.wrapping_add(n),
        b'-' => acc.wrapping_sub(n),
        b'*' => acc.wrapping_mul(n),
        b'/' => if n == 0 { acc } else { acc / n },
        _ => acc,
      };
    }
    acc
  }
  fn bound(&mut self, t: &str, v: usize) -> Bound {
    if t == "u" {
      Bound::U
    } else if let Some(r) = t.strip_prefix('i') {
      Bound::I(self.arg(r, v))
    } else if let Some(r) = t.strip_prefix('e') {
      Bound::Ex(self.arg(r, v))
    } else {
      Bound::U
    }
  }

  fn monitor(&mut self, s: String) {
    // a vector whose length or capacity lies about its block: nothing further can be run on it safely
    if s.starts_with("len_gt_cap") || s.starts_with("cap_exceeds_block") {
      self.fatal = true;
    }
    if !self.mon.contains(&s) {
      self.mon.push(s);
    }
  }

  /// state of every vector that is not mutably borrowed by a live iterator, plus monitors
  fn observe(&mut self) -> String {
    let mut parts = vec![];
    // identities exposed by the vectors looked at so far: the same element in two vectors is in two places
    let mut seen_all: Vec<u32> = vec![];
    for v in 0..self.vecs.len() {
      if !self.has(v) {
        continue;
      }
      let mv = self.vref(v);
      let (len, cap) = (mv.len(), mv.capacity());
      let p = mv.as_ptr() as usize;
      let mut place = String::from("nul");
      let mut readable = true;
      if len > cap {
        self.monitor(format!("len_gt_cap:v{}", v));
        readable = false;
      }
      if p != 0 {
        match alloc::block_of(p) {
          Some(b) => {
            let off = p - b.ptr;
            place = format!("{}@{}:{}", off, b.size, b.align);
            if off.saturating_add(cap.saturating_mul(std::mem::size_of::<T>())) > b.size {
              self.monitor(format!("cap_exceeds_block:v{}", v));
              if off.saturating_add(len.saturating_mul(std::mem::size_of::<T>())) > b.size {
                readable = false;
              }
            }
          }
          None => {
            place = "wild".to_string();
            self.monitor(format!("wild_ptr:v{}", v));
            readable = false;
          }
        }
        if p % std::mem::align_of::<T>() != 0 {
          self.monitor(format!("misaligned:v{}", v));
          readable = false;
        }
        let ra = self.req_align[v];
        if ra != 0 && p % ra != 0 {
          self.monitor(format!("lost_overalignment:v{}:{}", v, ra));
        }
      } else if len > 0 {
        self.monitor(format!("null_with_len:v{}", v));
        readable = false;
      }
      let mut idl = String::from("[?]");
      if readable {
        let sl: &[T] = unsafe { std::slice::from_raw_parts(if p == 0 { std::ptr::NonNull::dangling().as_ptr() } else { p as *const T }, len) };
        let mut seen: Vec<u32> = Vec::with_capacity(len);
        let mut pays: Vec<i64> = Vec::with_capacity(len);
        for x in sl {
          let id = x.id();
          if !x.valid() {
            self.monitor(format!("garbage_exposed:v{}", v));
          } else if T::TRACKED {
            if (id as usize) < elem::MAXID && id < lg().next && lg().status[id as usize] != elem::ST_LIVE {
              self.monitor(format!("dead_exposed:{}", id));
            }
            if seen.contains(&id) || seen_all.contains(&id) {
              self.monitor(format!("dup_exposed:{}", id));
            }
          }
          seen.push(id);
          pays.push(x.pay());
        }
        if T::TRACKED {
          seen_all.extend(seen.iter().copied());
        }
        idl = format!("[{}]", seen.iter().map(|x| x.to_string()).collect::<Vec<_>>().join(","));
        if self.shadow_ok {
          if let Some(sh) = &self.shadow[v] {
            if *sh != pays {
              self.monitor(format!("vec_mismatch:v{}", v));
            }
          }
        }
      }
      parts.push(format!("v{}={},{},{},{}", v, len, cap, place, idl));
    }
    alloc::check_all_redzones();
    parts.join(" ")
  }

  fn emit(&mut self, k: usize, name: &str, out: &str, ret: &str) {
    let st = self.observe();
    let evs: Vec<String> = alloc::take_events()
      .iter()
      .map(|e| match e {
        alloc::Ev::Alloc(s, a) => format!("a{}:{}", s, a),
        alloc::Ev::Realloc(s, a, n) => format!("r{}:{}>{}", s, a, n),
        alloc::Ev::Dealloc(s, a) => format!("d{}:{}", s, a),
        alloc::Ev::Fail(s, a) => format!("f{}:{}", s, a),
        alloc::Ev::FailRealloc(s, a, l, c, al) => format!("f{}:{}:h{}/{}/{}", s, a, l, c, al),
      })
      .collect();
    for (k, a, b) in alloc::take_violations() {
      let s = match k {
        alloc::V_LAYOUT => format!("layout_mismatch:{}:{}", a, b),
        alloc::V_DOUBLE_FREE => format!("double_free:{}:{}", a, b),
        alloc::V_REDZONE => format!("redzone:{}:{}", a, b),
        _ => format!("alloc:{}:{}", a, b),
      };
      self.monitor(s);
    }
    let l = lg();
    let elems: Vec<String> = std::mem::take(&mut l.events);
    for v in std::mem::take(&mut l.viol) {
      self.monitor(v);
    }
    let mon = std::mem::take(&mut self.mon);
    let _ = write!(self.out, "{} {} {} r={} | {} | a=[{}] | e=[{}]", k, name, out, ret, st, evs.join(","), elems.join(","));
    if !mon.is_empty() {
      let _ = write!(self.out, " | M=[{}]", mon.join(","));
    }
    self.out.push('\n');
    // written at once: if a later operation kills the process the trace so far survives
    {
      use std::io::Write as _;
      let _u = User::enter();
      let o = std::io::stdout();
      let mut o = o.lock();
      let _ = o.write_all(self.out.as_bytes());
      let _ = o.flush();
    }
    self.out.clear();
  }

  fn pred_box(script: &str) -> Pred<T> {
    let mut sc = Script::new(script);
    Box::new(move |x: &mut T| {
      if T::TRACKED {
        elem::on_expose(x.id(), x.valid());
      }
      elem::log_call(format!("p{}", x.id()));
      match sc.next(b'F') {
        b'T' => true,
        b'P' => elem::script_panic(),
        _ => false,
      }
    })
  }

  /// execute one operation; returns false when the operation was not applicable (skipped)
  pub fn step(&mut self, k: usize, toks: &[&str]) {
    let name = toks[0];
    let n = |i: usize| -> usize { toks.get(i).and_then(|s| s.parse().ok()).unwrap_or(0) };
    let t = |i: usize| -> &str { toks.get(i).copied().unwrap_or("-") };
    let mut ret = String::from("-");
    let mut out = "ok";
    // C07 stability: storage address and capacity before the operation
    let target: Option<usize> = match name {
      "dropit" => {
        let i = n(1);
        if i < self.iters.len() {
          match &self.iters[i] {
            Some(It::Drain(v, _)) | Some(It::Splice(v, _)) | Some(It::Filter(v, _)) => Some(*v),
            _ => None,
          }
        } else {
          None
        }
      }
      "push" | "insert" | "extslice" | "extend" | "extwithin" | "append" | "resize" | "resizewith" | "pop" | "remove"
      | "swaprm" | "trunc" | "clear" | "retain" | "dedup" | "dedupby" | "dedupkey" | "rmitem" | "splitoff" | "drain"
      | "splice" | "shrinkto" | "index" | "slice" => Some(n(1)),
      _ => None,
    };
    // C11: what a rejected call must leave untouched
    let pre_ids: Option<Vec<u32>> = match target {
      Some(v) if name != "dropit" && v < self.vecs.len() && self.vecs[v].is_some() && !self.borrowed[v] => {
        let mv = self.vref(v);
        if mv.len() <= mv.capacity() { Some(mv.iter().map(|x| x.id()).collect()) } else { None }
      }
      _ => None,
    };
    let pre: Option<(usize, usize, usize)> = match target {
      Some(v) if v < self.vecs.len() && self.vecs[v].is_some() => {
        let mv = self.vref(v);
        Some((mv.as_ptr() as usize, mv.capacity(), mv.len()))
      }
      _ => None,
    };
    // C06: a vector without storage that asks for no capacity must stay without storage
    let asks_nothing: Option<usize> = match name {
      "reserve" | "reservex" if t(2) == "0" => Some(n(1)),
      "shrinkfit" => Some(n(1)),
      _ => None,
    };
    let pre_no_storage = match asks_nothing {
      Some(v) if v < self.vecs.len() && self.vecs[v].is_some() && !self.borrowed[v] => {
        let mv = self.vref(v);
        mv.as_ptr().is_null() && mv.capacity() == 0
      }
      _ => false,
    };
    macro_rules! need {
      ($v:expr) => {
        if !self.has($v) {
          self.emit(k, name, "skip", "-");
          return;
        }
      };
    }
    macro_rules! free {
      ($v:expr) => {
        if $v < self.vecs.len() && self.vecs[$v].is_some() {
          self.emit(k, name, "skip", "-");
          return;
        }
      };
    }
    macro_rules! needi {
      ($i:expr) => {
        if !($i < self.iters.len() && self.iters[$i].is_some()) {
          self.emit(k, name, "skip", "-");
          return;
        }
      };
    }
    match name {
      "new" | "default" | "mac0" => {
        let v = n(1);
        free!(v);
        let r = match name {
          "new" => lib(|| MiniVec::<T>::new()),
          "default" => lib(|| <MiniVec<T> as Default>::default()),
          _ => lib(|| {
            let x: MiniVec<T> = minivec::mini_vec![];
            x
          }),
        };
        match r {
          Ok(mv) => self.put(v, mv, vec![]),
          Err(_) => out = "panic",
        }
      }
      "wcap" => {
        let v = n(1);
        free!(v);
        self.slot(v);
        let c = self.arg(t(2), v);
        match lib(|| MiniVec::<T>::with_capacity(c)) {
          Ok(mv) => self.put(v, mv, vec![]),
          Err(_) => out = "panic",
        }
      }
      "walign" => {
        let v = n(1);
        free!(v);
        self.slot(v);
        let c = self.arg(t(2), v);
        let a = self.arg(t(3), v);
        let acceptable = a.is_power_of_two() && a >= std::mem::align_of::<T>().max(std::mem::align_of::<usize>());
        let representable = c.checked_mul(std::mem::size_of::<T>()).map_or(false, |b| b < (1usize << 40));
        match lib(|| MiniVec::<T>::with_alignment(c, a)) {
          Ok(Ok(mv)) => {
            self.put(v, mv, vec![]);
            self.req_align[v] = a;
            ret = "ok".into();
            if !acceptable {
              self.monitor(format!("walign_accepted_bad_alignment:{}", a));
            }
          }
          Ok(Err(e)) => {
            ret = match e {
              minivec::LayoutErr::AlignmentTooSmall => "e1".into(),
              minivec::LayoutErr::AlignmentNotDivisibleByTwo => "e2".into(),
            };
            if acceptable {
              self.monitor(format!("walign_rejected_good_alignment:{}", a));
            }
          }
          Err(_) => {
            out = "panic";
            if !acceptable || representable {
              self.monitor(format!("walign_panicked:{}:{}", c, a));
            }
          }
        }
      }
      "fromslice" | "frommut" => {
        let v = n(1);
        free!(v);
        let cnt = n(2);
        let mut src: Vec<T> = (0..cnt).map(|_| T::fresh(None)).collect();
        let pays: Vec<i64> = src.iter().map(|x| x.pay()).collect();
        let r = if name == "fromslice" { lib(|| MiniVec::<T>::from(&src[..])) } else { lib(|| MiniVec::<T>::from(&mut src[..])) };
        match r {
          Ok(mv) => self.put(v, mv, pays),
          Err(_) => {
            out = "panic";
            self.shadow_ok = false;
          }
        }
        drop(src);
      }
      "fromstr" => {
        let v = n(1);
        free!(v);
        let cnt = n(2);
        // the string's bytes take the next identities (mod 256), like any other source elements
        let mut text = String::new();
        let mut pays = vec![];
        for _ in 0..cnt {
          let id = elem::fresh(None) % 128;
          text.push(id as u8 as char);
          pays.push(id as i64);
        }
        let _ = pays;
        match lib(|| T::vec_from_str(&text)) {
          Ok(Some(mv)) => {
            let sh: Vec<i64> = text.bytes().map(|b| elem::payload_of(b as u32)).collect();
            self.put(v, mv, sh);
          }
          Ok(None) => out = "skip",
          Err(_) => out = "panic",
        }
      }
      "fromiter" => {
        let v = n(1);
        free!(v);
        let it = ScriptIter::<T>::new(t(2));
        match lib(move || it.collect::<MiniVec<T>>()) {
          Ok(mv) => {
            let pays: Vec<i64> = mv.iter().map(|x| x.pay()).collect();
            // oracle: std collects the same prefix (up to the first None)
            self.put(v, mv, pays);
          }
          Err(_) => {
            out = "panic";
          }
        }
      }
      "macrep" => {
        let v = n(1);
        free!(v);
        let cnt = n(2);
        let mut first_pay: Option<i64> = None;
        let fp = &mut first_pay;
        let r = lib(move || {
          let mv: MiniVec<T> = minivec::mini_vec![{
            let e = T::fresh(None);
            elem::log_call(format!("g{}", e.id()));
            if fp.is_none() { *fp = Some(e.pay()); }
            e
          }; cnt];
          mv
        });
        match r {
          Ok(mv) => {
            // vec![e; n]: e evaluated once, n values equal to it
            let sh: Vec<i64> = match first_pay {
              Some(p) => vec![p; cnt],
              None => vec![],
            };
            if first_pay.is_none() && cnt > 0 {
              self.monitor("macro_repeat_never_evaluated".into());
            }
            self.put(v, mv, sh);
          }
          Err(_) => {
            out = "panic";
            self.shadow_ok = false;
          }
        }
      }
      "maclist" => {
        let v = n(1);
        free!(v);
        let r = lib(|| {
          let mv: MiniVec<T> = minivec::mini_vec![T::fresh(None), T::fresh(None), T::fresh(None)];
          mv
        });
        match r {
          Ok(mv) => {
            let pays: Vec<i64> = mv.iter().map(|x| x.pay()).collect();
            self.put(v, mv, pays);
          }
          Err(_) => out = "panic",
        }
      }
      "clone" => {
        let (a, b) = (n(1), n(2));
        need!(a);
        free!(b);
        let src = self.vref(a);
        let (calls0, want) = (T::clone_calls(), src.len() as u64);
        match lib(|| src.clone()) {
          Ok(mv) => {
            let calls1 = T::clone_calls();
            if calls0 != u64::MAX && calls1.wrapping_sub(calls0) != want {
              self.monitor(format!("clone_not_called:{}of{}", calls1.wrapping_sub(calls0), want));
            }
            let sh = self.shadow[a].clone().unwrap_or_default();
            self.put(b, mv, sh);
          }
          Err(_) => out = "panic",
        }
      }
      "drainvec" => {
        let (a, b) = (n(1), n(2));
        need!(a);
        free!(b);
        let src = self.vref(a);
        match lib(|| src.drain_vec()) {
          Ok(mv) => {
            let sh = self.shadow[a].replace(vec![]).unwrap_or_default();
            let ra = self.req_align[a];
            self.put(b, mv, sh);
            self.req_align[b] = ra;
            self.req_align[a] = 0;
          }
          Err(_) => out = "panic",
        }
      }
      "splitoff" => {
        let (a, b) = (n(1), n(2));
        need!(a);
        free!(b);
        let at = self.arg(t(3), a);
        let src = self.vref(a);
        let len_before = src.len();
        let so_should_panic = at > len_before;
        match lib(|| src.split_off(at)) {
          Ok(mv) => {
            if so_should_panic {
              self.monitor("accepted_out_of_range:splitoff".into());
            }
            let tail = match self.shadow[a].as_mut() {
              Some(s) if at <= s.len() => s.split_off(at),
              _ => vec![],
            };
            let ra = self.req_align[a];
            self.put(b, mv, tail);
            if at == 0 && len_before > 0 {
              // the buffer (and its alignment guarantee) moves with the elements
              self.req_align[b] = ra;
              self.req_align[a] = 0;
            }
          }
          Err(_) => out = "panic",
        }
      }
      "rawrt" => {
        let v = n(1);
        need!(v);
        let mv = *self.vecs[v].take().unwrap();
        let three = n(2) == 3;
        if mv.as_ptr().is_null() {
          // no storage: the round trip is not defined; keep the vector
          self.vecs[v] = Some(Box::new(mv));
          out = "skip";
        } else {
          let r = lib(move || {
            let (p, l, c) = mv.into_raw_parts();
            let back = if three { unsafe { MiniVec::<T>::from_raw_parts(p, l, c) } } else { unsafe { MiniVec::<T>::from_raw_part(p) } };
            (p as usize, l, c, back)
          });
          match r {
            Ok((p, l, c, back)) => {
              ret = format!("{},{}", l, c);
              if back.as_ptr() as usize != p {
                self.monitor(format!("raw_roundtrip_moved:v{}", v));
              }
              self.vecs[v] = Some(Box::new(back));
            }
            Err(_) => {
              out = "panic";
              self.shadow[v] = None;
            }
          }
        }
      }
      "leak" => {
        let v = n(1);
        need!(v);
        let mv = *self.vecs[v].take().unwrap();
        self.shadow[v] = None;
        match lib(move || {
          let s: &'static mut [T] = MiniVec::leak(mv);
          s
        }) {
          Ok(s) => ret = ids(s),
          Err(_) => out = "panic",
        }
      }
      "drop" => {
        let v = n(1);
        need!(v);
        let mv = self.vecs[v].take().unwrap();
        self.shadow[v] = None;
        if lib(move || drop(mv)).is_err() {
          out = "panic";
        }
      }
      "push" => {
        let v = n(1);
        need!(v);
        let pay = t(2).strip_prefix('=').and_then(|s| s.parse::<i64>().ok());
        let e = T::fresh(pay);
        let p = e.pay();
        let mv = self.vref(v);
        match lib(move || mv.push(e)) {
          Ok(()) => {
            if let Some(s) = self.shadow[v].as_mut() {
              s.push(p)
            }
          }
          Err(_) => out = "panic",
        }
      }
      "pop" => {
        let v = n(1);
        need!(v);
        let mv = self.vref(v);
        match lib(|| mv.pop()) {
          Ok(r) => {
            ret = match &r {
              Some(x) => format!("s{}", x.id()),
              None => "n".into(),
            };
            let sp = self.shadow[v].as_mut().and_then(|s| s.pop());
            if self.shadow_ok && sp != r.as_ref().map(|x| x.pay()) {
              self.monitor("vec_ret_mismatch:pop".into());
            }
          }
          Err(_) => out = "panic",
        }
      }
      "insert" => {
        let v = n(1);
        need!(v);
        let i = self.arg(t(2), v);
        let e = T::fresh(None);
        let p = e.pay();
        let mv = self.vref(v);
        let should_panic = i > mv.len();
        match lib(move || mv.insert(i, e)) {
          Ok(()) => {
            if should_panic {
              self.monitor("accepted_out_of_range:insert".into());
            }
            if let Some(s) = self.shadow[v].as_mut() {
              if i <= s.len() {
                s.insert(i, p)
              }
            }
          }
          Err(_) => {
            out = "panic";
            if !should_panic {
              self.monitor("rejected_in_range:insert".into());
            }
          }
        }
      }
      "remove" | "swaprm" => {
        let v = n(1);
        need!(v);
        let i = self.arg(t(2), v);
        let mv = self.vref(v);
        let should_panic = i >= mv.len();
        let r = if name == "remove" { lib(|| mv.remove(i)) } else { lib(|| mv.swap_remove(i)) };
        match r {
          Ok(x) => {
            ret = x.id().to_string();
            if should_panic {
              self.monitor(format!("accepted_out_of_range:{}", name));
            }
            if let Some(s) = self.shadow[v].as_mut() {
              if i < s.len() {
                let sp = if name == "remove" { s.remove(i) } else { s.swap_remove(i) };
                if self.shadow_ok && sp != x.pay() {
                  self.monitor(format!("vec_ret_mismatch:{}", name));
                }
              }
            }
          }
          Err(_) => {
            out = "panic";
            if !should_panic {
              self.monitor(format!("rejected_in_range:{}", name));
            }
          }
        }
      }
      "trunc" | "clear" => {
        let v = n(1);
        need!(v);
        let l = if name == "clear" { 0 } else { self.arg(t(2), v) };
        let mv = self.vref(v);
        let r = if name == "clear" { lib(|| mv.clear()) } else { lib(|| mv.truncate(l)) };
        if let Some(s) = self.shadow[v].as_mut() {
          s.truncate(l)
        }
        if r.is_err() {
          out = "panic";
        }
      }
      "resize" => {
        let v = n(1);
        need!(v);
        let l = self.arg(t(2), v);
        let e = T::fresh(None);
        let p = e.pay();
        let mv = self.vref(v);
        let r = lib(move || mv.resize(l, e));
        if r.is_err() {
          out = "panic";
          self.shadow_ok = false;
        } else if let Some(s) = self.shadow[v].as_mut() {
          s.resize(l, p)
        }
      }
      "resizewith" => {
        let v = n(1);
        need!(v);
        let l = self.arg(t(2), v);
        let mut sc = Script::new(t(3));
        let mut made: Vec<i64> = vec![];
        let mref = &mut made;
        let mv = self.vref(v);
        let r = lib(move || {
          mv.resize_with(l, || match sc.next(b'S') {
            b'P' => {
              elem::log_call("gP".into());
              elem::script_panic()
            }
            _ => {
              let e = T::fresh(None);
              elem::log_call(format!("g{}", e.id()));
              {
                let _u = User::enter();
                mref.push(e.pay());
              }
              e
            }
          })
        });
        if let Some(s) = self.shadow[v].as_mut() {
          if l <= s.len() {
            s.truncate(l)
          } else {
            s.extend(made.iter())
          }
        }
        if r.is_err() {
          out = "panic";
        }
      }
      "extslice" => {
        let v = n(1);
        need!(v);
        let cnt = n(2);
        let src: Vec<T> = (0..cnt).map(|_| T::fresh(None)).collect();
        let pays: Vec<i64> = src.iter().map(|x| x.pay()).collect();
        let mv = self.vref(v);
        let r = lib(|| mv.extend_from_slice(&src));
        if r.is_err() {
          out = "panic";
          self.shadow_ok = false;
        } else if let Some(s) = self.shadow[v].as_mut() {
          s.extend(pays)
        }
        drop(src);
      }
      "extend" => {
        let v = n(1);
        need!(v);
        let it = ScriptIter::<T>::new(t(2));
        let mv = self.vref(v);
        let before = mv.len();
        let r = lib(move || mv.extend(it));
        // oracle: exactly the yielded prefix is appended
        let mv = self.vref(v);
        if mv.len() >= before {
          let added: Vec<i64> = mv[before..].iter().map(|x| x.pay()).collect();
          if let Some(s) = self.shadow[v].as_mut() {
            s.extend(added)
          }
        }
        if r.is_err() {
          out = "panic";
        }
      }
      "extwithin" => {
        let v = n(1);
        need!(v);
        let bs = self.bound(t(2), v);
        let be = self.bound(t(3), v);
        let mv = self.vref(v);
        let r = lib(|| mv.extend_from_within((to_b(&bs), to_b(&be))));
        let shr = self.shadow[v].as_mut().map(|s| {
          let s2: *mut Vec<i64> = s;
          catch_unwind(AssertUnwindSafe(|| unsafe { (*s2).extend_from_within((to_b(&bs), to_b(&be))) })).is_ok()
        });
        match r {
          Ok(()) => {
            if shr == Some(false) && self.shadow_ok {
              self.monitor("accepted_out_of_range:extwithin".into());
            }
          }
          Err(_) => {
            out = "panic";
            if shr == Some(true) && lg().clone_panics.is_empty() {
              self.monitor("rejected_in_range:extwithin".into());
            }
          }
        }
      }
      "append" => {
        let (a, b) = (n(1), n(2));
        need!(a);
        need!(b);
        if a == b {
          self.emit(k, name, "skip", "-");
          return;
        }
        let x = self.vref(a);
        let y = self.vref(b);
        let r = lib(|| x.append(y));
        if r.is_err() {
          out = "panic";
        } else {
          let mut moved = self.shadow[b].replace(vec![]).unwrap_or_default();
          if let Some(s) = self.shadow[a].as_mut() {
            s.append(&mut moved)
          }
        }
      }
      "dedup" | "dedupkey" => {
        let v = n(1);
        need!(v);
        let mv = self.vref(v);
        let r = if name == "dedup" {
          lib(|| mv.dedup())
        } else {
          lib(|| {
            mv.dedup_by_key(|x| {
              elem::log_call(format!("k{}", x.id()));
              x.pay() / 2
            })
          })
        };
        if r.is_err() {
          out = "panic";
        }
        if let Some(s) = self.shadow[v].as_mut() {
          if name == "dedup" {
            s.dedup_by(|a, b| *a == *b && *a != elem::NAN_PAYLOAD)
          } else {
            s.dedup_by_key(|x| *x / 2)
          }
        }
      }
      "dedupby" => {
        let v = n(1);
        need!(v);
        let mut sc = Script::new(t(2));
        let mut sc2 = Script::new(t(2));
        let mv = self.vref(v);
        let r = lib(move || {
          mv.dedup_by(|a, b| {
            elem::log_call(format!("p{},{}", a.id(), b.id()));
            match sc.next(b'F') {
              b'T' => true,
              b'P' => elem::script_panic(),
              _ => false,
            }
          })
        });
        if r.is_err() {
          out = "panic";
          self.shadow_ok = false;
        } else if let Some(s) = self.shadow[v].as_mut() {
          s.dedup_by(|_, _| sc2.next(b'F') == b'T')
        }
      }
      "retain" => {
        let v = n(1);
        need!(v);
        let mut sc = Script::new(t(2));
        let mut sc2 = Script::new(t(2));
        let mv = self.vref(v);
        let r = lib(move || {
          mv.retain(|x| {
            if T::TRACKED {
              elem::on_expose(x.id(), x.valid());
            }
            elem::log_call(format!("p{}", x.id()));
            match sc.next(b'T') {
              b'F' => false,
              b'P' => elem::script_panic(),
              _ => true,
            }
          })
        });
        if r.is_err() {
          out = "panic";
          self.shadow_ok = false;
        } else if let Some(s) = self.shadow[v].as_mut() {
          s.retain(|_| sc2.next(b'T') != b'F')
        }
      }
      "rmitem" => {
        let v = n(1);
        need!(v);
        let pay: i64 = t(2).parse().unwrap_or(0);
        let probe = T::fresh(Some(pay));
        let mv = self.vref(v);
        match lib(|| mv.remove_item(&probe)) {
          Ok(r) => {
            ret = match &r {
              Some(x) => format!("s{}", x.id()),
              None => "n".into(),
            };
            if let Some(s) = self.shadow[v].as_mut() {
              if let Some(ix) = s.iter().position(|x| *x == pay && pay != elem::NAN_PAYLOAD) {
                s.remove(ix);
              }
            }
          }
          Err(_) => out = "panic",
        }
        drop(probe);
      }
      "reserve" | "reservex" | "shrinkto" | "shrinkfit" => {
        let v = n(1);
        need!(v);
        let a = self.arg(t(2), v);
        let mv = self.vref(v);
        let (l0, c0) = (mv.len(), mv.capacity());
        let r = match name {
          "reserve" => lib(|| mv.reserve(a)),
          "reservex" => lib(|| mv.reserve_exact(a)),
          "shrinkto" => lib(|| mv.shrink_to(a)),
          _ => lib(|| mv.shrink_to_fit()),
        };
        let mv = self.vref(v);
        let c1 = mv.capacity();
        match r {
          Ok(()) => {
            let bad = match name {
              "reserve" => l0.checked_add(a).map_or(true, |t| c1 < t),
              "reservex" => l0.checked_add(a).map_or(true, |t| if c0 >= t { c1 != c0 } else { c1 != t }),
              "shrinkto" => c1 > c0 || c1 < l0.max(a) || a > c0,
              _ => c1 != l0,
            };
            if bad {
              self.monitor(format!("capacity_contract:{}:{}:{}:{}>{}", name, l0, a, c0, c1));
            }
            if name == "shrinkto" && a > c0 {
              // shrink_to panics when asked for more than the capacity
              self.monitor("accepted_out_of_range:shrinkto".into());
            }
          }
          Err(_) => {
            out = "panic";
            if name == "shrinkto" && a <= c0 {
              self.monitor("rejected_in_range:shrinkto".into());
            }
            if c1 != c0 {
              self.monitor(format!("changed_by_rejected_call:{}", name));
            }
          }
        }
      }
      "spare" => {
        let v = n(1);
        need!(v);
        let mv = self.vref(v);
        let (l, c) = (mv.len(), mv.capacity());
        match lib(|| {
          let s = mv.spare_capacity_mut();
          (s.as_ptr() as usize, s.len())
        }) {
          Ok((p, sl)) => {
            ret = sl.to_string();
            let mv = self.vref(v);
            if sl != c - l.min(c) || (sl > 0 && p != mv.as_ptr() as usize + l * std::mem::size_of::<T>()) {
              self.monitor("spare_view_wrong".into());
            }
          }
          Err(_) => out = "panic",
        }
      }
      "splitspare" => {
        let v = n(1);
        need!(v);
        let mv = self.vref(v);
        let (l, c) = (mv.len(), mv.capacity());
        match lib(|| {
          let (a, b) = mv.split_at_spare_mut();
          (a.len(), b.len())
        }) {
          Ok((a, b)) => {
            ret = format!("{},{}", a, b);
            if a != l || b != c - l.min(c) {
              self.monitor("spare_view_wrong".into());
            }
          }
          Err(_) => out = "panic",
        }
      }
      "index" => {
        let v = n(1);
        need!(v);
        let i = self.arg(t(2), v);
        let mv = self.vref(v);
        let should_panic = i >= mv.len();
        match lib(|| mv[i].id()) {
          Ok(id) => {
            ret = id.to_string();
            if should_panic {
              self.monitor("accepted_out_of_range:index".into());
            }
          }
          Err(_) => {
            out = "panic";
            if !should_panic {
              self.monitor("rejected_in_range:index".into());
            }
          }
        }
      }
      "slice" => {
        let v = n(1);
        need!(v);
        let bs = self.bound(t(2), v);
        let be = self.bound(t(3), v);
        let mv = self.vref(v);
        match lib(|| {
          let sl = &mv[(to_b(&bs), to_b(&be))];
          let _u = User::enter();
          ids(sl)
        }) {
          Ok(s) => ret = s,
          Err(_) => out = "panic",
        }
      }
      "cmp" => {
        let (a, b) = (n(1), n(2));
        need!(a);
        need!(b);
        let x: &MiniVec<T> = self.vref(a);
        let y: &MiniVec<T> = self.vref(b);
        let _u = User::enter();
        let r = catch_unwind(AssertUnwindSafe(|| {
          use std::hash::{Hash, Hasher};
          let (xs, ys): (&[T], &[T]) = (&x[..], &y[..]);
          let mut bad = vec![];
          if (*x == *y) != (xs == ys) { bad.push("eq"); }
          if (*x != *y) != (xs != ys) { bad.push("ne"); }
          if x.partial_cmp(y) != xs.partial_cmp(ys) { bad.push("partial_cmp"); }
          if (*x == ys) != (xs == ys) || (xs == *y) != (xs == ys) { bad.push("eq_slice"); }
          if (*x < *y) != (xs < ys) || (*x >= *y) != (xs >= ys) { bad.push("lt_ge"); }
          // the same storage on both sides (elements that are not equal to themselves must still differ)
          if (*x == *x) != (xs == xs) || (*x != *x) != (xs != xs) { bad.push("eq_self"); }
          if (*x == xs) != (xs == xs) || (xs == *x) != (xs == xs) { bad.push("eq_self_slice"); }
          if x.partial_cmp(x) != xs.partial_cmp(xs) { bad.push("partial_cmp_self"); }
          {
            let xv: Vec<&T> = xs.iter().collect();
            let _ = xv;
          }
          let mut h1 = std::collections::hash_map::DefaultHasher::new();
          let mut h2 = std::collections::hash_map::DefaultHasher::new();
          x.hash(&mut h1);
          xs.hash(&mut h2);
          if h1.finish() != h2.finish() { bad.push("hash"); }
          if format!("{:?}", x) != format!("{:?}", xs) { bad.push("debug"); }
          let av: &[T] = x.as_ref();
          let bv: &[T] = std::borrow::Borrow::borrow(x);
          if av.as_ptr() != xs.as_ptr() || bv.as_ptr() != xs.as_ptr() || av.len() != xs.len() || bv.len() != xs.len() { bad.push("as_ref_borrow"); }
          let pc = match xs.partial_cmp(ys) { Some(std::cmp::Ordering::Less) => "lt", Some(std::cmp::Ordering::Equal) => "eq", Some(std::cmp::Ordering::Greater) => "gt", None => "none" };
          (format!("{},{}", xs == ys, pc), bad)
        }));
        lg().events.clear();
        match r {
          Ok((s, bad)) => {
            ret = s;
            for b in bad {
              self.monitor(format!("slice_semantics:{}", b));
            }
          }
          Err(_) => out = "panic",
        }
      }
      "drain" | "splice" => {
        let (v, i) = (n(1), n(2));
        need!(v);
        self.islot(i);
        if self.iters[i].is_some() {
          self.emit(k, name, "skip", "-");
          return;
        }
        let bs = self.bound(t(3), v);
        let be = self.bound(t(4), v);
        if !T::TRACKED {
          self.ibefore[i] = { let x = self.vref(v); let _u = User::enter(); x.iter().map(|e| e.id()).collect() };
        }
        let mv = self.vref(v);
        let len = mv.len();
        // expected acceptance per std: resolve without wrap-around
        let s = match bs { Bound::I(n) => Some(n), Bound::Ex(n) => n.checked_add(1), Bound::U => Some(0) };
        let e = match be { Bound::I(n) => n.checked_add(1), Bound::Ex(n) => Some(n), Bound::U => Some(len) };
        let accept = matches!((s, e), (Some(s), Some(e)) if s <= e && e <= len);
        let r = if name == "drain" {
          lib(|| It::Drain(v, mv.drain((to_b(&bs), to_b(&be)))))
        } else {
          let it = ScriptIter::<T>::new(t(5));
          lib(move || It::Splice(v, mv.splice((to_b(&bs), to_b(&be)), it)))
        };
        match r {
          Ok(it) => {
            if !accept {
              self.monitor(format!("accepted_out_of_range:{}", name));
            }
            self.iters[i] = Some(it);
            self.borrowed[v] = true;
            if accept {
              let (s, e) = (s.unwrap(), e.unwrap());
              if let Some(sh) = self.shadow[v].as_ref() {
                if e <= sh.len() {
                  self.ishadow[i] = Some(sh[s..e].iter().cloned().collect());
                  self.irange[i] = Some((s, e));
                }
              }
            }
          }
          Err(_) => {
            out = "panic";
            if accept {
              self.monitor(format!("rejected_in_range:{}", name));
            }
          }
        }
      }
      "dfilter" => {
        let (v, i) = (n(1), n(2));
        need!(v);
        self.islot(i);
        if self.iters[i].is_some() {
          self.emit(k, name, "skip", "-");
          return;
        }
        if !T::TRACKED {
          self.ibefore[i] = { let x = self.vref(v); let _u = User::enter(); x.iter().map(|e| e.id()).collect() };
        }
        let mv = self.vref(v);
        let p = Self::pred_box(t(3));
        match lib(move || It::Filter(v, mv.drain_filter(p))) {
          Ok(it) => {
            self.iters[i] = Some(it);
            self.borrowed[v] = true;
            self.ishadow[i] = None;
            self.iscript[i] = Some(t(3).to_string());
          }
          Err(_) => out = "panic",
        }
      }
      "intoiter" => {
        let (v, i) = (n(1), n(2));
        need!(v);
        self.islot(i);
        if self.iters[i].is_some() {
          self.emit(k, name, "skip", "-");
          return;
        }
        let mv = *self.vecs[v].take().unwrap();
        let sh = self.shadow[v].take();
        match lib(move || It::Into(mv.into_iter())) {
          Ok(it) => {
            self.iters[i] = Some(it);
            self.ishadow[i] = sh.map(|s| s.into_iter().collect());
          }
          Err(_) => out = "panic",
        }
      }
      "next" | "nextb" => {
        let i = n(1);
        needi!(i);
        let front = name == "next";
        let it = self.iters[i].as_mut().unwrap();
        let is_filter = matches!(it, It::Filter(..));
        let r = lib(|| match it {
          It::Drain(_, d) => Some(if front { d.next() } else { d.next_back() }),
          It::Splice(_, d) => Some(if front { d.next() } else { d.next_back() }),
          It::Filter(_, d) => {
            if front {
              Some(d.next())
            } else {
              None
            }
          }
          It::Into(d) => Some(if front { d.next() } else { d.next_back() }),
        });
        match r {
          Ok(None) => out = "skip",
          Ok(Some(x)) => {
            ret = match &x {
              Some(e) => format!("s{}", e.id()),
              None => "n".into(),
            };
            if let Some(e) = &x {
              if T::TRACKED && !e.valid() {
                self.monitor("garbage_yielded".into());
              }
              self.iyield[i].push(e.id());
            }
            if !is_filter {
              if let Some(sh) = self.ishadow[i].as_mut() {
                let exp = if front { sh.pop_front() } else { sh.pop_back() };
                if self.shadow_ok && exp != x.as_ref().map(|e| e.pay()) {
                  self.monitor(format!("iter_protocol:{}", name));
                }
              }
            }
          }
          Err(_) => out = "panic",
        }
      }
      "nth" => {
        // Iterator::nth through whatever implementation the iterator provides
        let i = n(1);
        needi!(i);
        let kk = n(2);
        if kk > 64 {
          self.emit(k, name, "skip", "-");
          return;
        }
        let it = self.iters[i].as_mut().unwrap();
        let is_filter = matches!(it, It::Filter(..));
        let r = lib(|| match it {
          It::Drain(_, d) => d.nth(kk),
          It::Splice(_, d) => d.nth(kk),
          It::Filter(_, d) => d.nth(kk),
          It::Into(d) => d.nth(kk),
        });
        match r {
          Ok(x) => {
            ret = match &x {
              Some(e) => format!("s{}", e.id()),
              None => "n".into(),
            };
            if let Some(e) = &x {
              if T::TRACKED && !e.valid() {
                self.monitor("garbage_yielded".into());
              }
              self.iyield[i].push(e.id());
            }
            if !is_filter {
              if let Some(sh) = self.ishadow[i].as_mut() {
                let mut exp = None;
                for _ in 0..=kk {
                  exp = sh.pop_front();
                  if exp.is_none() {
                    break;
                  }
                }
                if self.shadow_ok && exp != x.as_ref().map(|e| e.pay()) {
                  self.monitor("iter_protocol:nth".into());
                }
              }
            }
          }
          Err(_) => out = "panic",
        }
      }
      "nthb" => {
        let i = n(1);
        needi!(i);
        let kk = n(2);
        let is_filter = matches!(self.iters[i].as_ref().unwrap(), It::Filter(..));
        if kk > 64 || is_filter {
          self.emit(k, name, "skip", "-");
          return;
        }
        let it = self.iters[i].as_mut().unwrap();
        let r = lib(|| match it {
          It::Drain(_, d) => d.nth_back(kk),
          It::Splice(_, d) => d.nth_back(kk),
          It::Filter(..) => None,
          It::Into(d) => d.nth_back(kk),
        });
        match r {
          Ok(x) => {
            ret = match &x {
              Some(e) => format!("s{}", e.id()),
              None => "n".into(),
            };
            if let Some(e) = &x {
              if T::TRACKED && !e.valid() {
                self.monitor("garbage_yielded".into());
              }
              self.iyield[i].push(e.id());
            }
            if let Some(sh) = self.ishadow[i].as_mut() {
              let mut exp = None;
              for _ in 0..=kk {
                exp = sh.pop_back();
                if exp.is_none() {
                  break;
                }
              }
              if self.shadow_ok && exp != x.as_ref().map(|e| e.pay()) {
                self.monitor("iter_protocol:nth_back".into());
              }
            }
          }
          Err(_) => out = "panic",
        }
      }
      "count" | "last" => {
        // Iterator::count / Iterator::last consume the iterator; the (exhausted) iterator object is kept
        // so that the history can still drop or forget it: they run through `by_ref()`
        let i = n(1);
        needi!(i);
        let it = self.iters[i].as_mut().unwrap();
        let is_filter = matches!(it, It::Filter(..));
        let want = self.ishadow[i].as_ref().map(|sh| (sh.len(), sh.back().cloned()));
        if name == "count" {
          match lib(|| match it {
            It::Drain(_, d) => d.by_ref().count(),
            It::Splice(_, d) => d.by_ref().count(),
            It::Filter(_, d) => d.by_ref().count(),
            It::Into(d) => d.by_ref().count(),
          }) {
            Ok(c) => {
              ret = c.to_string();
              if !is_filter && self.shadow_ok {
                if let Some((l, _)) = want {
                  if l != c {
                    self.monitor("iter_protocol:count".into());
                  }
                }
              }
            }
            Err(_) => out = "panic",
          }
        } else {
          match lib(|| match it {
            It::Drain(_, d) => d.by_ref().last(),
            It::Splice(_, d) => d.by_ref().last(),
            It::Filter(_, d) => d.by_ref().last(),
            It::Into(d) => d.by_ref().last(),
          }) {
            Ok(x) => {
              ret = match &x {
                Some(e) => format!("s{}", e.id()),
                None => "n".into(),
              };
              if let Some(e) = &x {
                self.iyield[i].push(e.id());
              }
              if !is_filter && self.shadow_ok {
                if let Some((_, b)) = want {
                  if b != x.as_ref().map(|e| e.pay()) {
                    self.monitor("iter_protocol:last".into());
                  }
                }
              }
            }
            Err(_) => out = "panic",
          }
        }
        if let Some(sh) = self.ishadow[i].as_mut() {
          sh.clear();
        }
      }
      "hint" => {
        let i = n(1);
        needi!(i);
        let it = self.iters[i].as_ref().unwrap();
        let is_filter = matches!(it, It::Filter(..));
        match lib(|| match it {
          It::Drain(_, d) => (d.size_hint(), Some(d.len())),
          It::Splice(_, d) => (d.size_hint(), Some(d.len())),
          It::Filter(_, d) => (d.size_hint(), None),
          It::Into(d) => (d.size_hint(), Some(d.len())),
        }) {
          Ok(((lo, hi), l)) => {
            ret = format!("{},{}", lo, hi.map_or("-".to_string(), |h| h.to_string()));
            if !is_filter {
              if let Some(sh) = self.ishadow[i].as_ref() {
                if self.shadow_ok && (lo != sh.len() || hi != Some(sh.len()) || l != Some(sh.len())) {
                  self.monitor("iter_protocol:hint".into());
                }
              }
            }
          }
          Err(_) => out = "panic",
        }
      }
      "asslice" => {
        let i = n(1);
        needi!(i);
        match self.iters[i].as_mut().unwrap() {
          It::Into(d) => match lib(|| {
            let a = { let s = d.as_slice(); let _u = User::enter(); ids(s) };
            let b = { let s = d.as_mut_slice(); let _u = User::enter(); ids(s) };
            let c = { let s: &[T] = d.as_ref(); let _u = User::enter(); ids(s) };
            (a, b, c)
          }) {
            Ok((a, b, c)) => {
              if a != b || a != c {
                self.monitor("iter_protocol:as_slice_variants".into());
              }
              ret = a;
            }
            Err(_) => out = "panic",
          },
          _ => out = "skip",
        }
      }
      "cloneit" => {
        let (i, j) = (n(1), n(2));
        needi!(i);
        self.islot(j);
        if self.iters[j].is_some() {
          self.emit(k, name, "skip", "-");
          return;
        }
        match self.iters[i].as_ref().unwrap() {
          It::Into(d) => match { let calls0 = T::clone_calls(); let want = d.len() as u64; lib(|| It::Into(d.clone())).map(|c| (c, calls0, want)) } {
            Ok((c, calls0, want)) => {
              let calls1 = T::clone_calls();
              if calls0 != u64::MAX && calls1.wrapping_sub(calls0) != want {
                self.monitor(format!("clone_not_called:{}of{}", calls1.wrapping_sub(calls0), want));
              }
              self.iters[j] = Some(c);
              self.ishadow[j] = self.ishadow[i].clone();
            }
            Err(_) => out = "panic",
          },
          _ => out = "skip",
        }
      }
      "dropit" | "forget" => {
        let i = n(1);
        needi!(i);
        let it = self.iters[i].take().unwrap();
        let vi = match &it {
          It::Drain(v, _) | It::Splice(v, _) | It::Filter(v, _) => Some(*v),
          It::Into(_) => None,
        };
        let kind = match &it {
          It::Drain(..) => 0,
          It::Splice(..) => 1,
          It::Filter(..) => 2,
          It::Into(_) => 3,
        };
        let r = if name == "dropit" {
          lib(move || drop(it))
        } else {
          self.shadow_ok = false;
          lib(move || std::mem::forget(it))
        };
        if r.is_err() {
          out = "panic";
          self.shadow_ok = false;
        }
        let handed = std::mem::take(&mut self.iyield[i]);
        if let Some(v) = vi {
          self.borrowed[v] = false;
          // a value that was handed out must not be observable through the vector again (for the
          // tracked classes the ledger says so; for the plain-data classes compare the values)
          if !T::TRACKED && r.is_ok() && !handed.is_empty() {
            if let Some(vec) = self.vecs[v].as_ref() {
              let seen: Vec<u32> = { let _u = User::enter(); vec.iter().map(|x| x.id()).collect() };
              let before = std::mem::take(&mut self.ibefore[i]);
              let cnt = |l: &Vec<u32>, x: u32| l.iter().filter(|y| **y == x).count();
              // (values may legitimately repeat in a plain-data vector: count them)
              if let Some(d) = handed.iter().find(|h| cnt(&seen, **h) + cnt(&handed, **h) > cnt(&before, **h)) {
                self.monitor(format!("handed_out_still_exposed:{}", d));
              }
            }
          }
          let range = self.irange[i].take();
          if name == "dropit" && r.is_ok() && (kind == 0 || kind == 1) && self.shadow_ok {
            // std oracle: Vec::drain / Vec::splice on the shadow; the replacement is what the scripted
            // iterator produced during this drop, up to its first None
            let mut repl: Vec<i64> = vec![];
            for ev in lg().events.iter() {
              if ev == "gn" || ev == "gP" {
                break;
              }
              if let Some(id) = ev.strip_prefix('g').and_then(|x| x.parse::<u32>().ok()) {
                repl.push(elem::payload_of(id));
              }
            }
            match (self.shadow[v].as_mut(), range) {
              (Some(sh), Some((s0, e0))) if e0 <= sh.len() => {
                let _: Vec<i64> = sh.splice(s0..e0, repl).collect();
              }
              _ => self.shadow[v] = None,
            }
          } else if name == "dropit" && r.is_ok() && kind == 2 && self.shadow_ok && self.iscript[i].as_deref().map_or(false, |x| !x.contains('P')) {
            // drain_filter: the predicate is asked once per element, in order; the answers come from the
            // script (false once it is exhausted): what stays is exactly the elements answered false
            let mut sc = Script::new(self.iscript[i].as_deref().unwrap_or("-"));
            if let Some(sh) = self.shadow[v].as_mut() {
              sh.retain(|_| sc.next(b'F') != b'T');
            }
          } else {
            // forget / panic: re-read what is there (the model comparison judges it)
            let mv = self.vref(v);
            if mv.len() <= mv.capacity() && name == "dropit" && r.is_ok() {
              self.shadow[v] = Some(mv.iter().map(|x| x.pay()).collect());
            } else {
              self.shadow[v] = None;
            }
          }
        }
        self.ishadow[i] = None;
      }
      _ => {
        out = "unknown";
      }
    }
    if let (Some(v), Some((p0, c0, l0)), Some(ids0)) = (target, pre, pre_ids.as_ref()) {
      let guarded = matches!(name, "insert" | "remove" | "swaprm" | "splitoff" | "drain" | "splice" | "extwithin" | "shrinkto" | "index" | "slice");
      if out == "panic" && guarded && lg().drop_panics.is_empty() && lg().clone_panics.is_empty()
        && v < self.vecs.len() && self.vecs[v].is_some() && !self.borrowed[v]
      {
        let mv = self.vref(v);
        let same = mv.as_ptr() as usize == p0 && mv.capacity() == c0 && mv.len() == l0
          && mv.len() <= mv.capacity() && mv.iter().map(|x| x.id()).eq(ids0.iter().cloned());
        if !same {
          self.monitor(format!("changed_by_rejected_call:{}", name));
        }
      }
    }
    let stability_op = matches!(name, "dropit" | "push" | "insert" | "extslice" | "extend" | "extwithin" | "append" | "resize" | "resizewith" | "pop"
      | "remove" | "swaprm" | "trunc" | "clear" | "retain" | "dedup" | "dedupby" | "dedupkey" | "rmitem" | "drain" | "splice");
    if let (Some(v), Some((p0, c0, _l0)), true) = (target, pre, stability_op) {
      if out == "ok" && v < self.vecs.len() && self.vecs[v].is_some() && !self.borrowed[v] {
        let mv = self.vref(v);
        let (p1, c1, l1) = (mv.as_ptr() as usize, mv.capacity(), mv.len());
        let removing = matches!(name, "pop" | "remove" | "swaprm" | "trunc" | "clear" | "retain" | "dedup" | "dedupby" | "dedupkey" | "rmitem");
        // an element-removing operation, or an element-adding one whose result fits the old capacity,
        // must leave the storage where it is with the same capacity
        if (removing || l1 <= c0) && (p1 != p0 || c1 != c0) && !(p0 == 0 && c0 == 0 && l1 == 0 && p1 == 0) {
          if !(p0 == 0 && l1 > 0) {
            self.monitor(format!("storage_moved:{}:cap{}>{}", name, c0, c1));
          }
        }
      }
    }
    if let (Some(v), true) = (asks_nothing, pre_no_storage) {
      if out == "ok" && v < self.vecs.len() && self.vecs[v].is_some() && !self.borrowed[v] {
        let mv = self.vref(v);
        if !mv.as_ptr().is_null() || mv.capacity() != 0 {
          self.monitor(format!("storage_for_nothing:{}:v{}", name, v));
        }
      }
    }
    self.emit(k, name, out, &ret);
  }

  /// end of history: drop iterators, then vectors (library drops), then report the final ledger
  /// stop after a fatal monitor: every object is leaked instead of dropped (running destructors over a
  /// corrupted length would only crash or hang the harness; the violation is already recorded)
  pub fn abandon(&mut self, k: usize) {
    for i in 0..self.iters.len() {
      if let Some(it) = self.iters[i].take() {
        std::mem::forget(it);
      }
    }
    for v in 0..self.vecs.len() {
      if let Some(mv) = self.vecs[v].take() {
        std::mem::forget(mv);
      }
      self.shadow[v] = None;
    }
    self.emit(k, "end", "stopped", "-");
  }

  pub fn finish(&mut self, k: usize) {
    for i in 0..self.iters.len() {
      if let Some(it) = self.iters[i].take() {
        let _ = lib(move || drop(it));
      }
    }
    for v in 0..self.vecs.len() {
      self.borrowed[v] = false;
      if let Some(mv) = self.vecs[v].take() {
        let _ = lib(move || drop(mv));
      }
      self.shadow[v] = None;
    }
    let l = lg();
    let mut led = String::new();
    for i in 0..(l.next as usize) {
      led.push(match l.status[i] {
        elem::ST_LIVE => 'L',
        elem::ST_OUT => 'O',
        elem::ST_DROPPED => 'D',
        _ => '?',
      });
    }
    let live: Vec<String> = alloc::live_blocks().iter().map(|(s, a)| format!("{}:{}", s, a)).collect();
    self.emit(k, "end", "ok", &format!("{};[{}]", if T::TRACKED { led } else { String::new() }, live.join(",")));
  }
}

/// run one history line: `H <id> cls=.. [dp=..] [cp=..] [af=..] [lim=..] :: op ; op ; ...`
pub fn run_history<T: E>(line: &str) -> String {
  elem::reset();
  alloc::reset();
  let (hdr, body) = match line.split_once("::") {
    Some(x) => x,
    None => return String::from("bad history\n"),
  };
  let mut id = "?";
  for (i, tok) in hdr.split_whitespace().enumerate() {
    if i == 1 {
      id = tok;
    }
    if let Some(r) = tok.strip_prefix("dp=") {
      lg().drop_panics = r.split(',').filter_map(|x| x.parse().ok()).collect();
    } else if let Some(r) = tok.strip_prefix("cp=") {
      lg().clone_panics = r.split(',').filter_map(|x| x.parse().ok()).collect();
    } else if let Some(r) = tok.strip_prefix("af=") {
      unsafe { alloc::FAIL_AT = r.parse().unwrap_or(-1) };
    } else if let Some(r) = tok.strip_prefix("lim=") {
      unsafe { alloc::LIMIT = r.parse().unwrap_or(1 << 30) };
    }
  }
  let mut w = World::<T>::new();
  println!("H {}", id);
  let mut k = 0;
  for op in body.split(';') {
    let toks: Vec<&str> = op.split_whitespace().collect();
    if toks.is_empty() {
      continue;
    }
    w.step(k, &toks);
    k += 1;
    if w.fatal {
      break;
    }
  }
  if w.fatal {
    w.abandon(k);
  } else {
    w.finish(k);
  }
  let out = std::mem::take(&mut w.out);
  drop(w);
  alloc::reset();
  out
}
