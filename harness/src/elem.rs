//! Identity-tracked element types of several size/alignment classes, with a ledger that gives
//! per-identity accounting (a global drop counter cannot tell a double drop + a leak from two drops).
use crate::alloc;

pub const MAXID: usize = 4096;
pub const ST_FRESH: u8 = 0;
pub const ST_LIVE: u8 = 1;
pub const ST_OUT: u8 = 2; // handed to the caller (dropped by the harness, outside a minivec call)
pub const ST_DROPPED: u8 = 3; // destructor run by the library

pub struct Ledger {
  pub status: [u8; MAXID],
  pub payload: [i64; MAXID],
  pub next: u32,
  pub drop_panics: Vec<u32>,
  pub clone_panics: Vec<u32>,
  pub events: Vec<String>,
  pub viol: Vec<String>,
}

pub static mut LG: Ledger = Ledger {
  status: [0; MAXID],
  payload: [0; MAXID],
  next: 0,
  drop_panics: Vec::new(),
  clone_panics: Vec::new(),
  events: Vec::new(),
  viol: Vec::new(),
};

pub struct ScriptPanic;

/// untracked section: user code (callbacks, destructors) running inside a minivec call
pub struct User(i32);
impl User {
  pub fn enter() -> User {
    unsafe {
      let t = alloc::TRACK;
      alloc::TRACK = 0;
      User(t)
    }
  }
}
impl Drop for User {
  fn drop(&mut self) {
    unsafe {
      alloc::TRACK = self.0;
    }
  }
}

#[allow(static_mut_refs)]
pub fn lg() -> &'static mut Ledger {
  unsafe { &mut LG }
}

pub fn reset() {
  let _u = User::enter();
  let l = lg();
  for i in 0..(l.next as usize).min(MAXID) {
    l.status[i] = 0;
    l.payload[i] = 0;
  }
  l.next = 0;
  l.drop_panics.clear();
  l.clone_panics.clear();
  l.events.clear();
  l.viol.clear();
}

pub fn fresh(payload: Option<i64>) -> u32 {
  let l = lg();
  let id = l.next;
  assert!((id as usize) < MAXID, "too many elements in one history");
  l.next += 1;
  l.status[id as usize] = ST_LIVE;
  l.payload[id as usize] = payload.unwrap_or(id as i64);
  id
}

pub fn in_lib() -> bool {
  unsafe { alloc::TRACK > 0 }
}

pub fn script_panic() -> ! {
  unsafe {
    crate::alloc::PANIC_SKIP_ONCE = true;
  }
  std::panic::resume_unwind(Box::new(ScriptPanic))
}

pub fn violation(s: String) {
  let _u = User::enter();
  lg().viol.push(s);
}

fn known(id: u32) -> bool {
  (id as usize) < MAXID && id < lg().next
}

pub fn on_drop(id: u32, valid: bool) {
  let lib = in_lib();
  let _u = User::enter();
  let l = lg();
  if !valid || !known(id) {
    l.viol.push(format!("garbage_dropped:{}", id));
    return;
  }
  match l.status[id as usize] {
    ST_LIVE => {
      if lib {
        l.status[id as usize] = ST_DROPPED;
        l.events.push(format!("d{}", id));
      } else {
        l.status[id as usize] = ST_OUT;
      }
    }
    _ => {
      l.viol.push(format!("double_drop:{}", id));
      if lib {
        l.events.push(format!("d{}", id));
      }
      return;
    }
  }
  if lib && l.drop_panics.contains(&id) {
    drop(_u);
    script_panic();
  }
}

/// returns the identity of the clone
pub fn on_clone(id: u32, valid: bool) -> u32 {
  let _u = User::enter();
  let l = lg();
  if !valid || !known(id) {
    l.viol.push(format!("garbage_cloned:{}", id));
    return fresh(None);
  }
  if l.status[id as usize] != ST_LIVE {
    l.viol.push(format!("dead_exposed:{}", id));
  }
  if l.clone_panics.contains(&id) {
    l.events.push(format!("k:clone_panic:{}", id));
    drop(_u);
    script_panic();
  }
  let n = fresh(Some(l.payload[id as usize]));
  lg().events.push(format!("c{}>{}", id, n));
  n
}

/// a reference to the element is being used by user code (callback argument, slice read)
pub fn on_expose(id: u32, valid: bool) {
  let _u = User::enter();
  let l = lg();
  if !valid || !known(id) {
    l.viol.push(format!("garbage_exposed:{}", id));
  } else if l.status[id as usize] != ST_LIVE {
    l.viol.push(format!("dead_exposed:{}", id));
  }
}

pub fn payload_of(id: u32) -> i64 {
  if known(id) {
    lg().payload[id as usize]
  } else {
    -1
  }
}

pub fn log_call(s: String) {
  let _u = User::enter();
  lg().events.push(s);
}

pub trait Elem: Sized + 'static {
  const NAME: &'static str;
  const TRACKED: bool;
  fn make(id: u32) -> Self;
  fn id(&self) -> u32;
  fn valid(&self) -> bool;
  /// a fresh element with the next identity
  fn fresh(payload: Option<i64>) -> Self {
    let _u = User::enter();
    Self::make(fresh(payload))
  }
  fn pay(&self) -> i64 {
    payload_of(self.id())
  }
  /// how often T::clone has run (only the clone-observing class counts)
  fn clone_calls() -> u64 {
    if Self::NAME == "8x8k" {
      K_CLONES.load(std::sync::atomic::Ordering::SeqCst)
    } else {
      u64::MAX
    }
  }
  /// MiniVec::<u8>::from(&str) exists for u8 only
  fn vec_from_str(_s: &str) -> Option<minivec::MiniVec<Self>> {
    None
  }
}

/// plain bytes: the element type of From<&str>; untracked, identity = value
impl Elem for u8 {
  const NAME: &'static str = "u8";
  const TRACKED: bool = false;
  fn make(id: u32) -> Self {
    id as u8
  }
  fn id(&self) -> u32 {
    *self as u32
  }
  fn valid(&self) -> bool {
    true
  }
  fn vec_from_str(s: &str) -> Option<minivec::MiniVec<u8>> {
    Some(minivec::MiniVec::<u8>::from(s))
  }
}

/// payload 7 plays the role of NaN: unordered and unequal to everything including itself
pub const NAN_PAYLOAD: i64 = 7;

macro_rules! def_elem {
  ($name:ident, $copyname:ident, $label:expr, $size:expr, $align:expr, $k:expr) => {
    #[repr(C, align($align))]
    pub struct $name {
      idb: [u8; $k],
      pad: [u8; $size - $k],
    }
    #[repr(C, align($align))]
    #[derive(Clone, Copy)]
    pub struct $copyname {
      idb: [u8; $k],
      pad: [u8; $size - $k],
    }
    def_elem!(@common $name, $label, true, $size, $k);
    def_elem!(@common $copyname, concat!($label, "c"), false, $size, $k);
    impl Drop for $name {
      fn drop(&mut self) {
        on_drop(self.id(), self.valid());
      }
    }
    impl Clone for $name {
      fn clone(&self) -> Self {
        Self::make(on_clone(self.id(), self.valid()))
      }
    }
  };
  (@common $name:ident, $label:expr, $tracked:expr, $size:expr, $k:expr) => {
    impl Elem for $name {
      const NAME: &'static str = $label;
      const TRACKED: bool = $tracked;
      fn make(id: u32) -> Self {
        let b = id.to_le_bytes();
        let mut idb = [0u8; $k];
        for i in 0..$k {
          idb[i] = b[i];
        }
        let mut pad = [0u8; $size - $k];
        for i in 0..($size - $k) {
          pad[i] = (id as u8) ^ (i as u8) ^ 0x5a;
        }
        $name { idb, pad }
      }
      fn id(&self) -> u32 {
        let mut b = [0u8; 4];
        for i in 0..$k {
          b[i] = self.idb[i];
        }
        u32::from_le_bytes(b)
      }
      fn valid(&self) -> bool {
        let id = self.id();
        for i in 0..($size - $k) {
          if self.pad[i] != (id as u8) ^ (i as u8) ^ 0x5a {
            return false;
          }
        }
        true
      }
    }
    impl PartialEq for $name {
      fn eq(&self, o: &Self) -> bool {
        if $tracked {
          on_expose(self.id(), self.valid());
          on_expose(o.id(), o.valid());
        }
        log_call(format!("q{},{}", self.id(), o.id()));
        let (a, b) = (self.pay(), o.pay());
        a == b && a != NAN_PAYLOAD
      }
    }
    impl PartialOrd for $name {
      fn partial_cmp(&self, o: &Self) -> Option<std::cmp::Ordering> {
        let (a, b) = (self.pay(), o.pay());
        if a == NAN_PAYLOAD || b == NAN_PAYLOAD {
          None
        } else {
          a.partial_cmp(&b)
        }
      }
    }
    impl std::hash::Hash for $name {
      fn hash<H: std::hash::Hasher>(&self, h: &mut H) {
        self.pay().hash(h)
      }
    }
    impl std::fmt::Debug for $name {
      fn fmt(&self, f: &mut std::fmt::Formatter<'_>) -> std::fmt::Result {
        write!(f, "E{}", self.pay())
      }
    }
  };
}

def_elem!(E1x1, C1x1, "1x1", 1, 1, 1);
def_elem!(E2x2, C2x2, "2x2", 2, 2, 2);
def_elem!(E3x1, C3x1, "3x1", 3, 1, 3);
def_elem!(E8x8, C8x8, "8x8", 8, 8, 4);
def_elem!(E24x8, C24x8, "24x8", 24, 8, 4);
def_elem!(E16x16, C16x16, "16x16", 16, 16, 4);
def_elem!(E64x64, C64x64, "64x64", 64, 64, 4);
def_elem!(E2048x8, C2048x8, "2048x8", 2048, 8, 4);

/// 8x8k: Clone but not Copy, no Drop glue, and its clone is OBSERVABLE (a counter): a vector or
/// iterator clone that copies the bits instead of calling T::clone is caught on this class
#[repr(C, align(8))]
pub struct K8x8 {
  idb: [u8; 4],
  pad: [u8; 4],
}
pub static K_CLONES: std::sync::atomic::AtomicU64 = std::sync::atomic::AtomicU64::new(0);
impl Clone for K8x8 {
  fn clone(&self) -> Self {
    K_CLONES.fetch_add(1, std::sync::atomic::Ordering::SeqCst);
    K8x8 { idb: self.idb, pad: self.pad }
  }
}
def_elem!(@common K8x8, "8x8k", false, 8, 4);
