//! C19: serde round trip and bounded pre-allocation, on the real crate (feature `serde`).
//! A scripted SeqAccess reports any size hint and can fail at any position; elements are plain
//! u32 (capacity / allocation is what is observed); one line of output per case.
use crate::alloc;
use minivec::MiniVec;
use serde::de::{DeserializeSeed, Deserializer, SeqAccess, Visitor};
use serde::Deserialize;

#[derive(Debug)]
pub struct E(String);
impl std::fmt::Display for E {
  fn fmt(&self, f: &mut std::fmt::Formatter<'_>) -> std::fmt::Result {
    write!(f, "{}", self.0)
  }
}
impl std::error::Error for E {}
impl serde::de::Error for E {
  fn custom<T: std::fmt::Display>(m: T) -> Self {
    E(m.to_string())
  }
}

struct Seq<'a> {
  items: &'a [u32],
  pos: usize,
  hint: Option<usize>,
  fail_at: Option<usize>,
}
impl<'de, 'a> SeqAccess<'de> for Seq<'a> {
  type Error = E;
  fn next_element_seed<S: DeserializeSeed<'de>>(&mut self, seed: S) -> Result<Option<S::Value>, E> {
    if Some(self.pos) == self.fail_at {
      return Err(E("element error".into()));
    }
    if self.pos >= self.items.len() {
      return Ok(None);
    }
    let v = self.items[self.pos];
    self.pos += 1;
    seed.deserialize(serde::de::value::U32Deserializer::<E>::new(v)).map(Some)
  }
  fn size_hint(&self) -> Option<usize> {
    self.hint
  }
}
struct D<'a>(Seq<'a>);
impl<'de, 'a> Deserializer<'de> for D<'a> {
  type Error = E;
  fn deserialize_any<V: Visitor<'de>>(self, v: V) -> Result<V::Value, E> {
    v.visit_seq(self.0)
  }
  serde::forward_to_deserialize_any! {
    bool i8 i16 i32 i64 i128 u8 u16 u32 u64 u128 f32 f64 char str string bytes byte_buf option unit
    unit_struct newtype_struct seq tuple tuple_struct map struct enum identifier ignored_any
  }
}


// ---- a recording Serializer: what exactly is announced and emitted (the slice's own Serialize run
// through the same recorder is the oracle); only sequences of u32 are supported ----
impl serde::ser::Error for E {
  fn custom<T: std::fmt::Display>(m: T) -> Self {
    E(m.to_string())
  }
}
#[derive(Debug, PartialEq, Clone)]
pub struct Recorded {
  announced: Option<usize>,
  elems: Vec<u32>,
  seqs_begun: usize,
  ended: bool,
}
struct Rec<'a>(&'a mut Recorded);
struct RecSeq<'a>(&'a mut Recorded);
struct ElemRec<'a>(&'a mut Recorded);
macro_rules! unsupported {
  ($($f:ident($($t:ty),*) ;)*) => { $( fn $f(self, $(_: $t),*) -> Result<(), E> { Err(E("unsupported".into())) } )* };
}
impl<'a> serde::Serializer for ElemRec<'a> {
  type Ok = ();
  type Error = E;
  type SerializeSeq = serde::ser::Impossible<(), E>;
  type SerializeTuple = serde::ser::Impossible<(), E>;
  type SerializeTupleStruct = serde::ser::Impossible<(), E>;
  type SerializeTupleVariant = serde::ser::Impossible<(), E>;
  type SerializeMap = serde::ser::Impossible<(), E>;
  type SerializeStruct = serde::ser::Impossible<(), E>;
  type SerializeStructVariant = serde::ser::Impossible<(), E>;
  fn serialize_u32(self, v: u32) -> Result<(), E> {
    self.0.elems.push(v);
    Ok(())
  }
  unsupported! { serialize_bool(bool); serialize_i8(i8); serialize_i16(i16); serialize_i32(i32); serialize_i64(i64);
    serialize_u8(u8); serialize_u16(u16); serialize_u64(u64); serialize_f32(f32); serialize_f64(f64);
    serialize_char(char); serialize_str(&str); serialize_bytes(&[u8]); serialize_none(); serialize_unit();
    serialize_unit_struct(&'static str); serialize_unit_variant(&'static str, u32, &'static str); }
  fn serialize_some<T: ?Sized + serde::Serialize>(self, _: &T) -> Result<(), E> { Err(E("unsupported".into())) }
  fn serialize_newtype_struct<T: ?Sized + serde::Serialize>(self, _: &'static str, _: &T) -> Result<(), E> { Err(E("unsupported".into())) }
  fn serialize_newtype_variant<T: ?Sized + serde::Serialize>(self, _: &'static str, _: u32, _: &'static str, _: &T) -> Result<(), E> { Err(E("unsupported".into())) }
  fn serialize_seq(self, _: Option<usize>) -> Result<Self::SerializeSeq, E> { Err(E("unsupported".into())) }
  fn serialize_tuple(self, _: usize) -> Result<Self::SerializeTuple, E> { Err(E("unsupported".into())) }
  fn serialize_tuple_struct(self, _: &'static str, _: usize) -> Result<Self::SerializeTupleStruct, E> { Err(E("unsupported".into())) }
  fn serialize_tuple_variant(self, _: &'static str, _: u32, _: &'static str, _: usize) -> Result<Self::SerializeTupleVariant, E> { Err(E("unsupported".into())) }
  fn serialize_map(self, _: Option<usize>) -> Result<Self::SerializeMap, E> { Err(E("unsupported".into())) }
  fn serialize_struct(self, _: &'static str, _: usize) -> Result<Self::SerializeStruct, E> { Err(E("unsupported".into())) }
  fn serialize_struct_variant(self, _: &'static str, _: u32, _: &'static str, _: usize) -> Result<Self::SerializeStructVariant, E> { Err(E("unsupported".into())) }
}
impl<'a> serde::ser::SerializeSeq for RecSeq<'a> {
  type Ok = ();
  type Error = E;
  fn serialize_element<T: ?Sized + serde::Serialize>(&mut self, v: &T) -> Result<(), E> {
    v.serialize(ElemRec(self.0))
  }
  fn end(self) -> Result<(), E> {
    self.0.ended = true;
    Ok(())
  }
}
impl<'a> serde::Serializer for Rec<'a> {
  type Ok = ();
  type Error = E;
  type SerializeSeq = RecSeq<'a>;
  type SerializeTuple = serde::ser::Impossible<(), E>;
  type SerializeTupleStruct = serde::ser::Impossible<(), E>;
  type SerializeTupleVariant = serde::ser::Impossible<(), E>;
  type SerializeMap = serde::ser::Impossible<(), E>;
  type SerializeStruct = serde::ser::Impossible<(), E>;
  type SerializeStructVariant = serde::ser::Impossible<(), E>;
  fn serialize_seq(self, len: Option<usize>) -> Result<RecSeq<'a>, E> {
    self.0.announced = len;
    self.0.seqs_begun += 1;
    Ok(RecSeq(self.0))
  }
  unsupported! { serialize_bool(bool); serialize_i8(i8); serialize_i16(i16); serialize_i32(i32); serialize_i64(i64);
    serialize_u8(u8); serialize_u16(u16); serialize_u32(u32); serialize_u64(u64); serialize_f32(f32); serialize_f64(f64);
    serialize_char(char); serialize_str(&str); serialize_bytes(&[u8]); serialize_none(); serialize_unit();
    serialize_unit_struct(&'static str); serialize_unit_variant(&'static str, u32, &'static str); }
  fn serialize_some<T: ?Sized + serde::Serialize>(self, _: &T) -> Result<(), E> { Err(E("unsupported".into())) }
  fn serialize_newtype_struct<T: ?Sized + serde::Serialize>(self, _: &'static str, _: &T) -> Result<(), E> { Err(E("unsupported".into())) }
  fn serialize_newtype_variant<T: ?Sized + serde::Serialize>(self, _: &'static str, _: u32, _: &'static str, _: &T) -> Result<(), E> { Err(E("unsupported".into())) }
  fn serialize_tuple(self, _: usize) -> Result<Self::SerializeTuple, E> { Err(E("unsupported".into())) }
  fn serialize_tuple_struct(self, _: &'static str, _: usize) -> Result<Self::SerializeTupleStruct, E> { Err(E("unsupported".into())) }
  fn serialize_tuple_variant(self, _: &'static str, _: u32, _: &'static str, _: usize) -> Result<Self::SerializeTupleVariant, E> { Err(E("unsupported".into())) }
  fn serialize_map(self, _: Option<usize>) -> Result<Self::SerializeMap, E> { Err(E("unsupported".into())) }
  fn serialize_struct(self, _: &'static str, _: usize) -> Result<Self::SerializeStruct, E> { Err(E("unsupported".into())) }
  fn serialize_struct_variant(self, _: &'static str, _: u32, _: &'static str, _: usize) -> Result<Self::SerializeStructVariant, E> { Err(E("unsupported".into())) }
}
fn record<T: serde::Serialize + ?Sized>(v: &T) -> (Recorded, bool) {
  let mut r = Recorded { announced: None, elems: vec![], seqs_begun: 0, ended: false };
  let ok = v.serialize(Rec(&mut r)).is_ok();
  (r, ok)
}

// ---- an element type with a ledger: every value created by deserialization must be destroyed exactly
// once, whatever happens (success, element error part-way, in place over old contents) ----
static LEDGER: std::sync::Mutex<Vec<u8>> = std::sync::Mutex::new(Vec::new());   // 1 = live, 2 = dropped, 3 = dropped twice
#[derive(Debug)]
struct Tracked(usize, u32);
impl Tracked {
  fn new(v: u32) -> Tracked {
    let mut l = LEDGER.lock().unwrap();
    l.push(1);
    Tracked(l.len() - 1, v)
  }
}
impl Drop for Tracked {
  fn drop(&mut self) {
    let mut l = LEDGER.lock().unwrap();
    l[self.0] = if l[self.0] == 1 { 2 } else { 3 };
  }
}
impl<'de> Deserialize<'de> for Tracked {
  fn deserialize<D: Deserializer<'de>>(d: D) -> Result<Self, D::Error> {
    u32::deserialize(d).map(Tracked::new)
  }
}
fn ledger_reset() {
  LEDGER.lock().unwrap().clear();
}
// (still live, destroyed twice)
fn ledger_state() -> (usize, usize) {
  let l = LEDGER.lock().unwrap();
  (l.iter().filter(|x| **x == 1).count(), l.iter().filter(|x| **x == 3).count())
}

fn tracked<R>(f: impl FnOnce() -> R) -> (R, usize) {
  // bytes requested from the allocator by the call (tracked allocations only)
  let _ = alloc::take_events();
  unsafe { alloc::TRACK = 1 };
  let r = f();
  unsafe { alloc::TRACK = 0 };
  let mut max = 0usize;
  for e in alloc::take_events() {
    match e {
      alloc::Ev::Alloc(s, _) | alloc::Ev::Realloc(_, _, s) => max = max.max(s),
      _ => {}
    }
  }
  (r, max)
}

pub fn run() {
  let seqs: Vec<Vec<u32>> = vec![vec![], vec![7], vec![1, 2, 3], (0..10).collect(), (0..1500).collect(), (0..2049).collect()];
  let hints: Vec<Option<usize>> = vec![None, Some(0), Some(1), Some(3), Some(1024), Some(1025), Some(100_000), Some(usize::MAX), Some(usize::MAX / 4)];
  let mut n = 0;
  let mut bad = 0;
  for items in &seqs {
    // serialization: one sequence, the elements in order (same text as the slice and as Vec)
    let mv: MiniVec<u32> = items.iter().cloned().collect();
    let a = serde_json::to_string(&mv).unwrap();
    let b = serde_json::to_string(&items).unwrap();
    let c = serde_json::to_string(&items[..]).unwrap();
    let ok = a == b && a == c;
    n += 1;
    if !ok {
      bad += 1;
    }
    println!("SER len={} ok={}", items.len(), ok);
    // what is announced and emitted, for several storage states with the same contents (spare capacity,
    // exact capacity, grown by pushes, shrunk after pops): one sequence, the slice's announcement, the
    // elements in order, ended
    let mut states: Vec<MiniVec<u32>> = vec![];
    states.push(items.iter().cloned().collect());
    let mut a1: MiniVec<u32> = MiniVec::with_capacity(items.len() + 7);
    a1.extend(items.iter().cloned());
    states.push(a1);
    let mut a2: MiniVec<u32> = MiniVec::new();
    for x in items.iter() {
      a2.push(*x);
    }
    states.push(a2);
    let mut a3: MiniVec<u32> = items.iter().cloned().chain(0..5).collect();
    a3.truncate(items.len());
    states.push(a3);
    let mut a4: MiniVec<u32> = items.iter().cloned().collect();
    a4.shrink_to_fit();
    states.push(a4);
    let (oracle, ook) = record(&items[..]);
    for (k, st) in states.iter().enumerate() {
      let (got, gok) = record(st);
      // serde allows a serializer to be told `None`; a length that IS announced must be the number of
      // elements emitted
      let announced_ok = got.announced.map_or(true, |a| a == got.elems.len());
      let same = gok == ook && got.elems == oracle.elems && announced_ok && got.seqs_begun == 1 && got.ended;
      n += 1;
      if !same {
        bad += 1;
      }
      println!("SERREC len={} state={} cap={} announced={:?} emitted={} ok={}", items.len(), k, st.capacity(), got.announced, got.elems.len(), same);
    }
    let back: MiniVec<u32> = serde_json::from_str(&a).unwrap();
    let ok2 = back[..] == items[..];
    n += 1;
    if !ok2 {
      bad += 1;
    }
    println!("JSONRT len={} ok={}", items.len(), ok2);
    for h in &hints {
      // fresh deserialization with a claimed hint
      let (r, maxreq) = tracked(|| MiniVec::<u32>::deserialize(D(Seq { items, pos: 0, hint: *h, fail_at: None })));
      let v = r.unwrap();
      let exact = v[..] == items[..];
      // up-front reservation bounded: nothing larger than what 2048 elements need (amortised growth
      // of at most one doubling above the 1024-element cap) unless the data itself is longer
      let bound = 24 + 4 * std::cmp::max(2048, 2 * items.len().next_power_of_two());
      let bounded = maxreq <= bound;
      n += 1;
      if !(exact && bounded) {
        bad += 1;
      }
      println!("DE len={} hint={:?} exact={} maxreq={} bounded={} cap={}", items.len(), h, exact, maxreq, bounded, v.capacity());
      unsafe { alloc::TRACK = 1 };
      drop(v);
      unsafe { alloc::TRACK = 0 };
      // in place, over shorter / equal / longer prior contents with various capacities
      for prior in [0usize, 1, items.len(), items.len() + 3, 40, 3000] {
        for extra_cap in [0usize, 5] {
          // the destination's own block is a tracked block too, so that a reallocation of it shows
          unsafe { alloc::TRACK = 1 };
          let mut place: MiniVec<u32> = MiniVec::with_capacity(prior + extra_cap);
          for k in 0..prior {
            place.push(900_000 + k as u32);
          }
          unsafe { alloc::TRACK = 0 };
          let cap0 = place.capacity();
          let (r, maxreq) = tracked(|| MiniVec::<u32>::deserialize_in_place(D(Seq { items, pos: 0, hint: *h, fail_at: None }), &mut place));
          r.unwrap();
          let exact = place[..] == items[..];
          // what may legitimately ask for storage: the data itself (amortised growth while pushing) and
          // the up-front reservation for the claimed length, capped at 1024 elements.  When neither
          // exceeds the capacity the destination already has, a request for more than 1024 elements
          // beyond that capacity is an unbounded up-front reservation.
          let capped = std::cmp::min(h.unwrap_or(0), 1024);
          let needed = std::cmp::max(items.len(), capped);
          let bound = if needed <= cap0 {
            24 + 4 * (cap0 + 1024)
          } else {
            24 + 4 * std::cmp::max(std::cmp::max(2048, 2 * cap0), 2 * items.len().next_power_of_two())
          };
          let bounded = maxreq <= bound;
          n += 1;
          if !(exact && bounded) {
            bad += 1;
            println!("INPLACE len={} hint={:?} prior={} cap0={} exact={} maxreq={} bounded={}", items.len(), h, prior, cap0, exact, maxreq, bounded);
          }
        }
      }
    }
    // an element error at every position: the destination stays a valid vector: a prefix of the
    // input over whatever was there, len <= capacity, usable afterwards
    for k in 0..=items.len().min(12) {
      for prior in [0usize, 2, items.len() + 2] {
        let mut place: MiniVec<u32> = (0..prior as u32).map(|x| 800_000 + x).collect();
        let r = MiniVec::<u32>::deserialize_in_place(D(Seq { items, pos: 0, hint: Some(items.len()), fail_at: Some(k) }), &mut place);
        let failed = r.is_err();
        let valid = place.len() <= place.capacity() && place.iter().take(k.min(items.len())).zip(items.iter()).all(|(a, b)| a == b);
        place.push(1);
        let popped = place.pop() == Some(1);
        let fresh = MiniVec::<u32>::deserialize(D(Seq { items, pos: 0, hint: None, fail_at: Some(k) }));
        n += 1;
        let should_fail = k <= items.len();
        if !(valid && popped && failed == should_fail && fresh.is_err() == should_fail) {
          bad += 1;
          println!("ERR len={} at={} prior={} failed={} valid={} popped={}", items.len(), k, prior, failed, valid, popped);
        }
      }
    }
  }
  // ownership through deserialization: elements with a destructor, every claimed hint, an element error
  // at every position, fresh and in place over old contents: after everything has been dropped no
  // element is still live and none was destroyed twice; on success the contents are exact
  for len in [0usize, 1, 2, 3, 5, 9] {
    let items: Vec<u32> = (0..len as u32).map(|x| 70 + x).collect();
    for h in [None, Some(0usize), Some(1), Some(len), Some(len + 4), Some(100_000)] {
      for fail_at in (0..=len).map(Some).chain(std::iter::once(None)) {
        ledger_reset();
        let r = MiniVec::<Tracked>::deserialize(D(Seq { items: &items, pos: 0, hint: h, fail_at }));
        let exact = match &r {
          Ok(v) => fail_at.is_none() && v.len() == len && v.iter().zip(items.iter()).all(|(a, b)| a.1 == *b),
          Err(_) => fail_at.is_some(),
        };
        drop(r);
        let (live, twice) = ledger_state();
        n += 1;
        if !(exact && live == 0 && twice == 0) {
          bad += 1;
          println!("ERR OWN fresh len={} hint={:?} fail_at={:?} exact={} still_live={} destroyed_twice={}", len, h, fail_at, exact, live, twice);
        }
        for prior in [0usize, 2, len + 2] {
          ledger_reset();
          let mut place: MiniVec<Tracked> = (0..prior as u32).map(|x| Tracked::new(500 + x)).collect();
          let r = MiniVec::<Tracked>::deserialize_in_place(D(Seq { items: &items, pos: 0, hint: h, fail_at }), &mut place);
          let ok = match &r {
            Ok(()) => fail_at.is_none() && place.len() == len && place.iter().zip(items.iter()).all(|(a, b)| a.1 == *b),
            Err(_) => fail_at.is_some() && place.len() <= place.capacity(),
          };
          let (_, twice0) = ledger_state();
          drop(place);
          let (live, twice) = ledger_state();
          n += 1;
          if !(ok && live == 0 && twice == 0 && twice0 == 0) {
            bad += 1;
            println!("ERR OWN inplace len={} hint={:?} fail_at={:?} prior={} ok={} still_live={} destroyed_twice={}", len, h, fail_at, prior, ok, live, twice);
          }
        }
      }
    }
  }
  println!("SERDE cases={} bad={}", n, bad);
}
