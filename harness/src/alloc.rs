//! Checking global allocator: records every block obtained while a minivec call is on the
//! stack, verifies every realloc/dealloc against the record (the GlobalAlloc contract),
//! surrounds blocks with red zones, never reuses an address within a history (freed blocks are
//! poisoned and quarantined), can refuse the k-th request or any request above a byte limit.
//! Single-threaded by construction of the harness.
use std::alloc::{GlobalAlloc, Layout, System};

pub struct Checking;

#[derive(Clone, Copy)]
pub struct Blk {
  pub ptr: usize,
  pub size: usize,
  pub align: usize,
  pub live: bool,
  base: usize,
  total: usize,
}

#[derive(Clone, Copy, Debug)]
pub enum Ev {
  Alloc(usize, usize),
  Realloc(usize, usize, usize),
  Dealloc(usize, usize),
  Fail(usize, usize),
  FailRealloc(usize, usize, usize, usize, usize),
}

const MAXB: usize = 1 << 14;
const MAXE: usize = 1 << 14;
const RED: usize = 64;

pub static mut TRACK: i32 = 0;
pub static mut PANIC_SKIP: bool = false;
/// set by a scripted panic (`resume_unwind` does not run the panic hook): the next word-aligned
/// allocation is the panic runtime's exception object, not one of minivec's blocks
pub static mut PANIC_SKIP_ONCE: bool = false;
/// a tracked request has been refused: minivec is on its way to handle_alloc_error (abort); what the
/// runtime allocates for its message and backtrace from here on is not minivec's
pub static mut DYING: bool = false;
static mut BLOCKS: [Blk; MAXB] = [Blk { ptr: 0, size: 0, align: 0, live: false, base: 0, total: 0 }; MAXB];
static mut NBLK: usize = 0;
static mut EVENTS: [Ev; MAXE] = [Ev::Alloc(0, 0); MAXE];
static mut NEV: usize = 0;
pub static mut FAIL_AT: i64 = -1;
pub static mut LIMIT: usize = 1 << 30;
static mut VIOL: [(u8, usize, usize); 256] = [(0, 0, 0); 256];
static mut NVIOL: usize = 0;

pub const V_LAYOUT: u8 = 1; // realloc/dealloc quoted a layout other than the block's
pub const V_DOUBLE_FREE: u8 = 2;
pub const V_REDZONE: u8 = 3;
pub const V_LEAK: u8 = 4;

fn viol(k: u8, a: usize, b: usize) {
  unsafe {
    if NVIOL < 256 {
      VIOL[NVIOL] = (k, a, b);
      NVIOL += 1;
    }
  }
}

fn red(align: usize) -> usize {
  let a = if align > RED { align } else { RED };
  (a + align - 1) / align * align
}

unsafe fn find(ptr: usize) -> Option<usize> {
  let mut i = NBLK;
  while i > 0 {
    i -= 1;
    if BLOCKS[i].ptr == ptr {
      return Some(i);
    }
  }
  None
}

unsafe fn check_red(b: &Blk) -> bool {
  let r = b.ptr - b.base;
  let lo = std::slice::from_raw_parts(b.base as *const u8, r);
  let hi = std::slice::from_raw_parts((b.ptr + b.size) as *const u8, b.total - r - b.size);
  lo.iter().all(|&x| x == 0xA5) && hi.iter().all(|&x| x == 0xA5)
}

unsafe fn tracked_alloc(size: usize, align: usize) -> *mut u8 {
  let fail = if FAIL_AT == 0 {
    FAIL_AT = -1;
    true
  } else {
    if FAIL_AT > 0 {
      FAIL_AT -= 1;
    }
    size > LIMIT
  };
  if fail || NBLK >= MAXB {
    return std::ptr::null_mut();
  }
  let r = red(align);
  let total = size + 2 * r;
  let base = System.alloc(Layout::from_size_align_unchecked(total, align));
  if base.is_null() {
    return base;
  }
  std::ptr::write_bytes(base, 0xA5, total);
  let p = base.add(r);
  std::ptr::write_bytes(p, 0xCD, size);
  BLOCKS[NBLK] = Blk { ptr: p as usize, size, align, live: true, base: base as usize, total };
  NBLK += 1;
  p
}

fn log(e: Ev) {
  unsafe {
    if NEV < MAXE {
      EVENTS[NEV] = e;
      NEV += 1;
    }
  }
}

unsafe impl GlobalAlloc for Checking {
  unsafe fn alloc(&self, l: Layout) -> *mut u8 {
    // minivec's blocks always carry an alignment of at least align_of::<usize>(); byte-aligned
    // requests made while a call is on the stack are message strings of the panic runtime
    if TRACK <= 0 || PANIC_SKIP || DYING || l.align() < 8 {
      return System.alloc(l);
    }
    if PANIC_SKIP_ONCE {
      PANIC_SKIP_ONCE = false;
      return System.alloc(l);
    }
    let p = tracked_alloc(l.size(), l.align());
    if p.is_null() {
      DYING = true;
      log(Ev::Fail(l.size(), l.align()));
    } else {
      log(Ev::Alloc(l.size(), l.align()));
    }
    p
  }

  unsafe fn dealloc(&self, ptr: *mut u8, l: Layout) {
    match find(ptr as usize) {
      None => System.dealloc(ptr, l),
      Some(i) => {
        let b = BLOCKS[i];
        log(Ev::Dealloc(l.size(), l.align()));
        if !b.live {
          viol(V_DOUBLE_FREE, b.size, b.align);
          return;
        }
        if b.size != l.size() || b.align != l.align() {
          viol(V_LAYOUT, l.size(), l.align());
        }
        if !check_red(&b) {
          viol(V_REDZONE, b.size, b.align);
        }
        std::ptr::write_bytes(b.ptr as *mut u8, 0xDD, b.size);
        BLOCKS[i].live = false;
      }
    }
  }

  unsafe fn realloc(&self, ptr: *mut u8, l: Layout, new_size: usize) -> *mut u8 {
    match find(ptr as usize) {
      None => System.realloc(ptr, l, new_size),
      Some(_) if DYING => {
        // the runtime resizing one of its own buffers that happened to be recorded: plain realloc semantics
        let i = find(ptr as usize).unwrap();
        let b = BLOCKS[i];
        let p = System.alloc(Layout::from_size_align_unchecked(new_size, l.align()));
        if !p.is_null() {
          let n = if b.size < new_size { b.size } else { new_size };
          std::ptr::copy_nonoverlapping(b.ptr as *const u8, p, n);
        }
        p
      }
      Some(i) => {
        let b = BLOCKS[i];
        if !b.live {
          viol(V_DOUBLE_FREE, b.size, b.align);
        }
        if b.size != l.size() || b.align != l.align() {
          viol(V_LAYOUT, l.size(), l.align());
        }
        if !check_red(&b) {
          viol(V_REDZONE, b.size, b.align);
        }
        // the new block has the alignment the caller quotes (that is what a real allocator would assume)
        let p = tracked_alloc(new_size, l.align());
        if p.is_null() {
          // what the block's header says at the moment the request is refused
          DYING = true;
          let h = if b.size >= 24 { *(b.ptr as *const [usize; 3]) } else { [0, 0, 0] };
          log(Ev::FailRealloc(new_size, l.align(), h[0], h[1], h[2]));
          // also said at once on stdout: the process is about to abort
          {
            use std::io::Write;
            let t = TRACK;
            TRACK = 0;
            let o = std::io::stdout();
            let mut o = o.lock();
            let _ = writeln!(o, "ALLOCFAIL f{}:{}:h{}/{}/{}", new_size, l.align(), h[0], h[1], h[2]);
            let _ = o.flush();
            TRACK = t;
          }
          return p;
        }
        log(Ev::Realloc(l.size(), l.align(), new_size));
        let n = if b.size < new_size { b.size } else { new_size };
        std::ptr::copy_nonoverlapping(b.ptr as *const u8, p, n);
        std::ptr::write_bytes(b.ptr as *mut u8, 0xDD, b.size);
        BLOCKS[i].live = false;
        p
      }
    }
  }
}

pub fn take_events() -> Vec<Ev> {
  unsafe {
    let v = EVENTS[..NEV].to_vec();
    NEV = 0;
    v
  }
}

pub fn take_violations() -> Vec<(u8, usize, usize)> {
  unsafe {
    let v = VIOL[..NVIOL].to_vec();
    NVIOL = 0;
    v
  }
}

/// the live tracked block containing address p (for a one-past-the-end pointer of an empty data
/// area the block whose range ends there)
pub fn block_of(p: usize) -> Option<Blk> {
  unsafe {
    let mut i = NBLK;
    while i > 0 {
      i -= 1;
      let b = BLOCKS[i];
      if b.live && p >= b.ptr && p <= b.ptr + b.size {
        return Some(b);
      }
    }
    None
  }
}

pub fn check_all_redzones() {
  unsafe {
    for i in 0..NBLK {
      if BLOCKS[i].live && !check_red(&BLOCKS[i]) {
        viol(V_REDZONE, BLOCKS[i].size, BLOCKS[i].align);
      }
    }
  }
}

pub fn live_blocks() -> Vec<(usize, usize)> {
  unsafe { BLOCKS[..NBLK].iter().filter(|b| b.live).map(|b| (b.size, b.align)).collect() }
}

/// end of a history: release everything (quarantine included), reset the tables
pub fn reset() {
  unsafe {
    for i in 0..NBLK {
      let b = BLOCKS[i];
      System.dealloc(b.base as *mut u8, Layout::from_size_align_unchecked(b.total, b.align));
    }
    NBLK = 0;
    NEV = 0;
    NVIOL = 0;
    FAIL_AT = -1;
    LIMIT = 1 << 30;
    TRACK = 0;
    PANIC_SKIP = false;
    PANIC_SKIP_ONCE = false;
    DYING = false;
  }
}
