//! Correspondence / monitor harness for minivec (DESIGN.md 3.6).
//!   harness run <file>        run every history of the file (one per line), print traces
//!   harness one '<history>'   run one history given on the command line (child-process mode)
//!   harness sizes             size_of/align_of table for C13
#![allow(static_mut_refs)]
mod alloc;
mod elem;
mod hist;
mod misc;
mod serdeprobe;

use std::io::Write;

#[global_allocator]
static GLOBAL: alloc::Checking = alloc::Checking;

fn class_of(line: &str) -> &str {
  for tok in line.split_whitespace() {
    if let Some(c) = tok.strip_prefix("cls=") {
      return c;
    }
    if tok == "::" {
      break;
    }
  }
  "8x8"
}

fn dispatch(line: &str) -> String {
  use elem::*;
  match class_of(line) {
    "1x1" => hist::run_history::<E1x1>(line),
    "2x2" => hist::run_history::<E2x2>(line),
    "3x1" => hist::run_history::<E3x1>(line),
    "8x8" => hist::run_history::<E8x8>(line),
    "24x8" => hist::run_history::<E24x8>(line),
    "16x16" => hist::run_history::<E16x16>(line),
    "64x64" => hist::run_history::<E64x64>(line),
    "2048x8" => hist::run_history::<E2048x8>(line),
    "u8" => hist::run_history::<u8>(line),
    "1x1c" => hist::run_history::<C1x1>(line),
    "2x2c" => hist::run_history::<C2x2>(line),
    "3x1c" => hist::run_history::<C3x1>(line),
    "8x8c" => hist::run_history::<C8x8>(line),
    "8x8k" => hist::run_history::<K8x8>(line),
    "24x8c" => hist::run_history::<C24x8>(line),
    "16x16c" => hist::run_history::<C16x16>(line),
    "64x64c" => hist::run_history::<C64x64>(line),
    "2048x8c" => hist::run_history::<C2048x8>(line),
    c => format!("unknown class {}\n", c),
  }
}

fn main() {
  // library panics go through the hook: mute the message and stop tracking the allocations
  // the panic runtime makes for its payload (they are not minivec's)
  std::panic::set_hook(Box::new(|_| unsafe {
    alloc::PANIC_SKIP = true;
  }));
  let args: Vec<String> = std::env::args().collect();
  let out = std::io::stdout();
  match args.get(1).map(|s| s.as_str()) {
    Some("run") => {
      let text = std::fs::read_to_string(&args[2]).expect("history file");
      for line in text.lines() {
        let line = line.trim();
        if line.is_empty() || line.starts_with('#') {
          continue;
        }
        // announce first: if the process dies the driver knows which history did it
        {
          let mut o = out.lock();
          let _ = writeln!(o, "BEGIN {}", line.split_whitespace().nth(1).unwrap_or("?"));
          let _ = o.flush();
        }
        let s = dispatch(line);
        let mut o = out.lock();
        let _ = o.write_all(s.as_bytes());
        let _ = writeln!(o, "DONE");
        let _ = o.flush();
      }
    }
    Some("one") => {
      let s = dispatch(&args[2]);
      let mut o = out.lock();
      let _ = o.write_all(s.as_bytes());
      let _ = writeln!(o, "DONE");
    }
    Some("sizes") => misc::sizes(),
    Some("serde") => serdeprobe::run(),
    Some("misc") => misc::run(&args[2..]),
    _ => {
      eprintln!("usage: harness run <file> | one <history> | sizes | misc ...");
      std::process::exit(2);
    }
  }
}
