//! small stand-alone probes: type-size table (C13), From<&str> (C06), ...
use minivec::MiniVec;
use std::mem::{align_of, size_of};

macro_rules! row {
  ($name:expr, $t:ty) => {
    println!(
      "SIZE {} elem={}:{} vec={}:{} opt={}:{}",
      $name,
      size_of::<$t>(),
      align_of::<$t>(),
      size_of::<MiniVec<$t>>(),
      align_of::<MiniVec<$t>>(),
      size_of::<Option<MiniVec<$t>>>(),
      align_of::<Option<MiniVec<$t>>>()
    );
  };
}

#[repr(align(64))]
#[allow(dead_code)]
struct A64([u8; 64]);
#[repr(align(4096))]
#[allow(dead_code)]
struct A4096([u8; 4096]);
#[allow(dead_code)]
struct Big([u64; 300]);

pub fn sizes() {
  row!("u8", u8);
  row!("u16", u16);
  row!("u32", u32);
  row!("u64", u64);
  row!("u128", u128);
  row!("f64", f64);
  row!("bool", bool);
  row!("char", char);
  row!("[u8;3]", [u8; 3]);
  row!("[u8;7]", [u8; 7]);
  row!("(u8,u32)", (u8, u32));
  row!("String", String);
  row!("Vec<u8>", Vec<u8>);
  row!("Box<u8>", Box<u8>);
  row!("Box<str>", Box<str>);
  row!("Box<[u32]>", Box<[u32]>);
  row!("Box<dyn Fn()>", Box<dyn Fn()>);
  row!("&'static str", &'static str);
  row!("&'static [u8]", &'static [u8]);
  row!("&'static u8", &'static u8);
  row!("*const u8", *const u8);
  row!("*const [u8]", *const [u8]);
  row!("Option<u8>", Option<u8>);
  row!("Option<Box<u8>>", Option<Box<u8>>);
  row!("std::rc::Rc<u8>", std::rc::Rc<u8>);
  row!("std::sync::Arc<str>", std::sync::Arc<str>);
  row!("MiniVec<u8>", MiniVec<u8>);
  row!("MiniVec<MiniVec<String>>", MiniVec<MiniVec<String>>);
  row!("A64", A64);
  row!("A4096", A4096);
  row!("Big", Big);
  row!("fn()", fn());
  row!("std::num::NonZeroU8", std::num::NonZeroU8);
  row!("std::cell::Cell<u64>", std::cell::Cell<u64>);
  println!("WORD {}:{}", size_of::<usize>(), align_of::<usize>());
}

pub fn run(_args: &[String]) {}
