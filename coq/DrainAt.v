(* DrainAt.v -- the Drop code of Drain and of its DropGuard (src/impl/drain.rs) as it runs on the Drain
   OBJECT of the world, statement by statement as in the source: every `self.drain.field` reads the
   object, `next()` advances the object's cursor (Machine.drain_next_at).  EquivDropGuard.v ties the
   regenerated bodies to these functions; Proofs/DrainGuardAt.v proves about them what DrainIt.v proves
   about the value-passing `drain_guard` that the run executes (prefix ++ suffix, the window destroyed
   exactly once).  Fuel: the loops end when `next()` answers None; running out of fuel is OutOfFuel. *)
From Coq Require Import ZArith List Bool.
From MV Require Import Ast Eval Scalar Machine.
Import ListNotations.
Open Scope Z_scope.

Section DrainAt.
  Variable cfg : tcfg.

  (* `for x in &mut self.drain { drop(x) }` and `while let Some(item) = self.next() { ..drop(item).. }` *)
  Fixpoint drain_rest_at (fuel : nat) (i : nat) : M unit :=
    match fuel with
    | O => fun s => (OutOfFuel, s)
    | S fuel =>
        o <- drain_next_at cfg i ;;
        match o with
        | None => ret tt
        | Some e => drop_elem cfg e ;;; drain_rest_at fuel i
        end
    end.

  (* DropGuard::drop: destroy what is left of the window, then move the tail back and restore the length *)
  Definition drain_guard_at (fuel : nat) (i : nat) : M unit :=
    drain_rest_at fuel i ;;;
    d <- drain_of i ;;                               (* if self.drain.remaining_ > 0 *)
    if 0 <? d_rem d then
      d0 <- drain_of i ;;                            (* let v = self.drain.vec_.as_mut() *)
      let v := d_vec d0 in
      vl <- len v ;;                                 (* let v_len = v.len() *)
      d1 <- drain_of i ;;                            (* let src = self.drain.remaining_pos_.as_ptr() *)
      p <- as_ptr cfg v ;;                           (* let dst = v.as_mut_ptr().add(v_len) *)
      d2 <- drain_of i ;;                            (* copy(src, dst, self.drain.remaining_) *)
      slot_copy cfg (d_rpos d1) (padd cfg p vl) (d_rem d2) ;;;
      d3 <- drain_of i ;;                            (* v.set_len(v_len + self.drain.remaining_) *)
      n <- uadd cfg vl (d_rem d3) ;;                 (* (checked `+`: panics in debug, wraps in release) *)
      set_len v n
    else ret tt.

  (* impl Drop for Drain, with Rust's drop glue written out: the guard built inside the loop runs
     DropGuard::drop when `drop(item)` unwinds (a second panic inside it aborts); the temporary guard of
     the last statement runs it at once.  The loop without the glue is drain_rest_at (the body that
     EquivDropGuard.drain_drop_body_equiv ties); the glue is hand-written here as it is in
     Machine.drain_drop, which the run executes. *)
  Fixpoint drain_drop_loop_at (fuel gfuel : nat) (i : nat) : M unit :=
    match fuel with
    | O => fun s => (OutOfFuel, s)
    | S fuel =>
        o <- drain_next_at cfg i ;;
        match o with
        | None => ret tt
        | Some e => on_unwind (drop_elem cfg e) (drain_guard_at gfuel i) ;;; drain_drop_loop_at fuel gfuel i
        end
    end.
  Definition drain_drop_at (fuel : nat) (i : nat) : M unit :=
    drain_drop_loop_at fuel fuel i ;;; drain_guard_at fuel i.
End DrainAt.
