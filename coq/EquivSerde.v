(* EquivSerde.v -- re-proved on every run against the AST regenerated from src/serde.rs: the size-hint
   cap of the deserialization visitors evaluates to Scalar.map_size_hint (min(hint, 1024), 0 without a hint)
   for every input.  (In its own file: a broken lemma about another function must not stop this one.) *)
From Coq Require Import ZArith List String Bool Lia.
From MV Require Import Ast Eval Scalar EquivDefs.
From MV.Gen Require Import AstGen.
Import ListNotations.
Open Scope string_scope.
Open Scope Z_scope.

Section SerdeEquiv.
  Variable F W : Type.
  Variable cfg : tcfg.
  Variable prim : string -> list val -> W -> outcome F val * W.

  Definition run (fa : fn_ast) (args : list val) (w : W) :=
    eval_fn cfg gen_funs (direct prim) FUEL fa args w.

  (* map_size_hint takes an Option<usize> *)
  Definition opt_val (h : option Z) : val :=
    match h with Some n => VCtor "Some" [VInt n] | None => VCtor "None" [] end.

  Lemma map_size_hint_equiv h w :
    run serde__map_size_hint_ast [opt_val h] w = (Norm (VInt (map_size_hint h)), w).
  Proof. destruct h; reflexivity. Qed.

End SerdeEquiv.
