(* EquivSerde.v -- re-proved on every run against the AST regenerated from src/serde.rs: the size-hint
   cap of the deserialization visitors evaluates to Scalar.map_size_hint (min(hint, 1024), 0 without a hint)
   for every input.  (In its own file: a broken lemma about another function must not stop this one.) *)
From Coq Require Import ZArith List String Bool Lia.
From MV Require Import Ast Eval Scalar EquivDefs.
From MV.Gen Require Import AstGen.
Import ListNotations.
Open Scope string_scope.
Open Scope Z_scope.

Section SerdeEquiv.
  Variable F W : Type.
  Variable cfg : tcfg.
  Variable prim : string -> list val -> W -> outcome F val * W.

  Definition run (fa : fn_ast) (args : list val) (w : W) :=
    eval_fn cfg gen_funs (direct prim) FUEL fa args w.

  (* map_size_hint takes an Option<usize> *)
  Definition opt_val (h : option Z) : val :=
    match h with Some n => VCtor "Some" [VInt n] | None => VCtor "None" [] end.

  Lemma map_size_hint_equiv h w :
    run serde__map_size_hint_ast [opt_val h] w = (Norm (VInt (map_size_hint h)), w).
  Proof. destruct h; reflexivity. Qed.

End SerdeEquiv.

(* ---- the up-front reservation of the two deserialization visitors (C19: "a length claimed by the input
   never causes more than a small bounded up-front reservation (1024 elements)").  The statements that
   come BEFORE any element is read -- `let values = MiniVec::with_capacity(map_size_hint(seq.size_hint()))`
   in VecVisitor::visit_seq and
     let hint = map_size_hint(seq.size_hint());
     if let Some(additional) = hint.checked_sub(self.0.len()) { self.0.reserve(additional) }
   in VecInPlaceVisitor::visit_seq -- are taken from the regenerated bodies and evaluated in a world that
   answers `size_hint` with ANY claimed hint, `len` with ANY destination length, and records every
   capacity / reservation request: each request is exactly min(hint, 1024) resp. min(hint, 1024) - len
   (none when that is negative), hence at most 1024 elements, whatever the input claims and whatever the
   destination held. ---- *)
Section Reservation.
  Variable cfg : tcfg.

  Record rw := { r_hint : option Z; r_len : Z; r_log : list Z }.
  Definition rprim (f : string) (args : list val) (w : rw) : outcome unit val * rw :=
    if String.eqb f ".size_hint" then (Norm (opt_val (r_hint w)), w)
    else if String.eqb f ".len" then (Norm (VInt (r_len w)), w)
    else if String.eqb f "field:0" then (Norm VUnit, w)
    else if String.eqb f ".reserve" then
      match args with
      | [_; VInt a] => (Norm VUnit, {| r_hint := r_hint w; r_len := r_len w; r_log := r_log w ++ [a] |})
      | _ => (Stuck "reserve", w)
      end
    else if String.eqb f "MiniVec::with_capacity" then
      match args with
      | [VInt c] => (Norm VUnit, {| r_hint := r_hint w; r_len := r_len w; r_log := r_log w ++ [c] |})
      | _ => (Stuck "with_capacity", w)
      end
    else (Stuck ("rprim: " ++ f), w).

  Definition prefix (n : nat) (fa : fn_ast) : list stmt :=
    match fn_body fa with Blk ss _ => firstn n ss end.

  Definition run_prefix (n : nat) (fa : fn_ast) (h : option Z) (l : Z) : outcome unit val * rw :=
    @exec_stmts unit rw cfg gen_funs (direct rprim) 60 (prefix n fa) [("seq", VUnit); ("self", VUnit)]
               {| r_hint := h; r_len := l; r_log := [] |}
               (fun v w => (Norm v, w)) (fun _ w => (Norm VUnit, w)).

  Definition hint_ok (h : option Z) : Prop := match h with Some n => 0 <= n < W64 | None => True end.

  Lemma inplace_reservation h l :
    hint_ok h -> 0 <= l < W64 ->
    run_prefix 2 serde__VecInPlaceVisitor__visit_seq_ast h l =
      (Norm VUnit, {| r_hint := h; r_len := l;
                      r_log := if 0 <=? map_size_hint h - l then [map_size_hint h - l] else [] |}).
  Proof.
    intros Hh Hl. unfold run_prefix, prefix, map_size_hint.
    destruct h as [n|]; cbv -[Z.sub Z.leb Z.ltb Z.min Z.add W64];
      match goal with |- context [0 <=? ?x] => destruct (0 <=? x) end; reflexivity.
  Qed.

  Lemma fresh_reservation h :
    hint_ok h ->
    run_prefix 1 serde__VecVisitor__visit_seq_ast h 0 =
      (Norm VUnit, {| r_hint := h; r_len := 0; r_log := [map_size_hint h] |}).
  Proof. intros Hh. unfold run_prefix, prefix, map_size_hint. destruct h as [n|]; reflexivity. Qed.

  (* whatever is claimed, whatever the destination held: no up-front request above 1024 elements *)
  Theorem upfront_reservation_bounded h l :
    hint_ok h -> 0 <= l < W64 ->
    fst (run_prefix 2 serde__VecInPlaceVisitor__visit_seq_ast h l) = Norm VUnit /\
    fst (run_prefix 1 serde__VecVisitor__visit_seq_ast h 0) = Norm VUnit /\
    Forall (fun a => 0 <= a <= 1024) (r_log (snd (run_prefix 2 serde__VecInPlaceVisitor__visit_seq_ast h l))) /\
    Forall (fun a => 0 <= a <= 1024) (r_log (snd (run_prefix 1 serde__VecVisitor__visit_seq_ast h 0))).
  Proof.
    intros Hh Hl. rewrite (inplace_reservation h l Hh Hl), (fresh_reservation h Hh). cbn [fst snd r_log].
    split; [reflexivity|]. split; [reflexivity|].
    assert (B : 0 <= map_size_hint h <= 1024).
    { unfold map_size_hint. destruct h as [n|]; simpl in Hh; lia. }
    split.
    - destruct (Z.leb_spec 0 (map_size_hint h - l)); constructor; [lia|constructor].
    - constructor; [lia|constructor].
  Qed.
End Reservation.

(* Serialize for MiniVec is the delegation `serializer.collect_seq(self)` and nothing else: serde's
   collect_seq (trusted) announces the exact length of `self`'s iterator -- the slice iterator through
   Deref -- emits the items in order and ends the sequence.  Re-checked against the regenerated body. *)
Lemma serialize_delegates_to_collect_seq :
  fn_body serde__MiniVec__serialize_ast = Blk [] (Some (ECall ".collect_seq" [EVar "serializer"; EVar "self"])) /\
  fn_params serde__MiniVec__serialize_ast = ["self"; "serializer"].
Proof. split; reflexivity. Qed.
