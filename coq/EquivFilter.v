(* EquivFilter.v -- DrainFilter::next (src/impl/drain_filter.rs): the `while self.pos < self.old_len`
   loop, the `panicked` flag set around the call of the stored predicate, the early `return Some(..)`
   for an accepted element, the move of a rejected element over the hole and the two checked
   increments evaluate to Machine.filter_next_at -- the function Run.v executes on the iterator
   object -- for every state and both profiles, whenever the machine's loop does not run out of its
   fuel (Proofs/FilterAt.v: on a well-formed iterator it never does).
   `self` is VCtor "FIter" [VObj i]; the predicate's script lives in the object. *)
From Coq Require Import ZArith List String Bool Lia.
From MV Require Import Ast Eval Scalar Machine EquivDefs Prims EquivTac EquivIter.
From MV.Gen Require Import AstGen.
Import ListNotations.
Open Scope string_scope.
Open Scope Z_scope.

Section EquivFilter.
  Variable cfg : tcfg.
  Variable ncap : Z -> option Z.

  Local Notation P := (prim cfg ncap).
  Local Notation NOF := (fun _ : string => @None fn_ast).
  Local Notation AnsM := (outcome mfail val * state)%type.
  Local Notation xstmts := (@exec_stmts mfail state cfg NOF P).
  Local Notation xstmt := (@exec_stmt mfail state cfg NOF P).
  Local Notation xblock := (@exec_block mfail state cfg NOF P).
  Local Notation xexpr := (@eval_expr mfail state cfg NOF P).

  Lemma exec_stmts_cons F s ss en w kr k :
    xstmts (S F) (s :: ss) en w kr k = xstmt F s en w kr (fun en w => xstmts F ss en w kr k).
  Proof. reflexivity. Qed.
  Lemma exec_block_S F ss tail en w kr k :
    xblock (S F) (Blk ss tail) en w kr k =
    xstmts F ss en w kr (fun en' w =>
      match tail with
      | Some e => xexpr F e en' w kr (fun v w => k v (restore en en') w)
      | None => k VUnit (restore en en') w
      end).
  Proof. reflexivity. Qed.
  Lemma exec_while F c b en w kr k :
    xstmt (S F) (SWhile c b) en w kr k =
    xexpr F c en w kr (fun vc w =>
      match vc with
      | VBool true => xblock F b en w kr (fun _ en w => xstmt F (SWhile c b) en w kr k)
      | VBool false => k en w
      | _ => (Stuck "while on non-boolean", w)
      end).
  Proof. reflexivity. Qed.

  Definition fiter_val (i : nat) : val := VCtor "FIter" [VObj i].
  Definition ENVF (i : nat) : env := [("self", fiter_val i)].

  (* the loop statement of the regenerated body *)
  Definition WHF : stmt :=
    match fn_body drain_filter__DrainFilter__next_ast with
    | Blk (w :: _) _ => w
    | _ => SForeign "no loop"
    end.

  (* both sides are compared only when the machine's loop finished within its fuel *)
  Definition guarded {A} (r : res A * state) (x : AnsM) : AnsM :=
    match fst r with OutOfFuel => (NoFuel, snd r) | _ => x end.

  Definition after_loopF (kr : val -> state -> AnsM) (K : env -> state -> AnsM) (i : nat) (r : res (option elem) * state) : AnsM :=
    match r with
    | (Val (Some e), s') => kr (VCtor "Some" [VInt e]) s'
    | (Val None, s') => K (ENVF i) s'
    | (Panicking, s') => (Panic, s')
    | (UB u, s') => (Fail (FUB u), s')
    | (AllocAbort x y, s') => (Fail (FAllocAbort x y), s')
    | (Abort, s') => (Fail FAbort, s')
    | (OutOfFuel, s') => (Fail FNoFuel, s')
    end.

  Ltac evf := cbv -[Z.add Z.sub Z.mul Z.div Z.modulo Z.eqb Z.ltb Z.leb Z.max Z.min Z.land Z.to_nat W64 ISIZE_MAX
                  release esz ealign needs_drop is_pow2 layout_ok
                  is_default len capacity alignment vec_handle hdr_block
                  data as_ptr set_len add_len slot_read slot_write slot_copy slot_copy_across padd
                  get_block put_block set_handle
                  filter_of set_filter_panicked set_filter_pos set_filter_new filter_pred_at filter_next_at
                  nth_error heap vecs guarded].

  (* ---- reads do not change the state ---- *)
  Lemma ro_filter_of i : ro (filter_of i).
  Proof. unfold filter_of. apply ro_bind; [apply ro_iter_get|]. intros [d|f|t]; first [apply ro_ret|apply ro_ub]. Qed.
  Lemma ro_alignment v : ro (alignment cfg v).
  Proof.
    unfold alignment. apply ro_bind; [apply ro_vec_handle|]. intros [|b off]; [apply ro_ret|].
    apply ro_bind; [apply ro_hdr_block|intros x; apply ro_ret].
  Qed.
  Lemma ro_data v : ro (data cfg v).
  Proof.
    unfold data. apply ro_bind.
    { destruct (release cfg); [apply ro_ret|]. apply ro_bind; [apply ro_is_default|]. intros [|]; [apply ro_panic|apply ro_ret]. }
    intros _. apply ro_bind; [apply ro_alignment|]. intros a. apply ro_bind.
    { unfold lift_opt. destruct (data_offset a); [apply ro_ret|apply ro_panic]. }
    intros o. apply ro_bind; [apply ro_vec_handle|]. intros h. apply ro_ret.
  Qed.

  Ltac ros :=
    repeat match goal with
           | H : filter_of _ ?s = (_, ?s') |- _ => is_var s'; pose proof (ro_filter_of _ _ _ _ H); subst s'
           | H : data _ _ ?s = (_, ?s') |- _ => is_var s'; pose proof (ro_data _ _ _ _ H); subst s'
           | H : slot_read _ _ ?s = (_, ?s') |- _ => is_var s'; pose proof (ro_slot_read cfg _ _ _ _ H); subst s'
           end.

  (* calls whose result is already known (they reappear on the evaluator's side after reduction) *)
  Ltac known :=
    repeat match goal with
           | H : ?x = (_, _) |- context [?x] => rewrite H; red1
           end.

  Lemma loop_equivF i kr K : forall k F s,
    (k <= F)%nat ->
    guarded (filter_next_at cfg k i s) (xstmt (S (30 + F)) WHF (ENVF i) s kr K) =
    guarded (filter_next_at cfg k i s) (after_loopF kr K i (filter_next_at cfg k i s)).
  Proof.
    induction k as [|k IH]; intros F s HF.
    - reflexivity.
    - destruct F as [|F]; [lia|].
      cbv [WHF drain_filter__DrainFilter__next_ast fn_body]. rewrite exec_while.
      match goal with |- context [xstmt (30 + S F) ?w] => change w with WHF end.
      remember (xstmt (30 + S F) WHF) as REC eqn:EREC.
      cbn [filter_next_at]. cbv [ENVF after_loopF fiter_val uadd bind ret panic] in *.
      evf. red1.
      repeat first
        [ reflexivity
        | match goal with
          | |- guarded _ (REC _ ?s1 _ _) = _ =>
              subst REC; change (30 + S F)%nat with (S (30 + F));
              apply (IH F s1); lia
          end
        | lazymatch goal with |- guarded (_, _) _ = _ => cbv [guarded fst snd] end; red1
        | lazymatch goal with |- guarded ?B _ = _ => let x := hs B in lazymatch x with filter_next_at _ _ _ _ => fail | _ => case_on x end end; red1; ros; known
        | step; ros; known ].
  Qed.
  (* ---- the whole body ---- *)
  Definition run_filter_next (fuel : nat) (i : nat) (s : state) : AnsM :=
    @eval_fn mfail state cfg NOF P fuel drain_filter__DrainFilter__next_ast [fiter_val i] s.

  Definition KR : val -> state -> AnsM := fun v w => (Norm v, w).
  Definition KEND (F : nat) : env -> state -> AnsM :=
    fun en w => xstmts (S (30 + (87 + F))) [] en w KR
                  (fun en' w => xexpr (S (118 + F)) (EVar "None") en' w KR (fun v w => (Norm v, w))).

  Lemma body_is_loop i s F :
    run_filter_next (FUEL + F) i s = xstmt (S (30 + (87 + F))) WHF (ENVF i) s KR (KEND F).
  Proof.
    unfold run_filter_next, eval_fn.
    cbv [drain_filter__DrainFilter__next_ast fn_body fn_params FUEL combine rev app].
    change (120 + F)%nat with (S (119 + F)). rewrite exec_block_S.
    change (119 + F)%nat with (S (118 + F)). rewrite exec_stmts_cons.
    reflexivity.
  Qed.

  Lemma after_none i s' F : KEND F (ENVF i) s' = (Norm (opt_elem_val None), s').
  Proof. reflexivity. Qed.

  Lemma guarded_elim {A} (r : res A * state) (x y : AnsM) :
    fst r <> OutOfFuel -> guarded r x = guarded r y -> x = y.
  Proof. unfold guarded. destruct (fst r); congruence. Qed.

  Definition lift_res (r : res (option elem) * state) : AnsM :=
    match r with
    | (Val a, s') => (Norm (opt_elem_val a), s')
    | (Panicking, s') => (Panic, s')
    | (UB k, s') => (Fail (FUB k), s')
    | (AllocAbort x y, s') => (Fail (FAllocAbort x y), s')
    | (Abort, s') => (Fail FAbort, s')
    | (OutOfFuel, s') => (Fail FNoFuel, s')
    end.

  Lemma after_is_lift i F r : after_loopF KR (KEND F) i r = lift_res r.
  Proof. destruct r as [[[e|]| | | | |] s']; first [reflexivity|apply after_none]. Qed.

  Theorem filter_next_equiv i s k F :
    (k <= F)%nat ->
    fst (filter_next_at cfg k i s) <> OutOfFuel ->
    run_filter_next (FUEL + F) i s = lift_m (filter_next_at cfg k i) opt_elem_val s.
  Proof.
    intros HF Hfuel. rewrite body_is_loop.
    apply (guarded_elim (filter_next_at cfg k i s) _ _ Hfuel).
    rewrite loop_equivF by lia. rewrite after_is_lift. reflexivity.
  Qed.
  (* DrainFilter::size_hint: `(0, Some(self.old_len - self.pos))` -- on an iterator whose cursor has not
     passed the old length (FilterAt.v: always so on a well-formed iterator) the checked subtraction is
     the plain difference that Run.v reports *)
  Definition run_filter_hint (i : nat) (s : state) : AnsM :=
    @eval_fn mfail state cfg NOF P FUEL drain_filter__DrainFilter__size_hint_ast [fiter_val i] s.
  Lemma filter_size_hint_equiv i s f :
    filter_of i s = (Val f, s) -> f_pos f <= f_old f ->
    run_filter_hint i s = (Norm (VTuple [VInt 0; VCtor "Some" [VInt (f_old f - f_pos f)]]), s).
  Proof.
    intros Hf Hle. destruct f as [fv fo fn fp fk fsc]. cbn [f_old f_pos] in *.
    unfold run_filter_hint, eval_fn. evf. red1.
    rewrite !Hf. red1.
    assert (E : (0 <=? fo - fp) = true) by (apply Z.leb_le; lia).
    repeat (rewrite ?Hf, ?E; red1). reflexivity.
  Qed.
End EquivFilter.
