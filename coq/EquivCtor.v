(* EquivCtor.v -- the constructors with_capacity and with_alignment: a local MiniVec::new() (a new object
   of the world), then reserve_exact / the two alignment checks and grow, evaluate to
   Machine.with_capacity_body / with_alignment_body for every state, every argument and both profiles. *)
From Coq Require Import ZArith List String Bool Lia.
From MV Require Import Ast Eval Scalar Machine EquivDefs Prims EquivTac.
From MV.Gen Require Import AstGen.
Import ListNotations.
Open Scope string_scope.
Open Scope Z_scope.

Section EquivCtor.
  Variable cfg : tcfg.
  Variable ncap : Z -> option Z.
  Local Notation runm := (runm cfg ncap).

  Ltac evk := cbv -[Z.add Z.sub Z.mul Z.div Z.modulo Z.eqb Z.ltb Z.leb Z.max Z.min Z.land W64 ISIZE_MAX
                  release esz ealign needs_drop is_pow2 layout_ok max_align
                  new_obj reserve_exact grow].

  Lemma with_capacity_equiv c s :
    runm lib__MiniVec__with_capacity_ast [VInt c] s = lift_m (with_capacity_body cfg c) VObj s.
  Proof. unfold runm. evk. sym. Qed.

  Definition align_result (r : Z * nat) : val :=
    if fst r =? 0 then VCtor "Ok" [VObj (snd r)]
    else if fst r =? 1 then VCtor "Err" [VCtor "LayoutErr::AlignmentTooSmall" []]
    else VCtor "Err" [VCtor "LayoutErr::AlignmentNotDivisibleByTwo" []].

  Lemma with_alignment_equiv c a s :
    runm lib__MiniVec__with_alignment_ast [VInt c; VInt a] s = lift_m (with_alignment_body cfg c a) align_result s.
  Proof. unfold runm. evk. sym. Qed.
End EquivCtor.
