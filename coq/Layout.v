(* Layout.v -- a small model of rustc's layout rules for a repr(Rust) struct,
   sufficient for C13 ("the handle is one pointer wide, with a free niche").
   MODELLED, not verified: rustc's layout algorithm is observed (the harness
   compares this model's answers with size_of/align_of printed by rustc for a
   table of element types on every run). *)
From Coq Require Import ZArith List String Bool Lia.
From MV Require Import FactsDef.
Import ListNotations.
Open Scope Z_scope.

(* element type parameters: size, alignment (any values: the theorem quantifies) *)
Record elem_ty := { t_size : Z; t_align : Z }.

(* (size, align, has a forbidden bit pattern usable as Option's None); None = the
   model does not know this field kind *)
Definition field_layout (t : elem_ty) (f : field_class) : option (Z * Z * bool) :=
  match f with
  | FNonNull _ => Some (8, 8, true)          (* thin: pointee u8 / T: Sized *)
  | FPhantom _ => Some (0, 1, false)
  | FWord => Some (8, 8, false)
  | FByte => Some (1, 1, false)
  | FRawPtr _ => Some (8, 8, false)
  | FRef _ => Some (8, 8, true)
  | FElem => Some (t_size t, t_align t, false)
  | FArray _ len => if String.eqb len "0" then Some (0, t_align t, false) else None
  | FMiniVec => Some (8, 8, true)
  | FOption _ => None
  | FOther _ => None
  end.

Definition round_up (n a : Z) : Z := ((n + a - 1) / a) * a.

(* repr(Rust) struct: alignment = max of the fields'; size = at least the sum of
   the field sizes rounded up to the alignment (exact when at most one field is
   not zero-sized, which is the case the theorem is about); a niche survives if
   some field has one. *)
Fixpoint fields_layout (t : elem_ty) (fs : list (string * field_class)) : option (Z * Z * bool) :=
  match fs with
  | [] => Some (0, 1, false)
  | (_, f) :: fs =>
      match field_layout t f, fields_layout t fs with
      | Some (s, a, n), Some (s', a', n') => Some (s + s', Z.max a a', n || n')
      | _, _ => None
      end
  end.

Definition struct_layout (t : elem_ty) (fs : list (string * field_class)) : option (Z * Z * bool) :=
  match fields_layout t fs with
  | Some (s, a, n) => Some (round_up s a, a, n)
  | None => None
  end.

(* Option<S>: no extra space iff S has a niche; otherwise one more alignment unit *)
Definition option_layout (l : Z * Z * bool) : Z * Z :=
  match l with (s, a, true) => (s, a) | (s, a, false) => (s + a, a) end.

Fixpoint find_struct (name : string) (l : list struct_fact) : option struct_fact :=
  match l with
  | [] => None
  | s :: l => if String.eqb (st_name s) name then Some s else find_struct name l
  end.

Definition one_word (t : elem_ty) (fs : list (string * field_class)) : bool :=
  match struct_layout t fs with
  | Some (s, a, n) => (s =? 8) && (a =? 8) && n &&
                      (let '(so, ao) := option_layout (s, a, n) in (so =? 8) && (ao =? 8))
  | None => false
  end.
