(* Model.v -- ties the machine to the parts of the model that are REGENERATED from /repo:
   the growth policy next_capacity::<T> is not transcribed by hand, the machine evaluates the
   AST that rs2v dumped from src/impl/helpers.rs (DESIGN.md 3.1). *)
From Coq Require Import ZArith List String Bool.
From MV Require Import Ast Eval Scalar Machine Run Text EquivDefs.
From MV.Gen Require Import AstGen.
Import ListNotations.
Open Scope Z_scope.

Definition no_prim (f : string) (args : list val) (w : unit) : outcome Empty_set val * unit :=
  (Stuck "no world", w).

(* helpers.rs: next_capacity::<T>(capacity); None = it panics (or is outside the IR) *)
Definition ncap_of (cfg : tcfg) (c : Z) : option Z :=
  match eval_fn cfg gen_funs (direct no_prim) FUEL helpers__next_capacity_ast [VInt c] tt with
  | (Norm (VInt r), _) => Some r
  | _ => None
  end.

Definition run_history (line : string) : list string := run_line ncap_of line.
