(* EquivCap.v -- re-proved on every run against the ASTs regenerated from src/lib.rs: the bodies of
   len, capacity, alignment, reserve_exact, shrink_to_fit and shrink_to (and grow, in EquivGrow.v)
   evaluate -- in the machine world of Prims.v, for EVERY state, every vector, all arguments and BOTH
   build profiles -- to exactly the hand-written Machine functions that the theorems are about.
   Callee methods are interpreted by their Machine twins (each has its own lemma): the proof is modular. *)
From Coq Require Import ZArith List String Bool Lia.
From MV Require Import Ast Eval Scalar Machine EquivDefs Prims EquivTac.
From MV.Gen Require Import AstGen.
Import ListNotations.
Open Scope string_scope.
Open Scope Z_scope.

Section EquivCap.
  Variable cfg : tcfg.
  Variable ncap : Z -> option Z.

  Local Notation runm := (runm cfg ncap).

  Lemma len_equiv v s : runm lib__MiniVec__len_ast [VObj v] s = lift_m (len v) VInt s.
  Proof.
    unfold runm. evm. cbv [is_default len vec_handle bind ret hdr_block get_block ub lift_m]. sym.
  Qed.

  Lemma capacity_equiv v s : runm lib__MiniVec__capacity_ast [VObj v] s = lift_m (capacity v) VInt s.
  Proof.
    unfold runm. evm. cbv [is_default capacity vec_handle bind ret hdr_block get_block ub lift_m]. sym.
  Qed.


  Lemma reserve_exact_equiv v n s :
    runm lib__MiniVec__reserve_exact_ast [VObj v; VInt n] s = lift_m (reserve_exact cfg v n) vunit s.
  Proof.
    unfold runm. evm.
    cbv [reserve_exact add_m add_u bind ret lift_m vunit lift_opt panic ub fst snd].
    sym.
  Qed.

  Lemma shrink_to_fit_equiv v s :
    runm lib__MiniVec__shrink_to_fit_ast [VObj v] s = lift_m (shrink_to_fit cfg v) vunit s.
  Proof.
    unfold runm. evm.
    cbv [shrink_to_fit bind ret lift_m vunit lift_opt panic ub fst snd].
    sym.
  Qed.

  Lemma shrink_to_equiv v n s :
    runm lib__MiniVec__shrink_to_ast [VObj v; VInt n] s = lift_m (shrink_to cfg v n) vunit s.
  Proof.
    unfold runm. evm.
    cbv [shrink_to bind ret lift_m vunit lift_opt panic ub fst snd].
    sym.
  Qed.
End EquivCap.
