(* EquivResizeWith.v -- resize_with(new_len, f): as EquivResize.v, with the generator closure `f()` called
   once per new element: the world is the machine state paired with the generator's script
   (EquivRetain.primS: a call of the closure parameter runs Machine.gen_elem -- a fresh element or a
   panic -- and consumes one answer).  The body evaluates to Machine.resize_with for every script. *)
From Coq Require Import ZArith List String Bool Lia.
From MV Require Import Ast Eval Scalar Machine EquivDefs Prims EquivTac EquivRetain.
From MV.Gen Require Import AstGen.
Import ListNotations.
Open Scope string_scope.
Open Scope Z_scope.

Section EquivResizeWith.
  Variable cfg : tcfg.
  Variable ncap : Z -> option Z.

  Local Notation P := (primS cfg ncap SameEq).
  Local Notation NOF := (fun _ : string => @None fn_ast).
  Local Notation AnsM := (outcome mfail val * state)%type.
  Local Notation xstmts := (@exec_stmts mfail WS cfg NOF P).
  Local Notation xstmt := (@exec_stmt mfail WS cfg NOF P).
  Local Notation xblock := (@exec_block mfail WS cfg NOF P).
  Local Notation xexpr := (@eval_expr mfail WS cfg NOF P).
  Local Notation xarms := (@eval_arms mfail WS cfg NOF P).
  Local Notation xeblock := (@eval_eblock mfail WS cfg NOF P).

  (* ---- one-step unfoldings of the evaluator ---- *)
  Lemma exec_stmts_cons F s ss en w kr k :
    xstmts (S F) (s :: ss) en w kr k = xstmt F s en w kr (fun en w => xstmts F ss en w kr k).
  Proof. reflexivity. Qed.
  Lemma exec_stmts_nil F en w kr k : xstmts (S F) [] en w kr k = k en w.
  Proof. reflexivity. Qed.
  Lemma exec_block_S F ss tail en w kr k :
    xblock (S F) (Blk ss tail) en w kr k =
    xstmts F ss en w kr (fun en' w =>
      match tail with
      | Some e => xexpr F e en' w kr (fun v w => k v (restore en en') w)
      | None => k VUnit (restore en en') w
      end).
  Proof. reflexivity. Qed.
  Lemma exec_sexpr_block F b en w kr k :
    xstmt (S F) (SExpr (EBlock b)) en w kr k = xblock F b en w kr (fun _ en w => k en w).
  Proof. reflexivity. Qed.
  Lemma eval_match_S F sc arms en w kr k :
    xexpr (S F) (EMatch sc arms) en w kr k = xexpr F sc en w kr (fun v w => xarms F v arms en w kr k).
  Proof. reflexivity. Qed.
  Lemma eval_arms_S F v p body arms en w kr k :
    xarms (S F) v ((p, body) :: arms) en w kr k =
    match match_pat p v with
    | Some bs => xexpr F body (bs ++ en)%list w kr k
    | None => xarms F v arms en w kr k
    end.
  Proof. reflexivity. Qed.
  Lemma eval_eblock_expr F b en w kr k :
    xexpr (S (S F)) (EBlock b) en w kr k =
    if block_assigns b then (Stuck "assignment inside an expression block", w)
    else xblock F b en w kr (fun v _ w => k v w).
  Proof. reflexivity. Qed.
  Lemma exec_while F c b en w kr k :
    xstmt (S F) (SWhile c b) en w kr k =
    xexpr F c en w kr (fun vc w =>
      match vc with
      | VBool true => xblock F b en w kr (fun _ en w => xstmt F (SWhile c b) en w kr k)
      | VBool false => k en w
      | _ => (Stuck "while on non-boolean", w)
      end).
  Proof. reflexivity. Qed.

  (* the Greater arm's block and its loop, taken from the regenerated body *)
  Definition GREATER : Ast.block :=
    match fn_body lib__MiniVec__resize_with_ast with
    | Blk _ (Some (EMatch _ [_; (_, EBlock b); _])) => b
    | _ => Blk [] None
    end.
  Definition WHW : stmt :=
    match GREATER with
    | Blk [_; _; SExpr (EBlock (Blk [_; _; w] _))] _ => w
    | _ => SForeign "no loop"
    end.
  Definition ENVW (v : nat) (n l hi i : Z) : env :=
    [("__hi", VInt hi); ("_i", VInt i); ("num_elems", VInt hi); ("len", VInt l); ("f", VCtor "Closure" []);
     ("new_len", VInt n); ("self", VObj v)].

  Definition guarded {A} (r : res A * state) (x : AnsM) : AnsM :=
    match fst r with OutOfFuel => (NoFuel, snd r) | _ => x end.
  Lemma guarded_elim {A} (r : res A * state) (x y : AnsM) :
    fst r <> OutOfFuel -> guarded r x = guarded r y -> x = y.
  Proof. unfold guarded. destruct (fst r); congruence. Qed.

  Local Notation AnsW := (outcome mfail val * WS)%type.

  Definition after_loopW (K : env -> WS -> AnsW) (v : nat) (n l hi : Z) (r : res unit * state) : AnsM :=
    match r with
    | (Val _, s') => projS (K (ENVW v n l hi hi) (s', []))
    | (Panicking, s') => (Panic, s')
    | (UB u, s') => (Fail (FUB u), s')
    | (AllocAbort x y, s') => (Fail (FAllocAbort x y), s')
    | (Abort, s') => (Fail FAbort, s')
    | (OutOfFuel, s') => (Fail FNoFuel, s')
    end.

  Ltac evz := cbv -[Z.add Z.sub Z.mul Z.div Z.modulo Z.eqb Z.ltb Z.leb Z.max Z.min Z.land Z.to_nat W64 ISIZE_MAX
                  release esz ealign needs_drop is_pow2 layout_ok
                  is_default len capacity alignment vec_handle hdr_block reserve truncate
                  gen_elem push resize_with_loop small
                  get_block put_block set_handle
                  nth_error heap vecs guarded projS].
  Ltac known :=
    repeat match goal with
           | H : ?x = (_, _) |- context [?x] => rewrite H; red1
           end.

  (* the continuation after the loop looks neither at the loop variable nor at the script *)
  Definition blind (K : env -> WS -> AnsW) (v : nat) (n l hi : Z) : Prop :=
    forall i1 i2 s sc1 sc2, projS (K (ENVW v n l hi i1) (s, sc1)) = projS (K (ENVW v n l hi i2) (s, sc2)).

  Lemma loop_equivW v n l hi kr K (HK : blind K v n l hi) : forall k F i sc s,
    (k <= F)%nat ->
    guarded (resize_with_loop cfg ncap k v i hi sc s) (projS (xstmt (S (30 + F)) WHW (ENVW v n l hi i) (s, sc) kr K)) =
    guarded (resize_with_loop cfg ncap k v i hi sc s) (after_loopW K v n l hi (resize_with_loop cfg ncap k v i hi sc s)).
  Proof.
    induction k as [|k IH]; intros F i sc s HF.
    - cbv [WHW GREATER lib__MiniVec__resize_with_ast fn_body]. rewrite exec_while.
      remember (xstmt (30 + F)) as REC eqn:EREC.
      cbn [resize_with_loop]. cbv [ENVW after_loopW].
      evz. destruct (i <? hi) eqn:E; cbv [guarded fst snd]; [reflexivity|]. apply HK.
    - destruct F as [|F]; [lia|].
      cbv [WHW GREATER lib__MiniVec__resize_with_ast fn_body]. rewrite exec_while.
      match goal with |- context [xstmt (30 + S F) ?w] => change w with WHW end.
      remember (xstmt (30 + S F) WHW) as REC eqn:EREC.
      cbn [resize_with_loop]. cbv [ENVW after_loopW uadd bind ret panic] in *.
      evz. red1.
      destruct (i <? hi) eqn:E; red1.
      2:{ cbv [guarded fst snd]. apply HK. }
      repeat first
        [ reflexivity
        | match goal with
          | |- guarded _ (projS (REC _ (?s1, ?sc1) _ _)) = _ =>
              subst REC; change (30 + S F)%nat with (S (30 + F)); apply (IH F _ sc1 s1); lia
          end
        | lazymatch goal with |- guarded (_, _) _ = _ => cbv [guarded fst snd] end; red1
        | lazymatch goal with |- guarded ?B _ = _ => let x := hs B in lazymatch x with resize_with_loop _ _ _ _ _ _ _ _ => fail | _ => case_on x end end; red1; known
        | step; known ].
  Qed.
  (* ---- the whole body ---- *)
  Definition run_resize_with (fuel : nat) (v : nat) (n : Z) (sc : list answer) (s : state) : AnsM :=
    projS (@eval_fn mfail WS cfg NOF P fuel lib__MiniVec__resize_with_ast [VObj v; VInt n; VCtor "Closure" []] (s, sc)).

  Definition resize_bound (v : nat) (n : Z) (s : state) : nat :=
    match len v s with
    | (Val l, _) => small (n - l)
    | _ => O
    end.

  Ltac next_stmt K EK :=
    rewrite exec_stmts_cons;
    match goal with |- context [@exec_stmt _ _ _ _ _ _ _ _ _ _ ?k] => remember k as K eqn:EK end.
  Ltac fuel_for_loop :=
    match goal with
    | |- context [xstmt ?f WHW] =>
        let X := fresh "X" in evar (X : nat);
        replace f with (S (30 + X)) by (subst X; reflexivity)
    end.

  Theorem resize_with_equiv v n sc s F :
    (resize_bound v n s <= F)%nat ->
    fst (resize_with cfg ncap v n sc s) <> OutOfFuel ->
    run_resize_with (FUEL + F) v n sc s = lift_m (resize_with cfg ncap v n sc) vunit s.
  Proof.
    intros HF Hfuel.
    unfold run_resize_with, eval_fn. cbv [lib__MiniVec__resize_with_ast fn_body fn_params FUEL combine rev app].
    cbn [Nat.add].
    rewrite exec_block_S.
    unfold lift_m. unfold resize_bound in HF.
    cbv [resize_with bind ret] in Hfuel |- *.
    next_stmt K1 EK1. evz. red1.
    destruct (len v s) as [[l| | | | |] s1] eqn:El; try reflexivity.
    cbv beta iota zeta in Hfuel, HF.
    subst K1. rewrite exec_stmts_nil. rewrite eval_match_S.
    match goal with |- context [xexpr _ _ _ _ _ ?k] => remember k as K2 eqn:EK2 end.
    evz. red1.
    destruct (n <? l) eqn:Elt; red1.
    { subst K2. evz. red1. destruct (truncate cfg v n s1) as [[u| | | | |] s2]; reflexivity. }
    destruct (n =? l) eqn:Eeq; red1.
    { subst K2. evz. reflexivity. }
    subst K2.
    rewrite eval_arms_S. cbv [match_pat String.eqb Ascii.eqb Bool.eqb Nat.eqb List.length andb].
    rewrite eval_arms_S. cbv [match_pat String.eqb Ascii.eqb Bool.eqb Nat.eqb List.length andb combine app].
    match goal with |- context [xexpr _ (EBlock ?b)] => change b with GREATER end.
    rewrite eval_eblock_expr.
    assert (Eba : block_assigns GREATER = false) by reflexivity. rewrite Eba.
    cbv [GREATER lib__MiniVec__resize_with_ast fn_body].
    rewrite exec_block_S.
    next_stmt K3 EK3. evz. red1.
    assert (Esub : (0 <=? n - l) = true).
    { apply Z.leb_le. apply Z.ltb_ge in Elt. lia. }
    rewrite Esub. red1.
    subst K3. next_stmt K4 EK4. evz. red1.
    destruct (reserve cfg ncap v (n - l) s1) as [[u| | | | |] s2] eqn:Er; try reflexivity.
    subst K4. rewrite exec_stmts_cons. rewrite exec_sexpr_block. rewrite exec_block_S.
    next_stmt K5 EK5. evz. subst K5.
    next_stmt K6 EK6. evz. subst K6.
    rewrite exec_stmts_cons.
    match goal with |- context [xstmt ?f ?w] => change w with WHW end.
    change [("__hi", VInt (n - l)); ("_i", VInt 0); ("num_elems", VInt (n - l)); ("len", VInt l); ("f", VCtor "Closure" []);
            ("new_len", VInt n); ("self", VObj v)] with (ENVW v n l (n - l) 0).
    assert (Hgo : fst (resize_with_loop cfg ncap (small (n - l)) v 0 (n - l) sc s2) <> OutOfFuel).
    { intros E. apply Hfuel. destruct (resize_with_loop cfg ncap (small (n - l)) v 0 (n - l) sc s2) as [[u'| | | | |] s6]; simpl in E; try discriminate. reflexivity. }
    fuel_for_loop.
    match goal with
    | |- projS (xstmt _ WHW _ _ ?kr ?K) = _ =>
        assert (HK : blind K v n l (n - l)) by (intros i1 i2 s0 sc1 sc2; reflexivity);
        apply (guarded_elim (resize_with_loop cfg ncap (small (n - l)) v 0 (n - l) sc s2) _ _ Hgo);
        rewrite (loop_equivW v n l (n - l) kr K HK (small (n - l)) _ 0 sc s2) by (subst X; lia)
    end.
    f_equal.
  Qed.
End EquivResizeWith.
