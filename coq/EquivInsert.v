(* EquivInsert.v -- see EquivElem.v: the body of `insert`, regenerated from src/lib.rs on every run, evaluates to
   Machine.insert (with the function-boundary semantics of EquivElem.v). *)
From Coq Require Import ZArith List String Bool Lia.
From MV Require Import Ast Eval Scalar Machine EquivDefs Prims EquivTac EquivElem.
From MV.Gen Require Import AstGen.
Import ListNotations.
Open Scope string_scope.
Open Scope Z_scope.

Section S.
  Variable cfg : tcfg.
  Variable ncap : Z -> option Z.
  Local Notation runm := (runm cfg ncap).

  Lemma insert_equiv v i e s :
    len_ok v s -> 0 <= i < W64 ->
    param_dropped_on_unwind cfg e (runm lib__MiniVec__insert_ast [VObj v; VInt i; VInt e]) s
    = lift_m (insert cfg ncap v i e) vunit s.
  Proof.
    intros Hl Hi. unfold param_dropped_on_unwind, runm. evm.
    cbv [insert on_unwind bind ret lift_m vunit panic lift_opt].
    sym; ranges Hl.
  Qed.
End S.
