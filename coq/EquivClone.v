(* EquivClone.v -- `impl Clone for MiniVec` (src/clone.rs): the never-allocated early return, the local
   `copy = MiniVec::new()`, `copy.reserve(self.len())` and the loop
   `for i in 0..self.len() { copy.push(self[i].clone()) }` -- rendered by the translator as
   `{ let i = 0; let __hi = self.len(); while i < __hi { { copy.push(self[i].clone()) } i += 1 } }` --
   evaluate to Machine.clone_body: index through Deref (out of range panics), T::clone of the element,
   push onto the copy, checked increment; for every state and both profiles, whenever the machine's
   loop does not run out of its fuel.  A local `MiniVec::new()` is a new object of the world under the
   first unused name (Machine.new_obj).  What clone_body leaves out is Rust's unwinding glue: when the
   body unwinds the local `copy` is dropped (Machine.clone_vec = the same body under `building`). *)
From Coq Require Import ZArith List String Bool Lia.
From MV Require Import Ast Eval Scalar Machine EquivDefs Prims EquivTac.
From MV.Gen Require Import AstGen.
Import ListNotations.
Open Scope string_scope.
Open Scope Z_scope.

Section EquivClone.
  Variable cfg : tcfg.
  Variable ncap : Z -> option Z.

  Local Notation P := (prim cfg ncap).
  Local Notation NOF := (fun _ : string => @None fn_ast).
  Local Notation AnsM := (outcome mfail val * state)%type.
  Local Notation xstmts := (@exec_stmts mfail state cfg NOF P).
  Local Notation xstmt := (@exec_stmt mfail state cfg NOF P).
  Local Notation xblock := (@exec_block mfail state cfg NOF P).
  Local Notation xexpr := (@eval_expr mfail state cfg NOF P).

  Lemma exec_stmts_cons F s ss en w kr k :
    xstmts (S F) (s :: ss) en w kr k = xstmt F s en w kr (fun en w => xstmts F ss en w kr k).
  Proof. reflexivity. Qed.
  Lemma exec_block_S F ss tail en w kr k :
    xblock (S F) (Blk ss tail) en w kr k =
    xstmts F ss en w kr (fun en' w =>
      match tail with
      | Some e => xexpr F e en' w kr (fun v w => k v (restore en en') w)
      | None => k VUnit (restore en en') w
      end).
  Proof. reflexivity. Qed.
  Lemma exec_sexpr_block F b en w kr k :
    xstmt (S F) (SExpr (EBlock b)) en w kr k = xblock F b en w kr (fun _ en w => k en w).
  Proof. reflexivity. Qed.
  Lemma exec_while F c b en w kr k :
    xstmt (S F) (SWhile c b) en w kr k =
    xexpr F c en w kr (fun vc w =>
      match vc with
      | VBool true => xblock F b en w kr (fun _ en w => xstmt F (SWhile c b) en w kr k)
      | VBool false => k en w
      | _ => (Stuck "while on non-boolean", w)
      end).
  Proof. reflexivity. Qed.

  (* the loop statement of the regenerated body *)
  Definition WHC : stmt :=
    match fn_body clone__MiniVec__clone_ast with
    | Blk [_; _; _; SExpr (EBlock (Blk [_; _; w] _))] _ => w
    | _ => SForeign "no loop"
    end.
  Definition ENVC (v w : nat) (hi i : Z) : env :=
    [("__hi", VInt hi); ("i", VInt i); ("copy", VObj w); ("self", VObj v)].

  Definition guarded {A} (r : res A * state) (x : AnsM) : AnsM :=
    match fst r with OutOfFuel => (NoFuel, snd r) | _ => x end.

  Definition after_loopC (K : env -> state -> AnsM) (v w : nat) (hi : Z) (r : res unit * state) : AnsM :=
    match r with
    | (Val _, s') => K (ENVC v w hi hi) s'
    | (Panicking, s') => (Panic, s')
    | (UB u, s') => (Fail (FUB u), s')
    | (AllocAbort x y, s') => (Fail (FAllocAbort x y), s')
    | (Abort, s') => (Fail FAbort, s')
    | (OutOfFuel, s') => (Fail FNoFuel, s')
    end.

  Ltac evc := cbv -[Z.add Z.sub Z.mul Z.div Z.modulo Z.eqb Z.ltb Z.leb Z.max Z.min Z.land Z.to_nat W64 ISIZE_MAX
                  release esz ealign needs_drop is_pow2 layout_ok
                  is_default len capacity alignment vec_handle hdr_block reserve
                  deref clone_elem push new_obj clone_go
                  get_block put_block set_handle
                  nth_error heap vecs guarded].

  Ltac known :=
    repeat match goal with
           | H : ?x = (_, _) |- context [?x] => rewrite H; red1
           end.

  (* the continuation after the loop does not look at the loop variable *)
  Definition i_blind (K : env -> state -> AnsM) (v w : nat) (hi : Z) : Prop :=
    forall i1 i2 s, K (ENVC v w hi i1) s = K (ENVC v w hi i2) s.

  Lemma loop_equivC v w hi kr K (HK : i_blind K v w hi) : forall k F i s,
    (k <= F)%nat ->
    guarded (clone_go cfg ncap v w k i hi s) (xstmt (S (30 + F)) WHC (ENVC v w hi i) s kr K) =
    guarded (clone_go cfg ncap v w k i hi s) (after_loopC K v w hi (clone_go cfg ncap v w k i hi s)).
  Proof.
    induction k as [|k IH]; intros F i s HF.
    - (* no fuel on the machine side: compared only when the loop is over *)
      cbv [WHC clone__MiniVec__clone_ast fn_body]. rewrite exec_while.
      remember (xstmt (30 + F)) as REC eqn:EREC.
      cbn [clone_go]. cbv [ENVC after_loopC].
      evc. destruct (i <? hi) eqn:E; cbv [guarded fst snd]; [reflexivity|]. apply HK.
    - destruct F as [|F]; [lia|].
      cbv [WHC clone__MiniVec__clone_ast fn_body]. rewrite exec_while.
      match goal with |- context [xstmt (30 + S F) ?w] => change w with WHC end.
      remember (xstmt (30 + S F) WHC) as REC eqn:EREC.
      cbn [clone_go]. cbv [ENVC after_loopC index_at uadd bind ret panic] in *.
      evc. red1.
      destruct (i <? hi) eqn:E; red1.
      2:{ cbv [guarded fst snd]. apply HK. }
      repeat first
        [ reflexivity
        | match goal with
          | |- guarded _ (REC _ ?s1 _ _) = _ =>
              subst REC; change (30 + S F)%nat with (S (30 + F)); apply (IH F _ s1); lia
          end
        | lazymatch goal with |- guarded (_, _) _ = _ => cbv [guarded fst snd] end; red1
        | lazymatch goal with |- guarded ?B _ = _ => let x := hs B in lazymatch x with clone_go _ _ _ _ _ _ _ _ => fail | _ => case_on x end end; red1; known
        | step; known ].
  Qed.
  (* ---- the whole body ---- *)
  Definition run_clone (fuel : nat) (v : nat) (s : state) : AnsM :=
    @eval_fn mfail state cfg NOF P fuel clone__MiniVec__clone_ast [VObj v] s.

  (* the loop bound the body reads (0 when it does not get that far) *)
  Definition clone_bound (v : nat) (s : state) : Z :=
    match (d <- is_default v ;;
           if d then ret 0 else
           w <- new_obj cfg ;; l <- len v ;; reserve cfg ncap w l ;;; len v) s with
    | (Val l2, _) => l2
    | _ => 0
    end.

  Definition lift_resC (r : res nat * state) : AnsM :=
    match r with
    | (Val a, s') => (Norm (VObj a), s')
    | (Panicking, s') => (Panic, s')
    | (UB k, s') => (Fail (FUB k), s')
    | (AllocAbort x y, s') => (Fail (FAllocAbort x y), s')
    | (Abort, s') => (Fail FAbort, s')
    | (OutOfFuel, s') => (Fail FNoFuel, s')
    end.

  Lemma guarded_elim {A} (r : res A * state) (x y : AnsM) :
    fst r <> OutOfFuel -> guarded r x = guarded r y -> x = y.
  Proof. unfold guarded. destruct (fst r); congruence. Qed.

  Ltac next_stmt K EK :=
    rewrite exec_stmts_cons;
    match goal with |- context [@exec_stmt _ _ _ _ _ _ _ _ _ _ ?k] => remember k as K eqn:EK end.

  Theorem clone_equiv v s F :
    (Z.to_nat (clone_bound v s) <= F)%nat ->
    fst (clone_body cfg ncap v s) <> OutOfFuel ->
    run_clone (FUEL + F) v s = lift_m (clone_body cfg ncap v) VObj s.
  Proof.
    intros HF Hfuel.
    unfold run_clone, eval_fn. cbv [clone__MiniVec__clone_ast fn_body fn_params FUEL combine rev app].
    change (120 + F)%nat with (S (119 + F)). rewrite exec_block_S.
    unfold lift_m. unfold clone_bound in HF.
    cbv [clone_body clone_fill bind ret] in Hfuel, HF |- *.
    change (119 + F)%nat with (S (118 + F)).
    next_stmt K1 EK1. evc. red1.
    destruct (is_default v s) as [[d| | | | |] s1] eqn:Ed; try reflexivity.
    destruct d; red1.
    { (* never allocated: return MiniVec::new() *)
      destruct (new_obj cfg s1) as [[w| | | | |] s2]; reflexivity. }
    subst K1. change (118 + F)%nat with (S (117 + F)).
    next_stmt K2 EK2. evc. red1.
    destruct (new_obj cfg s1) as [[w| | | | |] s2] eqn:En; try reflexivity.
    subst K2. change (117 + F)%nat with (S (116 + F)).
    next_stmt K3 EK3. evc. red1.
    destruct (len v s2) as [[l| | | | |] s3] eqn:El; try reflexivity.
    destruct (reserve cfg ncap w l s3) as [[u| | | | |] s4] eqn:Er; try reflexivity.
    subst K3. change (116 + F)%nat with (S (115 + F)).
    rewrite exec_stmts_cons. change (115 + F)%nat with (S (114 + F)). rewrite exec_sexpr_block.
    change (114 + F)%nat with (S (113 + F)). rewrite exec_block_S.
    change (113 + F)%nat with (S (112 + F)).
    next_stmt K4 EK4. evc. subst K4. change (112 + F)%nat with (S (111 + F)).
    next_stmt K5 EK5. evc. red1.
    destruct (len v s4) as [[l2| | | | |] s5] eqn:El2; try reflexivity.
    subst K5. change (111 + F)%nat with (S (110 + F)).
    rewrite exec_stmts_cons.
    match goal with |- context [xstmt (110 + F) ?w] => change w with WHC end.
    change [("__hi", VInt l2); ("i", VInt 0); ("copy", VObj w); ("self", VObj v)] with (ENVC v w l2 0).
    change (110 + F)%nat with (S (30 + (79 + F))).
    cbv beta iota zeta in Hfuel, HF.
    assert (Hgo : fst (clone_go cfg ncap v w (Z.to_nat l2) 0 l2 s5) <> OutOfFuel).
    { intros E. apply Hfuel. destruct (clone_go cfg ncap v w (Z.to_nat l2) 0 l2 s5) as [[u'| | | | |] s6]; simpl in E; try discriminate. reflexivity. }
    match goal with
    | |- xstmt _ WHC _ _ ?kr ?K = _ =>
        assert (HK : i_blind K v w l2) by (intros i1 i2 s0; reflexivity);
        apply (guarded_elim (clone_go cfg ncap v w (Z.to_nat l2) 0 l2 s5) _ _ Hgo);
        rewrite (loop_equivC v w l2 kr K HK (Z.to_nat l2) (79 + F)%nat 0 s5) by lia
    end.
    f_equal.
    destruct (clone_go cfg ncap v w (Z.to_nat l2) 0 l2 s5) as [[u'| | | | |] s6]; cbv [after_loopC]; try reflexivity.
  Qed.
End EquivClone.

(* The model has no operation for `clone_from`: it relies on the crate defining `clone` only, so that
   `a.clone_from(&b)` is core's default `*a = b.clone()` (drop of the old value + clone, both modelled).
   Re-proved on every run against the signature table regenerated from the source (Gen/Facts.v): the
   only methods of `impl Clone` blocks in the crate are the two `clone`s (MiniVec, IntoIter).  A hand-written
   `clone_from` (seeded change C12_6) breaks this obligation. *)
From MV Require FactsDef.
From MV.Gen Require Facts.
Lemma clone_surface :
  map (fun f => (FactsDef.s_owner f, FactsDef.s_name f))
      (filter (fun f => String.eqb (FactsDef.s_trait f) "Clone") Facts.sigs)
  = [("MiniVec", "clone"); ("IntoIter", "clone")].
Proof. vm_compute. reflexivity. Qed.
