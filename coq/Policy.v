(* Policy.v -- re-proved on every run against the AST regenerated from src/impl/helpers.rs:
   the growth policy next_capacity::<T> has the properties the theorems rely on (first
   allocation is non-empty, growth is at least doubling, overflow is refused by panicking).
   Changing the constants 8 / 4 / 1 keeps this lemma; changing doubling to +1 breaks it. *)
From Coq Require Import ZArith List String Bool Lia.
From MV Require Import Ast Eval Scalar Machine Run Text EquivDefs Model.
From MV.Proofs Require Import Arith Grow.
From MV.Gen Require Import AstGen.
Import ListNotations.
Open Scope Z_scope.

Lemma ncap_policy cfg : policy_ok (ncap_of cfg).
Proof.
  unfold policy_ok, ncap_of. intros c c' Hc H.
  cbv -[Z.add Z.sub Z.mul Z.div Z.modulo Z.eqb Z.ltb Z.leb Z.max Z.min Z.land W64 ISIZE_MAX
        release esz ealign needs_drop is_pow2 layout_ok] in H.
  pose proof W64_val as HW.
  repeat match type of H with
         | context [if ?b then _ else _] => destruct b eqn:?
         end; inversion H; subst; clear H;
  repeat match goal with
         | H : (_ <? _) = true |- _ => apply Z.ltb_lt in H
         | H : (_ <? _) = false |- _ => apply Z.ltb_ge in H
         | H : (_ =? _) = true |- _ => apply Z.eqb_eq in H
         | H : (_ =? _) = false |- _ => apply Z.eqb_neq in H
         end; lia.
Qed.

(* the policy does not depend on the build profile *)
Lemma ncap_profile_independent c1 c2 x :
  esz c1 = esz c2 -> ncap_of c1 x = ncap_of c2 x.
Proof.
  intros E. unfold ncap_of.
  cbv -[Z.add Z.sub Z.mul Z.div Z.modulo Z.eqb Z.ltb Z.leb Z.max Z.min Z.land W64 ISIZE_MAX
        release esz ealign needs_drop is_pow2 layout_ok].
  rewrite E. reflexivity.
Qed.
