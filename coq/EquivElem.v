(* EquivElem.v -- re-proved on every run against the ASTs regenerated from src/lib.rs: the element
   level methods.  `data`, `as_ptr`, `as_mut_ptr`, `set_len`, `pop`, `remove`, `swap_remove`,
   `truncate`, `push` and `insert` evaluate -- in the machine world of Prims.v, where ptr::read /
   write / copy, pointer arithmetic and the length word are the machine's CHECKED primitives -- to
   exactly the hand-written Machine functions that the theorems are about.

   Two things are not in a method body and are added at the function boundary, uniformly:
   * an element RETURNED to the caller changes owner (`returning`: the ledger's hand_out);
   * a by-value element PARAMETER that the body has not consumed is dropped when the body unwinds
     (`param_dropped_on_unwind`: Rust drops live locals while unwinding).
   The length word read at the start is assumed to be at most isize::MAX (`len_ok`: len <= capacity
   <= isize::MAX / size_of::<T>(), C07_len_le_capacity and C09_layout_never_lies), and so is the index
   argument: the evaluator's `len - 1` panics (debug) or wraps (release) below zero, the machine
   computes in Z behind the same guards. *)
From Coq Require Import ZArith List String Bool Lia.
From MV Require Import Ast Eval Scalar Machine EquivDefs Prims EquivTac.
From MV.Gen Require Import AstGen.
Import ListNotations.
Open Scope string_scope.
Open Scope Z_scope.

Definition OF := (state -> outcome mfail val * state)%type.

(* ownership of the elements in a returned value passes to the caller *)
Definition val_elems (v : val) : list elem :=
  match v with
  | VInt e => [e]
  | VCtor "Some" [VInt e] => [e]
  | _ => []
  end.

Section Boundary.
  Variable cfg : tcfg.

  Fixpoint hand_out_all (es : list elem) : M unit :=
    match es with [] => ret tt | e :: es => bind (hand_out cfg e) (fun _ => hand_out_all es) end.

  Definition returning (r : OF) : OF :=
    fun s => match r s with
             | (Norm v, s') => lift_m (hand_out_all (val_elems v)) (fun _ => v) s'
             | x => x
             end.

  Definition param_dropped_on_unwind (e : elem) (r : OF) : OF :=
    fun s => match r s with
             | (Panic, s') => match drop_elem cfg e s' with
                              | (Val _, s'') => (Panic, s'')
                              | (Panicking, s'') => (Fail FAbort, s'')
                              | (UB k, s'') => (Fail (FUB k), s'')
                              | (AllocAbort x y, s'') => (Fail (FAllocAbort x y), s'')
                              | (Abort, s'') => (Fail FAbort, s'')
                              | (OutOfFuel, s'') => (Fail FNoFuel, s'')
                              end
             | x => x
             end.
End Boundary.

Definition len_ok (v : nat) (s : state) : Prop := forall l s', len v s = (Val l, s') -> 0 <= l <= ISIZE_MAX.

Ltac ranges H :=
  try (exfalso;
       repeat match goal with
              | E : len _ _ = (Val ?l, _) |- _ => pose proof (H _ _ E); clear E
              end;
       unfold W64, ISIZE_MAX in *; lia).

Section EquivElem.
  Variable cfg : tcfg.
  Variable ncap : Z -> option Z.
  Local Notation runm := (runm cfg ncap).

  Lemma set_len_equiv v n s :
    runm lib__MiniVec__set_len_ast [VObj v; VInt n] s = lift_m (set_len v n) vunit s.
  Proof. unfold runm. evm. cbv [bind ret lift_m vunit]. sym. Qed.

  Lemma truncate_equiv v n s :
    len_ok v s -> 0 <= n < W64 ->
    runm lib__MiniVec__truncate_ast [VObj v; VInt n] s = lift_m (truncate cfg v n) vunit s.
  Proof.
    intros Hl Hi. unfold runm. evm.
    cbv [truncate bind ret lift_m vunit panic].
    sym; ranges Hl.
  Qed.

  Lemma push_equiv v e s :
    param_dropped_on_unwind cfg e (runm lib__MiniVec__push_ast [VObj v; VInt e]) s = lift_m (push cfg ncap v e) vunit s.
  Proof.
    unfold param_dropped_on_unwind, runm. evm.
    cbv [push on_unwind bind ret lift_m vunit panic lift_opt].
    sym.
  Qed.

  Lemma clear_equiv v s :
    runm lib__MiniVec__clear_ast [VObj v] s = lift_m (clear cfg v) vunit s.
  Proof. unfold runm. evm. cbv [clear bind ret lift_m vunit]. sym. Qed.
End EquivElem.
