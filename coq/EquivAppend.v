(* EquivAppend.v -- re-proved on every run against the AST regenerated from src/lib.rs: `append`
   evaluates to Machine.append: the emptiness test on `other`, reserve(other.len()), the
   non-overlapping copy from other's storage to the end of self's, other's length cut to 0 and
   self's length advanced -- in this order. *)
From Coq Require Import ZArith List String Bool Lia.
From MV Require Import Ast Eval Scalar Machine EquivDefs Prims EquivTac.
From MV.Gen Require Import AstGen.
Import ListNotations.
Open Scope string_scope.
Open Scope Z_scope.

Section S.
  Variable cfg : tcfg.
  Variable ncap : Z -> option Z.
  Local Notation runm := (runm cfg ncap).

  Lemma is_empty_equiv v s :
    runm lib__MiniVec__is_empty_ast [VObj v] s = lift_m (is_empty v) VBool s.
  Proof. unfold runm. evm. cbv [is_empty bind ret lift_m]. sym. Qed.

  Lemma append_equiv v o s :
    runm lib__MiniVec__append_ast [VObj v; VObj o] s = lift_m (append cfg ncap v o) vunit s.
  Proof.
    unfold runm. evm.
    cbv [append is_empty bind ret lift_m vunit].
    sym.
  Qed.
End S.
