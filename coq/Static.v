(* Static.v -- what minivec contributes to the compile-time rules of C16 is its SIGNATURES and
   marker fields; this file states, as boolean checks over the tables that rs2v regenerates from
   /repo on every run (Gen/Facts.v), the facts a client program's rejection rests on.  rustc itself
   is observed, not modelled: the corpus of must-not-compile / must-compile twins is compiled against
   the current crate by the check (DESIGN.md, C16). *)
From Coq Require Import List String Bool Ascii.
From MV Require Import FactsDef.
Import ListNotations.
Open Scope string_scope.

Fixpoint prefix_at (p s : string) : bool :=
  match p, s with
  | EmptyString, _ => true
  | String a p', String b s' => Ascii.eqb a b && prefix_at p' s'
  | _, _ => false
  end.
Fixpoint contains (needle hay : string) : bool :=
  prefix_at needle hay || match hay with EmptyString => false | String _ h => contains needle h end.

Definition any_contains (needle : string) (l : list string) : bool := existsb (contains needle) l.

Section Tables.
  Variable structs : list struct_fact.
  Variable unsafe_impls : list unsafe_impl_fact.
  Variable sigs : list sig_fact.

  Definition find_sig (owner name : string) : option sig_fact :=
    find (fun s => String.eqb (s_owner s) owner && String.eqb (s_name s) name && String.eqb (s_trait s) "") sigs.
  Definition find_struct (name : string) : option struct_fact :=
    find (fun s => String.eqb (st_name s) name) structs.

  (* every `unsafe impl Send/Sync for X<T>` is bounded on T: Send / T: Sync respectively *)
  Definition auto_traits_bounded : bool :=
    forallb (fun u => any_contains (ui_trait u) (ui_bounds u)) unsafe_impls &&
    negb (match unsafe_impls with [] => true | _ => false end).

  (* the draining constructors borrow the vector mutably and return a type that carries a lifetime:
     by the elision rules that lifetime is the receiver's, so the vector stays mutably borrowed for
     as long as the iterator lives *)
  Definition iter_type_has_lifetime (ty : string) : bool :=
    match find_struct ty with
    | Some st => existsb (fun g => prefix_at "'" g) (st_generics st) &&
                 existsb (fun f => match snd f with FPhantom a => prefix_at "&'" a | FRef _ => true | _ => false end) (st_fields st)
    | None => false
    end.
  Definition borrows_mutably (name ret_ty : string) : bool :=
    match find_sig "MiniVec" name with
    | Some sg => (match s_recv sg with RMut => true | _ => false end) && contains ret_ty (s_ret sg) && negb (s_unsafe sg) &&
                 (* no lifetime parameter of its own: the iterator's lifetime can only be the elided one,
                    i.e. the receiver's -- a free `'a` would detach the iterator from the borrow *)
                 negb (existsb (fun g => prefix_at "'" g) (s_generics sg)) && negb (contains "'static" (s_ret sg))
    | None => false
    end.
  Definition draining_iterators_borrow : bool :=
    borrows_mutably "drain" "Drain" && iter_type_has_lifetime "Drain" &&
    borrows_mutably "splice" "Splice" && iter_type_has_lifetime "Splice" &&
    borrows_mutably "drain_filter" "DrainFilter" && iter_type_has_lifetime "DrainFilter".

  (* views: &self / &mut self in, a reference or slice out (elided lifetime = the receiver's) *)
  Definition view_ok (name : string) (mutable : bool) : bool :=
    match find_sig "MiniVec" name with
    | Some sg => (match s_recv sg, mutable with RMut, true => true | RShared, false => true | _, _ => false end) &&
                 (prefix_at "&" (s_ret sg) || prefix_at "(&" (s_ret sg))
    | None => false
    end.
  Definition views_borrow : bool :=
    view_ok "as_slice" false && view_ok "as_mut_slice" true &&
    view_ok "spare_capacity_mut" true && view_ok "split_at_spare_mut" true.

  (* leak<'a>(vec) -> &'a mut [T] requires T: 'a *)
  Definition leak_bounded : bool :=
    match find_sig "MiniVec" "leak" with
    | Some sg => any_contains "T: 'a" (s_bounds sg) && contains "&'a" (s_ret sg)
    | None => false
    end.

  (* MiniVec<T> owns T for drop-check / variance / auto-trait purposes: PhantomData<T> next to the
     untyped NonNull<u8>; IntoIter embeds the vector itself *)
  Definition ownership_markers : bool :=
    match find_struct "MiniVec" with
    | Some st => existsb (fun f => match snd f with FPhantom "T" => true | _ => false end) (st_fields st) &&
                 existsb (fun f => match snd f with FNonNull _ => true | _ => false end) (st_fields st)
    | None => false
    end &&
    match find_struct "IntoIter" with
    | Some st => existsb (fun f => match snd f with FMiniVec => true | _ => false end) (st_fields st)
    | None => false
    end.

  Definition table_adequate : bool :=
    auto_traits_bounded && draining_iterators_borrow && views_borrow && leak_bounded && ownership_markers.
End Tables.
