(* Text.v -- the textual history / trace format shared with the Rust harness (DESIGN.md
   appendix C): parsing a history line into a configuration and operations, rendering the
   observations as trace lines.  Executable definitions only; the same code runs extracted to
   OCaml and under vm_compute. *)
From Coq Require Import ZArith List String Ascii Bool DecimalString.
From MV Require Import Ast Eval Scalar Machine Run.
Import ListNotations.
Open Scope string_scope.
Open Scope list_scope.
Open Scope Z_scope.

(* ------------------------------------------------------------------ strings *)

Fixpoint split_aux (c : ascii) (s : string) (cur : string) : list string :=
  match s with
  | EmptyString => [cur]
  | String a s' => if Ascii.eqb a c then cur :: split_aux c s' "" else split_aux c s' (cur ++ String a "")%string
  end.
Definition split (c : ascii) (s : string) : list string := split_aux c s "".
Definition nonempty (s : string) : bool := negb (String.eqb s "").
Definition words (s : string) : list string := filter nonempty (split " "%char s).

Fixpoint join (sep : string) (l : list string) : string :=
  match l with
  | [] => ""
  | [x] => x
  | x :: l => (x ++ sep ++ join sep l)%string
  end.

Definition is_digit (a : ascii) : bool :=
  let n := nat_of_ascii a in (48 <=? n)%nat && (n <=? 57)%nat.
Definition digit_val (a : ascii) : Z := Z.of_nat (nat_of_ascii a) - 48.

(* leading decimal digits of s: (value, rest) *)
Fixpoint take_num (s : string) (acc : Z) : Z * string :=
  match s with
  | String a s' => if is_digit a then take_num s' (acc * 10 + digit_val a) else (acc, s)
  | EmptyString => (acc, s)
  end.
Definition num (s : string) : Z := fst (take_num s 0).
Definition natnum (s : string) : nat := Z.to_nat (Z.min (num s) 400).

Definition zstr (z : Z) : string := NilZero.string_of_int (Z.to_int z).

Definition strip_prefix (p s : string) : option string :=
  if String.prefix p s then Some (String.substring (String.length p) (String.length s - String.length p) s)
  else None.

Fixpoint codes (s : string) : list Z :=
  match s with
  | EmptyString => []
  | String a s' => Z.of_nat (nat_of_ascii a) :: codes s'
  end.

(* a script token: "-" is empty; an optional "h<digits>:" prefix (claimed size hint) is ignored *)
Definition script_of (t : string) : script :=
  let body := match split ":"%char t with
              | [_; b] => b
              | _ => t
              end in
  if String.eqb body "-" then [] else codes body.

(* ------------------------------------------------------------------ arguments *)

Definition wrap (z : Z) : Z := z mod W64.

(* <base>(<op><digits>)* ; base = L | C | M | digits ; ops + - * / left to right, wrapping *)
Fixpoint arg_ops (fuel : nat) (s : string) (acc : Z) : Z :=
  match fuel with
  | O => acc
  | S fuel =>
      match s with
      | EmptyString => acc
      | String o s' =>
          let '(n, rest) := take_num s' 0 in
          let acc' :=
            if Ascii.eqb o "+" then wrap (acc + n)
            else if Ascii.eqb o "-" then wrap (acc - n)
            else if Ascii.eqb o "*" then wrap (acc * n)
            else if Ascii.eqb o "/" then (if n =? 0 then acc else acc / n)
            else acc in
          arg_ops fuel rest acc'
      end
  end.

Definition arg_of (l c : Z) (t : string) : Z :=
  match t with
  | String "L" r => arg_ops (String.length t) r l
  | String "C" r => arg_ops (String.length t) r c
  | String "M" r => arg_ops (String.length t) r USIZE_MAX
  | _ => let '(n, rest) := take_num t 0 in arg_ops (String.length t) rest (wrap n)
  end.

Definition bound_of (l c : Z) (t : string) : bound :=
  match t with
  | String "i" r => BIncl (arg_of l c r)
  | String "e" r => BExcl (arg_of l c r)
  | _ => BUnb
  end.

Definition nth_tok (ts : list string) (n : nat) : string := nth n ts "-".

(* ------------------------------------------------------------------ operations *)

Section Parse.
  Variable cfg : tcfg.
  Variable next_capacity : Z -> option Z.

  (* len / capacity of the vector an argument refers to; 0 when it does not exist or is borrowed *)
  Definition lc (s : state) (v : nat) : Z * Z :=
    if has s v then
      match Machine.len v s, Machine.capacity v s with
      | (Val l, _), (Val c, _) => (l, c)
      | _, _ => (0, 0)
      end
    else (0, 0).

  Definition parse_op (s : state) (ts : list string) : op :=
    let name := nth_tok ts 0 in
    let v := natnum (nth_tok ts 1) in
    let w := natnum (nth_tok ts 2) in
    let '(l, c) := lc s v in
    let A := fun n => arg_of l c (nth_tok ts n) in
    let B := fun n => bound_of l c (nth_tok ts n) in
    let N := fun n => num (nth_tok ts n) in
    let SC := fun n => script_of (nth_tok ts n) in
    if String.eqb name "new" then ONew v
    else if String.eqb name "default" then ODefault v
    else if String.eqb name "mac0" then OMac0 v
    else if String.eqb name "wcap" then OWithCapacity v (A 2%nat)
    else if String.eqb name "walign" then OWithAlignment v (A 2%nat) (A 3%nat)
    else if String.eqb name "fromslice" then OFromSlice v (N 2%nat)
    else if String.eqb name "frommut" then OFromMutSlice v (N 2%nat)
    else if String.eqb name "fromstr" then OFromStr v (N 2%nat)
    else if String.eqb name "fromiter" then OFromIter v (SC 2%nat)
    else if String.eqb name "macrep" then OMacroRepeat v (N 2%nat)
    else if String.eqb name "maclist" then OMacroList v
    else if String.eqb name "clone" then OClone v w
    else if String.eqb name "drainvec" then ODrainVec v w
    else if String.eqb name "splitoff" then OSplitOff v w (A 3%nat)
    else if String.eqb name "rawrt" then ORawRoundTrip v (N 2%nat =? 3)
    else if String.eqb name "leak" then OLeak v
    else if String.eqb name "drop" then ODropVec v
    else if String.eqb name "push" then
      OPush v (match strip_prefix "=" (nth_tok ts 2) with Some p => Some (num p) | None => None end)
    else if String.eqb name "pop" then OPop v
    else if String.eqb name "insert" then OInsert v (A 2%nat)
    else if String.eqb name "remove" then ORemove v (A 2%nat)
    else if String.eqb name "swaprm" then OSwapRemove v (A 2%nat)
    else if String.eqb name "trunc" then OTruncate v (A 2%nat)
    else if String.eqb name "clear" then OClear v
    else if String.eqb name "resize" then OResize v (A 2%nat)
    else if String.eqb name "resizewith" then OResizeWith v (A 2%nat) (SC 3%nat)
    else if String.eqb name "extslice" then OExtendFromSlice v (N 2%nat)
    else if String.eqb name "extend" then OExtend v (SC 2%nat)
    else if String.eqb name "extwithin" then OExtendFromWithin v (B 2%nat) (B 3%nat)
    else if String.eqb name "append" then OAppend v w
    else if String.eqb name "dedup" then ODedup v
    else if String.eqb name "dedupby" then ODedupBy v (SC 2%nat)
    else if String.eqb name "dedupkey" then ODedupByKey v
    else if String.eqb name "retain" then ORetain v (SC 2%nat)
    else if String.eqb name "rmitem" then ORemoveItem v (N 2%nat)
    else if String.eqb name "reserve" then OReserve v (A 2%nat)
    else if String.eqb name "reservex" then OReserveExact v (A 2%nat)
    else if String.eqb name "shrinkfit" then OShrinkToFit v
    else if String.eqb name "shrinkto" then OShrinkTo v (A 2%nat)
    else if String.eqb name "spare" then OSpare v
    else if String.eqb name "splitspare" then OSplitSpare v
    else if String.eqb name "index" then OIndex v (A 2%nat)
    else if String.eqb name "slice" then OSlice v (B 2%nat) (B 3%nat)
    else if String.eqb name "cmp" then OCmp v w
    else if String.eqb name "drain" then ODrain v w (B 3%nat) (B 4%nat)
    else if String.eqb name "splice" then OSplice v w (B 3%nat) (B 4%nat) (SC 5%nat)
    else if String.eqb name "dfilter" then ODrainFilter v w (SC 3%nat)
    else if String.eqb name "intoiter" then OIntoIter v w
    else if String.eqb name "next" then ONext v
    else if String.eqb name "nextb" then ONextBack v
    else if String.eqb name "nth" then ONth v (A 2%nat)
    else if String.eqb name "nthb" then ONthBack v (A 2%nat)
    else if String.eqb name "count" then OCount v
    else if String.eqb name "last" then OLast v
    else if String.eqb name "hint" then OHint v
    else if String.eqb name "asslice" then OAsSlice v
    else if String.eqb name "cloneit" then OCloneIter v w
    else if String.eqb name "dropit" then ODropIter v
    else if String.eqb name "forget" then OForgetIter v
    else OUnknown.
End Parse.

(* ------------------------------------------------------------------ rendering *)

Definition ids (l : list elem) : string := ("[" ++ join "," (map zstr l) ++ "]")%string.

Definition ubname (k : ubkind) : string :=
  match k with
  | DoubleDrop => "DoubleDrop" | DeadExposed => "DeadExposed" | UninitExposed => "UninitExposed"
  | DupExposed => "DupExposed" | HeaderAccess => "HeaderAccess" | MisplacedHeader => "MisplacedHeader"
  | OutOfBlock => "OutOfBlock" | MisplacedData => "MisplacedData" | AllocContract => "AllocContract"
  | NullSlice => "NullSlice" | WildCursor => "WildCursor" | UseAfterFree => "UseAfterFree"
  | NullDeref => "NullDeref" | BadObject => "BadObject"
  end.

Definition outstr (t : outtag) : string :=
  match t with
  | TOk => "ok" | TPanic => "panic" | TSkip => "skip" | TUnknown => "unknown"
  | TUB k => ("ub:" ++ ubname k)%string
  | TAbort => "abort"
  | TAllocAbort s a => ("allocabort:" ++ zstr s ++ ":" ++ zstr a)%string
  | TNoFuel => "nofuel"
  end.

Definition stchar (s : status) : string :=
  match s with Live => "L" | Out => "O" | Dropped => "D" | Fresh => "?" end.

Definition retstr (r : retv) : string :=
  match r with
  | RNone => "-"
  | ROpt (Some e) => ("s" ++ zstr e)%string
  | ROpt None => "n"
  | RElem e => zstr e
  | RList l => ids l
  | RCode c => if c =? 0 then "ok" else if c =? 1 then "e1" else "e2"
  | RNum n => zstr n
  | RPair a b => (zstr a ++ "," ++ zstr b)%string
  | RHint lo (Some h) => (zstr lo ++ "," ++ zstr h)%string
  | RHint lo None => (zstr lo ++ ",-")%string
  | RCmp e pc =>
      let a := if e then "true" else "false" in
      let b := if pc =? 0 then "lt" else if pc =? 1 then "eq" else if pc =? 2 then "gt" else "none" in
      (a ++ "," ++ b)%string
  | REnd led bl =>
      (String.concat "" (map stchar led) ++ ";[" ++
       join "," (map (fun x => (zstr (fst x) ++ ":" ++ zstr (snd x))%string) bl) ++ "]")%string
  end.

Definition placestr (p : place) : string :=
  match p with
  | PlNull => "nul"
  | PlAt off size align => (zstr off ++ "@" ++ zstr size ++ ":" ++ zstr align)%string
  end.

Definition natstr (n : nat) : string := zstr (Z.of_nat n).

Definition vobsstr (v : vobs) : string :=
  ("v" ++ natstr (vo_id v) ++ "=" ++ zstr (vo_len v) ++ "," ++ zstr (vo_cap v) ++ "," ++
   placestr (vo_place v) ++ "," ++ ids (vo_ids v))%string.

Definition alloc_ev (e : event) : list string :=
  match e with
  | EvAlloc s a => [("a" ++ zstr s ++ ":" ++ zstr a)%string]
  | EvRealloc s a n => [("r" ++ zstr s ++ ":" ++ zstr a ++ ">" ++ zstr n)%string]
  | EvDealloc s a => [("d" ++ zstr s ++ ":" ++ zstr a)%string]
  | EvAllocFail s a None => [("f" ++ zstr s ++ ":" ++ zstr a)%string]
  | EvAllocFail s a (Some (l, c, al)) =>
      [("f" ++ zstr s ++ ":" ++ zstr a ++ ":h" ++ zstr l ++ "/" ++ zstr c ++ "/" ++ zstr al)%string]
  | _ => []
  end.
Definition elem_ev (e : event) : list string :=
  match e with
  | EvClone a b => [("c" ++ zstr a ++ ">" ++ zstr b)%string]
  | EvDrop a => [("d" ++ zstr a)%string]
  | EvCall tag args => [(tag ++ join "," (map zstr args))%string]
  | _ => []
  end.

Definition render (k : nat) (name : string) (o : obs) : string :=
  (natstr k ++ " " ++ name ++ " " ++ outstr (o_out o) ++ " r=" ++ retstr (o_ret o) ++ " | " ++
   join " " (map vobsstr (o_vecs o)) ++ " | a=[" ++ join "," (flat_map alloc_ev (o_events o)) ++
   "] | e=[" ++ join "," (flat_map elem_ev (o_events o)) ++ "]")%string.

(* ------------------------------------------------------------------ whole histories *)

Definition class_cfg (name : string) (rel : bool) : tcfg :=
  let mk := fun s a d => {| esz := s; ealign := a; needs_drop := d; release := rel |} in
  if String.eqb name "1x1" then mk 1 1 true else if String.eqb name "1x1c" then mk 1 1 false
  else if String.eqb name "2x2" then mk 2 2 true else if String.eqb name "2x2c" then mk 2 2 false
  else if String.eqb name "3x1" then mk 3 1 true else if String.eqb name "3x1c" then mk 3 1 false
  else if String.eqb name "8x8" then mk 8 8 true else if String.eqb name "8x8c" then mk 8 8 false
  else if String.eqb name "24x8" then mk 24 8 true else if String.eqb name "24x8c" then mk 24 8 false
  else if String.eqb name "16x16" then mk 16 16 true else if String.eqb name "16x16c" then mk 16 16 false
  else if String.eqb name "64x64" then mk 64 64 true else if String.eqb name "64x64c" then mk 64 64 false
  else if String.eqb name "2048x8" then mk 2048 8 true else if String.eqb name "2048x8c" then mk 2048 8 false
  else if String.eqb name "8x8k" then mk 8 8 false      (* Clone observable, no Drop: as the Copy twin *)
  else if String.eqb name "u8" then mk 1 1 false
  else mk 8 8 true.

Fixpoint find_kv (k : string) (ts : list string) : option string :=
  match ts with
  | [] => None
  | t :: ts => match strip_prefix k t with Some v => Some v | None => find_kv k ts end
  end.

Definition numlist (s : string) : list Z := map num (filter nonempty (split ","%char s)).

Section RunText.
  Variable ncap_of : tcfg -> Z -> option Z.      (* growth policy evaluated from the generated AST *)

  Fixpoint run_ops (cfg : tcfg) (k : nat) (ops : list (list string)) (s : state) (acc : list string)
    : list string :=
    match ops with
    | [] =>
        let '(o, _) := finish cfg (ncap_of cfg) s in
        rev (render k "end" o :: acc)
    | ts :: ops =>
        let o := parse_op s ts in
        let '(ob, s', cont) := run_op cfg (ncap_of cfg) o s in
        let line := render k (nth_tok ts 0) ob in
        if cont then run_ops cfg (S k) ops s' (line :: acc) else rev (line :: acc)
    end.

  (* one history line -> its trace (list of lines, the first is "H <id>") *)
  Definition run_line (line : string) : list string :=
    match split ":"%char line with
    | hdr :: _ :: _ =>
        (* the header ends at "::" ; rebuild the body after the first "::" *)
        let hts := words hdr in
        let id := nth_tok hts 1 in
        let body := String.substring (String.length hdr + 2) (String.length line - String.length hdr - 2) line in
        let rel := match find_kv "prof=" hts with Some "r" => true | _ => false end in
        let cfg := class_cfg (match find_kv "cls=" hts with Some c => c | None => "8x8" end) rel in
        let dp := match find_kv "dp=" hts with Some l => numlist l | None => [] end in
        let cp := match find_kv "cp=" hts with Some l => numlist l | None => [] end in
        let af := match find_kv "af=" hts with Some n => Some (num n) | None => None end in
        let lim := match find_kv "lim=" hts with Some n => num n | None => 1073741824 end in
        let ops := filter (fun ts => negb (match ts with [] => true | _ => false end))
                          (map words (split ";"%char body)) in
        ("H " ++ id)%string :: run_ops cfg 0 ops (init_state dp cp af lim) []
    | _ => ["bad history"]
    end.
End RunText.
