(* EquivDeref.v -- `impl Deref for MiniVec` (src/deref.rs): the never-allocated vector gives the empty
   slice without touching a header; otherwise the header's length and the data pointer make the slice,
   whose elements are thereby exposed to safe code (Machine.expose_slice: a null or dangling base, an
   uninitialised, dead or doubly exposed element there is UB).  Every slice view of the vector -- indexing,
   iteration by reference, comparisons, Hash, Debug -- goes through this body.  Proved equal to
   Machine.deref for every state (also ill-formed ones) and both profiles. *)
From Coq Require Import ZArith List String Bool Lia.
From MV Require Import Ast Eval Scalar Machine EquivDefs Prims EquivTac.
From MV.Gen Require Import AstGen.
Import ListNotations.
Open Scope string_scope.
Open Scope Z_scope.

Section S.
  Variable cfg : tcfg.
  Variable ncap : Z -> option Z.
  Local Notation runm := (runm cfg ncap).

  Definition slice_of (es : list elem) : val := VCtor "Slice" (map VInt es).

  Lemma vec_handle_ro v s r s' : vec_handle v s = (r, s') -> s' = s.
  Proof. unfold vec_handle. destruct (nth_error (vecs s) v) as [[h|]|]; intros H; inversion H; reflexivity. Qed.

  (* `is_default()` and `header()` both read the handle; nothing happens in between, so they see the same
     one: a header is never reached through the sentinel *)
  Lemma deref_equiv v s :
    runm deref__MiniVec__deref_ast [VObj v] s = lift_m (deref cfg v) slice_of s.
  Proof.
    unfold runm, eval_fn.
    cbv -[Z.add Z.sub Z.mul Z.div Z.modulo Z.eqb Z.ltb Z.leb Z.max Z.min Z.land W64 ISIZE_MAX
          release esz ealign needs_drop is_pow2 layout_ok
          vec_handle hdr_block data expose_slice map
          get_block put_block set_handle nth_error heap vecs].
    cbv [deref len is_default bind ret lift_m slice_of]. red1.
    destruct (vec_handle v s) as [[h| | | | |] s1] eqn:Eh; red1; try reflexivity.
    pose proof (vec_handle_ro _ _ _ _ Eh). subst s1.
    destruct h as [|b off]; red1; [reflexivity|].
    rewrite !Eh. red1. sym.
  Qed.
End S.
