(* EquivDelegNew.v -- one-line bodies that are pure delegations: re-checked against the regenerated ASTs on
   every run (a body that stops being the delegation stops these lemmas; what the callee does is the
   subject of the callee's own tie).  The text of a closure literal is kept verbatim by the translator,
   so the comparison closure of `dedup` / `dedup_by_key` is pinned too. *)
From Coq Require Import ZArith List String.
From MV Require Import Ast.
From MV.Gen Require Import AstGen.
Import ListNotations.
Open Scope string_scope.

(* Default::default() = Self::new() *)
Lemma default_is_new : fn_body default__MiniVec__default_ast = Blk [] (Some (ECall "Self::new" [])).
Proof. reflexivity. Qed.

