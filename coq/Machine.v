(* Machine.v -- executable checked abstract machine for minivec (DESIGN.md 3.2).
   Definitions only (no proofs) so that the model still runs when a proof breaks.

   Every function below is a transliteration of the Rust function of the same
   name; every primitive is CHECKED: what Rust calls undefined behaviour (double
   drop, exposing a dead or uninitialised slot, a header access through the
   sentinel, an access outside the block, quoting a wrong layout to the
   allocator, a null slice, a wild cursor) is the distinguished outcome `UB k`. *)
From Coq Require Import ZArith List String Bool Lia.
From MV Require Import Ast Eval Scalar.
Import ListNotations.
Open Scope Z_scope.

(* ------------------------------------------------------------------ state *)

Definition elem := Z.                       (* identity of an element value *)

Inductive slot := Uninit | Init (e : elem).

Record block := {
  b_size : Z; b_align : Z;                  (* the layout the block REALLY has (ground truth) *)
  h_len : Z; h_cap : Z; h_align : Z;        (* the three header words minivec reads            *)
  slots : Z -> slot;                        (* element slots, by element index                 *)
  b_live : bool }.

(* what the one-word handle `buf` holds *)
Inductive handle :=
| Sentinel                                  (* &DEFAULT_U8 *)
| At (b : nat) (off : Z).                   (* block b, byte offset off from its start (0 unless
                                               from_raw_part(s) recomputed it wrongly) *)

(* a `*mut T`: `eptr` (PNull | PDangling | PWild | PElt b off i) is defined in Eval.v, beside the
   IR's values *)

Inductive status := Fresh | Live | Out | Dropped.
   (* Fresh: identity not created yet; Out: handed to the caller *)

Inductive ubkind :=
| DoubleDrop | DeadExposed | UninitExposed | DupExposed | HeaderAccess | MisplacedHeader
| OutOfBlock | MisplacedData | AllocContract | NullSlice | WildCursor | UseAfterFree | NullDeref
| BadObject.

Inductive res (A : Type) :=
| Val (a : A)
| Panicking
| UB (k : ubkind)
| AllocAbort (size align : Z)               (* handle_alloc_error(layout) *)
| Abort                                     (* panic while panicking *)
| OutOfFuel.
Arguments Val {A}. Arguments Panicking {A}. Arguments UB {A}.
Arguments AllocAbort {A}. Arguments Abort {A}. Arguments OutOfFuel {A}.

Inductive event :=
| EvAlloc (size align : Z)
| EvRealloc (osize oalign nsize : Z)
| EvDealloc (size align : Z)
| EvAllocFail (size align : Z) (hdr : option (Z * Z * Z))   (* a refused realloc: the header words at that moment *)
| EvClone (src new : elem)
| EvDrop (e : elem)
| EvCall (tag : string) (args : list elem).

(* Drain and Splice share one representation *)
Record drain_it := {
  d_vec : nat; d_pos : eptr; d_end : eptr; d_rpos : eptr; d_rem : Z;
  d_fill : option (list Z) }.               (* Some script: it is a Splice; the script drives fill_.next() *)
Record dfilter_it := {
  f_vec : nat; f_old : Z; f_new : Z; f_pos : Z; f_panicked : bool; f_pred : list Z }.
Record into_it := { i_vec : nat; i_pos : eptr }.

Inductive iter :=
| IDrain (d : drain_it)
| IFilter (f : dfilter_it)
| IInto (i : into_it).

Record state := {
  heap : list block;                        (* block id = position; ids are never reused *)
  vecs : list (option handle);              (* the vectors named in a history: v0, v1, ... *)
  iters : list (option iter);               (* the iterators: i0, i1, ... *)
  ledger : elem -> status;
  payload : elem -> Z;                      (* what ==, ordering, keys and hashing look at *)
  next_elem : elem;
  drop_panics : list elem;                  (* identities whose destructor panics *)
  clone_panics : list elem;                 (* identities whose clone() panics *)
  alloc_fail : option Z;                    (* the k-th allocator request from now fails (0 = next) *)
  alloc_limit : Z;                          (* requests above this many bytes fail *)
  events : list event }.                    (* most recent first *)

Definition M (A : Type) : Type := state -> res A * state.

Definition ret {A} (a : A) : M A := fun s => (Val a, s).
Definition bind {A B} (m : M A) (f : A -> M B) : M B :=
  fun s => match m s with
           | (Val a, s') => f a s'
           | (Panicking, s') => (Panicking, s')
           | (UB k, s') => (UB k, s')
           | (AllocAbort x y, s') => (AllocAbort x y, s')
           | (Abort, s') => (Abort, s')
           | (OutOfFuel, s') => (OutOfFuel, s')
           end.
Notation "x <- a ;; b" := (bind a (fun x => b)) (at level 61, a at next level, right associativity).
Notation "a ;;; b" := (bind a (fun _ => b)) (at level 61, right associativity).

Definition ub {A} (k : ubkind) : M A := fun s => (UB k, s).
Definition panic {A} : M A := fun s => (Panicking, s).
Definition get : M state := fun s => (Val s, s).
Definition put (s : state) : M unit := fun _ => (Val tt, s).
Definition emit (e : event) : M unit :=
  fun s => (Val tt, {| heap := heap s; vecs := vecs s; iters := iters s; ledger := ledger s;
                       payload := payload s; next_elem := next_elem s;
                       drop_panics := drop_panics s; clone_panics := clone_panics s;
                       alloc_fail := alloc_fail s; alloc_limit := alloc_limit s;
                       events := e :: events s |}).

(* cleanup runs on normal exit and while unwinding; a panic inside cleanup while
   unwinding aborts the process *)
Definition try_finally {A} (m : M A) (cleanup : M unit) : M A :=
  fun s => match m s with
           | (Val a, s') => match cleanup s' with
                            | (Val _, s'') => (Val a, s'')
                            | (Panicking, s'') => (Panicking, s'')
                            | (UB k, s'') => (UB k, s'')
                            | (AllocAbort x y, s'') => (AllocAbort x y, s'')
                            | (Abort, s'') => (Abort, s'')
                            | (OutOfFuel, s'') => (OutOfFuel, s'')
                            end
           | (Panicking, s') => match cleanup s' with
                                | (Val _, s'') => (Panicking, s'')
                                | (Panicking, s'') => (Abort, s'')
                                | (UB k, s'') => (UB k, s'')
                                | (AllocAbort x y, s'') => (AllocAbort x y, s'')
                                | (Abort, s'') => (Abort, s'')
                                | (OutOfFuel, s'') => (OutOfFuel, s'')
                                end
           | r => r
           end.

(* run cleanup only when m unwinds (a guard that is mem::forget-ed on the normal path) *)
Definition on_unwind {A} (m : M A) (cleanup : M unit) : M A :=
  fun s => match m s with
           | (Panicking, s') => match cleanup s' with
                                | (Val _, s'') => (Panicking, s'')
                                | (Panicking, s'') => (Abort, s'')
                                | (UB k, s'') => (UB k, s'')
                                | (AllocAbort x y, s'') => (AllocAbort x y, s'')
                                | (Abort, s'') => (Abort, s'')
                                | (OutOfFuel, s'') => (OutOfFuel, s'')
                                end
           | r => r
           end.

(* catch_unwind at the boundary between operations: Some a = completed, None = panicked *)
Definition catch {A} (m : M A) : M (option A) :=
  fun s => match m s with
           | (Val a, s') => (Val (Some a), s')
           | (Panicking, s') => (Val None, s')
           | (UB k, s') => (UB k, s')
           | (AllocAbort x y, s') => (AllocAbort x y, s')
           | (Abort, s') => (Abort, s')
           | (OutOfFuel, s') => (OutOfFuel, s')
           end.

Fixpoint list_set {A} (l : list A) (n : nat) (a : A) : list A :=
  match l, n with
  | [], _ => []
  | _ :: l, O => a :: l
  | x :: l, S n => x :: list_set l n a
  end.

(* store at position n, padding with d when the list is shorter *)
Fixpoint list_put {A} (d : A) (l : list A) (n : nat) (a : A) : list A :=
  match n, l with
  | O, [] => [a]
  | O, _ :: l => a :: l
  | S n, [] => d :: list_put d [] n a
  | S n, x :: l => x :: list_put d l n a
  end.

Definition set_heap (h : list block) : M unit :=
  fun s => (Val tt, {| heap := h; vecs := vecs s; iters := iters s; ledger := ledger s;
                       payload := payload s; next_elem := next_elem s;
                       drop_panics := drop_panics s; clone_panics := clone_panics s;
                       alloc_fail := alloc_fail s; alloc_limit := alloc_limit s;
                       events := events s |}).
Definition set_vecs (v : list (option handle)) : M unit :=
  fun s => (Val tt, {| heap := heap s; vecs := v; iters := iters s; ledger := ledger s;
                       payload := payload s; next_elem := next_elem s;
                       drop_panics := drop_panics s; clone_panics := clone_panics s;
                       alloc_fail := alloc_fail s; alloc_limit := alloc_limit s;
                       events := events s |}).
Definition set_iters (v : list (option iter)) : M unit :=
  fun s => (Val tt, {| heap := heap s; vecs := vecs s; iters := v; ledger := ledger s;
                       payload := payload s; next_elem := next_elem s;
                       drop_panics := drop_panics s; clone_panics := clone_panics s;
                       alloc_fail := alloc_fail s; alloc_limit := alloc_limit s;
                       events := events s |}).
Definition set_ledger (l : elem -> status) : M unit :=
  fun s => (Val tt, {| heap := heap s; vecs := vecs s; iters := iters s; ledger := l;
                       payload := payload s; next_elem := next_elem s;
                       drop_panics := drop_panics s; clone_panics := clone_panics s;
                       alloc_fail := alloc_fail s; alloc_limit := alloc_limit s;
                       events := events s |}).
Definition set_alloc_fail (a : option Z) : M unit :=
  fun s => (Val tt, {| heap := heap s; vecs := vecs s; iters := iters s; ledger := ledger s;
                       payload := payload s; next_elem := next_elem s;
                       drop_panics := drop_panics s; clone_panics := clone_panics s;
                       alloc_fail := a; alloc_limit := alloc_limit s;
                       events := events s |}).

Definition upd {A} (f : Z -> A) (k : Z) (a : A) : Z -> A :=
  fun i => if i =? k then a else f i.

Definition mem (e : elem) (l : list elem) : bool := existsb (Z.eqb e) l.

(* ------------------------------------------------------ element lifecycle *)

Section WithCfg.
  Variable cfg : tcfg.
  (* growth policy: evaluation of the AST regenerated from helpers.rs (see Model.v) *)
  Variable next_capacity : Z -> option Z.

  Definition tracked : bool := needs_drop cfg.
    (* Copy-like element classes (needs_drop = false) have no identity: a bitwise copy is a
       legitimate duplicate, nothing is ever dropped, so the ledger is not consulted *)

  Definition fresh_elem (p : Z) : M elem :=
    fun s => let e := next_elem s in
             (Val e, {| heap := heap s; vecs := vecs s; iters := iters s;
                        ledger := upd (ledger s) e Live;
                        payload := upd (payload s) e p; next_elem := e + 1;
                        drop_panics := drop_panics s; clone_panics := clone_panics s;
                        alloc_fail := alloc_fail s; alloc_limit := alloc_limit s;
                        events := events s |}).

  Definition status_of (e : elem) : M status := fun s => (Val (ledger s e), s).
  Definition payload_of (e : elem) : M Z := fun s => (Val (payload s e), s).

  (* a shared or unique reference to e is created (callback argument, slice element) *)
  Definition expose (e : elem) : M unit :=
    if negb tracked then ret tt else
    st <- status_of e ;;
    match st with Live => ret tt | _ => ub DeadExposed end.

  (* ownership of e passes to the caller (returned / yielded) *)
  Definition hand_out (e : elem) : M unit :=
    if negb tracked then ret tt else
    st <- status_of e ;;
    match st with
    | Live => s <- get ;; set_ledger (upd (ledger s) e Out)
    | _ => ub DeadExposed
    end.

  (* the library runs e's destructor *)
  Definition drop_elem (e : elem) : M unit :=
    if negb tracked then ret tt else
    st <- status_of e ;;
    match st with
    | Live =>
        s <- get ;;
        set_ledger (upd (ledger s) e Dropped) ;;;
        emit (EvDrop e) ;;;
        if mem e (drop_panics s) then panic else ret tt
    | _ => ub DoubleDrop
    end.

  (* T::clone(&e) *)
  Definition clone_elem (e : elem) : M elem :=
    if negb tracked then ret e else
    expose e ;;;
    s <- get ;;
    if mem e (clone_panics s) then emit (EvCall "k:clone_panic:" [e]) ;;; panic
    else p <- payload_of e ;;
         n <- fresh_elem p ;;
         emit (EvClone e n) ;;;
         ret n.

  (* drop_in_place of a list of values, in order: when one destructor panics the rest are
     still dropped, then unwinding resumes; a second panic aborts *)
  Fixpoint drop_list (es : list elem) : M unit :=
    match es with
    | [] => ret tt
    | e :: es => try_finally (drop_elem e) (drop_list es)
    end.

  (* ---------------------------------------------------------------- heap *)

  Definition get_block (b : nat) : M block :=
    fun s => match nth_error (heap s) b with
             | Some bl => if b_live bl then (Val bl, s) else (UB UseAfterFree, s)
             | None => (UB BadObject, s)
             end.

  Definition put_block (b : nat) (bl : block) : M unit :=
    s <- get ;; set_heap (list_set (heap s) b bl).

  Definition with_hdr (bl : block) (l c a : Z) : block :=
    {| b_size := b_size bl; b_align := b_align bl; h_len := l; h_cap := c; h_align := a;
       slots := slots bl; b_live := b_live bl |}.
  Definition with_slots (bl : block) (f : Z -> slot) : block :=
    {| b_size := b_size bl; b_align := b_align bl; h_len := h_len bl; h_cap := h_cap bl;
       h_align := h_align bl; slots := f; b_live := b_live bl |}.

  (* where element 0 of a block really is: fixed by the alignment the block was obtained with *)
  Definition canon_off (bl : block) : option Z := data_offset (b_align bl).

  (* header access through a handle *)
  Definition hdr_block (h : handle) : M (nat * block) :=
    match h with
    | Sentinel => ub HeaderAccess
    | At b off =>
        if off =? 0 then
          bl <- get_block b ;;
          if HEADER_SIZE <=? b_size bl then ret (b, bl) else ub OutOfBlock
        else ub MisplacedHeader
    end.

  (* element access through an element pointer: the assumed data offset must be the real
     one and the element must lie inside the block *)
  Definition elt_block (p : eptr) : M (nat * block * Z) :=
    match p with
    | PNull => ub NullDeref
    | PDangling => ub WildCursor
    | PWild => ub WildCursor
    | PElt b off i =>
        bl <- get_block b ;;
        match canon_off bl with
        | Some co =>
            if negb (off =? co) then ub MisplacedData
            else if (0 <=? i) && (co + (i + 1) * esz cfg <=? b_size bl) then ret (b, bl, i)
            else ub OutOfBlock
        | None => ub MisplacedData
        end
    end.

  (* ptr::read: the bits; ownership is decided by the caller *)
  Definition slot_read (p : eptr) : M elem :=
    x <- elt_block p ;;
    let '(_, bl, i) := x in
    match slots bl i with
    | Init e => ret e
    | Uninit => ub UninitExposed
    end.

  Definition slot_write (p : eptr) (e : elem) : M unit :=
    x <- elt_block p ;;
    let '(b, bl, i) := x in
    put_block b (with_slots bl (upd (slots bl) i (Init e))).

  Definition padd (p : eptr) (k : Z) : eptr :=
    match p with
    | PElt b off i => PElt b off (i + k)
    | PDangling => if k =? 0 then PDangling
                   else if (k =? -1) && (esz cfg <=? ealign cfg) then PNull
                        (* dangling - 1 element: below the dangling address when the element is not
                           larger than its alignment, otherwise it wraps around the address space *)
                   else PWild
    | q => q
    end.

  (* ptr::copy(src, dst, n) (memmove) inside one block, as a closed form *)
  Definition slot_copy (src dst : eptr) (n : Z) : M unit :=
    if n <=? 0 then ret tt else
    match src, dst with
    | PElt b off i, PElt b' off' j =>
        if negb (Nat.eqb b b') then ub BadObject else
        x <- elt_block (PElt b off (i + n - 1)) ;;
        _ <- elt_block (PElt b off i) ;;
        _ <- elt_block (PElt b' off' j) ;;
        _ <- elt_block (PElt b' off' (j + n - 1)) ;;
        let '(_, bl, _) := x in
        let f := slots bl in
        put_block b (with_slots bl (fun k => if (j <=? k) && (k <? j + n) then f (k - j + i) else f k))
    | PNull, _ | _, PNull => ub NullDeref
    | _, _ => ub WildCursor
    end.

  (* ptr::copy_nonoverlapping between two different blocks *)
  Definition slot_copy_across (src dst : eptr) (n : Z) : M unit :=
    if n <=? 0 then ret tt else
    match src, dst with
    | PElt b off i, PElt b' off' j =>
        x <- elt_block (PElt b off (i + n - 1)) ;;
        _ <- elt_block (PElt b off i) ;;
        let '(_, bs, _) := x in
        y <- elt_block (PElt b' off' (j + n - 1)) ;;
        _ <- elt_block (PElt b' off' j) ;;
        let '(_, bd, _) := y in
        let f := slots bs in let g := slots bd in
        put_block b' (with_slots bd (fun k => if (j <=? k) && (k <? j + n) then f (k - j + i) else g k))
    | PNull, _ | _, PNull => ub NullDeref
    | _, _ => ub WildCursor
    end.

  (* ------------------------------------------------------------ allocator *)

  Definition count_request (size : Z) : M bool :=      (* true: this request fails *)
    s <- get ;;
    let over := alloc_limit s <? size in
    match alloc_fail s with
    | Some k => if k =? 0 then set_alloc_fail None ;;; ret true
                else set_alloc_fail (Some (k - 1)) ;;; ret over
    | None => ret over
    end.

  Definition do_alloc (size align : Z) : M (option nat) :=
    fails <- count_request size ;;
    if fails then emit (EvAllocFail size align None) ;;; ret None else
    s <- get ;;
    let b := List.length (heap s) in
    set_heap (heap s ++ [{| b_size := size; b_align := align; h_len := 0; h_cap := 0; h_align := 0;
                            slots := fun _ => Uninit; b_live := true |}]) ;;;
    emit (EvAlloc size align) ;;;
    ret (Some b).

  (* realloc(ptr, old_layout, new_size): old_layout must be the block's layout *)
  Definition do_realloc (h : handle) (osize oalign nsize : Z) : M (option nat) :=
    match h with
    | Sentinel => ub AllocContract
    | At b off =>
        if negb (off =? 0) then ub AllocContract else
        bl <- get_block b ;;
        if negb ((osize =? b_size bl) && (oalign =? b_align bl)) then ub AllocContract else
        fails <- count_request nsize ;;
        if fails then emit (EvAllocFail nsize oalign (Some (h_len bl, h_cap bl, h_align bl))) ;;; ret None else
        s <- get ;;
        let nb := List.length (heap s) in
        (* the old block dies, a new one carries the same bytes (header words and slots) *)
        set_heap (list_set (heap s) b
                    {| b_size := b_size bl; b_align := b_align bl; h_len := h_len bl; h_cap := h_cap bl;
                       h_align := h_align bl; slots := slots bl; b_live := false |}
                  ++ [{| b_size := nsize; b_align := oalign; h_len := h_len bl; h_cap := h_cap bl;
                         h_align := h_align bl; slots := slots bl; b_live := true |}]) ;;;
        emit (EvRealloc osize oalign nsize) ;;;
        ret (Some nb)
    end.

  Definition do_dealloc (h : handle) (size align : Z) : M unit :=
    match h with
    | Sentinel => ub AllocContract
    | At b off =>
        if negb (off =? 0) then ub AllocContract else
        bl <- get_block b ;;
        if negb ((size =? b_size bl) && (align =? b_align bl)) then ub AllocContract else
        put_block b {| b_size := b_size bl; b_align := b_align bl; h_len := h_len bl; h_cap := h_cap bl;
                       h_align := h_align bl; slots := slots bl; b_live := false |} ;;;
        emit (EvDealloc size align)
    end.

  (* ------------------------------------------------------- vector objects *)

  Definition vec_handle (v : nat) : M handle :=
    fun s => match nth_error (vecs s) v with
             | Some (Some h) => (Val h, s)
             | _ => (UB BadObject, s)
             end.
  Definition set_handle (v : nat) (h : option handle) : M unit :=
    s <- get ;; set_vecs (list_put None (vecs s) v h).

  Definition lift_opt {A} (o : option A) : M A :=
    match o with Some a => ret a | None => panic end.

  (* src/lib.rs: is_default, len, capacity, alignment, data, as_ptr / as_mut_ptr *)
  Definition is_default (v : nat) : M bool :=
    h <- vec_handle v ;; ret (match h with Sentinel => true | _ => false end).

  Definition len (v : nat) : M Z :=
    h <- vec_handle v ;;
    match h with
    | Sentinel => ret 0
    | _ => x <- hdr_block h ;; ret (h_len (snd x))
    end.

  Definition capacity (v : nat) : M Z :=
    h <- vec_handle v ;;
    match h with
    | Sentinel => ret 0
    | _ => x <- hdr_block h ;; ret (h_cap (snd x))
    end.

  Definition alignment (v : nat) : M Z :=
    h <- vec_handle v ;;
    match h with
    | Sentinel => ret (max_align cfg)
    | _ => x <- hdr_block h ;; ret (h_align (snd x))
    end.

  Definition set_len (v : nat) (n : Z) : M unit :=
    h <- vec_handle v ;;
    x <- hdr_block h ;;
    let '(b, bl) := x in
    put_block b (with_hdr bl n (h_cap bl) (h_align bl)).

  (* `header.len += n` through `header_mut()`: the length word is read again and written back
     (no overflow is modelled here: len <= capacity <= isize::MAX / size_of::<T>()) *)
  Definition add_len (v : nat) (n : Z) : M unit :=
    h <- vec_handle v ;;
    x <- hdr_block h ;;
    let '(b, bl) := x in
    put_block b (with_hdr bl (h_len bl + n) (h_cap bl) (h_align bl)).

  (* data(): debug_assert!(!is_default()); buf + next_aligned(24, alignment()) -- statement by
     statement as in the source (EquivElem.data_equiv).  On the sentinel an optimized build does
     pointer arithmetic on the address of a static: any use of the result is wild. *)
  Definition data (v : nat) : M eptr :=
    (if release cfg then ret tt else d <- is_default v ;; if d then panic else ret tt) ;;;
    a <- alignment v ;;
    o <- lift_opt (data_offset a) ;;
    h <- vec_handle v ;;
    ret (match h with Sentinel => PWild | At b off => PElt b (off + o) 0 end).

  Definition as_ptr (v : nat) : M eptr :=
    d <- is_default v ;; if d then ret PNull else data v.

  (* src/lib.rs: grow -- statement by statement as in the source (EquivCap.grow_equiv proves the
     regenerated AST evaluates to exactly this) *)
  Definition grow (v : nat) (capacity_ alignment_ : Z) : M unit :=
    (* debug_assert!(capacity >= self.len()) *)
    (if release cfg then ret tt else l0 <- len v ;; if l0 <=? capacity_ then ret tt else panic) ;;;
    old_capacity <- capacity v ;;
    (* if new == old && !(self.is_default() && alignment > max_align::<T>()) { return; } *)
    early <- (if capacity_ =? old_capacity then
                dflt <- is_default v ;;
                ret (negb (if dflt then max_align cfg <? alignment_ else false))
              else ret false) ;;
    if early then ret tt else
    nl <- lift_opt (make_layout cfg capacity_ alignment_) ;;
    let '(nsize, nalign) := nl in
    l <- len v ;;
    dflt <- is_default v ;;
    nb <- (if dflt then do_alloc nsize nalign
           else ol <- lift_opt (make_layout cfg old_capacity alignment_) ;;
                h <- vec_handle v ;;
                do_realloc h (fst ol) (snd ol) nsize) ;;
    match nb with
    | None => fun s => (AllocAbort nsize nalign, s)
    | Some b =>
        bl <- get_block b ;;
        (if HEADER_SIZE <=? b_size bl then ret tt else ub OutOfBlock) ;;;
        put_block b (with_hdr bl l capacity_ alignment_) ;;;
        set_handle v (Some (At b 0))
    end.

  (* src/lib.rs: reserve -- the doubling loop, with fuel (exhaustion = the loop does not end) *)
  Fixpoint reserve_loop (fuel : nat) (c total : Z) : M Z :=
    if total <=? c then ret c else
    match fuel with
    | O => fun s => (OutOfFuel, s)
    | S fuel => c' <- lift_opt (next_capacity c) ;; reserve_loop fuel c' total
    end.

  Definition add_m (a b : Z) : M Z := lift_opt (add_u a b).

  Definition reserve (v : nat) (additional : Z) : M unit :=
    c <- capacity v ;;
    l <- len v ;;
    total <- add_m l additional ;;
    if total <=? c then ret tt else
    c1 <- lift_opt (next_capacity c) ;;
    nc <- reserve_loop 130 c1 total ;;
    a <- alignment v ;;
    grow v nc a.

  Definition reserve_exact (v : nat) (additional : Z) : M unit :=
    c <- capacity v ;;
    l <- len v ;;
    total <- add_m l additional ;;
    if total <=? c then ret tt else
    a <- alignment v ;;
    grow v total a.

  Definition shrink_to_fit (v : nat) : M unit :=
    l <- len v ;;
    c <- capacity v ;;
    if l =? c then ret tt else
    a <- alignment v ;;
    grow v l a.

  Definition shrink_to (v : nat) (min_capacity : Z) : M unit :=
    l <- len v ;;
    c <- capacity v ;;
    if min_capacity <? l then shrink_to_fit v else
    if c =? min_capacity then ret tt else
    if c <? min_capacity then panic else
    a <- alignment v ;;
    grow v min_capacity a.

  Definition new_vec (v : nat) : M unit :=
    if esz cfg =? 0 then panic else set_handle v (Some Sentinel).

  (* the local vector is dropped if the reservation unwinds (it is still never-allocated then) *)
  Definition with_capacity (v : nat) (c : Z) : M unit :=
    new_vec v ;;; on_unwind (reserve_exact v c) (set_handle v None).

  (* result code: 0 = Ok, 1 = Err(AlignmentTooSmall), 2 = Err(AlignmentNotDivisibleByTwo) *)
  Definition with_alignment (v : nat) (c a : Z) : M Z :=
    if a <? max_align cfg then ret 1 else
    if negb (is_pow2 a) then ret 2 else
    new_vec v ;;; on_unwind (grow v c a) (set_handle v None) ;;; ret 0.

  (* ------------------------------------------------------- slices of slots *)

  Fixpoint read_from (p : eptr) (n : nat) : M (list elem) :=
    match n with
    | O => ret []
    | S n => e <- slot_read p ;; es <- read_from (padd p 1) n ;; ret (e :: es)
    end.

  (* the bits of n consecutive slots starting at p; n is checked against the block first so
     that a garbage length cannot make the model loop *)
  Definition read_list (p : eptr) (n : Z) : M (list elem) :=
    if n <=? 0 then ret [] else
    elt_block (padd p (n - 1)) ;;; read_from p (Z.to_nat n).

  Fixpoint expose_list (es : list elem) : M unit :=
    match es with [] => ret tt | e :: es => expose e ;;; expose_list es end.

  Fixpoint has_dup (es : list elem) : bool :=
    match es with [] => false | e :: es => mem e es || has_dup es end.

  (* a `&[T]` / `&mut [T]` over [p, p+n) is created and handed to user code *)
  Definition expose_slice (p : eptr) (n : Z) : M (list elem) :=
    match p with
    | PNull => ub NullSlice
    | _ =>
        es <- read_list p n ;;
        expose_list es ;;;
        if tracked && has_dup es then ub DupExposed else ret es
    end.

  (* Deref: the slice [0, len) *)
  Definition deref (v : nat) : M (list elem) :=
    d <- is_default v ;;
    if d then ret [] else
    l <- len v ;; p <- data v ;; expose_slice p l.

  (* --------------------------------------------------------- simple mutators *)

  Definition push (v : nat) (value : elem) : M unit :=
    on_unwind
      (l <- len v ;; c <- capacity v ;; a <- alignment v ;;
       (if l =? c then nc <- lift_opt (next_capacity c) ;; grow v nc a else ret tt) ;;;
       l <- len v ;;
       d <- data v ;;
       slot_write (padd d l) value ;;;
       add_len v 1)
      (drop_elem value).

  Definition pop (v : nat) : M (option elem) :=
    l <- len v ;;
    if l =? 0 then ret None else
    p <- as_ptr v ;;
    e <- slot_read (padd p (l - 1)) ;;
    set_len v (l - 1) ;;;
    hand_out e ;;;
    ret (Some e).

  Definition insert (v : nat) (index : Z) (element : elem) : M unit :=
    on_unwind
      (l <- len v ;;
       (if l <? index then panic else ret tt) ;;;
       c <- capacity v ;;
       (if l =? c then reserve v 1 else ret tt) ;;;
       p0 <- as_ptr v ;;
       let p := padd p0 index in
       slot_copy p (padd p 1) (l - index) ;;;
       slot_write p element ;;;
       set_len v (l + 1))
      (drop_elem element).

  Definition remove (v : nat) (index : Z) : M elem :=
    l <- len v ;;
    if l <=? index then panic else
    p0 <- as_ptr v ;;
    let p := padd p0 index in
    x <- slot_read p ;;
    slot_copy (padd p 1) p (l - index - 1) ;;;
    set_len v (l - 1) ;;;
    hand_out x ;;;
    ret x.

  Definition swap_remove (v : nat) (index : Z) : M elem :=
    l <- len v ;;
    if l <=? index then panic else
    p0 <- as_ptr v ;;
    src <- slot_read (padd p0 (l - 1)) ;;
    add_len v (-1) ;;;
    p1 <- as_ptr v ;;
    let dst := padd p1 index in
    old <- slot_read dst ;;
    slot_write dst src ;;;
    hand_out old ;;;
    ret old.

  Definition truncate (v : nat) (n : Z) : M unit :=
    l <- len v ;;
    if l <=? n then ret tt else
    set_len v n ;;;
    if negb (needs_drop cfg) then ret tt else
    d <- data v ;;
    es <- read_list (padd d n) (l - n) ;;
    drop_list es.

  Definition clear (v : nat) : M unit := truncate v 0.

  (* src/drop.rs, statement by statement (EquivDrop.drop_equiv): return on the never-allocated vector;
     read the header; drop_in_place(data .. len); dealloc(buf, make_layout(cap, alignment)).  A
     panicking element destructor leaves the block allocated (a leak). *)
  Definition drop_body (v : nat) : M unit :=
    dflt <- is_default v ;;
    if dflt then ret tt else
    x <- (h <- vec_handle v ;; hdr_block h) ;;
    let bl := snd x in
    d <- data v ;;
    es <- read_list d (h_len bl) ;;
    drop_list es ;;;
    lay <- lift_opt (make_layout cfg (h_cap bl) (h_align bl)) ;;
    h <- vec_handle v ;;
    do_dealloc h (fst lay) (snd lay).

  (* drop the vector named v (the name becomes free whether or not a destructor panics) *)
  Definition drop_vec (v : nat) : M unit :=
    try_finally (drop_body v) (set_handle v None).

  (* src/lib.rs: append, statement by statement (EquivAppend.append_equiv) *)
  Definition is_empty (v : nat) : M bool := l <- len v ;; ret (l =? 0).

  Definition append (v o : nat) : M unit :=
    e <- is_empty o ;;
    if e then ret tt else
    ol <- len o ;;
    reserve v ol ;;;
    src <- as_ptr o ;;
    dst <- as_ptr v ;;
    l <- len v ;;
    slot_copy_across src (padd dst l) ol ;;;
    set_len o 0 ;;;
    add_len v ol.

  (* swap two slots through references (core::mem::swap) *)
  Definition slot_swap (p q : eptr) : M unit :=
    a <- slot_read p ;; b <- slot_read q ;;
    slot_write p b ;;; slot_write q a.

  (* user callbacks: the script gives the answers; 80 = 'P' panic, 84 = 'T', 70 = 'F' *)
  Definition answer := Z.
  Definition A_T : answer := 84. Definition A_F : answer := 70. Definition A_P : answer := 80.
  Definition A_S : answer := 83. Definition A_N : answer := 78.

  Definition pop_script (sc : list answer) (default : answer) : answer * list answer :=
    match sc with [] => (default, []) | a :: sc => (a, sc) end.

  (* dedup_by: the kind of equality used *)
  Inductive same_kind :=
  | SameEq                      (* dedup: x == y through T::eq *)
  | SameKey                     (* dedup_by_key with key = payload / 2 *)
  | SameScript.                 (* dedup_by with scripted answers *)

  Definition NAN_PAYLOAD : Z := 7.

  Definition elem_eq (a b : elem) : M bool :=
    expose a ;;; expose b ;;;
    emit (EvCall "q" [a; b]) ;;;
    pa <- payload_of a ;; pb <- payload_of b ;;
    ret ((pa =? pb) && negb (pa =? NAN_PAYLOAD)).

  Definition same_call (k : same_kind) (a b : elem) (sc : list answer) : M (bool * list answer) :=
    match k with
    | SameEq => r <- elem_eq a b ;; ret (r, sc)
    | SameKey =>
        emit (EvCall "k" [a]) ;;; emit (EvCall "k" [b]) ;;;
        pa <- payload_of a ;; pb <- payload_of b ;;
        ret (pa / 2 =? pb / 2, sc)
    | SameScript =>
        emit (EvCall "p" [a; b]) ;;;
        let '(x, sc') := pop_script sc A_F in
        if x =? A_P then panic else ret (x =? A_T, sc')
    end.

  Fixpoint dedup_loop (fuel : nat) (k : same_kind) (d : eptr) (l read write : Z) (sc : list answer) : M Z :=
    match fuel with
    | O => ret write
    | S fuel =>
        if l <=? read then ret write else
        a <- slot_read (padd d read) ;;
        b <- slot_read (padd d (write - 1)) ;;
        r <- same_call k a b sc ;;
        let '(m, sc') := r in
        if m then dedup_loop fuel k d l (read + 1) write sc'
        else (if negb (read =? write) then slot_swap (padd d read) (padd d write) else ret tt) ;;;
             dedup_loop fuel k d l (read + 1) (write + 1) sc'
    end.

  Definition dedup_by (v : nat) (k : same_kind) (sc : list answer) : M unit :=
    l <- len v ;;
    if l <? 2 then ret tt else
    d <- as_ptr v ;;
    w <- dedup_loop (Z.to_nat l) k d l 1 1 sc ;;
    truncate v w.

  (* the two-argument closure of dedup_by called on the elements behind p and q *)
  Definition pair_call (k : same_kind) (p q : eptr) (sc : list answer) : M (bool * list answer) :=
    a <- slot_read p ;; b <- slot_read q ;; same_call k a b sc.

  (* the predicate of retain / drain_filter called on the element behind p: the script answers
     (used by the world of EquivRetain.v; retain_loop below inlines the same sequence) *)
  Definition pred_call (p : eptr) (sc : list answer) : M (bool * list answer) :=
    a <- slot_read p ;;
    expose a ;;;
    emit (EvCall "p" [a]) ;;;
    let '(x, sc') := pop_script sc A_T in
    if x =? A_P then panic else ret (negb (x =? A_F), sc').

  Fixpoint retain_loop (fuel : nat) (d : eptr) (l read write : Z) (sc : list answer) : M Z :=
    match fuel with
    | O => ret write
    | S fuel =>
        if l <=? read then ret write else
        a <- slot_read (padd d read) ;;
        expose a ;;;
        emit (EvCall "p" [a]) ;;;
        let '(x, sc') := pop_script sc A_T in
        if x =? A_P then panic else
        if negb (x =? A_F) then
          (if negb (read =? write) then slot_swap (padd d read) (padd d write) else ret tt) ;;;
          retain_loop fuel d l (read + 1) (write + 1) sc'
        else retain_loop fuel d l (read + 1) write sc'
    end.

  Definition retain (v : nat) (sc : list answer) : M unit :=
    l <- len v ;;
    d <- as_ptr v ;;
    w <- retain_loop (Z.to_nat l) d l 0 0 sc ;;
    truncate v w.

  (* remove_item(&item): item is a probe element compared through T::eq(self[i], item) *)
  Fixpoint remove_item_loop (fuel : nat) (v : nat) (i l : Z) (probe : elem) : M (option elem) :=
    match fuel with
    | O => ret None
    | S fuel =>
        if l <=? i then ret None else
        es <- deref v ;;
        match nth_error es (Z.to_nat i) with
        | None => panic
        | Some e =>
            r <- elem_eq e probe ;;
            if r then x <- remove v i ;; ret (Some x)
            else remove_item_loop fuel v (i + 1) l probe
        end
    end.

  Definition remove_item (v : nat) (probe : elem) : M (option elem) :=
    l <- len v ;;
    remove_item_loop (Z.to_nat l) v 0 l probe.

  Fixpoint repeat_m (n : nat) (m : M unit) : M unit :=
    match n with O => ret tt | S n => m ;;; repeat_m n m end.

  (* a count that is known to fit in the capacity just reserved; impossible counts never get here *)
  Definition small (n : Z) : nat := Z.to_nat (Z.min n 1000000).

  (* usize `a + b`: panics in a debug build, wraps in an optimized one (as Eval.arith) *)
  Definition uadd (a b : Z) : M Z :=
    let r := a + b in
    if r <? W64 then ret r else if release cfg then ret (r - W64) else panic.

  (* src/lib.rs resize: `for _i in 0..num_elems { self.push(value.clone()) }` as the translator renders a
     range loop (EquivResize.v); fuel exhaustion = the loop does not end *)
  Fixpoint resize_loop (fuel : nat) (v : nat) (value : elem) (i hi : Z) : M unit :=
    if i <? hi then
      match fuel with
      | O => fun s => (OutOfFuel, s)
      | S fuel => c <- clone_elem value ;; push v c ;;; i' <- uadd i 1 ;; resize_loop fuel v value i' hi
      end
    else ret tt.

  (* the body of resize as written: match new_len.cmp(&len) { Equal, Greater, Less } *)
  Definition resize_body (v : nat) (new_len : Z) (value : elem) : M unit :=
    l <- len v ;;
    if new_len <? l then truncate v new_len
    else if new_len =? l then ret tt
    else
      reserve v (new_len - l) ;;;
      resize_loop (small (new_len - l)) v value 0 (new_len - l).

  (* ... and Rust's glue: the by-value argument is dropped at the end, also when the body unwinds *)
  Definition resize (v : nat) (new_len : Z) (value : elem) : M unit :=
    try_finally (resize_body v new_len value) (drop_elem value).

  (* generator closure: script 'S' (default) = a fresh element, 'P' = panic *)
  Definition gen_elem (sc : list answer) : M (elem * list answer) :=
    let '(x, sc') := pop_script sc A_S in
    if x =? A_P then emit (EvCall "gP" []) ;;; panic
    else s <- get ;; e <- fresh_elem (next_elem s) ;; emit (EvCall "g" [e]) ;;; ret (e, sc').

  (* src/lib.rs resize_with: `for _i in 0..num_elems { self.push(f()) }` as the translator renders a range
     loop (EquivResizeWith.v) *)
  Fixpoint resize_with_loop (fuel : nat) (v : nat) (i hi : Z) (sc : list answer) : M unit :=
    if i <? hi then
      match fuel with
      | O => fun s => (OutOfFuel, s)
      | S fuel => r <- gen_elem sc ;; push v (fst r) ;;; i' <- uadd i 1 ;; resize_with_loop fuel v i' hi (snd r)
      end
    else ret tt.

  Definition resize_with (v : nat) (new_len : Z) (sc : list answer) : M unit :=
    l <- len v ;;
    if new_len <? l then truncate v new_len
    else if new_len =? l then ret tt
    else
      reserve v (new_len - l) ;;;
      resize_with_loop (small (new_len - l)) v 0 (new_len - l) sc.

  Fixpoint push_clones (v : nat) (es : list elem) : M unit :=
    match es with
    | [] => ret tt
    | e :: es => c <- clone_elem e ;; push v c ;;; push_clones v es
    end.

  (* extend_from_slice(&[T]): the slice is given by its element identities *)
  Definition extend_from_slice (v : nat) (src : list elem) : M unit :=
    reserve v (Z.of_nat (List.length src)) ;;; push_clones v src.

  (* scripted iterator: 'S' = Some(fresh), 'N' (default) = None, 'P' = panic *)
  Definition iter_next (sc : list answer) : M (option elem * list answer) :=
    let '(x, sc') := pop_script sc A_N in
    if x =? A_P then emit (EvCall "gP" []) ;;; panic
    else if x =? A_S then s <- get ;; e <- fresh_elem (next_elem s) ;; emit (EvCall "g" [e]) ;;; ret (Some e, sc')
    else emit (EvCall "gn" []) ;;; ret (None, sc').

  (* for x in iter { v.push(x) }: ends at the first None; fuel bounds the script length *)
  Fixpoint extend_loop (fuel : nat) (v : nat) (sc : list answer) : M (list answer) :=
    match fuel with
    | O => ret sc
    | S fuel =>
        r <- iter_next sc ;;
        match fst r with
        | None => ret (snd r)
        | Some e => push v e ;;; extend_loop fuel v (snd r)
        end
    end.

  Definition extend (v : nat) (sc : list answer) : M (list answer) :=
    extend_loop (S (List.length sc)) v sc.

  (* a local vector under construction is dropped if the construction unwinds *)
  Definition building (v : nat) (m : M unit) : M unit :=
    on_unwind m (drop_vec v).

  Definition from_iter (v : nat) (sc : list answer) : M (list answer) :=
    new_vec v ;;;
    on_unwind (extend v sc) (drop_vec v).

  Definition from_slice (v : nat) (src : list elem) : M unit :=
    with_capacity v (Z.of_nat (List.length src)) ;;;
    building v (push_clones v src).

  (* `self[i]` through Deref + Index: out of range panics *)
  Definition index_at (v : nat) (i : Z) : M elem :=
    es <- deref v ;;
    match nth_error es (Z.to_nat i) with
    | None => panic
    | Some e => ret e
    end.

  (* src/clone.rs: `for i in 0..self.len() { copy.push(self[i].clone()) }` as the translator renders a
     range loop: `while i < hi { copy.push(self[i].clone()); i += 1 }` (EquivClone.v ties the regenerated
     loop to this one; fuel exhaustion = the loop does not end) *)
  Fixpoint clone_go (v w : nat) (fuel : nat) (i hi : Z) : M unit :=
    if i <? hi then
      match fuel with
      | O => fun s => (OutOfFuel, s)
      | S fuel =>
          es <- deref v ;;
          match nth_error es (Z.to_nat i) with
          | None => panic
          | Some e => c <- clone_elem e ;; push w c ;;; i' <- uadd i 1 ;; clone_go v w fuel i' hi
          end
      end
    else ret tt.

  (* the body of clone() after `let mut copy = MiniVec::new()`: reserve, then the loop (the length is
     read again for the loop bound, as the source does) *)
  Definition clone_fill (v w : nat) : M unit :=
    l <- len v ;;
    reserve w l ;;;
    l2 <- len v ;;
    clone_go v w (Z.to_nat l2) 0 l2.

  Definition clone_vec (v w : nat) : M unit :=
    d <- is_default v ;;
    if d then new_vec w else
    new_vec w ;;;
    building w (clone_fill v w).

  (* a local `MiniVec::new()` inside a translated body: a new object of the world, under the first unused
     name *)
  Definition new_obj : M nat :=
    s <- get ;;
    let w := List.length (vecs s) in
    new_vec w ;;; ret w.

  (* the body of `impl Clone for MiniVec` as written (EquivClone.v); clone_vec above is this body with the
     name of the result given in advance and with Rust's unwinding glue: the local `copy` is dropped when
     the body unwinds (`building`) *)
  Definition clone_body (v : nat) : M nat :=
    d <- is_default v ;;
    if d then new_obj else
    w <- new_obj ;;
    clone_fill v w ;;;
    ret w.

  (* bounds of a range argument *)
  Inductive bound := BIncl (n : Z) | BExcl (n : Z) | BUnb.

  Definition resolve (bs be : bound) (l : Z) : M (Z * Z) :=
    s <- match bs with
         | BIncl n => ret n
         | BExcl n => add_m n 1
         | BUnb => ret 0
         end ;;
    e <- match be with
         | BIncl n => add_m n 1
         | BExcl n => ret n
         | BUnb => ret l
         end ;;
    if e <? s then panic else if l <? e then panic else ret (s, e).

  Fixpoint efw_loop (n : nat) (v : nat) (d : eptr) (l s i : Z) : M Z :=
    match n with
    | O => ret i
    | S n =>
        e <- slot_read (padd d (s + i)) ;;
        r <- catch (clone_elem e) ;;
        match r with
        | None => set_len v (l + i) ;;; panic       (* PanicGuard publishes the completed clones *)
        | Some c => slot_write (padd d (l + i)) c ;;; efw_loop n v d l s (i + 1)
        end
    end.

  Definition extend_from_within (v : nat) (bs be : bound) : M unit :=
    l <- len v ;;
    r <- resolve bs be l ;;
    let '(s, e) := r in
    if l =? 0 then ret tt else
    reserve v (e - s) ;;;
    c <- capacity v ;;
    if c =? 0 then ret tt else
    d <- as_ptr v ;;
    _ <- expose_slice d l ;;
    cnt <- efw_loop (Z.to_nat (Z.min (e - s) (c - l))) v d l s 0 ;;
    set_len v (l + cnt).

  Definition split_off (v o : nat) (at_ : Z) : M unit :=
    l <- len v ;;
    if l <? at_ then panic else
    if l =? 0 then
      c <- capacity v ;;
      if 0 <? c then with_capacity o c else new_vec o
    else if at_ =? 0 then
      c <- capacity v ;;
      h <- vec_handle v ;;
      set_handle o (Some h) ;;;
      set_handle v (Some Sentinel) ;;;
      on_unwind (reserve_exact v c) (drop_vec o)
    else
      c <- capacity v ;;
      with_capacity o c ;;;
      set_len v at_ ;;;
      set_len o (l - at_) ;;;
      src <- as_ptr v ;;
      dst <- as_ptr o ;;
      slot_copy_across (padd src at_) dst (l - at_).

  Definition drain_vec (v o : nat) : M unit :=
    h <- vec_handle v ;;
    set_handle o (Some h) ;;; set_handle v (Some Sentinel).

  Definition spare_capacity (v : nat) : M Z :=
    c <- capacity v ;;
    if c =? 0 then ret 0 else
    l <- len v ;; d <- data v ;;
    (if l <? c then _ <- elt_block (padd d (c - 1)) ;; ret tt else ret tt) ;;;
    ret (c - l).

  Definition split_at_spare (v : nat) : M (Z * Z) :=
    c <- capacity v ;;
    if c =? 0 then ret (0, 0) else
    l <- len v ;; p <- as_ptr v ;;
    _ <- expose_slice p l ;;
    ret (l, c - l).

  Definition index (v : nat) (i : Z) : M elem :=
    es <- deref v ;;
    match (if (0 <=? i) && (i <? Z.of_nat (List.length es)) then nth_error es (Z.to_nat i) else None) with
    | Some e => ret e
    | None => panic
    end.

  Definition slice_range (v : nat) (bs be : bound) : M (list elem) :=
    es <- deref v ;;
    r <- resolve bs be (Z.of_nat (List.length es)) ;;
    let '(s, e) := r in
    ret (firstn (Z.to_nat (e - s)) (skipn (Z.to_nat s) es)).

  (* leak: the vector is wrapped in ManuallyDrop; the caller gets &mut [T] *)
  Definition leak (v : nat) : M (list elem) :=
    d <- is_default v ;;
    if d then set_handle v None ;;; ret [] else
    l <- len v ;; p <- as_ptr v ;;
    es <- expose_slice p l ;;
    set_handle v None ;;; ret es.

  (* a `*mut T` seen as a byte position inside its block (`ptr.cast::<u8>()`) *)
  Definition byte_of (p : eptr) : M (nat * Z) :=
    match p with
    | PElt b off i => ret (b, off + i * esz cfg)
    | _ => ub NullDeref
    end.

  (* src/lib.rs, statement by statement (EquivRaw.v): into_raw_parts, from_raw_part, from_raw_parts *)
  Definition into_raw_parts (v : nat) : M (eptr * Z * Z) :=
    p <- as_ptr v ;; l <- len v ;; c <- capacity v ;; ret (p, l, c).

  (* buf = (ptr as *mut u8).sub(next_aligned(size_of::<Header>(), align_of::<T>())) -- the distance is
     computed from align_of::<T>(), not from the alignment the block was obtained with *)
  Definition from_raw_part (p : eptr) : M handle :=
    (if release cfg then ret tt else match p with PNull => panic | _ => ret tt end) ;;;
    a <- lift_opt (next_aligned HEADER_SIZE (ealign cfg)) ;;
    x <- byte_of p ;;
    ret (At (fst x) (snd x - a)).

  Definition from_raw_parts (p : eptr) (l c : Z) : M handle :=
    (if release cfg then ret tt else match p with PNull => panic | _ => ret tt end) ;;;
    a <- lift_opt (next_aligned HEADER_SIZE (ealign cfg)) ;;
    x <- byte_of p ;;
    let h := At (fst x) (snd x - a) in
    (* debug_assert: the header words read through buf equal length and capacity *)
    (if release cfg then ret tt else y <- hdr_block h ;; if h_len (snd y) =? l then ret tt else panic) ;;;
    (if release cfg then ret tt else y <- hdr_block h ;; if h_cap (snd y) =? c then ret tt else panic) ;;;
    ret h.

  (* into_raw_parts followed by from_raw_part / from_raw_parts *)
  Definition raw_roundtrip (v : nat) (three : bool) : M (Z * Z) :=
    r <- into_raw_parts v ;;
    let '(p, l, c) := r in
    h <- (if three then from_raw_parts p l c else from_raw_part p) ;;
    set_handle v (Some h) ;;;
    ret (l, c).

  (* mini_vec![e; n] with an element expression that creates a fresh value per evaluation *)
  Definition macro_repeat (v : nat) (n : Z) : M unit :=
    r <- gen_elem [] ;;
    let e := fst r in
    on_unwind
      (with_capacity v n ;;;
       building v
         ((fix go (k : nat) (i : Z) : M unit :=
             match k with
             | O => ret tt
             | S k => c <- clone_elem e ;;
                      d <- data v ;;
                      slot_write (padd d i) c ;;; go k (i + 1)
             end) (small n) 0 ;;;
          if 0 <? n then set_len v n else ret tt))
      (drop_elem e) ;;;
    (* the block's value has been moved to the result place when `elem` goes out of scope: if its
       destructor panics there, the result vector is leaked, not dropped *)
    on_unwind (drop_elem e) (set_handle v None).

  Fixpoint push_fresh (k : nat) (v : nat) : M unit :=
    match k with
    | O => ret tt
    | S k => s <- get ;; e <- fresh_elem (next_elem s) ;; push v e ;;; push_fresh k v
    end.

  (* From<&str> for MiniVec<u8>: k bytes whose identities are the next k identities *)
  Definition from_str (v : nat) (src : list elem) : M unit :=
    let k := Z.of_nat (List.length src) in
    with_capacity v k ;;;
    if k =? 0 then ret tt else
    building v
      (p <- as_ptr v ;;
       (fix go (es : list elem) (i : Z) : M unit :=
          match es with
          | [] => ret tt
          | e :: es => slot_write (padd p i) e ;;; go es (i + 1)
          end) src 0 ;;;
       set_len v k).

  (* ---------------------------------------------------------------- iterators *)

  Definition iter_get (i : nat) : M iter :=
    fun s => match nth_error (iters s) i with
             | Some (Some it) => (Val it, s)
             | _ => (UB BadObject, s)
             end.
  Definition iter_set (i : nat) (it : option iter) : M unit :=
    s <- get ;; set_iters (list_put None (iters s) i it).

  (* address order of two element pointers of the same provenance *)
  Definition ptr_lt (p q : eptr) : M bool :=
    match p, q with
    | PElt b _ i, PElt b' _ j => if Nat.eqb b b' then ret (i <? j) else ub WildCursor
    | PDangling, PDangling => ret false
    | PNull, PNull => ret false
    | PNull, PDangling => ret true
    | PDangling, PNull => ret false
    | _, _ => ub WildCursor
    end.
  Definition ptr_same (p q : eptr) : M bool :=   (* p == q *)
    match p, q with
    | PElt b _ i, PElt b' _ j => if Nat.eqb b b' then ret (i =? j) else ub WildCursor
    | PDangling, PDangling => ret true
    | PNull, PNull => ret true
    | PNull, PDangling => ret false
    | PDangling, PNull => ret false
    | _, _ => ub WildCursor
    end.
  Definition ptr_diff (p q : eptr) : M Z :=   (* (p - q) / size_of T *)
    match p, q with
    | PElt b _ i, PElt b' _ j => if Nat.eqb b b' then ret (i - j) else ub WildCursor
    | PDangling, PDangling => ret 0
    | PNull, PNull => ret 0
    | _, _ => ub WildCursor
    end.

  Definition make_drain (v : nat) (bs be : bound) (fill : option (list answer)) : M drain_it :=
    l <- len v ;;
    r <- resolve bs be l ;;
    let '(s, e) := r in
    d <- as_ptr v ;;
    match d with
    | PNull =>
        ret {| d_vec := v; d_pos := PDangling; d_end := PDangling; d_rpos := PDangling;
               d_rem := match fill with Some _ => 0 | None => l - e end; d_fill := fill |}
    | _ =>
        set_len v s ;;;
        ret {| d_vec := v; d_pos := padd d s; d_end := padd d e; d_rpos := padd d e;
               d_rem := l - e; d_fill := fill |}
    end.

  Definition with_pos (d : drain_it) (p : eptr) : drain_it :=
    {| d_vec := d_vec d; d_pos := p; d_end := d_end d; d_rpos := d_rpos d; d_rem := d_rem d; d_fill := d_fill d |}.
  Definition with_end (d : drain_it) (p : eptr) : drain_it :=
    {| d_vec := d_vec d; d_pos := d_pos d; d_end := p; d_rpos := d_rpos d; d_rem := d_rem d; d_fill := d_fill d |}.
  Definition with_fill (d : drain_it) (f : list answer) : drain_it :=
    {| d_vec := d_vec d; d_pos := d_pos d; d_end := d_end d; d_rpos := d_rpos d; d_rem := d_rem d; d_fill := Some f |}.

  (* the raw step: the bits leave the window; who owns them is decided by the caller *)
  Definition drain_next (d : drain_it) : M (option elem * drain_it) :=
    lt <- ptr_lt (d_pos d) (d_end d) ;;
    if negb lt then ret (None, d) else
    e <- slot_read (d_pos d) ;;
    ret (Some e, with_pos d (padd (d_pos d) 1)).

  Definition drain_next_back (d : drain_it) : M (option elem * drain_it) :=
    lt <- ptr_lt (d_pos d) (d_end d) ;;
    if negb lt then ret (None, d) else
    let p := padd (d_end d) (-1) in
    e <- slot_read p ;;
    ret (Some e, with_end d p).

  Definition drain_hint (d : drain_it) : M Z := ptr_diff (d_end d) (d_pos d).

  (* drop every element still in the window (no guard: used inside the DropGuard) *)
  Fixpoint drain_rest (fuel : nat) (d : drain_it) : M drain_it :=
    match fuel with
    | O => ret d
    | S fuel =>
        r <- drain_next d ;;
        match fst r with
        | None => ret (snd r)
        | Some e => drop_elem e ;;; drain_rest fuel (snd r)
        end
    end.

  Definition window_fuel (d : drain_it) : nat :=
    match d_pos d, d_end d with
    | PElt _ _ i, PElt _ _ j => S (Z.to_nat (j - i))
    | _, _ => 1%nat
    end.

  Definition drain_guard (d : drain_it) : M unit :=
    d <- drain_rest (window_fuel d) d ;;
    if 0 <? d_rem d then
      let v := d_vec d in
      vl <- len v ;;
      p <- as_ptr v ;;
      slot_copy (d_rpos d) (padd p vl) (d_rem d) ;;;
      set_len v (vl + d_rem d)
    else ret tt.

  (* Splice's DropGuard::drop (src/impl/splice.rs) *)
  Fixpoint fill_loop (n : nat) (v : nat) (begin : eptr) (idx : Z) (sc : list answer)
    : M (bool * list answer) :=           (* (needs_more, rest of the script) *)
    match n with
    | O => ret (true, sc)
    | S n =>
        r <- iter_next sc ;;
        match fst r with
        | Some e =>
            on_unwind (slot_write (padd begin idx) e ;;; l <- len v ;; set_len v (l + 1)) (drop_elem e) ;;;
            fill_loop n v begin (idx + 1) (snd r)
        | None => ret (false, snd r)
        end
    end.

  Definition splice_guard (tmp : nat) (d : drain_it) : M unit :=
    d <- drain_rest (window_fuel d) d ;;
    let v := d_vec d in
    let sc := match d_fill d with Some f => f | None => [] end in
    dflt <- is_default v ;;
    if dflt then _ <- extend v sc ;; ret tt else
    p0 <- as_ptr v ;;
    l0 <- len v ;;
    let begin := padd p0 l0 in
    nd <- ptr_diff (d_rpos d) begin ;;
    r <- fill_loop (Z.to_nat nd) v begin 0 sc ;;
    let '(needs_more, sc) := r in
    if negb needs_more then
      l <- len v ;; p <- as_ptr v ;;
      same <- ptr_diff (padd p l) (d_rpos d) ;;
      if same =? 0 then set_len v (l + d_rem d)
      else slot_copy (d_rpos d) (padd p l) (d_rem d) ;;; set_len v (l + d_rem d)
    else
      _ <- from_iter tmp sc ;;
      try_finally
        (c <- capacity v ;;
         p <- as_ptr v ;;
         roff <- ptr_diff (d_rpos d) p ;;
         l <- len v ;; tl <- len tmp ;;
         let total := l + d_rem d + tl in
         (if c <? total then a <- alignment v ;; grow v total a else ret tt) ;;;
         p <- as_ptr v ;;
         (if 0 <? d_rem d then slot_copy (padd p roff) (padd p (l + tl)) (d_rem d) else ret tt) ;;;
         (if 0 <? tl then tp <- as_ptr tmp ;; slot_copy_across tp (padd p l) tl else ret tt) ;;;
         set_len v (l + d_rem d + tl) ;;;
         (if 0 <? tl then set_len tmp 0 else ret tt))
        (drop_vec tmp).

  (* Drain::drop / Splice::drop: `while let Some(item) = self.next() { guard; drop(item); forget(guard) }`
     then the final guard *)
  Fixpoint drain_drop_loop (fuel : nat) (guard : drain_it -> M unit) (d : drain_it) : M drain_it :=
    match fuel with
    | O => ret d
    | S fuel =>
        r <- drain_next d ;;
        match fst r with
        | None => ret (snd r)
        | Some e => on_unwind (drop_elem e) (guard (snd r)) ;;; drain_drop_loop fuel guard (snd r)
        end
    end.

  Definition drain_drop (tmp : nat) (d : drain_it) : M unit :=
    let guard := match d_fill d with Some _ => splice_guard tmp | None => drain_guard end in
    d' <- drain_drop_loop (window_fuel d) guard d ;;
    guard d'.

  (* DrainFilter *)
  Definition make_filter (v : nat) (sc : list answer) : M dfilter_it :=
    l <- len v ;;
    (if 0 <? l then set_len v 0 else ret tt) ;;;
    ret {| f_vec := v; f_old := l; f_new := 0; f_pos := 0; f_panicked := false; f_pred := sc |}.

  Definition with_f (f : dfilter_it) (nw ps : Z) (pk : bool) (sc : list answer) : dfilter_it :=
    {| f_vec := f_vec f; f_old := f_old f; f_new := nw; f_pos := ps; f_panicked := pk; f_pred := sc |}.

  (* next(): on a predicate panic the iterator is left with panicked = true (returned in the
     second component together with Panicking being signalled through None/Some protocol) *)
  Inductive fstep := FYield (e : elem) | FDone | FPanic.

  Fixpoint filter_next (fuel : nat) (f : dfilter_it) : M (fstep * dfilter_it) :=
    match fuel with
    | O => ret (FDone, f)
    | S fuel =>
        if f_old f <=? f_pos f then ret (FDone, f) else
        d <- data (f_vec f) ;;
        e <- slot_read (padd d (f_pos f)) ;;
        expose e ;;;
        emit (EvCall "p" [e]) ;;;
        let '(x, sc) := pop_script (f_pred f) A_F in
        if x =? A_P then ret (FPanic, with_f f (f_new f) (f_pos f) true sc) else
        if x =? A_T then ret (FYield e, with_f f (f_new f) (f_pos f + 1) false sc) else
        (if f_new f <? f_pos f then slot_copy (padd d (f_pos f)) (padd d (f_new f)) 1 else ret tt) ;;;
        filter_next fuel (with_f f (f_new f + 1) (f_pos f + 1) false sc)
    end.

  Definition filter_fuel (f : dfilter_it) : nat := S (Z.to_nat (f_old f - f_pos f)).

  (* ---- DrainFilter::next as it runs on the iterator OBJECT (slot i of `iters`), statement by statement
     as in src/impl/drain_filter.rs: every `self.field` reads the object, every `self.field = x` writes it,
     `self.pos += 1` is checked usize arithmetic, `(self.pred)(&mut val)` consumes one answer of the
     script stored in the object and may unwind -- leaving `panicked` set (EquivFilter.v ties this to the
     translated body; Proofs/FilterAt.v shows that on a well-formed iterator it is filter_next above
     followed by storing the new iterator value; Run.v executes this one) ---- *)
  Definition filter_of (i : nat) : M dfilter_it :=
    it <- iter_get i ;; match it with IFilter f => ret f | _ => ub BadObject end.
  Definition set_filter_panicked (i : nat) (b : bool) : M unit :=
    f <- filter_of i ;; iter_set i (Some (IFilter (with_f f (f_new f) (f_pos f) b (f_pred f)))).
  Definition set_filter_pos (i : nat) (p : Z) : M unit :=
    f <- filter_of i ;; iter_set i (Some (IFilter (with_f f (f_new f) p (f_panicked f) (f_pred f)))).
  Definition set_filter_new (i : nat) (n : Z) : M unit :=
    f <- filter_of i ;; iter_set i (Some (IFilter (with_f f n (f_pos f) (f_panicked f) (f_pred f)))).
  (* (self.pred)(&mut *p): one answer of the object's script *)
  Definition filter_pred_at (i : nat) (p : eptr) : M bool :=
    f <- filter_of i ;;
    a <- slot_read p ;;
    expose a ;;;
    emit (EvCall "p" [a]) ;;;
    let '(x, sc) := pop_script (f_pred f) A_F in
    iter_set i (Some (IFilter (with_f f (f_new f) (f_pos f) (f_panicked f) sc))) ;;;
    if x =? A_P then panic else ret (x =? A_T).

  Fixpoint filter_next_at (fuel : nat) (i : nat) : M (option elem) :=
    match fuel with
    | O => fun s => (OutOfFuel, s)
    | S fuel =>
        f <- filter_of i ;;
        if f_pos f <? f_old f then
          d <- data (f_vec f) ;;
          let val := padd d (f_pos f) in
          set_filter_panicked i true ;;;
          r <- filter_pred_at i val ;;
          set_filter_panicked i false ;;;
          if r then
            f1 <- filter_of i ;;
            p1 <- uadd (f_pos f1) 1 ;;
            set_filter_pos i p1 ;;;
            e <- slot_read val ;;
            ret (Some e)
          else
            f1 <- filter_of i ;;
            (if f_new f1 <? f_pos f1 then slot_copy_across val (padd d (f_new f1)) 1 else ret tt) ;;;
            f2 <- filter_of i ;;
            p2 <- uadd (f_pos f2) 1 ;;
            set_filter_pos i p2 ;;;
            f3 <- filter_of i ;;
            n3 <- uadd (f_new f3) 1 ;;
            set_filter_new i n3 ;;;
            filter_next_at fuel i
        else ret None
    end.

  Definition filter_guard (f : dfilter_it) : M unit :=
    let num_remaining := f_old f - f_pos f in
    let num_drained := f_pos f - f_new f in
    (if (0 <? num_remaining) && (0 <? num_drained) then
       p <- as_ptr (f_vec f) ;;
       slot_copy (padd p (f_pos f)) (padd p (f_new f)) num_remaining
     else ret tt) ;;;
    if f_old f =? 0 then ret tt else set_len (f_vec f) (f_new f + num_remaining).

  (* Drop for DrainFilter: for_each(drop) under the guard *)
  Fixpoint filter_drop_loop (fuel : nat) (f : dfilter_it) : M unit :=
    match fuel with
    | O => filter_guard f
    | S fuel =>
        r <- filter_next (filter_fuel f) f ;;
        match fst r with
        | FDone => filter_guard (snd r)
        | FPanic => try_finally panic (filter_guard (snd r))
        | FYield e => on_unwind (drop_elem e) (filter_guard (snd r)) ;;; filter_drop_loop fuel (snd r)
        end
    end.

  Definition filter_drop (f : dfilter_it) : M unit :=
    if f_panicked f then filter_guard f else filter_drop_loop (filter_fuel f) f.

  (* IntoIter *)
  Definition make_into (v : nat) : M into_it :=
    d <- is_default v ;;
    p <- (if d then ret PNull else data v) ;;
    ret {| i_vec := v; i_pos := p |}.

  Definition into_next (it : into_it) : M (option elem * into_it) :=
    d <- is_default (i_vec it) ;;
    if d then ret (None, it) else
    l <- len (i_vec it) ;;
    if l <=? 0 then ret (None, it) else
    set_len (i_vec it) (l - 1) ;;;
    e <- slot_read (i_pos it) ;;
    ret (Some e, {| i_vec := i_vec it; i_pos := padd (i_pos it) 1 |}).

  Definition into_next_back (it : into_it) : M (option elem * into_it) :=
    d <- is_default (i_vec it) ;;
    if d then ret (None, it) else
    l <- len (i_vec it) ;;
    if l <=? 0 then ret (None, it) else
    set_len (i_vec it) (l - 1) ;;;
    e <- slot_read (padd (i_pos it) (l - 1)) ;;
    ret (Some e, it).

  (* ---- the stepping methods as they run on an iterator OBJECT of the world (slot i of `iters`),
     statement by statement as in src/impl/drain.rs and src/impl/into_iter.rs: every `self.field`
     reads the object, `self.field = x` writes it (EquivIter.v ties these to the translated bodies;
     Proofs/IterAt.v shows that on a well-formed iterator they are the value-passing functions
     above, which the protocol theorems are about; Run.v executes these) ---- *)
  Definition drain_of (i : nat) : M drain_it :=
    it <- iter_get i ;; match it with IDrain d => ret d | _ => ub BadObject end.
  Definition into_of (i : nat) : M into_it :=
    it <- iter_get i ;; match it with IInto t => ret t | _ => ub BadObject end.
  Definition set_drain_pos (i : nat) (p : eptr) : M unit :=
    d <- drain_of i ;; iter_set i (Some (IDrain (with_pos d p))).
  Definition set_drain_end (i : nat) (p : eptr) : M unit :=
    d <- drain_of i ;; iter_set i (Some (IDrain (with_end d p))).
  Definition set_into_pos (i : nat) (p : eptr) : M unit :=
    t <- into_of i ;; iter_set i (Some (IInto {| i_vec := i_vec t; i_pos := p |})).

  Definition drain_next_at (i : nat) : M (option elem) :=
    d <- drain_of i ;;
    lt <- ptr_lt (d_pos d) (d_end d) ;;               (* if self.drain_pos_ >= self.drain_end_ *)
    if negb lt then ret None else
    e <- slot_read (d_pos d) ;;
    set_drain_pos i (padd (d_pos d) 1) ;;;
    ret (Some e).

  Definition drain_next_back_at (i : nat) : M (option elem) :=
    d <- drain_of i ;;
    lt <- ptr_lt (d_pos d) (d_end d) ;;               (* if self.drain_end_ <= self.drain_pos_ *)
    if negb lt then ret None else
    let p := padd (d_end d) (-1) in
    e <- slot_read p ;;
    set_drain_end i p ;;;
    ret (Some e).

  Definition drain_hint_at (i : nat) : M Z :=
    d <- drain_of i ;; d' <- drain_of i ;; ptr_diff (d_end d) (d_pos d').

  Definition into_next_at (i : nat) : M (option elem) :=
    t <- into_of i ;;
    d <- is_default (i_vec t) ;;
    if d then ret None else
    l <- len (i_vec t) ;;                             (* header.len *)
    lt <- ptr_lt (i_pos t) (padd (i_pos t) l) ;;      (* if data >= data.add(count) *)
    if negb lt then ret None else
    set_into_pos i (padd (i_pos t) 1) ;;;
    add_len (i_vec t) (-1) ;;;
    e <- slot_read (i_pos t) ;;
    ret (Some e).

  Definition into_next_back_at (i : nat) : M (option elem) :=
    t <- into_of i ;;
    d <- is_default (i_vec t) ;;
    if d then ret None else
    l <- len (i_vec t) ;;
    lt <- ptr_lt (i_pos t) (padd (i_pos t) l) ;;
    if negb lt then ret None else
    add_len (i_vec t) (-1) ;;;
    l' <- len (i_vec t) ;;                            (* data.add(header.len) after the decrement *)
    e <- slot_read (padd (i_pos t) l') ;;
    ret (Some e).

  Definition into_len_at (i : nat) : M Z :=
    t <- into_of i ;; len (i_vec t).

  Definition into_as_slice (it : into_it) : M (list elem) :=
    d <- is_default (i_vec it) ;;
    if d then ret [] else
    l <- len (i_vec it) ;;
    expose_slice (i_pos it) l.

  Definition into_clone (it : into_it) (w : nat) : M into_it :=
    new_vec w ;;;
    building w (es <- into_as_slice it ;; extend_from_slice w es) ;;;
    make_into w.

  (* with_capacity / with_alignment as written (EquivCtor.v): a local MiniVec::new(), the reservation /
     the checked growth; with_capacity / with_alignment above are these bodies with the name of the result
     given and the unwinding glue (the local is dropped when the reservation unwinds) *)
  Definition with_capacity_body (c : Z) : M nat :=
    w <- new_obj ;; reserve_exact w c ;;; ret w.
  Definition with_alignment_body (c a : Z) : M (Z * nat) :=
    if a <? max_align cfg then ret (1, O) else
    if negb (is_pow2 a) then ret (2, O) else
    w <- new_obj ;; grow w c a ;;; ret (0, w).

  (* `impl Clone for IntoIter` as written (EquivDrain.into_clone_equiv): a new vector, the slice of what is
     left cloned onto it, a new iterator over it; into_clone above is this body with the name of the new
     vector given and the unwinding glue (`building`) *)
  Definition into_clone_body (it : into_it) : M into_it :=
    w <- new_obj ;;
    es <- into_as_slice it ;;
    extend_from_slice w es ;;;
    make_into w.

  (* src/impl/into_iter.rs, `impl Drop for IntoIter`: the body (EquivDrain.into_drop_equiv) ... *)
  Definition into_drop_body (it : into_it) : M unit :=
    let v := i_vec it in
    d <- is_default v ;;
    if d then ret tt else
    l <- len v ;;
    set_len v 0 ;;;
    es <- read_list (i_pos it) l ;;
    drop_list es.

  (* ... and Rust's drop glue: the embedded vector `v` is dropped afterwards, also when the body unwinds *)
  Definition into_drop (it : into_it) : M unit :=
    let v := i_vec it in
    d <- is_default v ;;
    if d then set_handle v None else
    try_finally (into_drop_body it) (drop_vec v).
End WithCfg.
