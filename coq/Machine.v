(* Machine.v -- executable checked abstract machine for minivec (DESIGN.md 3.2).
   Definitions only (no proofs) so that the model still runs when a proof breaks.

   Every function below is a transliteration of the Rust function of the same
   name; every primitive is CHECKED: what Rust calls undefined behaviour (double
   drop, exposing a dead or uninitialised slot, a header access through the
   sentinel, an access outside the block, quoting a wrong layout to the
   allocator, a null slice, a wild cursor) is the distinguished outcome `UB k`. *)
From Coq Require Import ZArith List String Bool Lia.
From MV Require Import Ast Eval Scalar.
Import ListNotations.
Open Scope Z_scope.

(* ------------------------------------------------------------------ state *)

Definition elem := Z.                       (* identity of an element value *)

Inductive slot := Uninit | Init (e : elem).

Record block := {
  b_size : Z; b_align : Z;                  (* the layout the block REALLY has (ground truth) *)
  h_len : Z; h_cap : Z; h_align : Z;        (* the three header words minivec reads            *)
  slots : Z -> slot;                        (* element slots, by element index                 *)
  b_live : bool }.

(* what the one-word handle `buf` holds *)
Inductive handle :=
| Sentinel                                  (* &DEFAULT_U8 *)
| At (b : nat) (off : Z).                   (* block b, byte offset off from its start (0 unless
                                               from_raw_part(s) recomputed it wrongly) *)

(* a `*mut T` *)
Inductive eptr :=
| PNull
| PDangling                                 (* NonNull::dangling(): address = align_of T *)
| PWild                                     (* dangling - 1 element, wrapped *)
| PElt (b : nat) (off : Z) (i : Z).         (* block b, data assumed at byte offset off, element i *)

Inductive status := Fresh | Live | Out | Dropped.
   (* Fresh: identity not created yet; Out: handed to the caller *)

Inductive ubkind :=
| DoubleDrop | DeadExposed | UninitExposed | DupExposed | HeaderAccess | MisplacedHeader
| OutOfBlock | MisplacedData | AllocContract | NullSlice | WildCursor | UseAfterFree | NullDeref
| BadObject.

Inductive res (A : Type) :=
| Val (a : A)
| Panicking
| UB (k : ubkind)
| AllocAbort (size align : Z)               (* handle_alloc_error(layout) *)
| Abort                                     (* panic while panicking *)
| OutOfFuel.
Arguments Val {A}. Arguments Panicking {A}. Arguments UB {A}.
Arguments AllocAbort {A}. Arguments Abort {A}. Arguments OutOfFuel {A}.

Inductive event :=
| EvAlloc (size align : Z)
| EvRealloc (osize oalign nsize : Z)
| EvDealloc (size align : Z)
| EvAllocFail (size align : Z)
| EvClone (src new : elem)
| EvDrop (e : elem)
| EvCall (tag : string) (args : list elem).

(* Drain and Splice share one representation *)
Record drain_it := {
  d_vec : nat; d_pos : eptr; d_end : eptr; d_rpos : eptr; d_rem : Z;
  d_fill : option (list Z) }.               (* Some script: it is a Splice; the script drives fill_.next() *)
Record dfilter_it := {
  f_vec : nat; f_old : Z; f_new : Z; f_pos : Z; f_panicked : bool; f_pred : list Z }.
Record into_it := { i_vec : nat; i_pos : eptr }.

Inductive iter :=
| IDrain (d : drain_it)
| IFilter (f : dfilter_it)
| IInto (i : into_it).

Record state := {
  heap : list block;                        (* block id = position; ids are never reused *)
  vecs : list (option handle);              (* the vectors named in a history: v0, v1, ... *)
  iters : list (option iter);               (* the iterators: i0, i1, ... *)
  ledger : elem -> status;
  payload : elem -> Z;                      (* what ==, ordering, keys and hashing look at *)
  next_elem : elem;
  drop_panics : list elem;                  (* identities whose destructor panics *)
  clone_panics : list elem;                 (* identities whose clone() panics *)
  alloc_fail : option Z;                    (* the k-th allocator request from now fails (0 = next) *)
  alloc_limit : Z;                          (* requests above this many bytes fail *)
  events : list event }.                    (* most recent first *)

Definition M (A : Type) : Type := state -> res A * state.

Definition ret {A} (a : A) : M A := fun s => (Val a, s).
Definition bind {A B} (m : M A) (f : A -> M B) : M B :=
  fun s => match m s with
           | (Val a, s') => f a s'
           | (Panicking, s') => (Panicking, s')
           | (UB k, s') => (UB k, s')
           | (AllocAbort x y, s') => (AllocAbort x y, s')
           | (Abort, s') => (Abort, s')
           | (OutOfFuel, s') => (OutOfFuel, s')
           end.
Notation "x <- a ;; b" := (bind a (fun x => b)) (at level 61, a at next level, right associativity).
Notation "a ;;; b" := (bind a (fun _ => b)) (at level 61, right associativity).

Definition ub {A} (k : ubkind) : M A := fun s => (UB k, s).
Definition panic {A} : M A := fun s => (Panicking, s).
Definition get : M state := fun s => (Val s, s).
Definition put (s : state) : M unit := fun _ => (Val tt, s).
Definition emit (e : event) : M unit :=
  fun s => (Val tt, {| heap := heap s; vecs := vecs s; iters := iters s; ledger := ledger s;
                       payload := payload s; next_elem := next_elem s;
                       drop_panics := drop_panics s; clone_panics := clone_panics s;
                       alloc_fail := alloc_fail s; alloc_limit := alloc_limit s;
                       events := e :: events s |}).

(* cleanup runs on normal exit and while unwinding; a panic inside cleanup while
   unwinding aborts the process *)
Definition try_finally {A} (m : M A) (cleanup : M unit) : M A :=
  fun s => match m s with
           | (Val a, s') => match cleanup s' with
                            | (Val _, s'') => (Val a, s'')
                            | (Panicking, s'') => (Panicking, s'')
                            | (UB k, s'') => (UB k, s'')
                            | (AllocAbort x y, s'') => (AllocAbort x y, s'')
                            | (Abort, s'') => (Abort, s'')
                            | (OutOfFuel, s'') => (OutOfFuel, s'')
                            end
           | (Panicking, s') => match cleanup s' with
                                | (Val _, s'') => (Panicking, s'')
                                | (Panicking, s'') => (Abort, s'')
                                | (UB k, s'') => (UB k, s'')
                                | (AllocAbort x y, s'') => (AllocAbort x y, s'')
                                | (Abort, s'') => (Abort, s'')
                                | (OutOfFuel, s'') => (OutOfFuel, s'')
                                end
           | r => r
           end.

(* run cleanup only when m unwinds (a guard that is mem::forget-ed on the normal path) *)
Definition on_unwind {A} (m : M A) (cleanup : M unit) : M A :=
  fun s => match m s with
           | (Panicking, s') => match cleanup s' with
                                | (Val _, s'') => (Panicking, s'')
                                | (Panicking, s'') => (Abort, s'')
                                | (UB k, s'') => (UB k, s'')
                                | (AllocAbort x y, s'') => (AllocAbort x y, s'')
                                | (Abort, s'') => (Abort, s'')
                                | (OutOfFuel, s'') => (OutOfFuel, s'')
                                end
           | r => r
           end.

(* catch_unwind at the boundary between operations: Some a = completed, None = panicked *)
Definition catch {A} (m : M A) : M (option A) :=
  fun s => match m s with
           | (Val a, s') => (Val (Some a), s')
           | (Panicking, s') => (Val None, s')
           | (UB k, s') => (UB k, s')
           | (AllocAbort x y, s') => (AllocAbort x y, s')
           | (Abort, s') => (Abort, s')
           | (OutOfFuel, s') => (OutOfFuel, s')
           end.

Fixpoint list_set {A} (l : list A) (n : nat) (a : A) : list A :=
  match l, n with
  | [], _ => []
  | _ :: l, O => a :: l
  | x :: l, S n => x :: list_set l n a
  end.

(* store at position n, padding with d when the list is shorter *)
Fixpoint list_put {A} (d : A) (l : list A) (n : nat) (a : A) : list A :=
  match n, l with
  | O, [] => [a]
  | O, _ :: l => a :: l
  | S n, [] => d :: list_put d [] n a
  | S n, x :: l => x :: list_put d l n a
  end.

Definition set_heap (h : list block) : M unit :=
  fun s => (Val tt, {| heap := h; vecs := vecs s; iters := iters s; ledger := ledger s;
                       payload := payload s; next_elem := next_elem s;
                       drop_panics := drop_panics s; clone_panics := clone_panics s;
                       alloc_fail := alloc_fail s; alloc_limit := alloc_limit s;
                       events := events s |}).
Definition set_vecs (v : list (option handle)) : M unit :=
  fun s => (Val tt, {| heap := heap s; vecs := v; iters := iters s; ledger := ledger s;
                       payload := payload s; next_elem := next_elem s;
                       drop_panics := drop_panics s; clone_panics := clone_panics s;
                       alloc_fail := alloc_fail s; alloc_limit := alloc_limit s;
                       events := events s |}).
Definition set_iters (v : list (option iter)) : M unit :=
  fun s => (Val tt, {| heap := heap s; vecs := vecs s; iters := v; ledger := ledger s;
                       payload := payload s; next_elem := next_elem s;
                       drop_panics := drop_panics s; clone_panics := clone_panics s;
                       alloc_fail := alloc_fail s; alloc_limit := alloc_limit s;
                       events := events s |}).
Definition set_ledger (l : elem -> status) : M unit :=
  fun s => (Val tt, {| heap := heap s; vecs := vecs s; iters := iters s; ledger := l;
                       payload := payload s; next_elem := next_elem s;
                       drop_panics := drop_panics s; clone_panics := clone_panics s;
                       alloc_fail := alloc_fail s; alloc_limit := alloc_limit s;
                       events := events s |}).
Definition set_alloc_fail (a : option Z) : M unit :=
  fun s => (Val tt, {| heap := heap s; vecs := vecs s; iters := iters s; ledger := ledger s;
                       payload := payload s; next_elem := next_elem s;
                       drop_panics := drop_panics s; clone_panics := clone_panics s;
                       alloc_fail := a; alloc_limit := alloc_limit s;
                       events := events s |}).

Definition upd {A} (f : Z -> A) (k : Z) (a : A) : Z -> A :=
  fun i => if i =? k then a else f i.

Definition mem (e : elem) (l : list elem) : bool := existsb (Z.eqb e) l.

(* ------------------------------------------------------ element lifecycle *)

Section WithCfg.
  Variable cfg : tcfg.
  (* growth policy: evaluation of the AST regenerated from helpers.rs (see Model.v) *)
  Variable next_capacity : Z -> option Z.

  Definition tracked : bool := needs_drop cfg.
    (* Copy-like element classes (needs_drop = false) have no identity: a bitwise copy is a
       legitimate duplicate, nothing is ever dropped, so the ledger is not consulted *)

  Definition fresh_elem (p : Z) : M elem :=
    fun s => let e := next_elem s in
             (Val e, {| heap := heap s; vecs := vecs s; iters := iters s;
                        ledger := upd (ledger s) e Live;
                        payload := upd (payload s) e p; next_elem := e + 1;
                        drop_panics := drop_panics s; clone_panics := clone_panics s;
                        alloc_fail := alloc_fail s; alloc_limit := alloc_limit s;
                        events := events s |}).

  Definition status_of (e : elem) : M status := fun s => (Val (ledger s e), s).
  Definition payload_of (e : elem) : M Z := fun s => (Val (payload s e), s).

  (* a shared or unique reference to e is created (callback argument, slice element) *)
  Definition expose (e : elem) : M unit :=
    if negb tracked then ret tt else
    st <- status_of e ;;
    match st with Live => ret tt | _ => ub DeadExposed end.

  (* ownership of e passes to the caller (returned / yielded) *)
  Definition hand_out (e : elem) : M unit :=
    if negb tracked then ret tt else
    st <- status_of e ;;
    match st with
    | Live => s <- get ;; set_ledger (upd (ledger s) e Out)
    | _ => ub DeadExposed
    end.

  (* the library runs e's destructor *)
  Definition drop_elem (e : elem) : M unit :=
    if negb tracked then ret tt else
    st <- status_of e ;;
    match st with
    | Live =>
        s <- get ;;
        set_ledger (upd (ledger s) e Dropped) ;;;
        emit (EvDrop e) ;;;
        if mem e (drop_panics s) then panic else ret tt
    | _ => ub DoubleDrop
    end.

  (* T::clone(&e) *)
  Definition clone_elem (e : elem) : M elem :=
    if negb tracked then ret e else
    expose e ;;;
    s <- get ;;
    if mem e (clone_panics s) then emit (EvCall "clone_panic" [e]) ;;; panic
    else p <- payload_of e ;;
         n <- fresh_elem p ;;
         emit (EvClone e n) ;;;
         ret n.

  (* drop_in_place of a list of values, in order: when one destructor panics the rest are
     still dropped, then unwinding resumes; a second panic aborts *)
  Fixpoint drop_list (es : list elem) : M unit :=
    match es with
    | [] => ret tt
    | e :: es => try_finally (drop_elem e) (drop_list es)
    end.

  (* ---------------------------------------------------------------- heap *)

  Definition get_block (b : nat) : M block :=
    fun s => match nth_error (heap s) b with
             | Some bl => if b_live bl then (Val bl, s) else (UB UseAfterFree, s)
             | None => (UB BadObject, s)
             end.

  Definition put_block (b : nat) (bl : block) : M unit :=
    s <- get ;; set_heap (list_set (heap s) b bl).

  Definition with_hdr (bl : block) (l c a : Z) : block :=
    {| b_size := b_size bl; b_align := b_align bl; h_len := l; h_cap := c; h_align := a;
       slots := slots bl; b_live := b_live bl |}.
  Definition with_slots (bl : block) (f : Z -> slot) : block :=
    {| b_size := b_size bl; b_align := b_align bl; h_len := h_len bl; h_cap := h_cap bl;
       h_align := h_align bl; slots := f; b_live := b_live bl |}.

  (* where element 0 of a block really is: fixed by the alignment the block was obtained with *)
  Definition canon_off (bl : block) : option Z := data_offset cfg (b_align bl).

  (* header access through a handle *)
  Definition hdr_block (h : handle) : M (nat * block) :=
    match h with
    | Sentinel => ub HeaderAccess
    | At b off =>
        if off =? 0 then
          bl <- get_block b ;;
          if HEADER_SIZE <=? b_size bl then ret (b, bl) else ub OutOfBlock
        else ub MisplacedHeader
    end.

  (* element access through an element pointer: the assumed data offset must be the real
     one and the element must lie inside the block *)
  Definition elt_block (p : eptr) : M (nat * block * Z) :=
    match p with
    | PNull => ub NullDeref
    | PDangling => ub WildCursor
    | PWild => ub WildCursor
    | PElt b off i =>
        bl <- get_block b ;;
        match canon_off bl with
        | Some co =>
            if negb (off =? co) then ub MisplacedData
            else if (0 <=? i) && (co + (i + 1) * esz cfg <=? b_size bl) then ret (b, bl, i)
            else ub OutOfBlock
        | None => ub MisplacedData
        end
    end.

  (* ptr::read: the bits; ownership is decided by the caller *)
  Definition slot_read (p : eptr) : M elem :=
    x <- elt_block p ;;
    let '(_, bl, i) := x in
    match slots bl i with
    | Init e => ret e
    | Uninit => ub UninitExposed
    end.

  Definition slot_write (p : eptr) (e : elem) : M unit :=
    x <- elt_block p ;;
    let '(b, bl, i) := x in
    put_block b (with_slots bl (upd (slots bl) i (Init e))).

  Definition padd (p : eptr) (k : Z) : eptr :=
    match p with
    | PElt b off i => PElt b off (i + k)
    | PDangling => if k =? 0 then PDangling
                   else if (k =? -1) && (esz cfg <=? ealign cfg) then PNull
                        (* dangling - 1 element: below the dangling address when the element is not
                           larger than its alignment, otherwise it wraps around the address space *)
                   else PWild
    | q => q
    end.

  (* ptr::copy(src, dst, n) (memmove) inside one block, as a closed form *)
  Definition slot_copy (src dst : eptr) (n : Z) : M unit :=
    if n <=? 0 then ret tt else
    match src, dst with
    | PElt b off i, PElt b' off' j =>
        if negb (Nat.eqb b b') then ub BadObject else
        x <- elt_block (PElt b off (i + n - 1)) ;;
        _ <- elt_block (PElt b off i) ;;
        _ <- elt_block (PElt b' off' j) ;;
        _ <- elt_block (PElt b' off' (j + n - 1)) ;;
        let '(_, bl, _) := x in
        let f := slots bl in
        put_block b (with_slots bl (fun k => if (j <=? k) && (k <? j + n) then f (k - j + i) else f k))
    | PNull, _ | _, PNull => ub NullDeref
    | _, _ => ub WildCursor
    end.

  (* ptr::copy_nonoverlapping between two different blocks *)
  Definition slot_copy_across (src dst : eptr) (n : Z) : M unit :=
    if n <=? 0 then ret tt else
    match src, dst with
    | PElt b off i, PElt b' off' j =>
        x <- elt_block (PElt b off (i + n - 1)) ;;
        _ <- elt_block (PElt b off i) ;;
        let '(_, bs, _) := x in
        y <- elt_block (PElt b' off' (j + n - 1)) ;;
        _ <- elt_block (PElt b' off' j) ;;
        let '(_, bd, _) := y in
        let f := slots bs in let g := slots bd in
        put_block b' (with_slots bd (fun k => if (j <=? k) && (k <? j + n) then f (k - j + i) else g k))
    | PNull, _ | _, PNull => ub NullDeref
    | _, _ => ub WildCursor
    end.

  (* ------------------------------------------------------------ allocator *)

  Definition count_request (size : Z) : M bool :=      (* true: this request fails *)
    s <- get ;;
    let over := alloc_limit s <? size in
    match alloc_fail s with
    | Some k => if k =? 0 then set_alloc_fail None ;;; ret true
                else set_alloc_fail (Some (k - 1)) ;;; ret over
    | None => ret over
    end.

  Definition do_alloc (size align : Z) : M (option nat) :=
    fails <- count_request size ;;
    if fails then emit (EvAllocFail size align) ;;; ret None else
    s <- get ;;
    let b := List.length (heap s) in
    set_heap (heap s ++ [{| b_size := size; b_align := align; h_len := 0; h_cap := 0; h_align := 0;
                            slots := fun _ => Uninit; b_live := true |}]) ;;;
    emit (EvAlloc size align) ;;;
    ret (Some b).

  (* realloc(ptr, old_layout, new_size): old_layout must be the block's layout *)
  Definition do_realloc (h : handle) (osize oalign nsize : Z) : M (option nat) :=
    match h with
    | Sentinel => ub AllocContract
    | At b off =>
        if negb (off =? 0) then ub AllocContract else
        bl <- get_block b ;;
        if negb ((osize =? b_size bl) && (oalign =? b_align bl)) then ub AllocContract else
        fails <- count_request nsize ;;
        if fails then emit (EvAllocFail nsize oalign) ;;; ret None else
        s <- get ;;
        let nb := List.length (heap s) in
        (* the old block dies, a new one carries the same bytes (header words and slots) *)
        set_heap (list_set (heap s) b
                    {| b_size := b_size bl; b_align := b_align bl; h_len := h_len bl; h_cap := h_cap bl;
                       h_align := h_align bl; slots := slots bl; b_live := false |}
                  ++ [{| b_size := nsize; b_align := oalign; h_len := h_len bl; h_cap := h_cap bl;
                         h_align := h_align bl; slots := slots bl; b_live := true |}]) ;;;
        emit (EvRealloc osize oalign nsize) ;;;
        ret (Some nb)
    end.

  Definition do_dealloc (h : handle) (size align : Z) : M unit :=
    match h with
    | Sentinel => ub AllocContract
    | At b off =>
        if negb (off =? 0) then ub AllocContract else
        bl <- get_block b ;;
        if negb ((size =? b_size bl) && (align =? b_align bl)) then ub AllocContract else
        put_block b {| b_size := b_size bl; b_align := b_align bl; h_len := h_len bl; h_cap := h_cap bl;
                       h_align := h_align bl; slots := slots bl; b_live := false |} ;;;
        emit (EvDealloc size align)
    end.

  (* ------------------------------------------------------- vector objects *)

  Definition vec_handle (v : nat) : M handle :=
    fun s => match nth_error (vecs s) v with
             | Some (Some h) => (Val h, s)
             | _ => (UB BadObject, s)
             end.
  Definition set_handle (v : nat) (h : option handle) : M unit :=
    s <- get ;; set_vecs (list_put None (vecs s) v h).

  Definition lift_opt {A} (o : option A) : M A :=
    match o with Some a => ret a | None => panic end.

  (* src/lib.rs: is_default, len, capacity, alignment, data, as_ptr / as_mut_ptr *)
  Definition is_default (v : nat) : M bool :=
    h <- vec_handle v ;; ret (match h with Sentinel => true | _ => false end).

  Definition len (v : nat) : M Z :=
    h <- vec_handle v ;;
    match h with
    | Sentinel => ret 0
    | _ => x <- hdr_block h ;; ret (h_len (snd x))
    end.

  Definition capacity (v : nat) : M Z :=
    h <- vec_handle v ;;
    match h with
    | Sentinel => ret 0
    | _ => x <- hdr_block h ;; ret (h_cap (snd x))
    end.

  Definition alignment (v : nat) : M Z :=
    h <- vec_handle v ;;
    match h with
    | Sentinel => ret (max_align cfg)
    | _ => x <- hdr_block h ;; ret (h_align (snd x))
    end.

  Definition set_len (v : nat) (n : Z) : M unit :=
    h <- vec_handle v ;;
    x <- hdr_block h ;;
    let '(b, bl) := x in
    put_block b (with_hdr bl n (h_cap bl) (h_align bl)).

  (* data(): debug_assert!(!is_default()); buf + next_aligned(24, alignment()) *)
  Definition data (v : nat) : M eptr :=
    h <- vec_handle v ;;
    match h with
    | Sentinel =>
        if release cfg then
          (* release: pointer arithmetic on the sentinel; any use of the result is wild *)
          ret PWild
        else panic
    | At b off =>
        a <- alignment v ;;
        o <- lift_opt (data_offset cfg a) ;;
        ret (PElt b (off + o) 0)
    end.

  Definition as_ptr (v : nat) : M eptr :=
    d <- is_default v ;; if d then ret PNull else data v.

  (* src/lib.rs: grow *)
  Definition grow (v : nat) (capacity_ alignment_ : Z) : M unit :=
    l0 <- len v ;;
    (if release cfg then ret tt else if l0 <=? capacity_ then ret tt else panic) ;;;
    old_capacity <- capacity v ;;
    if capacity_ =? old_capacity then ret tt else
    nl <- lift_opt (make_layout cfg capacity_ alignment_) ;;
    let '(nsize, nalign) := nl in
    l <- len v ;;
    h <- vec_handle v ;;
    nb <- match h with
          | Sentinel => do_alloc nsize nalign
          | _ => ol <- lift_opt (make_layout cfg old_capacity alignment_) ;;
                 do_realloc h (fst ol) (snd ol) nsize
          end ;;
    match nb with
    | None => fun s => (AllocAbort nsize nalign, s)
    | Some b =>
        bl <- get_block b ;;
        (if HEADER_SIZE <=? b_size bl then ret tt else ub OutOfBlock) ;;;
        put_block b (with_hdr bl l capacity_ alignment_) ;;;
        set_handle v (Some (At b 0))
    end.

  (* src/lib.rs: reserve -- the doubling loop, with fuel (exhaustion = the loop does not end) *)
  Fixpoint reserve_loop (fuel : nat) (c total : Z) : M Z :=
    if total <=? c then ret c else
    match fuel with
    | O => fun s => (OutOfFuel, s)
    | S fuel => c' <- lift_opt (next_capacity c) ;; reserve_loop fuel c' total
    end.

  Definition add_m (a b : Z) : M Z := lift_opt (add_u cfg a b).
  Definition sub_m (a b : Z) : M Z := lift_opt (sub_u cfg a b).

  Definition reserve (v : nat) (additional : Z) : M unit :=
    c <- capacity v ;;
    l <- len v ;;
    total <- add_m l additional ;;
    if total <=? c then ret tt else
    c1 <- lift_opt (next_capacity c) ;;
    nc <- reserve_loop 130 c1 total ;;
    a <- alignment v ;;
    grow v nc a.

  Definition reserve_exact (v : nat) (additional : Z) : M unit :=
    c <- capacity v ;;
    l <- len v ;;
    total <- add_m l additional ;;
    if total <=? c then ret tt else
    a <- alignment v ;;
    grow v total a.

  Definition shrink_to_fit (v : nat) : M unit :=
    l <- len v ;;
    c <- capacity v ;;
    if l =? c then ret tt else
    a <- alignment v ;;
    grow v l a.

  Definition shrink_to (v : nat) (min_capacity : Z) : M unit :=
    l <- len v ;;
    c <- capacity v ;;
    if min_capacity <? l then shrink_to_fit v else
    if c =? min_capacity then ret tt else
    if c <? min_capacity then panic else
    a <- alignment v ;;
    grow v min_capacity a.

  Definition new_vec (v : nat) : M unit :=
    if esz cfg =? 0 then panic else set_handle v (Some Sentinel).

  Definition with_capacity (v : nat) (c : Z) : M unit :=
    new_vec v ;;; reserve_exact v c.

  (* Ok(()) = true, Err(AlignmentTooSmall) / Err(AlignmentNotDivisibleByTwo) reported as codes 1 / 2 *)
  Definition with_alignment (v : nat) (c a : Z) : M Z :=
    if a <? max_align cfg then ret 1 else
    if negb (is_pow2 a) then ret 2 else
    new_vec v ;;;
    (* the sentinel must record the alignment even for capacity 0 *)
    grow_first v c a ;;; ret 0
  with_alignment_placeholder := tt.
End WithCfg.
