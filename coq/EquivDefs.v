(* EquivDefs.v -- definitions shared by the translator-tie lemmas and by the executable model (no
   proofs here: the model must still build when a lemma about the regenerated code no longer holds). *)
From Coq Require Import ZArith List String Bool.
From MV Require Import Ast Eval Scalar.
From MV.Gen Require Import AstGen.
Import ListNotations.
Open Scope string_scope.
Open Scope Z_scope.

Definition FUEL : nat := 120.

(* the crate's own scalar helpers, as seen by calls inside translated bodies *)
Definition gen_funs (f : string) : option fn_ast :=
  if String.eqb f "next_aligned" then Some helpers__next_aligned_ast
  else if String.eqb f "next_capacity::<T>" then Some helpers__next_capacity_ast
  else if String.eqb f "max_align::<T>" then Some helpers__max_align_ast
  else if String.eqb f "make_layout::<T>" then Some helpers__make_layout_ast
  else if String.eqb f "map_size_hint" then Some serde__map_size_hint_ast
  else None.

Definition lift {F} (o : option Z) : outcome F val :=
  match o with Some z => Norm (VInt z) | None => Panic end.

