(* EquivData.v -- see EquivElem.v: `data` and `as_mut_ptr` = Machine.data / Machine.as_ptr *)
From Coq Require Import ZArith List String Bool Lia.
From MV Require Import Ast Eval Scalar Machine EquivDefs Prims EquivTac EquivElem.
From MV.Gen Require Import AstGen.
Import ListNotations.
Open Scope string_scope.
Open Scope Z_scope.

Section S.
  Variable cfg : tcfg.
  Variable ncap : Z -> option Z.
  Local Notation runm := (runm cfg ncap).

  Lemma data_equiv v s :
    runm lib__MiniVec__data_ast [VObj v] s = lift_m (data cfg v) eptr_val s.
  Proof. unfold runm. evm. cbv [data bind ret lift_m vunit eptr_val lift_opt data_offset panic]. sym. Qed.

  Lemma as_mut_ptr_equiv v s :
    runm lib__MiniVec__as_mut_ptr_ast [VObj v] s = lift_m (as_ptr cfg v) eptr_val s.
  Proof. unfold runm. evm. cbv [as_ptr bind ret lift_m vunit eptr_val]. sym. Qed.
End S.
