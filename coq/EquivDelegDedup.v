(* EquivDelegDedup.v -- one-line bodies that are pure delegations: re-checked against the regenerated ASTs on
   every run (a body that stops being the delegation stops these lemmas; what the callee does is the
   subject of the callee's own tie).  The text of a closure literal is kept verbatim by the translator,
   so the comparison closure of `dedup` / `dedup_by_key` is pinned too. *)
From Coq Require Import ZArith List String.
From MV Require Import Ast.
From MV.Gen Require Import AstGen.
Import ListNotations.
Open Scope string_scope.

(* dedup() = dedup_by(|x, y| x == y);  dedup_by_key(key) = dedup_by(|a, b| key(a) == key(b)) *)
Lemma dedup_is_dedup_by_eq :
  fn_body lib__MiniVec__dedup_ast = Blk [SExpr (ECall ".dedup_by" [EVar "self"; EForeign "| x , y | x == y"])] None.
Proof. reflexivity. Qed.
Lemma dedup_by_key_is_dedup_by_on_keys :
  fn_body lib__MiniVec__dedup_by_key_ast =
    Blk [SExpr (ECall ".dedup_by" [EVar "self"; EForeign "| a , b | key (a) == key (b)"])] None /\
  fn_params lib__MiniVec__dedup_by_key_ast = ["self"; "key"].
Proof. split; reflexivity. Qed.

