(* EquivSerdeSeq.v -- `VecVisitor::visit_seq` of src/serde.rs (the visitor behind `Deserialize for
   MiniVec`), regenerated:
     let mut values = MiniVec::with_capacity(map_size_hint(seq.size_hint()));
     while let Some(value) = seq.next_element()? { values.push(value) }
     Ok(values)
   (`e?` is rendered as `match e { Ok(v) => v, Err(x) => return Err(From::from(x)) }`, `while let` as in
   section 3.3 of DESIGN.md) evaluated by the IR semantics equals SerdeSeq.visit_body.  The input (a serde
   SeqAccess) is user code: the world is the machine state paired with the input's script of answers;
   `next_element()` consumes one answer (Ok(Some(fresh element)) / Ok(None) / Err), `size_hint()` answers
   the claimed hint h -- any script, any hint, every state, both profiles; induction over the machine's
   fuel, which visit_body sets above the length of the script. *)
From Coq Require Import ZArith List String Bool Lia.
From MV Require Import Ast Eval Scalar Machine SerdeSeq EquivDefs Prims EquivTac.
From MV.Gen Require Import AstGen.
Import ListNotations.
Open Scope string_scope.
Open Scope Z_scope.

Section EquivSerdeSeq.
  Variable cfg : tcfg.
  Variable ncap : Z -> option Z.

  Definition WQ := (state * list answer)%type.
  Definition AnsQ := (outcome mfail val * WQ)%type.

  (* h: the length the input claims *)
  Definition hint_val (h : option Z) : val := match h with Some n => VCtor "Some" [VInt n] | None => VCtor "None" [] end.

  Definition primQ (h : option Z) (f : string) (args : list val) (w : WQ) (k : val -> WQ -> AnsQ) : AnsQ :=
    let '(s, sc) := w in
    if String.eqb f ".size_hint" then k (hint_val h) w
    else if String.eqb f "From::from" then
      match args with [x] => k x w | _ => (Stuck "From::from", w) end
    else if String.eqb f ".next_element" then
      match seq_next sc s with
      | (Val r, s') => k (match fst r with
                          | None => VCtor "Err" [VUnit]
                          | Some o => VCtor "Ok" [opt_elem_val o]
                          end) (s', snd r)
      | (Panicking, s') => (Panic, (s', sc))
      | (UB u, s') => (Fail (FUB u), (s', sc))
      | (AllocAbort x y, s') => (Fail (FAllocAbort x y), (s', sc))
      | (Abort, s') => (Fail FAbort, (s', sc))
      | (OutOfFuel, s') => (Fail FNoFuel, (s', sc))
      end
    else
      match prim cfg ncap f args s (fun v s' => (Norm v, s')) with
      | (Norm v, s') => k v (s', sc)
      | (Ret v, s') => (Ret v, (s', sc))
      | (Panic, s') => (Panic, (s', sc))
      | (Fail x, s') => (Fail x, (s', sc))
      | (Stuck m, s') => (Stuck m, (s', sc))
      | (NoFuel, s') => (NoFuel, (s', sc))
      end.

  Section WithHint.
  Variable h : option Z.
  Local Notation xstmts := (@exec_stmts mfail WQ cfg gen_funs (primQ h)).
  Local Notation xstmt := (@exec_stmt mfail WQ cfg gen_funs (primQ h)).
  Local Notation xblock := (@exec_block mfail WQ cfg gen_funs (primQ h)).
  Local Notation xexpr := (@eval_expr mfail WQ cfg gen_funs (primQ h)).

  Lemma exec_stmts_cons F s ss en w kr k :
    xstmts (S F) (s :: ss) en w kr k = xstmt F s en w kr (fun en w => xstmts F ss en w kr k).
  Proof. reflexivity. Qed.
  Lemma exec_block_S F ss tail en w kr k :
    xblock (S F) (Blk ss tail) en w kr k =
    xstmts F ss en w kr (fun en' w =>
      match tail with
      | Some e => xexpr F e en' w kr (fun v w => k v (restore en en') w)
      | None => k VUnit (restore en en') w
      end).
  Proof. reflexivity. Qed.
  Lemma exec_sexpr_block F b en w kr k :
    xstmt (S F) (SExpr (EBlock b)) en w kr k = xblock F b en w kr (fun _ en w => k en w).
  Proof. reflexivity. Qed.
  Lemma exec_while F c b en w kr k :
    xstmt (S F) (SWhile c b) en w kr k =
    xexpr F c en w kr (fun vc w =>
      match vc with
      | VBool true => xblock F b en w kr (fun _ en w => xstmt F (SWhile c b) en w kr k)
      | VBool false => k en w
      | _ => (Stuck "while on non-boolean", w)
      end).
  Proof. reflexivity. Qed.

  Definition WHQ : stmt :=
    match fn_body serde__VecVisitor__visit_seq_ast with
    | Blk [_; SExpr (EBlock (Blk [_; w] _))] _ => w
    | _ => SForeign "no loop"
    end.
  Definition ENVQ (w : nat) (go : bool) : env :=
    [("__go", VBool go); ("values", VObj w); ("seq", VUnit); ("self", VUnit)].

  Definition after_loopQ (K : env -> WQ -> AnsQ) (kr : val -> WQ -> AnsQ) (w : nat)
                         (r : res (bool * list answer) * state) : AnsQ :=
    match r with
    | (Val (true, sc'), s') => K (ENVQ w false) (s', sc')
    | (Val (false, sc'), s') => kr (VCtor "Err" [VUnit]) (s', sc')     (* `?` returns the input's error *)
    | (Panicking, s') => (Panic, (s', []))
    | (UB u, s') => (Fail (FUB u), (s', []))
    | (AllocAbort x y, s') => (Fail (FAllocAbort x y), (s', []))
    | (Abort, s') => (Fail FAbort, (s', []))
    | (OutOfFuel, s') => (Fail FNoFuel, (s', []))
    end.

  (* forget the script that is left *)
  Definition projQ (a : AnsQ) : outcome mfail val * state := (fst a, fst (snd a)).

  Ltac evq := cbv -[Z.add Z.sub Z.mul Z.div Z.modulo Z.eqb Z.ltb Z.leb Z.max Z.min Z.land Z.to_nat Z.of_nat W64 ISIZE_MAX
                  release esz ealign needs_drop is_pow2 layout_ok
                  is_default len capacity alignment vec_handle hdr_block reserve
                  push seq_next visit_loop with_capacity_body
                  get_block put_block set_handle
                  nth_error heap vecs projQ].

  Lemma seq_next_some sc s e sc' s1 :
    seq_next sc s = (Val (Some (Some e), sc'), s1) -> sc = A_S :: sc'.
  Proof.
    unfold seq_next. destruct sc as [|a sc0]; cbn [pop_script].
    - cbv. discriminate.
    - destruct (a =? A_P) eqn:EP; [cbv; discriminate|].
      unfold iter_next. cbn [pop_script]. rewrite EP.
      destruct (Z.eqb_spec a A_S) as [->|NS]; cbv; intros E; inversion E; reflexivity.
  Qed.

  (* the answers after a failed run do not matter: statements are about projQ *)
  Lemma loop_equivQ w kr K : forall k sc F s,
    (List.length sc < k)%nat -> (k <= F)%nat ->
    projQ (xstmt (S (50 + F)) WHQ (ENVQ w true) (s, sc) kr K) =
    projQ (after_loopQ K kr w (visit_loop cfg ncap k w sc s)).
  Proof.
    induction k as [|k IH]; intros sc F s Hk HF; [lia|].
    destruct F as [|F]; [lia|].
    cbv [WHQ serde__VecVisitor__visit_seq_ast fn_body]. rewrite exec_while.
    match goal with |- context [xstmt (50 + S F) ?x] => change x with WHQ end.
    remember (xstmt (50 + S F) WHQ) as REC eqn:EREC.
    cbn [visit_loop]. cbv [ENVQ after_loopQ bind ret] in *.
    evq. red1.
    destruct (seq_next sc s) as [[[o sc']| | | | |] s1] eqn:En; red1; try reflexivity.
    destruct o as [[e|]|]; red1.
    - (* Ok(Some(e)) *)
      pose proof (seq_next_some _ _ _ _ _ En) as Esc.
      destruct (push cfg ncap w e s1) as [[u| | | | |] s2] eqn:Ep; red1; try reflexivity.
      subst REC. change (50 + S F)%nat with (S (50 + F)).
      apply (IH sc' F s2); [subst sc; simpl in Hk; lia|lia].
    - (* Ok(None): the flag goes down, the loop ends *)
      subst REC. change (50 + S F)%nat with (S (50 + F)).
      cbv [WHQ serde__VecVisitor__visit_seq_ast fn_body]. rewrite exec_while.
      remember (xstmt (50 + F)) as REC eqn:EREC.
      evq. reflexivity.
    - (* Err: `?` returns it *)
      reflexivity.
  Qed.

  End WithHint.

  (* ---- the whole body ---- *)
  Local Notation xstmt h := (@exec_stmt mfail WQ cfg gen_funs (primQ h)).
  Definition run_visit (h : option Z) (fuel : nat) (sc : list answer) (s : state) : AnsQ :=
    @eval_fn mfail WQ cfg gen_funs (primQ h) fuel serde__VecVisitor__visit_seq_ast [VUnit; VUnit] (s, sc).

  Ltac evq := cbv -[Z.add Z.sub Z.mul Z.div Z.modulo Z.eqb Z.ltb Z.leb Z.max Z.min Z.land Z.to_nat Z.of_nat W64 ISIZE_MAX
                  release esz ealign needs_drop is_pow2 layout_ok
                  is_default len capacity alignment vec_handle hdr_block reserve
                  push seq_next visit_loop with_capacity_body
                  get_block put_block set_handle
                  nth_error heap vecs projQ].

  Definition result_val (r : option nat) : val :=
    match r with Some w => VCtor "Ok" [VObj w] | None => VCtor "Err" [VUnit] end.

  Ltac next_stmt K EK :=
    rewrite exec_stmts_cons;
    match goal with |- context [@exec_stmt _ _ _ _ _ _ _ _ _ _ ?k] => remember k as K eqn:EK end.

  Ltac tail F sc w s1 K1 EVL :=
    subst K1; change (118 + F)%nat with (S (117 + F));
    rewrite exec_stmts_cons; change (117 + F)%nat with (S (116 + F)); rewrite exec_sexpr_block;
    change (116 + F)%nat with (S (115 + F)); rewrite exec_block_S;
    change (115 + F)%nat with (S (114 + F));
    rewrite exec_stmts_cons;
    match goal with |- context [@exec_stmt _ _ _ _ _ _ _ _ _ _ ?k] => let K2 := fresh "K2" in remember k as K2 eqn:EK2; evq; subst K2 end;
    change (114 + F)%nat with (S (113 + F));
    rewrite exec_stmts_cons;
    match goal with |- context [xstmt _ (113 + F) ?x] => change x with WHQ end;
    change [("__go", VBool true); ("values", VObj w); ("seq", VUnit); ("self", VUnit)] with (ENVQ w true);
    change (113 + F)%nat with (S (50 + (62 + F)));
    rewrite (loop_equivQ _ w _ _ (S (List.length sc)) sc (62 + F)%nat s1) by (unfold answer in *; lia);
    rewrite <- EVL;
    match goal with |- context [?VL w sc s1] => destruct (VL w sc s1) as [[[ok sc']| | | | |] s2] end; cbv [after_loopQ]; try reflexivity;
    match goal with |- context [if ?ok then _ else _] => destruct ok end; reflexivity.

  Theorem visit_seq_equiv h sc s F :
    (match h with Some n => 0 <= n < W64 | None => True end) ->
    (S (List.length sc) <= F)%nat ->
    projQ (run_visit h (FUEL + F) sc s) = lift_m (visit_body cfg ncap h sc) result_val s.
  Proof.
    intros Hh HF.
    unfold run_visit, eval_fn.
    cbv [serde__VecVisitor__visit_seq_ast fn_body fn_params FUEL combine rev app].
    change (120 + F)%nat with (S (119 + F)). rewrite exec_block_S.
    unfold lift_m, visit_body. cbv [bind ret].
    remember (visit_loop cfg ncap (S (List.length sc))) as VL eqn:EVL.
    change (119 + F)%nat with (S (118 + F)).
    next_stmt K1 EK1.
    assert (Hm : forall n, 0 <= n < W64 -> (if n <? 1024 then n else 1024) = Z.min n 1024) by (intros n Hn; destruct (Z.ltb_spec n 1024); lia).
    unfold map_size_hint, hint_val. destruct h as [n|]; evq; red1.
    - destruct (with_capacity_body cfg (Z.min n 1024) s) as [[w| | | | |] s1] eqn:Ew; red1; try reflexivity.
      tail F sc w s1 K1 EVL.
    - destruct (with_capacity_body cfg 0 s) as [[w| | | | |] s1] eqn:Ew; red1; try reflexivity.
      tail F sc w s1 K1 EVL.
  Qed.
End EquivSerdeSeq.
