(* EquivAlign.v -- `alignment()` (the stored alignment; max_align for the never-allocated vector) = Machine.alignment *)
From Coq Require Import ZArith List String Bool Lia.
From MV Require Import Ast Eval Scalar Machine EquivDefs Prims EquivTac.
From MV.Gen Require Import AstGen.
Import ListNotations.
Open Scope string_scope.
Open Scope Z_scope.

Section S.
  Variable cfg : tcfg.
  Variable ncap : Z -> option Z.
  Local Notation runm := (runm cfg ncap).

  Lemma alignment_equiv v s : runm lib__MiniVec__alignment_ast [VObj v] s = lift_m (alignment cfg v) VInt s.
  Proof.
    unfold runm. evm. cbv [is_default alignment vec_handle bind ret hdr_block get_block ub lift_m]. sym.
  Qed.
End S.
