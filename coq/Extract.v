(* Extract.v -- extraction of the executable model to OCaml for the correspondence check.
   Only ExtrOcamlBasic is used (bool, option, unit, list, prod, sumbool map to OCaml's); Z,
   positive, nat, ascii and string stay the extracted inductive datatypes; there is no
   Extract Constant of ours. *)
From Coq Require Import ExtrOcamlBasic.
From MV Require Import Model.
Extraction "model.ml" run_history.
