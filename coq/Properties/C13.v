(* C13 -- the handle is exactly one pointer wide, with a free niche.
   The field list of `struct MiniVec` is REGENERATED from /repo/src/lib.rs on every
   run (Gen/Facts.v); the theorem is re-checked against it. *)
From Coq Require Import ZArith List String Bool Lia.
From MV Require Import FactsDef Layout.
From MV.Gen Require Import Facts.
Import ListNotations.
Open Scope Z_scope.

Definition minivec_fields : list (string * field_class) :=
  match find_struct "MiniVec" structs with
  | Some s => st_fields s
  | None => [("<struct MiniVec not found>", FOther "?")]
  end.

Definition minivec_repr : list string :=
  match find_struct "MiniVec" structs with Some s => st_repr s | None => ["?"%string] end.

(* for EVERY element type (any size, any alignment): size = align = 8 and Option adds nothing *)
Theorem C13_one_word :
  forall t : elem_ty, one_word t minivec_fields = true.
Proof. intro t. destruct t as [sz al]. reflexivity. Qed.

(* no repr attribute changes the rules the model assumes *)
Theorem C13_default_repr : minivec_repr = [].
Proof. reflexivity. Qed.

(* non-vacuity / sanity of the model: adding a per-T field, a length word or a raw
   pointer instead of NonNull makes the statement false, with a witness type *)
Example C13_model_rejects_len_field :
  one_word {| t_size := 4; t_align := 4 |} [("buf"%string, FNonNull "u8"); ("len"%string, FWord)] = false.
Proof. reflexivity. Qed.
Example C13_model_rejects_elem_field :
  one_word {| t_size := 16; t_align := 16 |} [("buf"%string, FNonNull "u8"); ("x"%string, FElem)] = false.
Proof. reflexivity. Qed.
Example C13_model_rejects_zero_array_of_overaligned :
  one_word {| t_size := 64; t_align := 64 |} [("buf"%string, FNonNull "u8"); ("x"%string, FArray "T" "0")] = false.
Proof. reflexivity. Qed.
Example C13_model_rejects_raw_pointer :
  one_word {| t_size := 4; t_align := 4 |} [("buf"%string, FRawPtr "u8"); ("p"%string, FPhantom "T")] = false.
Proof. reflexivity. Qed.

Check C13_one_word : forall t : elem_ty, one_word t minivec_fields = true.
Print Assumptions C13_one_word.
Print Assumptions C13_default_repr.
