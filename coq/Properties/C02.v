(* C02 -- each element lives in exactly one place and is destroyed exactly once.
   The machine CHECKS ownership dynamically (a second drop is UB DoubleDrop, exposing a non-live
   identity is UB DeadExposed), so "exactly once" = "no UB" + the ledger facts below.
   PARTIAL: proved for slice destruction (drop_in_place), truncate/clear, pop and the Drain/Splice
   stepping; the other operations by the correspondence run (per-identity ledger on both sides). *)
From Coq Require Import ZArith List Bool Lia.
From MV Require Import Ast Eval Scalar Machine Model Policy.
From MV.Proofs Require Import Arith Logic Prim View OpsLocal Guards Grow Drops DrainIt CapHistory Core Refine Life IntoIt Clone Append SplitOff DrainAbs IntoAbs Extend RetainSpec RetainAbs History LifeBulk DrainGuardAt SourceSpecs.
From MV Require Import DrainAt EquivDefs Prims EquivDropGuard.
Close Scope string_scope.
Import ListNotations.
Open Scope Z_scope.

Ltac use L := solve [exact L | intros; eapply L; eassumption | intros; eapply L; eauto | exact (L (fun _ => None)) | intros; eapply (L (fun _ => None)); eauto | intros; eapply (L _ (fun _ => None)); eauto].

(* destroying a slice of distinct live elements destroys each of them exactly once and touches no
   other identity -- on the normal exit and on a panicking exit alike; never a double drop *)
Theorem C02_slice_destroyed_exactly_once :
  forall cfg, needs_drop cfg = true -> forall es s,
  NoDup es -> (forall e, In e es -> ledger s e = Live) ->
  post (drop_list cfg es s) (fun _ s' => destroyed s s' es) (fun s' => destroyed s s' es).
Proof. use drop_list_spec. Qed.

(* truncate / clear: afterwards the vector holds exactly the kept prefix and exactly the removed tail
   has been destroyed, once *)
Theorem C02_truncate_destroys_exactly_the_tail :
  forall cfg, cfg_ok cfg -> needs_drop cfg = true -> forall s v b bl n,
  vec_at s v b bl -> block_ok cfg bl -> init_upto (slots bl) (h_len bl) -> 0 <= n < h_len bl ->
  NoDup (velems bl) -> (forall e, In e (velems bl) -> ledger s e = Live) ->
  let bl' := with_hdr bl n (h_cap bl) (h_align bl) in
  let tail := skipn (Z.to_nat n) (velems bl) in
  let R := fun s' => vec_at s' v b bl' /\ destroyed (upd_block s b bl') s' tail in
  block_ok cfg bl' /\ velems bl' = firstn (Z.to_nat n) (velems bl) /\
  post (truncate cfg v n s) (fun _ s' => R s') R.
Proof. use truncate_spec. Qed.

(* pop: the element handed to the caller leaves the vector in the same step *)
Theorem C02_pop_moves_the_last_element_out :
  forall cfg, cfg_ok cfg -> forall s v b bl,
  vec_at s v b bl -> block_ok cfg bl -> init_upto (slots bl) (h_len bl) -> 0 < h_len bl ->
  exists e bl' s1,
    slots bl (h_len bl - 1) = Init e /\
    bl' = with_hdr bl (h_len bl - 1) (h_cap bl) (h_align bl) /\
    s1 = upd_block s b bl' /\
    pop cfg v s = bind (hand_out cfg e) (fun _ => ret (Some e)) s1 /\
    velems bl = velems bl' ++ [e] /\ block_ok cfg bl' /\ init_upto (slots bl') (h_len bl').
Proof. use pop_spec. Qed.

(* ALL histories over the core alphabet {push, pop, remove, truncate/clear, retain with ANY predicate
   script, reserve, reserve_exact, shrink_to_fit, shrink_to}, with ANY arguments and ANY set of
   panicking destructors, every panic caught between operations, from any state in which the vector
   owns its elements (in particular the never-allocated vector): the machine never reaches undefined
   behaviour (double drop, dead / uninitialised element exposed, access outside a live block, wrong
   layout quoted to the allocator), never hangs, and after every operation every element the vector
   exposes is initialised, live and exposed once.  Growth policy: the one regenerated from source. *)
Theorem C02_all_core_histories :
  forall cfg, cfg_ok cfg -> needs_drop cfg = true ->
  forall v os s, vinv cfg s v -> Forall coreop_ok os ->
  post (run_coreops cfg (ncap_of cfg) v os s) (fun _ s' => vinv cfg s' v) (fun _ => False).
Proof. intros cfg Hc Hd. exact (core_history_safe cfg (ncap_of cfg) Hc (ncap_policy cfg) Hd). Qed.

Example C02_history_hypotheses_satisfiable :
  let cfg := {| esz := 24; ealign := 8; needs_drop := true; release := true |} in
  let s := {| heap := []; vecs := [Some Sentinel]; iters := []; ledger := fun _ => Fresh; payload := fun _ => 0;
              next_elem := 0; drop_panics := [1; 3]; clone_panics := []; alloc_fail := None;
              alloc_limit := 1073741824; events := [] |} in
  cfg_ok cfg /\ vinv cfg s 0 /\
  Forall coreop_ok [KPush 5; KPush 6; KRetain [84; 70; 80]; KCap CShrinkToFit; KPop; KTruncate 0; KRemove 3].
Proof.
  split; [repeat split; reflexivity|]. split; [left; reflexivity|].
  repeat constructor; simpl; lia.
Qed.

Print Assumptions C02_all_core_histories.

(* dropping a Drain at ANY point of its consumption, with ANY set of panicking destructors: in every
   outcome other than the abort of a double panic the vector is exactly the untouched prefix followed
   by the untouched suffix, and exactly the elements still in the window have been destroyed, once *)
Theorem C02_dropping_a_drain_restores_prefix_and_suffix :
  forall cfg, cfg_ok cfg -> needs_drop cfg = true ->
  forall ncap tmp s d b bl off i j r,
  drain_inv cfg s d b bl off i j r -> d_fill d = None ->
  NoDup (window bl i j) -> (forall e, In e (window bl i j) -> ledger s e = Live) ->
  post (drain_drop cfg ncap tmp d s)
    (fun _ s' => drain_gone cfg s s' d b bl i j r) (fun s' => drain_gone cfg s s' d b bl i j r).
Proof. intros cfg Hc Hd ncap tmp. exact (drain_drop_machine cfg Hc Hd ncap tmp). Qed.

Print Assumptions C02_dropping_a_drain_restores_prefix_and_suffix.

(* ---- every history over push / insert / pop / remove / swap_remove / truncate / reserve /
   reserve_exact / shrink_to_fit / shrink_to, with the growth policy REGENERATED from the source:
   the vector's contents follow the list model, and `vabs` says that the block is laid out
   correctly and that the listed elements are initialised, live and pairwise distinct ---- *)
Theorem C02_every_history_refines_the_list_model :
  forall cfg, cfg_ok cfg -> needs_drop cfg = true ->
  forall v os s l,
  vacc cfg s v l -> Forall rop_ok os ->
  post (run_rops cfg (ncap_of cfg) v os s)
       (fun _ s' => exists l', rsteps os l l' /\ vacc cfg s' v l')
       (fun _ => False).
Proof. intros cfg Hc Hd. exact (history_refines_list_spec cfg (ncap_of cfg) Hc (ncap_policy cfg) Hd). Qed.

Theorem C02_the_listed_elements_are_owned :
  forall cfg s v l, vabs cfg s v l ->
  NoDup l /\ (forall e, In e l -> ledger s e = Live) /\ (forall e, In e l -> e < next_elem s).
Proof. exact vabs_owned. Qed.

Example C02_refinement_hypotheses_satisfiable :
  let cfg := {| esz := 24; ealign := 8; needs_drop := true; release := true |} in
  let s := {| heap := []; vecs := [Some Sentinel]; iters := []; ledger := fun _ => Fresh; payload := fun _ => 0;
              next_elem := 0; drop_panics := [1; 3]; clone_panics := []; alloc_fail := None;
              alloc_limit := 1073741824; events := [] |} in
  cfg_ok cfg /\ vacc cfg s 0 [] /\
  Forall rop_ok [RPush 5; RInsert 0 6; RInsert 7 8; RCap CShrinkToFit; RSwapRemove 0; RPop; RTruncate 0; RRemove 3].
Proof.
  split; [repeat split; reflexivity|]. split; [split; [left; split; reflexivity|split; [simpl; lia|simpl; intros; lia]]|].
  repeat constructor; simpl; lia.
Qed.

Print Assumptions C02_every_history_refines_the_list_model.

(* ---- THE WHOLE LIFE of a vector: created empty, ANY history over push / insert / pop / remove /
   swap_remove / truncate / reserve / reserve_exact / shrink_to_fit / shrink_to (any arguments, any
   panicking destructors, panics caught between the calls), then dropped -- whether the drop returns
   or unwinds: every element that was ever created has been handed to the caller or destroyed (nothing
   is leaked); that none is destroyed or handed out twice is part of "no undefined behaviour", which
   `post` asserts (drop_elem / hand_out on a non-live element are UB in the machine). ---- *)
Theorem C02_whole_life_nothing_lost_nothing_destroyed_twice :
  forall cfg, cfg_ok cfg -> needs_drop cfg = true ->
  forall v os s,
  vec_sentinel s v -> all_settled s -> Forall rop_ok os ->
  let Q := fun s' => all_settled s' /\ nth_error (vecs s') v = Some None in
  post (life cfg (ncap_of cfg) v os s) (fun _ s' => Q s') Q.
Proof. intros cfg Hc Hd. exact (whole_life_nothing_lost cfg (ncap_of cfg) Hc (ncap_policy cfg) Hd). Qed.

Theorem C02_all_settled_means :
  forall s, all_settled s <-> (0 <= next_elem s /\ forall e, 0 <= e < next_elem s -> ledger s e = Out \/ ledger s e = Dropped).
Proof.
  intros s. unfold all_settled, accounted. split; intros [H1 H2]; (split; [exact H1|]); intros e He.
  - destruct (H2 e He) as [[]|H]; exact H.
  - right. exact (H2 e He).
Qed.

(* dropping a vector that holds l: every element of l destroyed, nothing else touched, the name gone,
   the block dead and given back with exactly its layout -- or, when a destructor panics, every element
   of l still destroyed and the block leaked *)
Theorem C02_drop_destroys_every_element_once :
  forall cfg, cfg_ok cfg -> needs_drop cfg = true -> forall s v l,
  vabs cfg s v l ->
  post (drop_vec cfg v s)
    (fun _ s' => dropped_all s s' v l /\
                 (vec_sentinel s v /\ heap s' = heap s /\ events s' = events s \/
                  exists b bl, vec_at s v b bl /\ nth_error (heap s') b = Some (kill bl) /\
                               exists evs, events s' = EvDealloc (b_size bl) (b_align bl) :: evs))
    (fun s' => dropped_all s s' v l /\ heap s' = heap s /\ l <> []).
Proof. exact drop_vec_abs. Qed.

Example C02_whole_life_hypotheses_satisfiable :
  let s := {| heap := []; vecs := [Some Sentinel]; iters := []; ledger := fun _ => Fresh; payload := fun _ => 0;
              next_elem := 0; drop_panics := [1; 3]; clone_panics := []; alloc_fail := None;
              alloc_limit := 1073741824; events := [] |} in
  vec_sentinel s 0 /\ all_settled s.
Proof. split; [reflexivity|]. split; [simpl; lia|simpl; intros; lia]. Qed.

Print Assumptions C02_whole_life_nothing_lost_nothing_destroyed_twice.
Print Assumptions C02_drop_destroys_every_element_once.

(* Drop for IntoIter at ANY point of its consumption, under ANY set of panicking destructors: every
   element it still holds is destroyed, nothing else is touched, the name is gone and the block is
   given back with its layout -- also when a destructor panics (the length is cut to 0 first and the
   embedded vector is dropped by the unwinding) *)
Theorem C02_into_iter_drop_any_point :
  forall cfg, cfg_ok cfg -> needs_drop cfg = true ->
  forall s it b bl off p,
  into_inv cfg s it b bl off p ->
  NoDup (remaining bl p) -> (forall e, In e (remaining bl p) -> ledger s e = Live) ->
  let Q := fun s' =>
    (forall e, In e (remaining bl p) -> ledger s' e = Dropped) /\
    only_changes s s' (remaining bl p) /\
    nth_error (vecs s') (i_vec it) = Some None /\
    nth_error (heap s') b = Some (kill (with_hdr bl 0 (h_cap bl) (h_align bl))) /\
    exists evs, events s' = EvDealloc (b_size bl) (b_align bl) :: evs in
  post (into_drop cfg it s) (fun _ s' => Q s') Q.
Proof. exact into_drop_spec. Qed.
Print Assumptions C02_into_iter_drop_any_point.

(* append(&mut self, other): from EVERY pair of storage states (each of the two never allocated,
   empty, full, with spare capacity ...): self holds its elements followed by other's, in order; other
   is empty; no element is created, destroyed or duplicated (the ledger is untouched); a refused
   reservation (capacity overflow) leaves both vectors exactly as they were *)
Theorem C02_append_is_list_concatenation :
  forall cfg ncap, cfg_ok cfg -> policy_ok ncap ->
  forall s v o lv lo,
  vabs cfg s v lv -> vabs cfg s o lo -> v <> o ->
  (forall bv blv bo blo, vec_at s v bv blv -> vec_at s o bo blo -> bv <> bo) ->
  NoDup (lv ++ lo) ->
  post (append cfg ncap v o s)
    (fun _ s' => vabs cfg s' v (lv ++ lo) /\ vabs cfg s' o [] /\ only_changes s s' [])
    (fun s' => s' = s).
Proof. exact append_abs. Qed.
Print Assumptions C02_append_is_list_concatenation.

(* split_off(at) for 0 < at <= len (at > len is rejected: C11; at = 0 and the empty vector hand the
   buffer over / allocate an empty one: by correspondence): self keeps the first `at` elements, the
   new vector holds the rest, in order, in a block of its own; the ledger is untouched *)
Theorem C02_split_off_splits_the_list :
  forall cfg (ncap : Z -> option Z), cfg_ok cfg -> forall s v o b bl at_,
  vec_at s v b bl -> block_ok cfg bl -> owned s bl -> v <> o ->
  0 < at_ <= h_len bl ->
  post (split_off cfg v o at_ s)
    (fun _ s' => vabs cfg s' v (firstn (Z.to_nat at_) (velems bl)) /\ vabs cfg s' o (skipn (Z.to_nat at_) (velems bl)) /\
                 only_changes s s' [] /\
                 (forall bv blv bo blo, vec_at s' v bv blv -> vec_at s' o bo blo -> bv <> bo))
    (fun _ => True).
Proof. exact split_off_middle. Qed.
Print Assumptions C02_split_off_splits_the_list.

(* a Drain's whole life: every element of the drained range ends in exactly one place -- yielded
   ones with the caller (Out), the others destroyed (Dropped), the prefix and the suffix live in the
   vector; nothing outside the range is touched, no element is created *)
Theorem C02_drain_every_element_in_one_place :
  forall cfg ncap, cfg_ok cfg -> needs_drop cfg = true ->
  forall s v b bl bs be a e steps tmp,
  vec_at s v b bl -> block_ok cfg bl -> owned s bl ->
  resolve_pure bs be (h_len bl) = Some (a, e) -> 0 <= a ->
  let l := velems bl in
  let w := skipn (Z.to_nat a) (firstn (Z.to_nat e) l) in
  let Q := fun s' =>
    vabs cfg s' v (firstn (Z.to_nat a) l ++ skipn (Z.to_nat e) l) /\
    (forall x, In x (somes (fst (cursor w steps))) -> ledger s' x = Out) /\
    (forall x, In x (snd (cursor w steps)) -> ledger s' x = Dropped) /\
    (forall x, ~ In x w -> ledger s' x = ledger s x) /\ next_elem s' = next_elem s in
  post (drain_whole cfg ncap v bs be steps tmp s) (fun r s' => r = fst (cursor w steps) /\ Q s') Q.
Proof. exact drain_abs. Qed.
Print Assumptions C02_drain_every_element_in_one_place.

(* into_iter() end to end: any stepping from either end, the caller takes what was yielded, the
   iterator is dropped under ANY set of panicking destructors: every element of the vector ends in
   exactly one place (yielded = with the caller, the rest destroyed once), the vector's name is gone,
   the block is dead *)
Theorem C02_into_iter_every_element_in_one_place :
  forall cfg, cfg_ok cfg -> needs_drop cfg = true ->
  forall s v b bl steps,
  vec_at s v b bl -> block_ok cfg bl -> owned s bl ->
  let l := velems bl in
  let Q := fun s' =>
    (forall x, In x (somes (fst (cursor l steps))) -> ledger s' x = Out) /\
    (forall x, In x (snd (cursor l steps)) -> ledger s' x = Dropped) /\
    (forall x, ~ In x l -> ledger s' x = ledger s x) /\ next_elem s' = next_elem s /\
    nth_error (vecs s') v = Some None /\
    (exists bl', nth_error (heap s') b = Some (kill bl')) /\
    exists evs, events s' = EvDealloc (b_size bl) (b_align bl) :: evs in
  post (into_whole cfg v steps s) (fun r s' => r = fst (cursor l steps) /\ Q s') Q.
Proof. exact into_abs. Qed.
Print Assumptions C02_into_iter_every_element_in_one_place.

(* the whole life of a vector with the closure-driven bulk operations: an empty vector, ANY history of
   push / insert / pop / remove / swap_remove / truncate / capacity operations / retain(any predicate
   script) / extend(any iterator script), every panic caught between the operations, then drop: every
   element ever created has been handed out or destroyed -- nothing is lost -- and the name is gone *)
Theorem C02_whole_life_with_retain_and_extend :
  forall cfg ncap, cfg_ok cfg -> policy_ok ncap -> needs_drop cfg = true ->
  forall v os s,
  vec_sentinel s v -> all_settled s -> Forall hop_ok os ->
  let Q := fun s' => all_settled s' /\ nth_error (vecs s') v = Some None in
  post (life_bulk cfg ncap v os s) (fun _ s' => Q s') Q.
Proof. exact whole_life_bulk_nothing_lost. Qed.
Print Assumptions C02_whole_life_with_retain_and_extend.

(* END TO END for the Drop code of Drain's guard (src/impl/drain.rs, `impl Drop for DropGuard`): the
   regenerated body -- the `for` loop over what is left of the window (each element handed out by
   `next()` and dropped) and the move of the tail back behind the prefix -- evaluated by the IR semantics
   on a well-formed Drain object of the world leaves the vector as prefix ++ suffix with every element of
   the window destroyed exactly once and nothing else touched (DrainIt.drain_gone).  Tie:
   EquivDropGuard.v (induction over the loop's fuel); theorem: Proofs/DrainGuardAt.v.  `Panic` = a
   destructor panicked inside this cleanup (Rust aborts the process there). *)
Theorem C02_the_source_of_the_drain_guard_destroys_the_window_once :
  forall cfg ncap, cfg_ok cfg -> needs_drop cfg = true ->
  forall s i0 d b bl off i j r F,
  iter_get i0 s = (Val (IDrain d), s) -> drain_inv cfg s d b bl off i j r ->
  NoDup (window bl i j) -> (forall e, In e (window bl i j) -> ledger s e = Live) ->
  (S (Z.to_nat (j - i)) <= F)%nat ->
  match run_guard_drop cfg ncap (FUEL + F) i0 s with
  | (Norm _, s') => drain_gone cfg s s' d b bl i j r
  | (Panic, _) | (Fail FAbort, _) | (Fail (FAllocAbort _ _), _) => True
  | _ => False
  end.
Proof. exact dropguard_drop_source. Qed.
Print Assumptions C02_the_source_of_the_drain_guard_destroys_the_window_once.

(* the same statement about the function the body is tied to, with the fuel bound explicit *)
Theorem C02_the_drain_guard_on_the_object :
  forall cfg, cfg_ok cfg -> needs_drop cfg = true ->
  forall fuel s i0 d b bl off i j r,
  iter_get i0 s = (Val (IDrain d), s) ->
  drain_inv cfg s d b bl off i j r -> (Z.to_nat (j - i) < fuel)%nat ->
  NoDup (window bl i j) -> (forall e, In e (window bl i j) -> ledger s e = Live) ->
  post (drain_guard_at cfg fuel i0 s) (fun _ s' => drain_gone cfg s s' d b bl i j r) (fun _ => True).
Proof. exact drain_guard_at_spec. Qed.
Print Assumptions C02_the_drain_guard_on_the_object.

(* non-vacuity: a concrete state -- an (8,8) element type, a vector whose block holds 0 (the prefix),
   1 (the one element left in the window) and 2 (the tail), and a Drain object over it -- meets the
   hypotheses of the two theorems above; on it the regenerated body ends normally with the vector [0; 2]
   and element 1 destroyed *)
Example C02_drain_guard_hypotheses_satisfiable :
  let cfg := {| esz := 8; ealign := 8; needs_drop := true; release := false |} in
  let bl := {| b_size := 48; b_align := 8; h_len := 1; h_cap := 3; h_align := 8;
               slots := fun k => if k =? 0 then Init 0 else if k =? 1 then Init 1 else if k =? 2 then Init 2 else Uninit;
               b_live := true |} in
  let d := {| d_vec := 0%nat; d_pos := PElt 0 24 1; d_end := PElt 0 24 2; d_rpos := PElt 0 24 2; d_rem := 1; d_fill := None |} in
  let s := {| heap := [bl]; vecs := [Some (At 0 0)]; iters := [Some (IDrain d)];
              ledger := fun e => if e <? 3 then Live else Fresh;
              payload := fun _ => 0; next_elem := 3; drop_panics := []; clone_panics := []; alloc_fail := None;
              alloc_limit := 1073741824; events := [] |} in
  cfg_ok cfg /\ iter_get 0 s = (Val (IDrain d), s) /\ drain_inv cfg s d 0 bl 24 1 2 2 /\
  NoDup (window bl 1 2) /\ (forall e, In e (window bl 1 2) -> ledger s e = Live) /\
  (match run_guard_drop cfg (fun _ => None) 200 0 s with
   | (o, s') => (o, fst (deref cfg 0 s'), ledger s' 1, ledger s' 0, ledger s' 2)
   end) = (Norm VUnit, Val [0; 2], Dropped, Live, Live).
Proof.
  cbv zeta. split; [repeat split; reflexivity|]. split; [reflexivity|].
  split.
  { constructor; try reflexivity.
    - split; reflexivity.
    - constructor; try reflexivity; simpl; lia.
    - simpl. lia.
    - intros k Hk. simpl in Hk. assert (k = 0 \/ k = 1 \/ k = 2) as [->|[->| ->]] by lia; eexists; reflexivity. }
  split; [vm_compute; repeat constructor; simpl; intuition lia|].
  split; [intros e He; vm_compute in He; destruct He as [<-|[]]; reflexivity|].
  vm_compute. reflexivity.
Qed.
