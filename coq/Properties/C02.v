(* C02 -- each element lives in exactly one place and is destroyed exactly once.
   The machine CHECKS ownership dynamically (a second drop is UB DoubleDrop, exposing a non-live
   identity is UB DeadExposed), so "exactly once" = "no UB" + the ledger facts below.
   PARTIAL: proved for slice destruction (drop_in_place), truncate/clear, pop and the Drain/Splice
   stepping; the other operations by the correspondence run (per-identity ledger on both sides). *)
From Coq Require Import ZArith List Bool Lia.
From MV Require Import Ast Eval Scalar Machine.
From MV.Proofs Require Import Arith Logic Prim View OpsLocal Guards Drops DrainIt.
Import ListNotations.
Open Scope Z_scope.

Ltac use L := solve [exact L | intros; eapply L; eassumption | intros; eapply L; eauto | exact (L (fun _ => None)) | intros; eapply (L (fun _ => None)); eauto | intros; eapply (L _ (fun _ => None)); eauto].

(* destroying a slice of distinct live elements destroys each of them exactly once and touches no
   other identity -- on the normal exit and on a panicking exit alike; never a double drop *)
Theorem C02_slice_destroyed_exactly_once :
  forall cfg, needs_drop cfg = true -> forall es s,
  NoDup es -> (forall e, In e es -> ledger s e = Live) ->
  post (drop_list cfg es s) (fun _ s' => destroyed s s' es) (fun s' => destroyed s s' es).
Proof. use drop_list_spec. Qed.

(* truncate / clear: afterwards the vector holds exactly the kept prefix and exactly the removed tail
   has been destroyed, once *)
Theorem C02_truncate_destroys_exactly_the_tail :
  forall cfg, cfg_ok cfg -> needs_drop cfg = true -> forall s v b bl n,
  vec_at s v b bl -> block_ok cfg bl -> init_upto (slots bl) (h_len bl) -> 0 <= n < h_len bl ->
  NoDup (velems bl) -> (forall e, In e (velems bl) -> ledger s e = Live) ->
  let bl' := with_hdr bl n (h_cap bl) (h_align bl) in
  let tail := skipn (Z.to_nat n) (velems bl) in
  let R := fun s' => vec_at s' v b bl' /\ destroyed (upd_block s b bl') s' tail in
  block_ok cfg bl' /\ velems bl' = firstn (Z.to_nat n) (velems bl) /\
  post (truncate cfg v n s) (fun _ s' => R s') R.
Proof. use truncate_spec. Qed.

(* pop: the element handed to the caller leaves the vector in the same step *)
Theorem C02_pop_moves_the_last_element_out :
  forall cfg, cfg_ok cfg -> forall s v b bl,
  vec_at s v b bl -> block_ok cfg bl -> init_upto (slots bl) (h_len bl) -> 0 < h_len bl ->
  exists e bl' s1,
    slots bl (h_len bl - 1) = Init e /\
    bl' = with_hdr bl (h_len bl - 1) (h_cap bl) (h_align bl) /\
    s1 = upd_block s b bl' /\
    pop cfg v s = bind (hand_out cfg e) (fun _ => ret (Some e)) s1 /\
    velems bl = velems bl' ++ [e] /\ block_ok cfg bl' /\ init_upto (slots bl') (h_len bl').
Proof. use pop_spec. Qed.

