(* C10 -- draining iterators obey the iterator protocol at every step.
   Proved for Drain, Splice (one representation) and IntoIter; PARTIAL: DrainFilter is tied by the
   correspondence run (reference oracle on the implementation side). *)
From Coq Require Import ZArith List Bool Lia.
From MV Require Import Ast Eval Scalar Machine.
From MV.Proofs Require Import Arith Logic Prim View OpsLocal Guards Drops DrainIt IntoIt FilterIt Core Refine DrainAbs IterAt Grow IntoAbs FilterAt SourceSpecs.
From MV Require Import EquivDefs Prims EquivTac EquivIter.
From MV.Gen Require Import AstGen.
Close Scope string_scope.
Import ListNotations.
Open Scope Z_scope.

Ltac use L := solve [exact L | intros; eapply L; eassumption | intros; eapply L; eauto | exact (L (fun _ => None)) | intros; eapply (L (fun _ => None)); eauto | intros; eapply (L _ (fun _ => None)); eauto].

(* ANY interleaving of next / next_back of ANY length: the yielded values are those of the
   double-ended cursor over the selected window (front ascending, back descending, each element once);
   once the ends meet every further step yields None (cursor on [] yields None for ever); the
   machine state is untouched by stepping *)
Theorem C10_any_interleaving_follows_the_cursor :
  forall cfg, cfg_ok cfg -> forall steps s d b bl off i j r,
  drain_inv cfg s d b bl off i j r ->
  exists d' i' j',
    drain_steps cfg d steps s = (Val (fst (cursor (window bl i j) steps), d'), s) /\
    drain_inv cfg s d' b bl off i' j' r /\ i <= i' /\ j' <= j /\
    window bl i' j' = snd (cursor (window bl i j) steps).
Proof. use drain_protocol. Qed.

(* the advertised remaining count is exact *)
Theorem C10_size_hint_exact :
  forall cfg, cfg_ok cfg -> forall s d b bl off i j r,
  drain_inv cfg s d b bl off i j r ->
  drain_hint d s = (Val (j - i), s) /\ Z.of_nat (List.length (window bl i j)) = j - i.
Proof.
  intros cfg Hc s d b bl off i j r H. split.
  - eapply drain_hint_spec; eassumption.
  - eapply drain_hint_exact; eassumption.
Qed.

(* after exhaustion: None for ever, from either end *)
Theorem C10_fused : forall steps, fst (cursor [] steps) = map (fun _ => None) steps /\ snd (cursor [] steps) = [].
Proof.
  induction steps as [|[|] steps [IH1 IH2]]; simpl; auto;
    destruct (cursor [] steps); simpl in *; subst; auto.
Qed.

(* creation selects exactly the resolved range *)
Theorem C10_creation_selects_the_range :
  forall cfg, cfg_ok cfg -> forall s v b bl bs be fill a e,
  vec_at s v b bl -> block_ok cfg bl -> init_upto (slots bl) (h_len bl) ->
  resolve_pure bs be (h_len bl) = Some (a, e) -> 0 <= a ->
  exists off d,
    let bl' := with_hdr bl a (h_cap bl) (h_align bl) in
    let s' := upd_block s b bl' in
    make_drain cfg v bs be fill s = (Val d, s') /\ d_vec d = v /\ d_fill d = fill /\
    d_rem d = h_len bl - e /\
    drain_inv cfg s' d b bl' off a e e /\
    velems bl' = firstn (Z.to_nat a) (velems bl).
Proof. use make_drain_spec. Qed.

Example C10_cursor_example :
  cursor [10; 11; 12; 13] [SFront; SBack; SBack; SFront; SFront; SBack] =
    ([Some 10; Some 13; Some 12; Some 11; None; None], []).
Proof. reflexivity. Qed.

Print Assumptions C10_any_interleaving_follows_the_cursor.
Print Assumptions C10_size_hint_exact.
Print Assumptions C10_creation_selects_the_range.

(* dropping a Drain at ANY point of its consumption, with ANY set of panicking destructors: in every
   outcome other than the abort of a double panic the vector is exactly the untouched prefix followed
   by the untouched suffix, and exactly the elements still in the window have been destroyed, once *)
Theorem C10_dropping_a_drain_restores_prefix_and_suffix :
  forall cfg, cfg_ok cfg -> needs_drop cfg = true ->
  forall ncap tmp s d b bl off i j r,
  drain_inv cfg s d b bl off i j r -> d_fill d = None ->
  NoDup (window bl i j) -> (forall e, In e (window bl i j) -> ledger s e = Live) ->
  post (drain_drop cfg ncap tmp d s)
    (fun _ s' => drain_gone cfg s s' d b bl i j r) (fun s' => drain_gone cfg s s' d b bl i j r).
Proof. intros cfg Hc Hd ncap tmp. exact (drain_drop_machine cfg Hc Hd ncap tmp). Qed.

Print Assumptions C10_dropping_a_drain_restores_prefix_and_suffix.

(* IntoIter: ANY interleaving of next / next_back of ANY length follows the double-ended cursor over
   the elements not yet yielded; the embedded length -- what len() and size_hint() report -- is always
   exactly the number of elements left *)
Theorem C10_into_iter_any_interleaving :
  forall cfg, cfg_ok cfg -> forall steps s it b bl off p,
  into_inv cfg s it b bl off p ->
  exists s' it' bl' p',
    into_steps cfg it steps s = (Val (fst (cursor (remaining bl p) steps), it'), s') /\
    into_inv cfg s' it' b bl' off p' /\
    remaining bl' p' = snd (cursor (remaining bl p) steps) /\
    h_len bl' = Z.of_nat (List.length (snd (cursor (remaining bl p) steps))).
Proof. use into_protocol. Qed.

Theorem C10_into_iter_as_slice_exact :
  forall cfg, cfg_ok cfg -> forall s it b bl off p,
  into_inv cfg s it b bl off p ->
  NoDup (remaining bl p) -> (forall e, In e (remaining bl p) -> tracked cfg = false \/ ledger s e = Live) ->
  into_as_slice cfg it s = (Val (remaining bl p), s).
Proof. use into_as_slice_spec. Qed.

Print Assumptions C10_into_iter_any_interleaving.

(* ---- DrainFilter ---- *)
(* next(), from ANY point of the traversal, for ANY predicate script (true / false / panic): it
   yields exactly the next element the predicate accepts, keeps (compacted, in order) the ones it
   rejected on the way, stops with `panicked` set when the predicate panics; `fnext_spec` is the
   list-level description: (newly kept, result, how far pos advances, rest of the script) *)
Theorem C10_drain_filter_next_follows_the_script :
  forall cfg, cfg_ok cfg ->
  forall rest fuel f s b orig kept,
  finv cfg s f b orig kept -> skipn (Z.to_nat (f_pos f)) orig = rest -> (List.length rest < fuel)%nat ->
  let '(k, r, n, sc') := fnext_spec rest (f_pred f) in
  exists s' f',
    filter_next cfg fuel f s = (Val (to_fstep r, f'), s') /\
    finv cfg s' f' b orig (kept ++ k) /\ fframe s s' b /\
    f_vec f' = f_vec f /\ f_old f' = f_old f /\
    f_pos f' = f_pos f + Z.of_nat n /\ f_pred f' = sc' /\ (r = RPanic -> f_panicked f' = true) /\
    match r with RYield e => nth_error orig (Z.to_nat (f_pos f') - 1) = Some e | _ => True end.
Proof. exact filter_next_spec. Qed.

(* creation: the length is cut to 0 before the iterator exists, and stays 0 while it lives -- a
   forgotten DrainFilter leaves an EMPTY vector (a leak, nothing else) *)
Theorem C10_drain_filter_creation :
  forall cfg, cfg_ok cfg -> forall s v b bl sc,
  vec_at s v b bl -> block_ok cfg bl -> init_upto (slots bl) (h_len bl) ->
  (forall e, In e (velems bl) -> ledger s e = Live) ->
  exists s' f, make_filter v sc s = (Val f, s') /\ finv cfg s' f b (velems bl) [] /\ fframe s s' b /\
               f_vec f = v /\ f_pos f = 0 /\ f_new f = 0 /\ f_old f = h_len bl /\ f_pred f = sc /\ f_panicked f = false.
Proof. exact make_filter_spec. Qed.

Theorem C10_drain_filter_vector_is_empty_while_the_iterator_lives :
  forall cfg s f b orig kept, finv cfg s f b orig kept ->
  exists bl, vec_at s (f_vec f) b bl /\ block_ok cfg bl /\ velems bl = [].
Proof. exact finv_vector_is_empty. Qed.

Print Assumptions C10_drain_filter_next_follows_the_script.

(* what the double-ended cursor yields plus what it leaves is a permutation of the selected range:
   each selected element is yielded at most once, and none is invented *)
Theorem C10_cursor_yields_each_selected_element_at_most_once :
  forall steps w, Permutation.Permutation (somes (fst (cursor w steps)) ++ snd (cursor w steps)) w.
Proof. exact cursor_perm. Qed.
Print Assumptions C10_cursor_yields_each_selected_element_at_most_once.

(* ... and the real Drain follows that cursor from creation to drop *)
Theorem C10_drain_whole_life_follows_the_cursor :
  forall cfg ncap, cfg_ok cfg -> needs_drop cfg = true ->
  forall s v b bl bs be a e steps tmp,
  vec_at s v b bl -> block_ok cfg bl -> owned s bl ->
  resolve_pure bs be (h_len bl) = Some (a, e) -> 0 <= a ->
  let l := velems bl in
  let w := skipn (Z.to_nat a) (firstn (Z.to_nat e) l) in
  let Q := fun s' =>
    vabs cfg s' v (firstn (Z.to_nat a) l ++ skipn (Z.to_nat e) l) /\
    (forall x, In x (somes (fst (cursor w steps))) -> ledger s' x = Out) /\
    (forall x, In x (snd (cursor w steps)) -> ledger s' x = Dropped) /\
    (forall x, ~ In x w -> ledger s' x = ledger s x) /\ next_elem s' = next_elem s in
  post (drain_whole cfg ncap v bs be steps tmp s) (fun r s' => r = fst (cursor w steps) /\ Q s') Q.
Proof. exact drain_abs. Qed.
Print Assumptions C10_drain_whole_life_follows_the_cursor.

(* The stepping methods as they run on an iterator OBJECT of the world -- the functions the translated
   bodies of Drain::next / next_back and IntoIter::next / next_back / len are re-proved equal to on every
   run (EquivIter.v) and that the correspondence run executes -- are, on a well-formed iterator, the
   value-passing functions of the protocol theorems above followed by storing the new iterator value. *)
Theorem C10_drain_next_on_the_object :
  forall cfg, cfg_ok cfg -> forall s i d b bl off a j r,
  iter_get i s = (Val (IDrain d), s) -> drain_inv cfg s d b bl off a j r ->
  exists o d', drain_next cfg d s = (Val (o, d'), s) /\
    drain_next_at cfg i s = (Val o, match o with Some _ => with_iter s i (IDrain d') | None => s end).
Proof. exact drain_next_at_eq. Qed.
Theorem C10_drain_next_back_on_the_object :
  forall cfg, cfg_ok cfg -> forall s i d b bl off a j r,
  iter_get i s = (Val (IDrain d), s) -> drain_inv cfg s d b bl off a j r ->
  exists o d', drain_next_back cfg d s = (Val (o, d'), s) /\
    drain_next_back_at cfg i s = (Val o, match o with Some _ => with_iter s i (IDrain d') | None => s end).
Proof. exact drain_next_back_at_eq. Qed.
Theorem C10_into_next_on_the_object :
  forall cfg, cfg_ok cfg -> forall s i it b bl off p,
  iter_get i s = (Val (IInto it), s) -> into_inv cfg s it b bl off p ->
  exists o it' s', into_next cfg it s = (Val (o, it'), s') /\
    into_next_at cfg i s = (Val o, match o with Some _ => with_iter s' i (IInto it') | None => s' end).
Proof. exact into_next_at_eq. Qed.
Theorem C10_into_next_back_on_the_object :
  forall cfg, cfg_ok cfg -> forall s i it b bl off p,
  iter_get i s = (Val (IInto it), s) -> into_inv cfg s it b bl off p ->
  exists o it' s', into_next_back cfg it s = (Val (o, it'), s') /\ it' = it /\
    into_next_back_at cfg i s = (Val o, s').
Proof. exact into_next_back_at_eq. Qed.
Theorem C10_into_len_on_the_object :
  forall cfg, cfg_ok cfg -> forall s i it b bl off p,
  iter_get i s = (Val (IInto it), s) -> into_inv cfg s it b bl off p ->
  into_len_at i s = (Val (h_len bl), s).
Proof. exact into_len_at_eq. Qed.
Print Assumptions C10_drain_next_on_the_object.
Print Assumptions C10_drain_next_back_on_the_object.
Print Assumptions C10_into_next_on_the_object.
Print Assumptions C10_into_next_back_on_the_object.
Print Assumptions C10_into_len_on_the_object.

(* IntoIter from creation to drop follows the double-ended cursor over the vector's elements *)
Theorem C10_into_iter_whole_life_follows_the_cursor :
  forall cfg, cfg_ok cfg -> needs_drop cfg = true ->
  forall s v b bl steps,
  vec_at s v b bl -> block_ok cfg bl -> owned s bl ->
  let l := velems bl in
  let Q := fun s' =>
    (forall x, In x (somes (fst (cursor l steps))) -> ledger s' x = Out) /\
    (forall x, In x (snd (cursor l steps)) -> ledger s' x = Dropped) /\
    (forall x, ~ In x l -> ledger s' x = ledger s x) /\ next_elem s' = next_elem s /\
    nth_error (vecs s') v = Some None /\
    (exists bl', nth_error (heap s') b = Some (kill bl')) /\
    exists evs, events s' = EvDealloc (b_size bl) (b_align bl) :: evs in
  post (into_whole cfg v steps s) (fun r s' => r = fst (cursor l steps) /\ Q s') Q.
Proof. exact into_abs. Qed.
Print Assumptions C10_into_iter_whole_life_follows_the_cursor.

(* DrainFilter::next as it runs on the iterator OBJECT -- the function the translated body is re-proved
   equal to on every run (EquivFilter.v) and that the correspondence run executes -- is, on a well-formed
   iterator, the value-passing filter_next of C10_drain_filter_next_follows_the_script followed by
   storing the new iterator value; it never runs out of its fuel, a predicate panic leaves `panicked`
   set in the object and the answer consumed, and the checked increments of pos / new_len never
   overflow. *)
Theorem C10_drain_filter_next_on_the_object :
  forall cfg, cfg_ok cfg -> forall fuel f sv i b orig kept,
  finv cfg sv f b orig kept -> (Z.to_nat (f_old f - f_pos f) < fuel)%nat ->
  exists r f' sv',
    filter_next cfg fuel f sv = (Val (r, f'), sv') /\
    filter_next_at cfg fuel i (with_iter sv i (IFilter f)) = (opt_of r, with_iter sv' i (IFilter f')).
Proof. exact filter_next_at_eq. Qed.
Theorem C10_drain_filter_next_never_runs_out_of_fuel :
  forall cfg, cfg_ok cfg -> forall fuel f sv i b orig kept,
  finv cfg sv f b orig kept -> (Z.to_nat (f_old f - f_pos f) < fuel)%nat ->
  fst (filter_next_at cfg fuel i (with_iter sv i (IFilter f))) <> OutOfFuel.
Proof. exact filter_next_at_fuel. Qed.
Print Assumptions C10_drain_filter_next_on_the_object.
Print Assumptions C10_drain_filter_next_never_runs_out_of_fuel.

(* non-vacuity of the whole-life theorems (Drain, IntoIter; also IntoIter::clone in C12): a concrete
   state -- an (8,8) element type, one vector owning a block of capacity 3 with the two live elements 0
   and 1 -- satisfies their hypotheses, with the range 0..1 for the drain *)
Example C10_whole_life_hypotheses_satisfiable :
  let cfg := {| esz := 8; ealign := 8; needs_drop := true; release := false |} in
  let bl := {| b_size := 48; b_align := 8; h_len := 2; h_cap := 3; h_align := 8;
               slots := fun k => if k =? 0 then Init 0 else if k =? 1 then Init 1 else Uninit; b_live := true |} in
  let s := {| heap := [bl]; vecs := [Some (At 0 0)]; iters := []; ledger := fun e => if e <? 2 then Live else Fresh;
              payload := fun _ => 0; next_elem := 2; drop_panics := [1]; clone_panics := []; alloc_fail := None;
              alloc_limit := 1073741824; events := [] |} in
  cfg_ok cfg /\ vec_at s 0 0 bl /\ block_ok cfg bl /\ owned s bl /\
  resolve_pure (BIncl 0) (BExcl 1) (h_len bl) = Some (0, 1) /\ velems bl = [0; 1].
Proof.
  cbv zeta. split; [repeat split; reflexivity|]. split; [split; reflexivity|].
  split; [constructor; try reflexivity; simpl; lia|].
  split.
  - constructor.
    + intros i Hi. simpl in Hi. assert (i = 0 \/ i = 1) as [->| ->] by lia; eexists; reflexivity.
    + vm_compute. repeat constructor; simpl; intuition lia.
    + intros e He. vm_compute in He. destruct He as [<-|[<-|[]]]; reflexivity.
    + intros e He. vm_compute in He. destruct He as [<-|[<-|[]]]; simpl; lia.
  - split; reflexivity.
Qed.

(* END TO END for Drain::next: the REGENERATED body evaluated by the IR semantics on a well-formed Drain
   object yields the element under the front cursor (None when the window is empty) and advances the
   cursor in the object; nothing else is touched *)
Theorem C10_the_source_of_drain_next_follows_the_cursor :
  forall cfg ncap, cfg_ok cfg -> forall s i d b bl off a j r,
  iter_get i s = (Val (IDrain d), s) -> drain_inv cfg s d b bl off a j r ->
  runm cfg ncap drain__Drain__next_ast [iter_val i] s =
    if a <? j
    then (Norm (opt_elem_val (Some (slot_elem (slots bl a)))), with_iter s i (IDrain (with_pos d (PElt b off (a + 1)))))
    else (Norm (opt_elem_val None), s).
Proof. exact drain_next_source. Qed.
Print Assumptions C10_the_source_of_drain_next_follows_the_cursor.
