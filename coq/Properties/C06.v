(* C06 -- a never-allocated vector needs no memory and supports every operation.
   A header access through the sentinel is UB HeaderAccess in the machine; a slice built from a null
   pointer is UB NullSlice; stepping a dangling cursor outside \[dangling, dangling\] is UB WildCursor.
   PARTIAL: the entry points below are proved one by one (each: exact result and the state untouched);
   the remaining ones by the correspondence run over the whole operation alphabet on the sentinel. *)
From Coq Require Import ZArith List Bool Lia.
From MV Require Import Ast Eval Scalar Machine Model Policy.
From MV.Proofs Require Import Arith Logic Prim View OpsLocal Guards Grow CapHistory Sentinel Grow CapHistory Core Refine Clone Append.
Import ListNotations.
Open Scope Z_scope.

Ltac use L := solve [exact L | intros; eapply L; eassumption | intros; eapply L; eauto | exact (L (fun _ => None)) | intros; eapply (L (fun _ => None)); eauto | intros; eapply (L _ (fun _ => None)); eauto].

Section OnTheSentinel.
  Variable cfg : tcfg.
  Variable s : state.
  Variable v : nat.
  Hypothesis Hs : vec_sentinel s v.

  Theorem C06_len_capacity_ptr : len v s = (Val 0, s) /\ capacity v s = (Val 0, s) /\ as_ptr cfg v s = (Val PNull, s).
  Proof. split; [eapply sn_len; eassumption|]. split; [eapply sn_capacity; eassumption|eapply sn_as_ptr; eassumption]. Qed.
  Theorem C06_deref_is_empty : deref cfg v s = (Val [], s).
  Proof. eapply sn_deref; eassumption. Qed.
  Theorem C06_pop : pop cfg v s = (Val None, s).
  Proof. eapply sn_pop; eassumption. Qed.
  Theorem C06_truncate_clear : forall n, 0 <= n -> truncate cfg v n s = (Val tt, s).
  Proof. intros. eapply sn_truncate; eassumption. Qed.
  Theorem C06_remove_rejects : forall idx, 0 <= idx -> remove cfg v idx s = (Panicking, s).
  Proof. intros. eapply sn_remove; eassumption. Qed.
  Theorem C06_swap_remove_rejects : forall idx, 0 <= idx -> swap_remove cfg v idx s = (Panicking, s).
  Proof. intros. eapply sn_swap_remove; eassumption. Qed.
  Theorem C06_spare_views : spare_capacity cfg v s = (Val 0, s) /\ split_at_spare cfg v s = (Val (0, 0), s).
  Proof. split; [eapply sn_spare|eapply sn_split_at_spare]; eassumption. Qed.
  Theorem C06_shrink_to_fit : shrink_to_fit cfg v s = (Val tt, s).
  Proof. eapply sn_shrink_to_fit; eassumption. Qed.
  Theorem C06_retain : forall sc, retain cfg v sc s = (Val tt, s).
  Proof. intros. eapply sn_retain; eassumption. Qed.
  Theorem C06_dedup : forall k sc, dedup_by cfg v k sc s = (Val tt, s).
  Proof. intros. eapply sn_dedup; eassumption. Qed.
  Theorem C06_leak : exists s', leak cfg v s = (Val [], s') /\ heap s' = heap s.
  Proof. eapply sn_leak; eassumption. Qed.
  Theorem C06_drop_frees_nothing : exists s', drop_vec cfg v s = (Val tt, s') /\ heap s' = heap s /\ events s' = events s.
  Proof. eapply sn_drop; eassumption. Qed.
  Theorem C06_drain_and_splice :
    forall fill, exists d, make_drain cfg v BUnb BUnb fill s = (Val d, s) /\
      drain_next cfg d s = (Val (None, d), s) /\ drain_next_back cfg d s = (Val (None, d), s) /\
      drain_hint d s = (Val 0, s).
  Proof. intros. eapply sn_drain_steps; eassumption. Qed.
  Theorem C06_into_iter :
    exists it, make_into cfg v s = (Val it, s) /\
      into_next cfg it s = (Val (None, it), s) /\ into_next_back cfg it s = (Val (None, it), s) /\
      into_as_slice cfg it s = (Val [], s).
  Proof. eapply sn_into_iter; eassumption. Qed.
  Theorem C06_drain_filter :
    forall sc, exists f, make_filter v sc s = (Val f, s) /\ filter_next cfg (filter_fuel f) f s = (Val (FDone, f), s) /\
                         filter_drop cfg f s = (Val tt, s).
  Proof. intros. eapply sn_drain_filter; eassumption. Qed.
End OnTheSentinel.

(* capacity requests: allocate only when capacity is actually added, never UB, and the vector ends
   up never-allocated or with a block satisfying the layout invariant *)
Theorem C06_capacity_family_from_the_sentinel :
  forall cfg, cfg_ok cfg -> forall v os s, vec_sentinel s v -> Forall cap_arg_ok os ->
  post (run_capops cfg (ncap_of cfg) v os s) (fun _ s' => vec_ok cfg s' v) (fun _ => False).
Proof.
  intros cfg Hc v os s Hs Ha. apply (capacity_history_safe cfg (ncap_of cfg) Hc (ncap_policy cfg)); [left; exact Hs|exact Ha].
Qed.

Print Assumptions C06_deref_is_empty.
Print Assumptions C06_drain_and_splice.
Print Assumptions C06_capacity_family_from_the_sentinel.

(* append(&mut self, other): from EVERY pair of storage states (each of the two never allocated,
   empty, full, with spare capacity ...): self holds its elements followed by other's, in order; other
   is empty; no element is created, destroyed or duplicated (the ledger is untouched); a refused
   reservation (capacity overflow) leaves both vectors exactly as they were *)
Theorem C06_append_is_list_concatenation :
  forall cfg ncap, cfg_ok cfg -> policy_ok ncap ->
  forall s v o lv lo,
  vabs cfg s v lv -> vabs cfg s o lo -> v <> o ->
  (forall bv blv bo blo, vec_at s v bv blv -> vec_at s o bo blo -> bv <> bo) ->
  NoDup (lv ++ lo) ->
  post (append cfg ncap v o s)
    (fun _ s' => vabs cfg s' v (lv ++ lo) /\ vabs cfg s' o [] /\ only_changes s s' [])
    (fun s' => s' = s).
Proof. exact append_abs. Qed.
Print Assumptions C06_append_is_list_concatenation.
