(* C19 -- serde round trip is exact and pre-allocation is bounded.
   PARTIAL: the reservation bound is proved for the regenerated map_size_hint (all hints); the two
   visitor loops (push per element; overwrite / truncate / append in place) are not modelled in Coq:
   they are tied by the harness run with a recording serializer and scripted SeqAccess. *)
From Coq Require Import ZArith List String Bool Lia.
From MV Require Import Ast Eval Scalar Machine EquivDefs EquivSerde Model.
From MV.Gen Require Import AstGen.
From MV.Proofs Require Import Arith.
Import ListNotations.
Open Scope Z_scope.

(* the regenerated function is the readable one, for every hint (absent, exact, small, absurd) *)
Theorem C19_map_size_hint_is_the_model :
  forall (F W : Type) cfg prim h (w : W),
  run F W cfg prim serde__map_size_hint_ast [opt_val h] w = (Norm (VInt (map_size_hint h)), w).
Proof. exact map_size_hint_equiv. Qed.

(* ... and never asks for more than 1024 elements up front *)
Theorem C19_reservation_request_bounded : forall h, map_size_hint h <= 1024.
Proof. exact map_size_hint_le. Qed.

Theorem C19_absent_hint_reserves_nothing : map_size_hint None = 0.
Proof. reflexivity. Qed.

Example C19_absurd_hint : map_size_hint (Some 18446744073709551615) = 1024.
Proof. reflexivity. Qed.

Print Assumptions C19_map_size_hint_is_the_model.
Print Assumptions C19_reservation_request_bounded.

(* the up-front reservation of BOTH visitors, read from the regenerated bodies: the statements that run
   before any element is read (VecVisitor: `MiniVec::with_capacity(map_size_hint(seq.size_hint()))`;
   VecInPlaceVisitor: `hint.checked_sub(self.0.len())` -> `self.0.reserve(additional)`), evaluated by the
   IR semantics in a world that answers size_hint with ANY claimed hint and len with ANY destination
   length and records every capacity / reservation request: they end normally and no request exceeds
   1024 elements, whatever the input claims and whatever the destination held *)
Theorem C19_upfront_reservation_of_the_source_is_at_most_1024 :
  forall cfg h l, hint_ok h -> 0 <= l < W64 ->
  fst (run_prefix cfg 2 serde__VecInPlaceVisitor__visit_seq_ast h l) = Norm VUnit /\
  fst (run_prefix cfg 1 serde__VecVisitor__visit_seq_ast h 0) = Norm VUnit /\
  Forall (fun a => 0 <= a <= 1024) (r_log (snd (run_prefix cfg 2 serde__VecInPlaceVisitor__visit_seq_ast h l))) /\
  Forall (fun a => 0 <= a <= 1024) (r_log (snd (run_prefix cfg 1 serde__VecVisitor__visit_seq_ast h 0))).
Proof. exact upfront_reservation_bounded. Qed.
(* and exactly which request the in-place visitor makes: min(hint, 1024) - len when that is not negative *)
Theorem C19_inplace_reservation_is_hint_minus_len :
  forall cfg h l, hint_ok h -> 0 <= l < W64 ->
  run_prefix cfg 2 serde__VecInPlaceVisitor__visit_seq_ast h l =
    (Norm VUnit, {| r_hint := h; r_len := l;
                    r_log := if 0 <=? map_size_hint h - l then [map_size_hint h - l] else [] |}).
Proof. exact inplace_reservation. Qed.
Example C19_inplace_reservation_examples :
  forall cfg,
  r_log (snd (run_prefix cfg 2 serde__VecInPlaceVisitor__visit_seq_ast (Some 18446744073709551615) 5000)) = [] /\
  r_log (snd (run_prefix cfg 2 serde__VecInPlaceVisitor__visit_seq_ast (Some 100000) 24)) = [1000] /\
  r_log (snd (run_prefix cfg 2 serde__VecInPlaceVisitor__visit_seq_ast None 7)) = [].
Proof. intros cfg. repeat split; reflexivity. Qed.
Print Assumptions C19_upfront_reservation_of_the_source_is_at_most_1024.
Print Assumptions C19_inplace_reservation_is_hint_minus_len.
