(* C19 -- serde round trip is exact and pre-allocation is bounded.
   PARTIAL: the reservation bound is proved for the regenerated map_size_hint (all hints); the two
   visitor loops (push per element; overwrite / truncate / append in place) are not modelled in Coq:
   they are tied by the harness run with a recording serializer and scripted SeqAccess. *)
From Coq Require Import ZArith List String Bool Lia.
From MV Require Import Ast Eval Scalar Machine EquivDefs EquivSerde Model.
From MV.Gen Require Import AstGen.
From MV.Proofs Require Import Arith.
Import ListNotations.
Open Scope Z_scope.

(* the regenerated function is the readable one, for every hint (absent, exact, small, absurd) *)
Theorem C19_map_size_hint_is_the_model :
  forall (F W : Type) cfg prim h (w : W),
  run F W cfg prim serde__map_size_hint_ast [opt_val h] w = (Norm (VInt (map_size_hint h)), w).
Proof. exact map_size_hint_equiv. Qed.

(* ... and never asks for more than 1024 elements up front *)
Theorem C19_reservation_request_bounded : forall h, map_size_hint h <= 1024.
Proof. exact map_size_hint_le. Qed.

Theorem C19_absent_hint_reserves_nothing : map_size_hint None = 0.
Proof. reflexivity. Qed.

Example C19_absurd_hint : map_size_hint (Some 18446744073709551615) = 1024.
Proof. reflexivity. Qed.

Print Assumptions C19_map_size_hint_is_the_model.
Print Assumptions C19_reservation_request_bounded.
