(* C19 -- serde round trip is exact and pre-allocation is bounded.
   PARTIAL: the reservation bound is proved for the regenerated map_size_hint (all hints); the two
   visitor loops (push per element; overwrite / truncate / append in place) are not modelled in Coq:
   they are tied by the harness run with a recording serializer and scripted SeqAccess. *)
From Coq Require Import ZArith List String Bool Lia.
From MV Require Import Ast Eval Scalar Machine SerdeSeq EquivDefs EquivSerde Prims EquivSerdeSeq Model.
From MV.Gen Require Import AstGen.
From MV.Proofs Require Import Arith Logic Prim View OpsLocal Guards Grow CapHistory Drops Retain Sentinel Core Refine Clone Extend SerdeSeq SerdeSource.
Import ListNotations.
Open Scope Z_scope.

(* the regenerated function is the readable one, for every hint (absent, exact, small, absurd) *)
Theorem C19_map_size_hint_is_the_model :
  forall (F W : Type) cfg prim h (w : W),
  run F W cfg prim serde__map_size_hint_ast [opt_val h] w = (Norm (VInt (map_size_hint h)), w).
Proof. exact map_size_hint_equiv. Qed.

(* ... and never asks for more than 1024 elements up front *)
Theorem C19_reservation_request_bounded : forall h, map_size_hint h <= 1024.
Proof. exact map_size_hint_le. Qed.

Theorem C19_absent_hint_reserves_nothing : map_size_hint None = 0.
Proof. reflexivity. Qed.

Example C19_absurd_hint : map_size_hint (Some 18446744073709551615) = 1024.
Proof. reflexivity. Qed.

Print Assumptions C19_map_size_hint_is_the_model.
Print Assumptions C19_reservation_request_bounded.

(* the up-front reservation of BOTH visitors, read from the regenerated bodies: the statements that run
   before any element is read (VecVisitor: `MiniVec::with_capacity(map_size_hint(seq.size_hint()))`;
   VecInPlaceVisitor: `hint.checked_sub(self.0.len())` -> `self.0.reserve(additional)`), evaluated by the
   IR semantics in a world that answers size_hint with ANY claimed hint and len with ANY destination
   length and records every capacity / reservation request: they end normally and no request exceeds
   1024 elements, whatever the input claims and whatever the destination held *)
Theorem C19_upfront_reservation_of_the_source_is_at_most_1024 :
  forall cfg h l, hint_ok h -> 0 <= l < W64 ->
  fst (run_prefix cfg 2 serde__VecInPlaceVisitor__visit_seq_ast h l) = Norm VUnit /\
  fst (run_prefix cfg 1 serde__VecVisitor__visit_seq_ast h 0) = Norm VUnit /\
  Forall (fun a => 0 <= a <= 1024) (r_log (snd (run_prefix cfg 2 serde__VecInPlaceVisitor__visit_seq_ast h l))) /\
  Forall (fun a => 0 <= a <= 1024) (r_log (snd (run_prefix cfg 1 serde__VecVisitor__visit_seq_ast h 0))).
Proof. exact upfront_reservation_bounded. Qed.
(* and exactly which request the in-place visitor makes: min(hint, 1024) - len when that is not negative *)
Theorem C19_inplace_reservation_is_hint_minus_len :
  forall cfg h l, hint_ok h -> 0 <= l < W64 ->
  run_prefix cfg 2 serde__VecInPlaceVisitor__visit_seq_ast h l =
    (Norm VUnit, {| r_hint := h; r_len := l;
                    r_log := if 0 <=? map_size_hint h - l then [map_size_hint h - l] else [] |}).
Proof. exact inplace_reservation. Qed.
Example C19_inplace_reservation_examples :
  forall cfg,
  r_log (snd (run_prefix cfg 2 serde__VecInPlaceVisitor__visit_seq_ast (Some 18446744073709551615) 5000)) = [] /\
  r_log (snd (run_prefix cfg 2 serde__VecInPlaceVisitor__visit_seq_ast (Some 100000) 24)) = [1000] /\
  r_log (snd (run_prefix cfg 2 serde__VecInPlaceVisitor__visit_seq_ast None 7)) = [].
Proof. intros cfg. repeat split; reflexivity. Qed.
Print Assumptions C19_upfront_reservation_of_the_source_is_at_most_1024.
Print Assumptions C19_inplace_reservation_is_hint_minus_len.

(* END TO END for `Deserialize for MiniVec` (VecVisitor::visit_seq): the REGENERATED body -- the
   capped reservation, the `while let Some(value) = seq.next_element()?` loop, `Ok(values)` -- evaluated
   by the IR semantics in a world whose input is ANY script of answers (elements, end, an element-level
   error anywhere) with ANY claimed size hint: the result is Ok(a NEW vector holding exactly the elements
   the input yielded before its end, in order, each held once) or the input's error; nothing that existed
   before is touched; the claimed hint has no influence on the contents.  Tie: EquivSerdeSeq.v (induction
   over the loop's fuel); theorem: Proofs/SerdeSeq.v; composed in Proofs/SerdeSource.v. *)
Theorem C19_the_source_of_deserialize_yields_exactly_the_input :
  forall cfg ncap, cfg_ok cfg -> policy_ok ncap -> needs_drop cfg = true ->
  forall h sc s F,
  (match h with Some n => 0 <= n < W64 | None => True end) ->
  (S (List.length sc) <= F)%nat ->
  let '(n, p) := yields sc in
  match projQ (run_visit cfg ncap h (FUEL + F) sc s) with
  | (Norm r, s') =>
      (forall e, e < next_elem s -> ledger s' e = ledger s e) /\
      if p then r = VCtor "Err" [VUnit]
      else r = VCtor "Ok" [VObj (List.length (vecs s))] /\
           vabs cfg s' (List.length (vecs s)) (zseq (next_elem s) n) /\
           next_elem s' = next_elem s + Z.of_nat n
  | (Panic, s') => forall e, e < next_elem s -> ledger s' e = ledger s e
  | (Fail FAbort, _) | (Fail (FAllocAbort _ _), _) => True
  | _ => False
  end.
Proof. exact visit_seq_source. Qed.
Print Assumptions C19_the_source_of_deserialize_yields_exactly_the_input.

(* serialization is the delegation to serde's collect_seq over the vector itself (so what is announced
   and emitted is what the element slice's iterator gives: the harness's recording serializer compares
   it with the slice's own Serialize for several storage states) *)
Theorem C19_serialize_is_collect_seq_of_self :
  fn_body serde__MiniVec__serialize_ast = Blk [] (Some (ECall ".collect_seq" [EVar "serializer"; EVar "self"])) /\
  fn_params serde__MiniVec__serialize_ast = ["self"; "serializer"].
Proof. exact serialize_delegates_to_collect_seq. Qed.
