(* C12 -- clones are deep and independent.
   PARTIAL: what is proved is the storage half: a vector that needs storage obtains a block whose
   index did not exist before (so it shares storage with nothing), and an operation that moves or
   modifies one vector's block leaves every other block and every other handle untouched.  That the
   clone holds clones of exactly the remaining elements, with fresh identities, is tied by the
   correspondence run (identity ledger on both sides, clone at every step, every later order). *)
From Coq Require Import ZArith List Bool Lia.
From MV Require Import Ast Eval Scalar Machine.
From MV.Proofs Require Import Arith Logic Prim View OpsLocal Guards Grow CapHistory Core Refine Clone Extend CloneSlice DrainIt IntoIt IntoClone SourceSpecs FromSlice.
From MV Require Import EquivDefs Prims EquivExtSlice.
Close Scope string_scope.
Import ListNotations.
Open Scope Z_scope.

Ltac use L := solve [exact L | intros; eapply L; eassumption | intros; eapply L; eauto | exact (L (fun _ => None)) | intros; eapply (L (fun _ => None)); eauto | intros; eapply (L _ (fun _ => None)); eauto].

Theorem C12_first_storage_is_a_fresh_block :
  forall cfg (ncap : Z -> option Z), cfg_ok cfg -> forall s v c a,
  vec_sentinel s v -> 0 <= c < W64 -> is_pow2 a = true -> max_align cfg <= a ->
  post (grow cfg v c a s)
    (fun _ s' => (c = 0 /\ a <= max_align cfg /\ s' = s) \/
                 (exists size, make_layout cfg c a = Some (size, a) /\
                    block_ok cfg (fresh_block size a 0 c a) /\ allocated s s' v (fresh_block size a 0 c a)))
    (fun s' => s' = s /\ make_layout cfg c a = None).
Proof. use grow_sentinel. Qed.

Theorem C12_allocation_touches_nothing_else :
  forall s s' v nbl, allocated s s' v nbl ->
  (forall b', (b' < List.length (heap s))%nat -> nth_error (heap s') b' = nth_error (heap s) b') /\
  (forall w, w <> v -> flat (nth_error (vecs s') w) = flat (nth_error (vecs s) w)) /\
  List.length (heap s') = S (List.length (heap s)).
Proof. use allocated_frame. Qed.

Theorem C12_growing_one_vector_touches_no_other :
  forall s s' v b nbl, moved s s' v b nbl ->
  (forall b', b' <> b -> (b' < List.length (heap s))%nat -> nth_error (heap s') b' = nth_error (heap s) b') /\
  (forall w, w <> v -> flat (nth_error (vecs s') w) = flat (nth_error (vecs s) w)) /\
  List.length (heap s') = S (List.length (heap s)).
Proof. use moved_frame. Qed.

Theorem C12_in_place_mutation_touches_no_other_block :
  forall cfg ncap, cfg_ok cfg -> forall s v b bl idx e,
  vec_at s v b bl -> block_ok cfg bl -> 0 <= idx <= h_len bl -> h_len bl < h_cap bl ->
  exists s', insert cfg ncap v idx e s = (Val tt, s') /\ frame_block s s' b.
Proof.
  intros cfg ncap Hc s v b bl idx e Hv Hb Hi Hl.
  destruct (insert_fits cfg ncap Hc s v b bl idx e Hv Hb Hi Hl) as (s' & H1 & _ & H3 & _). eauto.
Qed.

Print Assumptions C12_allocation_touches_nothing_else.
Print Assumptions C12_growing_one_vector_touches_no_other.

(* ---- Clone for MiniVec is deep and independent (element level) ----
   From EVERY source state (never allocated, empty, full, spare capacity, over-aligned: `vabs`), with
   the clone's name fresh: the source is untouched (same block, same elements, same ledger); the
   clone holds length-many NEW elements -- the consecutive identities created by this call, i.e.
   T::clone ran once per source element, in order -- whose payloads are the sources'; the two vectors
   live in different blocks; no element that existed before is touched.  The only panic (capacity
   overflow; no element's clone panics here) leaves the source intact. *)
Theorem C12_clone_is_deep_and_independent :
  forall cfg ncap, cfg_ok cfg -> policy_ok ncap -> needs_drop cfg = true ->
  forall s v w l,
  vabs cfg s v l -> v <> w -> (forall e, In e l -> mem e (clone_panics s) = false) ->
  post (clone_vec cfg ncap v w s)
    (fun _ s' =>
       vabs cfg s' v l /\ vabs cfg s' w (zseq (next_elem s) (List.length l)) /\
       (forall j, (j < List.length l)%nat -> payload s' (next_elem s + Z.of_nat j) = payload s (nth j l 0)) /\
       (forall e, e < next_elem s -> ledger s' e = ledger s e /\ payload s' e = payload s e) /\
       next_elem s' = next_elem s + Z.of_nat (List.length l) /\
       (forall b1 bl1 b2 bl2, vec_at s' v b1 bl1 -> vec_at s' w b2 bl2 -> b1 <> b2))
    (fun s' => vabs cfg s' v l).
Proof. exact clone_vec_spec. Qed.

(* zseq a n = [a; a+1; ...; a+n-1] *)
Theorem C12_zseq_is_consecutive :
  forall a n x, In x (zseq a n) <-> a <= x < a + Z.of_nat n.
Proof. exact zseq_in. Qed.

Print Assumptions C12_clone_is_deep_and_independent.

(* extend_from_slice(&[T]) -- the route of From<&[T]> and of IntoIter::clone (which clones
   `as_slice()` into a new vector): the vector is its old contents followed by one NEW element per
   source element, in order, with the source's payload (T::clone ran once per element); the sources
   and every element that existed before are untouched; a panic (capacity overflow) leaves the old
   contents plus the clones made so far *)
Theorem C12_extend_from_slice_clones_each_element_once :
  forall cfg ncap, cfg_ok cfg -> policy_ok ncap -> needs_drop cfg = true ->
  forall s w l src,
  vabs cfg s w l -> cloneable s src ->
  post (extend_from_slice cfg ncap w src s)
    (fun _ s' =>
       vabs cfg s' w (l ++ zseq (next_elem s) (List.length src)) /\
       next_elem s' = next_elem s + Z.of_nat (List.length src) /\
       (forall e, e < next_elem s -> ledger s' e = ledger s e /\ payload s' e = payload s e) /\
       (forall j, (j < List.length src)%nat -> payload s' (next_elem s + Z.of_nat j) = payload s (nth j src 0)))
    (fun s' => exists k, (k <= List.length src)%nat /\ vabs cfg s' w (l ++ zseq (next_elem s) k) /\
                         (forall e, e < next_elem s -> ledger s' e = ledger s e)).
Proof. exact extend_from_slice_abs. Qed.
Print Assumptions C12_extend_from_slice_clones_each_element_once.

(* IntoIter::clone at ANY point of the iterator's consumption (any cursor p, any number of elements
   left): the clone is an IntoIter over a block of its own holding one NEW element per element the
   original still holds, in order, with the sources' payloads (no block at all when nothing is left);
   the original iterator keeps its block, its cursor and its elements; no pre-existing element is
   touched.  (No element's Clone panics here; the panic post-condition covers a refused capacity: the
   original's block is untouched.) *)
Theorem C12_into_iter_clone_is_deep_and_independent :
  forall cfg ncap, cfg_ok cfg -> policy_ok ncap -> needs_drop cfg = true ->
  forall s it b bl off p w,
  into_inv cfg s it b bl off p -> w <> i_vec it ->
  NoDup (remaining bl p) ->
  (forall e, In e (remaining bl p) -> e < next_elem s /\ ledger s e = Live /\ mem e (clone_panics s) = false) ->
  let src := remaining bl p in
  let n := List.length src in
  post (into_clone cfg ncap it w s)
    (fun it' s' =>
       i_vec it' = w /\
       into_inv cfg s' it b bl off p /\
       ((n = O /\ vec_sentinel s' w /\ i_pos it' = PNull) \/
        (exists bw blw offw, bw <> b /\ into_inv cfg s' it' bw blw offw 0 /\
                             remaining blw 0 = zseq (next_elem s) n)) /\
       next_elem s' = next_elem s + Z.of_nat n /\
       (forall e, e < next_elem s -> ledger s' e = ledger s e /\ payload s' e = payload s e) /\
       (forall j, (j < n)%nat -> ledger s' (next_elem s + Z.of_nat j) = Live /\
                                 payload s' (next_elem s + Z.of_nat j) = payload s (nth j src 0)))
    (fun s' => nth_error (heap s') b = Some bl).
Proof. exact into_clone_spec. Qed.
Print Assumptions C12_into_iter_clone_is_deep_and_independent.

(* the premise of the translator tie EquivClone.clone_equiv is met wherever the clone theorem applies: on a
   well-formed vector (no panicking Clone) the body's loop never runs out of the machine's fuel *)
Theorem C12_clone_body_never_runs_out_of_fuel :
  forall cfg ncap, cfg_ok cfg -> policy_ok ncap -> needs_drop cfg = true ->
  forall s v l, vabs cfg s v l -> (forall e, In e l -> mem e (clone_panics s) = false) ->
  fst (clone_body cfg ncap v s) <> OutOfFuel.
Proof. exact clone_body_fuel. Qed.
Print Assumptions C12_clone_body_never_runs_out_of_fuel.

(* END TO END for extend_from_slice: the regenerated body -- `reserve`, then the `for` loop over the slice
   as the translator renders it -- evaluated by the IR semantics meets the statement above: tie
   (EquivExtSlice.v, induction over the slice) and theorem composed into one statement about the source *)
Theorem C12_the_source_of_extend_from_slice_clones_each_element_once :
  forall cfg ncap, cfg_ok cfg -> policy_ok ncap -> needs_drop cfg = true ->
  forall s w l src F,
  vabs cfg s w l -> cloneable s src -> (List.length src <= F)%nat ->
  match EquivExtSlice.run_ext cfg ncap (EquivDefs.FUEL + F) w src s with
  | (Norm _, s') =>
      vabs cfg s' w (l ++ zseq (next_elem s) (List.length src)) /\
      next_elem s' = next_elem s + Z.of_nat (List.length src) /\
      (forall e, e < next_elem s -> ledger s' e = ledger s e /\ payload s' e = payload s e) /\
      (forall j, (j < List.length src)%nat -> payload s' (next_elem s + Z.of_nat j) = payload s (nth j src 0))
  | (Panic, s') =>
      exists k, (k <= List.length src)%nat /\ vabs cfg s' w (l ++ zseq (next_elem s) k) /\
                (forall e, e < next_elem s -> ledger s' e = ledger s e)
  | (Fail FAbort, _) | (Fail (FAllocAbort _ _), _) => True
  | _ => False
  end.
Proof. exact SourceSpecs.extend_from_slice_source. Qed.
Print Assumptions C12_the_source_of_extend_from_slice_clones_each_element_once.

(* END TO END for `impl From<&[T]> for MiniVec<T>`: the regenerated body gives a NEW vector holding one
   new element per source element, in order, each with its source's payload (T::clone ran once per
   element); the sources and everything that existed before keep their state and payload *)
Theorem C12_the_source_of_from_slice_is_a_deep_copy :
  forall cfg ncap, cfg_ok cfg -> policy_ok ncap -> needs_drop cfg = true ->
  forall s src F,
  cloneable s src -> (List.length src <= F)%nat ->
  match EquivExtSlice.run_from_slice cfg ncap (EquivDefs.FUEL + F) src s with
  | (Norm r, s') =>
      r = VObj (List.length (vecs s)) /\
      vabs cfg s' (List.length (vecs s)) (zseq (next_elem s) (List.length src)) /\
      next_elem s' = next_elem s + Z.of_nat (List.length src) /\
      (forall e, e < next_elem s -> ledger s' e = ledger s e /\ payload s' e = payload s e) /\
      (forall j, (j < List.length src)%nat -> payload s' (next_elem s + Z.of_nat j) = payload s (nth j src 0))
  | (Panic, s') => forall e, e < next_elem s -> ledger s' e = ledger s e
  | (Fail FAbort, _) | (Fail (FAllocAbort _ _), _) => True
  | _ => False
  end.
Proof. exact from_slice_source. Qed.
Print Assumptions C12_the_source_of_from_slice_is_a_deep_copy.
