(* C14 -- raw-pointer round trip reconstructs the same vector.
   The property is FALSE of the code for over-aligned storage (known finding D10): the theorem is the
   full statement under the complement of the recorded class, plus the refutation on the class. *)
From Coq Require Import ZArith List Bool Lia.
From MV Require Import Ast Eval Scalar Machine.
From MV.Proofs Require Import Arith Logic Prim View OpsLocal Grow CapHistory Align.
Import ListNotations.
Open Scope Z_scope.

(* `use L`: the theorem is lemma L (up to the order of section arguments) *)
Ltac use L := solve [exact L | intros; eapply L; eassumption | intros; eapply L; eauto | exact (L (fun _ => None)) | intros; eapply (L (fun _ => None)); eauto | intros; eapply (L _ (fun _ => None)); eauto].


(* the recorded class: the header distance computed from align_of::<T>() differs from the one
   computed from the stored alignment *)
Definition KnownClass (cfg : tcfg) (bl : block) : Prop :=
  next_aligned HEADER_SIZE (ealign cfg) <> next_aligned HEADER_SIZE (h_align bl).

(* outside the class: into_raw_parts + from_raw_part(s) leave the whole machine state unchanged
   (same block, same header, same elements, nothing allocated or freed) and report len and capacity *)
Theorem C14_roundtrip_is_the_identity :
  forall cfg (ncap : Z -> option Z), cfg_ok cfg -> forall s v b bl three,
  vec_at s v b bl -> block_ok cfg bl -> ~ KnownClass cfg bl ->
  raw_roundtrip cfg v three s = (Val (h_len bl, h_cap bl), s).
Proof.
  intros cfg ncap Hc s v b bl three Hv Hb Hk. eapply raw_roundtrip_same; try eassumption.
  unfold KnownClass in Hk.
  destruct (next_aligned HEADER_SIZE (ealign cfg)) as [x|] eqn:E1, (next_aligned HEADER_SIZE (h_align bl)) as [y|] eqn:E2;
    try reflexivity; try (exfalso; apply Hk; discriminate).
  destruct (Z.eq_dec x y); [subst; reflexivity|exfalso; apply Hk; congruence].
Qed.

(* inside the class the rebuilt handle is misplaced and the next header access is UB *)
Theorem C14_refuted_on_known_class :
  forall cfg (ncap : Z -> option Z), cfg_ok cfg -> forall s v b bl a1 a2,
  vec_at s v b bl -> block_ok cfg bl ->
  next_aligned HEADER_SIZE (ealign cfg) = Some a1 -> next_aligned HEADER_SIZE (h_align bl) = Some a2 -> a1 <> a2 ->
  exists s', raw_roundtrip cfg v false s = (Val (h_len bl, h_cap bl), s') /\
             nth_error (vecs s') v = Some (Some (At b (a2 - a1))) /\
             len v s' = (UB MisplacedHeader, s').
Proof. use raw_roundtrip_off. Qed.

(* the class is inhabited by a concrete witness: u16-like elements in storage aligned to 32
   (with_alignment(4, 32)): distances 24 and 32 *)
Example C14_witness :
  next_aligned HEADER_SIZE 2 = Some 24 /\ next_aligned HEADER_SIZE 32 = Some 32.
Proof. split; reflexivity. Qed.

(* and the complement is inhabited: natural alignment, or any stored alignment up to 8 *)
Example C14_complement_inhabited :
  next_aligned HEADER_SIZE 8 = next_aligned HEADER_SIZE 4 /\ next_aligned HEADER_SIZE 8 = next_aligned HEADER_SIZE 1.
Proof. split; reflexivity. Qed.

Print Assumptions C14_roundtrip_is_the_identity.
Print Assumptions C14_refuted_on_known_class.
