(* C16 -- borrowing, lifetime and thread-safety rules are enforced at compile time.
   PARTIAL BY NATURE: rustc decides this, not minivec's run-time code.  What minivec contributes, and
   what an edit could break, is its signatures and marker fields: the theorem checks the tables that
   rs2v REGENERATES from /repo on every run; the rules themselves are observed on real rustc (a corpus
   of must-not-compile programs, each with a must-compile twin, is compiled against the current crate). *)
From Coq Require Import List String Bool.
From MV Require Import FactsDef Static.
From MV.Gen Require Import Facts.
Import ListNotations.
Open Scope string_scope.

Theorem C16_auto_traits_are_bounded_on_T : auto_traits_bounded unsafe_impls = true.
Proof. vm_compute. reflexivity. Qed.

Theorem C16_draining_iterators_keep_the_vector_mutably_borrowed : draining_iterators_borrow structs sigs = true.
Proof. vm_compute. reflexivity. Qed.

Theorem C16_views_borrow_the_vector : views_borrow sigs = true.
Proof. vm_compute. reflexivity. Qed.

Theorem C16_leak_requires_T_outlives : leak_bounded sigs = true.
Proof. vm_compute. reflexivity. Qed.

Theorem C16_ownership_markers_present : ownership_markers structs = true.
Proof. vm_compute. reflexivity. Qed.

Theorem C16_table_adequate : table_adequate structs unsafe_impls sigs = true.
Proof. vm_compute. reflexivity. Qed.

(* the checks are not vacuous: they reject tables with the offending edit *)
Example C16_rejects_unbounded_send :
  auto_traits_bounded [{| ui_trait := "Send"; ui_type := "MiniVec"; ui_bounds := [] |}] = false.
Proof. reflexivity. Qed.
Example C16_rejects_shared_receiver_for_drain :
  borrows_mutably
    [{| s_file := "lib"; s_owner := "MiniVec"; s_trait := ""; s_name := "drain"; s_pub := true; s_unsafe := false;
        s_recv := RShared; s_generics := []; s_bounds := []; s_args := []; s_ret := "Drain<T>" |}] "drain" "Drain" = false.
Proof. reflexivity. Qed.

Print Assumptions C16_table_adequate.
