(* C11 -- out-of-range arguments are rejected and leave the vector untouched.
   Stronger than "observably unchanged": the ENTIRE machine state is unchanged. *)
From Coq Require Import ZArith List Bool Lia.
From MV Require Import Ast Eval Scalar Machine.
From MV.Proofs Require Import Arith Logic Prim View OpsLocal Guards Grow.
Import ListNotations.
Open Scope Z_scope.

(* `use L`: the theorem is lemma L (up to the order of section arguments) *)
Ltac use L := solve [exact L | intros; eapply L; eassumption | intros; eapply L; eauto | exact (L (fun _ => None)) | intros; eapply (L (fun _ => None)); eauto | intros; eapply (L _ (fun _ => None)); eauto].


(* range resolution: exactly start <= end <= len, no wrap-around *)
Theorem C11_resolution_is_exact :
  forall bs be l a b,
  resolve_pure bs be l = Some (a, b) <-> (start_of bs = Some a /\ end_of be l = Some b /\ a <= b <= l).
Proof. use resolve_pure_some. Qed.

Theorem C11_resolve_panics_exactly_when_rejected :
  forall bs be l s,
  resolve bs be l s = (match resolve_pure bs be l with Some r => Val r | None => Panicking end, s).
Proof. use resolve_eq. Qed.

Theorem C11_no_wrap_excluded_max_start : start_of (BExcl (W64 - 1)) = None.
Proof. use start_of_no_wrap. Qed.
Theorem C11_no_wrap_included_max_end : forall l, end_of (BIncl (W64 - 1)) l = None.
Proof. use end_of_no_wrap. Qed.

Theorem C11_remove_rejects_and_changes_nothing :
  forall cfg s v l, len v s = (Val l, s) -> forall idx, l <= idx -> remove cfg v idx s = (Panicking, s).
Proof. use remove_oob. Qed.

Theorem C11_swap_remove_rejects_and_changes_nothing :
  forall cfg s v l, len v s = (Val l, s) -> forall idx, l <= idx -> swap_remove cfg v idx s = (Panicking, s).
Proof. use swap_remove_oob. Qed.

Theorem C11_split_off_rejects_and_changes_nothing :
  forall cfg s v l, len v s = (Val l, s) -> forall o at_, l < at_ -> split_off cfg v o at_ s = (Panicking, s).
Proof. use split_off_oob. Qed.

Theorem C11_drain_splice_reject_and_change_nothing :
  forall cfg s v l, len v s = (Val l, s) -> forall bs be fill, resolve_pure bs be l = None ->
  make_drain cfg v bs be fill s = (Panicking, s).
Proof. use make_drain_reject. Qed.

Theorem C11_extend_from_within_rejects_and_changes_nothing :
  forall cfg ncap s v l, len v s = (Val l, s) -> forall bs be, resolve_pure bs be l = None ->
  extend_from_within cfg ncap v bs be s = (Panicking, s).
Proof. use extend_from_within_reject. Qed.

(* insert: the rejected call destroys the element it was given (unwinding drops the argument) and
   nothing else: heap, handles and iterators are untouched *)
Theorem C11_insert_rejects :
  forall cfg ncap s v l, len v s = (Val l, s) -> forall idx e, l < idx ->
  insert cfg ncap v idx e s =
    (match drop_elem cfg e s with
     | (Val _, s') => (Panicking, s') | (Panicking, s') => (Abort, s') | (UB k, s') => (UB k, s')
     | (AllocAbort x y, s') => (AllocAbort x y, s') | (Abort, s') => (Abort, s') | (OutOfFuel, s') => (OutOfFuel, s')
     end).
Proof. use insert_oob. Qed.

Theorem C11_dropping_the_argument_keeps_the_vector :
  forall cfg s e r s', drop_elem cfg e s = (r, s') -> heap s' = heap s /\ vecs s' = vecs s /\ iters s' = iters s.
Proof. use drop_elem_keeps_vector. Qed.

(* in-range arguments are accepted: insert with index <= len into spare capacity succeeds *)
Theorem C11_insert_accepts_in_range :
  forall cfg ncap, cfg_ok cfg -> forall s v b bl idx e,
  vec_at s v b bl -> block_ok cfg bl -> 0 <= idx <= h_len bl -> h_len bl < h_cap bl ->
  exists s', insert cfg ncap v idx e s = (Val tt, s').
Proof.
  intros cfg ncap Hc s v b bl idx e Hv Hb Hi Hl.
  destruct (insert_fits cfg ncap Hc s v b bl idx e Hv Hb Hi Hl) as (s' & H & _). exists s'. exact H.
Qed.

(* shrink_to: a target above the capacity panics with the state unchanged *)
Theorem C11_shrink_to_rejects_above_capacity :
  forall cfg (ncap : Z -> option Z), cfg_ok cfg -> forall s v b bl m,
  vec_at s v b bl -> block_ok cfg bl -> 0 <= m ->
  post (shrink_to cfg v m s)
    (fun _ s' => m <= h_cap bl /\
                 ((s' = s /\ (m = h_cap bl \/ (m < h_len bl /\ h_len bl = h_cap bl))) \/
                  (exists c size, c = Z.max (h_len bl) m /\ c < h_cap bl /\
                     make_layout cfg c (h_align bl) = Some (size, b_align bl) /\
                     block_ok cfg (grown bl c size) /\ moved s s' v b (grown bl c size))))
    (fun s' => s' = s).
Proof. use shrink_to_at. Qed.

Print Assumptions C11_resolution_is_exact.
Print Assumptions C11_remove_rejects_and_changes_nothing.
Print Assumptions C11_drain_splice_reject_and_change_nothing.
Print Assumptions C11_insert_rejects.
