(* C07 -- capacity is honest, obeys the reservation contract, and storage is stable.
   PARTIAL: the stability clause is proved for push and insert (the shifting core); the amortised
   O(log n) clause rests on the doubling lemma of the regenerated policy (Policy.ncap_policy). *)
From Coq Require Import ZArith List Bool Lia.
From MV Require Import Ast Eval Scalar Machine Model Policy.
From MV.Proofs Require Import Arith Logic Prim View OpsLocal Grow CapHistory.
Import ListNotations.
Open Scope Z_scope.

(* `use L`: the theorem is lemma L (up to the order of section arguments) *)
Ltac use L := solve [exact L | intros; eapply L; eassumption | intros; eapply L; eauto | exact (L (fun _ => None)) | intros; eapply (L (fun _ => None)); eauto | intros; eapply (L _ (fun _ => None)); eauto].


(* honest capacity: a block with the invariant really has room for capacity() elements after the
   header, starting at the data offset, and len <= capacity *)
Theorem C07_block_has_room_for_capacity :
  forall cfg, cfg_ok cfg -> forall bl, block_ok cfg bl ->
  exists off, canon_off bl = Some off /\ data_offset (h_align bl) = Some off /\
              HEADER_SIZE <= off /\ off + h_cap bl * esz cfg <= b_size bl.
Proof. intros cfg H bl Hb. exact (block_ok_off cfg bl H Hb). Qed.

Theorem C07_len_le_capacity : forall cfg bl, block_ok cfg bl -> 0 <= h_len bl <= h_cap bl.
Proof. intros cfg bl H. exact (bo_len cfg bl H). Qed.

(* reserve(n): capacity >= len + n afterwards, nothing happens when it already fits, a request
   that cannot be represented panics leaving everything in place *)
Theorem C07_reserve :
  forall cfg ncap, cfg_ok cfg -> forall s v b bl n,
  policy_ok ncap -> vec_at s v b bl -> block_ok cfg bl -> 0 <= n ->
  post (reserve cfg ncap v n s)
    (fun _ s' => (h_len bl + n <= h_cap bl /\ s' = s) \/
                 (h_cap bl < h_len bl + n /\ exists c size,
                    h_len bl + n <= c /\ h_cap bl < c /\
                    make_layout cfg c (h_align bl) = Some (size, b_align bl) /\
                    block_ok cfg (grown bl c size) /\ moved s s' v b (grown bl c size)))
    (fun s' => s' = s).
Proof. use reserve_at. Qed.

(* reserve_exact: exactly len + n when it has to grow *)
Theorem C07_reserve_exact :
  forall cfg (ncap : Z -> option Z), cfg_ok cfg -> forall s v b bl n,
  vec_at s v b bl -> block_ok cfg bl -> 0 <= n ->
  post (reserve_exact cfg v n s)
    (fun _ s' => (h_len bl + n <= h_cap bl /\ s' = s) \/
                 (h_cap bl < h_len bl + n /\ exists size,
                    make_layout cfg (h_len bl + n) (h_align bl) = Some (size, b_align bl) /\
                    block_ok cfg (grown bl (h_len bl + n) size) /\ moved s s' v b (grown bl (h_len bl + n) size)))
    (fun s' => s' = s).
Proof. use reserve_exact_at. Qed.

(* shrink_to_fit: capacity = len afterwards *)
Theorem C07_shrink_to_fit :
  forall cfg (ncap : Z -> option Z), cfg_ok cfg -> forall s v b bl,
  vec_at s v b bl -> block_ok cfg bl ->
  post (shrink_to_fit cfg v s)
    (fun _ s' => (h_len bl = h_cap bl /\ s' = s) \/
                 (h_len bl <> h_cap bl /\ exists size,
                    make_layout cfg (h_len bl) (h_align bl) = Some (size, b_align bl) /\
                    block_ok cfg (grown bl (h_len bl) size) /\ moved s s' v b (grown bl (h_len bl) size)))
    (fun s' => s' = s).
Proof. use shrink_to_fit_at. Qed.

(* shrink_to: never grows, never goes below max(len, target), rejects a target above capacity *)
Theorem C07_shrink_to :
  forall cfg (ncap : Z -> option Z), cfg_ok cfg -> forall s v b bl m,
  vec_at s v b bl -> block_ok cfg bl -> 0 <= m ->
  post (shrink_to cfg v m s)
    (fun _ s' => m <= h_cap bl /\
                 ((s' = s /\ (m = h_cap bl \/ (m < h_len bl /\ h_len bl = h_cap bl))) \/
                  (exists c size, c = Z.max (h_len bl) m /\ c < h_cap bl /\
                     make_layout cfg c (h_align bl) = Some (size, b_align bl) /\
                     block_ok cfg (grown bl c size) /\ moved s s' v b (grown bl c size))))
    (fun s' => s' = s).
Proof. use shrink_to_at. Qed.

(* stability: push / insert into spare capacity change nothing but the block's content: same block,
   same capacity, no allocator event (frame_block: the event list and the heap's shape are unchanged) *)
Theorem C07_push_into_spare_capacity_is_in_place :
  forall cfg ncap, cfg_ok cfg -> forall s v b bl e,
  vec_at s v b bl -> block_ok cfg bl -> h_len bl < h_cap bl ->
  let bl' := with_hdr (with_slots bl (upd (slots bl) (h_len bl) (Init e))) (h_len bl + 1) (h_cap bl) (h_align bl) in
  exists s', push cfg ncap v e s = (Val tt, s') /\ vec_at s' v b bl' /\ frame_block s s' b /\
             block_ok cfg bl' /\ velems bl' = velems bl ++ [e] /\
             (init_upto (slots bl) (h_len bl) -> init_upto (slots bl') (h_len bl')).
Proof. use push_fits. Qed.

Theorem C07_insert_into_spare_capacity_is_in_place :
  forall cfg ncap, cfg_ok cfg -> forall s v b bl idx e,
  vec_at s v b bl -> block_ok cfg bl -> 0 <= idx <= h_len bl -> h_len bl < h_cap bl ->
  let f1 := if h_len bl - idx <=? 0 then slots bl else shift_up (slots bl) idx (h_len bl - idx) in
  let bl' := with_hdr (with_slots bl (upd f1 idx (Init e))) (h_len bl + 1) (h_cap bl) (h_align bl) in
  exists s', insert cfg ncap v idx e s = (Val tt, s') /\ vec_at s' v b bl' /\ frame_block s s' b /\
             block_ok cfg bl' /\
             velems bl' = firstn (Z.to_nat idx) (velems bl) ++ e :: skipn (Z.to_nat idx) (velems bl) /\
             (init_upto (slots bl) (h_len bl) -> init_upto (slots bl') (h_len bl')).
Proof. use insert_fits. Qed.

(* growth is geometric for the policy regenerated from helpers.rs: from capacity c >= 1 the next
   capacity is at least 2c, from 0 at least 1, and an overflow is refused (this is what makes n
   pushes cost O(log n) resizes) *)
Theorem C07_growth_is_geometric : forall cfg, policy_ok (ncap_of cfg).
Proof. use ncap_policy. Qed.

Print Assumptions C07_reserve.
Print Assumptions C07_shrink_to.
Print Assumptions C07_insert_into_spare_capacity_is_in_place.
Print Assumptions C07_growth_is_geometric.
