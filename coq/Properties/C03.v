(* C03 -- the global allocator contract is honoured on every path.
   Model: coq/Machine.v (do_alloc / do_realloc / do_dealloc CHECK the quoted layout against the
   block's real one: a mismatch is UB AllocContract).  grow / make_layout / alignment / Drop are
   also translated from /repo on every run (Equiv.v).  PARTIAL: the unbounded-history theorem
   covers the capacity family on one vector; the remaining call sites (Splice's direct grow,
   Drop) are covered per operation and by the correspondence run. *)
From Coq Require Import ZArith List Bool Lia.
From MV Require Import Ast Eval Scalar Machine Model Policy.
From MV.Proofs Require Import Arith Logic Prim View OpsLocal Grow CapHistory Align CapHistory Core Refine Life DrainIt DrainAbs IntoAbs.
Import ListNotations.
Open Scope Z_scope.

(* `use L`: the theorem is lemma L (up to the order of section arguments) *)
Ltac use L := solve [exact L | intros; eapply L; eassumption | intros; eapply L; eauto | exact (L (fun _ => None)) | intros; eapply (L (fun _ => None)); eauto | intros; eapply (L _ (fun _ => None)); eauto].


(* growing or shrinking an allocated vector: realloc is called quoting exactly the layout the
   block has; the outcome is never undefined behaviour; the new block again satisfies the layout
   invariant with the requested capacity; an impossible size panics leaving everything in place *)
Theorem C03_realloc_quotes_the_blocks_layout :
  forall cfg (ncap : Z -> option Z), cfg_ok cfg ->
  forall s v b bl c, vec_at s v b bl -> block_ok cfg bl -> 0 <= c < W64 -> h_len bl <= c ->
  post (grow cfg v c (h_align bl) s)
    (fun _ s' => (c = h_cap bl /\ s' = s) \/
                 (c <> h_cap bl /\ exists size,
                    make_layout cfg c (h_align bl) = Some (size, b_align bl) /\
                    block_ok cfg (grown bl c size) /\ moved s s' v b (grown bl c size)))
    (fun s' => s' = s /\ make_layout cfg c (h_align bl) = None).
Proof. use grow_realloc. Qed.

(* a never-allocated vector obtains its first block with alloc *)
Theorem C03_first_block_is_allocated :
  forall cfg (ncap : Z -> option Z), cfg_ok cfg ->
  forall s v c a, vec_sentinel s v -> 0 <= c < W64 -> is_pow2 a = true -> max_align cfg <= a ->
  post (grow cfg v c a s)
    (fun _ s' => (c = 0 /\ a <= max_align cfg /\ s' = s) \/
                 (exists size, make_layout cfg c a = Some (size, a) /\
                    block_ok cfg (fresh_block size a 0 c a) /\ allocated s s' v (fresh_block size a 0 c a)))
    (fun s' => s' = s /\ make_layout cfg c a = None).
Proof. use grow_sentinel. Qed.

(* ALL sequences of capacity operations (reserve, reserve_exact, shrink_to_fit, shrink_to, with
   panics caught in between), from the sentinel or from any block satisfying the invariant --
   in particular through the zero-capacity block and back: never UB (so never a wrong layout
   quoted, never an access outside a live block), never a hang, invariant kept.  The growth
   policy is the one regenerated from src/impl/helpers.rs. *)
Theorem C03_capacity_histories_safe :
  forall cfg, cfg_ok cfg ->
  forall v os s, vec_ok cfg s v -> Forall cap_arg_ok os ->
  post (run_capops cfg (ncap_of cfg) v os s) (fun _ s' => vec_ok cfg s' v) (fun _ => False).
Proof. intros cfg Hc. exact (capacity_history_safe cfg (ncap_of cfg) Hc (ncap_policy cfg)). Qed.

(* non-vacuity: the invariant is satisfiable -- the block of with_capacity(3) for an (8,8) type *)
Example C03_invariant_inhabited :
  let cfg := {| esz := 8; ealign := 8; needs_drop := true; release := false |} in
  cfg_ok cfg /\ block_ok cfg (fresh_block 48 8 0 3 8).
Proof. split; [repeat split; reflexivity|]. constructor; try reflexivity; simpl; lia. Qed.

Print Assumptions C03_realloc_quotes_the_blocks_layout.
Print Assumptions C03_first_block_is_allocated.
Print Assumptions C03_capacity_histories_safe.

(* ALL histories over the core alphabet {push, pop, remove, truncate/clear, retain with ANY predicate
   script, reserve, reserve_exact, shrink_to_fit, shrink_to}, with ANY arguments and ANY set of
   panicking destructors, every panic caught between operations, from any state in which the vector
   owns its elements (in particular the never-allocated vector): the machine never reaches undefined
   behaviour (double drop, dead / uninitialised element exposed, access outside a live block, wrong
   layout quoted to the allocator), never hangs, and after every operation every element the vector
   exposes is initialised, live and exposed once.  Growth policy: the one regenerated from source. *)
Theorem C03_all_core_histories :
  forall cfg, cfg_ok cfg -> needs_drop cfg = true ->
  forall v os s, vinv cfg s v -> Forall coreop_ok os ->
  post (run_coreops cfg (ncap_of cfg) v os s) (fun _ s' => vinv cfg s' v) (fun _ => False).
Proof. intros cfg Hc Hd. exact (core_history_safe cfg (ncap_of cfg) Hc (ncap_policy cfg) Hd). Qed.

Example C03_history_hypotheses_satisfiable :
  let cfg := {| esz := 24; ealign := 8; needs_drop := true; release := true |} in
  let s := {| heap := []; vecs := [Some Sentinel]; iters := []; ledger := fun _ => Fresh; payload := fun _ => 0;
              next_elem := 0; drop_panics := [1; 3]; clone_panics := []; alloc_fail := None;
              alloc_limit := 1073741824; events := [] |} in
  cfg_ok cfg /\ vinv cfg s 0 /\
  Forall coreop_ok [KPush 5; KPush 6; KRetain [84; 70; 80]; KCap CShrinkToFit; KPop; KTruncate 0; KRemove 3].
Proof.
  split; [repeat split; reflexivity|]. split; [left; reflexivity|].
  repeat constructor; simpl; lia.
Qed.

Print Assumptions C03_all_core_histories.

(* Drop: the block is given back to the allocator exactly once, with exactly the layout it was
   obtained with (do_dealloc with any other layout is UB in the machine, and `post` excludes UB); a
   never-allocated vector frees nothing; when an element destructor panics during the drop the block
   is leaked (never freed twice, never freed with a wrong layout) *)
Theorem C03_drop_releases_the_block_with_its_layout :
  forall cfg, cfg_ok cfg -> needs_drop cfg = true -> forall s v l,
  vabs cfg s v l ->
  post (drop_vec cfg v s)
    (fun _ s' => dropped_all s s' v l /\
                 (vec_sentinel s v /\ heap s' = heap s /\ events s' = events s \/
                  exists b bl, vec_at s v b bl /\ nth_error (heap s') b = Some (kill bl) /\
                               exists evs, events s' = EvDealloc (b_size bl) (b_align bl) :: evs))
    (fun s' => dropped_all s s' v l /\ heap s' = heap s /\ l <> []).
Proof. exact drop_vec_abs. Qed.

(* the whole life: empty vector, ANY history of the element + capacity operations, drop: never UB --
   no allocator contract violated on any path, whatever panics *)
Theorem C03_whole_life_respects_the_allocator :
  forall cfg, cfg_ok cfg -> needs_drop cfg = true ->
  forall v os s,
  vec_sentinel s v -> all_settled s -> Forall rop_ok os ->
  let Q := fun s' => all_settled s' /\ nth_error (vecs s') v = Some None in
  post (life cfg (ncap_of cfg) v os s) (fun _ s' => Q s') Q.
Proof. intros cfg Hc Hd. exact (whole_life_nothing_lost cfg (ncap_of cfg) Hc (ncap_policy cfg) Hd). Qed.

Print Assumptions C03_drop_releases_the_block_with_its_layout.
Print Assumptions C03_whole_life_respects_the_allocator.

(* an IntoIter's whole life ends with the block given back to the allocator once, quoting the size and
   alignment it was obtained with (the last event is that dealloc) -- on the normal and on the
   panicking exit *)
Theorem C03_into_iter_releases_the_block_once_with_its_layout :
  forall cfg, cfg_ok cfg -> needs_drop cfg = true ->
  forall s v b bl steps,
  vec_at s v b bl -> block_ok cfg bl -> owned s bl ->
  let l := velems bl in
  let Q := fun s' =>
    (forall x, In x (somes (fst (cursor l steps))) -> ledger s' x = Out) /\
    (forall x, In x (snd (cursor l steps)) -> ledger s' x = Dropped) /\
    (forall x, ~ In x l -> ledger s' x = ledger s x) /\ next_elem s' = next_elem s /\
    nth_error (vecs s') v = Some None /\
    (exists bl', nth_error (heap s') b = Some (kill bl')) /\
    exists evs, events s' = EvDealloc (b_size bl) (b_align bl) :: evs in
  post (into_whole cfg v steps s) (fun r s' => r = fst (cursor l steps) /\ Q s') Q.
Proof. exact into_abs. Qed.
Print Assumptions C03_into_iter_releases_the_block_once_with_its_layout.
