(* C04 -- a panic in user code never corrupts the vector.
   PARTIAL: proved for element destructors panicking inside slice destruction and truncate/clear
   (the length is lowered first); the other unwinding paths (guards of Drain/Splice/DrainFilter,
   IntoIter::drop, clone/extend/resize under construction) by the correspondence run with a panic
   injected at callback invocations and destructors. *)
From Coq Require Import ZArith List Bool Lia.
From MV Require Import Ast Eval Scalar Machine.
From MV.Proofs Require Import Arith Logic Prim View OpsLocal Guards Drops.
Import ListNotations.
Open Scope Z_scope.

Ltac use L := solve [exact L | intros; eapply L; eassumption | intros; eapply L; eauto | exact (L (fun _ => None)) | intros; eapply (L (fun _ => None)); eauto | intros; eapply (L _ (fun _ => None)); eauto].

(* ANY set of panicking destructors (drop_panics is arbitrary): destroying a slice still destroys
   every element exactly once before the panic is propagated; the only other outcome is the abort of
   a second panic; never a double drop, never UB *)
Theorem C04_destructor_panics_do_not_duplicate :
  forall cfg, needs_drop cfg = true -> forall es s,
  NoDup es -> (forall e, In e es -> ledger s e = Live) ->
  post (drop_list cfg es s) (fun _ s' => destroyed s s' es) (fun s' => destroyed s s' es).
Proof. use drop_list_spec. Qed.

(* truncate / clear under panicking destructors: on the panicking exit the vector already holds
   exactly the kept prefix (still live, still distinct) and the whole tail has been destroyed once *)
Theorem C04_truncate_is_panic_safe :
  forall cfg, cfg_ok cfg -> needs_drop cfg = true -> forall s v b bl n,
  vec_at s v b bl -> block_ok cfg bl -> init_upto (slots bl) (h_len bl) -> 0 <= n < h_len bl ->
  NoDup (velems bl) -> (forall e, In e (velems bl) -> ledger s e = Live) ->
  let bl' := with_hdr bl n (h_cap bl) (h_align bl) in
  let tail := skipn (Z.to_nat n) (velems bl) in
  let R := fun s' => vec_at s' v b bl' /\ destroyed (upd_block s b bl') s' tail in
  block_ok cfg bl' /\ velems bl' = firstn (Z.to_nat n) (velems bl) /\
  post (truncate cfg v n s) (fun _ s' => R s') R.
Proof. use truncate_spec. Qed.

Print Assumptions C04_destructor_panics_do_not_duplicate.
Print Assumptions C04_truncate_is_panic_safe.
