(* C04 -- a panic in user code never corrupts the vector.
   PARTIAL: proved for element destructors panicking inside slice destruction and truncate/clear
   (the length is lowered first); the other unwinding paths (guards of Drain/Splice/DrainFilter,
   IntoIter::drop, clone/extend/resize under construction) by the correspondence run with a panic
   injected at callback invocations and destructors. *)
From Coq Require Import ZArith List Bool Lia.
From MV Require Import Ast Eval Scalar Machine Model Policy DrainAt.
From MV.Proofs Require Import Arith Logic Prim View OpsLocal Guards Grow Drops CapHistory Core DrainIt Refine FilterIt Clone Extend CloneSlice DrainGuardAt.
Import ListNotations.
Open Scope Z_scope.

Ltac use L := solve [exact L | intros; eapply L; eassumption | intros; eapply L; eauto | exact (L (fun _ => None)) | intros; eapply (L (fun _ => None)); eauto | intros; eapply (L _ (fun _ => None)); eauto].

(* ANY set of panicking destructors (drop_panics is arbitrary): destroying a slice still destroys
   every element exactly once before the panic is propagated; the only other outcome is the abort of
   a second panic; never a double drop, never UB *)
Theorem C04_destructor_panics_do_not_duplicate :
  forall cfg, needs_drop cfg = true -> forall es s,
  NoDup es -> (forall e, In e es -> ledger s e = Live) ->
  post (drop_list cfg es s) (fun _ s' => destroyed s s' es) (fun s' => destroyed s s' es).
Proof. use drop_list_spec. Qed.

(* truncate / clear under panicking destructors: on the panicking exit the vector already holds
   exactly the kept prefix (still live, still distinct) and the whole tail has been destroyed once *)
Theorem C04_truncate_is_panic_safe :
  forall cfg, cfg_ok cfg -> needs_drop cfg = true -> forall s v b bl n,
  vec_at s v b bl -> block_ok cfg bl -> init_upto (slots bl) (h_len bl) -> 0 <= n < h_len bl ->
  NoDup (velems bl) -> (forall e, In e (velems bl) -> ledger s e = Live) ->
  let bl' := with_hdr bl n (h_cap bl) (h_align bl) in
  let tail := skipn (Z.to_nat n) (velems bl) in
  let R := fun s' => vec_at s' v b bl' /\ destroyed (upd_block s b bl') s' tail in
  block_ok cfg bl' /\ velems bl' = firstn (Z.to_nat n) (velems bl) /\
  post (truncate cfg v n s) (fun _ s' => R s') R.
Proof. use truncate_spec. Qed.

Print Assumptions C04_destructor_panics_do_not_duplicate.
Print Assumptions C04_truncate_is_panic_safe.

(* ALL histories over the core alphabet {push, pop, remove, truncate/clear, retain with ANY predicate
   script, reserve, reserve_exact, shrink_to_fit, shrink_to}, with ANY arguments and ANY set of
   panicking destructors, every panic caught between operations, from any state in which the vector
   owns its elements (in particular the never-allocated vector): the machine never reaches undefined
   behaviour (double drop, dead / uninitialised element exposed, access outside a live block, wrong
   layout quoted to the allocator), never hangs, and after every operation every element the vector
   exposes is initialised, live and exposed once.  Growth policy: the one regenerated from source. *)
Theorem C04_all_core_histories :
  forall cfg, cfg_ok cfg -> needs_drop cfg = true ->
  forall v os s, vinv cfg s v -> Forall coreop_ok os ->
  post (run_coreops cfg (ncap_of cfg) v os s) (fun _ s' => vinv cfg s' v) (fun _ => False).
Proof. intros cfg Hc Hd. exact (core_history_safe cfg (ncap_of cfg) Hc (ncap_policy cfg) Hd). Qed.

Example C04_history_hypotheses_satisfiable :
  let cfg := {| esz := 24; ealign := 8; needs_drop := true; release := true |} in
  let s := {| heap := []; vecs := [Some Sentinel]; iters := []; ledger := fun _ => Fresh; payload := fun _ => 0;
              next_elem := 0; drop_panics := [1; 3]; clone_panics := []; alloc_fail := None;
              alloc_limit := 1073741824; events := [] |} in
  cfg_ok cfg /\ vinv cfg s 0 /\
  Forall coreop_ok [KPush 5; KPush 6; KRetain [84; 70; 80]; KCap CShrinkToFit; KPop; KTruncate 0; KRemove 3].
Proof.
  split; [repeat split; reflexivity|]. split; [left; reflexivity|].
  repeat constructor; simpl; lia.
Qed.

Print Assumptions C04_all_core_histories.

(* dropping a Drain at ANY point of its consumption, with ANY set of panicking destructors: in every
   outcome other than the abort of a double panic the vector is exactly the untouched prefix followed
   by the untouched suffix, and exactly the elements still in the window have been destroyed, once *)
Theorem C04_dropping_a_drain_restores_prefix_and_suffix :
  forall cfg, cfg_ok cfg -> needs_drop cfg = true ->
  forall ncap tmp s d b bl off i j r,
  drain_inv cfg s d b bl off i j r -> d_fill d = None ->
  NoDup (window bl i j) -> (forall e, In e (window bl i j) -> ledger s e = Live) ->
  post (drain_drop cfg ncap tmp d s)
    (fun _ s' => drain_gone cfg s s' d b bl i j r) (fun s' => drain_gone cfg s s' d b bl i j r).
Proof. intros cfg Hc Hd ncap tmp. exact (drain_drop_machine cfg Hc Hd ncap tmp). Qed.

Print Assumptions C04_dropping_a_drain_restores_prefix_and_suffix.

(* ---- every history over push / insert / pop / remove / swap_remove / truncate / reserve /
   reserve_exact / shrink_to_fit / shrink_to, with the growth policy REGENERATED from the source:
   the vector's contents follow the list model, and `vabs` says that the block is laid out
   correctly and that the listed elements are initialised, live and pairwise distinct ---- *)
Theorem C04_every_history_refines_the_list_model :
  forall cfg, cfg_ok cfg -> needs_drop cfg = true ->
  forall v os s l,
  vacc cfg s v l -> Forall rop_ok os ->
  post (run_rops cfg (ncap_of cfg) v os s)
       (fun _ s' => exists l', rsteps os l l' /\ vacc cfg s' v l')
       (fun _ => False).
Proof. intros cfg Hc Hd. exact (history_refines_list_spec cfg (ncap_of cfg) Hc (ncap_policy cfg) Hd). Qed.

Theorem C04_the_listed_elements_are_owned :
  forall cfg s v l, vabs cfg s v l ->
  NoDup l /\ (forall e, In e l -> ledger s e = Live) /\ (forall e, In e l -> e < next_elem s).
Proof. exact vabs_owned. Qed.

Example C04_refinement_hypotheses_satisfiable :
  let cfg := {| esz := 24; ealign := 8; needs_drop := true; release := true |} in
  let s := {| heap := []; vecs := [Some Sentinel]; iters := []; ledger := fun _ => Fresh; payload := fun _ => 0;
              next_elem := 0; drop_panics := [1; 3]; clone_panics := []; alloc_fail := None;
              alloc_limit := 1073741824; events := [] |} in
  cfg_ok cfg /\ vacc cfg s 0 [] /\
  Forall rop_ok [RPush 5; RInsert 0 6; RInsert 7 8; RCap CShrinkToFit; RSwapRemove 0; RPop; RTruncate 0; RRemove 3].
Proof.
  split; [repeat split; reflexivity|]. split; [split; [left; split; reflexivity|split; [simpl; lia|simpl; intros; lia]]|].
  repeat constructor; simpl; lia.
Qed.

Print Assumptions C04_every_history_refines_the_list_model.

(* truncate (and clear) with ANY set of panicking destructors: whether it returns or unwinds, the
   vector is the kept prefix and every element of the cut tail has been destroyed *)
Theorem C04_truncate_under_panicking_destructors :
  forall cfg, cfg_ok cfg -> needs_drop cfg = true -> forall s v l n,
  vabs cfg s v l -> 0 <= n ->
  let Q := fun s' => vabs cfg s' v (firstn (Z.to_nat n) l) /\
                     (forall e, In e (skipn (Z.to_nat n) l) -> ledger s' e = Dropped) /\
                     only_changes s s' (skipn (Z.to_nat n) l) in
  post (truncate cfg v n s) (fun _ s' => Q s') Q.
Proof. exact truncate_abs. Qed.

(* a push / insert that unwinds (capacity overflow, index out of range) leaves the list unchanged *)
Theorem C04_refused_insert_changes_nothing :
  forall cfg ncap, cfg_ok cfg -> policy_ok ncap -> needs_drop cfg = true -> forall s v l idx e,
  vabs cfg s v l -> ledger s e = Live -> ~ In e l -> e < next_elem s -> 0 <= idx ->
  post (insert cfg ncap v idx e s)
    (fun _ s' => idx <= Z.of_nat (List.length l) /\ vabs cfg s' v (list_insert (Z.to_nat idx) e l) /\ only_changes s s' [])
    (fun s' => vabs cfg s' v l /\ ledger s' e = Dropped /\ only_changes s s' [e]).
Proof. exact insert_abs. Qed.
Print Assumptions C04_truncate_under_panicking_destructors.

(* Drop for DrainFilter from ANY point, ANY predicate script: the vector is the kept elements
   followed -- only when the predicate panics -- by the untested rest; exactly the elements accepted
   from here on are destroyed, once; it returns iff the predicate does not panic; after a predicate
   panic seen by next() only the guard runs.  (Destructors of accepted elements assumed not to panic.) *)
Theorem C04_drain_filter_drop_any_point_any_script :
  forall cfg, cfg_ok cfg -> needs_drop cfg = true ->
  forall s f b orig kept,
  finv cfg s f b orig kept -> NoDup orig ->
  let rest := skipn (Z.to_nat (f_pos f)) orig in
  if f_panicked f then
    post (filter_drop cfg f s) (fun _ s' => filter_done cfg s s' f b (kept ++ rest) []) (fun _ => False)
  else
    let '(k, y, u, p) := fall_spec rest (f_pred f) in
    (forall e, In e y -> mem e (drop_panics s) = false) ->
    post (filter_drop cfg f s)
      (fun _ s' => p = false /\ filter_done cfg s s' f b (kept ++ k ++ u) y)
      (fun s' => p = true /\ filter_done cfg s s' f b (kept ++ k ++ u) y).
Proof. exact filter_drop_spec. Qed.

Print Assumptions C04_drain_filter_drop_any_point_any_script.

(* A Clone implementation that panics (any set of elements whose Clone is scripted to panic), or a
   refused capacity, while a slice is cloned onto the end of a vector (extend_from_slice, From<&[T]>,
   IntoIter::clone and resize all go through this loop): after the unwind the vector is valid -- its old
   contents followed by the clones made so far, each live and held exactly once -- and no element that
   existed before has been touched. *)
Theorem C04_clone_panics_leave_the_vector_valid :
  forall cfg ncap, cfg_ok cfg -> policy_ok ncap -> needs_drop cfg = true ->
  forall s w l src,
  vabs cfg s w l -> sources s src ->
  post (extend_from_slice cfg ncap w src s)
    (fun _ s' =>
       vabs cfg s' w (l ++ zseq (next_elem s) (List.length src)) /\
       next_elem s' = next_elem s + Z.of_nat (List.length src) /\
       (forall e, e < next_elem s -> ledger s' e = ledger s e))
    (fun s' => exists k, (k <= List.length src)%nat /\ vabs cfg s' w (l ++ zseq (next_elem s) k) /\
                         (forall e, e < next_elem s -> ledger s' e = ledger s e)).
Proof. exact extend_from_slice_any. Qed.
Print Assumptions C04_clone_panics_leave_the_vector_valid.

(* impl Drop for Drain as it runs on the Drain OBJECT of the world -- the regenerated loop body
   (DrainAt.drain_rest_at, tied in EquivDropGuard.v) with Rust's drop glue written out: the guard built
   inside the loop runs the regenerated DropGuard::drop (DrainAt.drain_guard_at) when `drop(item)`
   unwinds, the last statement's temporary guard runs it at once -- with ANY set of panicking
   destructors: in every outcome other than the abort of a double panic, also when a destructor panics
   half way, the vector is prefix ++ suffix and the window has been destroyed exactly once *)
Theorem C04_drain_drop_on_the_object_survives_panicking_destructors :
  forall cfg, cfg_ok cfg -> needs_drop cfg = true ->
  forall s i0 d b bl off i j r,
  iter_get i0 s = (Val (IDrain d), s) -> drain_inv cfg s d b bl off i j r ->
  NoDup (window bl i j) -> (forall e, In e (window bl i j) -> ledger s e = Live) ->
  post (DrainAt.drain_drop_at cfg (S (Z.to_nat (j - i))) i0 s)
    (fun _ s' => drain_gone cfg s s' d b bl i j r) (fun s' => drain_gone cfg s s' d b bl i j r).
Proof. exact DrainGuardAt.drain_drop_at_machine. Qed.
Print Assumptions C04_drain_drop_on_the_object_survives_panicking_destructors.
