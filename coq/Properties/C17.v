(* C17 -- ill-behaved but safe trait implementations cannot cause memory unsafety.
   The callbacks are driven by SCRIPTS (lists of answers) over which the theorems quantify.
   PARTIAL: proved for the predicate of retain (the swap discipline shared with dedup_by) and for
   the stepping of Drain/Splice (independent of the replacement iterator); Splice's fill/collect,
   extend, from_iter, dedup_by, drain_filter and remove_item by the correspondence run with
   arbitrary answer scripts (iterators yielding after None, lying size hints). *)
From Coq Require Import ZArith List Bool Lia Permutation.
From MV Require Import Ast Eval Scalar Machine Model Policy.
From MV.Proofs Require Import Arith Logic Prim View OpsLocal Guards Drops DrainIt Retain CapHistory Core.
Import ListNotations.
Open Scope Z_scope.

Ltac use L := solve [exact L | intros; eapply L; eassumption | intros; eapply L; eauto | exact (L (fun _ => None)) | intros; eapply (L (fun _ => None)); eauto | intros; eapply (L _ (fun _ => None)); eauto].

(* retain's loop under EVERY script of predicate answers -- true, false or panic in any pattern,
   any length, consistent with the elements or not: never UB; on the normal and on the panicking
   exit the vector's \[0, len) is a permutation of what it was (nothing duplicated, nothing lost), the
   header is untouched, the ledger is untouched (no element destroyed by the loop) *)
Theorem C17_retain_any_predicate :
  forall cfg, cfg_ok cfg -> forall v b bl0 l off s0,
  canon_off bl0 = Some off ->
  (forall e, In e (view (slots bl0) l) -> tracked cfg = false \/ ledger s0 e = Live) ->
  forall fuel s read write sc,
  permuted cfg s0 s v b bl0 l -> 0 <= write <= read -> read <= l -> (Z.to_nat (l - read) <= fuel)%nat ->
  post (retain_loop cfg fuel (PElt b off 0) l read write sc s)
    (fun w s' => 0 <= w <= l /\ permuted cfg s0 s' v b bl0 l)
    (fun s' => permuted cfg s0 s' v b bl0 l).
Proof. use retain_loop_spec. Qed.

(* a permutation of distinct live elements consists of distinct live elements *)
Theorem C17_permutation_keeps_distinct_and_live :
  forall (l l' : list elem) (led : elem -> status),
  Permutation l l' -> NoDup l' -> (forall e, In e l' -> led e = Live) ->
  NoDup l /\ (forall e, In e l -> led e = Live).
Proof.
  intros l l' led Hp Hn Hl. split.
  - eapply Permutation_NoDup; [symmetry; exact Hp|exact Hn].
  - intros e He. apply Hl. eapply Permutation_in; eassumption.
Qed.

(* the old elements a Splice yields do not depend on the replacement iterator at all *)
Theorem C17_splice_stepping_ignores_the_replacement :
  forall cfg, cfg_ok cfg -> forall steps s d b bl off i j r,
  drain_inv cfg s d b bl off i j r ->
  exists d' i' j',
    drain_steps cfg d steps s = (Val (fst (cursor (window bl i j) steps), d'), s) /\
    drain_inv cfg s d' b bl off i' j' r /\ i <= i' /\ j' <= j /\
    window bl i' j' = snd (cursor (window bl i j) steps).
Proof. use drain_protocol. Qed.

Print Assumptions C17_retain_any_predicate.
Print Assumptions C17_splice_stepping_ignores_the_replacement.

(* ALL histories over the core alphabet {push, pop, remove, truncate/clear, retain with ANY predicate
   script, reserve, reserve_exact, shrink_to_fit, shrink_to}, with ANY arguments and ANY set of
   panicking destructors, every panic caught between operations, from any state in which the vector
   owns its elements (in particular the never-allocated vector): the machine never reaches undefined
   behaviour (double drop, dead / uninitialised element exposed, access outside a live block, wrong
   layout quoted to the allocator), never hangs, and after every operation every element the vector
   exposes is initialised, live and exposed once.  Growth policy: the one regenerated from source. *)
Theorem C17_all_core_histories :
  forall cfg, cfg_ok cfg -> needs_drop cfg = true ->
  forall v os s, vinv cfg s v -> Forall coreop_ok os ->
  post (run_coreops cfg (ncap_of cfg) v os s) (fun _ s' => vinv cfg s' v) (fun _ => False).
Proof. intros cfg Hc Hd. exact (core_history_safe cfg (ncap_of cfg) Hc (ncap_policy cfg) Hd). Qed.

Example C17_history_hypotheses_satisfiable :
  let cfg := {| esz := 24; ealign := 8; needs_drop := true; release := true |} in
  let s := {| heap := []; vecs := [Some Sentinel]; iters := []; ledger := fun _ => Fresh; payload := fun _ => 0;
              next_elem := 0; drop_panics := [1; 3]; clone_panics := []; alloc_fail := None;
              alloc_limit := 1073741824; events := [] |} in
  cfg_ok cfg /\ vinv cfg s 0 /\
  Forall coreop_ok [KPush 5; KPush 6; KRetain [84; 70; 80]; KCap CShrinkToFit; KPop; KTruncate 0; KRemove 3].
Proof.
  split; [repeat split; reflexivity|]. split; [left; reflexivity|].
  repeat constructor; simpl; lia.
Qed.

Print Assumptions C17_all_core_histories.
