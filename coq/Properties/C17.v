(* C17 -- ill-behaved but safe trait implementations cannot cause memory unsafety.
   The callbacks are driven by SCRIPTS (lists of answers) over which the theorems quantify.
   PARTIAL: proved for the predicate of retain (the swap discipline shared with dedup_by) and for
   the stepping of Drain/Splice (independent of the replacement iterator); Splice's fill/collect,
   extend, from_iter, dedup_by, drain_filter and remove_item by the correspondence run with
   arbitrary answer scripts (iterators yielding after None, lying size hints). *)
From Coq Require Import ZArith List Bool Lia Permutation.
From MV Require Import Ast Eval Scalar Machine Model Policy.
From MV.Proofs Require Import Arith Logic Prim View OpsLocal Guards Drops DrainIt Retain CapHistory Core FilterIt Grow Dedup Refine Clone Extend RetainSpec RetainAbs RetainSource.
From MV Require Import EquivDefs Prims EquivRetain.
Close Scope string_scope.
Import ListNotations.
Open Scope Z_scope.

Ltac use L := solve [exact L | intros; eapply L; eassumption | intros; eapply L; eauto | exact (L (fun _ => None)) | intros; eapply (L (fun _ => None)); eauto | intros; eapply (L _ (fun _ => None)); eauto].

(* retain's loop under EVERY script of predicate answers -- true, false or panic in any pattern,
   any length, consistent with the elements or not: never UB; on the normal and on the panicking
   exit the vector's \[0, len) is a permutation of what it was (nothing duplicated, nothing lost), the
   header is untouched, the ledger is untouched (no element destroyed by the loop) *)
Theorem C17_retain_any_predicate :
  forall cfg, cfg_ok cfg -> forall v b bl0 l off s0,
  canon_off bl0 = Some off ->
  (forall e, In e (view (slots bl0) l) -> tracked cfg = false \/ ledger s0 e = Live) ->
  forall fuel s read write sc,
  permuted cfg s0 s v b bl0 l -> 0 <= write <= read -> read <= l -> (Z.to_nat (l - read) <= fuel)%nat ->
  post (retain_loop cfg fuel (PElt b off 0) l read write sc s)
    (fun w s' => 0 <= w <= l /\ permuted cfg s0 s' v b bl0 l)
    (fun s' => permuted cfg s0 s' v b bl0 l).
Proof. use retain_loop_spec. Qed.

(* a permutation of distinct live elements consists of distinct live elements *)
Theorem C17_permutation_keeps_distinct_and_live :
  forall (l l' : list elem) (led : elem -> status),
  Permutation l l' -> NoDup l' -> (forall e, In e l' -> led e = Live) ->
  NoDup l /\ (forall e, In e l -> led e = Live).
Proof.
  intros l l' led Hp Hn Hl. split.
  - eapply Permutation_NoDup; [symmetry; exact Hp|exact Hn].
  - intros e He. apply Hl. eapply Permutation_in; eassumption.
Qed.

(* the old elements a Splice yields do not depend on the replacement iterator at all *)
Theorem C17_splice_stepping_ignores_the_replacement :
  forall cfg, cfg_ok cfg -> forall steps s d b bl off i j r,
  drain_inv cfg s d b bl off i j r ->
  exists d' i' j',
    drain_steps cfg d steps s = (Val (fst (cursor (window bl i j) steps), d'), s) /\
    drain_inv cfg s d' b bl off i' j' r /\ i <= i' /\ j' <= j /\
    window bl i' j' = snd (cursor (window bl i j) steps).
Proof. use drain_protocol. Qed.

Print Assumptions C17_retain_any_predicate.
Print Assumptions C17_splice_stepping_ignores_the_replacement.

(* ALL histories over the core alphabet {push, pop, remove, truncate/clear, retain with ANY predicate
   script, reserve, reserve_exact, shrink_to_fit, shrink_to}, with ANY arguments and ANY set of
   panicking destructors, every panic caught between operations, from any state in which the vector
   owns its elements (in particular the never-allocated vector): the machine never reaches undefined
   behaviour (double drop, dead / uninitialised element exposed, access outside a live block, wrong
   layout quoted to the allocator), never hangs, and after every operation every element the vector
   exposes is initialised, live and exposed once.  Growth policy: the one regenerated from source. *)
Theorem C17_all_core_histories :
  forall cfg, cfg_ok cfg -> needs_drop cfg = true ->
  forall v os s, vinv cfg s v -> Forall coreop_ok os ->
  post (run_coreops cfg (ncap_of cfg) v os s) (fun _ s' => vinv cfg s' v) (fun _ => False).
Proof. intros cfg Hc Hd. exact (core_history_safe cfg (ncap_of cfg) Hc (ncap_policy cfg) Hd). Qed.

Example C17_history_hypotheses_satisfiable :
  let cfg := {| esz := 24; ealign := 8; needs_drop := true; release := true |} in
  let s := {| heap := []; vecs := [Some Sentinel]; iters := []; ledger := fun _ => Fresh; payload := fun _ => 0;
              next_elem := 0; drop_panics := [1; 3]; clone_panics := []; alloc_fail := None;
              alloc_limit := 1073741824; events := [] |} in
  cfg_ok cfg /\ vinv cfg s 0 /\
  Forall coreop_ok [KPush 5; KPush 6; KRetain [84; 70; 80]; KDedup SameScript [84; 80]; KDedup SameEq []; KCap CShrinkToFit; KPop; KTruncate 0; KRemove 3].
Proof.
  split; [repeat split; reflexivity|]. split; [left; reflexivity|].
  repeat constructor; simpl; lia.
Qed.

Print Assumptions C17_all_core_histories.

(* ---- DrainFilter ---- *)
(* next(), from ANY point of the traversal, for ANY predicate script (true / false / panic): it
   yields exactly the next element the predicate accepts, keeps (compacted, in order) the ones it
   rejected on the way, stops with `panicked` set when the predicate panics; `fnext_spec` is the
   list-level description: (newly kept, result, how far pos advances, rest of the script) *)
Theorem C17_drain_filter_next_follows_the_script :
  forall cfg, cfg_ok cfg ->
  forall rest fuel f s b orig kept,
  finv cfg s f b orig kept -> skipn (Z.to_nat (f_pos f)) orig = rest -> (List.length rest < fuel)%nat ->
  let '(k, r, n, sc') := fnext_spec rest (f_pred f) in
  exists s' f',
    filter_next cfg fuel f s = (Val (to_fstep r, f'), s') /\
    finv cfg s' f' b orig (kept ++ k) /\ fframe s s' b /\
    f_vec f' = f_vec f /\ f_old f' = f_old f /\
    f_pos f' = f_pos f + Z.of_nat n /\ f_pred f' = sc' /\ (r = RPanic -> f_panicked f' = true) /\
    match r with RYield e => nth_error orig (Z.to_nat (f_pos f') - 1) = Some e | _ => True end.
Proof. exact filter_next_spec. Qed.

(* Drop for DrainFilter from ANY point, ANY predicate script: the vector is the kept elements
   followed -- only when the predicate panics -- by the untested rest; exactly the elements accepted
   from here on are destroyed, once; it returns iff the predicate does not panic; after a predicate
   panic seen by next() only the guard runs.  (Destructors of accepted elements assumed not to panic.) *)
Theorem C17_drain_filter_drop_any_point_any_script :
  forall cfg, cfg_ok cfg -> needs_drop cfg = true ->
  forall s f b orig kept,
  finv cfg s f b orig kept -> NoDup orig ->
  let rest := skipn (Z.to_nat (f_pos f)) orig in
  if f_panicked f then
    post (filter_drop cfg f s) (fun _ s' => filter_done cfg s s' f b (kept ++ rest) []) (fun _ => False)
  else
    let '(k, y, u, p) := fall_spec rest (f_pred f) in
    (forall e, In e y -> mem e (drop_panics s) = false) ->
    post (filter_drop cfg f s)
      (fun _ s' => p = false /\ filter_done cfg s s' f b (kept ++ k ++ u) y)
      (fun s' => p = true /\ filter_done cfg s s' f b (kept ++ k ++ u) y).
Proof. exact filter_drop_spec. Qed.

Print Assumptions C17_drain_filter_drop_any_point_any_script.

(* dedup / dedup_by / dedup_by_key with ANY notion of "same" -- the elements' own == (where an
   element may be unequal to itself), a key function, or an arbitrary scripted comparator (true /
   false / panic in any order: non-reflexive, non-transitive, lying): the loop only permutes the
   vector's own elements; the ledger is untouched on both exits (nothing destroyed, duplicated, lost) *)
Theorem C17_dedup_any_comparator :
  forall cfg, cfg_ok cfg -> forall k v b bl0 l off s0,
  canon_off bl0 = Some off ->
  (forall e, In e (view (slots bl0) l) -> tracked cfg = false \/ ledger s0 e = Live) ->
  forall fuel s read write sc,
  permuted cfg s0 s v b bl0 l -> 1 <= write <= read -> read <= l -> (Z.to_nat (l - read) <= fuel)%nat ->
  post (dedup_loop cfg fuel k (PElt b off 0) l read write sc s)
    (fun w s' => 0 <= w <= l /\ permuted cfg s0 s' v b bl0 l)
    (fun s' => permuted cfg s0 s' v b bl0 l).
Proof. exact dedup_loop_spec. Qed.

(* ... and the whole call keeps the ownership invariant (it is an operation of the history theorem
   C17_all_core_histories: KDedup with any kind of comparison and any script) *)
Theorem C17_dedup_keeps_the_invariant :
  forall cfg, cfg_ok cfg -> needs_drop cfg = true -> forall s v k sc,
  vinv cfg s v ->
  post (dedup_by cfg v k sc s) (fun _ s' => vinv cfg s' v) (fun s' => vinv cfg s' v).
Proof. exact dedup_inv. Qed.
Print Assumptions C17_dedup_any_comparator.
Print Assumptions C17_dedup_keeps_the_invariant.

(* extend(iter) with ANY iterator script -- yields a fresh element / ends / panics, in any order (the
   loop never trusts a size hint): the vector is its old contents followed by the elements yielded
   before the first None (or before the panic), in order, each held exactly once; an element whose
   push is refused is destroyed; no pre-existing element is touched.  `yields sc` = (how many
   elements come before the end or the panic, does it panic). *)
Theorem C17_extend_any_iterator :
  forall cfg ncap, cfg_ok cfg -> policy_ok ncap -> needs_drop cfg = true ->
  forall s v l sc,
  vabs cfg s v l ->
  let '(n, p) := yields sc in
  post (extend cfg ncap v sc s)
    (fun _ s' => p = false /\ vabs cfg s' v (l ++ zseq (next_elem s) n) /\ next_elem s' = next_elem s + Z.of_nat n /\
                 (forall e, e < next_elem s -> ledger s' e = ledger s e))
    (fun s' => exists k, (k <= n)%nat /\ vabs cfg s' v (l ++ zseq (next_elem s) k) /\
                         (forall e, e < next_elem s -> ledger s' e = ledger s e) /\
                         next_elem s <= next_elem s' /\
                         (forall e, next_elem s <= e < next_elem s' ->
                                    In e (zseq (next_elem s) k) \/ ledger s' e = Dropped)).
Proof. exact extend_abs. Qed.
Print Assumptions C17_extend_any_iterator.

(* retain(pred) with ANY predicate script, at list level.  `rspec l sc` = (kept, rejected, did the
   predicate panic, the elements it never saw): a pure function of the element list and the script.
   - normal return: the vector is exactly the accepted elements in their original order; every
     rejected element is destroyed exactly once; nothing else is touched and no element is created;
   - the predicate panics: the vector holds a permutation of ALL its original elements (nothing
     dropped, nothing duplicated -- the ledger is untouched);
   - a destructor panics in the final truncate: same final contents, the rejected are destroyed. *)
Theorem C17_retain_is_the_scripted_filter :
  forall cfg, cfg_ok cfg -> needs_drop cfg = true -> forall s v l sc,
  vabs cfg s v l ->
  let '(k, j, p, u) := rspec l sc in
  post (retain cfg v sc s)
    (fun _ s' => p = false /\ vabs cfg s' v k /\ (forall e, In e j -> ledger s' e = Dropped) /\
                 (forall e, ~ In e j -> ledger s' e = ledger s e) /\ next_elem s' = next_elem s)
    (fun s' => next_elem s' = next_elem s /\
               ((p = true /\ exists l', Permutation l' l /\ vabs cfg s' v l' /\ ledger s' = ledger s) \/
                (p = false /\ vabs cfg s' v k /\ (forall e, In e j -> ledger s' e = Dropped) /\
                 (forall e, ~ In e j -> ledger s' e = ledger s e)))).
Proof. exact retain_abs. Qed.

(* what rspec computes: kept ++ rejected ++ unseen is a permutation of the input, and without a
   predicate panic nothing is left unseen *)
Theorem C17_retain_partition :
  forall rest sc, let '(k, j, p, u) := rspec rest sc in Permutation (k ++ j ++ u) rest /\ (p = false -> u = []).
Proof. exact rspec_perm. Qed.
Print Assumptions C17_retain_is_the_scripted_filter.
Print Assumptions C17_retain_partition.

(* ... and with a predicate that never panics (any boolean answers bs, one per element) rspec is
   List.filter: kept = the elements answered true, rejected = those answered false, in order *)
Theorem C17_retain_without_panics_is_filter :
  forall l bs, List.length bs = List.length l ->
  rspec l (map ans_of bs) =
    (map fst (filter snd (combine l bs)), map fst (filter (fun x => negb (snd x)) (combine l bs)), false, []).
Proof. exact rspec_filter. Qed.
Print Assumptions C17_retain_without_panics_is_filter.

(* END TO END for retain: the REGENERATED body of MiniVec::retain (src/lib.rs, re-translated on every run),
   evaluated by the IR semantics in the machine world, meets the list-level specification -- for every
   vector that owns its elements, every predicate script (true / false / panic in any pattern), every kind
   of two-argument closure in the world and every fuel at least the length.  No outcome other than return,
   panic, or an abort during unwinding is possible: no undefined behaviour, no stuck IR construct. *)
Theorem C17_the_source_of_retain_meets_the_list_spec :
  forall cfg ncap, cfg_ok cfg -> needs_drop cfg = true ->
  forall kind s v l sc F,
  vabs cfg s v l -> (List.length l <= F)%nat ->
  let '(k, j, p, u) := rspec l sc in
  match run_retain cfg ncap kind (FUEL + F) v sc s with
  | (Norm _, s') =>
      p = false /\ vabs cfg s' v k /\ (forall e, In e j -> ledger s' e = Dropped) /\
      (forall e, ~ In e j -> ledger s' e = ledger s e) /\ next_elem s' = next_elem s
  | (Panic, s') =>
      next_elem s' = next_elem s /\
      ((p = true /\ exists l', Permutation l' l /\ vabs cfg s' v l' /\ ledger s' = ledger s) \/
       (p = false /\ vabs cfg s' v k /\ (forall e, In e j -> ledger s' e = Dropped) /\
        (forall e, ~ In e j -> ledger s' e = ledger s e)))
  | (Fail FAbort, _) | (Fail (FAllocAbort _ _), _) => True
  | _ => False
  end.
Proof. exact retain_source_meets_the_list_spec. Qed.
Print Assumptions C17_the_source_of_retain_meets_the_list_spec.
