(* C18 -- allocation failure takes the allocation-error path, never a null dereference. *)
From Coq Require Import ZArith List Bool Lia.
From MV Require Import Ast Eval Scalar Machine.
From MV.Proofs Require Import Arith Logic Prim View OpsLocal Grow Abort.
Import ListNotations.
Open Scope Z_scope.

(* `use L`: the theorem is lemma L (up to the order of section arguments) *)
Ltac use L := solve [exact L | intros; eapply L; eassumption | intros; eapply L; eauto | exact (L (fun _ => None)) | intros; eapply (L (fun _ => None)); eauto | intros; eapply (L _ (fun _ => None)); eauto].


(* grow on an allocated vector: if the outcome is the allocation-error abort, it carries exactly the
   requested layout, and heap and handles are as before the call: nothing was written through the
   null result, the new capacity was not recorded, the old block was neither freed nor lost *)
Theorem C18_failed_realloc_diverges_cleanly :
  forall cfg (ncap : Z -> option Z), cfg_ok cfg -> forall s v b bl c,
  vec_at s v b bl -> block_ok cfg bl -> 0 <= c < W64 -> h_len bl <= c ->
  on_abort (grow cfg v c (h_align bl) s)
    (fun size align s' =>
       make_layout cfg c (h_align bl) = Some (size, align) /\
       heap s' = heap s /\ vecs s' = vecs s /\ same_elems s s').
Proof. use grow_realloc_abort. Qed.

Theorem C18_failed_alloc_diverges_cleanly :
  forall cfg (ncap : Z -> option Z), cfg_ok cfg -> forall s v c a,
  vec_sentinel s v -> 0 <= c < W64 ->
  on_abort (grow cfg v c a s)
    (fun size align s' =>
       make_layout cfg c a = Some (size, align) /\
       heap s' = heap s /\ vecs s' = vecs s /\ same_elems s s').
Proof. use grow_sentinel_abort. Qed.

(* and the failing call is never undefined behaviour (post excludes UB for every allocator answer) *)
Theorem C18_never_ub_whatever_the_allocator_answers :
  forall cfg (ncap : Z -> option Z), cfg_ok cfg ->
  forall s v b bl c, vec_at s v b bl -> block_ok cfg bl -> 0 <= c < W64 -> h_len bl <= c ->
  post (grow cfg v c (h_align bl) s)
    (fun _ s' => (c = h_cap bl /\ s' = s) \/
                 (c <> h_cap bl /\ exists size,
                    make_layout cfg c (h_align bl) = Some (size, b_align bl) /\
                    block_ok cfg (grown bl c size) /\ moved s s' v b (grown bl c size)))
    (fun s' => s' = s /\ make_layout cfg c (h_align bl) = None).
Proof. use grow_realloc. Qed.

Print Assumptions C18_failed_realloc_diverges_cleanly.
Print Assumptions C18_failed_alloc_diverges_cleanly.
