(* C08 -- element storage is suitably aligned and keeps a requested over-alignment. *)
From Coq Require Import ZArith List Bool Lia.
From MV Require Import Ast Eval Scalar Machine Model Policy.
From MV.Proofs Require Import Arith Logic Prim View OpsLocal Grow CapHistory Align.
Import ListNotations.
Open Scope Z_scope.

(* `use L`: the theorem is lemma L (up to the order of section arguments) *)
Ltac use L := solve [exact L | intros; eapply L; eassumption | intros; eapply L; eauto | exact (L (fun _ => None)) | intros; eapply (L (fun _ => None)); eauto | intros; eapply (L _ (fun _ => None)); eauto].


(* whenever a vector has storage (a block with the layout invariant), for EVERY base address the
   allocator may return for that block (any multiple of the block's alignment) element 0 lies at a
   multiple of align_of::<T>() and of the stored alignment, which is at least max(align T, 8) *)
Theorem C08_storage_aligned :
  forall cfg (ncap : Z -> option Z), cfg_ok cfg ->
  forall bl base, block_ok cfg bl -> base mod (b_align bl) = 0 ->
  exists off, canon_off bl = Some off /\
              (base + off) mod (h_align bl) = 0 /\ (base + off) mod (ealign cfg) = 0 /\
              max_align cfg <= h_align bl.
Proof. use storage_aligned. Qed.

(* with_alignment accepts exactly the powers of two >= max(align_of T, align_of usize), reports the
   others through Err (codes 1, 2), records the alignment even for capacity 0, and panics only when
   the size is not representable *)
Theorem C08_with_alignment_accepts_exactly :
  forall cfg (ncap : Z -> option Z), cfg_ok cfg ->
  forall s v c a, 0 <= c < W64 -> 0 <= a < W64 -> esz cfg <> 0 ->
  post (with_alignment cfg v c a s)
    (fun r s' =>
       (r = 1 /\ a < max_align cfg /\ s' = s) \/
       (r = 2 /\ max_align cfg <= a /\ is_pow2 a = false /\ s' = s) \/
       (r = 0 /\ max_align cfg <= a /\ is_pow2 a = true /\
        exists s1, vec_sentinel s1 v /\ heap s1 = heap s /\
          ((c = 0 /\ a = max_align cfg /\ s' = s1) \/
           exists size, make_layout cfg c a = Some (size, a) /\
              block_ok cfg (fresh_block size a 0 c a) /\ allocated s1 s' v (fresh_block size a 0 c a))))
    (fun s' => is_pow2 a = true /\ max_align cfg <= a /\ make_layout cfg c a = None).
Proof. use with_alignment_spec. Qed.

(* the alignment A of a vector's block survives EVERY sequence of capacity operations (growing,
   shrinking to zero capacity, growing again ...), whatever panics in between *)
Theorem C08_alignment_survives_all_capacity_histories :
  forall cfg, cfg_ok cfg ->
  forall A v os s, vec_aligned cfg A s v -> Forall cap_arg_ok os ->
  post (run_capops cfg (ncap_of cfg) v os s) (fun _ s' => vec_aligned cfg A s' v) (fun _ => False).
Proof. intros cfg Hc. exact (aligned_history cfg (ncap_of cfg) Hc (ncap_policy cfg)). Qed.

Theorem C08_is_pow2_is_power_of_two : forall a, is_pow2 a = true <-> exists k, 0 <= k /\ a = 2 ^ k.
Proof. use is_pow2_spec. Qed.

Example C08_nonvacuous :
  let cfg := {| esz := 3; ealign := 1; needs_drop := true; release := true |} in
  cfg_ok cfg /\ block_ok cfg (fresh_block 128 64 0 4 64) /\ is_pow2 24 = false /\ is_pow2 48 = false.
Proof. split; [repeat split; reflexivity|]. split; [constructor; first [reflexivity | vm_compute; intuition discriminate]|]. split; reflexivity. Qed.

Print Assumptions C08_storage_aligned.
Print Assumptions C08_with_alignment_accepts_exactly.
Print Assumptions C08_alignment_survives_all_capacity_histories.
