(* C05 -- forgetting an iterator can only leak, never duplicate or expose dead elements.
   PARTIAL: proved for Drain and Splice; DrainFilter and IntoIter by the correspondence run with a
   forget injected at every step. *)
From Coq Require Import ZArith List Bool Lia.
From MV Require Import Ast Eval Scalar Machine.
From MV.Proofs Require Import Arith Logic Prim View OpsLocal Guards Drops DrainIt FilterIt Grow CapHistory Core Refine Life IntoIt.
Import ListNotations.
Open Scope Z_scope.

Ltac use L := solve [exact L | intros; eapply L; eassumption | intros; eapply L; eauto | exact (L (fun _ => None)) | intros; eapply (L (fun _ => None)); eauto | intros; eapply (L _ (fun _ => None)); eauto].

(* the length is cut to the start of the range when the iterator is created ... *)
Theorem C05_length_is_cut_before_the_iterator_exists :
  forall cfg, cfg_ok cfg -> forall s v b bl bs be fill a e,
  vec_at s v b bl -> block_ok cfg bl -> init_upto (slots bl) (h_len bl) ->
  resolve_pure bs be (h_len bl) = Some (a, e) -> 0 <= a ->
  exists off d,
    let bl' := with_hdr bl a (h_cap bl) (h_align bl) in
    let s' := upd_block s b bl' in
    make_drain cfg v bs be fill s = (Val d, s') /\ d_vec d = v /\ d_fill d = fill /\
    d_rem d = h_len bl - e /\
    drain_inv cfg s' d b bl' off a e e /\
    velems bl' = firstn (Z.to_nat a) (velems bl).
Proof. use make_drain_spec. Qed.

(* ... and no step, from either end, in any number, touches the machine state: forgetting the
   iterator at ANY point leaves the state of creation -- a vector holding exactly the untouched
   prefix (every exposed slot initialised, layout invariant intact); yielded, unyielded and tail
   elements are unreachable through it: they can leak, they cannot be exposed or destroyed twice *)
Theorem C05_forget_after_any_steps_leaves_the_prefix :
  forall cfg, cfg_ok cfg -> forall s d b bl off i j r steps,
  drain_inv cfg s d b bl off i j r ->
  exists out d', drain_steps cfg d steps s = (Val (out, d'), s) /\
    vec_at s (d_vec d) b bl /\ block_ok cfg bl /\ init_upto (slots bl) (h_len bl).
Proof. use forget_after_any_steps. Qed.

Print Assumptions C05_length_is_cut_before_the_iterator_exists.
Print Assumptions C05_forget_after_any_steps_leaves_the_prefix.

(* creation: the length is cut to 0 before the iterator exists, and stays 0 while it lives -- a
   forgotten DrainFilter leaves an EMPTY vector (a leak, nothing else) *)
Theorem C05_drain_filter_creation :
  forall cfg, cfg_ok cfg -> forall s v b bl sc,
  vec_at s v b bl -> block_ok cfg bl -> init_upto (slots bl) (h_len bl) ->
  (forall e, In e (velems bl) -> ledger s e = Live) ->
  exists s' f, make_filter v sc s = (Val f, s') /\ finv cfg s' f b (velems bl) [] /\ fframe s s' b /\
               f_vec f = v /\ f_pos f = 0 /\ f_new f = 0 /\ f_old f = h_len bl /\ f_pred f = sc /\ f_panicked f = false.
Proof. exact make_filter_spec. Qed.

Theorem C05_drain_filter_vector_is_empty_while_the_iterator_lives :
  forall cfg s f b orig kept, finv cfg s f b orig kept ->
  exists bl, vec_at s (f_vec f) b bl /\ block_ok cfg bl /\ velems bl = [].
Proof. exact finv_vector_is_empty. Qed.

Print Assumptions C05_drain_filter_creation.
Print Assumptions C05_drain_filter_vector_is_empty_while_the_iterator_lives.

(* Drop for IntoIter at ANY point of its consumption, under ANY set of panicking destructors: every
   element it still holds is destroyed, nothing else is touched, the name is gone and the block is
   given back with its layout -- also when a destructor panics (the length is cut to 0 first and the
   embedded vector is dropped by the unwinding) *)
Theorem C05_into_iter_drop_any_point :
  forall cfg, cfg_ok cfg -> needs_drop cfg = true ->
  forall s it b bl off p,
  into_inv cfg s it b bl off p ->
  NoDup (remaining bl p) -> (forall e, In e (remaining bl p) -> ledger s e = Live) ->
  let Q := fun s' =>
    (forall e, In e (remaining bl p) -> ledger s' e = Dropped) /\
    only_changes s s' (remaining bl p) /\
    nth_error (vecs s') (i_vec it) = Some None /\
    nth_error (heap s') b = Some (kill (with_hdr bl 0 (h_cap bl) (h_align bl))) /\
    exists evs, events s' = EvDealloc (b_size bl) (b_align bl) :: evs in
  post (into_drop cfg it s) (fun _ s' => Q s') Q.
Proof. exact into_drop_spec. Qed.
Print Assumptions C05_into_iter_drop_any_point.
