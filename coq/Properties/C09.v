(* C09 -- impossible sizes are refused loudly in every build profile.
   All arithmetic over Z with 2^64 and isize::MAX explicit.  The functions involved are
   regenerated from /repo on every run and proved equal to Scalar.v for BOTH profiles (Equiv.v). *)
From Coq Require Import ZArith List String Bool Lia.
From MV Require Import Ast Eval Scalar Machine Model Policy EquivDefs Equiv.
From MV.Gen Require Import AstGen.
From MV.Proofs Require Import Arith Logic Prim View OpsLocal Grow CapHistory.
Import ListNotations.
Open Scope Z_scope.

(* `use L`: the theorem is lemma L (up to the order of section arguments) *)
Ltac use L := solve [exact L | intros; eapply L; eassumption | intros; eapply L; eauto | exact (L (fun _ => None)) | intros; eapply (L (fun _ => None)); eauto | intros; eapply (L _ (fun _ => None)); eauto].


(* no phantom capacity: whenever make_layout succeeds the block it describes really has room for
   the header plus `cap` elements, is a valid Layout (power-of-two alignment, size within
   isize::MAX after rounding) -- for ALL counts and alignments in [0, 2^64) *)
Theorem C09_layout_never_lies :
  forall c cap a n a', 0 <= cap < W64 -> 0 <= esz c -> 0 < a ->
  make_layout c cap a = Some (n, a') ->
  a' = a /\ is_pow2 a = true /\ n <= ISIZE_MAX - (a - 1) /\
  exists off, data_offset a = Some off /\ HEADER_SIZE <= off /\ off mod a = 0 /\
              off + cap * esz c <= n /\ n mod a = 0.
Proof. use make_layout_some. Qed.

(* a size computation that fails does so only because the true size overflows the address space *)
Theorem C09_refused_only_when_unrepresentable :
  forall c cap a, 0 <= cap < W64 -> 0 <= esz c < W64 -> 0 < a < W64 ->
  layout_size c cap a = None -> W64 <= HEADER_SIZE + a + cap * esz c + a.
Proof. use layout_size_none_overflow. Qed.

(* the regenerated source computes exactly these functions in debug AND in release builds: the
   `release` flag of cfg is universally quantified in the equivalence lemmas *)
Theorem C09_next_aligned_same_in_both_profiles :
  forall (F W : Type) cfg prim n a (w : W),
  in_range n -> in_range a ->
  run F W cfg prim helpers__next_aligned_ast [VInt n; VInt a] w = (lift (next_aligned n a), w).
Proof. use next_aligned_equiv. Qed.

Theorem C09_make_layout_same_in_both_profiles :
  forall (F W : Type) cfg prim c a (w : W),
  in_range c -> in_range a -> in_range (esz cfg) ->
  run F W cfg prim helpers__make_layout_ast [VInt c; VInt a] w = (lift_layout F (make_layout cfg c a), w).
Proof. use make_layout_equiv. Qed.

Theorem C09_policy_same_in_both_profiles :
  forall c1 c2 x, esz c1 = esz c2 -> ncap_of c1 x = ncap_of c2 x.
Proof. use ncap_profile_independent. Qed.

(* reserve's doubling loop terminates (never OutOfFuel) and returns a capacity that covers the
   request, or panics: `post` excludes a hang *)
Theorem C09_reserve_loop_terminates :
  forall ncap fuel c total s, policy_ok ncap -> 1 <= c -> total < c * 2 ^ (Z.of_nat fuel) ->
  post (reserve_loop ncap fuel c total s)
       (fun nc s' => s' = s /\ total <= nc /\ c <= nc /\ 1 <= nc /\ (nc < W64 \/ nc = c))
       (fun s' => s' = s).
Proof. use reserve_loop_spec. Qed.

(* an impossible request to the capacity family panics and leaves the vector where it was:
   every capacity history is free of UB and of hangs, and a panicking step changes nothing
   (run_capop_ok: the panic post-state IS the pre-state) *)
Theorem C09_rejected_request_changes_nothing :
  forall cfg ncap, cfg_ok cfg -> policy_ok ncap ->
  forall s v o, vec_ok cfg s v -> cap_arg_ok o ->
  post (run_capop cfg ncap v o s) (fun _ s' => vec_ok cfg s' v) (fun s' => s' = s).
Proof. use run_capop_ok. Qed.

Print Assumptions C09_layout_never_lies.
Print Assumptions C09_make_layout_same_in_both_profiles.
Print Assumptions C09_reserve_loop_terminates.
Print Assumptions C09_rejected_request_changes_nothing.
