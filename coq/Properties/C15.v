(* C15 -- comparison, ordering, hashing and Debug are exactly those of the element slice.
   (1) the impls delegate to the slice operation of the same name (shapes REGENERATED from /repo);
   (2) the slice a vector exposes is exactly its elements \[0, len): capacity, alignment, block size
       and stale slots beyond len cannot influence any of them;
   (3) the list-level comparison used by the model is the slice comparison of a partial order. *)
From Coq Require Import ZArith List String Bool Lia.
From MV Require Import Ast Eval Scalar Machine Run FactsDef Static.
From MV.Gen Require Import Facts.
From MV.Proofs Require Import Arith Logic Prim View OpsLocal Drops Retain Deref.
From MV Require EquivDefs EquivTac EquivDeref.
From MV.Gen Require AstGen.
From MV.Proofs Require Refine SourceSpecs.
Import ListNotations.
Open Scope Z_scope.

Ltac use L := solve [exact L | intros; eapply L; eassumption | intros; eapply L; eauto | exact (L (fun _ => None)) | intros; eapply (L (fun _ => None)); eauto | intros; eapply (L _ (fun _ => None)); eauto].

Definition delegates_to (d : deleg_fact) (op : string) (operands : list string) : bool :=
  match d_shape d with
  | Delegates o xs => String.eqb o op && (if list_eq_dec string_dec xs operands then true else false)
  | Opaque => false
  end.
Definition has_deleg (file fn op : string) (operands : list string) : bool :=
  existsb (fun d => String.eqb (d_file d) file && String.eqb (d_fn d) fn && delegates_to d op operands) delegs.

(* partial_cmp, cmp, hash, fmt(Debug), borrow, borrow_mut, as_ref, as_mut: each body is "deref the
   operands to \[T\] and apply the slice operation of the same name" *)
Theorem C15_impls_delegate_to_the_slice :
  has_deleg "partial_eq" "partial_cmp" "partial_cmp" ["self"; "other"]%string &&
  has_deleg "ord" "cmp" "cmp" ["self"; "other"]%string &&
  has_deleg "hash" "hash" "hash" ["self"; "state"]%string &&
  has_deleg "debug" "fmt" "fmt" ["self"; "f"]%string &&
  has_deleg "borrow" "borrow" "id" ["self"]%string &&
  has_deleg "borrow" "borrow_mut" "id" ["self"]%string &&
  has_deleg "as_ref" "as_ref" "id" ["self"]%string &&
  has_deleg "as_mut" "as_mut" "id" ["self"]%string = true.
Proof. vm_compute. reflexivity. Qed.

(* the nine PartialEq impls come from one macro whose body compares the two slices *)
Definition eq_macro_ok : bool :=
  existsb (fun m => String.eqb (fst m) "minivec_eq_impl" && contains "self [..] == other [..]" (snd m)) macros.
Definition eq_macro_calls : nat :=
  List.length (filter (fun m => String.eqb (fst m) "call:minivec_eq_impl") macros).
Theorem C15_eq_impls_compare_the_slices : eq_macro_ok = true /\ (9 <= eq_macro_calls)%nat.
Proof. split; [vm_compute; reflexivity|vm_compute; repeat constructor]. Qed.

(* the slice exposed is exactly the elements: a function of \[0, len) only *)
Theorem C15_deref_is_exactly_the_elements :
  forall cfg, cfg_ok cfg -> forall s v b bl,
  vec_at s v b bl -> block_ok cfg bl -> init_upto (slots bl) (h_len bl) ->
  NoDup (velems bl) -> (forall e, In e (velems bl) -> tracked cfg = false \/ ledger s e = Live) ->
  deref cfg v s = (Val (velems bl), s).
Proof. use deref_at. Qed.

Theorem C15_elements_ignore_capacity_alignment_and_stale_slots :
  forall bl bl', h_len bl = h_len bl' -> (forall i, 0 <= i < h_len bl -> slots bl i = slots bl' i) ->
  velems bl = velems bl'.
Proof. intros bl bl' Hl Hs. unfold velems. rewrite <- Hl. apply view_ext. exact Hs. Qed.

(* slice equality / partial order on payloads (NAN_PAYLOAD is unordered and unequal to itself) *)
Theorem C15_eq_is_pointwise : forall a b, slice_eq a b = true ->
  List.length a = List.length b /\ forall k x y, nth_error a k = Some x -> nth_error b k = Some y -> x = y /\ x <> NAN_PAYLOAD.
Proof.
  induction a as [|x a IH]; intros [|y b] H; simpl in H; try discriminate.
  - split; [reflexivity|]. intros [|k] ? ? H1; discriminate.
  - apply andb_true_iff in H. destruct H as [H1 H2]. apply andb_true_iff in H1. destruct H1 as [H1 H3].
    apply Z.eqb_eq in H1. apply negb_true_iff in H3. apply Z.eqb_neq in H3.
    destruct (IH _ H2) as [Hl Hp]. split; [simpl; congruence|].
    intros [|k] u w Hu Hw; simpl in *.
    + inversion Hu; inversion Hw; subst. auto.
    + eapply Hp; eassumption.
Qed.

Theorem C15_prefix_is_less : forall a x b, slice_pcmp a (a ++ x :: b) = 0 \/ exists y, In y a /\ y = NAN_PAYLOAD.
Proof.
  induction a as [|y a IH]; intros x b; simpl; [left; reflexivity|].
  destruct (Z.eqb_spec y NAN_PAYLOAD) as [E|N]; [right; exists y; auto|]. simpl.
  rewrite Z.ltb_irrefl. destruct (IH x b) as [H|(z & Hz & Ez)]; [left; exact H|right; exists z; auto].
Qed.

Print Assumptions C15_impls_delegate_to_the_slice.
Print Assumptions C15_deref_is_exactly_the_elements.

(* END TO END for the view that all of these delegations compare, order, hash and print: the REGENERATED
   body of `Deref::deref`, evaluated by the IR semantics on a vector whose contents are the list l, gives
   exactly the slice of l -- whatever the capacity, the alignment, the block size or stale slots beyond
   len -- and leaves the state untouched (tie: EquivDeref.v; composed in Proofs/SourceSpecs.v) *)
Theorem C15_the_source_of_deref_gives_exactly_the_elements :
  forall cfg ncap, MV.Proofs.Prim.cfg_ok cfg -> forall s v l,
  MV.Proofs.Refine.vabs cfg s v l ->
  MV.EquivTac.runm cfg ncap MV.Gen.AstGen.deref__MiniVec__deref_ast [VObj v] s = (Norm (MV.EquivDeref.slice_of l), s).
Proof. exact MV.Proofs.SourceSpecs.deref_source. Qed.
Print Assumptions C15_the_source_of_deref_gives_exactly_the_elements.
