(* C01 -- operation sequences behave exactly like std Vec.
   PARTIAL: refinement of the machine to the list-level specification is proved for the shifting
   core (push, pop, insert) and for the iterator protocol of Drain/Splice; the remaining operations
   are tied by the correspondence run (three-way with std::vec::Vec) only. *)
From Coq Require Import ZArith List Bool Lia.
From MV Require Import Ast Eval Scalar Machine.
From MV.Proofs Require Import Arith Logic Prim View OpsLocal Guards Drops DrainIt.
Import ListNotations.
Open Scope Z_scope.

Ltac use L := solve [exact L | intros; eapply L; eassumption | intros; eapply L; eauto | exact (L (fun _ => None)) | intros; eapply (L (fun _ => None)); eauto | intros; eapply (L _ (fun _ => None)); eauto].

(* push = list append at the end *)
Theorem C01_push_is_snoc :
  forall cfg ncap, cfg_ok cfg -> forall s v b bl e,
  vec_at s v b bl -> block_ok cfg bl -> h_len bl < h_cap bl ->
  let bl' := with_hdr (with_slots bl (upd (slots bl) (h_len bl) (Init e))) (h_len bl + 1) (h_cap bl) (h_align bl) in
  exists s', push cfg ncap v e s = (Val tt, s') /\ vec_at s' v b bl' /\ frame_block s s' b /\
             block_ok cfg bl' /\ velems bl' = velems bl ++ [e] /\
             (init_upto (slots bl) (h_len bl) -> init_upto (slots bl') (h_len bl')).
Proof. use push_fits. Qed.

(* pop = remove and return the last element (None on the empty vector) *)
Theorem C01_pop_is_unsnoc :
  forall cfg, cfg_ok cfg -> forall s v b bl,
  vec_at s v b bl -> block_ok cfg bl -> init_upto (slots bl) (h_len bl) -> 0 < h_len bl ->
  exists e bl' s1,
    slots bl (h_len bl - 1) = Init e /\
    bl' = with_hdr bl (h_len bl - 1) (h_cap bl) (h_align bl) /\
    s1 = upd_block s b bl' /\
    pop cfg v s = bind (hand_out cfg e) (fun _ => ret (Some e)) s1 /\
    velems bl = velems bl' ++ [e] /\ block_ok cfg bl' /\ init_upto (slots bl') (h_len bl').
Proof. use pop_spec. Qed.

Theorem C01_pop_empty :
  forall cfg, cfg_ok cfg -> forall s v b bl,
  vec_at s v b bl -> block_ok cfg bl -> h_len bl = 0 -> pop cfg v s = (Val None, s).
Proof. use pop_empty. Qed.

(* insert(i, x) = firstn i l ++ x :: skipn i l *)
Theorem C01_insert_is_list_insert :
  forall cfg ncap, cfg_ok cfg -> forall s v b bl idx e,
  vec_at s v b bl -> block_ok cfg bl -> 0 <= idx <= h_len bl -> h_len bl < h_cap bl ->
  let f1 := if h_len bl - idx <=? 0 then slots bl else shift_up (slots bl) idx (h_len bl - idx) in
  let bl' := with_hdr (with_slots bl (upd f1 idx (Init e))) (h_len bl + 1) (h_cap bl) (h_align bl) in
  exists s', insert cfg ncap v idx e s = (Val tt, s') /\ vec_at s' v b bl' /\ frame_block s s' b /\
             block_ok cfg bl' /\
             velems bl' = firstn (Z.to_nat idx) (velems bl) ++ e :: skipn (Z.to_nat idx) (velems bl) /\
             (init_upto (slots bl) (h_len bl) -> init_upto (slots bl') (h_len bl')).
Proof. use insert_fits. Qed.

(* truncate(n) = firstn n l, the tail destroyed exactly once *)
Theorem C01_truncate_is_firstn :
  forall cfg, cfg_ok cfg -> needs_drop cfg = true -> forall s v b bl n,
  vec_at s v b bl -> block_ok cfg bl -> init_upto (slots bl) (h_len bl) -> 0 <= n < h_len bl ->
  NoDup (velems bl) -> (forall e, In e (velems bl) -> ledger s e = Live) ->
  let bl' := with_hdr bl n (h_cap bl) (h_align bl) in
  let tail := skipn (Z.to_nat n) (velems bl) in
  let R := fun s' => vec_at s' v b bl' /\ destroyed (upd_block s b bl') s' tail in
  block_ok cfg bl' /\ velems bl' = firstn (Z.to_nat n) (velems bl) /\
  post (truncate cfg v n s) (fun _ s' => R s') R.
Proof. use truncate_spec. Qed.

(* drain/splice yield exactly the selected window under any interleaving of front/back steps *)
Theorem C01_drain_yields_the_window :
  forall cfg, cfg_ok cfg -> forall steps s d b bl off i j r,
  drain_inv cfg s d b bl off i j r ->
  exists d' i' j',
    drain_steps cfg d steps s = (Val (fst (cursor (window bl i j) steps), d'), s) /\
    drain_inv cfg s d' b bl off i' j' r /\ i <= i' /\ j' <= j /\
    window bl i' j' = snd (cursor (window bl i j) steps).
Proof. use drain_protocol. Qed.

Print Assumptions C01_insert_is_list_insert.
Print Assumptions C01_truncate_is_firstn.
Print Assumptions C01_drain_yields_the_window.

(* dropping a Drain at ANY point of its consumption, with ANY set of panicking destructors: in every
   outcome other than the abort of a double panic the vector is exactly the untouched prefix followed
   by the untouched suffix, and exactly the elements still in the window have been destroyed, once *)
Theorem C01_dropping_a_drain_restores_prefix_and_suffix :
  forall cfg, cfg_ok cfg -> needs_drop cfg = true ->
  forall ncap tmp s d b bl off i j r,
  drain_inv cfg s d b bl off i j r -> d_fill d = None ->
  NoDup (window bl i j) -> (forall e, In e (window bl i j) -> ledger s e = Live) ->
  post (drain_drop cfg ncap tmp d s)
    (fun _ s' => drain_gone cfg s s' d b bl i j r) (fun s' => drain_gone cfg s s' d b bl i j r).
Proof. intros cfg Hc Hd ncap tmp. exact (drain_drop_machine cfg Hc Hd ncap tmp). Qed.

Print Assumptions C01_dropping_a_drain_restores_prefix_and_suffix.
