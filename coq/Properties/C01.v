(* C01 -- operation sequences behave exactly like std Vec.
   PARTIAL: refinement of the machine to the list-level specification is proved
   - for EVERY history over push / insert / pop / remove / swap_remove / truncate (clear) / reserve / reserve_exact /
     shrink_to_fit / shrink_to, any arguments, any panicking destructors, panics caught between the
     calls (C01_every_history_refines_the_list_model: induction over the operation list);
   - per operation for insert (spare capacity), and for the iterator protocol of Drain (any
     interleaving of front / back steps, drop at any point under any panics);
   the remaining operations are tied by the correspondence run (three-way with std::vec::Vec) only. *)
From Coq Require Import ZArith List Bool Lia Permutation.
From MV Require Import Ast Eval Scalar Machine Model Policy.
From MV.Proofs Require Import Arith Logic Prim View OpsLocal Guards Grow CapHistory Drops DrainIt Core Refine Clone Append SplitOff Extend CloneSlice RetainSpec RetainAbs History DrainAbs Resize SourceSpecs.
From MV Require Import EquivDefs Prims EquivTac EquivElem EquivPop EquivRemove EquivInsert EquivSwapRemove EquivExtend.
From MV.Gen Require Import AstGen.
Close Scope string_scope.
Import ListNotations.
Open Scope Z_scope.

Ltac use L := solve [exact L | intros; eapply L; eassumption | intros; eapply L; eauto | exact (L (fun _ => None)) | intros; eapply (L (fun _ => None)); eauto | intros; eapply (L _ (fun _ => None)); eauto].

(* push = list append at the end *)
Theorem C01_push_is_snoc :
  forall cfg ncap, cfg_ok cfg -> forall s v b bl e,
  vec_at s v b bl -> block_ok cfg bl -> h_len bl < h_cap bl ->
  let bl' := with_hdr (with_slots bl (upd (slots bl) (h_len bl) (Init e))) (h_len bl + 1) (h_cap bl) (h_align bl) in
  exists s', push cfg ncap v e s = (Val tt, s') /\ vec_at s' v b bl' /\ frame_block s s' b /\
             block_ok cfg bl' /\ velems bl' = velems bl ++ [e] /\
             (init_upto (slots bl) (h_len bl) -> init_upto (slots bl') (h_len bl')).
Proof. use push_fits. Qed.

(* pop = remove and return the last element (None on the empty vector) *)
Theorem C01_pop_is_unsnoc :
  forall cfg, cfg_ok cfg -> forall s v b bl,
  vec_at s v b bl -> block_ok cfg bl -> init_upto (slots bl) (h_len bl) -> 0 < h_len bl ->
  exists e bl' s1,
    slots bl (h_len bl - 1) = Init e /\
    bl' = with_hdr bl (h_len bl - 1) (h_cap bl) (h_align bl) /\
    s1 = upd_block s b bl' /\
    pop cfg v s = bind (hand_out cfg e) (fun _ => ret (Some e)) s1 /\
    velems bl = velems bl' ++ [e] /\ block_ok cfg bl' /\ init_upto (slots bl') (h_len bl').
Proof. use pop_spec. Qed.

Theorem C01_pop_empty :
  forall cfg, cfg_ok cfg -> forall s v b bl,
  vec_at s v b bl -> block_ok cfg bl -> h_len bl = 0 -> pop cfg v s = (Val None, s).
Proof. use pop_empty. Qed.

(* insert(i, x) = firstn i l ++ x :: skipn i l *)
Theorem C01_insert_is_list_insert :
  forall cfg ncap, cfg_ok cfg -> forall s v b bl idx e,
  vec_at s v b bl -> block_ok cfg bl -> 0 <= idx <= h_len bl -> h_len bl < h_cap bl ->
  let f1 := if h_len bl - idx <=? 0 then slots bl else shift_up (slots bl) idx (h_len bl - idx) in
  let bl' := with_hdr (with_slots bl (upd f1 idx (Init e))) (h_len bl + 1) (h_cap bl) (h_align bl) in
  exists s', insert cfg ncap v idx e s = (Val tt, s') /\ vec_at s' v b bl' /\ frame_block s s' b /\
             block_ok cfg bl' /\
             velems bl' = firstn (Z.to_nat idx) (velems bl) ++ e :: skipn (Z.to_nat idx) (velems bl) /\
             (init_upto (slots bl) (h_len bl) -> init_upto (slots bl') (h_len bl')).
Proof. use insert_fits. Qed.

(* truncate(n) = firstn n l, the tail destroyed exactly once *)
Theorem C01_truncate_is_firstn :
  forall cfg, cfg_ok cfg -> needs_drop cfg = true -> forall s v b bl n,
  vec_at s v b bl -> block_ok cfg bl -> init_upto (slots bl) (h_len bl) -> 0 <= n < h_len bl ->
  NoDup (velems bl) -> (forall e, In e (velems bl) -> ledger s e = Live) ->
  let bl' := with_hdr bl n (h_cap bl) (h_align bl) in
  let tail := skipn (Z.to_nat n) (velems bl) in
  let R := fun s' => vec_at s' v b bl' /\ destroyed (upd_block s b bl') s' tail in
  block_ok cfg bl' /\ velems bl' = firstn (Z.to_nat n) (velems bl) /\
  post (truncate cfg v n s) (fun _ s' => R s') R.
Proof. use truncate_spec. Qed.

(* drain/splice yield exactly the selected window under any interleaving of front/back steps *)
Theorem C01_drain_yields_the_window :
  forall cfg, cfg_ok cfg -> forall steps s d b bl off i j r,
  drain_inv cfg s d b bl off i j r ->
  exists d' i' j',
    drain_steps cfg d steps s = (Val (fst (cursor (window bl i j) steps), d'), s) /\
    drain_inv cfg s d' b bl off i' j' r /\ i <= i' /\ j' <= j /\
    window bl i' j' = snd (cursor (window bl i j) steps).
Proof. use drain_protocol. Qed.

Print Assumptions C01_insert_is_list_insert.
Print Assumptions C01_truncate_is_firstn.
Print Assumptions C01_drain_yields_the_window.

(* dropping a Drain at ANY point of its consumption, with ANY set of panicking destructors: in every
   outcome other than the abort of a double panic the vector is exactly the untouched prefix followed
   by the untouched suffix, and exactly the elements still in the window have been destroyed, once *)
Theorem C01_dropping_a_drain_restores_prefix_and_suffix :
  forall cfg, cfg_ok cfg -> needs_drop cfg = true ->
  forall ncap tmp s d b bl off i j r,
  drain_inv cfg s d b bl off i j r -> d_fill d = None ->
  NoDup (window bl i j) -> (forall e, In e (window bl i j) -> ledger s e = Live) ->
  post (drain_drop cfg ncap tmp d s)
    (fun _ s' => drain_gone cfg s s' d b bl i j r) (fun s' => drain_gone cfg s s' d b bl i j r).
Proof. intros cfg Hc Hd ncap tmp. exact (drain_drop_machine cfg Hc Hd ncap tmp). Qed.

Print Assumptions C01_dropping_a_drain_restores_prefix_and_suffix.

(* ---- the history theorem: the machine refines the list model ---- *)

(* what the vector holds, as a list of element identities: `vacc s v l` = `vabs s v l` (the block
   satisfies the layout invariant, the elements of l are initialised, live and pairwise distinct)
   and `accounted s l` (every element created so far is in l, or was handed out, or was destroyed) *)
Theorem C01_every_history_refines_the_list_model :
  forall cfg ncap, cfg_ok cfg -> policy_ok ncap -> needs_drop cfg = true ->
  forall v os s l,
  vacc cfg s v l -> Forall rop_ok os ->
  post (run_rops cfg ncap v os s)
       (fun _ s' => exists l', rsteps os l l' /\ vacc cfg s' v l')
       (fun _ => False).
Proof. exact history_refines_list_spec. Qed.

(* the same with the growth policy REGENERATED from src/impl/helpers.rs on this run *)
Theorem C01_every_history_refines_the_list_model_regenerated_policy :
  forall cfg, cfg_ok cfg -> needs_drop cfg = true ->
  forall v os s l,
  vacc cfg s v l -> Forall rop_ok os ->
  post (run_rops cfg (ncap_of cfg) v os s)
       (fun _ s' => exists l', rsteps os l l' /\ vacc cfg s' v l')
       (fun _ => False).
Proof. intros cfg Hc Hd. exact (history_refines_list_spec cfg (ncap_of cfg) Hc (ncap_policy cfg) Hd). Qed.

(* the list model itself, spelled out: what each call does to the list when it returns (true) and
   when it panics (false) *)
Theorem C01_list_model :
  forall o c l l', rstep o c l l' <->
    match o, c with
    | RPush _, true => exists e, ~ In e l /\ l' = l ++ [e]
    | RPush _, false => l' = l
    | RInsert i _, true => exists e, ~ In e l /\ (Z.to_nat i <= List.length l)%nat /\ l' = firstn (Z.to_nat i) l ++ e :: skipn (Z.to_nat i) l
    | RInsert i _, false => l' = l
    | RPop, true => l' = removelast l
    | RPop, false => False
    | RRemove i, true => (Z.to_nat i < List.length l)%nat /\ l' = firstn (Z.to_nat i) l ++ skipn (S (Z.to_nat i)) l
    | RRemove i, false => (List.length l <= Z.to_nat i)%nat /\ l' = l
    | RSwapRemove i, true => (Z.to_nat i < List.length l)%nat /\ l' = swap_delete (Z.to_nat i) l
    | RSwapRemove i, false => (List.length l <= Z.to_nat i)%nat /\ l' = l
    | RTruncate n, _ => l' = firstn (Z.to_nat n) l
    | RCap _, _ => l' = l
    end.
Proof. intros [p|i p| |i|i|n|o] [|] l l'; simpl; unfold delete_at, list_insert; tauto. Qed.

(* the values handed back are the list's *)
Theorem C01_pop_returns_the_last_element :
  forall cfg (ncap : Z -> option Z), cfg_ok cfg -> needs_drop cfg = true -> forall s v l,
  vabs cfg s v l ->
  post (pop cfg v s)
    (fun r s' => (l = [] /\ r = None /\ vabs cfg s' v [] /\ s' = s) \/
                 (exists l0 x, l = l0 ++ [x] /\ r = Some x /\ vabs cfg s' v l0 /\ ledger s' x = Out /\ only_changes s s' [x]))
    (fun _ => False).
Proof. intros cfg ncap. exact (pop_abs cfg ncap). Qed.

Theorem C01_remove_returns_the_indexed_element :
  forall cfg, cfg_ok cfg -> needs_drop cfg = true -> forall s v l idx,
  vabs cfg s v l -> 0 <= idx ->
  post (remove cfg v idx s)
    (fun r s' => nth_error l (Z.to_nat idx) = Some r /\ vabs cfg s' v (delete_at (Z.to_nat idx) l) /\ ledger s' r = Out /\ only_changes s s' [r])
    (fun s' => Z.of_nat (List.length l) <= idx /\ s' = s).
Proof. exact remove_abs. Qed.

(* swap_remove(i): element i is handed back, the last element takes its place *)
Theorem C01_swap_remove_moves_the_last_element_into_the_hole :
  forall cfg, cfg_ok cfg -> needs_drop cfg = true -> forall s v l idx,
  vabs cfg s v l -> 0 <= idx ->
  post (swap_remove cfg v idx s)
    (fun r s' => nth_error l (Z.to_nat idx) = Some r /\ vabs cfg s' v (swap_delete (Z.to_nat idx) l) /\ ledger s' r = Out /\ only_changes s s' [r])
    (fun s' => Z.of_nat (List.length l) <= idx /\ s' = s).
Proof. exact swap_remove_abs. Qed.

Theorem C01_swap_delete_is_what_it_says :
  forall i l x, nth_error l i = Some x ->
  (forall k, (k < List.length l - 1)%nat ->
     nth_error (swap_delete i l) k = if Nat.eqb k i then nth_error l (List.length l - 1) else nth_error l k) /\
  List.length (swap_delete i l) = (List.length l - 1)%nat.
Proof. exact swap_delete_nth. Qed.

(* insert(i, x) for any capacity state (growing when full) *)
Theorem C01_insert_any_capacity :
  forall cfg ncap, cfg_ok cfg -> policy_ok ncap -> needs_drop cfg = true -> forall s v l idx e,
  vabs cfg s v l -> ledger s e = Live -> ~ In e l -> e < next_elem s -> 0 <= idx ->
  post (insert cfg ncap v idx e s)
    (fun _ s' => idx <= Z.of_nat (List.length l) /\ vabs cfg s' v (list_insert (Z.to_nat idx) e l) /\ only_changes s s' [])
    (fun s' => vabs cfg s' v l /\ ledger s' e = Dropped /\ only_changes s s' [e]).
Proof. exact insert_abs. Qed.

(* the premises are satisfiable: a freshly created vector abstracts to the empty list *)
Example C01_new_vector_is_the_empty_list :
  forall cfg s v, vec_sentinel s v -> next_elem s = 0 -> vacc cfg s v [].
Proof. intros cfg s v H H0. split; [left; split; [exact H|reflexivity]|]. split; [lia|]. intros e He. lia. Qed.

Print Assumptions C01_every_history_refines_the_list_model.
Print Assumptions C01_pop_returns_the_last_element.
Print Assumptions C01_remove_returns_the_indexed_element.
Print Assumptions C01_swap_remove_moves_the_last_element_into_the_hole.
Print Assumptions C01_insert_any_capacity.

(* append(&mut self, other): from EVERY pair of storage states (each of the two never allocated,
   empty, full, with spare capacity ...): self holds its elements followed by other's, in order; other
   is empty; no element is created, destroyed or duplicated (the ledger is untouched); a refused
   reservation (capacity overflow) leaves both vectors exactly as they were *)
Theorem C01_append_is_list_concatenation :
  forall cfg ncap, cfg_ok cfg -> policy_ok ncap ->
  forall s v o lv lo,
  vabs cfg s v lv -> vabs cfg s o lo -> v <> o ->
  (forall bv blv bo blo, vec_at s v bv blv -> vec_at s o bo blo -> bv <> bo) ->
  NoDup (lv ++ lo) ->
  post (append cfg ncap v o s)
    (fun _ s' => vabs cfg s' v (lv ++ lo) /\ vabs cfg s' o [] /\ only_changes s s' [])
    (fun s' => s' = s).
Proof. exact append_abs. Qed.
Print Assumptions C01_append_is_list_concatenation.

(* extend(iter) with ANY iterator script -- yields a fresh element / ends / panics, in any order (the
   loop never trusts a size hint): the vector is its old contents followed by the elements yielded
   before the first None (or before the panic), in order, each held exactly once; an element whose
   push is refused is destroyed; no pre-existing element is touched.  `yields sc` = (how many
   elements come before the end or the panic, does it panic). *)
Theorem C01_extend_any_iterator :
  forall cfg ncap, cfg_ok cfg -> policy_ok ncap -> needs_drop cfg = true ->
  forall s v l sc,
  vabs cfg s v l ->
  let '(n, p) := yields sc in
  post (extend cfg ncap v sc s)
    (fun _ s' => p = false /\ vabs cfg s' v (l ++ zseq (next_elem s) n) /\ next_elem s' = next_elem s + Z.of_nat n /\
                 (forall e, e < next_elem s -> ledger s' e = ledger s e))
    (fun s' => exists k, (k <= n)%nat /\ vabs cfg s' v (l ++ zseq (next_elem s) k) /\
                         (forall e, e < next_elem s -> ledger s' e = ledger s e) /\
                         next_elem s <= next_elem s' /\
                         (forall e, next_elem s <= e < next_elem s' ->
                                    In e (zseq (next_elem s) k) \/ ledger s' e = Dropped)).
Proof. exact extend_abs. Qed.
Print Assumptions C01_extend_any_iterator.

(* extend_from_slice(&[T]) -- the route of From<&[T]> and of IntoIter::clone (which clones
   `as_slice()` into a new vector): the vector is its old contents followed by one NEW element per
   source element, in order, with the source's payload (T::clone ran once per element); the sources
   and every element that existed before are untouched; a panic (capacity overflow) leaves the old
   contents plus the clones made so far *)
Theorem C01_extend_from_slice_clones_each_element_once :
  forall cfg ncap, cfg_ok cfg -> policy_ok ncap -> needs_drop cfg = true ->
  forall s w l src,
  vabs cfg s w l -> cloneable s src ->
  post (extend_from_slice cfg ncap w src s)
    (fun _ s' =>
       vabs cfg s' w (l ++ zseq (next_elem s) (List.length src)) /\
       next_elem s' = next_elem s + Z.of_nat (List.length src) /\
       (forall e, e < next_elem s -> ledger s' e = ledger s e /\ payload s' e = payload s e) /\
       (forall j, (j < List.length src)%nat -> payload s' (next_elem s + Z.of_nat j) = payload s (nth j src 0)))
    (fun s' => exists k, (k <= List.length src)%nat /\ vabs cfg s' w (l ++ zseq (next_elem s) k) /\
                         (forall e, e < next_elem s -> ledger s' e = ledger s e)).
Proof. exact extend_from_slice_abs. Qed.
Print Assumptions C01_extend_from_slice_clones_each_element_once.

(* split_off(at) for 0 < at <= len (at > len is rejected: C11; at = 0 and the empty vector hand the
   buffer over / allocate an empty one: by correspondence): self keeps the first `at` elements, the
   new vector holds the rest, in order, in a block of its own; the ledger is untouched *)
Theorem C01_split_off_splits_the_list :
  forall cfg (ncap : Z -> option Z), cfg_ok cfg -> forall s v o b bl at_,
  vec_at s v b bl -> block_ok cfg bl -> owned s bl -> v <> o ->
  0 < at_ <= h_len bl ->
  post (split_off cfg v o at_ s)
    (fun _ s' => vabs cfg s' v (firstn (Z.to_nat at_) (velems bl)) /\ vabs cfg s' o (skipn (Z.to_nat at_) (velems bl)) /\
                 only_changes s s' [] /\
                 (forall bv blv bo blo, vec_at s' v bv blv -> vec_at s' o bo blo -> bv <> bo))
    (fun _ => True).
Proof. exact split_off_middle. Qed.
Print Assumptions C01_split_off_splits_the_list.

(* retain(pred) against the list model: on a normal return the vector IS the sub-list the predicate
   accepted, in order (rspec = the scripted List.filter; C17_retain_without_panics_is_filter), the
   rejected elements are destroyed exactly once and nothing else changes; the panic cases are in the
   post-condition too (C17 states them in words) *)
Theorem C01_retain_is_filter :
  forall cfg, cfg_ok cfg -> needs_drop cfg = true -> forall s v l sc,
  vabs cfg s v l ->
  let '(k, j, p, u) := rspec l sc in
  post (retain cfg v sc s)
    (fun _ s' => p = false /\ vabs cfg s' v k /\ (forall e, In e j -> ledger s' e = Dropped) /\
                 (forall e, ~ In e j -> ledger s' e = ledger s e) /\ next_elem s' = next_elem s)
    (fun s' => next_elem s' = next_elem s /\
               ((p = true /\ exists l', Permutation l' l /\ vabs cfg s' v l' /\ ledger s' = ledger s) \/
                (p = false /\ vabs cfg s' v k /\ (forall e, In e j -> ledger s' e = Dropped) /\
                 (forall e, ~ In e j -> ledger s' e = ledger s e)))).
Proof. exact retain_abs. Qed.
Print Assumptions C01_retain_is_filter.

(* The history theorem with the closure-driven bulk operations: EVERY sequence of push / insert / pop /
   remove / swap_remove / truncate / capacity operations / retain(any predicate script) /
   extend(any iterator script), any arguments, any panicking destructors, each panic caught: no
   undefined behaviour, no hang, and the contents follow the list specification `hsteps`
   (retain: the accepted sub-list, or a permutation if the predicate panicked; extend: the old
   contents followed by fresh distinct elements, all n of them unless something panicked);
   every element ever created stays accounted for. *)
Theorem C01_histories_with_retain_and_extend_refine_the_list_model :
  forall cfg ncap, cfg_ok cfg -> policy_ok ncap -> needs_drop cfg = true ->
  forall v os s l,
  vacc cfg s v l -> Forall hop_ok os ->
  post (run_hops cfg ncap v os s) (fun _ s' => exists l', hsteps os l l' /\ vacc cfg s' v l') (fun _ => False).
Proof. exact history_refines_list_spec_bulk. Qed.
Print Assumptions C01_histories_with_retain_and_extend_refine_the_list_model.
(* (the premise vacc is satisfiable: C01_new_vector_is_the_empty_list above) *)

(* drain(range) end to end against the list model: create the Drain over l[a..e), step it from either
   end in ANY interleaving of ANY length, the caller takes what was yielded, drop the iterator with
   ANY set of panicking destructors.  The yielded sequence is that of the double-ended cursor over
   l[a..e) (`cursor`, Proofs/DrainIt.v); afterwards the vector is l[..a) ++ l[e..) -- on the normal
   and on the panicking exit. *)
Theorem C01_drain_is_the_list_drain :
  forall cfg ncap, cfg_ok cfg -> needs_drop cfg = true ->
  forall s v b bl bs be a e steps tmp,
  vec_at s v b bl -> block_ok cfg bl -> owned s bl ->
  resolve_pure bs be (h_len bl) = Some (a, e) -> 0 <= a ->
  let l := velems bl in
  let w := skipn (Z.to_nat a) (firstn (Z.to_nat e) l) in
  let Q := fun s' =>
    vabs cfg s' v (firstn (Z.to_nat a) l ++ skipn (Z.to_nat e) l) /\
    (forall x, In x (somes (fst (cursor w steps))) -> ledger s' x = Out) /\
    (forall x, In x (snd (cursor w steps)) -> ledger s' x = Dropped) /\
    (forall x, ~ In x w -> ledger s' x = ledger s x) /\ next_elem s' = next_elem s in
  post (drain_whole cfg ncap v bs be steps tmp s) (fun r s' => r = fst (cursor w steps) /\ Q s') Q.
Proof. exact drain_abs. Qed.
Print Assumptions C01_drain_is_the_list_drain.

(* resize(new_len, value) against the list model: shorter => the prefix, the cut elements destroyed;
   longer => the old contents followed by new_len - len NEW elements with value's payload; in every case
   the by-value argument is destroyed exactly once at the end, also when the call unwinds (the panic
   post-condition: the vector is the prefix, or the old contents plus the clones made so far).
   (The count is at most 10^6 here: the machine's loop bound, far above what the correspondence runs.) *)
Theorem C01_resize_is_the_list_resize :
  forall cfg ncap, cfg_ok cfg -> policy_ok ncap -> needs_drop cfg = true ->
  forall s v l value n,
  vabs cfg s v l -> ledger s value = Live -> value < next_elem s -> ~ In value l ->
  mem value (clone_panics s) = false ->
  0 <= n -> n - Z.of_nat (List.length l) <= 1000000 ->
  let L := Z.of_nat (List.length l) in
  post (resize cfg ncap v n value s)
    (fun _ s' =>
       ledger s' value = Dropped /\
       if n <=? L
       then vabs cfg s' v (firstn (Z.to_nat n) l) /\
            (forall e, In e (skipn (Z.to_nat n) l) -> ledger s' e = Dropped) /\ next_elem s' = next_elem s
       else vabs cfg s' v (l ++ zseq (next_elem s) (Z.to_nat (n - L))) /\
            next_elem s' = next_elem s + (n - L) /\
            (forall j, (j < Z.to_nat (n - L))%nat -> payload s' (next_elem s + Z.of_nat j) = payload s value) /\
            (forall e, In e l -> ledger s' e = ledger s e))
    (fun s' => exists l', vabs cfg s' v l' /\
                          (l' = firstn (Z.to_nat n) l \/
                           exists k, (k <= Z.to_nat (n - L))%nat /\ l' = l ++ zseq (next_elem s) k)).
Proof. exact resize_abs. Qed.
Print Assumptions C01_resize_is_the_list_resize.

(* the premise of the translator tie EquivResize.resize_equiv is met wherever the resize theorem applies *)
Theorem C01_resize_body_never_runs_out_of_fuel :
  forall cfg ncap, cfg_ok cfg -> policy_ok ncap -> needs_drop cfg = true ->
  forall s v l value n,
  vabs cfg s v l -> ledger s value = Live -> value < next_elem s -> ~ In value l ->
  mem value (clone_panics s) = false ->
  0 <= n -> n - Z.of_nat (List.length l) <= 1000000 ->
  fst (resize_body cfg ncap v n value s) <> OutOfFuel.
Proof. exact resize_body_fuel. Qed.
Print Assumptions C01_resize_body_never_runs_out_of_fuel.

(* END TO END for push and pop: the REGENERATED bodies (re-translated from /repo/src/lib.rs on every run),
   evaluated by the IR semantics in the machine world with the function-boundary semantics (a by-value
   element parameter is dropped when the body unwinds; a returned element changes owner), in terms of the
   list model.  No outcome other than the listed ones is possible. *)
Theorem C01_the_source_of_push_appends :
  forall cfg ncap, cfg_ok cfg -> policy_ok ncap -> needs_drop cfg = true ->
  forall s v l e,
  vabs cfg s v l -> ledger s e = Live -> ~ In e l -> e < next_elem s ->
  match param_dropped_on_unwind cfg e (runm cfg ncap lib__MiniVec__push_ast [VObj v; VInt e]) s with
  | (Norm _, s') => vabs cfg s' v (l ++ [e]) /\ only_changes s s' []
  | (Panic, s') => vabs cfg s' v l /\ ledger s' e = Dropped /\ only_changes s s' [e]
  | (Fail FAbort, _) | (Fail (FAllocAbort _ _), _) => True
  | _ => False
  end.
Proof. exact push_source. Qed.
Theorem C01_the_source_of_pop_takes_the_last :
  forall cfg ncap, cfg_ok cfg -> needs_drop cfg = true ->
  forall s v l,
  vabs cfg s v l -> (Z.of_nat (List.length l) <= ISIZE_MAX) ->
  match returning cfg (runm cfg ncap lib__MiniVec__pop_ast [VObj v]) s with
  | (Norm r, s') =>
      (l = [] /\ r = opt_elem_val None /\ s' = s) \/
      (exists l0 x, l = l0 ++ [x] /\ r = opt_elem_val (Some x) /\ vabs cfg s' v l0 /\ ledger s' x = Out)
  | (Fail FAbort, _) | (Fail (FAllocAbort _ _), _) => True
  | _ => False
  end.
Proof. exact pop_source. Qed.
Print Assumptions C01_the_source_of_push_appends.
Print Assumptions C01_the_source_of_pop_takes_the_last.

(* END TO END for truncate, remove, swap_remove and insert: the regenerated bodies in terms of the list
   model (prefix / delete_at / swap_delete / list_insert), with their panics exactly where the list
   operation is undefined or the capacity computation refuses, and nothing changed then *)
Theorem C01_the_source_of_truncate_keeps_the_prefix :
  forall cfg ncap, cfg_ok cfg -> needs_drop cfg = true ->
  forall s v l n,
  vabs cfg s v l -> Z.of_nat (List.length l) <= ISIZE_MAX -> 0 <= n < W64 ->
  let Q := fun s' => vabs cfg s' v (firstn (Z.to_nat n) l) /\
                     (forall e, In e (skipn (Z.to_nat n) l) -> ledger s' e = Dropped) /\
                     only_changes s s' (skipn (Z.to_nat n) l) in
  match runm cfg ncap lib__MiniVec__truncate_ast [VObj v; VInt n] s with
  | (Norm _, s') | (Panic, s') => Q s'
  | (Fail FAbort, _) | (Fail (FAllocAbort _ _), _) => True
  | _ => False
  end.
Proof. exact truncate_source. Qed.
Theorem C01_the_source_of_remove_deletes_at_the_index :
  forall cfg ncap, cfg_ok cfg -> needs_drop cfg = true ->
  forall s v l i,
  vabs cfg s v l -> Z.of_nat (List.length l) <= ISIZE_MAX -> 0 <= i < W64 ->
  match returning cfg (runm cfg ncap lib__MiniVec__remove_ast [VObj v; VInt i]) s with
  | (Norm r, s') => exists x, r = VInt x /\ nth_error l (Z.to_nat i) = Some x /\
                              vabs cfg s' v (delete_at (Z.to_nat i) l) /\ ledger s' x = Out
  | (Panic, s') => Z.of_nat (List.length l) <= i /\ s' = s
  | (Fail FAbort, _) | (Fail (FAllocAbort _ _), _) => True
  | _ => False
  end.
Proof. exact remove_source. Qed.
Theorem C01_the_source_of_swap_remove :
  forall cfg ncap, cfg_ok cfg -> needs_drop cfg = true ->
  forall s v l i,
  vabs cfg s v l -> Z.of_nat (List.length l) <= ISIZE_MAX -> 0 <= i < W64 ->
  match returning cfg (runm cfg ncap lib__MiniVec__swap_remove_ast [VObj v; VInt i]) s with
  | (Norm r, s') => exists x, r = VInt x /\ nth_error l (Z.to_nat i) = Some x /\
                              vabs cfg s' v (swap_delete (Z.to_nat i) l) /\ ledger s' x = Out
  | (Panic, s') => Z.of_nat (List.length l) <= i /\ s' = s
  | (Fail FAbort, _) | (Fail (FAllocAbort _ _), _) => True
  | _ => False
  end.
Proof. exact swap_remove_source. Qed.
Theorem C01_the_source_of_insert :
  forall cfg ncap, cfg_ok cfg -> policy_ok ncap -> needs_drop cfg = true ->
  forall s v l i e,
  vabs cfg s v l -> Z.of_nat (List.length l) <= ISIZE_MAX -> 0 <= i < W64 ->
  ledger s e = Live -> ~ In e l -> e < next_elem s ->
  match param_dropped_on_unwind cfg e (runm cfg ncap lib__MiniVec__insert_ast [VObj v; VInt i; VInt e]) s with
  | (Norm _, s') => i <= Z.of_nat (List.length l) /\ vabs cfg s' v (list_insert (Z.to_nat i) e l) /\ only_changes s s' []
  | (Panic, s') => vabs cfg s' v l /\ ledger s' e = Dropped /\ only_changes s s' [e]
  | (Fail FAbort, _) | (Fail (FAllocAbort _ _), _) => True
  | _ => False
  end.
Proof. exact insert_source. Qed.
Print Assumptions C01_the_source_of_truncate_keeps_the_prefix.
Print Assumptions C01_the_source_of_remove_deletes_at_the_index.
Print Assumptions C01_the_source_of_swap_remove.
Print Assumptions C01_the_source_of_insert.

(* END TO END for extend(iter): `for x in iter { self.push(x) }` as the translator renders a `for` loop
   (hidden iterator, flag, statement-level `if` on `next`), the iterator being ANY script of the world:
   tie (EquivExtend.v, induction over the machine's fuel) and theorem composed *)
Theorem C01_the_source_of_extend_any_iterator :
  forall cfg ncap, cfg_ok cfg -> policy_ok ncap -> needs_drop cfg = true ->
  forall s v l sc F,
  vabs cfg s v l -> (S (List.length sc) <= F)%nat ->
  let '(n, p) := yields sc in
  match run_extend cfg ncap (FUEL + F) v sc s with
  | (Norm _, s') =>
      p = false /\ vabs cfg s' v (l ++ zseq (next_elem s) n) /\ next_elem s' = next_elem s + Z.of_nat n /\
      (forall e, e < next_elem s -> ledger s' e = ledger s e)
  | (Panic, s') =>
      exists k, (k <= n)%nat /\ vabs cfg s' v (l ++ zseq (next_elem s) k) /\
                (forall e, e < next_elem s -> ledger s' e = ledger s e) /\
                next_elem s <= next_elem s' /\
                (forall e, next_elem s <= e < next_elem s' ->
                           In e (zseq (next_elem s) k) \/ ledger s' e = Dropped)
  | (Fail FAbort, _) | (Fail (FAllocAbort _ _), _) => True
  | _ => False
  end.
Proof. exact extend_source. Qed.
Print Assumptions C01_the_source_of_extend_any_iterator.

(* END TO END for FromIterator::from_iter over ANY iterator script: a NEW vector holding exactly the
   elements yielded before the first None, in order; nothing that existed before is touched, also when
   the iterator or a push panics *)
Theorem C01_the_source_of_from_iter_collects_what_the_iterator_yields :
  forall cfg ncap, cfg_ok cfg -> policy_ok ncap -> needs_drop cfg = true ->
  forall s sc F,
  (S (List.length sc) <= F)%nat ->
  let '(n, p) := yields sc in
  match run_from_iter cfg ncap (FUEL + F) sc s with
  | (Norm r, s') =>
      p = false /\ r = VObj (List.length (vecs s)) /\
      vabs cfg s' (List.length (vecs s)) (zseq (next_elem s) n) /\
      next_elem s' = next_elem s + Z.of_nat n /\
      (forall e, e < next_elem s -> ledger s' e = ledger s e)
  | (Panic, s') => forall e, e < next_elem s -> ledger s' e = ledger s e
  | (Fail FAbort, _) | (Fail (FAllocAbort _ _), _) => True
  | _ => False
  end.
Proof. exact from_iter_source. Qed.
Print Assumptions C01_the_source_of_from_iter_collects_what_the_iterator_yields.
