(* Proofs/Life.v -- the whole life of a vector: created empty, ANY history of operations, dropped.
   At the end every element that was ever created has been handed to the caller or destroyed --
   nothing is lost, and (no undefined behaviour) nothing is destroyed or handed out twice -- and the
   block has been given back to the allocator with exactly its layout (or is leaked, when an element
   destructor panicked during the drop: only a leak). *)
From Coq Require Import ZArith List Bool Lia Permutation.
From MV Require Import Ast Eval Scalar Machine.
From MV.Proofs Require Import Arith Logic Prim View OpsLocal Guards Grow CapHistory Drops Retain Sentinel Core Refine DrainIt IntoIt.
Import ListNotations.
Open Scope Z_scope.

Section Life.
  Variable cfg : tcfg.
  Variable ncap : Z -> option Z.
  Hypothesis Hcfg : cfg_ok cfg.
  Hypothesis Hpol : policy_ok ncap.
  Hypothesis Htracked : needs_drop cfg = true.

  Local Notation vabs := (vabs cfg).
  Local Notation vacc := (vacc cfg).

  (* what dropping the vector leaves behind *)
  Record dropped_all (s s' : state) (v : nat) (l : list elem) : Prop := {
    da_dropped : forall e, In e l -> ledger s' e = Dropped;
    da_others : only_changes s s' l;
    da_name : nth_error (vecs s') v = Some None }.

  Lemma set_handle_none s v : exists s', set_handle v None s = (Val tt, s') /\ ledger s' = ledger s /\
    next_elem s' = next_elem s /\ heap s' = heap s /\ events s' = events s /\ nth_error (vecs s') v = Some None.
  Proof.
    eexists. split; [reflexivity|]. simpl. repeat split. apply list_put_same.
  Qed.

  Lemma drop_vec_abs s v l : vabs s v l ->
    post (drop_vec cfg v s)
      (fun _ s' => dropped_all s s' v l /\
                   (vec_sentinel s v /\ heap s' = heap s /\ events s' = events s \/
                    exists b bl, vec_at s v b bl /\ nth_error (heap s') b = Some (kill bl) /\
                                 exists evs, events s' = EvDealloc (b_size bl) (b_align bl) :: evs))
      (fun s' => dropped_all s s' v l /\ heap s' = heap s /\ l <> []).
  Proof.
    intros [[Hs ->]|(b & bl & Hv & Hb & Ho & Hl)].
    - (* never allocated: nothing to destroy, nothing to free *)
      unfold drop_vec, try_finally, drop_body.
      rewrite (bind_val _ _ _ _ _ (sn_is_default s v Hs)). cbn [ret].
      destruct (set_handle_none s v) as (s' & E & H1 & H2 & H3 & H4 & H5). rewrite E. simpl.
      split; [|left; auto].
      constructor; [intros e []| |exact H5]. split; [exact H2|]. intros e _. rewrite H1. reflexivity.
    - pose proof (bo_len _ _ Hb) as Hlen.
      unfold drop_vec.
      destruct (data_at cfg _ _ _ _ Hcfg Hv Hb) as (off & Hco & Hd).
      assert (Hread : read_list cfg (PElt b off 0) (h_len bl) s = (Val (velems bl), s)).
      { rewrite (read_list_at cfg Hcfg s b bl off 0 (h_len bl) (proj2 Hv) Hb Hco); try lia.
        - replace (h_len bl) with (h_len bl - 0) at 1 by lia.
          rewrite (slice_elems_view (slots bl) 0 (h_len bl)) by lia. reflexivity.
        - intros k Hk. apply (ow_init _ _ Ho). lia. }
      set (Q1 := fun (_ : unit) (s1 : state) =>
                   (forall e, In e l -> ledger s1 e = Dropped) /\ only_changes s s1 l /\ vecs s1 = vecs s /\
                   nth_error (heap s1) b = Some (kill bl) /\
                   exists evs, events s1 = EvDealloc (b_size bl) (b_align bl) :: evs).
      set (Qp1 := fun (s1 : state) =>
                   (forall e, In e l -> ledger s1 e = Dropped) /\ only_changes s s1 l /\ vecs s1 = vecs s /\
                   heap s1 = heap s /\ l <> []).
      assert (HA : post (drop_body cfg v s) Q1 Qp1).
      { unfold drop_body.
        rewrite (bind_val _ _ _ _ _ (is_default_at _ _ _ _ Hv)).
        assert (Hx : (h <- vec_handle v ;; hdr_block h) s = (Val (b, bl), s)).
        { rewrite (bind_val _ _ _ _ _ (vec_handle_at _ _ _ _ Hv)). apply (hdr_block_at cfg _ _ _ _ Hcfg Hv Hb). }
        rewrite (bind_val _ _ _ _ _ Hx). cbn [snd].
        rewrite (bind_val _ _ _ _ _ Hd). rewrite (bind_val _ _ _ _ _ Hread). rewrite Hl.
        assert (Hdl : post (drop_list cfg l s) (fun _ s1 => destroyed s s1 l) (fun s1 => destroyed s s1 l /\ l <> [])).
        { destruct l as [|e0 l0].
          - simpl. apply destroyed_nil.
          - eapply post_weaken; [apply (drop_list_spec cfg Htracked (e0 :: l0) s)| |].
            + rewrite <- Hl. exact (ow_nodup _ _ Ho).
            + rewrite <- Hl. exact (ow_live _ _ Ho).
            + intros u s1 H. exact H.
            + intros s1 H. split; [exact H|discriminate]. }
        eapply post_bind.
        - eapply post_weaken; [exact Hdl| |].
          + intros u s1 H. exact H.
          + intros s1 [Hds Hne]. unfold Qp1. split; [exact (ds_in _ _ _ Hds)|]. split.
            * split; [exact (ds_next _ _ _ Hds)|exact (ds_out _ _ _ Hds)].
            * split; [exact (ds_vecs _ _ _ Hds)|]. split; [exact (ds_heap _ _ _ Hds)|exact Hne].
        - intros u s1 Hds.
          rewrite (bo_layout _ _ Hb). rewrite lift_opt_some, bind_ret. cbn [fst snd].
          assert (Hvh1 : vec_handle v s1 = (Val (At b 0), s1)).
          { unfold vec_handle. rewrite (ds_vecs _ _ _ Hds), (proj1 Hv). reflexivity. }
          rewrite (bind_val _ _ _ _ _ Hvh1).
          unfold do_dealloc. cbn [Z.eqb negb].
          assert (Hg : get_block b s1 = (Val bl, s1)).
          { apply get_block_at; [rewrite (ds_heap _ _ _ Hds); exact (proj2 Hv)|exact (bo_live _ _ Hb)]. }
          rewrite (bind_val _ _ _ _ _ Hg). rewrite !Z.eqb_refl. cbn [andb negb].
          simpl. unfold Q1. simpl.
          split; [exact (ds_in _ _ _ Hds)|]. split.
          { split; [exact (ds_next _ _ _ Hds)|exact (ds_out _ _ _ Hds)]. }
          split; [exact (ds_vecs _ _ _ Hds)|]. split.
          { apply list_set_same. rewrite (ds_heap _ _ _ Hds). apply nth_error_Some. rewrite (proj2 Hv). discriminate. }
          eexists. reflexivity. }
      eapply post_try_finally; [exact HA| |].
      + intros u s1 (H1 & H2 & H3 & H4 & evs & H5).
        destruct (set_handle_none s1 v) as (s2 & E & G1 & G2 & G3 & G4 & G5). rewrite E. simpl.
        split.
        * constructor; [intros e He; rewrite G1; exact (H1 e He)| |exact G5].
          destruct H2 as [Hn Hled]. split; [congruence|]. intros e He. rewrite G1. exact (Hled e He).
        * right. exists b, bl. split; [exact Hv|]. split; [rewrite G3; exact H4|]. exists evs. rewrite G4. exact H5.
      + intros s1 (H1 & H2 & H3 & H4 & Hne).
        destruct (set_handle_none s1 v) as (s2 & E & G1 & G2 & G3 & G4 & G5). rewrite E. simpl.
        split; [|split; [congruence|exact Hne]].
        constructor; [intros e He; rewrite G1; exact (H1 e He)| |exact G5].
        destruct H2 as [Hn Hled]. split; [congruence|]. intros e He. rewrite G1. exact (Hled e He).
  Qed.


  (* ------------------------------------------------------------------ the whole life *)
  Definition life (v : nat) (os : list rop) : M unit :=
    bind (run_rops cfg ncap v os) (fun _ => drop_vec cfg v).

  (* every element created so far has been handed out or destroyed *)
  Definition all_settled (s : state) : Prop := accounted s [].

  Theorem whole_life_nothing_lost v os s :
    vec_sentinel s v -> all_settled s -> Forall rop_ok os ->
    let Q := fun s' => all_settled s' /\ nth_error (vecs s') v = Some None in
    post (life v os s) (fun _ s' => Q s') Q.
  Proof.
    intros Hs Hacc Hargs Q. unfold life.
    eapply post_bind.
    - eapply post_weaken; [apply (history_refines_list_spec cfg ncap Hcfg Hpol Htracked v os s [])| |].
      + split; [left; auto|exact Hacc].
      + exact Hargs.
      + intros u s' H. exact H.
      + intros s' [].
    - intros u s' (l' & _ & Hab & Hac).
      assert (Hfin : forall s'', dropped_all s' s'' v l' -> Q s'').
      { intros s'' [H1 H2 H3]. split; [|exact H3].
        eapply acc_step; [exact Hac|exact H2| |].
        - intros e He. right. exact (H1 e He).
        - intros e He. right. exact He. }
      eapply post_weaken; [apply (drop_vec_abs s' v l' Hab)| |].
      + intros u' s'' [H _]. apply Hfin. exact H.
      + intros s'' (H & _ & _). apply Hfin. exact H.
  Qed.

  (* ------------------------------------------------------------------ dropping an IntoIter *)
  (* Drop for IntoIter at ANY point of its consumption, under ANY set of panicking destructors: every
     element it still holds is destroyed (once), nothing else is touched, and the block is given back
     to the allocator with its layout -- ALSO when a destructor panics (the length is cut to 0 before
     the elements are dropped, and the embedded vector is dropped by the unwinding). *)
  Lemma into_drop_spec s it b bl off p :
    into_inv cfg s it b bl off p ->
    NoDup (remaining bl p) -> (forall e, In e (remaining bl p) -> ledger s e = Live) ->
    let Q := fun s' =>
      (forall e, In e (remaining bl p) -> ledger s' e = Dropped) /\
      only_changes s s' (remaining bl p) /\
      nth_error (vecs s') (i_vec it) = Some None /\
      nth_error (heap s') b = Some (kill (with_hdr bl 0 (h_cap bl) (h_align bl))) /\
      exists evs, events s' = EvDealloc (b_size bl) (b_align bl) :: evs in
    post (into_drop cfg it s) (fun _ s' => Q s') Q.
  Proof.
    intros [Hv Hb Hco Hp Hbd Hi] Hnd Hlive Q.
    pose proof (bo_len _ _ Hb) as Hlen.
    unfold into_drop. rewrite (bind_val _ _ _ _ _ (is_default_at _ _ _ _ Hv)).
    set (bl0 := with_hdr bl 0 (h_cap bl) (h_align bl)).
    set (s1 := upd_block s b bl0).
    assert (Hb0 : block_ok cfg bl0) by (apply block_ok_with_len; [exact Hb|lia]).
    assert (Hv1 : vec_at s1 (i_vec it) b bl0) by (apply vec_at_upd with (bl := bl); exact Hv).
    assert (Hread : read_list cfg (i_pos it) (h_len bl) s1 = (Val (remaining bl p), s1)).
    { rewrite Hp. rewrite (read_list_at cfg Hcfg s1 b bl0 off p (h_len bl) (proj2 Hv1) Hb0 Hco); try lia; [unfold remaining, window; replace (p + h_len bl - p) with (h_len bl) by lia; reflexivity| |].
      - simpl. lia.
      - intros k Hk. simpl. apply Hi. exact Hk. }
    (* the body: len, set_len 0, read, drop *)
    assert (HA : post (into_drop_body cfg it s)
                      (fun _ s2 => destroyed s1 s2 (remaining bl p)) (fun s2 => destroyed s1 s2 (remaining bl p))).
    { unfold into_drop_body. rewrite (bind_val _ _ _ _ _ (is_default_at _ _ _ _ Hv)).
      rewrite (bind_val _ _ _ _ _ (len_at cfg _ _ _ _ Hcfg Hv Hb)).
      rewrite (bind_val _ _ _ _ _ (set_len_at cfg s (i_vec it) b bl 0 Hcfg Hv Hb)). fold bl0. fold s1.
      rewrite (bind_val _ _ _ _ _ Hread).
      apply (drop_list_spec cfg Htracked); [exact Hnd|exact Hlive]. }
    (* the cleanup: the embedded vector (now of length 0) is dropped *)
    assert (HB : forall s2, destroyed s1 s2 (remaining bl p) -> post (drop_vec cfg (i_vec it) s2) (fun _ s' => Q s') (fun _ => False)).
    { intros s2 Hds.
      assert (Hv2 : vec_at s2 (i_vec it) b bl0).
      { destruct Hv1 as [A B]. split; [rewrite (ds_vecs _ _ _ Hds); exact A|rewrite (ds_heap _ _ _ Hds); exact B]. }
      assert (Hab : vabs s2 (i_vec it) []).
      { right. exists b, bl0. split; [exact Hv2|]. split; [exact Hb0|]. split; [|reflexivity].
        constructor; simpl; [intros i Hi0; lia|constructor|intros e []|intros e []]. }
      eapply post_weaken; [apply (drop_vec_abs s2 (i_vec it) [] Hab)| |intros s3 (_ & _ & Hne); apply Hne; reflexivity].
      intros u s3 [[_ [Hn3 Hl3] Hname] Hblk]. unfold Q.
      split; [intros e He; rewrite (Hl3 e ltac:(intros [])); exact (ds_in _ _ _ Hds e He)|].
      split.
      { split; [rewrite Hn3, (ds_next _ _ _ Hds); reflexivity|].
        intros e He. rewrite (Hl3 e ltac:(intros [])). rewrite (ds_out _ _ _ Hds e He). reflexivity. }
      split; [exact Hname|].
      destruct Hblk as [(Hsn & _)|(b' & bl' & Hv' & Hk & evs & Hev)].
      - exfalso. unfold vec_sentinel in Hsn. destruct Hv2 as [A _]. congruence.
      - destruct Hv' as [A B], Hv2 as [A2 B2]. assert (b' = b) by congruence. subst b'.
        assert (bl' = bl0) by congruence. subst bl'. split; [exact Hk|]. exists evs. exact Hev. }
    eapply post_try_finally; [exact HA| |].
    - intros u s2 Hds. eapply post_weaken; [apply (HB s2 Hds)|auto|intros s3 []].
    - intros s2 Hds. eapply post_weaken; [apply (HB s2 Hds)|auto|intros s3 []].
  Qed.
End Life.
