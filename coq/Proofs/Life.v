(* Proofs/Life.v -- the whole life of a vector: created empty, ANY history of operations, dropped.
   At the end every element that was ever created has been handed to the caller or destroyed --
   nothing is lost, and (no undefined behaviour) nothing is destroyed or handed out twice -- and the
   block has been given back to the allocator with exactly its layout (or is leaked, when an element
   destructor panicked during the drop: only a leak). *)
From Coq Require Import ZArith List Bool Lia Permutation.
From MV Require Import Ast Eval Scalar Machine.
From MV.Proofs Require Import Arith Logic Prim View OpsLocal Guards Grow CapHistory Drops Retain Sentinel Core Refine.
Import ListNotations.
Open Scope Z_scope.

Section Life.
  Variable cfg : tcfg.
  Variable ncap : Z -> option Z.
  Hypothesis Hcfg : cfg_ok cfg.
  Hypothesis Hpol : policy_ok ncap.
  Hypothesis Htracked : needs_drop cfg = true.

  Local Notation vabs := (vabs cfg).
  Local Notation vacc := (vacc cfg).

  (* what dropping the vector leaves behind *)
  Record dropped_all (s s' : state) (v : nat) (l : list elem) : Prop := {
    da_dropped : forall e, In e l -> ledger s' e = Dropped;
    da_others : only_changes s s' l;
    da_name : nth_error (vecs s') v = Some None }.

  Lemma set_handle_none s v : exists s', set_handle v None s = (Val tt, s') /\ ledger s' = ledger s /\
    next_elem s' = next_elem s /\ heap s' = heap s /\ events s' = events s /\ nth_error (vecs s') v = Some None.
  Proof.
    eexists. split; [reflexivity|]. simpl. repeat split. apply list_put_same.
  Qed.

  Lemma drop_vec_abs s v l : vabs s v l ->
    post (drop_vec cfg v s)
      (fun _ s' => dropped_all s s' v l /\
                   (vec_sentinel s v /\ heap s' = heap s /\ events s' = events s \/
                    exists b bl, vec_at s v b bl /\ nth_error (heap s') b = Some (kill bl) /\
                                 exists evs, events s' = EvDealloc (b_size bl) (b_align bl) :: evs))
      (fun s' => dropped_all s s' v l /\ heap s' = heap s).
  Proof.
    intros [[Hs ->]|(b & bl & Hv & Hb & Ho & Hl)].
    - (* never allocated: nothing to destroy, nothing to free *)
      unfold drop_vec, try_finally, drop_body.
      rewrite (bind_val _ _ _ _ _ (sn_is_default s v Hs)). cbn [ret].
      destruct (set_handle_none s v) as (s' & E & H1 & H2 & H3 & H4 & H5). rewrite E. simpl.
      split; [|left; auto].
      constructor; [intros e []| |exact H5]. split; [exact H2|]. intros e _. rewrite H1. reflexivity.
    - pose proof (bo_len _ _ Hb) as Hlen.
      unfold drop_vec.
      destruct (data_at cfg _ _ _ _ Hcfg Hv Hb) as (off & Hco & Hd).
      assert (Hread : read_list cfg (PElt b off 0) (h_len bl) s = (Val (velems bl), s)).
      { rewrite (read_list_at cfg Hcfg s b bl off 0 (h_len bl) (proj2 Hv) Hb Hco); try lia.
        - replace (h_len bl) with (h_len bl - 0) at 1 by lia.
          rewrite (slice_elems_view (slots bl) 0 (h_len bl)) by lia. reflexivity.
        - intros k Hk. apply (ow_init _ _ Ho). lia. }
      set (Q1 := fun (_ : unit) (s1 : state) =>
                   (forall e, In e l -> ledger s1 e = Dropped) /\ only_changes s s1 l /\ vecs s1 = vecs s /\
                   nth_error (heap s1) b = Some (kill bl) /\
                   exists evs, events s1 = EvDealloc (b_size bl) (b_align bl) :: evs).
      set (Qp1 := fun (s1 : state) =>
                   (forall e, In e l -> ledger s1 e = Dropped) /\ only_changes s s1 l /\ vecs s1 = vecs s /\
                   heap s1 = heap s).
      assert (HA : post (drop_body cfg v s) Q1 Qp1).
      { unfold drop_body.
        rewrite (bind_val _ _ _ _ _ (is_default_at _ _ _ _ Hv)).
        assert (Hx : (h <- vec_handle v ;; hdr_block h) s = (Val (b, bl), s)).
        { rewrite (bind_val _ _ _ _ _ (vec_handle_at _ _ _ _ Hv)). apply (hdr_block_at cfg _ _ _ _ Hcfg Hv Hb). }
        rewrite (bind_val _ _ _ _ _ Hx). cbn [snd].
        rewrite (bind_val _ _ _ _ _ Hd). rewrite (bind_val _ _ _ _ _ Hread). rewrite Hl.
        eapply post_bind.
        - eapply post_weaken; [apply (drop_list_spec cfg Htracked l s)| |].
          + rewrite <- Hl. exact (ow_nodup _ _ Ho).
          + rewrite <- Hl. exact (ow_live _ _ Ho).
          + intros u s1 H. exact H.
          + intros s1 Hds. unfold Qp1. split; [exact (ds_in _ _ _ Hds)|]. split.
            * split; [exact (ds_next _ _ _ Hds)|exact (ds_out _ _ _ Hds)].
            * split; [exact (ds_vecs _ _ _ Hds)|exact (ds_heap _ _ _ Hds)].
        - intros u s1 Hds.
          rewrite (bo_layout _ _ Hb). rewrite lift_opt_some, bind_ret. cbn [fst snd].
          assert (Hvh1 : vec_handle v s1 = (Val (At b 0), s1)).
          { unfold vec_handle. rewrite (ds_vecs _ _ _ Hds), (proj1 Hv). reflexivity. }
          rewrite (bind_val _ _ _ _ _ Hvh1).
          unfold do_dealloc. cbn [Z.eqb negb].
          assert (Hg : get_block b s1 = (Val bl, s1)).
          { apply get_block_at; [rewrite (ds_heap _ _ _ Hds); exact (proj2 Hv)|exact (bo_live _ _ Hb)]. }
          rewrite (bind_val _ _ _ _ _ Hg). rewrite !Z.eqb_refl. cbn [andb negb].
          simpl. unfold Q1. simpl.
          split; [exact (ds_in _ _ _ Hds)|]. split.
          { split; [exact (ds_next _ _ _ Hds)|exact (ds_out _ _ _ Hds)]. }
          split; [exact (ds_vecs _ _ _ Hds)|]. split.
          { apply list_set_same. rewrite (ds_heap _ _ _ Hds). apply nth_error_Some. rewrite (proj2 Hv). discriminate. }
          eexists. reflexivity. }
      eapply post_try_finally; [exact HA| |].
      + intros u s1 (H1 & H2 & H3 & H4 & evs & H5).
        destruct (set_handle_none s1 v) as (s2 & E & G1 & G2 & G3 & G4 & G5). rewrite E. simpl.
        split.
        * constructor; [intros e He; rewrite G1; exact (H1 e He)| |exact G5].
          destruct H2 as [Hn Hled]. split; [congruence|]. intros e He. rewrite G1. exact (Hled e He).
        * right. exists b, bl. split; [exact Hv|]. split; [rewrite G3; exact H4|]. exists evs. rewrite G4. exact H5.
      + intros s1 (H1 & H2 & H3 & H4).
        destruct (set_handle_none s1 v) as (s2 & E & G1 & G2 & G3 & G4 & G5). rewrite E. simpl.
        split; [|congruence].
        constructor; [intros e He; rewrite G1; exact (H1 e He)| |exact G5].
        destruct H2 as [Hn Hled]. split; [congruence|]. intros e He. rewrite G1. exact (Hled e He).
  Qed.


  (* ------------------------------------------------------------------ the whole life *)
  Definition life (v : nat) (os : list rop) : M unit :=
    bind (run_rops cfg ncap v os) (fun _ => drop_vec cfg v).

  (* every element created so far has been handed out or destroyed *)
  Definition all_settled (s : state) : Prop := accounted s [].

  Theorem whole_life_nothing_lost v os s :
    vec_sentinel s v -> all_settled s -> Forall rop_ok os ->
    let Q := fun s' => all_settled s' /\ nth_error (vecs s') v = Some None in
    post (life v os s) (fun _ s' => Q s') Q.
  Proof.
    intros Hs Hacc Hargs Q. unfold life.
    eapply post_bind.
    - eapply post_weaken; [apply (history_refines_list_spec cfg ncap Hcfg Hpol Htracked v os s [])| |].
      + split; [left; auto|exact Hacc].
      + exact Hargs.
      + intros u s' H. exact H.
      + intros s' [].
    - intros u s' (l' & _ & Hab & Hac).
      assert (Hfin : forall s'', dropped_all s' s'' v l' -> Q s'').
      { intros s'' [H1 H2 H3]. split; [|exact H3].
        eapply acc_step; [exact Hac|exact H2| |].
        - intros e He. right. exact (H1 e He).
        - intros e He. right. exact He. }
      eapply post_weaken; [apply (drop_vec_abs s' v l' Hab)| |].
      + intros u' s'' [H _]. apply Hfin. exact H.
      + intros s'' [H _]. apply Hfin. exact H.
  Qed.
End Life.
