(* Proofs/SplitOff.v -- split_off(at): two vectors.  From every storage state of self, for every
   argument: at > len panics and changes nothing; otherwise self keeps the first `at` elements and the
   returned vector holds the rest, in order, in storage of its own; no element is created, destroyed
   or duplicated. *)
From Coq Require Import ZArith List Bool Lia Permutation.
From MV Require Import Ast Eval Scalar Machine.
From MV.Proofs Require Import Arith Logic Prim View OpsLocal Guards Grow CapHistory Drops Retain Deref Sentinel Core Refine Clone Append.
Import ListNotations.
Open Scope Z_scope.

Section SplitOff.
  Variable cfg : tcfg.
  Variable ncap : Z -> option Z.
  Hypothesis Hcfg : cfg_ok cfg.
  Hypothesis Hpol : policy_ok ncap.

  Local Notation vabs := (vabs cfg).

  Definition unnamed (s : state) (o : nat) : Prop := forall h, nth_error (vecs s) o <> Some (Some h).

  (* reserve_exact(c) on a vector that has never allocated: a first block of capacity exactly c *)
  Lemma reserve_exact_sentinel s v c : vec_sentinel s v -> 0 < c < W64 ->
    post (reserve_exact cfg v c s)
      (fun _ s' => exists size, block_ok cfg (fresh_block size (max_align cfg) 0 c (max_align cfg)) /\
                                allocated s s' v (fresh_block size (max_align cfg) 0 c (max_align cfg)))
      (fun s' => s' = s).
  Proof.
    intros Hs Hc. destruct (sentinel_basics cfg s v Hs) as (Hl & Hcap & Hal). unfold reserve_exact.
    rewrite (bind_val _ _ _ _ _ Hcap), (bind_val _ _ _ _ _ Hl).
    unfold add_m, add_u. cbv zeta. rewrite Z.add_0_l.
    assert (E : (c <? W64) = true) by (apply Z.ltb_lt; lia). rewrite E.
    rewrite lift_opt_some, bind_ret.
    assert (E0 : (c <=? 0) = false) by (apply Z.leb_gt; lia). rewrite E0.
    rewrite (bind_val _ _ _ _ _ Hal).
    eapply post_weaken; [apply (grow_sentinel cfg ncap Hcfg s v c (max_align cfg) Hs ltac:(lia) (max_align_pow2 cfg Hcfg) ltac:(lia))| |].
    - intros u s' [(E' & _)|(size & _ & Hbn & Hall)]; [lia|]. exists size. auto.
    - intros s' [-> _]. reflexivity.
  Qed.

  (* a state in which o has just been named and is never-allocated, everything else as in s *)
  Lemma new_vec_spec s o :
    exists s1, new_vec cfg o s = (Val tt, s1) /\ vec_sentinel s1 o /\ heap s1 = heap s /\
               ledger s1 = ledger s /\ next_elem s1 = next_elem s /\
               (forall w h, w <> o -> nth_error (vecs s) w = Some (Some h) -> nth_error (vecs s1) w = Some (Some h)).
  Proof.
    unfold new_vec. assert (E : (esz cfg =? 0) = false) by (destruct Hcfg as ((He & _) & _); apply Z.eqb_neq; lia). rewrite E.
    eexists. split; [reflexivity|]. simpl. split; [apply list_put_same|]. repeat split.
    intros w h Hw Hh. apply flat_some. rewrite list_put_other by congruence. rewrite Hh. reflexivity.
  Qed.

  (* with_capacity(c) under a fresh name: never allocated when c = 0, else a first block of capacity c;
     every other vector and every block is where it was; a refused layout leaves the name unused *)
  Lemma with_capacity_fresh s o c :
    0 <= c < W64 ->
    post (with_capacity cfg o c s)
      (fun _ s' => ((c = 0 /\ vec_sentinel s' o) \/
                    (0 < c /\ exists size, let nbl := fresh_block size (max_align cfg) 0 c (max_align cfg) in
                               block_ok cfg nbl /\ vec_at s' o (List.length (heap s)) nbl)) /\
                   same_elems s s' /\
                   (forall b blk, nth_error (heap s) b = Some blk -> nth_error (heap s') b = Some blk) /\
                   (forall w h, w <> o -> nth_error (vecs s) w = Some (Some h) -> nth_error (vecs s') w = Some (Some h)))
      (fun _ => True).
  Proof.
    intros Hc. unfold with_capacity.
    destruct (new_vec_spec s o) as (s1 & E & Hs1 & Hh1 & Hl1 & Hn1 & Hv1). rewrite (bind_val _ _ _ _ _ E).
    eapply post_on_unwind with (Qp1 := fun _ => True).
    2:{ intros s' _. unfold set_handle, bind, get, set_vecs. simpl. exact I. }
    assert (Hse1 : same_elems s s1).
    { unfold new_vec in E. destruct (esz cfg =? 0); [discriminate|]. unfold set_handle, bind, get, set_vecs in E. inversion E. constructor; reflexivity. }
    destruct (Z.eq_dec c 0) as [->|Nc].
    - destruct (sentinel_basics cfg s1 o Hs1) as (Hl & Hcap & _). unfold reserve_exact.
      rewrite (bind_val _ _ _ _ _ Hcap), (bind_val _ _ _ _ _ Hl). unfold add_m, add_u. cbv zeta. simpl.
      split; [left; auto|]. split; [exact Hse1|]. split; [intros b blk Hb; rewrite Hh1; exact Hb|exact Hv1].
    - eapply post_weaken; [apply (reserve_exact_sentinel s1 o c Hs1 ltac:(lia))| |auto].
      intros u s2 (size & Hbn & Hal).
      destruct (allocated_frame _ _ _ _ Hal) as (F1 & F2 & F3).
      split.
      { right. split; [lia|]. exists size. cbv zeta. split; [exact Hbn|]. rewrite <- Hh1. eapply allocated_vec_at. exact Hal. }
      split; [eapply same_elems_trans; [exact Hse1|exact (al_same _ _ _ _ Hal)]|].
      split.
      { intros b blk Hb. rewrite F1; [rewrite Hh1; exact Hb|]. rewrite Hh1. apply nth_error_Some. rewrite Hb. discriminate. }
      intros w h Hw Hh. apply flat_some. rewrite F2 by exact Hw. rewrite (Hv1 w h Hw Hh). reflexivity.
  Qed.

  Lemma view_copy_from (f g : Z -> slot) a n :
    0 <= a -> 0 <= n ->
    view (fun k => if (0 <=? k) && (k <? 0 + n) then f (k - 0 + a) else g k) n = skipn (Z.to_nat a) (view f (a + n)).
  Proof.
    intros Ha Hn. apply list_ext. intros k.
    destruct (Nat.lt_ge_cases k (Z.to_nat n)) as [L|G].
    - rewrite view_nth_nat by lia. rewrite nth_error_skipn_local. rewrite view_nth_nat by lia.
      destruct (Z.leb_spec 0 (Z.of_nat k)); [|lia]. destruct (Z.ltb_spec (Z.of_nat k) (0 + n)); [|lia]. cbn [andb].
      f_equal. f_equal. f_equal. lia.
    - rewrite view_nth_none by lia. symmetry. apply nth_error_None. rewrite skipn_length.
      pose proof (view_length f (a + n) ltac:(lia)). lia.
  Qed.

  (* split_off(at) with 0 < at <= len: the general branch *)
  Theorem split_off_middle s v o b bl at_ :
    vec_at s v b bl -> block_ok cfg bl -> owned s bl -> v <> o ->
    0 < at_ <= h_len bl ->
    post (split_off cfg v o at_ s)
      (fun _ s' => vabs s' v (firstn (Z.to_nat at_) (velems bl)) /\ vabs s' o (skipn (Z.to_nat at_) (velems bl)) /\
                   only_changes s s' [] /\
                   (forall bv blv bo blo, vec_at s' v bv blv -> vec_at s' o bo blo -> bv <> bo))
      (fun _ => True).
  Proof.
    intros Hv Hb Ho Hvo Hat.
    pose proof (bo_len _ _ Hb) as Hlen. pose proof (bo_cap _ _ Hb) as Hcap.
    unfold split_off.
    rewrite (bind_val _ _ _ _ _ (len_at cfg _ _ _ _ Hcfg Hv Hb)).
    assert (E1 : (h_len bl <? at_) = false) by (apply Z.ltb_ge; lia). rewrite E1.
    assert (E2 : (h_len bl =? 0) = false) by (apply Z.eqb_neq; lia). rewrite E2.
    assert (E3 : (at_ =? 0) = false) by (apply Z.eqb_neq; lia). rewrite E3.
    rewrite (bind_val _ _ _ _ _ (capacity_at cfg _ _ _ _ Hcfg Hv Hb)).
    eapply post_bind.
    { eapply post_weaken; [apply (with_capacity_fresh s o (h_cap bl) ltac:(lia))|intros u s1 H; exact H|auto]. }
    intros u s1 ([[E0 _]|(_ & size & Hbo & Hvo1)] & Hse & Hheap & Hvecs); [lia|].
    cbv zeta in Hbo, Hvo1.
    set (bo := List.length (heap s)) in *.
    set (blo := fresh_block size (max_align cfg) 0 (h_cap bl) (max_align cfg)) in *.
    assert (Hbl : (b < bo)%nat) by (unfold bo; apply nth_error_Some; rewrite (proj2 Hv); discriminate).
    assert (Hne : b <> bo) by lia.
    assert (Hv1 : vec_at s1 v b bl) by (split; [apply (Hvecs v (At b 0) Hvo (proj1 Hv))|apply (Hheap b bl (proj2 Hv))]).
    rewrite (bind_val _ _ _ _ _ (set_len_at cfg s1 v b bl at_ Hcfg Hv1 Hb)).
    set (bl2 := with_hdr bl at_ (h_cap bl) (h_align bl)). set (s2 := upd_block s1 b bl2).
    assert (Hb2 : block_ok cfg bl2) by (apply block_ok_with_len; [exact Hb|lia]).
    assert (Hv2 : vec_at s2 v b bl2) by (apply vec_at_upd with (bl := bl); exact Hv1).
    assert (Ho2 : vec_at s2 o bo blo).
    { destruct Hvo1 as [A B]. split; [exact A|]. unfold s2. rewrite upd_block_other by congruence. exact B. }
    rewrite (bind_val _ _ _ _ _ (set_len_at cfg s2 o bo blo (h_len bl - at_) Hcfg Ho2 Hbo)).
    set (blo3 := with_hdr blo (h_len bl - at_) (h_cap blo) (h_align blo)). set (s3 := upd_block s2 bo blo3).
    assert (Hbo3 : block_ok cfg blo3) by (apply block_ok_with_len; [exact Hbo|simpl; lia]).
    assert (Ho3 : vec_at s3 o bo blo3) by (apply vec_at_upd with (bl := blo); exact Ho2).
    assert (Hv3 : vec_at s3 v b bl2).
    { destruct Hv2 as [A B]. split; [exact A|]. unfold s3. rewrite upd_block_other by congruence. exact B. }
    destruct (as_ptr_at cfg _ _ _ _ Hcfg Hv3 Hb2) as (offv & Hcov & Hpv).
    destruct (as_ptr_at cfg _ _ _ _ Hcfg Ho3 Hbo3) as (offo & Hcoo & Hpo).
    rewrite (bind_val _ _ _ _ _ Hpv), (bind_val _ _ _ _ _ Hpo).
    simpl padd. rewrite ?Z.add_0_l.
    pose proof (velems_length bl ltac:(lia)) as Hvl.
    assert (Hvv : velems bl2 = firstn (Z.to_nat at_) (velems bl)).
    { unfold velems. simpl. symmetry. apply view_firstn. lia. }
    assert (Hown_v : forall s', ledger s' = ledger s -> next_elem s' = next_elem s -> owned s' bl2).
    { intros s' Hl' Hn'. destruct Ho as [A B C D]. constructor.
      - simpl. intros i Hi. apply A. lia.
      - rewrite Hvv. apply NoDup_firstn. exact B.
      - intros e He. rewrite Hvv in He. rewrite Hl'. apply C. eapply In_firstn. exact He.
      - intros e He. rewrite Hvv in He. rewrite Hn'. apply D. eapply In_firstn. exact He. }
    assert (Hfinal : forall s4 blo4, vec_at s4 v b bl2 -> vec_at s4 o bo blo4 -> block_ok cfg blo4 ->
               ledger s4 = ledger s -> next_elem s4 = next_elem s ->
               velems blo4 = skipn (Z.to_nat at_) (velems bl) -> init_upto (slots blo4) (h_len blo4) ->
               vabs s4 v (firstn (Z.to_nat at_) (velems bl)) /\ vabs s4 o (skipn (Z.to_nat at_) (velems bl)) /\
               only_changes s s4 [] /\
               (forall bv blv bo' blo', vec_at s4 v bv blv -> vec_at s4 o bo' blo' -> bv <> bo')).
    { intros s4 blo4 G1 G2 G3 G4 G5 G6 G7. split; [|split; [|split]].
      - right. exists b, bl2. split; [exact G1|]. split; [exact Hb2|]. split; [apply Hown_v; assumption|exact Hvv].
      - right. exists bo, blo4. split; [exact G2|]. split; [exact G3|]. split; [|exact G6].
        destruct Ho as [A B C D]. constructor.
        + exact G7.
        + rewrite G6. rewrite <- (firstn_skipn (Z.to_nat at_) (velems bl)) in B.
          revert B. generalize (firstn (Z.to_nat at_) (velems bl)) (skipn (Z.to_nat at_) (velems bl)).
          intros l1 l2 Hnd. induction l1 as [|x l1 IH]; [exact Hnd|]. inversion Hnd; subst. apply IH. assumption.
        + intros e He. rewrite G6 in He. rewrite G4. apply C. eapply In_skipn. exact He.
        + intros e He. rewrite G6 in He. rewrite G5. apply D. eapply In_skipn. exact He.
      - split; [exact G5|]. intros e _. rewrite G4. reflexivity.
      - intros bv blv bo' blo' [A1 _] [A2 _]. destruct G1 as [B1 _], G2 as [B2 _].
        assert (bv = b) by congruence. assert (bo' = bo) by congruence. lia. }
    assert (Hl3 : ledger s3 = ledger s) by (simpl; exact (se_ledger _ _ Hse)).
    assert (Hn3 : next_elem s3 = next_elem s) by (simpl; exact (se_next _ _ Hse)).
    destruct (Z.eq_dec at_ (h_len bl)) as [Eat|Nat_].
    - (* nothing moves *)
      unfold slot_copy_across. assert (E : (h_len bl - at_ <=? 0) = true) by (apply Z.leb_le; lia). rewrite E. simpl.
      apply (Hfinal s3 blo3 Hv3 Ho3 Hbo3 Hl3 Hn3).
      + assert (Hsk : skipn (Z.to_nat at_) (velems bl) = []) by (apply skipn_all2; lia). rewrite Hsk.
        unfold velems. simpl. replace (h_len bl - at_) with 0 by lia. reflexivity.
      + simpl. intros i Hi. lia.
    - rewrite (slot_copy_across_at cfg Hcfg s3 b bl2 offv at_ bo blo3 offo 0 (h_len bl - at_)
                 (proj2 Hv3) Hb2 Hcov (proj2 Ho3) Hbo3 Hcoo); simpl; try lia.
      set (sl := fun k => if (0 <=? k) && (k <? 0 + (h_len bl - at_)) then slots bl (k - 0 + at_) else Uninit).
      set (blo4 := with_slots blo3 sl).
      apply (Hfinal (upd_block s3 bo blo4) blo4).
      + destruct Hv3 as [A B]. split; [exact A|]. rewrite upd_block_other by congruence. exact B.
      + apply vec_at_upd with (bl := blo3). exact Ho3.
      + apply block_ok_with_slots. exact Hbo3.
      + exact Hl3.
      + exact Hn3.
      + unfold velems. change (h_len blo4) with (h_len bl - at_). change (slots blo4) with sl. unfold sl.
        rewrite (view_copy_from (slots bl) (fun _ => Uninit) at_ (h_len bl - at_)) by lia.
        replace (at_ + (h_len bl - at_)) with (h_len bl) by lia. reflexivity.
      + change (h_len blo4) with (h_len bl - at_). change (slots blo4) with sl. intros i Hi. unfold sl.
        destruct (Z.leb_spec 0 i); [|lia]. destruct (Z.ltb_spec i (0 + (h_len bl - at_))); [|lia]. cbn [andb].
        apply (ow_init _ _ Ho). lia.
  Qed.
End SplitOff.
