(* Proofs/SourceSpecs.v -- tie and theorem composed: statements about the REGENERATED bodies of push, pop
   and Drain::next (re-translated from /repo on every run), evaluated by the IR semantics in the machine
   world with the function-boundary semantics of EquivElem.v, in terms of the list model. *)
From Coq Require Import ZArith List Bool Lia Permutation.
From MV Require Import Ast Eval Scalar Machine EquivDefs Prims EquivTac EquivElem EquivPop EquivIter.
From MV.Gen Require Import AstGen.
From MV.Proofs Require Import Arith Logic Prim View OpsLocal Guards Grow CapHistory Drops Retain DrainIt Sentinel Core Refine IterAt Resize.
Import ListNotations.
Open Scope list_scope.
Open Scope Z_scope.

Section SourceSpecs.
  Variable cfg : tcfg.
  Variable ncap : Z -> option Z.
  Hypothesis Hcfg : cfg_ok cfg.
  Hypothesis Hpol : policy_ok ncap.
  Hypothesis Htracked : needs_drop cfg = true.

  (* push(value): the list gains the element at the end, or -- when the capacity computation refuses --
     nothing changes and the argument is destroyed once; no other outcome *)
  Theorem push_source s v l e :
    vabs cfg s v l -> ledger s e = Live -> ~ In e l -> e < next_elem s ->
    match param_dropped_on_unwind cfg e (runm cfg ncap lib__MiniVec__push_ast [VObj v; VInt e]) s with
    | (Norm _, s') => vabs cfg s' v (l ++ [e]) /\ only_changes s s' []
    | (Panic, s') => vabs cfg s' v l /\ ledger s' e = Dropped /\ only_changes s s' [e]
    | (Fail FAbort, _) | (Fail (FAllocAbort _ _), _) => True
    | _ => False
    end.
  Proof.
    intros Hab Hl Hn He. rewrite push_equiv.
    pose proof (push_abs cfg ncap Hcfg Hpol Htracked s v l e Hab Hl Hn He) as H.
    unfold lift_m. destruct (push cfg ncap v e s) as [[a| | | | |] s']; simpl in *; tauto.
  Qed.

  (* pop(): the last element is handed to the caller, or None on the empty list; it never panics *)
  Theorem pop_source s v l :
    vabs cfg s v l -> (Z.of_nat (List.length l) <= ISIZE_MAX) ->
    match returning cfg (runm cfg ncap lib__MiniVec__pop_ast [VObj v]) s with
    | (Norm r, s') =>
        (l = [] /\ r = opt_elem_val None /\ s' = s) \/
        (exists l0 x, l = l0 ++ [x] /\ r = opt_elem_val (Some x) /\ vabs cfg s' v l0 /\ ledger s' x = Out)
    | (Fail FAbort, _) | (Fail (FAllocAbort _ _), _) => True
    | _ => False
    end.
  Proof.
    intros Hab Hlen. rewrite pop_equiv.
    2:{ intros l' s1 Hl. rewrite (vabs_len cfg Hcfg s v l Hab) in Hl. inversion Hl; subst. lia. }
    pose proof (pop_abs cfg ncap Hcfg Htracked s v l Hab) as H.
    unfold lift_m. destruct (pop cfg v s) as [[a| | | | |] s']; simpl in *; try tauto.
    destruct H as [(A & B & C & D)|(l0 & x & A & B & C & D & E)].
    - left. subst. auto.
    - right. exists l0, x. subst. auto.
  Qed.

  (* Drain::next on a well-formed Drain object: the element under the front cursor (None when the window is
     empty), the cursor advanced in the object, nothing else touched *)
  Theorem drain_next_source s i d b bl off a j r :
    iter_get i s = (Val (IDrain d), s) -> drain_inv cfg s d b bl off a j r ->
    runm cfg ncap drain__Drain__next_ast [iter_val i] s =
      if a <? j
      then (Norm (opt_elem_val (Some (slot_elem (slots bl a)))), with_iter s i (IDrain (with_pos d (PElt b off (a + 1)))))
      else (Norm (opt_elem_val None), s).
  Proof.
    intros Hi Hinv. rewrite drain_next_equiv.
    destruct (drain_next_at_eq cfg Hcfg s i d b bl off a j r Hi Hinv) as (o & d' & Hn & Hat).
    rewrite (drain_next_spec cfg Hcfg s d b bl off a j r Hinv) in Hn.
    unfold lift_m. rewrite Hat.
    destruct (a <? j); inversion Hn; subst; reflexivity.
  Qed.
End SourceSpecs.
