(* Proofs/SourceSpecs.v -- tie and theorem composed: statements about the REGENERATED bodies of push, pop
   and Drain::next (re-translated from /repo on every run), evaluated by the IR semantics in the machine
   world with the function-boundary semantics of EquivElem.v, in terms of the list model. *)
From Coq Require Import ZArith List Bool Lia Permutation.
From MV Require Import Ast Eval Scalar Machine EquivDefs Prims EquivTac EquivElem EquivPop EquivRemove EquivInsert EquivSwapRemove EquivIter EquivExtSlice EquivExtend DrainAt EquivDropGuard EquivDeref.
From MV.Gen Require Import AstGen.
From MV.Proofs Require Import Arith Logic Prim View OpsLocal Guards Grow CapHistory Drops Retain DrainIt Sentinel Core Refine IterAt Resize Clone CloneSlice Extend DrainGuardAt SplitOff Deref.
Import ListNotations.
Open Scope list_scope.
Open Scope Z_scope.

Section SourceSpecs.
  Variable cfg : tcfg.
  Variable ncap : Z -> option Z.
  Hypothesis Hcfg : cfg_ok cfg.
  Hypothesis Hpol : policy_ok ncap.
  Hypothesis Htracked : needs_drop cfg = true.

  (* push(value): the list gains the element at the end, or -- when the capacity computation refuses --
     nothing changes and the argument is destroyed once; no other outcome *)
  Theorem push_source s v l e :
    vabs cfg s v l -> ledger s e = Live -> ~ In e l -> e < next_elem s ->
    match param_dropped_on_unwind cfg e (runm cfg ncap lib__MiniVec__push_ast [VObj v; VInt e]) s with
    | (Norm _, s') => vabs cfg s' v (l ++ [e]) /\ only_changes s s' []
    | (Panic, s') => vabs cfg s' v l /\ ledger s' e = Dropped /\ only_changes s s' [e]
    | (Fail FAbort, _) | (Fail (FAllocAbort _ _), _) => True
    | _ => False
    end.
  Proof.
    intros Hab Hl Hn He. rewrite push_equiv.
    pose proof (push_abs cfg ncap Hcfg Hpol Htracked s v l e Hab Hl Hn He) as H.
    unfold lift_m. destruct (push cfg ncap v e s) as [[a| | | | |] s']; simpl in *; tauto.
  Qed.

  (* pop(): the last element is handed to the caller, or None on the empty list; it never panics *)
  Theorem pop_source s v l :
    vabs cfg s v l -> (Z.of_nat (List.length l) <= ISIZE_MAX) ->
    match returning cfg (runm cfg ncap lib__MiniVec__pop_ast [VObj v]) s with
    | (Norm r, s') =>
        (l = [] /\ r = opt_elem_val None /\ s' = s) \/
        (exists l0 x, l = l0 ++ [x] /\ r = opt_elem_val (Some x) /\ vabs cfg s' v l0 /\ ledger s' x = Out)
    | (Fail FAbort, _) | (Fail (FAllocAbort _ _), _) => True
    | _ => False
    end.
  Proof.
    intros Hab Hlen. rewrite pop_equiv.
    2:{ intros l' s1 Hl. rewrite (vabs_len cfg Hcfg s v l Hab) in Hl. inversion Hl; subst. lia. }
    pose proof (pop_abs cfg ncap Hcfg Htracked s v l Hab) as H.
    unfold lift_m. destruct (pop cfg v s) as [[a| | | | |] s']; simpl in *; try tauto.
    destruct H as [(A & B & C & D)|(l0 & x & A & B & C & D & E)].
    - left. subst. auto.
    - right. exists l0, x. subst. auto.
  Qed.

  (* Drain::next on a well-formed Drain object: the element under the front cursor (None when the window is
     empty), the cursor advanced in the object, nothing else touched *)
  Theorem drain_next_source s i d b bl off a j r :
    iter_get i s = (Val (IDrain d), s) -> drain_inv cfg s d b bl off a j r ->
    runm cfg ncap drain__Drain__next_ast [iter_val i] s =
      if a <? j
      then (Norm (opt_elem_val (Some (slot_elem (slots bl a)))), with_iter s i (IDrain (with_pos d (PElt b off (a + 1)))))
      else (Norm (opt_elem_val None), s).
  Proof.
    intros Hi Hinv. rewrite drain_next_equiv.
    destruct (drain_next_at_eq cfg Hcfg s i d b bl off a j r Hi Hinv) as (o & d' & Hn & Hat).
    rewrite (drain_next_spec cfg Hcfg s d b bl off a j r Hinv) in Hn.
    unfold lift_m. rewrite Hat.
    destruct (a <? j); inversion Hn; subst; reflexivity.
  Qed.
  Lemma vabs_len_ok s v l : vabs cfg s v l -> Z.of_nat (List.length l) <= ISIZE_MAX -> len_ok v s.
  Proof. intros Hab H l' s1 Hl. rewrite (vabs_len cfg Hcfg s v l Hab) in Hl. inversion Hl; subst. lia. Qed.

  (* truncate(n): the prefix; the cut elements destroyed exactly once (also when a destructor panics) *)
  Theorem truncate_source s v l n :
    vabs cfg s v l -> Z.of_nat (List.length l) <= ISIZE_MAX -> 0 <= n < W64 ->
    let Q := fun s' => vabs cfg s' v (firstn (Z.to_nat n) l) /\
                       (forall e, In e (skipn (Z.to_nat n) l) -> ledger s' e = Dropped) /\
                       only_changes s s' (skipn (Z.to_nat n) l) in
    match runm cfg ncap lib__MiniVec__truncate_ast [VObj v; VInt n] s with
    | (Norm _, s') | (Panic, s') => Q s'
    | (Fail FAbort, _) | (Fail (FAllocAbort _ _), _) => True
    | _ => False
    end.
  Proof.
    intros Hab Hlen Hn Q. subst Q. cbv beta. rewrite (truncate_equiv cfg ncap v n s (vabs_len_ok s v l Hab Hlen) Hn).
    pose proof (truncate_abs cfg Hcfg Htracked s v l n Hab (proj1 Hn)) as H. cbv zeta in H.
    unfold lift_m. destruct (truncate cfg v n s) as [[a| | | | |] s']; cbn [post fst snd] in *; first [exact H|exact I|contradiction].
  Qed.

  (* remove(i): the i-th element handed to the caller, the rest in order; out of range: a panic that
     changes nothing *)
  Theorem remove_source s v l i :
    vabs cfg s v l -> Z.of_nat (List.length l) <= ISIZE_MAX -> 0 <= i < W64 ->
    match returning cfg (runm cfg ncap lib__MiniVec__remove_ast [VObj v; VInt i]) s with
    | (Norm r, s') => exists x, r = VInt x /\ nth_error l (Z.to_nat i) = Some x /\
                                vabs cfg s' v (delete_at (Z.to_nat i) l) /\ ledger s' x = Out
    | (Panic, s') => Z.of_nat (List.length l) <= i /\ s' = s
    | (Fail FAbort, _) | (Fail (FAllocAbort _ _), _) => True
    | _ => False
    end.
  Proof.
    intros Hab Hlen Hi. rewrite (remove_equiv cfg ncap v i s (vabs_len_ok s v l Hab Hlen) Hi).
    pose proof (remove_abs cfg Hcfg Htracked s v l i Hab (proj1 Hi)) as H.
    unfold lift_m. destruct (remove cfg v i s) as [[a| | | | |] s']; simpl in *; try tauto.
    exists a. tauto.
  Qed.

  (* swap_remove(i): the i-th element handed out, the last element in its place *)
  Theorem swap_remove_source s v l i :
    vabs cfg s v l -> Z.of_nat (List.length l) <= ISIZE_MAX -> 0 <= i < W64 ->
    match returning cfg (runm cfg ncap lib__MiniVec__swap_remove_ast [VObj v; VInt i]) s with
    | (Norm r, s') => exists x, r = VInt x /\ nth_error l (Z.to_nat i) = Some x /\
                                vabs cfg s' v (swap_delete (Z.to_nat i) l) /\ ledger s' x = Out
    | (Panic, s') => Z.of_nat (List.length l) <= i /\ s' = s
    | (Fail FAbort, _) | (Fail (FAllocAbort _ _), _) => True
    | _ => False
    end.
  Proof.
    intros Hab Hlen Hi. rewrite (swap_remove_equiv cfg ncap v i s (vabs_len_ok s v l Hab Hlen) Hi).
    pose proof (swap_remove_abs cfg Hcfg Htracked s v l i Hab (proj1 Hi)) as H.
    unfold lift_m. destruct (swap_remove cfg v i s) as [[a| | | | |] s']; simpl in *; try tauto.
    exists a. tauto.
  Qed.

  (* insert(i, e): the element at position i; refused (index > len, or the capacity computation): a
     panic, the list unchanged, the argument destroyed once *)
  Theorem insert_source s v l i e :
    vabs cfg s v l -> Z.of_nat (List.length l) <= ISIZE_MAX -> 0 <= i < W64 ->
    ledger s e = Live -> ~ In e l -> e < next_elem s ->
    match param_dropped_on_unwind cfg e (runm cfg ncap lib__MiniVec__insert_ast [VObj v; VInt i; VInt e]) s with
    | (Norm _, s') => i <= Z.of_nat (List.length l) /\ vabs cfg s' v (list_insert (Z.to_nat i) e l) /\ only_changes s s' []
    | (Panic, s') => vabs cfg s' v l /\ ledger s' e = Dropped /\ only_changes s s' [e]
    | (Fail FAbort, _) | (Fail (FAllocAbort _ _), _) => True
    | _ => False
    end.
  Proof.
    intros Hab Hlen Hi Hl Hn He. rewrite (insert_equiv cfg ncap v i e s (vabs_len_ok s v l Hab Hlen) Hi).
    pose proof (insert_abs cfg ncap Hcfg Hpol Htracked s v l i e Hab Hl Hn He (proj1 Hi)) as H.
    unfold lift_m. destruct (insert cfg ncap v i e s) as [[a| | | | |] s']; simpl in *; tauto.
  Qed.
  (* extend_from_slice(&[T]) -- the `for` loop over the slice, as the translator renders it: the vector
     is its old contents followed by one NEW element per source element, in order, each with its
     source's payload; everything that existed before is untouched; a panic leaves the old contents plus
     the clones made so far *)
  Theorem extend_from_slice_source s w l src F :
    vabs cfg s w l -> cloneable s src -> (List.length src <= F)%nat ->
    match run_ext cfg ncap (FUEL + F) w src s with
    | (Norm _, s') =>
        vabs cfg s' w (l ++ zseq (next_elem s) (List.length src)) /\
        next_elem s' = next_elem s + Z.of_nat (List.length src) /\
        (forall e, e < next_elem s -> ledger s' e = ledger s e /\ payload s' e = payload s e) /\
        (forall j, (j < List.length src)%nat -> payload s' (next_elem s + Z.of_nat j) = payload s (nth j src 0))
    | (Panic, s') =>
        exists k, (k <= List.length src)%nat /\ vabs cfg s' w (l ++ zseq (next_elem s) k) /\
                  (forall e, e < next_elem s -> ledger s' e = ledger s e)
    | (Fail FAbort, _) | (Fail (FAllocAbort _ _), _) => True
    | _ => False
    end.
  Proof.
    intros Hab Hcl HF. rewrite extend_from_slice_equiv by exact HF.
    pose proof (extend_from_slice_abs cfg ncap Hcfg Hpol Htracked s w l src Hab Hcl) as H.
    unfold lift_m. destruct (extend_from_slice cfg ncap w src s) as [[a| | | | |] s']; simpl in *; tauto.
  Qed.
  (* extend(iter) -- `for x in iter { self.push(x) }` as the translator renders it, over ANY iterator
     script: the old contents followed by the elements yielded before the first None (or the panic) *)
  Theorem extend_source s v l sc F :
    vabs cfg s v l -> (S (List.length sc) <= F)%nat ->
    let '(n, p) := yields sc in
    match run_extend cfg ncap (FUEL + F) v sc s with
    | (Norm _, s') =>
        p = false /\ vabs cfg s' v (l ++ zseq (next_elem s) n) /\ next_elem s' = next_elem s + Z.of_nat n /\
        (forall e, e < next_elem s -> ledger s' e = ledger s e)
    | (Panic, s') =>
        exists k, (k <= n)%nat /\ vabs cfg s' v (l ++ zseq (next_elem s) k) /\
                  (forall e, e < next_elem s -> ledger s' e = ledger s e) /\
                  next_elem s <= next_elem s' /\
                  (forall e, next_elem s <= e < next_elem s' ->
                             In e (zseq (next_elem s) k) \/ ledger s' e = Dropped)
    | (Fail FAbort, _) | (Fail (FAllocAbort _ _), _) => True
    | _ => False
    end.
  Proof.
    intros Hab HF.
    pose proof (extend_abs cfg ncap Hcfg Hpol Htracked s v l sc Hab) as H.
    destruct (yields sc) as [n p].
    rewrite extend_equiv by exact HF.
    unfold lift_m. destruct (extend cfg ncap v sc s) as [[a| | | | |] s']; simpl in *; tauto.
  Qed.
  (* `impl Drop for DropGuard` of Drain -- the `for` loop over what is left of the window and the move of
     the tail, as regenerated -- on a well-formed Drain object: the vector is prefix ++ suffix and the
     window has been destroyed exactly once (DrainIt.drain_gone); a destructor that panics inside this
     cleanup is the only other outcome (Rust aborts there) *)
  Theorem dropguard_drop_source s i0 d b bl off i j r F :
    iter_get i0 s = (Val (IDrain d), s) -> drain_inv cfg s d b bl off i j r ->
    NoDup (window bl i j) -> (forall e, In e (window bl i j) -> ledger s e = Live) ->
    (S (Z.to_nat (j - i)) <= F)%nat ->
    match run_guard_drop cfg ncap (FUEL + F) i0 s with
    | (Norm _, s') => drain_gone cfg s s' d b bl i j r
    | (Panic, _) | (Fail FAbort, _) | (Fail (FAllocAbort _ _), _) => True
    | _ => False
    end.
  Proof.
    intros Hi0 Hinv Hnd Hlive HF.
    pose proof (drain_guard_at_spec cfg Hcfg Htracked (S (Z.to_nat (j - i))) s i0 d b bl off i j r Hi0 Hinv ltac:(lia) Hnd Hlive) as H.
    rewrite (dropguard_drop_equiv cfg ncap i0 s (S (Z.to_nat (j - i))) F HF).
    - unfold lift_m. destruct (drain_guard_at cfg (S (Z.to_nat (j - i))) i0 s) as [[a| | | | |] s']; simpl in *; tauto.
    - intros E. destruct (drain_guard_at cfg (S (Z.to_nat (j - i))) i0 s) as [[a| | | | |] s']; simpl in *; try discriminate. exact H.
  Qed.
  (* FromIterator::from_iter over ANY iterator script, as regenerated (`let v = MiniVec::new(); for x in
     it { v.push(x) }; v`): a NEW vector holding exactly the elements yielded before the first None, in
     order; nothing that existed before is touched -- also when the iterator or a push panics (what the
     body leaves to Rust's drop glue then is the local vector) *)
  Theorem from_iter_source s sc F :
    (S (List.length sc) <= F)%nat ->
    let '(n, p) := yields sc in
    match run_from_iter cfg ncap (FUEL + F) sc s with
    | (Norm r, s') =>
        p = false /\ r = VObj (List.length (vecs s)) /\
        vabs cfg s' (List.length (vecs s)) (zseq (next_elem s) n) /\
        next_elem s' = next_elem s + Z.of_nat n /\
        (forall e, e < next_elem s -> ledger s' e = ledger s e)
    | (Panic, s') => forall e, e < next_elem s -> ledger s' e = ledger s e
    | (Fail FAbort, _) | (Fail (FAllocAbort _ _), _) => True
    | _ => False
    end.
  Proof.
    intros HF.
    pose proof (fun s1 w Hab => extend_abs cfg ncap Hcfg Hpol Htracked s1 w [] sc Hab) as H.
    destruct (yields sc) as [n p].
    rewrite from_iter_equiv by exact HF.
    unfold lift_m, from_iter_body, new_obj. cbv [bind get ret].
    set (w := List.length (vecs s)).
    destruct (new_vec_spec cfg Hcfg s w) as (s1 & Hn & Hsen & _ & Hled & Hnext & _).
    rewrite Hn.
    specialize (H s1 w (or_introl (conj Hsen eq_refl))).
    rewrite Hnext, Hled in H. cbn [app] in H.
    destruct (extend cfg ncap w sc s1) as [[a| | | | |] s']; simpl in *; try tauto.
    destruct H as (k & _ & _ & Hl & _). exact Hl.
  Qed.
  (* Deref::deref -- the view every `&v[..]`, `v.iter()`, comparison, Hash and Debug goes through -- as
     regenerated: the slice is exactly the list of the vector's elements, and looking changes nothing *)
  Theorem deref_source s v l :
    vabs cfg s v l ->
    runm cfg ncap deref__MiniVec__deref_ast [VObj v] s = (Norm (slice_of l), s).
  Proof.
    intros Hab. rewrite deref_equiv. unfold lift_m.
    destruct Hab as [[Hs ->]|(b & bl & Hv & Hb & Ho & <-)].
    - rewrite (sn_deref cfg s v Hs). reflexivity.
    - rewrite (deref_at cfg Hcfg s v b bl Hv Hb (ow_init _ _ Ho) (ow_nodup _ _ Ho)); [reflexivity|].
      intros e He. right. apply (ow_live _ _ Ho). exact He.
  Qed.
End SourceSpecs.
