(* Proofs/View.v -- the abstraction of a block to the list of elements it holds, and list
   lemmas for pointwise reasoning about shifted slot stores. *)
From Coq Require Import ZArith List Bool Lia.
From MV Require Import Ast Eval Scalar Machine.
From MV.Proofs Require Import Arith Logic Prim.
Import ListNotations.
Open Scope Z_scope.

Definition slot_elem (x : slot) : elem := match x with Init e => e | Uninit => -1 end.

(* the elements in slots [0, n) *)
Definition view (f : Z -> slot) (n : Z) : list elem :=
  map (fun i => slot_elem (f (Z.of_nat i))) (seq 0 (Z.to_nat n)).

Definition velems (bl : block) : list elem := view (slots bl) (h_len bl).

(* every slot of [0, n) has been written *)
Definition init_upto (f : Z -> slot) (n : Z) : Prop :=
  forall i, 0 <= i < n -> exists e, f i = Init e.

Lemma view_length f n : 0 <= n -> Z.of_nat (List.length (view f n)) = n.
Proof. intros H. unfold view. rewrite map_length, seq_length. lia. Qed.

Lemma nth_error_seq_local start len n : (n < len)%nat -> nth_error (seq start len) n = Some (start + n)%nat.
Proof.
  revert start n; induction len as [|len IH]; intros start [|n] H; simpl; try lia.
  - f_equal; lia.
  - rewrite IH by lia. f_equal; lia.
Qed.

Lemma view_nth_nat f n k : (k < Z.to_nat n)%nat -> nth_error (view f n) k = Some (slot_elem (f (Z.of_nat k))).
Proof.
  intros H. unfold view.
  erewrite map_nth_error; [reflexivity|]. rewrite nth_error_seq_local by lia. reflexivity.
Qed.

Lemma view_nth f n i : 0 <= i < n -> nth_error (view f n) (Z.to_nat i) = Some (slot_elem (f i)).
Proof. intros H. rewrite view_nth_nat by lia. rewrite Z2Nat.id by lia. reflexivity. Qed.

Lemma view_nth_none f n k : (Z.to_nat n <= k)%nat -> nth_error (view f n) k = None.
Proof. intros H. apply nth_error_None. unfold view. rewrite map_length, seq_length. exact H. Qed.

(* two lists are equal when they agree pointwise *)
Lemma list_ext {A} (l1 l2 : list A) : (forall k, nth_error l1 k = nth_error l2 k) -> l1 = l2.
Proof.
  revert l2; induction l1 as [|x l1 IH]; intros [|y l2] H; auto.
  - specialize (H O); discriminate.
  - specialize (H O); discriminate.
  - f_equal. { specialize (H O); simpl in H; congruence. }
    apply IH. intros k. exact (H (S k)).
Qed.

Lemma nth_error_firstn_lt {A} (l : list A) n k : (k < n)%nat -> nth_error (firstn n l) k = nth_error l k.
Proof. revert l k; induction n as [|n IH]; intros [|x l] [|k] H; simpl; try lia; auto. apply IH; lia. Qed.
Lemma nth_error_firstn_ge {A} (l : list A) n k : (n <= k)%nat -> nth_error (firstn n l) k = None.
Proof. intros H. apply nth_error_None. rewrite firstn_length. lia. Qed.
Lemma nth_error_skipn_local {A} (l : list A) n k : nth_error (skipn n l) k = nth_error l (n + k).
Proof. revert l; induction n as [|n IH]; intros [|x l]; simpl; auto. destruct k; reflexivity. Qed.

Lemma view_ext f g n : (forall i, 0 <= i < n -> f i = g i) -> view f n = view g n.
Proof.
  intros H. unfold view. apply map_ext_in. intros k Hk. apply in_seq in Hk.
  rewrite H by lia. reflexivity.
Qed.

Lemma view_snoc f n : 0 <= n -> view f (n + 1) = view f n ++ [slot_elem (f n)].
Proof.
  intros H. unfold view. replace (Z.to_nat (n + 1)) with (S (Z.to_nat n)) by lia.
  rewrite seq_S, map_app. simpl. rewrite Z2Nat.id by lia. reflexivity.
Qed.

Lemma view_firstn f n m : 0 <= m <= n -> firstn (Z.to_nat m) (view f n) = view f m.
Proof.
  intros H. apply list_ext. intros k.
  destruct (Nat.lt_ge_cases k (Z.to_nat m)) as [L|G].
  - rewrite nth_error_firstn_lt by lia. rewrite !view_nth_nat by lia. reflexivity.
  - rewrite nth_error_firstn_ge by lia. rewrite view_nth_none by lia. reflexivity.
Qed.
