(* Proofs/CloneSlice.v -- cloning a slice onto the end of a vector (extend_from_slice, From<&[T]>,
   IntoIter::clone all go through it): the vector is its old contents followed by one NEW element per
   source element, in order, with the source's payload; the sources and every pre-existing element
   are untouched. *)
From Coq Require Import ZArith List Bool Lia Permutation.
From MV Require Import Ast Eval Scalar Machine.
From MV.Proofs Require Import Arith Logic Prim View OpsLocal Guards Grow CapHistory Drops Retain Sentinel Core Refine Clone Extend.
Import ListNotations.
Open Scope Z_scope.

Section CloneSlice.
  Variable cfg : tcfg.
  Variable ncap : Z -> option Z.
  Hypothesis Hcfg : cfg_ok cfg.
  Hypothesis Hpol : policy_ok ncap.
  Hypothesis Htracked : needs_drop cfg = true.

  Local Notation vabs := (vabs cfg).

  Definition cloneable (s : state) (src : list elem) : Prop :=
    forall e, In e src -> ledger s e = Live /\ e < next_elem s /\ mem e (clone_panics s) = false.

  Theorem push_clones_abs : forall src s w l,
    vabs s w l -> cloneable s src ->
    post (push_clones cfg ncap w src s)
      (fun _ s' =>
         vabs s' w (l ++ zseq (next_elem s) (List.length src)) /\
         next_elem s' = next_elem s + Z.of_nat (List.length src) /\
         (forall e, e < next_elem s -> ledger s' e = ledger s e /\ payload s' e = payload s e) /\
         (forall j, (j < List.length src)%nat -> payload s' (next_elem s + Z.of_nat j) = payload s (nth j src 0)) /\
         clone_panics s' = clone_panics s)
      (fun s' => exists k, (k <= List.length src)%nat /\ vabs s' w (l ++ zseq (next_elem s) k) /\
                           (forall e, e < next_elem s -> ledger s' e = ledger s e)).
  Proof.
    induction src as [|e src IH]; intros s w l Hab Hcl.
    - simpl. rewrite app_nil_r. split; [exact Hab|]. split; [lia|]. split; [auto|]. split; [intros j Hj; lia|reflexivity].
    - destruct (vabs_owned cfg s w l Hab) as (Hnd & Hlive & Hold).
      destruct (Hcl e (or_introl eq_refl)) as (He1 & He2 & He3).
      cbn [push_clones].
      destruct (clone_elem_spec cfg Htracked s e He1 He3) as (s1 & Hce & Hh1 & Hv1 & Hi1 & Hn1 & Hcp1 & Hdp1 & Hl1 & Hp1).
      rewrite (bind_val _ _ _ _ _ Hce).
      set (c := next_elem s) in *.
      assert (Hab1 : vabs s1 w l).
      { eapply (vabs_ext cfg); [exact Hab|exact Hh1|exact Hv1| |lia].
        intros y Hy. rewrite Hl1. unfold upd. destruct (Z.eqb_spec y c); [specialize (Hold y Hy); unfold c in *; lia|reflexivity]. }
      assert (Hlc : ledger s1 c = Live) by (rewrite Hl1; unfold upd; rewrite Z.eqb_refl; reflexivity).
      assert (Hnot : ~ In c l) by (intros Hin; specialize (Hold c Hin); unfold c in Hold; lia).
      pose proof (push_abs cfg ncap Hcfg Hpol Htracked s1 w l c Hab1 Hlc Hnot ltac:(unfold c; lia)) as Hpush.
      assert (Hold1 : forall y, y < c -> ledger s1 y = ledger s y /\ payload s1 y = payload s y).
      { intros y Hy. rewrite Hl1, Hp1. unfold upd. destruct (Z.eqb_spec y c); [lia|auto]. }
      eapply post_bind.
      { eapply post_weaken; [exact Hpush|intros u s2 H; exact H|].
        intros s2 (Hab2 & Hd & [_ Hl2]). exists O. split; [lia|]. simpl. rewrite app_nil_r. split; [exact Hab2|].
        intros y Hy. rewrite Hl2 by (intros [<-|[]]; lia). apply (Hold1 y Hy). }
      intros u s2 (Hab2 & [Hn2 Hl2] & (Hq1 & Hq2 & Hq3)).
      assert (Hcl2 : cloneable s2 src).
      { intros y Hy. destruct (Hcl y (or_intror Hy)) as (A & B & C). split; [|split].
        - rewrite Hl2 by (intros []). rewrite (proj1 (Hold1 y B)). exact A.
        - rewrite Hn2, Hn1. lia.
        - rewrite Hq2, Hcp1. exact C. }
      specialize (IH s2 w (l ++ [c]) Hab2 Hcl2).
      assert (Hns2 : next_elem s2 = c + 1) by (rewrite Hn2; exact Hn1).
      eapply post_weaken; [exact IH| |].
      + intros u' s3 (G1 & G2 & G3 & G4 & G5).
        rewrite <- app_assoc in G1. rewrite Hns2 in G1. split; [exact G1|].
        split; [cbn [List.length]; lia|]. split; [|split].
        * intros y Hy. destruct (G3 y ltac:(lia)) as [A B]. rewrite A, B.
          rewrite Hl2 by (intros []). rewrite Hq1. apply Hold1. exact Hy.
        * intros j Hj. destruct j as [|j].
          -- replace (c + Z.of_nat 0) with c by lia. destruct (G3 c ltac:(lia)) as [_ B]. rewrite B, Hq1, Hp1.
             unfold upd. rewrite Z.eqb_refl. reflexivity.
          -- cbn [List.length] in Hj. replace (c + Z.of_nat (S j)) with (next_elem s2 + Z.of_nat j) by lia.
             rewrite (G4 j ltac:(lia)). rewrite Hq1. cbn [nth].
             assert (Hin : In (nth j src 0) src) by (apply nth_In; lia).
             destruct (Hcl _ (or_intror Hin)) as (_ & B & _). apply (Hold1 _ B).
        * rewrite G5, Hq2, Hcp1. reflexivity.
      + intros s3 (k & Hk & G1 & G2). exists (S k). split; [cbn [List.length]; lia|].
        rewrite <- app_assoc in G1. rewrite Hns2 in G1. split; [exact G1|].
        intros y Hy. rewrite G2 by lia. rewrite Hl2 by (intros []). apply (Hold1 y Hy).
  Qed.

  (* extend_from_slice(&[T]) = reserve(len) then clone each element onto the end *)
  Theorem extend_from_slice_abs s w l src :
    vabs s w l -> cloneable s src ->
    post (extend_from_slice cfg ncap w src s)
      (fun _ s' =>
         vabs s' w (l ++ zseq (next_elem s) (List.length src)) /\
         next_elem s' = next_elem s + Z.of_nat (List.length src) /\
         (forall e, e < next_elem s -> ledger s' e = ledger s e /\ payload s' e = payload s e) /\
         (forall j, (j < List.length src)%nat -> payload s' (next_elem s + Z.of_nat j) = payload s (nth j src 0)))
      (fun s' => exists k, (k <= List.length src)%nat /\ vabs s' w (l ++ zseq (next_elem s) k) /\
                           (forall e, e < next_elem s -> ledger s' e = ledger s e)).
  Proof.
    intros Hab Hcl. unfold extend_from_slice.
    eapply post_bind.
    { eapply post_weaken; [apply (capop_abs cfg ncap Hcfg Hpol s w l (CReserve (Z.of_nat (List.length src))) Hab); simpl; lia| |].
      - intros u s1 H. exact H.
      - intros s1 ->. exists O. split; [lia|]. simpl. rewrite app_nil_r. split; [exact Hab|auto]. }
    intros u s1 (Hab1 & [Hn1 Hl1] & (Hq1 & Hq2 & Hq3)).
    assert (Hcl1 : cloneable s1 src).
    { intros e He. destruct (Hcl e He) as (A & B & C). split; [rewrite Hl1 by (intros []); exact A|]. split; [lia|]. rewrite Hq2. exact C. }
    eapply post_weaken; [apply (push_clones_abs src s1 w l Hab1 Hcl1)| |].
    - intros u' s2 (G1 & G2 & G3 & G4 & G5). rewrite Hn1 in *. split; [exact G1|]. split; [exact G2|]. split.
      + intros e He. destruct (G3 e He) as [A B]. rewrite A, B, Hq1. rewrite Hl1 by (intros []). auto.
      + intros j Hj. rewrite (G4 j Hj), Hq1. reflexivity.
    - intros s2 (k & Hk & G1 & G2). rewrite Hn1 in *. exists k. split; [exact Hk|]. split; [exact G1|].
      intros e He. rewrite (G2 e He). apply Hl1. intros [].
  Qed.
  (* ------------------------------------------------------------------ a Clone that panics *)
  (* T::clone on an element whose Clone is scripted to panic: nothing but the event log changes *)
  Lemma clone_elem_panics s e :
    ledger s e = Live -> mem e (clone_panics s) = true ->
    exists s', clone_elem cfg e s = (Panicking, s') /\
      heap s' = heap s /\ vecs s' = vecs s /\ ledger s' = ledger s /\ next_elem s' = next_elem s.
  Proof.
    intros Hl Hp. unfold clone_elem, tracked. rewrite Htracked. cbn [negb].
    rewrite (bind_val _ _ _ _ _ (expose_live cfg s e (or_intror Hl))).
    unfold bind at 1. unfold get. rewrite Hp.
    eexists. split; [reflexivity|]. simpl. repeat split; reflexivity.
  Qed.

  Definition sources (s : state) (src : list elem) : Prop :=
    forall e, In e src -> ledger s e = Live /\ e < next_elem s.

  (* cloning a slice onto the end of a vector when ANY of the elements' Clone may panic (and the capacity
     computation may refuse): after the unwind the vector is its old contents followed by the clones made
     so far -- each held exactly once, live -- and no pre-existing element has been touched *)
  Theorem push_clones_any : forall src s w l,
    vabs s w l -> sources s src ->
    post (push_clones cfg ncap w src s)
      (fun _ s' =>
         vabs s' w (l ++ zseq (next_elem s) (List.length src)) /\
         next_elem s' = next_elem s + Z.of_nat (List.length src) /\
         (forall e, e < next_elem s -> ledger s' e = ledger s e))
      (fun s' => exists k, (k <= List.length src)%nat /\ vabs s' w (l ++ zseq (next_elem s) k) /\
                           (forall e, e < next_elem s -> ledger s' e = ledger s e)).
  Proof.
    induction src as [|e src IH]; intros s w l Hab Hsrc.
    - simpl. rewrite app_nil_r. split; [exact Hab|]. split; [lia|auto].
    - destruct (vabs_owned cfg s w l Hab) as (Hnd & Hlive & Hold).
      destruct (Hsrc e (or_introl eq_refl)) as (He1 & He2).
      cbn [push_clones].
      destruct (mem e (clone_panics s)) eqn:Hcp.
      { (* this element's Clone panics: nothing has changed but the event log *)
        destruct (clone_elem_panics s e He1 Hcp) as (s1 & Hce & Hh1 & Hv1 & Hl1 & Hn1).
        unfold bind at 1. rewrite Hce. simpl. exists O. split; [lia|]. simpl. rewrite app_nil_r.
        split; [|intros y _; rewrite Hl1; reflexivity].
        eapply (vabs_ext cfg); [exact Hab|exact Hh1|exact Hv1|intros y _; rewrite Hl1; reflexivity|lia]. }
      destruct (clone_elem_spec cfg Htracked s e He1 Hcp) as (s1 & Hce & Hh1 & Hv1 & Hi1 & Hn1 & Hcp1 & Hdp1 & Hl1 & Hp1).
      rewrite (bind_val _ _ _ _ _ Hce).
      set (c := next_elem s) in *.
      assert (Hab1 : vabs s1 w l).
      { eapply (vabs_ext cfg); [exact Hab|exact Hh1|exact Hv1| |lia].
        intros y Hy. rewrite Hl1. unfold upd. destruct (Z.eqb_spec y c); [specialize (Hold y Hy); unfold c in *; lia|reflexivity]. }
      assert (Hlc : ledger s1 c = Live) by (rewrite Hl1; unfold upd; rewrite Z.eqb_refl; reflexivity).
      assert (Hnot : ~ In c l) by (intros Hin; specialize (Hold c Hin); unfold c in Hold; lia).
      pose proof (push_abs cfg ncap Hcfg Hpol Htracked s1 w l c Hab1 Hlc Hnot ltac:(unfold c; lia)) as Hpush.
      assert (Hold1 : forall y, y < c -> ledger s1 y = ledger s y).
      { intros y Hy. rewrite Hl1. unfold upd. destruct (Z.eqb_spec y c); [lia|auto]. }
      eapply post_bind.
      { eapply post_weaken; [exact Hpush|intros u s2 H; exact H|].
        intros s2 (Hab2 & Hd & [_ Hl2]). exists O. split; [lia|]. simpl. rewrite app_nil_r. split; [exact Hab2|].
        intros y Hy. rewrite Hl2 by (intros [<-|[]]; lia). apply (Hold1 y Hy). }
      intros u s2 (Hab2 & [Hn2 Hl2] & _).
      assert (Hsrc2 : sources s2 src).
      { intros y Hy. destruct (Hsrc y (or_intror Hy)) as (A & B). split.
        - rewrite Hl2 by (intros []). rewrite (Hold1 y B). exact A.
        - rewrite Hn2, Hn1. lia. }
      specialize (IH s2 w (l ++ [c]) Hab2 Hsrc2).
      assert (Hns2 : next_elem s2 = c + 1) by (rewrite Hn2; exact Hn1).
      eapply post_weaken; [exact IH| |].
      + intros u' s3 (G1 & G2 & G3).
        rewrite <- app_assoc in G1. rewrite Hns2 in G1. split; [exact G1|].
        split; [cbn [List.length]; lia|].
        intros y Hy. rewrite G3 by lia. rewrite Hl2 by (intros []). apply Hold1. exact Hy.
      + intros s3 (k & Hk & G1 & G2). exists (S k). split; [cbn [List.length]; lia|].
        rewrite <- app_assoc in G1. rewrite Hns2 in G1. split; [exact G1|].
        intros y Hy. rewrite G2 by lia. rewrite Hl2 by (intros []). apply (Hold1 y Hy).
  Qed.

  Theorem extend_from_slice_any s w l src :
    vabs s w l -> sources s src ->
    post (extend_from_slice cfg ncap w src s)
      (fun _ s' =>
         vabs s' w (l ++ zseq (next_elem s) (List.length src)) /\
         next_elem s' = next_elem s + Z.of_nat (List.length src) /\
         (forall e, e < next_elem s -> ledger s' e = ledger s e))
      (fun s' => exists k, (k <= List.length src)%nat /\ vabs s' w (l ++ zseq (next_elem s) k) /\
                           (forall e, e < next_elem s -> ledger s' e = ledger s e)).
  Proof.
    intros Hab Hsrc. unfold extend_from_slice.
    eapply post_bind.
    { eapply post_weaken; [apply (capop_abs cfg ncap Hcfg Hpol s w l (CReserve (Z.of_nat (List.length src))) Hab); simpl; lia| |].
      - intros u s1 H. exact H.
      - intros s1 ->. exists O. split; [lia|]. simpl. rewrite app_nil_r. split; [exact Hab|auto]. }
    intros u s1 (Hab1 & [Hn1 Hl1] & _).
    assert (Hsrc1 : sources s1 src).
    { intros e He. destruct (Hsrc e He) as (A & B). split; [rewrite Hl1 by (intros []); exact A|lia]. }
    eapply post_weaken; [apply (push_clones_any src s1 w l Hab1 Hsrc1)| |].
    - intros u' s2 (G1 & G2 & G3). rewrite Hn1 in *. split; [exact G1|]. split; [exact G2|].
      intros e He. rewrite G3 by exact He. apply Hl1. intros [].
    - intros s2 (k & Hk & G1 & G2). rewrite Hn1 in *. exists k. split; [exact Hk|]. split; [exact G1|].
      intros e He. rewrite G2 by exact He. apply Hl1. intros [].
  Qed.
End CloneSlice.
