(* Proofs/RetainSpec.v -- what retain computes: for ANY predicate script the loop keeps, in their
   original order at the front, exactly the elements the predicate accepted; the rejected ones sit
   (in some order) between the kept prefix and the read cursor; the untested ones are where they
   were.  So retain = "filter by the predicate, destroy the rest", and a predicate panic leaves a
   permutation of the original elements. *)
From Coq Require Import ZArith List Bool Lia Permutation.
From MV Require Import Ast Eval Scalar Machine.
From MV.Proofs Require Import Arith Logic Prim View OpsLocal Guards Drops Retain.
Import ListNotations.
Open Scope Z_scope.

Section RetainSpec.
  Variable cfg : tcfg.
  Hypothesis Hcfg : cfg_ok cfg.

  (* (kept, rejected, did the predicate panic, untested) *)
  Fixpoint rspec (rest : list elem) (sc : list answer) : list elem * list elem * bool * list elem :=
    match rest with
    | [] => ([], [], false, [])
    | e :: r =>
        let '(x, sc') := pop_script sc A_T in
        if x =? A_P then ([], [], true, e :: r) else
        let '(k, j, p, u) := rspec r sc' in
        if x =? A_F then (k, e :: j, p, u) else (e :: k, j, p, u)
    end.

  Definition rinv (s0 s : state) (v b : nat) (bl0 : block) (l read write : Z) (kept rej : list elem) : Prop :=
    exists bl, vec_at s v b bl /\ block_ok cfg bl /\ h_len bl = l /\ h_cap bl = h_cap bl0 /\
               h_align bl = h_align bl0 /\ b_size bl = b_size bl0 /\ b_align bl = b_align bl0 /\
               init_upto (slots bl) l /\
               ledger s = ledger s0 /\ next_elem s = next_elem s0 /\ vecs s = vecs s0 /\ iters s = iters s0 /\
               List.length (heap s) = List.length (heap s0) /\
               (forall b', b' <> b -> nth_error (heap s) b' = nth_error (heap s0) b') /\
               seg (slots bl) 0 write = kept /\
               Permutation (seg (slots bl) write (read - write)) rej /\
               seg (slots bl) read (l - read) = seg (slots bl0) read (l - read).

  Lemma seg_nil f i n : n <= 0 -> seg f i n = [].
  Proof. intros H. unfold seg. replace (Z.to_nat n) with O by lia. reflexivity. Qed.

  Lemma seg_cons f i n : 0 < n -> seg f i n = slot_elem (f i) :: seg f (i + 1) (n - 1).
  Proof.
    intros H. replace n with (1 + (n - 1)) at 1 by lia. rewrite seg_app by lia. rewrite seg_one. reflexivity.
  Qed.

  Lemma seg_snoc f i n : 0 <= n -> seg f i (n + 1) = seg f i n ++ [slot_elem (f (i + n))].
  Proof. intros H. rewrite seg_app by lia. rewrite seg_one. reflexivity. Qed.

  Theorem retain_loop_fn v b bl0 l off s0 (Hco : canon_off bl0 = Some off)
      (Hlive : forall e, In e (view (slots bl0) l) -> tracked cfg = false \/ ledger s0 e = Live) :
    forall fuel s read write sc kept rej,
    rinv s0 s v b bl0 l read write kept rej -> 0 <= write <= read -> read <= l -> (Z.to_nat (l - read) <= fuel)%nat ->
    Permutation (kept ++ rej ++ seg (slots bl0) read (l - read)) (view (slots bl0) l) ->
    let '(k, j, p, u) := rspec (seg (slots bl0) read (l - read)) sc in
    post (retain_loop cfg fuel (PElt b off 0) l read write sc s)
      (fun w s' => p = false /\ w = write + Z.of_nat (List.length k) /\ rinv s0 s' v b bl0 l l w (kept ++ k) (rej ++ j))
      (fun s' => p = true /\ exists read' write', 0 <= write' <= read' /\ read' <= l /\
                              rinv s0 s' v b bl0 l read' write' (kept ++ k) (rej ++ j) /\
                              seg (slots bl0) read' (l - read') = u).
  Proof.
    induction fuel as [|fuel IH]; intros s read write sc kept rej Hinv Hwr Hrl Hfuel Hperm.
    - assert (read = l) by lia. subst read. rewrite seg_nil by lia. simpl.
      split; [reflexivity|]. split; [lia|]. rewrite !app_nil_r. exact Hinv.
    - destruct (Z.leb_spec l read) as [Hdone|Hmore].
      { assert (read = l) by lia. subst read. rewrite seg_nil by lia. cbn [rspec retain_loop].
        assert (E : (l <=? l) = true) by (apply Z.leb_le; lia). rewrite E. simpl.
        split; [reflexivity|]. split; [lia|]. rewrite !app_nil_r. exact Hinv. }
      rewrite (seg_cons (slots bl0) read (l - read)) by lia. cbn [rspec retain_loop].
      assert (E : (l <=? read) = false) by (apply Z.leb_gt; lia). rewrite E.
      destruct Hinv as (bl & Hv & Hb & Hlen & Hcap & Hal & Hsz & Hbal & Hinit & Hled & Hnx & Hvecs & Hit & Hhl & Hoth & Hk & Hr & Hu).
      assert (Hco' : canon_off bl = Some off) by (unfold canon_off in *; rewrite Hbal; exact Hco).
      pose proof (bo_len _ _ Hb) as Hlb. rewrite Hlen in Hlb.
      simpl padd. rewrite ?Z.add_0_l.
      assert (Rr : 0 <= read < h_cap bl) by lia.
      destruct (Hinit read ltac:(lia)) as [er Her].
      (* the element under the read cursor is the original one *)
      assert (Hhd : slot_elem (slots bl read) = slot_elem (slots bl0 read) /\
                    seg (slots bl) (read + 1) (l - read - 1) = seg (slots bl0) (read + 1) (l - read - 1)).
      { rewrite (seg_cons (slots bl) read (l - read)) in Hu by lia. rewrite (seg_cons (slots bl0) read (l - read)) in Hu by lia.
        injection Hu as Ha Hb'. split; assumption. }
      destruct Hhd as [Hhd Hu'].
      assert (Her0 : slot_elem (slots bl0 read) = er) by (rewrite <- Hhd, Her; reflexivity).
      pose proof (slot_read_at cfg s b bl off read Hcfg (proj2 Hv) Hb Hco' Rr) as Hrd. rewrite Her in Hrd.
      rewrite (bind_val _ _ _ _ _ Hrd).
      assert (HerIn : In er (view (slots bl0) l)).
      { eapply Permutation_in; [exact Hperm|]. apply in_or_app. right. apply in_or_app. right.
        rewrite (seg_cons (slots bl0) read (l - read)) by lia. left. exact Her0. }
      assert (Hexp : tracked cfg = false \/ ledger s er = Live) by (rewrite Hled; apply Hlive; exact HerIn).
      rewrite (bind_val _ _ _ _ _ (expose_live cfg s er Hexp)).
      destruct (emit_keeps (EvCall "p" [er]) s) as (s1 & Hem & Hh1 & Hv1 & Hl1 & Hi1 & Hnx1).
      rewrite (bind_val _ _ _ _ _ Hem).
      assert (Hn1 : nth_error (heap s1) b = Some bl) by (rewrite Hh1; exact (proj2 Hv)).
      assert (Hbase : forall bl' s', heap s' = list_set (heap s1) b bl' \/ (bl' = bl /\ heap s' = heap s1) ->
                vecs s' = vecs s1 -> ledger s' = ledger s1 -> iters s' = iters s1 -> next_elem s' = next_elem s1 ->
                vec_at s' v b bl' /\ ledger s' = ledger s0 /\ next_elem s' = next_elem s0 /\ vecs s' = vecs s0 /\ iters s' = iters s0 /\
                List.length (heap s') = List.length (heap s0) /\
                (forall b', b' <> b -> nth_error (heap s') b' = nth_error (heap s0) b')).
      { intros bl' s' Hh' Hv' Hl' Hi' Hn'. split.
        { split; [rewrite Hv', Hv1; exact (proj1 Hv)|].
          destruct Hh' as [Hh'|[-> Hh']]; rewrite Hh'; [apply list_set_same; apply nth_error_Some; rewrite Hn1; discriminate|exact Hn1]. }
        split; [congruence|]. split; [congruence|]. split; [congruence|]. split; [congruence|].
        destruct Hh' as [Hh'|[_ Hh']]; rewrite Hh'.
        - split; [rewrite list_set_length, Hh1; exact Hhl|]. intros b' Hb'. rewrite list_set_other by congruence. rewrite Hh1. apply Hoth. exact Hb'.
        - split; [rewrite Hh1; exact Hhl|]. intros b' Hb'. rewrite Hh1. apply Hoth. exact Hb'. }
      destruct (pop_script sc A_T) as [x sc'] eqn:Eps. rewrite Her0.
      destruct (Z.eqb_spec x A_P) as [EP|NP].
      { (* the predicate panics: everything is still there *)
        simpl. split; [reflexivity|]. exists read, write. rewrite !app_nil_r. split; [lia|]. split; [lia|]. split.
        - destruct (Hbase bl s1 (or_intror (conj eq_refl eq_refl)) eq_refl eq_refl eq_refl eq_refl) as (B1 & B2 & B3 & B4 & B5 & B6 & B7).
          exists bl. split; [exact B1|]. split; [exact Hb|]. split; [exact Hlen|]. split; [exact Hcap|]. split; [exact Hal|]. split; [exact Hsz|]. split; [exact Hbal|]. split; [exact Hinit|]. split; [exact B2|]. split; [exact B3|]. split; [exact B4|]. split; [exact B5|]. split; [exact B6|]. split; [exact B7|]. split; [exact Hk|]. split; [exact Hr|exact Hu].
        - rewrite (seg_cons (slots bl0) read (l - read)) by lia. rewrite Her0. reflexivity. }
      specialize (IH) .
      destruct (Z.eqb_spec x A_F) as [EF|NF]; cbn [negb].
      + (* rejected: stays where it is, now part of the rejected segment *)
        assert (Hinv1 : rinv s0 s1 v b bl0 l (read + 1) write kept (rej ++ [er])).
        { destruct (Hbase bl s1 (or_intror (conj eq_refl eq_refl)) eq_refl eq_refl eq_refl eq_refl) as (B1 & B2 & B3 & B4 & B5 & B6 & B7).
          exists bl. split; [exact B1|]. split; [exact Hb|]. split; [exact Hlen|]. split; [exact Hcap|]. split; [exact Hal|]. split; [exact Hsz|]. split; [exact Hbal|]. split; [exact Hinit|]. split; [exact B2|]. split; [exact B3|]. split; [exact B4|]. split; [exact B5|]. split; [exact B6|]. split; [exact B7|]. split; [exact Hk|]. split; [|replace (l - (read + 1)) with (l - read - 1) by lia; exact Hu'].
          replace (read + 1 - write) with ((read - write) + 1) by lia. rewrite seg_snoc by lia.
          replace (write + (read - write)) with read by lia. rewrite Her. cbn [slot_elem].
          apply Permutation_app_tail. exact Hr. }
        specialize (IH s1 (read + 1) write sc' kept (rej ++ [er]) Hinv1 ltac:(lia) ltac:(lia) ltac:(lia)).
        replace (l - (read + 1)) with (l - read - 1) in IH by lia.
        assert (Hperm1 : Permutation (kept ++ (rej ++ [er]) ++ seg (slots bl0) (read + 1) (l - read - 1)) (view (slots bl0) l)).
        { etransitivity; [|exact Hperm]. rewrite (seg_cons (slots bl0) read (l - read)) by lia. rewrite Her0.
          rewrite <- !app_assoc. reflexivity. }
        specialize (IH Hperm1).
        destruct (rspec (seg (slots bl0) (read + 1) (l - read - 1)) sc') as [[[k j] p] u].
        eapply post_weaken; [exact IH| |].
        * intros w s' (Hp & Hw & Hi'). split; [exact Hp|]. split; [exact Hw|]. rewrite <- app_assoc in Hi'. exact Hi'.
        * intros s' (Hp & r' & w' & Hb1' & Hb2' & Hi' & Hu''). split; [exact Hp|]. exists r', w'. rewrite <- app_assoc in Hi'. split; [exact Hb1'|]. split; [exact Hb2'|]. split; [exact Hi'|exact Hu''].
      + (* accepted: moved to the write cursor *)
        destruct (Z.eqb_spec read write) as [Erw|Nrw]; cbn [negb].
        * (* in place *)
          rewrite bind_ret. subst write.
          assert (Hinv1 : rinv s0 s1 v b bl0 l (read + 1) (read + 1) (kept ++ [er]) rej).
          { destruct (Hbase bl s1 (or_intror (conj eq_refl eq_refl)) eq_refl eq_refl eq_refl eq_refl) as (B1 & B2 & B3 & B4 & B5 & B6 & B7).
            exists bl. split; [exact B1|]. split; [exact Hb|]. split; [exact Hlen|]. split; [exact Hcap|]. split; [exact Hal|]. split; [exact Hsz|]. split; [exact Hbal|]. split; [exact Hinit|]. split; [exact B2|]. split; [exact B3|]. split; [exact B4|]. split; [exact B5|]. split; [exact B6|]. split; [exact B7|]. split.
            - rewrite seg_snoc by lia. rewrite Hk, Z.add_0_l, Her. reflexivity.
            - split; [|replace (l - (read + 1)) with (l - read - 1) by lia; exact Hu'].
              replace (read + 1 - (read + 1)) with 0 by lia. rewrite seg_nil by lia.
              replace (read - read) with 0 in Hr by lia. rewrite seg_nil in Hr by lia. exact Hr. }
          specialize (IH s1 (read + 1) (read + 1) sc' (kept ++ [er]) rej Hinv1 ltac:(lia) ltac:(lia) ltac:(lia)).
          replace (l - (read + 1)) with (l - read - 1) in IH by lia.
          assert (Hperm1 : Permutation ((kept ++ [er]) ++ rej ++ seg (slots bl0) (read + 1) (l - read - 1)) (view (slots bl0) l)).
          { etransitivity; [|exact Hperm]. rewrite (seg_cons (slots bl0) read (l - read)) by lia. rewrite Her0.
            rewrite <- app_assoc. apply Permutation_app_head. cbn [app]. apply Permutation_middle. }
          specialize (IH Hperm1).
          destruct (rspec (seg (slots bl0) (read + 1) (l - read - 1)) sc') as [[[k j] p] u].
          eapply post_weaken; [exact IH| |].
          -- intros w s' (Hp & Hw & Hi'). split; [exact Hp|]. split; [cbn [List.length]; lia|]. rewrite <- app_assoc in Hi'. exact Hi'.
          -- intros s' (Hp & r' & w' & Hb1' & Hb2' & Hi' & Hu''). split; [exact Hp|]. exists r', w'. rewrite <- app_assoc in Hi'. split; [exact Hb1'|]. split; [exact Hb2'|]. split; [exact Hi'|exact Hu''].
        * (* swapped with the first rejected element *)
          assert (Rw : 0 <= write < h_cap bl) by lia.
          destruct (Hinit write ltac:(lia)) as [ew Hew].
          simpl padd. rewrite ?Z.add_0_l.
          rewrite (bind_val _ _ _ _ _ (slot_swap_at cfg Hcfg s1 b bl off read write er ew Hn1 Hb Hco' Rw Rr Her Hew)).
          set (sl2 := upd (upd (slots bl) read (slots bl write)) write (slots bl read)).
          set (bl2 := with_slots bl sl2).
          assert (Hsl_w : sl2 write = Init er) by (unfold sl2, upd; rewrite Z.eqb_refl; exact Her).
          assert (Hsl_r : sl2 read = Init ew).
          { unfold sl2, upd. destruct (Z.eqb_spec read write); [lia|]. rewrite Z.eqb_refl. exact Hew. }
          assert (Hsl_o : forall k, k <> write -> k <> read -> sl2 k = slots bl k).
          { intros k H1 H2. unfold sl2, upd. destruct (Z.eqb_spec k write); [lia|]. destruct (Z.eqb_spec k read); [lia|]. reflexivity. }
          assert (Hinv1 : rinv s0 (upd_block s1 b bl2) v b bl0 l (read + 1) (write + 1) (kept ++ [er]) rej).
          { destruct (Hbase bl2 (upd_block s1 b bl2) (or_introl eq_refl) eq_refl eq_refl eq_refl eq_refl) as (B1 & B2 & B3 & B4 & B5 & B6 & B7).
            exists bl2. split; [exact B1|]. split; [apply block_ok_with_slots; exact Hb|].
            split; [exact Hlen|]. split; [exact Hcap|]. split; [exact Hal|]. split; [exact Hsz|]. split; [exact Hbal|].
            split.
            { simpl. intros k Hk'. destruct (Z.eq_dec k write) as [->|N1]; [rewrite Hsl_w; eauto|].
              destruct (Z.eq_dec k read) as [->|N2]; [rewrite Hsl_r; eauto|]. rewrite Hsl_o by assumption. apply Hinit. exact Hk'. }
            split; [exact B2|]. split; [exact B3|]. split; [exact B4|]. split; [exact B5|]. split; [exact B6|]. split; [exact B7|].
            split.
            { change (slots bl2) with sl2. rewrite seg_snoc by lia. rewrite Z.add_0_l, Hsl_w. cbn [slot_elem]. f_equal.
              rewrite <- Hk. apply seg_ext. intros k Hk'. apply Hsl_o; lia. }
            split.
            { change (slots bl2) with sl2.
              (* old rejected segment [write, read) = ew :: middle; new one [write+1, read+1) = middle ++ [ew] *)
              replace (read + 1 - (write + 1)) with ((read - write - 1) + 1) by lia. rewrite seg_snoc by lia.
              replace (write + 1 + (read - write - 1)) with read by lia. rewrite Hsl_r. cbn [slot_elem].
              rewrite (seg_cons (slots bl) write (read - write)) in Hr by lia. rewrite Hew in Hr. cbn [slot_elem] in Hr.
              etransitivity; [|exact Hr]. etransitivity; [apply Permutation_sym; apply Permutation_cons_append|].
              constructor. erewrite seg_ext; [reflexivity|]. intros k Hk'. apply Hsl_o; lia. }
            replace (l - (read + 1)) with (l - read - 1) by lia. rewrite <- Hu'.
            change (slots bl2) with sl2. apply seg_ext. intros k Hk'. apply Hsl_o; lia. }
          specialize (IH (upd_block s1 b bl2) (read + 1) (write + 1) sc' (kept ++ [er]) rej Hinv1 ltac:(lia) ltac:(lia) ltac:(lia)).
          replace (l - (read + 1)) with (l - read - 1) in IH by lia.
          assert (Hperm1 : Permutation ((kept ++ [er]) ++ rej ++ seg (slots bl0) (read + 1) (l - read - 1)) (view (slots bl0) l)).
          { etransitivity; [|exact Hperm]. rewrite (seg_cons (slots bl0) read (l - read)) by lia. rewrite Her0.
            rewrite <- app_assoc. apply Permutation_app_head. cbn [app]. apply Permutation_middle. }
          specialize (IH Hperm1).
          destruct (rspec (seg (slots bl0) (read + 1) (l - read - 1)) sc') as [[[k j] p] u].
          eapply post_weaken; [exact IH| |].
          -- intros w s' (Hp & Hw & Hi'). split; [exact Hp|]. split; [cbn [List.length]; lia|]. rewrite <- app_assoc in Hi'. exact Hi'.
          -- intros s' (Hp & r' & w' & Hb1' & Hb2' & Hi' & Hu''). split; [exact Hp|]. exists r', w'. rewrite <- app_assoc in Hi'. split; [exact Hb1'|]. split; [exact Hb2'|]. split; [exact Hi'|exact Hu''].
  Qed.

  (* the split is a partition of the input *)
  Lemma rspec_perm : forall rest sc,
    let '(k, j, p, u) := rspec rest sc in Permutation (k ++ j ++ u) rest /\ (p = false -> u = []).
  Proof.
    induction rest as [|e r IH]; intros sc; simpl; [split; [constructor|reflexivity]|].
    destruct (pop_script sc A_T) as [x sc'].
    destruct (x =? A_P); [simpl; split; [reflexivity|discriminate]|].
    specialize (IH sc'). destruct (rspec r sc') as [[[k j] p] u]. destruct IH as [IH1 IH2].
    destruct (x =? A_F); simpl; (split; [|exact IH2]).
    - etransitivity; [apply Permutation_sym; apply Permutation_middle|]. constructor. exact IH1.
    - constructor. exact IH1.
  Qed.
End RetainSpec.

(* a predicate that never panics: retain is List.filter (over the element/answer pairs) *)
Definition ans_of (b : bool) : answer := if b then A_T else A_F.

Lemma rspec_filter : forall l bs, List.length bs = List.length l ->
  rspec l (map ans_of bs) =
    (map fst (filter snd (combine l bs)), map fst (filter (fun x => negb (snd x)) (combine l bs)), false, []).
Proof.
  induction l as [|e r IH]; intros [|b bs] H; try discriminate H; [reflexivity|].
  injection H as H. cbn [rspec map pop_script combine filter snd fst].
  assert (E : (ans_of b =? A_P) = false) by (destruct b; reflexivity). rewrite E.
  rewrite (IH bs H). destruct b; reflexivity.
Qed.
