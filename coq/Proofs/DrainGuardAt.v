(* Proofs/DrainGuardAt.v -- what the Drop code of Drain's guard does, proved about the functions the
   regenerated source is tied to (DrainAt.drain_rest_at / drain_guard_at, EquivDropGuard.v): on a
   well-formed Drain object, whatever is left of the window is destroyed exactly once, the tail is moved
   back and the length restored -- the vector is prefix ++ suffix (DrainIt.drain_gone), the same
   statement DrainIt.v proves about the value-passing drain_guard that the run executes; and the
   loops never run out of fuel once the fuel exceeds the window. *)
From Coq Require Import ZArith List Bool Lia.
From MV Require Import Ast Eval Scalar Machine DrainAt.
From MV.Proofs Require Import Arith Logic Prim View OpsLocal Guards Grow Drops Retain DrainIt Deref IntoIt IterAt.
Import ListNotations.
Open Scope Z_scope.

Section DrainGuardAt.
  Variable cfg : tcfg.
  Hypothesis Hcfg : cfg_ok cfg.
  Hypothesis Htracked : needs_drop cfg = true.

  Lemma iter_get_iters s s' i it :
    iters s' = iters s -> iter_get i s = (Val it, s) -> iter_get i s' = (Val it, s').
  Proof.
    unfold iter_get. intros E H. rewrite E.
    destruct (nth_error (iters s) i) as [[x|]|]; try discriminate. inversion H; subst. reflexivity.
  Qed.

  Lemma iter_get_with_iter s i it : iter_get i (with_iter s i it) = (Val it, with_iter s i it).
  Proof. unfold iter_get, with_iter. cbn. rewrite list_put_same. try reflexivity. Qed.

  Lemma drain_inv_with_iter s i it d b bl off a j r :
    drain_inv cfg s d b bl off a j r -> drain_inv cfg (with_iter s i it) d b bl off a j r.
  Proof.
    intros [Hv Hb Hco Hp He Hr Ho Hi]. constructor; auto; apply vec_at_with_iter; exact Hv.
  Qed.

  (* what the loop leaves: the object is a Drain whose window is empty; the window's elements are
     destroyed, nothing else in the ledger moved *)
  Definition rest_done (s : state) (i0 : nat) (d : drain_it) b bl off (i j r : Z) (s' : state) : Prop :=
    exists d', iter_get i0 s' = (Val (IDrain d'), s') /\
               drain_inv cfg s' d' b bl off j j r /\ d_rem d' = d_rem d /\ d_vec d' = d_vec d /\
               (forall e, In e (window bl i j) -> ledger s' e = Dropped) /\
               (forall e, ~ In e (window bl i j) -> ledger s' e = ledger s e) /\
               next_elem s' = next_elem s.

  Lemma drain_rest_at_spec : forall fuel s i0 d b bl off i j r,
    iter_get i0 s = (Val (IDrain d), s) ->
    drain_inv cfg s d b bl off i j r -> (Z.to_nat (j - i) < fuel)%nat ->
    NoDup (window bl i j) -> (forall e, In e (window bl i j) -> ledger s e = Live) ->
    post (drain_rest_at cfg fuel i0 s) (fun _ s' => rest_done s i0 d b bl off i j r s') (fun _ => True).
  Proof.
    induction fuel as [|fuel IH]; intros s i0 d b bl off i j r Hi0 Hinv Hf Hnd Hlive; [lia|].
    cbn [drain_rest_at].
    destruct (drain_next_at_eq cfg Hcfg s i0 d b bl off i j r Hi0 Hinv) as (o & d1 & Hn & Hat).
    rewrite (drain_next_spec cfg Hcfg _ _ _ _ _ _ _ _ Hinv) in Hn.
    rewrite (bind_val _ _ _ _ _ Hat).
    destruct (Z.ltb_spec i j) as [L|G]; inversion Hn; subst o d1; clear Hn.
    - rewrite (window_cons bl i j L) in *.
      set (e := slot_elem (slots bl i)) in *.
      set (sa := with_iter s i0 (IDrain (with_pos d (PElt b off (i + 1))))).
      inversion Hnd as [|? ? Hnin Hnd']; subst.
      assert (Hla : ledger sa e = Live) by (apply (Hlive e); left; reflexivity).
      destruct (drop_elem_live cfg Htracked sa e Hla) as (s1 & Hd1 & He1).
      unfold bind at 1. rewrite He1.
      destruct (mem e (drop_panics sa)); [simpl; exact I|].
      pose proof (drain_inv_front cfg _ _ _ _ _ _ _ _ Hinv L) as Hinv1.
      pose proof (drain_inv_with_iter s i0 (IDrain (with_pos d (PElt b off (i + 1)))) _ _ _ _ _ _ _ Hinv1) as Hinva.
      fold sa in Hinva.
      pose proof (drain_inv_destroyed cfg _ _ _ _ _ _ _ _ _ _ Hinva Hd1) as Hinv1'.
      assert (Hi1 : iter_get i0 s1 = (Val (IDrain (with_pos d (PElt b off (i + 1)))), s1)).
      { apply (iter_get_iters sa s1); [exact (ds_iters _ _ _ Hd1)|apply iter_get_with_iter]. }
      eapply post_weaken; [apply (IH s1 i0 _ b bl off (i + 1) j r Hi1 Hinv1' ltac:(lia) Hnd')| |auto].
      + intros x Hx. rewrite (ds_out _ _ _ Hd1) by (intros [<-|[]]; contradiction). apply (Hlive x). right. exact Hx.
      + intros u s' Hx. unfold rest_done in Hx |- *. destruct Hx as (d' & Hg & Hi2 & H3 & H4 & H5 & H6 & H7).
        exists d'. split; [exact Hg|]. split; [exact Hi2|]. split; [exact H3|]. split; [exact H4|].
        split; [|split].
        * intros x Hx0. rewrite (window_cons bl i j L) in Hx0. fold e in Hx0.
          destruct Hx0 as [<-|Hx]; [|apply H5; exact Hx].
          rewrite H6 by exact Hnin. apply (ds_in _ _ _ Hd1). left. reflexivity.
        * intros x Hx. rewrite (window_cons bl i j L) in Hx. fold e in Hx.
          rewrite H6 by (intros H; apply Hx; right; exact H).
          rewrite (ds_out _ _ _ Hd1) by (intros [<-|[]]; apply Hx; left; reflexivity). reflexivity.
        * rewrite H7. rewrite (ds_next _ _ _ Hd1). reflexivity.
    - simpl. unfold rest_done. rewrite (window_nil bl i j G).
      assert (i = j) by (destruct Hinv as [_ _ _ _ _ _ Ho _]; lia). subst.
      exists d. split; [exact Hi0|]. split; [exact Hinv|]. split; [reflexivity|]. split; [reflexivity|].
      split; [intros e []|]. split; [intros; reflexivity|reflexivity].
  Qed.

  (* the tail of DropGuard::drop read from the object = DrainIt.guard_tail of the object's value *)
  Definition tail_at (i : nat) : M unit :=
    d <- drain_of i ;;
    if 0 <? d_rem d then
      d0 <- drain_of i ;;
      let v := d_vec d0 in
      vl <- len v ;;
      d1 <- drain_of i ;;
      p <- as_ptr cfg v ;;
      d2 <- drain_of i ;;
      slot_copy cfg (d_rpos d1) (padd cfg p vl) (d_rem d2) ;;;
      d3 <- drain_of i ;;
      n <- uadd cfg vl (d_rem d3) ;;
      set_len v n
    else ret tt.

  Lemma drain_guard_at_unfold fuel i : drain_guard_at cfg fuel i = bind (drain_rest_at cfg fuel i) (fun _ => tail_at i).
  Proof. reflexivity. Qed.

  Lemma uadd_lt a b s : a + b < W64 -> uadd cfg a b s = (Val (a + b), s).
  Proof. intros H. unfold uadd. assert (E : (a + b <? W64) = true) by (apply Z.ltb_lt; lia). rewrite E. reflexivity. Qed.

  Lemma tail_at_eq s i0 d b bl off i r :
    iter_get i0 s = (Val (IDrain d), s) -> drain_inv cfg s d b bl off i i r ->
    tail_at i0 s = guard_tail cfg d s.
  Proof.
    intros Hi0 Hinv.
    pose proof Hinv as [Hv Hb Hco Hp He Hr Ho Hi].
    pose proof (bo_len _ _ Hb) as Hlen. pose proof (bo_cap _ _ Hb) as Hcap.
    pose proof (drain_of_at s i0 d Hi0) as Hof.
    unfold tail_at, guard_tail.
    rewrite (bind_val _ _ _ _ _ Hof).
    destruct (Z.ltb_spec 0 (d_rem d)) as [Hpos|Hz]; [|reflexivity].
    rewrite (bind_val _ _ _ _ _ Hof). cbv zeta.
    rewrite !(bind_val _ _ _ _ _ (len_at cfg _ _ _ _ Hcfg Hv Hb)).
    rewrite (bind_val _ _ _ _ _ Hof).
    destruct (as_ptr_at cfg _ _ _ _ Hcfg Hv Hb) as (off' & Hco' & Hpt).
    rewrite Hco in Hco'. inversion Hco'; subst off'.
    rewrite !(bind_val _ _ _ _ _ Hpt).
    rewrite (bind_val _ _ _ _ _ Hof).
    rewrite Hr. simpl padd. rewrite ?Z.add_0_l.
    set (n := d_rem d) in *.
    assert (Hcopy : slot_copy cfg (PElt b off r) (PElt b off (h_len bl)) n s =
                    (Val tt, upd_block s b (with_slots bl (fun k => if (h_len bl <=? k) && (k <? h_len bl + n) then slots bl (k - h_len bl + r) else slots bl k)))).
    { apply (slot_copy_at cfg s b bl off r (h_len bl) n Hcfg (proj2 Hv) Hb Hco); lia. }
    rewrite !(bind_val _ _ _ _ _ Hcopy).
    match goal with |- context [upd_block s b ?blx] => set (bl1 := blx) end.
    assert (Hof1 : drain_of i0 (upd_block s b bl1) = (Val d, upd_block s b bl1)).
    { apply drain_of_at. apply (iter_get_iters s); [reflexivity|exact Hi0]. }
    rewrite (bind_val _ _ _ _ _ Hof1).
    rewrite (bind_val _ _ _ _ _ (uadd_lt (h_len bl) (d_rem d) _ ltac:(unfold n in *; lia))).
    reflexivity.
  Qed.

  (* DropGuard::drop on the object: the vector is prefix ++ suffix, the window destroyed once *)
  Theorem drain_guard_at_spec fuel s i0 d b bl off i j r :
    iter_get i0 s = (Val (IDrain d), s) ->
    drain_inv cfg s d b bl off i j r -> (Z.to_nat (j - i) < fuel)%nat ->
    NoDup (window bl i j) -> (forall e, In e (window bl i j) -> ledger s e = Live) ->
    post (drain_guard_at cfg fuel i0 s) (fun _ s' => drain_gone cfg s s' d b bl i j r) (fun _ => True).
  Proof.
    intros Hi0 Hinv Hf Hnd Hlive. rewrite drain_guard_at_unfold.
    eapply post_bind.
    { apply (drain_rest_at_spec fuel s i0 d b bl off i j r Hi0 Hinv Hf Hnd Hlive). }
    intros u s1 Hx. unfold rest_done in Hx. destruct Hx as (d' & Hg & Hinv' & Hrem & Hvec & Hin & Hout & Hnext).
    rewrite (tail_at_eq s1 i0 d' b bl off j r Hg Hinv').
    destruct (guard_tail_spec cfg Hcfg s1 d' b bl off j r Hinv') as (s' & Hgt & Hv' & Hfr & Hb' & Hvel & Hini).
    rewrite Hgt. simpl.
    rewrite Hvec in Hv'. rewrite Hrem in Hv', Hb', Hvel, Hini. eexists. split; [exact Hv'|]. split; [exact Hb'|].
    split; [exact Hvel|]. split; [exact Hini|].
    split; [|split].
    - intros e He. rewrite (fb_ledger _ _ _ Hfr). apply Hin. exact He.
    - intros e He. rewrite (fb_ledger _ _ _ Hfr). apply Hout. exact He.
    - rewrite (fb_next _ _ _ Hfr). exact Hnext.
  Qed.

  (* impl Drop for Drain on the object, with ANY set of panicking destructors: in every outcome other
     than the abort of a double panic the vector is prefix ++ suffix and the window has been destroyed
     exactly once -- also when a destructor panics half way (the guard finishes the job) *)
  Theorem drain_drop_at_spec gfuel : forall fuel s i0 d b bl off i j r,
    iter_get i0 s = (Val (IDrain d), s) ->
    drain_inv cfg s d b bl off i j r -> (Z.to_nat (j - i) < fuel)%nat -> (Z.to_nat (j - i) < gfuel)%nat ->
    NoDup (window bl i j) -> (forall e, In e (window bl i j) -> ledger s e = Live) ->
    post (bind (drain_drop_loop_at cfg fuel gfuel i0) (fun _ => drain_guard_at cfg gfuel i0) s)
      (fun _ s' => drain_gone cfg s s' d b bl i j r) (fun s' => drain_gone cfg s s' d b bl i j r).
  Proof.
    induction fuel as [|fuel IH]; intros s i0 d b bl off i j r Hi0 Hinv Hf Hgf Hnd Hlive; [lia|].
    cbn [drain_drop_loop_at]. rewrite bind_assoc.
    destruct (drain_next_at_eq cfg Hcfg s i0 d b bl off i j r Hi0 Hinv) as (o & d1 & Hn & Hat).
    rewrite (drain_next_spec cfg Hcfg _ _ _ _ _ _ _ _ Hinv) in Hn.
    rewrite (bind_val _ _ _ _ _ Hat).
    destruct (Z.ltb_spec i j) as [L|G]; inversion Hn; subst o d1; clear Hn.
    - pose proof (window_cons bl i j L) as Hwc.
      set (e := slot_elem (slots bl i)) in *.
      set (d1 := with_pos d (PElt b off (i + 1))) in *.
      set (sa := with_iter s i0 (IDrain d1)).
      assert (HeIn : In e (window bl i j)) by (rewrite Hwc; left; reflexivity).
      assert (Hnd' : NoDup (window bl (i + 1) j) /\ ~ In e (window bl (i + 1) j)).
      { rewrite Hwc in Hnd. inversion Hnd; subst. split; assumption. }
      destruct Hnd' as [Hnd' Hnin].
      assert (Hla : ledger sa e = Live) by (apply (Hlive e); exact HeIn).
      destruct (drop_elem_live cfg Htracked sa e Hla) as (s1 & Hd1 & He1).
      pose proof (drain_inv_front cfg _ _ _ _ _ _ _ _ Hinv L) as Hinv1.
      pose proof (drain_inv_with_iter s i0 (IDrain d1) _ _ _ _ _ _ _ Hinv1) as Hinva. fold sa in Hinva.
      pose proof (drain_inv_destroyed cfg _ _ _ _ _ _ _ _ _ _ Hinva Hd1) as Hinv1'.
      assert (Hi1 : iter_get i0 s1 = (Val (IDrain d1), s1)).
      { apply (iter_get_iters sa s1); [exact (ds_iters _ _ _ Hd1)|apply iter_get_with_iter]. }
      assert (Hlive1 : forall x, In x (window bl (i + 1) j) -> ledger s1 x = Live).
      { intros x Hx. rewrite (ds_out _ _ _ Hd1) by (intros [<-|[]]; contradiction). apply (Hlive x). rewrite Hwc. right. exact Hx. }
      assert (Hlift : forall s', drain_gone cfg s1 s' d1 b bl (i + 1) j r -> drain_gone cfg s s' d b bl i j r).
      { intros s' (bl' & H1 & H2 & H3 & H4 & H5 & H6 & H7). exists bl'. simpl in *.
        split; [exact H1|]. split; [exact H2|]. split; [exact H3|]. split; [exact H4|]. split; [|split].
        - intros x Hx. rewrite Hwc in Hx. destruct Hx as [<-|Hx].
          + rewrite H6 by exact Hnin. apply (ds_in _ _ _ Hd1). left. reflexivity.
          + apply H5. exact Hx.
        - intros x Hx. rewrite Hwc in Hx.
          rewrite H6 by (intros H; apply Hx; right; exact H).
          rewrite (ds_out _ _ _ Hd1) by (intros [<-|[]]; apply Hx; left; reflexivity). reflexivity.
        - rewrite H7. rewrite (ds_next _ _ _ Hd1). reflexivity. }
      rewrite bind_assoc.
      unfold bind at 1. unfold on_unwind. rewrite He1.
      destruct (mem e (drop_panics sa)).
      + (* the destructor panics: the guard runs as cleanup *)
        pose proof (drain_guard_at_spec gfuel s1 i0 d1 b bl off (i + 1) j r Hi1 Hinv1' ltac:(lia) Hnd' Hlive1) as Hg.
        destruct (drain_guard_at cfg gfuel i0 s1) as [[u| | | | |] s2]; simpl in *; auto.
      + specialize (IH s1 i0 d1 b bl off (i + 1) j r Hi1 Hinv1' ltac:(lia) ltac:(lia) Hnd' Hlive1).
        eapply post_weaken; [exact IH| |]; intros; apply Hlift; assumption.
    - (* the window is empty: the final guard has nothing to destroy and cannot panic *)
      rewrite bind_ret.
      assert (i = j) by (destruct Hinv as [_ _ _ _ _ _ Ho _]; lia). subst j.
      destruct gfuel as [|g]; [lia|].
      rewrite drain_guard_at_unfold. cbn [drain_rest_at]. rewrite bind_assoc.
      rewrite (bind_val _ _ _ _ _ Hat). rewrite bind_ret.
      rewrite (tail_at_eq s i0 d b bl off i r Hi0 Hinv).
      destruct (guard_tail_spec cfg Hcfg s d b bl off i r Hinv) as (s' & Hg & Hv' & Hfr & Hb' & Hvel & Hini).
      rewrite Hg. simpl.
      eexists. split; [exact Hv'|]. split; [exact Hb'|]. split; [exact Hvel|]. split; [exact Hini|].
      rewrite (window_nil bl i i) by lia.
      split; [intros e []|]. split; [intros e _; rewrite (fb_ledger _ _ _ Hfr); reflexivity|exact (fb_next _ _ _ Hfr)].
  Qed.

  Corollary drain_drop_at_machine s i0 d b bl off i j r :
    iter_get i0 s = (Val (IDrain d), s) -> drain_inv cfg s d b bl off i j r ->
    NoDup (window bl i j) -> (forall e, In e (window bl i j) -> ledger s e = Live) ->
    post (drain_drop_at cfg (S (Z.to_nat (j - i))) i0 s)
      (fun _ s' => drain_gone cfg s s' d b bl i j r) (fun s' => drain_gone cfg s s' d b bl i j r).
  Proof.
    intros Hi0 Hinv Hnd Hlive. unfold drain_drop_at.
    apply (drain_drop_at_spec _ _ s i0 d b bl off i j r Hi0 Hinv); [lia|lia|exact Hnd|exact Hlive].
  Qed.
End DrainGuardAt.
