(* Proofs/Extend.v -- growing a vector from an arbitrary iterator: extend(iter) / collect with ANY
   script of the iterator (yields a fresh element / ends / panics, in any order; size hints play no
   role in this loop): the vector is its old contents followed by the elements yielded before the
   first None (or before the panic), in order, each held exactly once; an element whose push is
   refused (capacity overflow) is destroyed; nothing else is touched. *)
From Coq Require Import ZArith List Bool Lia Permutation.
From MV Require Import Ast Eval Scalar Machine.
From MV.Proofs Require Import Arith Logic Prim View OpsLocal Guards Grow CapHistory Drops Retain Sentinel Core Refine Clone.
Import ListNotations.
Open Scope Z_scope.

Section Extend.
  Variable cfg : tcfg.
  Variable ncap : Z -> option Z.
  Hypothesis Hcfg : cfg_ok cfg.
  Hypothesis Hpol : policy_ok ncap.
  Hypothesis Htracked : needs_drop cfg = true.

  Local Notation vabs := (vabs cfg).

  (* vabs only looks at the heap, the names, and the ledger of the listed elements *)
  Lemma vabs_ext s s' v l :
    vabs s v l -> heap s' = heap s -> vecs s' = vecs s ->
    (forall e, In e l -> ledger s' e = ledger s e) -> next_elem s <= next_elem s' -> vabs s' v l.
  Proof.
    intros [[Hs ->]|(b & bl & Hv & Hb & Ho & Hl)] Hh Hvs Hled Hn.
    - left. split; [unfold vec_sentinel in *; rewrite Hvs; exact Hs|reflexivity].
    - right. exists b, bl. split; [destruct Hv as [A B]; split; [rewrite Hvs; exact A|rewrite Hh; exact B]|].
      split; [exact Hb|]. split; [|exact Hl]. destruct Ho as [A B C D]. constructor; auto.
      + intros e He. rewrite Hled by (rewrite <- Hl; exact He). apply C. exact He.
      + intros e He. specialize (D e He). lia.
  Qed.

  (* how many elements the iterator yields before it ends or panics, and whether it panics *)
  Fixpoint yields (sc : list answer) : nat * bool :=
    match sc with
    | [] => (O, false)
    | x :: sc' => if x =? A_P then (O, true)
                  else if x =? A_S then let '(n, p) := yields sc' in (S n, p)
                  else (O, false)
    end.

  Lemma iter_next_some s sc' :
    exists s2, iter_next (A_S :: sc') s = (Val (Some (next_elem s), sc'), s2) /\
               heap s2 = heap s /\ vecs s2 = vecs s /\ ledger s2 = upd (ledger s) (next_elem s) Live /\
               next_elem s2 = next_elem s + 1.
  Proof. eexists. split; [reflexivity|]. simpl. auto. Qed.

  Theorem extend_loop_abs : forall fuel s v l sc,
    vabs s v l -> (List.length sc < fuel)%nat ->
    let '(n, p) := yields sc in
    post (extend_loop cfg ncap fuel v sc s)
      (fun _ s' => p = false /\ vabs s' v (l ++ zseq (next_elem s) n) /\ next_elem s' = next_elem s + Z.of_nat n /\
                   (forall e, e < next_elem s -> ledger s' e = ledger s e))
      (fun s' => exists k, (k <= n)%nat /\ vabs s' v (l ++ zseq (next_elem s) k) /\
                           (forall e, e < next_elem s -> ledger s' e = ledger s e) /\
                           next_elem s <= next_elem s' /\
                           (forall e, next_elem s <= e < next_elem s' ->
                                      In e (zseq (next_elem s) k) \/ ledger s' e = Dropped)).
  Proof.
    induction fuel as [|fuel IH]; intros s v l sc Hab Hfuel; [lia|].
    destruct (vabs_owned cfg s v l Hab) as (Hnd & Hlive & Hold).
    destruct sc as [|x sc']; cbn [yields extend_loop iter_next pop_script].
    - (* the script is exhausted: None *)
      change (A_N =? A_P) with false. change (A_N =? A_S) with false. cbn iota.
      unfold bind, emit, ret. simpl. rewrite app_nil_r.
      split; [reflexivity|]. split; [|split; [simpl; lia|auto]].
      eapply vabs_ext; [exact Hab|reflexivity|reflexivity|auto|simpl; lia].
    - destruct (Z.eqb_spec x A_P) as [EP|NP].
      { (* the iterator panics *)
        unfold bind, emit, panic. simpl. exists O. split; [lia|]. simpl. rewrite app_nil_r.
        split; [eapply vabs_ext; [exact Hab|reflexivity|reflexivity|auto|simpl; lia]|].
        split; [auto|]. split; [lia|]. intros y Hy. lia. }
      destruct (Z.eqb_spec x A_S) as [ES|NS].
      2:{ (* None *)
        unfold bind, emit, ret. simpl. rewrite app_nil_r.
        split; [reflexivity|]. split; [|split; [simpl; lia|auto]].
        eapply vabs_ext; [exact Hab|reflexivity|reflexivity|auto|simpl; lia]. }
      (* Some(fresh element) *)
      subst x. set (e := next_elem s).
      destruct (iter_next_some s sc') as (s2 & Hit & Hh2 & Hv2 & Hl2 & Hn2).
      rewrite (bind_val _ _ _ _ _ Hit). cbn [fst snd].
      assert (Hab2 : vabs s2 v l).
      { eapply vabs_ext; [exact Hab|exact Hh2|exact Hv2| |lia].
        intros y Hy. rewrite Hl2. unfold upd. destruct (Z.eqb_spec y (next_elem s)); [specialize (Hold y Hy); lia|reflexivity]. }
      assert (Hlive2 : ledger s2 e = Live) by (rewrite Hl2; unfold upd, e; rewrite Z.eqb_refl; reflexivity).
      assert (Hnot : ~ In e l) by (intros Hin; specialize (Hold e Hin); unfold e in Hold; lia).
      pose proof (push_abs cfg ncap Hcfg Hpol Htracked s2 v l e Hab2 Hlive2 Hnot ltac:(unfold e; lia)) as Hpush.
      destruct (yields sc') as [n p] eqn:Ey.
      eapply post_bind.
      { eapply post_weaken; [exact Hpush|intros u s3 H; exact H|].
        intros s3 (Hab3 & Hd & Hoc). exists O. split; [lia|]. simpl. rewrite app_nil_r. split; [exact Hab3|].
        destruct Hoc as [Hn3 Hl3]. split; [|split].
        - intros y Hy. rewrite Hl3 by (intros [<-|[]]; unfold e in Hy; lia).
          rewrite Hl2. unfold upd. destruct (Z.eqb_spec y (next_elem s)); [lia|reflexivity].
        - lia.
        - intros y Hy. right. assert (y = e) by (unfold e; lia). subst y. exact Hd. }
      intros u s3 (Hab3 & [Hn3 Hl3] & _).
      specialize (IH s3 v (l ++ [e]) sc' Hab3 ltac:(simpl in Hfuel; lia)). rewrite Ey in IH.
      assert (Hns3 : next_elem s3 = next_elem s + 1) by (rewrite Hn3; exact Hn2).
      assert (Hold3 : forall y, y < next_elem s -> ledger s3 y = ledger s y).
      { intros y Hy. rewrite Hl3 by (intros []). rewrite Hl2. unfold upd. destruct (Z.eqb_spec y (next_elem s)); [lia|reflexivity]. }
      eapply post_weaken; [exact IH| |].
      + intros sc'' s4 (Hp & Hab4 & Hn4 & Hl4). split; [exact Hp|].
        rewrite <- app_assoc in Hab4. rewrite Hns3 in Hab4. split; [exact Hab4|]. split; [lia|].
        intros y Hy. rewrite Hl4 by lia. apply Hold3. exact Hy.
      + intros s4 (k & Hk & Hab4 & Hl4 & Hn4 & Hnew4). exists (S k). split; [lia|].
        rewrite <- app_assoc in Hab4. rewrite Hns3 in Hab4. split; [exact Hab4|].
        split; [intros y Hy; rewrite Hl4 by lia; apply Hold3; exact Hy|].
        split; [lia|]. intros y Hy. cbn [zseq].
        destruct (Z.eq_dec y (next_elem s)) as [->|Hne]; [left; left; reflexivity|].
        destruct (Hnew4 y ltac:(lia)) as [Hin|Hdr]; [left; right; rewrite Hns3 in Hin; exact Hin|right; exact Hdr].
  Qed.

  Theorem extend_abs s v l sc :
    vabs s v l ->
    let '(n, p) := yields sc in
    post (extend cfg ncap v sc s)
      (fun _ s' => p = false /\ vabs s' v (l ++ zseq (next_elem s) n) /\ next_elem s' = next_elem s + Z.of_nat n /\
                   (forall e, e < next_elem s -> ledger s' e = ledger s e))
      (fun s' => exists k, (k <= n)%nat /\ vabs s' v (l ++ zseq (next_elem s) k) /\
                           (forall e, e < next_elem s -> ledger s' e = ledger s e) /\
                           next_elem s <= next_elem s' /\
                           (forall e, next_elem s <= e < next_elem s' ->
                                      In e (zseq (next_elem s) k) \/ ledger s' e = Dropped)).
  Proof. intros Hab. unfold extend. apply (extend_loop_abs (S (List.length sc)) s v l sc Hab). lia. Qed.
End Extend.
