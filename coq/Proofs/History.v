(* Proofs/History.v -- the list-refinement history theorem of Refine.v extended with the two
   closure-driven bulk operations that have list-level specifications: retain(pred) with any
   predicate script and extend(iter) with any iterator script.  Every panic (predicate, iterator,
   destructor, refused capacity) is caught between the operations. *)
From Coq Require Import ZArith List Bool Lia Permutation.
From MV Require Import Ast Eval Scalar Machine.
From MV.Proofs Require Import Arith Logic Prim View OpsLocal Guards Grow CapHistory Drops Retain RetainSpec Sentinel Core Refine Clone Extend RetainAbs.
Import ListNotations.
Open Scope Z_scope.

Section History.
  Variable cfg : tcfg.
  Variable ncap : Z -> option Z.
  Hypothesis Hcfg : cfg_ok cfg.
  Hypothesis Hpol : policy_ok ncap.
  Hypothesis Htracked : needs_drop cfg = true.

  Inductive hop :=
  | HBase (o : rop)                      (* push insert pop remove swap_remove truncate + capacity ops *)
  | HRetain (sc : list answer)           (* retain with the predicate answering sc *)
  | HExtend (sc : list answer).          (* extend with an iterator behaving as sc *)

  Definition hop_ok (o : hop) : Prop := match o with HBase o => rop_ok o | _ => True end.

  Definition run_hop (v : nat) (o : hop) : M unit :=
    match o with
    | HBase o => run_rop cfg ncap v o
    | HRetain sc => retain cfg v sc
    | HExtend sc => _ <- extend cfg ncap v sc ;; ret tt
    end.

  (* the list specification *)
  Definition hstep (o : hop) (completed : bool) (l l' : list elem) : Prop :=
    match o with
    | HBase o => rstep o completed l l'
    | HRetain sc =>
        let '(k, j, p, u) := rspec l sc in
        if completed then p = false /\ l' = k
        else (p = true /\ Permutation l' l) \/ (p = false /\ l' = k)
    | HExtend sc =>
        let '(n, p) := yields sc in
        exists fresh, NoDup fresh /\ (forall e, In e fresh -> ~ In e l) /\ l' = l ++ fresh /\
                      if completed then p = false /\ List.length fresh = n else (List.length fresh <= n)%nat
    end.

  Lemma run_hop_abs s v l o : vacc cfg s v l -> hop_ok o ->
    post (run_hop v o s) (fun _ s' => exists l', hstep o true l l' /\ vacc cfg s' v l')
                         (fun s' => exists l', hstep o false l l' /\ vacc cfg s' v l').
  Proof.
    intros Hva Hok. destruct o as [o|sc|sc]; cbn [run_hop hstep hop_ok] in *.
    - exact (run_rop_abs cfg ncap Hcfg Hpol Htracked s v l o Hva Hok).
    - (* retain *)
      destruct Hva as [Hab Hacc].
      pose proof (retain_abs cfg Hcfg Htracked s v l sc Hab) as H.
      pose proof (rspec_perm l sc) as Hperm.
      destruct (rspec l sc) as [[[k j] p] u]. destruct Hperm as [Hperm Hnou].
      assert (Hfilter : forall s', p = false -> vabs cfg s' v k -> (forall e, In e j -> ledger s' e = Dropped) ->
                          (forall e, ~ In e j -> ledger s' e = ledger s e) -> next_elem s' = next_elem s -> vacc cfg s' v k).
      { intros s' Hp A B C D. split; [exact A|].
        apply (acc_step s s' l k j Hacc); [split; assumption|intros e He; right; apply B; exact He|].
        intros e He. rewrite (Hnou Hp), app_nil_r in Hperm.
        apply (Permutation_in _ (Permutation_sym Hperm)) in He. apply in_app_or in He. exact He. }
      eapply post_weaken; [exact H| |].
      + intros u0 s' (Hp & A & B & C & D). exists k. split; [auto|]. apply Hfilter; assumption.
      + intros s' (D & [(Hp & l' & Hpl & A & Hled)|(Hp & A & B & C)]).
        * exists l'. split; [left; auto|]. split; [exact A|].
          apply (acc_step s s' l l' [] Hacc); [split; [exact D|intros e _; rewrite Hled; reflexivity]|intros e []|].
          intros e He. left. apply (Permutation_in _ (Permutation_sym Hpl)). exact He.
        * exists k. split; [right; auto|]. apply Hfilter; assumption.
    - (* extend *)
      destruct Hva as [Hab Hacc].
      pose proof (extend_abs cfg ncap Hcfg Hpol Htracked s v l sc Hab) as H.
      destruct (vabs_owned cfg s v l Hab) as (_ & _ & Hold).
      destruct (yields sc) as [n p].
      assert (Hfresh : forall m e, In e (zseq (next_elem s) m) -> ~ In e l).
      { intros m e He Hin. apply zseq_in in He. specialize (Hold e Hin). lia. }
      destruct Hacc as [Hn0 Hall].
      eapply post_bind.
      + eapply post_weaken; [exact H|intros sc' s' G; exact G|].
        intros s' (k & Hk & A & B & C & D). exists (l ++ zseq (next_elem s) k).
        split; [exists (zseq (next_elem s) k); split; [apply zseq_nodup|]; split; [apply Hfresh|]; split; [reflexivity|];
                rewrite zseq_length; exact Hk|].
        split; [exact A|]. split; [lia|]. intros e He.
        destruct (Z.lt_ge_cases e (next_elem s)) as [Hlt|Hge].
        * destruct (Hall e ltac:(lia)) as [Hin|Hst]; [left; apply in_or_app; left; exact Hin|right; rewrite B by lia; exact Hst].
        * destruct (D e ltac:(lia)) as [Hin|Hdr]; [left; apply in_or_app; right; exact Hin|right; right; exact Hdr].
      + intros sc' s' (Hp & A & B & C). simpl.
        exists (l ++ zseq (next_elem s) n).
        split; [exists (zseq (next_elem s) n); split; [apply zseq_nodup|]; split; [apply Hfresh|]; split; [reflexivity|];
                split; [exact Hp|apply zseq_length]|].
        split; [exact A|]. split; [lia|]. intros e He.
        destruct (Z.lt_ge_cases e (next_elem s)) as [Hlt|Hge].
        * destruct (Hall e ltac:(lia)) as [Hin|Hst]; [left; apply in_or_app; left; exact Hin|right; rewrite C by lia; exact Hst].
        * left. apply in_or_app. right. apply zseq_in. lia.
  Qed.

  Fixpoint run_hops (v : nat) (os : list hop) : M unit :=
    match os with
    | [] => ret tt
    | o :: os => bind (catch (run_hop v o)) (fun _ => run_hops v os)
    end.

  Inductive hsteps : list hop -> list elem -> list elem -> Prop :=
  | hs_nil l : hsteps [] l l
  | hs_cons o os c l l1 l2 : hstep o c l l1 -> hsteps os l1 l2 -> hsteps (o :: os) l l2.

  (* For EVERY sequence of these operations, ANY arguments, ANY predicate / iterator scripts and ANY
     set of panicking destructors: no undefined behaviour, no hang, the contents follow the list
     specification, and every element ever created is in the vector, handed out, or destroyed. *)
  Theorem history_refines_list_spec_bulk v os s l :
    vacc cfg s v l -> Forall hop_ok os ->
    post (run_hops v os s) (fun _ s' => exists l', hsteps os l l' /\ vacc cfg s' v l') (fun _ => False).
  Proof.
    revert s l. induction os as [|o os IH]; intros s l Hab Hargs.
    - simpl. exists l. split; [constructor|exact Hab].
    - inversion Hargs as [|? ? Ho Hos]; subst. simpl.
      eapply post_bind with (Q1 := fun _ s' => exists c l1, hstep o c l l1 /\ vacc cfg s' v l1).
      + eapply post_catch; [apply run_hop_abs; eassumption| |].
        * intros a s' (l1 & H1 & H2). exists true, l1. auto.
        * intros s' (l1 & H1 & H2). exists false, l1. auto.
      + intros u s' (c & l1 & Hst & Hab').
        eapply post_weaken; [apply (IH s' l1 Hab' Hos)| |auto].
        intros u' s'' (l2 & Hrs & Hab''). exists l2. split; [econstructor; eassumption|exact Hab''].
  Qed.
End History.
