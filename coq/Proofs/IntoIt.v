(* Proofs/IntoIt.v -- IntoIter: the iterator embeds the vector, keeps a front cursor and uses the
   embedded length as "remaining": protocol for ANY interleaving of front/back steps (C10), exactness
   of len()/size_hint()/as_slice() after every step. *)
From Coq Require Import ZArith List Bool Lia.
From MV Require Import Ast Eval Scalar Machine.
From MV.Proofs Require Import Arith Logic Prim View OpsLocal Guards Drops Retain DrainIt Deref.
Import ListNotations.
Open Scope Z_scope.

Section IntoIt.
  Variable cfg : tcfg.
  Hypothesis Hcfg : cfg_ok cfg.

  (* the embedded vector owns block b; the remaining elements are slots [p, p + h_len) *)
  Record into_inv (s : state) (it : into_it) (b : nat) (bl : block) (off p : Z) : Prop := {
    ii_vec : vec_at s (i_vec it) b bl;
    ii_ok : block_ok cfg bl;
    ii_off : canon_off bl = Some off;
    ii_pos : i_pos it = PElt b off p;
    ii_bounds : 0 <= p /\ p + h_len bl <= h_cap bl;
    ii_init : forall k, p <= k < p + h_len bl -> exists e, slots bl k = Init e }.

  Definition remaining (bl : block) (p : Z) : list elem := window bl p (p + h_len bl).

  Lemma into_next_spec s it b bl off p :
    into_inv s it b bl off p ->
    into_next cfg it s =
      (if h_len bl <=? 0 then (Val (None, it), s)
       else (Val (Some (slot_elem (slots bl p)), {| i_vec := i_vec it; i_pos := PElt b off (p + 1) |}),
             upd_block s b (with_hdr bl (h_len bl - 1) (h_cap bl) (h_align bl)))).
  Proof.
    intros [Hv Hb Hco Hp Hbd Hi]. unfold into_next.
    rewrite (bind_val _ _ _ _ _ (is_default_at _ _ _ _ Hv)).
    rewrite (bind_val _ _ _ _ _ (len_at cfg _ _ _ _ Hcfg Hv Hb)).
    destruct (Z.leb_spec (h_len bl) 0) as [L|G]; [reflexivity|].
    rewrite (bind_val _ _ _ _ _ (set_len_at cfg s _ b bl (h_len bl - 1) Hcfg Hv Hb)).
    set (bl' := with_hdr bl (h_len bl - 1) (h_cap bl) (h_align bl)).
    assert (Hn' : nth_error (heap (upd_block s b bl')) b = Some bl') by (eapply upd_block_same; exact (proj2 Hv)).
    assert (Hb' : block_ok cfg bl') by (apply block_ok_with_len; [exact Hb|pose proof (bo_len _ _ Hb); lia]).
    rewrite Hp.
    assert (R : 0 <= p < h_cap bl') by (simpl; lia).
    pose proof (slot_read_at cfg _ b bl' off p Hcfg Hn' Hb' Hco R) as Hr.
    destruct (Hi p ltac:(lia)) as [e He]. simpl slots in Hr. rewrite He in Hr.
    rewrite (bind_val _ _ _ _ _ Hr). rewrite He. reflexivity.
  Qed.

  Lemma into_next_back_spec s it b bl off p :
    into_inv s it b bl off p ->
    into_next_back cfg it s =
      (if h_len bl <=? 0 then (Val (None, it), s)
       else (Val (Some (slot_elem (slots bl (p + (h_len bl - 1)))), it),
             upd_block s b (with_hdr bl (h_len bl - 1) (h_cap bl) (h_align bl)))).
  Proof.
    intros [Hv Hb Hco Hp Hbd Hi]. unfold into_next_back.
    rewrite (bind_val _ _ _ _ _ (is_default_at _ _ _ _ Hv)).
    rewrite (bind_val _ _ _ _ _ (len_at cfg _ _ _ _ Hcfg Hv Hb)).
    destruct (Z.leb_spec (h_len bl) 0) as [L|G]; [reflexivity|].
    rewrite (bind_val _ _ _ _ _ (set_len_at cfg s _ b bl (h_len bl - 1) Hcfg Hv Hb)).
    set (bl' := with_hdr bl (h_len bl - 1) (h_cap bl) (h_align bl)).
    assert (Hn' : nth_error (heap (upd_block s b bl')) b = Some bl') by (eapply upd_block_same; exact (proj2 Hv)).
    assert (Hb' : block_ok cfg bl') by (apply block_ok_with_len; [exact Hb|pose proof (bo_len _ _ Hb); lia]).
    rewrite Hp. simpl padd.
    assert (R : 0 <= p + (h_len bl - 1) < h_cap bl') by (simpl; lia).
    pose proof (slot_read_at cfg _ b bl' off _ Hcfg Hn' Hb' Hco R) as Hr.
    destruct (Hi (p + (h_len bl - 1)) ltac:(lia)) as [e He]. simpl slots in Hr. rewrite He in Hr.
    rewrite (bind_val _ _ _ _ _ Hr). rewrite He. reflexivity.
  Qed.

  Lemma into_inv_front s it b bl off p : into_inv s it b bl off p -> 0 < h_len bl ->
    into_inv (upd_block s b (with_hdr bl (h_len bl - 1) (h_cap bl) (h_align bl)))
             {| i_vec := i_vec it; i_pos := PElt b off (p + 1) |} b (with_hdr bl (h_len bl - 1) (h_cap bl) (h_align bl)) off (p + 1).
  Proof.
    intros [Hv Hb Hco Hp Hbd Hi] L. constructor; simpl; auto; try lia.
    - apply vec_at_upd with (bl := bl). exact Hv.
    - apply block_ok_with_len; [exact Hb|pose proof (bo_len _ _ Hb); lia].
    - intros k Hk. apply Hi. lia.
  Qed.

  Lemma into_inv_back s it b bl off p : into_inv s it b bl off p -> 0 < h_len bl ->
    into_inv (upd_block s b (with_hdr bl (h_len bl - 1) (h_cap bl) (h_align bl)))
             it b (with_hdr bl (h_len bl - 1) (h_cap bl) (h_align bl)) off p.
  Proof.
    intros [Hv Hb Hco Hp Hbd Hi] L. constructor; simpl; auto; try lia.
    - apply vec_at_upd with (bl := bl). exact Hv.
    - apply block_ok_with_len; [exact Hb|pose proof (bo_len _ _ Hb); lia].
    - intros k Hk. apply Hi. lia.
  Qed.

  Fixpoint into_steps (it : into_it) (steps : list istep) : M (list (option elem) * into_it) :=
    match steps with
    | [] => ret ([], it)
    | st :: steps =>
        r <- (match st with SFront => into_next cfg it | SBack => into_next_back cfg it end) ;;
        rs <- into_steps (snd r) steps ;;
        ret (fst r :: fst rs, snd rs)
    end.

  Lemma window_hdr bl n c a i j : window (with_hdr bl n c a) i j = window bl i j.
  Proof. reflexivity. Qed.

  (* C10 for IntoIter: ANY interleaving of next / next_back of ANY length follows the double-ended
     cursor over the remaining elements; the embedded length (= len() = size_hint()) always equals the
     number of elements not yet yielded, and as_slice() would expose exactly them *)
  Theorem into_protocol steps : forall s it b bl off p,
    into_inv s it b bl off p ->
    exists s' it' bl' p',
      into_steps it steps s = (Val (fst (cursor (remaining bl p) steps), it'), s') /\
      into_inv s' it' b bl' off p' /\
      remaining bl' p' = snd (cursor (remaining bl p) steps) /\
      h_len bl' = Z.of_nat (List.length (snd (cursor (remaining bl p) steps))).
  Proof.
    induction steps as [|st steps IH]; intros s it b bl off p Hinv.
    - exists s, it, bl, p. simpl. split; [reflexivity|]. split; [exact Hinv|]. split; [reflexivity|].
      unfold remaining, window, slice_elems. rewrite map_length, seq_length.
      destruct Hinv as [_ Hb _ _ _ _]. pose proof (bo_len _ _ Hb). lia.
    - simpl into_steps. destruct st.
      + pose proof (into_next_spec _ _ _ _ _ _ Hinv) as Hn.
        destruct (Z.leb_spec (h_len bl) 0) as [L|G].
        * rewrite (bind_val _ _ _ _ _ Hn). cbn [fst snd].
          destruct (IH s it b bl off p Hinv) as (s' & it' & bl' & p' & Hs & Hi' & Hw & Hl).
          rewrite (bind_val _ _ _ _ _ Hs). exists s', it', bl', p'. cbn [fst snd].
          assert (Hem : remaining bl p = []) by (unfold remaining; apply window_nil; lia).
          rewrite Hem in *. simpl cursor. destruct (cursor [] steps) as [o rr]. simpl in *.
          split; [reflexivity|]. split; [exact Hi'|]. split; assumption.
        * rewrite (bind_val _ _ _ _ _ Hn). cbn [fst snd].
          destruct (IH _ _ b _ off (p + 1) (into_inv_front _ _ _ _ _ _ Hinv ltac:(lia))) as (s' & it' & bl' & p' & Hs & Hi' & Hw & Hl).
          rewrite (bind_val _ _ _ _ _ Hs). exists s', it', bl', p'. cbn [fst snd].
          assert (Hc : remaining bl p = slot_elem (slots bl p) :: remaining (with_hdr bl (h_len bl - 1) (h_cap bl) (h_align bl)) (p + 1)).
          { unfold remaining. simpl h_len. rewrite window_hdr. rewrite (window_cons bl p (p + h_len bl)) by lia.
            f_equal. f_equal. lia. }
          rewrite Hc. simpl cursor.
          destruct (cursor (remaining (with_hdr bl (h_len bl - 1) (h_cap bl) (h_align bl)) (p + 1)) steps) as [o rr]. simpl in *.
          split; [reflexivity|]. split; [exact Hi'|]. split; assumption.
      + pose proof (into_next_back_spec _ _ _ _ _ _ Hinv) as Hn.
        destruct (Z.leb_spec (h_len bl) 0) as [L|G].
        * rewrite (bind_val _ _ _ _ _ Hn). cbn [fst snd].
          destruct (IH s it b bl off p Hinv) as (s' & it' & bl' & p' & Hs & Hi' & Hw & Hl).
          rewrite (bind_val _ _ _ _ _ Hs). exists s', it', bl', p'. cbn [fst snd].
          assert (Hem : remaining bl p = []) by (unfold remaining; apply window_nil; lia).
          rewrite Hem in *. simpl cursor. destruct (cursor [] steps) as [o rr]. simpl in *.
          split; [reflexivity|]. split; [exact Hi'|]. split; assumption.
        * rewrite (bind_val _ _ _ _ _ Hn). cbn [fst snd].
          destruct (IH _ _ b _ off p (into_inv_back _ _ _ _ _ _ Hinv ltac:(lia))) as (s' & it' & bl' & p' & Hs & Hi' & Hw & Hl).
          rewrite (bind_val _ _ _ _ _ Hs). exists s', it', bl', p'. cbn [fst snd].
          assert (Hc : remaining bl p = remaining (with_hdr bl (h_len bl - 1) (h_cap bl) (h_align bl)) p ++ [slot_elem (slots bl (p + (h_len bl - 1)))]).
          { unfold remaining. simpl h_len. rewrite window_hdr. rewrite (window_snoc bl p (p + h_len bl)) by lia.
            f_equal; [f_equal; lia|]. f_equal. f_equal. f_equal. lia. }
          rewrite Hc. simpl cursor.
          destruct (remaining (with_hdr bl (h_len bl - 1) (h_cap bl) (h_align bl)) p ++ [slot_elem (slots bl (p + (h_len bl - 1)))]) eqn:E;
            [destruct (remaining (with_hdr bl (h_len bl - 1) (h_cap bl) (h_align bl)) p); discriminate|].
          rewrite <- E. rewrite removelast_snoc, last_snoc.
          destruct (cursor (remaining (with_hdr bl (h_len bl - 1) (h_cap bl) (h_align bl)) p) steps) as [o rr]. simpl in *.
          split; [reflexivity|]. split; [exact Hi'|]. split; assumption.
  Qed.

  (* as_slice() / as_mut_slice() / as_ref(): exactly the elements not yet yielded *)
  Lemma into_as_slice_spec s it b bl off p :
    into_inv s it b bl off p ->
    NoDup (remaining bl p) -> (forall e, In e (remaining bl p) -> tracked cfg = false \/ ledger s e = Live) ->
    into_as_slice cfg it s = (Val (remaining bl p), s).
  Proof.
    intros [Hv Hb Hco Hp Hbd Hi] Hnd Hlive. unfold into_as_slice.
    rewrite (bind_val _ _ _ _ _ (is_default_at _ _ _ _ Hv)).
    rewrite (bind_val _ _ _ _ _ (len_at cfg _ _ _ _ Hcfg Hv Hb)).
    rewrite Hp. unfold expose_slice.
    pose proof (bo_len _ _ Hb) as Hlen.
    assert (Hrl : read_list cfg (PElt b off p) (h_len bl) s = (Val (remaining bl p), s)).
    { rewrite (read_list_at cfg Hcfg s b bl off p (h_len bl) (proj2 Hv) Hb Hco); try lia.
      - unfold remaining, window. replace (p + h_len bl - p) with (h_len bl) by lia. reflexivity.
      - exact Hi. }
    rewrite (bind_val _ _ _ _ _ Hrl).
    rewrite (bind_val _ _ _ _ _ (expose_list_live cfg s _ Hlive)).
    rewrite (has_dup_false _ Hnd), andb_false_r. reflexivity.
  Qed.
End IntoIt.
