(* Proofs/Core.v -- the ownership invariant of one vector and its preservation by the core
   mutators, towards the for-all-histories theorem (CoreHistory below): every element the vector
   exposes is initialised, live and exposed once; the block satisfies the layout invariant. *)
From Coq Require Import ZArith List Bool Lia Permutation.
From MV Require Import Ast Eval Scalar Machine.
From MV.Proofs Require Import Arith Logic Prim View OpsLocal Guards Grow CapHistory Drops Retain Dedup Sentinel.
Import ListNotations.
Open Scope Z_scope.

Section Core.
  Variable cfg : tcfg.
  Variable ncap : Z -> option Z.
  Hypothesis Hcfg : cfg_ok cfg.
  Hypothesis Hpol : policy_ok ncap.
  Hypothesis Htracked : needs_drop cfg = true.

  (* the elements of a block are owned: written, pairwise distinct, live, already created *)
  Record owned (s : state) (bl : block) : Prop := {
    ow_init : init_upto (slots bl) (h_len bl);
    ow_nodup : NoDup (velems bl);
    ow_live : forall e, In e (velems bl) -> ledger s e = Live;
    ow_old : forall e, In e (velems bl) -> e < next_elem s }.

  Definition vinv (s : state) (v : nat) : Prop :=
    vec_sentinel s v \/ exists b bl, vec_at s v b bl /\ block_ok cfg bl /\ owned s bl.

  Lemma tracked_true : tracked cfg = true. Proof. exact Htracked. Qed.

  (* ---------------------------------------------------------------- remove *)
  Definition shift_down (f : Z -> slot) (idx n : Z) : Z -> slot :=
    fun k => if (idx <=? k) && (k <? idx + n) then f (k - idx + (idx + 1)) else f k.

  Lemma remove_spec s v b bl idx :
    vec_at s v b bl -> block_ok cfg bl -> init_upto (slots bl) (h_len bl) -> 0 <= idx < h_len bl ->
    let f1 := if h_len bl - idx - 1 <=? 0 then slots bl else shift_down (slots bl) idx (h_len bl - idx - 1) in
    let bl' := with_hdr (with_slots bl f1) (h_len bl - 1) (h_cap bl) (h_align bl) in
    exists x s1, slots bl idx = Init x /\ vec_at s1 v b bl' /\ frame_block s s1 b /\
      remove cfg v idx s = bind (hand_out cfg x) (fun _ => ret x) s1 /\
      block_ok cfg bl' /\ init_upto (slots bl') (h_len bl') /\
      velems bl' = firstn (Z.to_nat idx) (velems bl) ++ skipn (S (Z.to_nat idx)) (velems bl) /\
      nth_error (velems bl) (Z.to_nat idx) = Some x.
  Proof.
    intros Hv Hb Hi Hidx f1 bl'.
    pose proof (bo_len _ _ Hb) as Hlen.
    destruct (as_ptr_at cfg _ _ _ _ Hcfg Hv Hb) as (off & Hco & Hp).
    destruct (Hi idx Hidx) as [x Hx]. exists x.
    set (bl1 := with_slots bl f1).
    set (s1 := upd_block s b bl1).
    assert (Hb1 : block_ok cfg bl1) by (apply block_ok_with_slots; assumption).
    assert (Hv1 : vec_at s1 v b bl1) by (apply vec_at_upd with (bl := bl); assumption).
    assert (Hcopy : slot_copy cfg (PElt b off (idx + 1)) (PElt b off idx) (h_len bl - idx - 1) s = (Val tt, s1)).
    { subst s1 bl1 f1. destruct (Z.leb_spec (h_len bl - idx - 1) 0) as [L|L].
      - unfold slot_copy. assert (E : (h_len bl - idx - 1 <=? 0) = true) by (apply Z.leb_le; lia). rewrite E.
        unfold ret. f_equal. unfold upd_block. destruct s; simpl. f_equal.
        destruct Hv as [_ Hh]. simpl in Hh. clear - Hh.
        revert b Hh. induction heap as [|y l IH]; intros [|b] Hh; simpl in *; try discriminate.
        + inversion Hh; subst. destruct bl; reflexivity.
        + f_equal. apply IH. exact Hh.
      - rewrite (slot_copy_at cfg s b bl off (idx + 1) idx (h_len bl - idx - 1) Hcfg (proj2 Hv) Hb Hco); try lia.
        reflexivity. }
    exists (upd_block s1 b bl').
    split; [exact Hx|]. split; [apply vec_at_upd with (bl := bl1); assumption|].
    split; [eapply frame_trans; apply frame_upd|].
    split.
    { unfold remove. rewrite (bind_val _ _ _ _ _ (len_at cfg _ _ _ _ Hcfg Hv Hb)).
      assert (E0 : (h_len bl <=? idx) = false) by (apply Z.leb_gt; lia). rewrite E0.
      rewrite (bind_val _ _ _ _ _ Hp). simpl padd. rewrite ?Z.add_0_l.
      assert (R : 0 <= idx < h_cap bl) by lia.
      pose proof (slot_read_at cfg s b bl off idx Hcfg (proj2 Hv) Hb Hco R) as Hr. rewrite Hx in Hr.
      rewrite (bind_val _ _ _ _ _ Hr).
      rewrite (bind_val _ _ _ _ _ Hcopy).
      rewrite (bind_val _ _ _ _ _ (set_len_at cfg s1 v b bl1 (h_len bl - 1) Hcfg Hv1 Hb1)). reflexivity. }
    split; [apply block_ok_with_len with (bl := bl1); [assumption|simpl; lia]|].
    split.
    { simpl. intros i H. subst f1. destruct (Z.leb_spec (h_len bl - idx - 1) 0); [apply Hi; lia|].
      unfold shift_down. destruct (Z.leb_spec idx i); destruct (Z.ltb_spec i (idx + (h_len bl - idx - 1))); simpl; apply Hi; lia. }
    split.
    { unfold velems. change (h_len bl') with (h_len bl - 1). change (slots bl') with f1. apply list_ext. intros k.
      assert (Hl0 : List.length (view (slots bl) (h_len bl)) = Z.to_nat (h_len bl)).
      { unfold view. rewrite map_length, seq_length. reflexivity. }
      destruct (Nat.lt_ge_cases k (Z.to_nat (h_len bl - 1))) as [Lk|Gk].
      - rewrite view_nth_nat by lia.
        destruct (Nat.lt_ge_cases k (Z.to_nat idx)) as [L1|G1].
        + rewrite nth_error_app1 by (rewrite firstn_length; lia).
          rewrite nth_error_firstn_lt by lia. rewrite view_nth_nat by lia.
          subst f1. destruct (Z.leb_spec (h_len bl - idx - 1) 0); [reflexivity|].
          unfold shift_down. destruct (Z.leb_spec idx (Z.of_nat k)); [lia|reflexivity].
        + rewrite nth_error_app2 by (rewrite firstn_length; lia).
          rewrite firstn_length, Hl0. replace (Nat.min (Z.to_nat idx) (Z.to_nat (h_len bl))) with (Z.to_nat idx) by lia.
          rewrite nth_error_skipn_local. rewrite view_nth_nat by lia.
          subst f1. destruct (Z.leb_spec (h_len bl - idx - 1) 0); [lia|].
          unfold shift_down. destruct (Z.leb_spec idx (Z.of_nat k)); [|lia].
          destruct (Z.ltb_spec (Z.of_nat k) (idx + (h_len bl - idx - 1))); [|lia]. cbn [andb].
          f_equal. f_equal. f_equal. lia.
      - rewrite view_nth_none by lia. symmetry. apply nth_error_None.
        rewrite app_length, firstn_length, skipn_length, Hl0. lia. }
    unfold velems. rewrite view_nth by lia. rewrite Hx. reflexivity.
  Qed.

  (* ---------------------------------------------------------------- ledger steps *)
  Definition with_ledger (s : state) (l : elem -> status) : state :=
    {| heap := heap s; vecs := vecs s; iters := iters s; ledger := l; payload := payload s;
       next_elem := next_elem s; drop_panics := drop_panics s; clone_panics := clone_panics s;
       alloc_fail := alloc_fail s; alloc_limit := alloc_limit s; events := events s |}.

  Lemma hand_out_live s e : ledger s e = Live ->
    hand_out cfg e s = (Val tt, with_ledger s (upd (ledger s) e Out)).
  Proof.
    intros H. unfold hand_out, tracked. rewrite Htracked. cbn [negb].
    unfold bind at 1. unfold status_of. rewrite H. reflexivity.
  Qed.

  Lemma owned_transfer s s' bl bl' :
    owned s bl -> h_len bl' <= h_len bl ->
    (forall i, 0 <= i < h_len bl' -> exists e, slots bl' i = Init e) ->
    NoDup (velems bl') -> (forall e, In e (velems bl') -> In e (velems bl)) ->
    (forall e, In e (velems bl') -> ledger s' e = ledger s e) -> next_elem s <= next_elem s' ->
    owned s' bl'.
  Proof.
    intros [Hi Hn Hl Ho] Hle Hi' Hn' Hsub Hled Hnx. constructor; auto.
    - intros e He. rewrite Hled by assumption. apply Hl. apply Hsub. assumption.
    - intros e He. specialize (Ho e (Hsub e He)). lia.
  Qed.

  Lemma NoDup_app_l {A} (l1 l2 : list A) : NoDup (l1 ++ l2) -> NoDup l1.
  Proof. induction l1 as [|x l1 IH]; intros H; [constructor|]. inversion H; subst. constructor; [intros Hx; apply H2; apply in_or_app; left; assumption|auto]. Qed.
  Lemma NoDup_app_notin {A} (l1 : list A) x : NoDup (l1 ++ [x]) -> ~ In x l1.
  Proof.
    induction l1 as [|y l1 IH]; intros H Hx; [destruct Hx|]. inversion H; subst.
    destruct Hx as [->|Hx]; [apply H2; apply in_or_app; right; left; reflexivity|apply IH; assumption].
  Qed.

  (* ---------------------------------------------------------------- pop keeps the invariant *)
  Lemma pop_inv s v : vinv s v ->
    post (pop cfg v s) (fun _ s' => vinv s' v) (fun s' => vinv s' v).
  Proof.
    intros [Hs|(b & bl & Hv & Hb & Ho)].
    - rewrite (sn_pop cfg s v Hs). simpl. left. exact Hs.
    - pose proof (bo_len _ _ Hb) as Hlen.
      destruct (Z.eq_dec (h_len bl) 0) as [E0|N0].
      + erewrite pop_empty by eassumption. simpl. right. eauto.
      + assert (Hpos : 0 < h_len bl) by lia.
        destruct (pop_spec cfg ncap Hcfg s v b bl Hv Hb (ow_init _ _ Ho) Hpos)
          as (e & bl' & s1 & He & Ebl & Es1 & Hpop & Hvel & Hb' & Hi'). subst bl' s1.
        rewrite Hpop.
        assert (HeIn : In e (velems bl)) by (rewrite Hvel; apply in_or_app; right; left; reflexivity).
        assert (Hlive : ledger (upd_block s b (with_hdr bl (h_len bl - 1) (h_cap bl) (h_align bl))) e = Live) by (simpl; apply (ow_live _ _ Ho); assumption).
        rewrite (bind_val _ _ _ _ _ (hand_out_live _ e Hlive)). simpl.
        right. eexists b, _. split.
        { split; [exact (proj1 Hv)|]. simpl. eapply upd_block_same. exact (proj2 Hv). }
        split; [exact Hb'|].
        pose proof (ow_nodup _ _ Ho) as Hnd. rewrite Hvel in Hnd.
        eapply owned_transfer with (s := s) (bl := bl); try exact Ho; simpl.
        * lia.
        * exact Hi'.
        * eapply NoDup_app_l. exact Hnd.
        * intros x Hx. rewrite Hvel. apply in_or_app. left. exact Hx.
        * intros x Hx. unfold upd. destruct (Z.eqb_spec x e); [|reflexivity].
          subst. exfalso. eapply NoDup_app_notin; eassumption.
        * lia.
  Qed.

  (* ---------------------------------------------------------------- list facts *)
  Lemma nth_split_local {A} (l : list A) i x : nth_error l i = Some x ->
    l = firstn i l ++ x :: skipn (S i) l.
  Proof.
    revert i; induction l as [|y l IH]; intros [|i] H; simpl in *; try discriminate.
    - inversion H; reflexivity.
    - f_equal. apply IH. exact H.
  Qed.

  Lemma firstn_skipn_disjoint {A} (l : list A) n x : NoDup l -> In x (firstn n l) -> ~ In x (skipn n l).
  Proof.
    intros Hn H1 H2. rewrite <- (firstn_skipn n l) in Hn.
    revert Hn H1 H2. generalize (firstn n l) (skipn n l). intros l1 l2.
    induction l1 as [|y l1 IH]; simpl; intros Hn H1 H2; [destruct H1|].
    inversion Hn; subst. destruct H1 as [->|H1].
    - apply H3. apply in_or_app. right. exact H2.
    - apply IH; assumption.
  Qed.

  Lemma In_firstn {A} (l : list A) n x : In x (firstn n l) -> In x l.
  Proof. intros H. rewrite <- (firstn_skipn n l). apply in_or_app. left. exact H. Qed.
  Lemma In_skipn {A} (l : list A) n x : In x (skipn n l) -> In x l.
  Proof. intros H. rewrite <- (firstn_skipn n l). apply in_or_app. right. exact H. Qed.
  Lemma NoDup_firstn {A} (l : list A) n : NoDup l -> NoDup (firstn n l).
  Proof. intros H. rewrite <- (firstn_skipn n l) in H. eapply NoDup_app_l. exact H. Qed.

  (* ---------------------------------------------------------------- remove keeps the invariant *)
  Lemma remove_inv s v idx : vinv s v -> 0 <= idx ->
    post (remove cfg v idx s) (fun _ s' => vinv s' v) (fun s' => vinv s' v).
  Proof.
    intros [Hs|(b & bl & Hv & Hb & Ho)] Hidx.
    - rewrite (sn_remove cfg s v Hs idx Hidx). simpl. left. exact Hs.
    - pose proof (bo_len _ _ Hb) as Hlen.
      destruct (Z.le_gt_cases (h_len bl) idx) as [Hoob|Hin].
      + rewrite (remove_oob cfg s v (h_len bl) (len_at cfg s v b bl Hcfg Hv Hb) idx Hoob). simpl. right. eauto.
      + destruct (remove_spec s v b bl idx Hv Hb (ow_init _ _ Ho) ltac:(lia))
          as (x & s1 & Hx & Hv1 & Hfr & Hrm & Hb' & Hi' & Hvel & Hnth).
        rewrite Hrm.
        pose proof (nth_error_In _ _ Hnth) as HxIn.
        assert (Hlive : ledger s1 x = Live) by (rewrite (fb_ledger _ _ _ Hfr); apply (ow_live _ _ Ho); assumption).
        rewrite (bind_val _ _ _ _ _ (hand_out_live _ x Hlive)). simpl.
        right. eexists b, _. split.
        { split; [simpl; exact (proj1 Hv1)|simpl; exact (proj2 Hv1)]. }
        split; [exact Hb'|].
        pose proof (ow_nodup _ _ Ho) as Hnd.
        pose proof (nth_split_local _ _ _ Hnth) as Hsplit.
        rewrite Hsplit in Hnd. apply NoDup_remove in Hnd. destruct Hnd as [Hnd' Hnotin].
        eapply owned_transfer with (s := s) (bl := bl); try exact Ho.
        * simpl. lia.
        * exact Hi'.
        * rewrite Hvel. exact Hnd'.
        * intros e He. rewrite Hvel in He. rewrite Hsplit. apply in_app_or in He. apply in_or_app.
          destruct He; [left; assumption|right; right; assumption].
        * intros e He. simpl. unfold upd. destruct (Z.eqb_spec e x).
          { subst. exfalso. apply Hnotin. rewrite <- Hvel. exact He. }
          { rewrite (fb_ledger _ _ _ Hfr). reflexivity. }
        * simpl. rewrite (fb_next _ _ _ Hfr). lia.
  Qed.

  (* ---------------------------------------------------------------- truncate keeps the invariant *)
  Lemma truncate_inv s v n : vinv s v -> 0 <= n ->
    post (truncate cfg v n s) (fun _ s' => vinv s' v) (fun s' => vinv s' v).
  Proof.
    intros [Hs|(b & bl & Hv & Hb & Ho)] Hn.
    - rewrite (sn_truncate cfg s v Hs n Hn). simpl. left. exact Hs.
    - destruct (Z.le_gt_cases (h_len bl) n) as [Hge|Hlt].
      + rewrite (truncate_noop cfg s v (h_len bl) (len_at cfg s v b bl Hcfg Hv Hb) n Hge). simpl. right. eauto.
      + destruct (truncate_spec cfg Hcfg Htracked s v b bl n Hv Hb (ow_init _ _ Ho) ltac:(lia) (ow_nodup _ _ Ho) (ow_live _ _ Ho))
          as (Hb' & Hvel & Hpost).
        set (bl' := with_hdr bl n (h_cap bl) (h_align bl)) in *.
        assert (Hgoal : forall s', vec_at s' v b bl' /\ destroyed (upd_block s b bl') s' (skipn (Z.to_nat n) (velems bl)) -> vinv s' v).
        { intros s' [Hv' Hd]. right. exists b, bl'. split; [exact Hv'|]. split; [exact Hb'|].
          eapply owned_transfer with (s := s) (bl := bl); try exact Ho.
          - simpl. lia.
          - simpl. intros i Hi. apply (ow_init _ _ Ho). lia.
          - rewrite Hvel. apply NoDup_firstn. exact (ow_nodup _ _ Ho).
          - intros e He. rewrite Hvel in He. eapply In_firstn. exact He.
          - intros e He. rewrite Hvel in He.
            rewrite (ds_out _ _ _ Hd) by (apply firstn_skipn_disjoint; [exact (ow_nodup _ _ Ho)|exact He]).
            reflexivity.
          - rewrite (ds_next _ _ _ Hd). simpl. lia. }
        eapply post_weaken; [exact Hpost| |]; intros; apply Hgoal; assumption.
  Qed.

  (* ---------------------------------------------------------------- push *)
  Definition push_tail (v : nat) (value : elem) : M unit :=
    l <- len v ;; d <- data cfg v ;; slot_write cfg (padd cfg d l) value ;;; add_len v 1.

  Lemma push_tail_spec s v b bl e :
    vec_at s v b bl -> block_ok cfg bl -> h_len bl < h_cap bl ->
    let bl' := with_hdr (with_slots bl (upd (slots bl) (h_len bl) (Init e))) (h_len bl + 1) (h_cap bl) (h_align bl) in
    exists s', push_tail v e s = (Val tt, s') /\ vec_at s' v b bl' /\ frame_block s s' b /\
               block_ok cfg bl' /\ velems bl' = velems bl ++ [e] /\
               (init_upto (slots bl) (h_len bl) -> init_upto (slots bl') (h_len bl')).
  Proof.
    intros Hv Hb Hlt bl'.
    pose proof (bo_len _ _ Hb) as Hlen.
    destruct (data_at cfg _ _ _ _ Hcfg Hv Hb) as (off & Hco & Hd).
    set (bl1 := with_slots bl (upd (slots bl) (h_len bl) (Init e))).
    set (s1 := upd_block s b bl1).
    assert (Hv1 : vec_at s1 v b bl1) by (apply vec_at_upd with (bl := bl); assumption).
    assert (Hb1 : block_ok cfg bl1) by (apply block_ok_with_slots; assumption).
    exists (upd_block s1 b bl'). split; [|split; [|split; [|split; [|split]]]].
    - unfold push_tail.
      rewrite (bind_val _ _ _ _ _ (len_at cfg _ _ _ _ Hcfg Hv Hb)). rewrite (bind_val _ _ _ _ _ Hd).
      simpl padd. rewrite ?Z.add_0_l.
      assert (R : 0 <= h_len bl < h_cap bl) by lia.
      rewrite (bind_val _ _ _ _ _ (slot_write_at cfg s b bl off (h_len bl) e Hcfg (proj2 Hv) Hb Hco R)).
      fold bl1. fold s1.
      rewrite (add_len_at cfg s1 v b bl1 1 Hcfg Hv1 Hb1). reflexivity.
    - apply vec_at_upd with (bl := bl1). assumption.
    - eapply frame_trans; apply frame_upd.
    - apply block_ok_with_len with (bl := bl1); [assumption|simpl; lia].
    - unfold velems. simpl. rewrite view_snoc by lia. unfold upd at 2. rewrite Z.eqb_refl. simpl.
      f_equal. apply view_ext. intros i Hi. unfold upd.
      destruct (Z.eqb_spec i (h_len bl)); [lia|reflexivity].
    - intros Hi. simpl. intros i H. unfold upd. destruct (Z.eqb_spec i (h_len bl)); [eauto|].
      apply Hi. lia.
  Qed.

  Lemma push_unfold v e :
    push cfg ncap v e =
    on_unwind
      (l <- len v ;; c <- capacity v ;; a <- alignment cfg v ;;
       (if l =? c then nc <- lift_opt (ncap c) ;; grow cfg v nc a else ret tt) ;;;
       push_tail v e)
      (drop_elem cfg e).
  Proof. reflexivity. Qed.

  (* a freshly created element: live, distinct from everything created before *)
  Definition fresh_state (s : state) (p : Z) : state :=
    {| heap := heap s; vecs := vecs s; iters := iters s; ledger := upd (ledger s) (next_elem s) Live;
       payload := upd (payload s) (next_elem s) p; next_elem := next_elem s + 1;
       drop_panics := drop_panics s; clone_panics := clone_panics s; alloc_fail := alloc_fail s;
       alloc_limit := alloc_limit s; events := events s |}.
  Lemma fresh_elem_eq s p : fresh_elem p s = (Val (next_elem s), fresh_state s p).
  Proof. reflexivity. Qed.

  Lemma owned_fresh s bl p : owned s bl -> owned (fresh_state s p) bl.
  Proof.
    intros [Hi Hn Hl Ho]. constructor; auto; simpl.
    - intros e He. unfold upd. destruct (Z.eqb_spec e (next_elem s)); [specialize (Ho e He); lia|auto].
    - intros e He. specialize (Ho e He). lia.
  Qed.

  Lemma vinv_fresh s v p : vinv s v -> vinv (fresh_state s p) v.
  Proof.
    intros [Hs|(b & bl & Hv & Hb & Ho)]; [left; exact Hs|].
    right. exists b, bl. split; [exact Hv|]. split; [exact Hb|]. apply owned_fresh. exact Ho.
  Qed.

  (* dropping a live element that the vector does not hold keeps the invariant *)
  Lemma vinv_drop_other s v e :
    vinv s v -> ledger s e = Live ->
    (forall b bl, vec_at s v b bl -> ~ In e (velems bl)) ->
    post (drop_elem cfg e s) (fun _ s' => vinv s' v) (fun s' => vinv s' v).
  Proof.
    intros Hinv Hl Hnot.
    destruct (drop_elem_live cfg Htracked s e Hl) as (s' & Hd & He). rewrite He.
    assert (Hgoal : vinv s' v).
    { destruct Hinv as [Hs|(b & bl & Hv & Hb & Ho)].
      - left. unfold vec_sentinel in *. rewrite (ds_vecs _ _ _ Hd). exact Hs.
      - right. exists b, bl. split.
        + destruct Hv as [H1 H2]. split; [rewrite (ds_vecs _ _ _ Hd); exact H1|rewrite (ds_heap _ _ _ Hd); exact H2].
        + split; [exact Hb|]. destruct Ho as [Hi Hn Hlv Ho]. constructor; auto.
          * intros x Hx. rewrite (ds_out _ _ _ Hd); [apply Hlv; exact Hx|].
            intros [<-|[]]. apply (Hnot b bl Hv). exact Hx.
          * intros x Hx. rewrite (ds_next _ _ _ Hd). apply Ho. exact Hx. }
    destruct (mem e (drop_panics s)); simpl; exact Hgoal.
  Qed.

  Lemma NoDup_snoc {A} (l : list A) x : NoDup l -> ~ In x l -> NoDup (l ++ [x]).
  Proof.
    intros Hn Hx. induction l as [|y l IH]; simpl; [constructor; [intros []|constructor]|].
    inversion Hn; subst. constructor.
    - intros Hy. apply in_app_or in Hy. destruct Hy as [Hy|[->|[]]]; [contradiction|]. apply Hx. left; reflexivity.
    - apply IH; [assumption|]. intros H. apply Hx. right. exact H.
  Qed.

  (* after the tail of push on a block that owns its elements, the block owns them plus e *)
  Lemma owned_after_push s s' bl e :
    owned s bl -> ledger s e = Live -> ~ In e (velems bl) -> e < next_elem s ->
    ledger s' = ledger s -> next_elem s' = next_elem s ->
    let bl' := with_hdr (with_slots bl (upd (slots bl) (h_len bl) (Init e))) (h_len bl + 1) (h_cap bl) (h_align bl) in
    velems bl' = velems bl ++ [e] -> init_upto (slots bl') (h_len bl') -> owned s' bl'.
  Proof.
    intros [Hi Hn Hl Ho] Hle Hnot Hold Hled Hnx bl' Hvel Hi'. constructor.
    - exact Hi'.
    - rewrite Hvel. apply NoDup_snoc; assumption.
    - intros x Hx. rewrite Hvel in Hx. rewrite Hled. apply in_app_or in Hx. destruct Hx as [Hx|[<-|[]]]; auto.
    - intros x Hx. rewrite Hvel in Hx. rewrite Hnx. apply in_app_or in Hx. destruct Hx as [Hx|[<-|[]]]; auto.
  Qed.

  Definition not_held (s : state) (v : nat) (e : elem) : Prop :=
    forall b bl, vec_at s v b bl -> ~ In e (velems bl).

  Lemma push_inv s v e :
    vinv s v -> ledger s e = Live -> not_held s v e -> e < next_elem s ->
    post (push cfg ncap v e s) (fun _ s' => vinv s' v) (fun s' => vinv s' v).
  Proof.
    intros Hinv Hle Hnh Hold. rewrite push_unfold.
    eapply post_on_unwind with (Qp1 := fun s' => vinv s' v /\ ledger s' e = Live /\ not_held s' v e).
    2:{ intros s' (H1 & H2 & H3). eapply post_weaken; [apply (vinv_drop_other s' v e H1 H2 H3)|auto|auto]. }
    destruct Hinv as [Hs|(b & bl & Hv & Hb & Ho)].
    - (* never allocated *)
      destruct (sentinel_basics cfg s v Hs) as (Hl & Hc & Ha).
      rewrite (bind_val _ _ _ _ _ Hl), (bind_val _ _ _ _ _ Hc), (bind_val _ _ _ _ _ Ha).
      rewrite Z.eqb_refl.
      destruct (ncap 0) as [c1|] eqn:E1.
      2:{ simpl. split; [left; exact Hs|]. split; assumption. }
      rewrite lift_opt_some. rewrite bind_assoc. rewrite bind_ret.
      destruct (Hpol 0 c1 ltac:(lia) E1) as (H1 & H2 & H3).
      eapply post_bind.
      { eapply post_weaken; [apply (grow_sentinel cfg ncap Hcfg s v c1 (max_align cfg) Hs ltac:(lia) (max_align_pow2 cfg Hcfg) ltac:(lia))| |].
        - intros u s' H. exact H.
        - intros s' [E _]. rewrite E. split; [left; exact Hs|]. split; assumption. }
      intros u s' [(E & _)|(size & Hml & Hbn & Hal)]; [lia|].
      set (nbl := fresh_block size (max_align cfg) 0 c1 (max_align cfg)) in *.
      pose proof (allocated_vec_at _ _ _ _ Hal) as Hvn.
      destruct (push_tail_spec s' v _ nbl e Hvn Hbn ltac:(simpl; lia)) as (s'' & Hpt & Hv'' & Hfr & Hb'' & Hvel & Hinit).
      rewrite Hpt. simpl. right. eexists _, _. split; [exact Hv''|]. split; [exact Hb''|].
      assert (Hown : owned s' nbl).
      { constructor; simpl.
        - intros i Hi. lia.
        - constructor.
        - intros x [].
        - intros x []. }
      eapply owned_after_push with (s := s'); try exact Hown.
      + rewrite (se_ledger _ _ (al_same _ _ _ _ Hal)). exact Hle.
      + simpl. intros [].
      + rewrite (se_next _ _ (al_same _ _ _ _ Hal)). exact Hold.
      + exact (fb_ledger _ _ _ Hfr).
      + exact (fb_next _ _ _ Hfr).
      + exact Hvel.
      + apply Hinit. exact (ow_init _ _ Hown).
    - (* allocated *)
      pose proof (bo_len _ _ Hb) as Hlen. pose proof (bo_cap _ _ Hb) as Hcap.
      rewrite (bind_val _ _ _ _ _ (len_at cfg _ _ _ _ Hcfg Hv Hb)).
      rewrite (bind_val _ _ _ _ _ (capacity_at cfg _ _ _ _ Hcfg Hv Hb)).
      rewrite (bind_val _ _ _ _ _ (alignment_at cfg _ _ _ _ Hcfg Hv Hb)).
      destruct (Z.eqb_spec (h_len bl) (h_cap bl)) as [Efull|Nfull].
      + destruct (ncap (h_cap bl)) as [c1|] eqn:E1.
        2:{ simpl. split; [right; eauto|]. split; assumption. }
        rewrite lift_opt_some. rewrite bind_assoc. rewrite bind_ret.
        destruct (Hpol (h_cap bl) c1 ltac:(lia) E1) as (H1 & H2 & H3).
        eapply post_bind.
        { eapply post_weaken; [apply (grow_realloc cfg ncap Hcfg s v b bl c1 Hv Hb ltac:(lia) ltac:(lia))| |].
          - intros u s' H. exact H.
          - intros s' [E _]. rewrite E. split; [right; eauto|]. split; assumption. }
        intros u s' [(E & _)|(_ & size & Hml & Hbn & Hmv)]; [lia|].
        set (nbl := grown bl c1 size) in *.
        pose proof (moved_vec_at _ _ _ _ _ Hmv) as Hvn.
        destruct (push_tail_spec s' v _ nbl e Hvn Hbn ltac:(simpl; lia)) as (s'' & Hpt & Hv'' & Hfr & Hb'' & Hvel & Hinit).
        rewrite Hpt. simpl. right. eexists _, _. split; [exact Hv''|]. split; [exact Hb''|].
        assert (Hown : owned s' nbl).
        { destruct Ho as [Hi Hn Hlv Hod]. constructor; simpl; auto.
          - intros x Hx. rewrite (se_ledger _ _ (mv_same _ _ _ _ _ Hmv)). apply Hlv. exact Hx.
          - intros x Hx. rewrite (se_next _ _ (mv_same _ _ _ _ _ Hmv)). apply Hod. exact Hx. }
        eapply owned_after_push with (s := s'); try exact Hown.
        * rewrite (se_ledger _ _ (mv_same _ _ _ _ _ Hmv)). exact Hle.
        * exact (Hnh b bl Hv).
        * rewrite (se_next _ _ (mv_same _ _ _ _ _ Hmv)). exact Hold.
        * exact (fb_ledger _ _ _ Hfr).
        * exact (fb_next _ _ _ Hfr).
        * exact Hvel.
        * apply Hinit. exact (ow_init _ _ Hown).
      + rewrite bind_ret.
        destruct (push_tail_spec s v b bl e Hv Hb ltac:(lia)) as (s'' & Hpt & Hv'' & Hfr & Hb'' & Hvel & Hinit).
        rewrite Hpt. simpl. right. eexists _, _. split; [exact Hv''|]. split; [exact Hb''|].
        eapply owned_after_push with (s := s); try exact Ho; auto.
        * exact (Hnh b bl Hv).
        * exact (fb_ledger _ _ _ Hfr).
        * exact (fb_next _ _ _ Hfr).
        * apply Hinit. exact (ow_init _ _ Ho).
  Qed.

  (* ---------------------------------------------------------------- capacity operations *)
  Lemma owned_grown s s' bl c size : owned s bl -> ledger s' = ledger s -> next_elem s' = next_elem s ->
    owned s' (grown bl c size).
  Proof.
    intros [Hi Hn Hl Ho] Hled Hnx. constructor; simpl; auto.
    - intros x Hx. rewrite Hled. apply Hl. exact Hx.
    - intros x Hx. rewrite Hnx. apply Ho. exact Hx.
  Qed.

  Lemma vinv_moved s s' v b bl c size :
    owned s bl -> block_ok cfg (grown bl c size) -> moved s s' v b (grown bl c size) -> vinv s' v.
  Proof.
    intros Ho Hb Hm. right. eexists _, _. split; [eapply moved_vec_at; exact Hm|]. split; [exact Hb|].
    apply (owned_grown s s' bl c size Ho); [exact (se_ledger _ _ (mv_same _ _ _ _ _ Hm))|exact (se_next _ _ (mv_same _ _ _ _ _ Hm))].
  Qed.

  Lemma owned_fresh_block s' size a c : owned s' (fresh_block size a 0 c a).
  Proof. constructor; simpl; [intros i Hi; lia|constructor|intros x []|intros x []]. Qed.

  Lemma capop_inv s v o : vinv s v -> cap_arg_ok o ->
    post (run_capop cfg ncap v o s) (fun _ s' => vinv s' v) (fun s' => vinv s' v).
  Proof.
    intros Hinv Ha.
    eapply post_weaken.
    - apply (run_capop_okP cfg ncap Hcfg Hpol owned) with (F := fun _ => True) (s := s) (v := v) (o := o).
      + intros s0 s' bl c size Ho Hse. apply (owned_grown s0 s' bl c size Ho); [exact (se_ledger _ _ Hse)|exact (se_next _ _ Hse)].
      + intros. apply owned_fresh_block.
      + destruct Hinv as [Hs|H]; [left; split; [exact Hs|exact I]|right; exact H].
      + exact Ha.
    - intros u s' [[H _]|H]; [left; exact H|right; exact H].
    - intros s' ->. exact Hinv.
  Qed.

  (* ---------------------------------------------------------------- retain *)
  Lemma retain_inv s v sc : vinv s v ->
    post (retain cfg v sc s) (fun _ s' => vinv s' v) (fun s' => vinv s' v).
  Proof.
    intros [Hs|(b & bl & Hv & Hb & Ho)].
    - rewrite (sn_retain cfg s v Hs sc). simpl. left. exact Hs.
    - pose proof (bo_len _ _ Hb) as Hlen.
      unfold retain.
      rewrite (bind_val _ _ _ _ _ (len_at cfg _ _ _ _ Hcfg Hv Hb)).
      destruct (as_ptr_at cfg _ _ _ _ Hcfg Hv Hb) as (off & Hco & Hp).
      rewrite (bind_val _ _ _ _ _ Hp).
      assert (Hperm0 : permuted cfg s s v b bl (h_len bl)).
      { exists bl. split; [exact Hv|]. split; [exact Hb|]. repeat (split; [reflexivity|]).
        split; [exact (ow_init _ _ Ho)|]. split; [apply Permutation_refl|]. repeat (split; [reflexivity|]). intros; reflexivity. }
      assert (Hlive0 : forall e, In e (view (slots bl) (h_len bl)) -> tracked cfg = false \/ ledger s e = Live).
      { intros e He. right. apply (ow_live _ _ Ho). exact He. }
      assert (Hback : forall s', permuted cfg s s' v b bl (h_len bl) ->
                exists bl', vec_at s' v b bl' /\ block_ok cfg bl' /\ owned s' bl' /\ h_len bl' = h_len bl).
      { intros s' (bl' & Hv' & Hb' & Hl' & _ & _ & _ & _ & Hi' & Hpm & Hled & Hnx & _).
        exists bl'. split; [exact Hv'|]. split; [exact Hb'|]. split; [|exact Hl'].
        assert (Hvel : Permutation (velems bl') (velems bl)) by (unfold velems; rewrite Hl'; exact Hpm).
        constructor.
        - rewrite Hl'. exact Hi'.
        - eapply Permutation_NoDup; [symmetry; exact Hvel|exact (ow_nodup _ _ Ho)].
        - intros e He. rewrite Hled. apply (ow_live _ _ Ho). eapply Permutation_in; eassumption.
        - intros e He. rewrite Hnx. apply (ow_old _ _ Ho). eapply Permutation_in; eassumption. }
      eapply post_bind.
      { eapply post_weaken; [apply (retain_loop_spec cfg Hcfg v b bl (h_len bl) off s Hco Hlive0 (Z.to_nat (h_len bl)) s 0 0 sc Hperm0); lia| |].
        - intros w s' H. exact H.
        - intros s' Hpm. destruct (Hback s' Hpm) as (bl' & H1 & H2 & H3 & _). right. eauto. }
      intros w s' (Hw & Hpm).
      destruct (Hback s' Hpm) as (bl' & H1 & H2 & H3 & H4).
      apply truncate_inv; [right; eauto|lia].
  Qed.


  (* ---------------------------------------------------------------- dedup / dedup_by / dedup_by_key *)
  Lemma dedup_inv s v k sc : vinv s v ->
    post (dedup_by cfg v k sc s) (fun _ s' => vinv s' v) (fun s' => vinv s' v).
  Proof.
    intros [Hs|(b & bl & Hv & Hb & Ho)].
    - rewrite (sn_dedup cfg s v Hs k sc). simpl. left. exact Hs.
    - pose proof (bo_len _ _ Hb) as Hlen.
      unfold dedup_by.
      rewrite (bind_val _ _ _ _ _ (len_at cfg _ _ _ _ Hcfg Hv Hb)).
      destruct (Z.ltb_spec (h_len bl) 2) as [Hsmall|Hbig]. { simpl. right. eauto. }
      destruct (as_ptr_at cfg _ _ _ _ Hcfg Hv Hb) as (off & Hco & Hp).
      rewrite (bind_val _ _ _ _ _ Hp).
      assert (Hperm0 : permuted cfg s s v b bl (h_len bl)).
      { exists bl. split; [exact Hv|]. split; [exact Hb|]. repeat (split; [reflexivity|]).
        split; [exact (ow_init _ _ Ho)|]. split; [apply Permutation_refl|]. repeat (split; [reflexivity|]). intros; reflexivity. }
      assert (Hlive0 : forall e, In e (view (slots bl) (h_len bl)) -> tracked cfg = false \/ ledger s e = Live).
      { intros e He. right. apply (ow_live _ _ Ho). exact He. }
      assert (Hback : forall s', permuted cfg s s' v b bl (h_len bl) ->
                exists bl', vec_at s' v b bl' /\ block_ok cfg bl' /\ owned s' bl' /\ h_len bl' = h_len bl).
      { intros s' (bl' & Hv' & Hb' & Hl' & _ & _ & _ & _ & Hi' & Hpm & Hled & Hnx & _).
        exists bl'. split; [exact Hv'|]. split; [exact Hb'|]. split; [|exact Hl'].
        assert (Hvel : Permutation (velems bl') (velems bl)) by (unfold velems; rewrite Hl'; exact Hpm).
        constructor.
        - rewrite Hl'. exact Hi'.
        - eapply Permutation_NoDup; [symmetry; exact Hvel|exact (ow_nodup _ _ Ho)].
        - intros e He. rewrite Hled. apply (ow_live _ _ Ho). eapply Permutation_in; eassumption.
        - intros e He. rewrite Hnx. apply (ow_old _ _ Ho). eapply Permutation_in; eassumption. }
      eapply post_bind.
      { eapply post_weaken; [apply (dedup_loop_spec cfg Hcfg k v b bl (h_len bl) off s Hco Hlive0 (Z.to_nat (h_len bl)) s 1 1 sc Hperm0); lia| |].
        - intros w s' H. exact H.
        - intros s' Hpm. destruct (Hback s' Hpm) as (bl' & H1 & H2 & H3 & _). right. eauto. }
      intros w s' (Hw & Hpm).
      destruct (Hback s' Hpm) as (bl' & H1 & H2 & H3 & H4).
      apply truncate_inv; [right; eauto|lia].
  Qed.

  (* ---------------------------------------------------------------- all histories over the core alphabet *)
  Inductive coreop :=
  | KPush (payload_ : Z)
  | KPop
  | KRemove (i : Z)
  | KTruncate (n : Z)
  | KRetain (sc : list answer)
  | KDedup (k : same_kind) (sc : list answer)
  | KCap (o : capop).

  Definition coreop_ok (o : coreop) : Prop :=
    match o with
    | KRemove i => 0 <= i
    | KTruncate n => 0 <= n
    | KCap o => cap_arg_ok o
    | _ => True
    end.

  Definition run_coreop (v : nat) (o : coreop) : M unit :=
    match o with
    | KPush p => e <- fresh_elem p ;; push cfg ncap v e
    | KPop => _ <- pop cfg v ;; ret tt
    | KRemove i => _ <- remove cfg v i ;; ret tt
    | KTruncate n => truncate cfg v n
    | KRetain sc => retain cfg v sc
    | KDedup k sc => dedup_by cfg v k sc
    | KCap o => run_capop cfg ncap v o
    end.

  Fixpoint run_coreops (v : nat) (os : list coreop) : M unit :=
    match os with
    | [] => ret tt
    | o :: os => bind (catch (run_coreop v o)) (fun _ => run_coreops v os)
    end.

  Lemma run_coreop_inv s v o : vinv s v -> coreop_ok o ->
    post (run_coreop v o s) (fun _ s' => vinv s' v) (fun s' => vinv s' v).
  Proof.
    intros Hinv Hok. destruct o as [p| |i|n|sc|k sc|o]; simpl in *.
    - rewrite (bind_val _ _ _ _ _ (fresh_elem_eq s p)).
      apply push_inv.
      + apply vinv_fresh. exact Hinv.
      + simpl. unfold upd. rewrite Z.eqb_refl. reflexivity.
      + intros b bl Hv Hin. destruct Hinv as [Hs|(b0 & bl0 & Hv0 & Hb0 & Ho0)].
        * unfold vec_sentinel in Hs. destruct Hv as [Hv _]. simpl in Hv. congruence.
        * destruct Hv as [Hv1 Hv2], Hv0 as [Hv01 Hv02]. simpl in *.
          assert (b = b0) by congruence. subst b0. assert (bl = bl0) by congruence. subst bl0.
          pose proof (ow_old _ _ Ho0 _ Hin). lia.
      + simpl. lia.
    - eapply post_bind; [apply pop_inv; exact Hinv|]. intros r s' H. simpl. exact H.
    - eapply post_bind; [apply remove_inv; assumption|]. intros r s' H. simpl. exact H.
    - apply truncate_inv; assumption.
    - apply retain_inv; assumption.
    - apply dedup_inv; assumption.
    - apply capop_inv; assumption.
  Qed.

  (* for EVERY sequence of core operations with ANY arguments, ANY predicate scripts (including
     panicking ones) and ANY set of panicking destructors, every panic being caught between the
     operations: never undefined behaviour (no double drop, no dead or uninitialised element
     exposed, no access outside the block, no wrong layout quoted), never a hang, and after every
     operation the vector owns its elements: initialised, live, pairwise distinct *)
  Theorem core_history_safe v os s :
    vinv s v -> Forall coreop_ok os ->
    post (run_coreops v os s) (fun _ s' => vinv s' v) (fun _ => False).
  Proof.
    revert s. induction os as [|o os IH]; intros s Hv Hargs.
    - simpl. exact Hv.
    - inversion Hargs as [|? ? Ho Hos]; subst. simpl.
      eapply post_bind with (Q1 := fun _ s' => vinv s' v).
      + eapply post_catch; [apply run_coreop_inv; eassumption| |].
        * intros a s' H. exact H.
        * intros s' H. exact H.
      + intros u s' Hv'. apply IH; assumption.
  Qed.
End Core.
