(* Proofs/SerdeSeq.v -- the deserialization visitor (SerdeSeq.visit_body, tied to the regenerated
   `VecVisitor::visit_seq` in EquivSerdeSeq.v) at list level: for ANY input script (elements, end,
   element-level error anywhere) and ANY claimed size hint, `Ok(values)` holds exactly the elements the
   input yielded before its end, in order, each held once, in a NEW vector; nothing that existed before
   is touched; an input error is reported as the error; the claimed hint has no influence on the
   contents. *)
From Coq Require Import ZArith List Bool Lia Permutation.
From MV Require Import Ast Eval Scalar Machine SerdeSeq.
From MV.Proofs Require Import Arith Logic Prim View OpsLocal Guards Grow CapHistory Drops Retain Sentinel Core Refine Clone Extend SplitOff.
Import ListNotations.
Open Scope Z_scope.

Section SerdeSeqP.
  Variable cfg : tcfg.
  Variable ncap : Z -> option Z.
  Hypothesis Hcfg : cfg_ok cfg.
  Hypothesis Hpol : policy_ok ncap.
  Hypothesis Htracked : needs_drop cfg = true.

  Local Notation vabs := (vabs cfg).

  Theorem visit_loop_abs : forall fuel s v l sc,
    vabs s v l -> (List.length sc < fuel)%nat ->
    let '(n, p) := yields sc in
    post (visit_loop cfg ncap fuel v sc s)
      (fun r s' => fst r = negb p /\ vabs s' v (l ++ zseq (next_elem s) n) /\ next_elem s' = next_elem s + Z.of_nat n /\
                   (forall e, e < next_elem s -> ledger s' e = ledger s e))
      (fun s' => exists k, (k <= n)%nat /\ vabs s' v (l ++ zseq (next_elem s) k) /\
                           (forall e, e < next_elem s -> ledger s' e = ledger s e)).
  Proof.
    induction fuel as [|fuel IH]; intros s v l sc Hab Hfuel; [lia|].
    destruct (vabs_owned cfg s v l Hab) as (Hnd & Hlive & Hold).
    destruct sc as [|x sc']; cbn [yields visit_loop seq_next iter_next pop_script].
    - (* the script is exhausted: Ok(None) *)
      change (A_N =? A_P) with false. change (A_N =? A_S) with false. cbn iota.
      unfold bind, emit, ret. simpl. rewrite app_nil_r.
      split; [reflexivity|]. split; [|split; [simpl; lia|auto]].
      eapply vabs_ext; [exact Hab|reflexivity|reflexivity|auto|simpl; lia].
    - destruct (Z.eqb_spec x A_P) as [EP|NP].
      { (* an element-level error *)
        unfold bind, ret. simpl. rewrite app_nil_r.
        split; [reflexivity|]. split; [exact Hab|]. split; [lia|auto]. }
      destruct (Z.eqb_spec x A_S) as [ES|NS].
      2:{ (* Ok(None) *)
        unfold bind, emit, ret. simpl. rewrite app_nil_r.
        split; [reflexivity|]. split; [|split; [simpl; lia|auto]].
        eapply vabs_ext; [exact Hab|reflexivity|reflexivity|auto|simpl; lia]. }
      (* Ok(Some(fresh element)) *)
      subst x. set (e := next_elem s).
      destruct (iter_next_some s sc') as (s2 & Hit & Hh2 & Hv2 & Hl2 & Hn2).
      rewrite bind_assoc. rewrite (bind_val _ _ _ _ _ Hit). rewrite bind_ret. cbn [fst snd].
      assert (Hab2 : vabs s2 v l).
      { eapply vabs_ext; [exact Hab|exact Hh2|exact Hv2| |lia].
        intros y Hy. rewrite Hl2. unfold upd. destruct (Z.eqb_spec y (next_elem s)); [specialize (Hold y Hy); lia|reflexivity]. }
      assert (Hlive2 : ledger s2 e = Live) by (rewrite Hl2; unfold upd, e; rewrite Z.eqb_refl; reflexivity).
      assert (Hnot : ~ In e l) by (intros Hin; specialize (Hold e Hin); unfold e in Hold; lia).
      pose proof (push_abs cfg ncap Hcfg Hpol Htracked s2 v l e Hab2 Hlive2 Hnot ltac:(unfold e; lia)) as Hpush.
      destruct (yields sc') as [n p] eqn:Ey.
      eapply post_bind.
      { eapply post_weaken; [exact Hpush|intros u s3 H; exact H|].
        intros s3 (Hab3 & Hd & Hoc). exists O. split; [lia|]. simpl. rewrite app_nil_r. split; [exact Hab3|].
        destruct Hoc as [Hn3 Hl3].
        intros y Hy. rewrite Hl3 by (intros [<-|[]]; unfold e in Hy; lia).
        rewrite Hl2. unfold upd. destruct (Z.eqb_spec y (next_elem s)); [lia|reflexivity]. }
      intros u s3 (Hab3 & [Hn3 Hl3] & _).
      specialize (IH s3 v (l ++ [e]) sc' Hab3 ltac:(simpl in Hfuel; lia)). rewrite Ey in IH.
      assert (Hns3 : next_elem s3 = next_elem s + 1) by (rewrite Hn3; exact Hn2).
      assert (Hold3 : forall y, y < next_elem s -> ledger s3 y = ledger s y).
      { intros y Hy. rewrite Hl3 by (intros []). rewrite Hl2. unfold upd. destruct (Z.eqb_spec y (next_elem s)); [lia|reflexivity]. }
      eapply post_weaken; [exact IH| |].
      + intros r s4 (Hp & Hab4 & Hn4 & Hl4). split; [exact Hp|].
        rewrite <- app_assoc in Hab4. rewrite Hns3 in Hab4. split; [exact Hab4|]. split; [lia|].
        intros y Hy. rewrite Hl4 by lia. apply Hold3. exact Hy.
      + intros s4 (k & Hk & Hab4 & Hl4). exists (S k). split; [lia|].
        rewrite <- app_assoc in Hab4. rewrite Hns3 in Hab4. split; [exact Hab4|].
        intros y Hy; rewrite Hl4 by lia; apply Hold3; exact Hy.
  Qed.

  (* the whole body: a NEW vector (the first unused name), whatever hint is claimed *)
  Local Opaque visit_loop.
  Theorem visit_body_abs s h sc :
    (match h with Some n => 0 <= n | None => True end) ->
    let '(n, p) := yields sc in
    post (visit_body cfg ncap h sc s)
      (fun r s' =>
         (forall e, e < next_elem s -> ledger s' e = ledger s e) /\
         if p then r = None
         else r = Some (List.length (vecs s)) /\
              vabs s' (List.length (vecs s)) (zseq (next_elem s) n) /\ next_elem s' = next_elem s + Z.of_nat n)
      (fun s' => forall e, e < next_elem s -> ledger s' e = ledger s e).
  Proof.
    intros Hh.
    pose proof (fun s2 w Hab => visit_loop_abs (S (List.length sc)) s2 w [] sc Hab ltac:(lia)) as HL.
    destruct (yields sc) as [n p].
    unfold visit_body, with_capacity_body, new_obj. cbv [bind get ret].
    set (w := List.length (vecs s)).
    destruct (new_vec_spec cfg Hcfg s w) as (s1 & Hn & Hsen & _ & Hled & Hnext & _).
    rewrite Hn.
    assert (Hab1 : vabs s1 w []) by (left; split; [exact Hsen|reflexivity]).
    assert (Hc : 0 <= map_size_hint h) by (unfold map_size_hint; destruct h; lia).
    pose proof (capop_abs cfg ncap Hcfg Hpol s1 w [] (CReserveExact (map_size_hint h)) Hab1 Hc) as HR.
    cbn [run_capop] in HR.
    destruct (reserve_exact cfg w (map_size_hint h) s1) as [[u| | | | |] s2]; simpl in HR |- *; try tauto.
    2:{ subst s2. intros e He. rewrite Hled. reflexivity. }
    destruct HR as (Hab2 & [Hn2 Hl2] & _).
    specialize (HL s2 w Hab2). cbn [app] in HL.
    assert (Hn02 : next_elem s2 = next_elem s) by (rewrite Hn2; exact Hnext).
    assert (Hl02 : forall e, ledger s2 e = ledger s e) by (intros e; rewrite Hl2 by (intros []); rewrite Hled; reflexivity).
    rewrite Hn02 in HL.
    destruct (visit_loop cfg ncap (S (List.length sc)) w sc s2) as [[[ok sc']| | | | |] s3]; simpl in HL |- *; try tauto.
    - destruct HL as (Hok & Hab3 & Hn3 & Hl3). simpl in Hok. subst ok.
      split; [intros e He; rewrite Hl3 by exact He; apply Hl02|].
      destruct p; simpl; [reflexivity|]. split; [reflexivity|]. split; [exact Hab3|exact Hn3].
    - destruct HL as (k & _ & _ & Hl3). intros e He. rewrite Hl3 by exact He. apply Hl02.
  Qed.
End SerdeSeqP.
