(* Proofs/FilterIt.v -- DrainFilter: `next` compacts the kept elements to the front while it looks
   for the next match; the vector's length is 0 for as long as the iterator lives; the guard moves
   the untested rest down behind the kept elements and publishes the length.  For ANY predicate
   script (true / false / panic), from ANY point of the traversal:
   - `next` yields exactly the next element the predicate accepts, having kept (in order) the ones it
     rejected in between, and stops at a predicate panic with `panicked` set (filter_next_spec);
   - the vector exposes nothing while the iterator lives (forgetting it only leaks);
   - dropping the iterator leaves the vector equal to: kept elements ++ (when the predicate
     panicked) the untested rest -- every accepted element destroyed exactly once (filter_drop_spec). *)
From Coq Require Import ZArith List Bool Lia.
From MV Require Import Ast Eval Scalar Machine.
From MV.Proofs Require Import Arith Logic Prim View OpsLocal Guards Drops Retain.
Import ListNotations.
Open Scope Z_scope.

Section FilterIt.
  Variable cfg : tcfg.
  Hypothesis Hcfg : cfg_ok cfg.

  (* orig: the vector's elements when the iterator was created; kept: the elements tested so far and
     rejected by the predicate (they stay), already compacted to slots [0, new) *)
  Record finv (s : state) (f : dfilter_it) (b : nat) (orig kept : list elem) : Prop := {
    fi_block : exists bl, vec_at s (f_vec f) b bl /\ block_ok cfg bl /\ h_len bl = 0 /\ f_old f <= h_cap bl /\
               (forall i, 0 <= i < f_new f -> slots bl i = Init (nth (Z.to_nat i) kept 0)) /\
               (forall i, f_pos f <= i < f_old f -> slots bl i = Init (nth (Z.to_nat i) orig 0));
    fi_bounds : 0 <= f_new f <= f_pos f /\ f_pos f <= f_old f;
    fi_olen : Z.of_nat (List.length orig) = f_old f;
    fi_klen : Z.of_nat (List.length kept) = f_new f;
    fi_live : forall e, In e (skipn (Z.to_nat (f_pos f)) orig) -> tracked cfg = false \/ ledger s e = Live }.

  (* while the iterator lives the vector exposes nothing: forgetting it can only leak *)
  Lemma finv_vector_is_empty s f b orig kept :
    finv s f b orig kept -> exists bl, vec_at s (f_vec f) b bl /\ block_ok cfg bl /\ velems bl = [].
  Proof. intros [(bl & Hv & Hb & H0 & _) _ _ _ _]. exists bl. split; [exact Hv|]. split; [exact Hb|]. unfold velems. rewrite H0. reflexivity. Qed.

  (* what one call of next() does, as a function of the untested rest and the predicate script:
     (newly kept, result, how far pos advances, rest of the script) *)
  Inductive fres := RYield (e : elem) | RDone | RPanic.

  Fixpoint fnext_spec (rest : list elem) (sc : list answer) : list elem * fres * nat * list answer :=
    match rest with
    | [] => ([], RDone, O, sc)
    | e :: rest' =>
        let '(x, sc') := pop_script sc A_F in
        if x =? A_P then ([], RPanic, O, sc') else
        if x =? A_T then ([], RYield e, 1%nat, sc') else
        let '(k, r, n, sc'') := fnext_spec rest' sc' in (e :: k, r, S n, sc'')
    end.

  Definition to_fstep (r : fres) : fstep := match r with RYield e => FYield e | RDone => FDone | RPanic => FPanic end.
  Definition is_panic (r : fres) : bool := match r with RPanic => true | _ => false end.

  (* s' differs from s only in block b and in the event log *)
  Record fframe (s s' : state) (b : nat) : Prop := {
    ff_vecs : vecs s' = vecs s;
    ff_iters : iters s' = iters s;
    ff_ledger : ledger s' = ledger s;
    ff_next : next_elem s' = next_elem s;
    ff_dp : drop_panics s' = drop_panics s;
    ff_len : List.length (heap s') = List.length (heap s);
    ff_other : forall b', b' <> b -> nth_error (heap s') b' = nth_error (heap s) b' }.

  Lemma fframe_refl s b : fframe s s b.
  Proof. constructor; auto. Qed.
  Lemma fframe_trans s1 s2 s3 b : fframe s1 s2 b -> fframe s2 s3 b -> fframe s1 s3 b.
  Proof.
    intros [] []. constructor; try congruence.
    intros b' H. rewrite ff_other1, ff_other0 by assumption. reflexivity.
  Qed.
  Lemma fframe_upd s b bl : fframe s (upd_block s b bl) b.
  Proof. constructor; auto; simpl; [apply list_set_length|intros b' H; apply list_set_other; congruence]. Qed.

  Lemma emit_fframe ev s b : exists s', emit ev s = (Val tt, s') /\ fframe s s' b /\ heap s' = heap s.
  Proof. eexists. split; [reflexivity|]. split; [constructor; simpl; auto|reflexivity]. Qed.

  Lemma skipn_cons_nth (l : list elem) n e rest : skipn n l = e :: rest ->
    nth n l 0 = e /\ skipn (S n) l = rest /\ (n < List.length l)%nat.
  Proof.
    revert l. induction n as [|n IH]; intros [|x l] H; simpl in *; try discriminate.
    - inversion H; subst. repeat split. lia.
    - destruct (IH l H) as (H1 & H2 & H3). repeat split; auto. lia.
  Qed.

  Lemma nth_skipn_local (l : list elem) n k : nth k (skipn n l) 0 = nth (n + k) l 0.
  Proof. revert l. induction n as [|n IH]; intros [|x l]; simpl; auto. destruct k; reflexivity. Qed.

  Lemma skipn_skipn_local (l : list elem) m n : skipn n (skipn m l) = skipn (m + n) l.
  Proof. revert l. induction m as [|m IH]; intros [|x l]; simpl; auto. destruct n; reflexivity. Qed.

  Lemma nth_app_l (l1 l2 : list elem) i : (i < List.length l1)%nat -> nth i (l1 ++ l2) 0 = nth i l1 0.
  Proof. intros H. apply app_nth1. exact H. Qed.

  Lemma filter_next_spec : forall rest fuel f s b orig kept,
    finv s f b orig kept -> skipn (Z.to_nat (f_pos f)) orig = rest -> (List.length rest < fuel)%nat ->
    let '(k, r, n, sc') := fnext_spec rest (f_pred f) in
    exists s' f',
      filter_next cfg fuel f s = (Val (to_fstep r, f'), s') /\
      finv s' f' b orig (kept ++ k) /\ fframe s s' b /\
      f_vec f' = f_vec f /\ f_old f' = f_old f /\
      f_pos f' = f_pos f + Z.of_nat n /\ f_pred f' = sc' /\ (r = RPanic -> f_panicked f' = true) /\
      match r with RYield e => nth_error orig (Z.to_nat (f_pos f') - 1) = Some e | _ => True end.
  Proof.
    induction rest as [|e rest IH]; intros fuel f s b orig kept Hinv Hrest Hfuel.
    - (* nothing left *)
      simpl. destruct fuel as [|fuel]; [simpl in Hfuel; lia|].
      pose proof (fi_bounds _ _ _ _ _ Hinv) as (Hb1 & Hb2). pose proof (fi_olen _ _ _ _ _ Hinv) as Hol.
      assert (f_old f <= f_pos f).
      { apply (f_equal (@List.length elem)) in Hrest. rewrite skipn_length in Hrest. simpl in Hrest. lia. }
      exists s, f. simpl. assert (E : (f_old f <=? f_pos f) = true) by (apply Z.leb_le; assumption). rewrite E.
      split; [reflexivity|]. rewrite app_nil_r. split; [exact Hinv|]. split; [apply fframe_refl|].
      repeat split; try reflexivity; try lia. discriminate.
    - (* one more element to test *)
      destruct fuel as [|fuel]; [simpl in Hfuel; lia|].
      pose proof Hinv as [(bl & Hv & Hb & H0 & Hcap & Hk & Ho) (Hb1 & Hb2) Hol Hkl Hlive].
      destruct (skipn_cons_nth _ _ _ _ Hrest) as (Hnth & Hrest' & Hlt).
      assert (Hpos : f_pos f < f_old f) by lia.
      cbn [fnext_spec filter_next].
      assert (E : (f_old f <=? f_pos f) = false) by (apply Z.leb_gt; assumption). rewrite E.
      destruct (data_at cfg _ _ _ _ Hcfg Hv Hb) as (off & Hco & Hd).
      rewrite (bind_val _ _ _ _ _ Hd). simpl padd. rewrite ?Z.add_0_l.
      pose proof (slot_read_at cfg s b bl off (f_pos f) Hcfg (proj2 Hv) Hb Hco ltac:(lia)) as Hr.
      rewrite (Ho (f_pos f) ltac:(lia)), Hnth in Hr.
      rewrite (bind_val _ _ _ _ _ Hr).
      rewrite (bind_val _ _ _ _ _ (expose_live cfg s e (Hlive e ltac:(rewrite Hrest; left; reflexivity)))).
      destruct (emit_fframe (EvCall "p" [e]) s b) as (s1 & Hem & Hff1 & Hh1).
      rewrite (bind_val _ _ _ _ _ Hem).
      pose proof (ff_ledger _ _ _ Hff1) as Hl1.
      assert (Hvs1 : vec_at s1 (f_vec f) b bl) by (destruct Hv as [A B]; split; [rewrite (ff_vecs _ _ _ Hff1); exact A|rewrite Hh1; exact B]).
      destruct (pop_script (f_pred f) A_F) as [x sc'] eqn:Eps.
      destruct (x =? A_P) eqn:EP.
      { (* the predicate panics *)
        eexists s1, _. split; [reflexivity|]. rewrite app_nil_r. split.
        { constructor; simpl; auto.
          - exists bl. split; [exact Hvs1|]. split; [exact Hb|]. split; [exact H0|]. split; [exact Hcap|]. split; [exact Hk|exact Ho].
          - intros y Hy. rewrite Hl1. apply Hlive. exact Hy. }
        split; [exact Hff1|]. simpl. repeat split; auto; lia. }
      destruct (x =? A_T) eqn:ET.
      { (* accepted: yielded *)
        eexists s1, _. split; [reflexivity|]. rewrite app_nil_r. split.
        { constructor; simpl; auto; try lia.
          - exists bl. split; [exact Hvs1|]. split; [exact Hb|]. split; [exact H0|]. split; [exact Hcap|]. split; [exact Hk|]. intros i Hi. apply Ho. lia.
          - intros y Hy. rewrite Hl1. apply Hlive. rewrite Hrest. right.
            replace (Z.to_nat (f_pos f + 1)) with (S (Z.to_nat (f_pos f))) in Hy by lia. rewrite Hrest' in Hy. exact Hy. }
        split; [exact Hff1|]. simpl. repeat split; auto; try lia; try discriminate.
        replace (Z.to_nat (f_pos f + 1) - 1)%nat with (Z.to_nat (f_pos f)) by lia.
        rewrite <- Hnth. apply nth_error_nth'. exact Hlt. }
      (* rejected: kept, compacted to slot new *)
      set (bl2 := if f_new f <? f_pos f
                  then with_slots bl (fun k => if (f_new f <=? k) && (k <? f_new f + 1) then slots bl (k - f_new f + f_pos f) else slots bl k)
                  else bl).
      set (s2 := if f_new f <? f_pos f then upd_block s1 b bl2 else s1).
      assert (Hcopy : (if f_new f <? f_pos f then slot_copy cfg (PElt b off (f_pos f)) (PElt b off (f_new f)) 1 else ret tt) s1 = (Val tt, s2)).
      { subst s2 bl2. destruct (Z.ltb_spec (f_new f) (f_pos f)); [|reflexivity].
        apply (slot_copy_at cfg s1 b bl off (f_pos f) (f_new f) 1 Hcfg (proj2 Hvs1) Hb Hco); lia. }
      simpl padd. rewrite ?Z.add_0_l. rewrite (bind_val _ _ _ _ _ Hcopy).
      assert (Hb2' : block_ok cfg bl2) by (subst bl2; destruct (f_new f <? f_pos f); [apply block_ok_with_slots|]; exact Hb).
      assert (Hvs2 : vec_at s2 (f_vec f) b bl2).
      { subst s2 bl2. destruct (f_new f <? f_pos f); [apply vec_at_upd with (bl := bl)|]; exact Hvs1. }
      assert (Hff2 : fframe s s2 b).
      { subst s2. destruct (f_new f <? f_pos f); [eapply fframe_trans; [exact Hff1|apply fframe_upd]|exact Hff1]. }
      assert (Hslots2 : forall k, slots bl2 k = if (k =? f_new f) then Init e else slots bl k).
      { intros k. subst bl2. destruct (Z.ltb_spec (f_new f) (f_pos f)).
        - simpl. destruct (Z.eqb_spec k (f_new f)) as [->|Nk].
          + rewrite Z.leb_refl. assert (E1 : (f_new f <? f_new f + 1) = true) by (apply Z.ltb_lt; lia). rewrite E1. cbn [andb].
            replace (f_new f - f_new f + f_pos f) with (f_pos f) by lia. rewrite (Ho (f_pos f) ltac:(lia)), Hnth. reflexivity.
          + destruct (Z.leb_spec (f_new f) k); destruct (Z.ltb_spec k (f_new f + 1)); cbn [andb]; try reflexivity. lia.
        - destruct (Z.eqb_spec k (f_new f)) as [->|Nk]; [|reflexivity].
          assert (Enp : f_new f = f_pos f) by lia. rewrite Enp. rewrite (Ho (f_pos f) ltac:(lia)), Hnth. reflexivity. }
      set (f2 := with_f f (f_new f + 1) (f_pos f + 1) false sc').
      assert (Hinv2 : finv s2 f2 b orig (kept ++ [e])).
      { constructor; simpl; try lia.
        - exists bl2. split; [exact Hvs2|]. split; [exact Hb2'|]. split.
          { subst bl2. destruct (f_new f <? f_pos f); simpl; exact H0. }
          split; [subst bl2; destruct (f_new f <? f_pos f); simpl; exact Hcap|]. split.
          + intros i Hi. rewrite Hslots2. destruct (Z.eqb_spec i (f_new f)) as [->|Ni].
            * rewrite app_nth2 by lia. replace (Z.to_nat (f_new f) - List.length kept)%nat with O by lia. reflexivity.
            * rewrite nth_app_l by lia. apply Hk. lia.
          + intros i Hi. rewrite Hslots2. destruct (Z.eqb_spec i (f_new f)); [lia|]. apply Ho. lia.
        - rewrite app_length. simpl. lia.
        - intros y Hy. rewrite (ff_ledger _ _ _ Hff2). apply Hlive. rewrite Hrest. right.
          replace (Z.to_nat (f_pos f + 1)) with (S (Z.to_nat (f_pos f))) in Hy by lia. rewrite Hrest' in Hy. exact Hy. }
      assert (Hrest2 : skipn (Z.to_nat (f_pos f2)) orig = rest).
      { simpl. replace (Z.to_nat (f_pos f + 1)) with (S (Z.to_nat (f_pos f))) by lia. exact Hrest'. }
      specialize (IH fuel f2 s2 b orig (kept ++ [e]) Hinv2 Hrest2 ltac:(simpl in Hfuel; lia)).
      change (f_pred f2) with sc' in IH.
      destruct (fnext_spec rest sc') as [[[k r] n] sc''].
      destruct IH as (s' & f' & Hrun & Hinv' & Hff' & G1 & G2 & G3 & G4 & G5 & G6).
      exists s', f'. split; [exact Hrun|]. rewrite <- app_assoc in Hinv'. split; [exact Hinv'|].
      split; [eapply fframe_trans; eassumption|].
      simpl in G1, G2, G3. repeat split; auto; try lia.
  Qed.

  (* ------------------------------------------------------------------ the guard *)
  Lemma filter_guard_spec s f b orig kept :
    finv s f b orig kept ->
    exists s' bl', filter_guard cfg f s = (Val tt, s') /\ vec_at s' (f_vec f) b bl' /\ block_ok cfg bl' /\
                   velems bl' = kept ++ skipn (Z.to_nat (f_pos f)) orig /\
                   init_upto (slots bl') (h_len bl') /\ fframe s s' b.
  Proof.
    intros [(bl & Hv & Hb & H0 & Hcap & Hk & Ho) (Hb1 & Hb2) Hol Hkl Hlive].
    set (rem := f_old f - f_pos f). set (drained := f_pos f - f_new f).
    (* the slots after the (possible) move *)
    set (sl := fun k => if (f_new f <=? k) && (k <? f_new f + rem) then slots bl (k - f_new f + f_pos f) else slots bl k).
    assert (Hsl : forall k, 0 <= k < f_new f + rem ->
                    sl k = Init (nth (Z.to_nat k) (kept ++ skipn (Z.to_nat (f_pos f)) orig) 0)).
    { intros k Hkr. unfold sl. destruct (Z.leb_spec (f_new f) k); destruct (Z.ltb_spec k (f_new f + rem)); cbn [andb]; try lia.
      - rewrite app_nth2 by lia. rewrite nth_skipn_local. rewrite (Ho (k - f_new f + f_pos f)) by (unfold rem in *; lia).
        f_equal. f_equal. lia.
      - rewrite app_nth1 by lia. apply Hk. lia. }
    assert (Hsl0 : (0 <? rem) && (0 <? drained) = false -> forall k, 0 <= k < f_new f + rem -> slots bl k = sl k).
    { intros Hc k Hkr. unfold sl. destruct (Z.leb_spec (f_new f) k); destruct (Z.ltb_spec k (f_new f + rem)); cbn [andb]; try reflexivity.
      apply andb_false_iff in Hc. destruct Hc as [Hc|Hc]; apply Z.ltb_ge in Hc; [unfold rem in *; lia|].
      unfold drained in Hc. replace (k - f_new f + f_pos f) with k by lia. reflexivity. }
    set (bl1 := if (0 <? rem) && (0 <? drained) then with_slots bl sl else bl).
    set (s1 := if (0 <? rem) && (0 <? drained) then upd_block s b bl1 else s).
    assert (Hmove : (if (0 <? rem) && (0 <? drained)
                     then p <- as_ptr cfg (f_vec f) ;; slot_copy cfg (padd cfg p (f_pos f)) (padd cfg p (f_new f)) rem
                     else ret tt) s = (Val tt, s1)).
    { subst s1 bl1. destruct ((0 <? rem) && (0 <? drained)) eqn:Ec; [|reflexivity].
      apply andb_true_iff in Ec. destruct Ec as [E1 E2]. apply Z.ltb_lt in E1, E2.
      destruct (as_ptr_at cfg _ _ _ _ Hcfg Hv Hb) as (off & Hco & Hp).
      rewrite (bind_val _ _ _ _ _ Hp). simpl padd. rewrite ?Z.add_0_l.
      rewrite (slot_copy_at cfg s b bl off (f_pos f) (f_new f) rem Hcfg (proj2 Hv) Hb Hco); unfold rem in *; try lia.
      reflexivity. }
    assert (Hb1' : block_ok cfg bl1) by (subst bl1; destruct ((0 <? rem) && (0 <? drained)); [apply block_ok_with_slots|]; exact Hb).
    assert (Hv1 : vec_at s1 (f_vec f) b bl1).
    { subst s1 bl1. destruct ((0 <? rem) && (0 <? drained)); [apply vec_at_upd with (bl := bl)|]; exact Hv. }
    assert (Hff1 : fframe s s1 b) by (subst s1; destruct ((0 <? rem) && (0 <? drained)); [apply fframe_upd|apply fframe_refl]).
    assert (Hslots1 : forall k, 0 <= k < f_new f + rem -> slots bl1 k = sl k).
    { intros k Hkr. subst bl1. destruct ((0 <? rem) && (0 <? drained)) eqn:Ec; [reflexivity|]. apply Hsl0; [reflexivity|exact Hkr]. }
    assert (Hcap1 : h_cap bl1 = h_cap bl) by (subst bl1; destruct ((0 <? rem) && (0 <? drained)); reflexivity).
    assert (Hlen1 : h_len bl1 = 0) by (subst bl1; destruct ((0 <? rem) && (0 <? drained)); simpl; exact H0).
    assert (Hveq : forall bl', slots bl' = slots bl1 -> h_len bl' = f_new f + rem ->
                     velems bl' = kept ++ skipn (Z.to_nat (f_pos f)) orig /\ init_upto (slots bl') (h_len bl')).
    { intros bl' Hs' Hl'. split.
      - unfold velems. rewrite Hs', Hl'. apply list_ext. intros k.
        assert (Hlen : List.length (kept ++ skipn (Z.to_nat (f_pos f)) orig) = Z.to_nat (f_new f + rem)).
        { rewrite app_length, skipn_length. unfold rem. lia. }
        destruct (Nat.lt_ge_cases k (Z.to_nat (f_new f + rem))) as [L|G].
        + rewrite view_nth_nat by lia. rewrite Hslots1 by (unfold rem in *; lia). rewrite Hsl by (unfold rem in *; lia).
          cbn [slot_elem]. rewrite Nat2Z.id. symmetry. apply nth_error_nth'. lia.
        + rewrite view_nth_none by lia. symmetry. apply nth_error_None. lia.
      - rewrite Hs', Hl'. intros i Hi. rewrite Hslots1 by lia. rewrite Hsl by lia. eauto. }
    unfold filter_guard. fold rem drained. rewrite (bind_val _ _ _ _ _ Hmove).
    destruct (Z.eqb_spec (f_old f) 0) as [E0|N0].
    - (* the vector was empty: nothing to publish *)
      exists s1, bl1. split; [reflexivity|]. split; [exact Hv1|]. split; [exact Hb1'|].
      destruct (Hveq bl1 eq_refl ltac:(unfold rem; lia)) as [G1 G2]. split; [exact G1|]. split; [exact G2|exact Hff1].
    - rewrite (set_len_at cfg s1 (f_vec f) b bl1 (f_new f + rem) Hcfg Hv1 Hb1').
      eexists _, _. split; [reflexivity|]. split; [apply vec_at_upd with (bl := bl1); exact Hv1|].
      split; [apply block_ok_with_len; [exact Hb1'|unfold rem; lia]|].
      destruct (Hveq (with_hdr bl1 (f_new f + rem) (h_cap bl1) (h_align bl1)) eq_refl eq_refl) as [G1 G2].
      split; [exact G1|]. split; [exact G2|eapply fframe_trans; [exact Hff1|apply fframe_upd]].
  Qed.

  (* ------------------------------------------------------------------ dropping the iterator *)
  (* the whole remaining traversal: (kept, accepted = destroyed by the drop, untested after a
     predicate panic, did the predicate panic) *)
  Fixpoint fall_spec (rest : list elem) (sc : list answer) : list elem * list elem * list elem * bool :=
    match rest with
    | [] => ([], [], [], false)
    | e :: r =>
        let '(x, sc') := pop_script sc A_F in
        if x =? A_P then ([], [], e :: r, true) else
        let '(k, y, u, p) := fall_spec r sc' in
        if x =? A_T then (k, e :: y, u, p) else (e :: k, y, u, p)
    end.

  Lemma fall_unfold : forall rest sc,
    let '(k1, r, n, sc1) := fnext_spec rest sc in
    (n <= List.length rest)%nat /\
    match r with
    | RDone => n = List.length rest /\ fall_spec rest sc = (k1, [], [], false)
    | RPanic => fall_spec rest sc = (k1, [], skipn n rest, true)
    | RYield e => (0 < n)%nat /\
                  let '(k, y, u, p) := fall_spec (skipn n rest) sc1 in fall_spec rest sc = (k1 ++ k, e :: y, u, p)
    end.
  Proof.
    induction rest as [|e rest IH]; intros sc; simpl.
    - split; [lia|]. split; reflexivity.
    - destruct (pop_script sc A_F) as [x sc'].
      destruct (x =? A_P) eqn:EP; [simpl; split; [lia|reflexivity]|].
      destruct (x =? A_T) eqn:ET.
      + simpl. split; [lia|]. split; [lia|]. destruct (fall_spec rest sc') as [[[k y] u] p]. reflexivity.
      + specialize (IH sc'). destruct (fnext_spec rest sc') as [[[k1 r] n] sc1]. destruct IH as [Hn IH]. split; [lia|].
        destruct r as [e0| |]; simpl.
        * destruct IH as [Hpos IH]. split; [lia|]. destruct (fall_spec (skipn n rest) sc1) as [[[k y] u] p]. rewrite IH. reflexivity.
        * destruct IH as [-> IH]. split; [reflexivity|]. rewrite IH. reflexivity.
        * rewrite IH. reflexivity.
  Qed.

  Hypothesis Htracked : needs_drop cfg = true.

  (* the vector after the drop, and what happened to the elements *)
  Definition filter_done (s s' : state) (f : dfilter_it) (b : nat) (final dropped : list elem) : Prop :=
    (exists bl', vec_at s' (f_vec f) b bl' /\ block_ok cfg bl' /\ velems bl' = final /\ init_upto (slots bl') (h_len bl')) /\
    (forall e, In e dropped -> ledger s' e = Dropped) /\
    (forall e, ~ In e dropped -> ledger s' e = ledger s e) /\
    next_elem s' = next_elem s.

  Lemma finv_transfer s s' f b orig kept :
    finv s f b orig kept -> heap s' = heap s -> vecs s' = vecs s ->
    (forall e, In e (skipn (Z.to_nat (f_pos f)) orig) -> ledger s' e = ledger s e) ->
    finv s' f b orig kept.
  Proof.
    intros [(bl & Hv & Hrest) Hb Hol Hkl Hlive] Hh Hvs Hled. constructor; auto.
    - exists bl. split; [|exact Hrest]. destruct Hv as [A B]. split; [rewrite Hvs; exact A|rewrite Hh; exact B].
    - intros e He. rewrite (Hled e He). apply Hlive. exact He.
  Qed.

  Lemma filter_drop_loop_spec : forall fuel f s b orig kept,
    finv s f b orig kept -> NoDup orig ->
    (List.length (skipn (Z.to_nat (f_pos f)) orig) < fuel)%nat ->
    let '(k, y, u, p) := fall_spec (skipn (Z.to_nat (f_pos f)) orig) (f_pred f) in
    (forall e, In e y -> mem e (drop_panics s) = false) ->
    post (filter_drop_loop cfg fuel f s)
      (fun _ s' => p = false /\ filter_done s s' f b (kept ++ k ++ u) y)
      (fun s' => p = true /\ filter_done s s' f b (kept ++ k ++ u) y).
  Proof.
    induction fuel as [|fuel IH]; intros f s b orig kept Hinv Hnd Hfuel; [lia|].
    set (rest := skipn (Z.to_nat (f_pos f)) orig) in *.
    pose proof (fi_olen _ _ _ _ _ Hinv) as Hol. pose proof (fi_bounds _ _ _ _ _ Hinv) as (Hb1 & Hb2).
    assert (Hrl : List.length rest = Z.to_nat (f_old f - f_pos f)) by (subst rest; rewrite skipn_length; lia).
    pose proof (filter_next_spec rest (filter_fuel f) f s b orig kept Hinv eq_refl ltac:(unfold filter_fuel; lia)) as Hnext.
    pose proof (fall_unfold rest (f_pred f)) as Hun.
    destruct (fnext_spec rest (f_pred f)) as [[[k1 r] n] sc1].
    destruct Hnext as (s1 & f1 & Hrun & Hinv1 & Hff & G1 & G2 & G3 & G4 & G5 & G6).
    destruct Hun as [Hnle Hun].
    cbn [filter_drop_loop]. rewrite (bind_val _ _ _ _ _ Hrun). cbn [fst snd].
    assert (Hskip1 : skipn (Z.to_nat (f_pos f1)) orig = skipn n rest).
    { subst rest. rewrite skipn_skipn_local. f_equal. lia. }
    destruct (filter_guard_spec s1 f1 b orig (kept ++ k1) Hinv1) as (s2 & bl2 & Hg & Hv2 & Hb2' & Hvel2 & Hi2 & Hff2).
    assert (Hdone_nodrop : filter_done s s2 f b ((kept ++ k1) ++ skipn n rest) []).
    { split; [exists bl2; rewrite <- G1, <- Hskip1; auto|].
      pose proof (fframe_trans _ _ _ _ Hff Hff2) as Hf. split; [intros e []|]. split; [intros e _; rewrite (ff_ledger _ _ _ Hf); reflexivity|exact (ff_next _ _ _ Hf)]. }
    destruct r as [e| |]; cbn [to_fstep].
    - (* an accepted element: destroy it, go on *)
      destruct Hun as [Hnpos Hun].
      destruct (fall_spec (skipn n rest) sc1) as [[[k y] u] p] eqn:Efall. rewrite Hun. intros Hnopanic.
      assert (HeIn : In e rest).
      { subst rest. assert (Hidx : (Z.to_nat (f_pos f1) - 1 = Z.to_nat (f_pos f) + (n - 1))%nat) by lia.
        rewrite Hidx in G6. rewrite <- nth_error_skipn_local in G6. eapply nth_error_In. exact G6. }
      assert (Hlive : ledger s1 e = Live).
      { rewrite (ff_ledger _ _ _ Hff). destruct (fi_live _ _ _ _ _ Hinv e HeIn) as [Ht|Hl]; [|exact Hl].
        unfold tracked in Ht. congruence. }
      destruct (drop_elem_live cfg Htracked s1 e Hlive) as (s3 & Hd3 & He3).
      assert (Hnp : mem e (drop_panics s1) = false) by (rewrite (ff_dp _ _ _ Hff); apply Hnopanic; left; reflexivity).
      rewrite Hnp in He3.
      assert (Hou : on_unwind (drop_elem cfg e) (filter_guard cfg f1) s1 = (Val tt, s3)) by (unfold on_unwind; rewrite He3; reflexivity).
      rewrite (bind_val _ _ _ _ _ Hou).
      (* e is not among the still untested elements *)
      assert (Hnot : ~ In e (skipn (Z.to_nat (f_pos f1)) orig)).
      { intros Hin. apply In_nth_error in Hin. destruct Hin as [j Hj]. rewrite nth_error_skipn_local in Hj.
        pose proof (proj1 (NoDup_nth_error orig) Hnd (Z.to_nat (f_pos f1) - 1)%nat (Z.to_nat (f_pos f1) + j)%nat) as Hinj.
        assert ((Z.to_nat (f_pos f1) - 1 < List.length orig)%nat) by (apply nth_error_Some; rewrite G6; discriminate).
        specialize (Hinj H ltac:(rewrite G6, Hj; reflexivity)). lia. }
      assert (Hinv3 : finv s3 f1 b orig (kept ++ k1)).
      { apply (finv_transfer s1 s3); [exact Hinv1|exact (ds_heap _ _ _ Hd3)|exact (ds_vecs _ _ _ Hd3)|].
        intros x Hx. apply (ds_out _ _ _ Hd3). intros [<-|[]]. exact (Hnot Hx). }
      specialize (IH f1 s3 b orig (kept ++ k1) Hinv3 Hnd ltac:(rewrite Hskip1, skipn_length; lia)).
      rewrite Hskip1, G4, Efall in IH.
      eapply post_weaken; [apply IH| |].
      + intros x Hx. rewrite (ds_dp _ _ _ Hd3), (ff_dp _ _ _ Hff). apply Hnopanic. right. exact Hx.
      + intros u0 s' [Hp Hdn]. split; [exact Hp|]. unfold filter_done in *.
        destruct Hdn as ((bl' & Hbl) & Hdr & Hkeep & Hnx). rewrite G1 in Hbl. rewrite <- !app_assoc in *.
        split; [exists bl'; exact Hbl|]. split; [|split].
        * intros x [<-|Hx]; [|apply Hdr; exact Hx].
          destruct (in_dec Z.eq_dec e y) as [Hy|Hy]; [apply Hdr; exact Hy|].
          rewrite (Hkeep e Hy). apply (ds_in _ _ _ Hd3). left. reflexivity.
        * intros x Hx. rewrite Hkeep by (intros Hy; apply Hx; right; exact Hy).
          rewrite (ds_out _ _ _ Hd3) by (intros [<-|[]]; apply Hx; left; reflexivity).
          rewrite (ff_ledger _ _ _ Hff). reflexivity.
        * rewrite Hnx, (ds_next _ _ _ Hd3). exact (ff_next _ _ _ Hff).
      + intros s' [Hp Hdn]. split; [exact Hp|]. unfold filter_done in *.
        destruct Hdn as ((bl' & Hbl) & Hdr & Hkeep & Hnx). rewrite G1 in Hbl. rewrite <- !app_assoc in *.
        split; [exists bl'; exact Hbl|]. split; [|split].
        * intros x [<-|Hx]; [|apply Hdr; exact Hx].
          destruct (in_dec Z.eq_dec e y) as [Hy|Hy]; [apply Hdr; exact Hy|].
          rewrite (Hkeep e Hy). apply (ds_in _ _ _ Hd3). left. reflexivity.
        * intros x Hx. rewrite Hkeep by (intros Hy; apply Hx; right; exact Hy).
          rewrite (ds_out _ _ _ Hd3) by (intros [<-|[]]; apply Hx; left; reflexivity).
          rewrite (ff_ledger _ _ _ Hff). reflexivity.
        * rewrite Hnx, (ds_next _ _ _ Hd3). exact (ff_next _ _ _ Hff).
    - (* the traversal is complete *)
      destruct Hun as [Hn Hun]. rewrite Hun. intros _. rewrite Hg. simpl.
      split; [reflexivity|]. rewrite app_nil_r.
      assert (E : skipn n rest = []) by (apply skipn_all2; lia). rewrite E, app_nil_r in Hdone_nodrop. exact Hdone_nodrop.
    - (* the predicate panicked: the guard restores the vector, the panic goes on *)
      rewrite Hun. intros _. unfold try_finally, panic. rewrite Hg. simpl.
      split; [reflexivity|]. rewrite app_assoc. exact Hdone_nodrop.
  Qed.

  (* ------------------------------------------------------------------ creation, and the drop from any point *)
  Lemma make_filter_spec s v b bl sc :
    vec_at s v b bl -> block_ok cfg bl -> init_upto (slots bl) (h_len bl) ->
    (forall e, In e (velems bl) -> ledger s e = Live) ->
    exists s' f, make_filter v sc s = (Val f, s') /\ finv s' f b (velems bl) [] /\ fframe s s' b /\
                 f_vec f = v /\ f_pos f = 0 /\ f_new f = 0 /\ f_old f = h_len bl /\ f_pred f = sc /\ f_panicked f = false.
  Proof.
    intros Hv Hb Hi Hlive. pose proof (bo_len _ _ Hb) as Hlen.
    unfold make_filter. rewrite (bind_val _ _ _ _ _ (len_at cfg _ _ _ _ Hcfg Hv Hb)).
    set (bl' := if 0 <? h_len bl then with_hdr bl 0 (h_cap bl) (h_align bl) else bl).
    set (s' := if 0 <? h_len bl then upd_block s b bl' else s).
    assert (Hset : (if 0 <? h_len bl then set_len v 0 else ret tt) s = (Val tt, s')).
    { subst s' bl'. destruct (0 <? h_len bl); [|reflexivity]. apply (set_len_at cfg s v b bl 0 Hcfg Hv Hb). }
    rewrite (bind_val _ _ _ _ _ Hset).
    eexists s', _. split; [reflexivity|]. split.
    - constructor; simpl; try lia.
      + exists bl'. subst s' bl'. destruct (Z.ltb_spec 0 (h_len bl)).
        * split; [apply vec_at_upd with (bl := bl); exact Hv|]. split; [apply block_ok_with_len; [exact Hb|lia]|].
          split; [reflexivity|]. split; [simpl; lia|]. split; [intros i Hi0; lia|].
          intros i Hi0. simpl. destruct (Hi i Hi0) as [e He]. rewrite He. f_equal.
          unfold velems. pose proof (view_nth (slots bl) (h_len bl) i Hi0) as Hn. rewrite He in Hn. simpl in Hn.
          symmetry. apply nth_error_nth with (d := 0) in Hn. exact Hn.
        * split; [exact Hv|]. split; [exact Hb|]. split; [lia|]. split; [lia|]. split; intros i Hi0; lia.
      + unfold velems. pose proof (view_length (slots bl) (h_len bl) ltac:(lia)). lia.
      + intros e He. right. subst s'. destruct (0 <? h_len bl); simpl; apply Hlive; exact He.
    - split; [subst s'; destruct (0 <? h_len bl); [apply fframe_upd|apply fframe_refl]|]. simpl. repeat split; reflexivity.
  Qed.

  (* Drop for DrainFilter, from ANY point of the traversal, for ANY predicate script: the vector is
     the kept elements (those rejected so far and from here on) followed -- only when the predicate
     panics -- by the untested rest; exactly the elements accepted from here on are destroyed, once;
     the call returns iff the predicate does not panic.  (Destructors of the accepted elements are
     assumed not to panic here.)  After a predicate panic observed by next(), `panicked` is set and
     the drop only runs the guard. *)
  Theorem filter_drop_spec s f b orig kept :
    finv s f b orig kept -> NoDup orig ->
    let rest := skipn (Z.to_nat (f_pos f)) orig in
    if f_panicked f then
      post (filter_drop cfg f s) (fun _ s' => filter_done s s' f b (kept ++ rest) []) (fun _ => False)
    else
      let '(k, y, u, p) := fall_spec rest (f_pred f) in
      (forall e, In e y -> mem e (drop_panics s) = false) ->
      post (filter_drop cfg f s)
        (fun _ s' => p = false /\ filter_done s s' f b (kept ++ k ++ u) y)
        (fun s' => p = true /\ filter_done s s' f b (kept ++ k ++ u) y).
  Proof.
    intros Hinv Hnd rest. unfold filter_drop. destruct (f_panicked f).
    - destruct (filter_guard_spec s f b orig kept Hinv) as (s2 & bl2 & Hg & Hv2 & Hb2 & Hvel & Hi2 & Hff).
      rewrite Hg. simpl. split; [exists bl2; auto|]. split; [intros e []|].
      split; [intros e _; rewrite (ff_ledger _ _ _ Hff); reflexivity|exact (ff_next _ _ _ Hff)].
    - apply (filter_drop_loop_spec (filter_fuel f) f s b orig kept Hinv Hnd).
      pose proof (fi_olen _ _ _ _ _ Hinv). pose proof (fi_bounds _ _ _ _ _ Hinv).
      rewrite skipn_length. unfold filter_fuel. lia.
  Qed.

  (* what the kept / accepted split is: the script answers, element by element *)
  Lemma fall_spec_no_panic rest sc :
    (forall a, In a (firstn (List.length rest) sc) -> a <> A_P) ->
    let '(k, y, u, p) := fall_spec rest sc in
    p = false /\ u = [] /\ Permutation.Permutation rest (k ++ y).
  Proof.
    revert sc. induction rest as [|e rest IH]; intros sc Hnp; simpl.
    - repeat split. constructor.
    - destruct sc as [|a sc]; simpl.
      + (* script exhausted: the default answer is `false` (keep) *)
        specialize (IH [] ltac:(intros a Ha; rewrite firstn_nil in Ha; destruct Ha)).
        change (A_F =? A_P) with false. change (A_F =? A_T) with false.
        destruct (fall_spec rest []) as [[[k y] u] p]. destruct IH as (-> & -> & Hp). repeat split. constructor. exact Hp.
      + assert (Ha : a <> A_P) by (apply Hnp; left; reflexivity).
        destruct (Z.eqb_spec a A_P); [contradiction|].
        specialize (IH sc ltac:(intros a0 Ha0; apply Hnp; right; exact Ha0)).
        destruct (fall_spec rest sc) as [[[k y] u] p]. destruct IH as (-> & -> & Hp).
        destruct (a =? A_T); repeat split.
        * eapply Permutation.Permutation_trans; [apply Permutation.perm_skip; exact Hp|apply Permutation.Permutation_middle].
        * constructor. exact Hp.
  Qed.
End FilterIt.
