(* Proofs/Sentinel.v -- C06: on a never-allocated vector no operation touches a header (which
   would be UB HeaderAccess: the sentinel is shared, read-only, one byte), builds a slice from a null
   pointer or steps a cursor outside an allocation; element-level results are those of an empty
   vector; nothing is allocated unless elements or capacity are added. *)
From Coq Require Import ZArith List Bool Lia.
From MV Require Import Ast Eval Scalar Machine.
From MV.Proofs Require Import Arith Logic Prim View OpsLocal Guards Grow CapHistory.
Import ListNotations.
Open Scope Z_scope.

Section Sentinel.
  Variable cfg : tcfg.
  Variable s : state.
  Variable v : nat.
  Hypothesis Hs : vec_sentinel s v.

  Lemma sn_handle : vec_handle v s = (Val Sentinel, s).
  Proof. unfold vec_handle. rewrite Hs. reflexivity. Qed.
  Lemma sn_len : len v s = (Val 0, s).
  Proof. unfold len. rewrite (bind_val _ _ _ _ _ sn_handle). reflexivity. Qed.
  Lemma sn_capacity : capacity v s = (Val 0, s).
  Proof. unfold capacity. rewrite (bind_val _ _ _ _ _ sn_handle). reflexivity. Qed.
  Lemma sn_is_default : is_default v s = (Val true, s).
  Proof. unfold is_default. rewrite (bind_val _ _ _ _ _ sn_handle). reflexivity. Qed.
  Lemma sn_as_ptr : as_ptr cfg v s = (Val PNull, s).
  Proof. unfold as_ptr. rewrite (bind_val _ _ _ _ _ sn_is_default). reflexivity. Qed.

  (* reads: the empty slice, no null slice is ever built *)
  Lemma sn_deref : deref cfg v s = (Val [], s).
  Proof. unfold deref. rewrite (bind_val _ _ _ _ _ sn_is_default). reflexivity. Qed.
  Lemma sn_pop : pop cfg v s = (Val None, s).
  Proof. unfold pop. rewrite (bind_val _ _ _ _ _ sn_len). reflexivity. Qed.
  Lemma sn_truncate n : 0 <= n -> truncate cfg v n s = (Val tt, s).
  Proof. intros H. apply (truncate_noop cfg s v 0 sn_len n H). Qed.
  Lemma sn_remove idx : 0 <= idx -> remove cfg v idx s = (Panicking, s).
  Proof. intros H. apply (remove_oob cfg s v 0 sn_len idx H). Qed.
  Lemma sn_swap_remove idx : 0 <= idx -> swap_remove cfg v idx s = (Panicking, s).
  Proof. intros H. apply (swap_remove_oob cfg s v 0 sn_len idx H). Qed.
  Lemma sn_spare : spare_capacity cfg v s = (Val 0, s).
  Proof. unfold spare_capacity. rewrite (bind_val _ _ _ _ _ sn_capacity). reflexivity. Qed.
  Lemma sn_split_at_spare : split_at_spare cfg v s = (Val (0, 0), s).
  Proof. unfold split_at_spare. rewrite (bind_val _ _ _ _ _ sn_capacity). reflexivity. Qed.
  Lemma sn_shrink_to_fit : shrink_to_fit cfg v s = (Val tt, s).
  Proof. unfold shrink_to_fit. rewrite (bind_val _ _ _ _ _ sn_len), (bind_val _ _ _ _ _ sn_capacity). reflexivity. Qed.
  Lemma sn_leak : exists s', leak cfg v s = (Val [], s') /\ heap s' = heap s.
  Proof. unfold leak. rewrite (bind_val _ _ _ _ _ sn_is_default). eexists. split; reflexivity. Qed.
  Lemma sn_retain sc : retain cfg v sc s = (Val tt, s).
  Proof.
    unfold retain. rewrite (bind_val _ _ _ _ _ sn_len), (bind_val _ _ _ _ _ sn_as_ptr).
    change (Z.to_nat 0) with O. cbn [retain_loop]. rewrite bind_ret. apply sn_truncate. lia.
  Qed.
  Lemma sn_dedup k sc : dedup_by cfg v k sc s = (Val tt, s).
  Proof. unfold dedup_by. rewrite (bind_val _ _ _ _ _ sn_len). reflexivity. Qed.

  (* dropping a never-allocated vector frees nothing *)
  Lemma sn_drop : exists s', drop_vec cfg v s = (Val tt, s') /\ heap s' = heap s /\ events s' = events s.
  Proof.
    unfold drop_vec, try_finally, drop_body. rewrite (bind_val _ _ _ _ _ sn_is_default). simpl.
    eexists. split; [reflexivity|]. split; reflexivity.
  Qed.

  (* drain(..) / splice(..) over the whole (empty) range: dangling cursors that are never
     dereferenced: every step from either end yields None, the size hint is 0 *)
  Lemma sn_drain_steps fill :
    exists d, make_drain cfg v BUnb BUnb fill s = (Val d, s) /\
      drain_next cfg d s = (Val (None, d), s) /\
      drain_next_back cfg d s = (Val (None, d), s) /\
      drain_hint d s = (Val 0, s).
  Proof.
    unfold make_drain. rewrite (bind_val _ _ _ _ _ sn_len).
    assert (Hr : resolve BUnb BUnb 0 s = (Val (0, 0), s)) by reflexivity.
    rewrite (bind_val _ _ _ _ _ Hr). rewrite (bind_val _ _ _ _ _ sn_as_ptr).
    eexists. split; [reflexivity|]. repeat split.
  Qed.

  (* IntoIter over the sentinel *)
  Lemma sn_into_iter :
    exists it, make_into cfg v s = (Val it, s) /\
      into_next cfg it s = (Val (None, it), s) /\ into_next_back cfg it s = (Val (None, it), s) /\
      into_as_slice cfg it s = (Val [], s).
  Proof.
    unfold make_into. rewrite (bind_val _ _ _ _ _ sn_is_default). simpl.
    eexists. split; [reflexivity|].
    unfold into_next, into_next_back, into_as_slice. simpl.
    rewrite !(bind_val _ _ _ _ _ sn_is_default). repeat split.
  Qed.

  (* DrainFilter over the sentinel: nothing to visit, the length is not written *)
  Lemma sn_drain_filter sc :
    exists f, make_filter v sc s = (Val f, s) /\ filter_next cfg (filter_fuel f) f s = (Val (FDone, f), s) /\
              filter_drop cfg f s = (Val tt, s).
  Proof.
    unfold make_filter. rewrite (bind_val _ _ _ _ _ sn_len). simpl.
    eexists. split; [reflexivity|]. split; reflexivity.
  Qed.
End Sentinel.
