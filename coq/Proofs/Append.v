(* Proofs/Append.v -- append(&mut self, other: &mut MiniVec<T>): two vectors.  From every pair of
   storage states: self holds its elements followed by other's, in order; other is empty (and keeps
   its block); no element is created, destroyed or duplicated; a refused reservation leaves both
   vectors as they were. *)
From Coq Require Import ZArith List Bool Lia Permutation.
From MV Require Import Ast Eval Scalar Machine.
From MV.Proofs Require Import Arith Logic Prim View OpsLocal Guards Grow CapHistory Drops Retain Deref Sentinel Core Refine Clone.
Import ListNotations.
Open Scope Z_scope.

Section Append.
  Variable cfg : tcfg.
  Variable ncap : Z -> option Z.
  Hypothesis Hcfg : cfg_ok cfg.
  Hypothesis Hpol : policy_ok ncap.
  Hypothesis Htracked : needs_drop cfg = true.

  Local Notation vabs := (vabs cfg).

  (* ptr::copy_nonoverlapping between two different blocks *)
  Lemma slot_copy_across_at s bs bls offs i bd bld offd j n :
    nth_error (heap s) bs = Some bls -> block_ok cfg bls -> canon_off bls = Some offs ->
    nth_error (heap s) bd = Some bld -> block_ok cfg bld -> canon_off bld = Some offd ->
    0 < n -> 0 <= i -> i + n <= h_cap bls -> 0 <= j -> j + n <= h_cap bld ->
    slot_copy_across cfg (PElt bs offs i) (PElt bd offd j) n s =
      (Val tt, upd_block s bd (with_slots bld (fun k => if (j <=? k) && (k <? j + n) then slots bls (k - j + i) else slots bld k))).
  Proof.
    intros Hs Hbs Hcs Hd Hbd Hcd Hn Hi Hin Hj Hjn. unfold slot_copy_across.
    assert (E : (n <=? 0) = false) by (apply Z.leb_gt; lia). rewrite E.
    rewrite (bind_val _ _ _ _ _ (elt_block_at cfg s bs bls offs (i + n - 1) Hcfg Hs Hbs Hcs ltac:(lia))).
    rewrite (bind_val _ _ _ _ _ (elt_block_at cfg s bs bls offs i Hcfg Hs Hbs Hcs ltac:(lia))).
    rewrite (bind_val _ _ _ _ _ (elt_block_at cfg s bd bld offd (j + n - 1) Hcfg Hd Hbd Hcd ltac:(lia))).
    rewrite (bind_val _ _ _ _ _ (elt_block_at cfg s bd bld offd j Hcfg Hd Hbd Hcd ltac:(lia))).
    reflexivity.
  Qed.

  (* room for n more elements *)
  Definition vroom (s : state) (v : nat) (l : list elem) (n : Z) : Prop :=
    exists b bl, vec_at s v b bl /\ block_ok cfg bl /\ owned s bl /\ velems bl = l /\ h_len bl + n <= h_cap bl.

  (* what a reservation on v leaves alone *)
  Record bystanders (s s' : state) (v : nat) : Prop := {
    by_vecs : forall w h, w <> v -> nth_error (vecs s) w = Some (Some h) -> nth_error (vecs s') w = Some (Some h);
    by_heap : forall b' blk, nth_error (heap s) b' = Some blk ->
              (forall bl, ~ vec_at s v b' bl) -> nth_error (heap s') b' = Some blk;
    by_same : same_elems s s';
    by_new : forall b' bl', vec_at s' v b' bl' -> (forall bl, ~ vec_at s v b' bl) -> (List.length (heap s) <= b')%nat }.

  Lemma bystanders_refl s v : bystanders s s v.
  Proof.
    constructor; auto using same_elems_refl.
    intros b' bl' H Hn. exfalso. exact (Hn bl' H).
  Qed.

  Lemma reserve_room s v l n :
    vabs s v l -> 0 < n < W64 ->
    post (reserve cfg ncap v n s) (fun _ s' => vroom s' v l n /\ bystanders s s' v) (fun s' => s' = s).
  Proof.
    intros [[Hs ->]|(b & bl & Hv & Hb & Ho & Hl)] Hn.
    - eapply post_weaken; [apply (reserve_sentinel cfg ncap Hcfg Hpol s v n Hs Hn)| |auto].
      intros u s' (size & c1 & Hc1 & Hbn & Hal).
      destruct (allocated_frame _ _ _ _ Hal) as (F1 & F2 & F3).
      split.
      + eexists _, _. split; [eapply allocated_vec_at; exact Hal|]. split; [exact Hbn|].
        split; [apply owned_fresh_block|]. split; [reflexivity|]. simpl. lia.
      + constructor.
        * intros w h Hw Hh. apply flat_some. rewrite F2 by exact Hw. rewrite Hh. reflexivity.
        * intros b' blk Hb' _. rewrite F1; [exact Hb'|]. apply nth_error_Some. rewrite Hb'. discriminate.
        * exact (al_same _ _ _ _ Hal).
        * intros b' bl' Hv' _. pose proof (allocated_vec_at _ _ _ _ Hal) as [A _]. destruct Hv' as [A' _].
          assert (b' = List.length (heap s)) by congruence. lia.
    - pose proof (bo_len _ _ Hb) as Hlen.
      eapply post_weaken; [apply (reserve_at cfg ncap Hcfg s v b bl n Hpol Hv Hb ltac:(lia))| |auto].
      intros u s' [[Hfit ->]|[_ (c & size & Hc1 & Hc2 & _ & Hbn & Hmv)]].
      + split; [exists b, bl; auto 6|apply bystanders_refl].
      + destruct (moved_frame _ _ _ _ _ Hmv) as (F1 & F2 & F3).
        split.
        * eexists _, _. split; [eapply moved_vec_at; exact Hmv|]. split; [exact Hbn|].
          split; [apply (owned_grown s s' bl c size Ho); [exact (se_ledger _ _ (mv_same _ _ _ _ _ Hmv))|exact (se_next _ _ (mv_same _ _ _ _ _ Hmv))]|].
          split; [exact Hl|]. simpl. lia.
        * constructor.
          -- intros w h Hw Hh. apply flat_some. rewrite F2 by exact Hw. rewrite Hh. reflexivity.
          -- intros b' blk Hb' Hnot. rewrite F1; [exact Hb'| |apply nth_error_Some; rewrite Hb'; discriminate].
             intros ->. apply (Hnot bl). exact Hv.
          -- exact (mv_same _ _ _ _ _ Hmv).
          -- intros b' bl' Hv' _. pose proof (moved_vec_at _ _ _ _ _ Hmv) as [A _]. destruct Hv' as [A' _].
             assert (b' = List.length (heap s)) by congruence. lia.
  Qed.

  Lemma view_app_copy (f g : Z -> slot) l n :
    0 <= l -> 0 <= n ->
    view (fun k => if (l <=? k) && (k <? l + n) then g (k - l + 0) else f k) (l + n) = view f l ++ view g n.
  Proof.
    intros Hl Hn. apply list_ext. intros k.
    assert (L1 : List.length (view f l) = Z.to_nat l) by (unfold view; rewrite map_length, seq_length; reflexivity).
    assert (L2 : List.length (view g n) = Z.to_nat n) by (unfold view; rewrite map_length, seq_length; reflexivity).
    destruct (Nat.lt_ge_cases k (Z.to_nat (l + n))) as [Lk|Gk].
    - rewrite view_nth_nat by lia.
      destruct (Nat.lt_ge_cases k (Z.to_nat l)) as [L|G].
      + rewrite nth_error_app1 by lia. rewrite view_nth_nat by lia.
        destruct (Z.leb_spec l (Z.of_nat k)); [lia|]. reflexivity.
      + rewrite nth_error_app2 by lia. rewrite L1. rewrite view_nth_nat by lia.
        destruct (Z.leb_spec l (Z.of_nat k)); [|lia]. destruct (Z.ltb_spec (Z.of_nat k) (l + n)); [|lia]. cbn [andb].
        f_equal. f_equal. f_equal. lia.
    - rewrite view_nth_none by lia. symmetry. apply nth_error_None. rewrite app_length. lia.
  Qed.

  (* append: self = self ++ other, other = [], nothing created, destroyed or duplicated *)
  Theorem append_abs s v o lv lo :
    vabs s v lv -> vabs s o lo -> v <> o ->
    (forall bv blv bo blo, vec_at s v bv blv -> vec_at s o bo blo -> bv <> bo) ->
    NoDup (lv ++ lo) ->
    post (append cfg ncap v o s)
      (fun _ s' => vabs s' v (lv ++ lo) /\ vabs s' o [] /\ only_changes s s' [])
      (fun s' => s' = s).
  Proof.
    intros Hav Hao Hvo Hdisj Hnd. unfold append, is_empty.
    destruct Hao as [[Hso ->]|(bo & blo & Hvo' & Hbo & Hoo & Hlo)].
    - (* other has never allocated *)
      destruct (sentinel_basics cfg s o Hso) as (Hl & _ & _).
      rewrite bind_assoc. rewrite (bind_val _ _ _ _ _ Hl). rewrite bind_ret. simpl.
      rewrite app_nil_r. split; [exact Hav|]. split; [left; auto|apply only_changes_refl].
    - pose proof (bo_len _ _ Hbo) as Hleno. pose proof (bo_cap _ _ Hbo) as Hcapo.
      pose proof (velems_length blo ltac:(lia)) as Hvlo.
      rewrite bind_assoc. rewrite (bind_val _ _ _ _ _ (len_at cfg _ _ _ _ Hcfg Hvo' Hbo)). rewrite bind_ret.
      destruct (Z.eqb_spec (h_len blo) 0) as [E0|N0].
      { simpl. assert (lo = []) by (apply length_zero_iff_nil; rewrite <- Hlo; lia). subst lo. rewrite H, app_nil_r.
        split; [exact Hav|]. split; [right; exists bo, blo; rewrite <- H; auto|apply only_changes_refl]. }
      rewrite (bind_val _ _ _ _ _ (len_at cfg _ _ _ _ Hcfg Hvo' Hbo)).
      eapply post_bind.
      { eapply post_weaken; [apply (reserve_room s v lv (h_len blo) Hav ltac:(lia))| |auto]. intros u s1 H. exact H. }
      intros u s1 [(bv & blv & Hv1 & Hbv & Hov & Hlv & Hroom) Hby].
      pose proof (bo_len _ _ Hbv) as Hlenv.
      pose proof (by_same _ _ _ Hby) as Hse.
      (* other is where it was *)
      assert (Hnotv : forall bl, ~ vec_at s v bo bl).
      { intros bl Hx. exact (Hdisj bo bl bo blo Hx Hvo' eq_refl). }
      assert (Ho1 : vec_at s1 o bo blo).
      { split; [apply (by_vecs _ _ _ Hby o (At bo 0) ltac:(congruence) (proj1 Hvo'))|apply (by_heap _ _ _ Hby bo blo (proj2 Hvo') Hnotv)]. }
      assert (Hne : bv <> bo).
      { intros ->.
        destruct Hav as [[Hsv _]|(b0 & bl0 & Hv0 & _)].
        - assert (Hx : forall bl, ~ vec_at s v bo bl) by (intros bl [A _]; unfold vec_sentinel in Hsv; congruence).
          pose proof (by_new _ _ _ Hby bo blv Hv1 Hx) as Hge.
          assert ((bo < List.length (heap s))%nat) by (apply nth_error_Some; rewrite (proj2 Hvo'); discriminate). lia.
        - pose proof (by_new _ _ _ Hby bo blv Hv1 Hnotv) as Hge.
          assert ((bo < List.length (heap s))%nat) by (apply nth_error_Some; rewrite (proj2 Hvo'); discriminate). lia. }
      destruct (as_ptr_at cfg _ _ _ _ Hcfg Ho1 Hbo) as (offo & Hcoo & Hpo).
      destruct (as_ptr_at cfg _ _ _ _ Hcfg Hv1 Hbv) as (offv & Hcov & Hpv).
      rewrite (bind_val _ _ _ _ _ Hpo), (bind_val _ _ _ _ _ Hpv).
      rewrite (bind_val _ _ _ _ _ (len_at cfg _ _ _ _ Hcfg Hv1 Hbv)).
      simpl padd. rewrite ?Z.add_0_l.
      rewrite (bind_val _ _ _ _ _ (slot_copy_across_at s1 bo blo offo 0 bv blv offv (h_len blv) (h_len blo)
                 (proj2 Ho1) Hbo Hcoo (proj2 Hv1) Hbv Hcov ltac:(lia) ltac:(lia) ltac:(lia) ltac:(lia) ltac:(lia))).
      set (sl2 := fun k => if (h_len blv <=? k) && (k <? h_len blv + h_len blo) then slots blo (k - h_len blv + 0) else slots blv k).
      set (blv2 := with_slots blv sl2). set (s2 := upd_block s1 bv blv2).
      assert (Ho2 : vec_at s2 o bo blo).
      { destruct Ho1 as [A B]. split; [exact A|]. unfold s2. rewrite upd_block_other by congruence. exact B. }
      rewrite (bind_val _ _ _ _ _ (set_len_at cfg s2 o bo blo 0 Hcfg Ho2 Hbo)).
      set (blo3 := with_hdr blo 0 (h_cap blo) (h_align blo)). set (s3 := upd_block s2 bo blo3).
      assert (Hbv2 : block_ok cfg blv2) by (apply block_ok_with_slots; exact Hbv).
      assert (Hv3 : vec_at s3 v bv blv2).
      { split; [exact (proj1 Hv1)|]. unfold s3. rewrite upd_block_other by congruence.
        unfold s2. eapply upd_block_same. exact (proj2 Hv1). }
      rewrite (add_len_at cfg s3 v bv blv2 (h_len blo) Hcfg Hv3 Hbv2). simpl.
      set (blv4 := with_hdr blv2 (h_len blv2 + h_len blo) (h_cap blv2) (h_align blv2)).
      assert (Hvel4 : velems blv4 = lv ++ lo).
      { unfold velems. change (h_len blv4) with (h_len blv + h_len blo). change (slots blv4) with sl2.
        unfold sl2. rewrite view_app_copy by lia. rewrite <- Hlv, <- Hlo. reflexivity. }
      assert (Hled : forall s', ledger s' = ledger s1 -> ledger s' = ledger s) by (intros s' ->; exact (se_ledger _ _ Hse)).
      split; [|split].
      + right. exists bv, blv4. split.
        { pose proof (vec_at_upd s3 v bv blv2 blv4 Hv3) as [A B]. split; [exact A|exact B]. }
        split; [apply block_ok_with_len; [exact Hbv2|simpl; lia]|]. split; [|exact Hvel4].
        constructor.
        * change (h_len blv4) with (h_len blv + h_len blo). change (slots blv4) with sl2. intros i Hi. unfold sl2.
          destruct (Z.leb_spec (h_len blv) i); destruct (Z.ltb_spec i (h_len blv + h_len blo)); cbn [andb]; try lia.
          -- apply (ow_init _ _ Hoo). lia.
          -- apply (ow_init _ _ Hov). lia.
        * rewrite Hvel4. exact Hnd.
        * intros e He. rewrite Hvel4 in He. simpl. rewrite (se_ledger _ _ Hse). apply in_app_or in He. destruct He as [He|He].
          -- destruct Hav as [[_ ->]|(b0 & bl0 & _ & _ & Ho0 & Hl0)]; [destruct He|]. apply (ow_live _ _ Ho0). rewrite Hl0. exact He.
          -- apply (ow_live _ _ Hoo). rewrite Hlo. exact He.
        * intros e He. rewrite Hvel4 in He. simpl. rewrite (se_next _ _ Hse). apply in_app_or in He. destruct He as [He|He].
          -- destruct Hav as [[_ ->]|(b0 & bl0 & _ & _ & Ho0 & Hl0)]; [destruct He|]. apply (ow_old _ _ Ho0). rewrite Hl0. exact He.
          -- apply (ow_old _ _ Hoo). rewrite Hlo. exact He.
      + right. exists bo, blo3. split.
        { split; [exact (proj1 Ho2)|]. simpl. rewrite list_set_other by congruence. apply list_set_same.
          rewrite list_set_length. apply nth_error_Some. rewrite (proj2 Ho1). discriminate. }
        split; [apply block_ok_with_len; [exact Hbo|lia]|]. split; [|reflexivity].
        constructor; simpl; [intros i Hi; lia|constructor|intros e []|intros e []].
      + split; [simpl; exact (se_next _ _ Hse)|]. intros e _. simpl. rewrite (se_ledger _ _ Hse). reflexivity.
  Qed.
End Append.
