(* Proofs/Logic.v -- symbolic execution of the machine's monad by rewriting, and the
   postcondition shape used by the safety theorems. *)
From Coq Require Import ZArith List Bool Lia.
From MV Require Import Ast Eval Scalar Machine.
Import ListNotations.
Open Scope Z_scope.

Lemma bind_val {A B} (m : M A) (f : A -> M B) s a s' :
  m s = (Val a, s') -> bind m f s = f a s'.
Proof. intros H. unfold bind. rewrite H. reflexivity. Qed.

Lemma bind_panic {A B} (m : M A) (f : A -> M B) s s' :
  m s = (Panicking, s') -> bind m f s = (Panicking, s').
Proof. intros H. unfold bind. rewrite H. reflexivity. Qed.

Lemma bind_ret {A B} (a : A) (f : A -> M B) s : bind (ret a) f s = f a s.
Proof. reflexivity. Qed.

Lemma bind_assoc {A B C} (m : M A) (f : A -> M B) (g : B -> M C) s :
  bind (bind m f) g s = bind m (fun a => bind (f a) g) s.
Proof. unfold bind. destruct (m s) as [[a| | | | |] s']; reflexivity. Qed.

(* outcome classes *)
Definition is_ub {A} (r : res A) : bool := match r with UB _ => true | _ => false end.
Definition is_nofuel {A} (r : res A) : bool := match r with OutOfFuel => true | _ => false end.

(* post r Q Qp: r is not undefined behaviour and not a hang; a normal result satisfies Q, a
   panic leaves a state satisfying Qp; the two process-ending outcomes are unconstrained here *)
Definition post {A} (r : res A * state) (Q : A -> state -> Prop) (Qp : state -> Prop) : Prop :=
  match r with
  | (Val a, s) => Q a s
  | (Panicking, s) => Qp s
  | (AllocAbort _ _, _) => True
  | (Abort, _) => True
  | (UB _, _) => False
  | (OutOfFuel, _) => False
  end.

Lemma post_bind {A B} (m : M A) (f : A -> M B) s Q1 Q Qp :
  post (m s) Q1 Qp ->
  (forall a s', Q1 a s' -> post (f a s') Q Qp) ->
  post (bind m f s) Q Qp.
Proof.
  unfold bind. destruct (m s) as [[a| | | | |] s']; simpl; intros H1 H2; auto.
Qed.

Lemma post_weaken {A} (r : res A * state) (Q Q' : A -> state -> Prop) (Qp Qp' : state -> Prop) :
  post r Q Qp -> (forall a s, Q a s -> Q' a s) -> (forall s, Qp s -> Qp' s) -> post r Q' Qp'.
Proof. destruct r as [[a| | | | |] s]; simpl; auto. Qed.

Lemma post_try_finally {A} (m : M A) (c : M unit) s Q1 Qp1 Q Qp :
  post (m s) Q1 Qp1 ->
  (forall a s', Q1 a s' -> post (c s') (fun _ s'' => Q a s'') Qp) ->
  (forall s', Qp1 s' -> post (c s') (fun _ s'' => Qp s'') (fun _ => True)) ->
  post (try_finally m c s) Q Qp.
Proof.
  unfold try_finally. destruct (m s) as [[a| | | | |] s']; simpl; intros H1 H2 H3; auto.
  - specialize (H2 _ _ H1). destruct (c s') as [[u| | | | |] s'']; simpl in *; auto.
  - specialize (H3 _ H1). destruct (c s') as [[u| | | | |] s'']; simpl in *; auto.
Qed.

Lemma post_on_unwind {A} (m : M A) (c : M unit) s Q Qp1 Qp :
  post (m s) Q Qp1 ->
  (forall s', Qp1 s' -> post (c s') (fun _ s'' => Qp s'') (fun _ => True)) ->
  post (on_unwind m c s) Q Qp.
Proof.
  unfold on_unwind. destruct (m s) as [[a| | | | |] s']; simpl; intros H1 H3; auto.
  specialize (H3 _ H1). destruct (c s') as [[u| | | | |] s'']; simpl in *; auto.
Qed.

Lemma post_catch {A} (m : M A) s Q Qp (R : option A -> state -> Prop) :
  post (m s) Q Qp ->
  (forall a s', Q a s' -> R (Some a) s') -> (forall s', Qp s' -> R None s') ->
  post (catch m s) R (fun _ => False).
Proof. unfold catch. destruct (m s) as [[a| | | | |] s']; simpl; auto. Qed.
