(* Proofs/FilterAt.v -- DrainFilter::next as it runs on the iterator OBJECT (Machine.filter_next_at: the
   function the translated body is tied to in EquivFilter.v and that Run.v executes) is, on a
   well-formed iterator, the value-passing filter_next of the protocol theorems (Proofs/FilterIt.v)
   followed by storing the new iterator value in the object; in particular it never runs out of its
   fuel, a predicate panic leaves the object with `panicked` set and the script consumed, and the
   checked increments never overflow. *)
From Coq Require Import ZArith List Bool Lia.
From MV Require Import Ast Eval Scalar Machine.
From MV.Proofs Require Import Arith Logic Prim View OpsLocal Guards Grow Drops Retain DrainIt Deref IntoIt IterAt FilterIt Append.
Import ListNotations.
Open Scope Z_scope.

Section FilterAt.
  Variable cfg : tcfg.
  Hypothesis Hcfg : cfg_ok cfg.

  Local Notation wi := with_iter.

  Lemma list_put_put {A} (d : A) : forall n l a b, list_put d (list_put d l n a) n b = list_put d l n b.
  Proof. induction n as [|n IH]; intros [|x l] a b; simpl; try reflexivity; rewrite IH; reflexivity. Qed.

  Lemma wi_wi s i X Y : wi (wi s i X) i Y = wi s i Y.
  Proof. unfold with_iter, iter_set, bind, get, set_iters. simpl. rewrite list_put_put. reflexivity. Qed.

  Lemma iter_get_wi s i X : iter_get i (wi s i X) = (Val X, wi s i X).
  Proof. unfold iter_get. unfold with_iter at 1. simpl. rewrite list_put_same. reflexivity. Qed.

  Lemma filter_of_wi s i f : filter_of i (wi s i (IFilter f)) = (Val f, wi s i (IFilter f)).
  Proof. unfold filter_of. rewrite (bind_val _ _ _ _ _ (iter_get_wi s i (IFilter f))). reflexivity. Qed.

  Lemma iter_set_wi s i X Y : iter_set i (Some Y) (wi s i X) = (Val tt, wi s i Y).
  Proof. rewrite <- (wi_wi s i X Y). reflexivity. Qed.

  Lemma set_panicked_wi s i f b :
    set_filter_panicked i b (wi s i (IFilter f)) = (Val tt, wi s i (IFilter (with_f f (f_new f) (f_pos f) b (f_pred f)))).
  Proof. unfold set_filter_panicked. rewrite (bind_val _ _ _ _ _ (filter_of_wi s i f)). apply iter_set_wi. Qed.
  Lemma set_pos_wi s i f p :
    set_filter_pos i p (wi s i (IFilter f)) = (Val tt, wi s i (IFilter (with_f f (f_new f) p (f_panicked f) (f_pred f)))).
  Proof. unfold set_filter_pos. rewrite (bind_val _ _ _ _ _ (filter_of_wi s i f)). apply iter_set_wi. Qed.
  Lemma set_new_wi s i f n :
    set_filter_new i n (wi s i (IFilter f)) = (Val tt, wi s i (IFilter (with_f f n (f_pos f) (f_panicked f) (f_pred f)))).
  Proof. unfold set_filter_new. rewrite (bind_val _ _ _ _ _ (filter_of_wi s i f)). apply iter_set_wi. Qed.

  Lemma vec_at_wi s i X v b bl : vec_at s v b bl -> vec_at (wi s i X) v b bl.
  Proof. intros [A B]. split; assumption. Qed.

  Lemma uadd_small a : 0 <= a -> a + 1 < W64 -> forall s, uadd cfg a 1 s = (Val (a + 1), s).
  Proof. intros H0 H1 s. unfold uadd. assert (E : (a + 1 <? W64) = true) by (apply Z.ltb_lt; lia). rewrite E. reflexivity. Qed.

  Lemma In_nth_skipn : forall n (l : list elem), (n < List.length l)%nat -> In (nth n l 0) (skipn n l).
  Proof.
    induction n as [|n IHn]; intros l H; destruct l as [|x l]; simpl in H; try lia.
    - simpl. left. reflexivity.
    - simpl. apply IHn. lia.
  Qed.
  Lemma In_skipn_S : forall n (l : list elem) y, In y (skipn (S n) l) -> In y (skipn n l).
  Proof.
    induction n as [|n IHn]; intros l y H; destruct l as [|x l]; simpl in *; auto.
  Qed.

  (* the stored predicate called on the element behind p *)
  Lemma filter_pred_at_wi s i f p e :
    slot_read cfg p (wi s i (IFilter f)) = (Val e, wi s i (IFilter f)) ->
    (tracked cfg = false \/ ledger s e = Live) ->
    let s1 := snd (emit (EvCall "p" [e]) s) in
    let '(x, sc') := pop_script (f_pred f) A_F in
    filter_pred_at cfg i p (wi s i (IFilter f)) =
      ((if x =? A_P then Panicking else Val (x =? A_T)),
       wi s1 i (IFilter (with_f f (f_new f) (f_pos f) (f_panicked f) sc'))).
  Proof.
    intros Hr Hl s1. unfold filter_pred_at.
    rewrite (bind_val _ _ _ _ _ (filter_of_wi s i f)).
    rewrite (bind_val _ _ _ _ _ Hr).
    rewrite (bind_val _ _ _ _ _ (expose_live cfg (wi s i (IFilter f)) e Hl)).
    assert (Hema : emit (EvCall "p" [e]) (wi s i (IFilter f)) = (Val tt, wi s1 i (IFilter f))) by reflexivity.
    rewrite (bind_val _ _ _ _ _ Hema).
    destruct (pop_script (f_pred f) A_F) as [x sc'].
    rewrite (bind_val _ _ _ _ _ (iter_set_wi s1 i (IFilter f) _)).
    destruct (x =? A_P); reflexivity.
  Qed.

  Definition opt_of (r : fstep) : res (option elem) :=
    match r with FYield e => Val (Some e) | FDone => Val None | FPanic => Panicking end.

  Theorem filter_next_at_eq : forall fuel f sv i b orig kept,
    finv cfg sv f b orig kept -> (Z.to_nat (f_old f - f_pos f) < fuel)%nat ->
    exists r f' sv',
      filter_next cfg fuel f sv = (Val (r, f'), sv') /\
      filter_next_at cfg fuel i (wi sv i (IFilter f)) = (opt_of r, wi sv' i (IFilter f')).
  Proof.
    induction fuel as [|fuel IH]; intros f sv i b orig kept Hinv Hfuel; [lia|].
    pose proof Hinv as [(bl & Hv & Hb & H0 & Hcap & Hk & Ho) (Hb1 & Hb2) Hol Hkl Hlive].
    cbn [filter_next filter_next_at].
    rewrite (bind_val _ _ _ _ _ (filter_of_wi sv i f)).
    destruct (Z.leb_spec (f_old f) (f_pos f)) as [Hdone|Hmore].
    - (* nothing left *)
      assert (E : (f_pos f <? f_old f) = false) by (apply Z.ltb_ge; lia). rewrite E.
      exists FDone, f, sv. split; reflexivity.
    - assert (E : (f_pos f <? f_old f) = true) by (apply Z.ltb_lt; lia). rewrite E.
      destruct (data_at cfg _ _ _ _ Hcfg Hv Hb) as (off & Hco & Hd).
      rewrite (bind_val _ _ _ _ _ Hd).
      set (sa := wi sv i (IFilter f)).
      pose proof (vec_at_wi sv i (IFilter f) _ _ _ Hv) as Hva.
      destruct (data_at cfg _ _ _ _ Hcfg Hva Hb) as (off' & Hco' & Hda).
      assert (off' = off) by congruence. subst off'.
      rewrite (bind_val _ _ _ _ _ Hda). simpl padd. rewrite ?Z.add_0_l.
      (* the element under the cursor *)
      set (e := nth (Z.to_nat (f_pos f)) orig 0).
      pose proof (slot_read_at cfg sv b bl off (f_pos f) Hcfg (proj2 Hv) Hb Hco ltac:(lia)) as Hr.
      rewrite (Ho (f_pos f) ltac:(lia)) in Hr. fold e in Hr.
      rewrite (bind_val _ _ _ _ _ Hr).
      assert (HeIn : In e (skipn (Z.to_nat (f_pos f)) orig)) by (apply In_nth_skipn; lia).
      rewrite (bind_val _ _ _ _ _ (expose_live cfg sv e (Hlive e HeIn))).
      (* the object-level side: panicked := true, then the predicate *)
      rewrite (bind_val _ _ _ _ _ (set_panicked_wi sv i f true)).
      set (ft := with_f f (f_new f) (f_pos f) true (f_pred f)).
      pose proof (slot_read_at cfg (wi sv i (IFilter ft)) b bl off (f_pos f) Hcfg (proj2 Hv) Hb Hco ltac:(lia)) as Hra.
      rewrite (Ho (f_pos f) ltac:(lia)) in Hra. fold e in Hra.
      set (sv1 := snd (emit (EvCall "p" [e]) sv)).
      assert (Hem : emit (EvCall "p" [e]) sv = (Val tt, sv1)) by reflexivity.
      rewrite (bind_val _ _ _ _ _ Hem).
      pose proof (filter_pred_at_wi sv i ft (PElt b off (f_pos f)) e Hra (Hlive e HeIn)) as Hpa.
      cbv zeta in Hpa. fold sv1 in Hpa. change (f_pred ft) with (f_pred f) in Hpa.
      destruct (pop_script (f_pred f) A_F) as [x sc'] eqn:Eps.
      change (with_f ft (f_new ft) (f_pos ft) (f_panicked ft) sc') with (with_f f (f_new f) (f_pos f) true sc') in Hpa.
      destruct (x =? A_P) eqn:EP.
      { (* the predicate panics: `panicked` stays set, the answer is consumed *)
        unfold bind at 1. rewrite Hpa.
        eexists FPanic, _, sv1. split; reflexivity. }
      rewrite (bind_val _ _ _ _ _ Hpa).
      rewrite (bind_val _ _ _ _ _ (set_panicked_wi sv1 i _ false)). cbn [with_f f_new f_pos f_pred f_vec f_old].
      assert (Hcapw : h_cap bl < W64) by exact (bo_cap _ _ Hb).
      destruct (x =? A_T) eqn:ET.
      { (* accepted: pos += 1, the element is read and returned *)
        rewrite (bind_val _ _ _ _ _ (filter_of_wi sv1 i _)). cbn [with_f f_new f_pos f_pred f_panicked].
        rewrite (bind_val _ _ _ _ _ (uadd_small (f_pos f) ltac:(lia) ltac:(lia) _)).
        rewrite (bind_val _ _ _ _ _ (set_pos_wi sv1 i _ (f_pos f + 1))). cbn [with_f f_new f_pos f_pred f_panicked].
        assert (Hv1 : nth_error (heap (wi sv1 i (IFilter (with_f f (f_new f) (f_pos f + 1) false sc')))) b = Some bl) by exact (proj2 Hv).
        pose proof (slot_read_at cfg _ b bl off (f_pos f) Hcfg Hv1 Hb Hco ltac:(lia)) as Hr2.
        rewrite (Ho (f_pos f) ltac:(lia)) in Hr2. fold e in Hr2.
        rewrite (bind_val _ _ _ _ _ Hr2).
        eexists (FYield e), _, sv1. split; reflexivity. }
      (* rejected: moved over the hole when there is one, pos += 1, new_len += 1, go on *)
      rewrite (bind_val _ _ _ _ _ (filter_of_wi sv1 i _)). cbn [with_f f_new f_pos f_pred f_panicked].
      set (fm := with_f f (f_new f) (f_pos f) false sc').
      set (bl2 := if f_new f <? f_pos f
                  then with_slots bl (fun k => if (f_new f <=? k) && (k <? f_new f + 1) then slots bl (k - f_new f + f_pos f) else slots bl k)
                  else bl).
      set (sv2 := if f_new f <? f_pos f then upd_block sv1 b bl2 else sv1).
      assert (Hh1 : nth_error (heap sv1) b = Some bl) by exact (proj2 Hv).
      assert (Hcopy : (if f_new f <? f_pos f then slot_copy cfg (PElt b off (f_pos f)) (PElt b off (f_new f)) 1 else ret tt) sv1 = (Val tt, sv2)).
      { subst sv2 bl2. destruct (Z.ltb_spec (f_new f) (f_pos f)); [|reflexivity].
        apply (slot_copy_at cfg sv1 b bl off (f_pos f) (f_new f) 1 Hcfg Hh1 Hb Hco); lia. }
      assert (Hcopya : (if f_new f <? f_pos f then slot_copy_across cfg (PElt b off (f_pos f)) (PElt b off (f_new f)) 1 else ret tt)
                         (wi sv1 i (IFilter fm)) = (Val tt, wi sv2 i (IFilter fm))).
      { subst sv2 bl2. destruct (Z.ltb_spec (f_new f) (f_pos f)); [|reflexivity].
        rewrite (slot_copy_across_at cfg Hcfg (wi sv1 i (IFilter fm)) b bl off (f_pos f) b bl off (f_new f) 1 Hh1 Hb Hco Hh1 Hb Hco); try lia.
        reflexivity. }
      rewrite (bind_val _ _ _ _ _ Hcopy), (bind_val _ _ _ _ _ Hcopya).
      rewrite (bind_val _ _ _ _ _ (filter_of_wi sv2 i fm)). unfold fm at 1. cbn [with_f f_pos].
      rewrite (bind_val _ _ _ _ _ (uadd_small (f_pos f) ltac:(lia) ltac:(lia) _)).
      rewrite (bind_val _ _ _ _ _ (set_pos_wi sv2 i fm (f_pos f + 1))). unfold fm. cbn [with_f f_new f_pos f_pred f_panicked].
      rewrite (bind_val _ _ _ _ _ (filter_of_wi sv2 i _)). cbn [with_f f_new].
      rewrite (bind_val _ _ _ _ _ (uadd_small (f_new f) ltac:(lia) ltac:(lia) _)).
      rewrite (bind_val _ _ _ _ _ (set_new_wi sv2 i _ (f_new f + 1))). cbn [with_f f_new f_pos f_pred f_panicked f_vec f_old].
      set (f2 := with_f f (f_new f + 1) (f_pos f + 1) false sc').
      (* the invariant for the next round: as established inside filter_next_spec; here through it *)
      assert (Hnext : exists kept2, finv cfg sv2 f2 b orig kept2).
      { (* one step of the value-level function with the answer `false`, then read the invariant off *)
        exists (kept ++ [e]).
        assert (Hff1 : fframe sv sv1 b) by (constructor; simpl; auto).
        assert (Hvs1 : vec_at sv1 (f_vec f) b bl) by exact Hv.
        assert (Hb2' : block_ok cfg bl2) by (subst bl2; destruct (f_new f <? f_pos f); [apply block_ok_with_slots|]; exact Hb).
        assert (Hvs2 : vec_at sv2 (f_vec f) b bl2).
        { subst sv2 bl2. destruct (f_new f <? f_pos f); [apply vec_at_upd with (bl := bl)|]; exact Hvs1. }
        assert (Hled2 : ledger sv2 = ledger sv) by (subst sv2; destruct (f_new f <? f_pos f); reflexivity).
        assert (Hslots2 : forall k, slots bl2 k = if (k =? f_new f) then Init e else slots bl k).
        { intros k. subst bl2. destruct (Z.ltb_spec (f_new f) (f_pos f)).
          - simpl. destruct (Z.eqb_spec k (f_new f)) as [->|Nk].
            + rewrite Z.leb_refl. assert (E1 : (f_new f <? f_new f + 1) = true) by (apply Z.ltb_lt; lia). rewrite E1. cbn [andb].
              replace (f_new f - f_new f + f_pos f) with (f_pos f) by lia. rewrite (Ho (f_pos f) ltac:(lia)). reflexivity.
            + destruct (Z.leb_spec (f_new f) k); destruct (Z.ltb_spec k (f_new f + 1)); cbn [andb]; try reflexivity. lia.
          - destruct (Z.eqb_spec k (f_new f)) as [->|Nk]; [|reflexivity].
            assert (Enp : f_new f = f_pos f) by lia. rewrite Enp. rewrite (Ho (f_pos f) ltac:(lia)). reflexivity. }
        constructor; simpl; try lia.
        - exists bl2. split; [exact Hvs2|]. split; [exact Hb2'|]. split.
          { subst bl2. destruct (f_new f <? f_pos f); simpl; exact H0. }
          split; [subst bl2; destruct (f_new f <? f_pos f); simpl; exact Hcap|]. split.
          + intros j Hj. rewrite Hslots2. destruct (Z.eqb_spec j (f_new f)) as [->|Nj].
            * rewrite app_nth2 by lia. replace (Z.to_nat (f_new f) - List.length kept)%nat with O by lia. reflexivity.
            * rewrite app_nth1 by lia. apply Hk. lia.
          + intros j Hj. rewrite Hslots2. destruct (Z.eqb_spec j (f_new f)); [lia|]. apply Ho. lia.
        - rewrite app_length. simpl. lia.
        - intros y Hy. rewrite Hled2. apply Hlive.
          replace (Z.to_nat (f_pos f + 1)) with (S (Z.to_nat (f_pos f))) in Hy by lia.
          apply In_skipn_S. exact Hy. }
      destruct Hnext as (kept2 & Hinv2).
      destruct (IH f2 sv2 i b orig kept2 Hinv2 ltac:(simpl; lia)) as (r & f' & sv' & Hrun & Hat).
      exists r, f', sv'. split; [exact Hrun|exact Hat].
  Qed.
  (* in particular the object-level loop never runs out of its fuel on a well-formed iterator: the
     premise of EquivFilter.filter_next_equiv *)
  Corollary filter_next_at_fuel fuel f sv i b orig kept :
    finv cfg sv f b orig kept -> (Z.to_nat (f_old f - f_pos f) < fuel)%nat ->
    fst (filter_next_at cfg fuel i (wi sv i (IFilter f))) <> OutOfFuel.
  Proof.
    intros Hinv Hf. destruct (filter_next_at_eq fuel f sv i b orig kept Hinv Hf) as (r & f' & sv' & _ & ->).
    destruct r; simpl; discriminate.
  Qed.
End FilterAt.
