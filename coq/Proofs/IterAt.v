(* Proofs/IterAt.v -- the stepping methods as they run on an iterator OBJECT of the world
   (Machine.drain_next_at / drain_next_back_at / into_next_at / into_next_back_at / into_len_at: the
   functions the translated bodies are tied to in EquivIter.v and that Run.v executes) are, on a
   well-formed iterator, the value-passing functions of the protocol theorems (drain_next,
   drain_next_back, into_next, into_next_back) followed by storing the new iterator value. *)
From Coq Require Import ZArith List Bool Lia.
From MV Require Import Ast Eval Scalar Machine.
From MV.Proofs Require Import Arith Logic Prim View OpsLocal Guards Drops Retain DrainIt Deref IntoIt.
Import ListNotations.
Open Scope Z_scope.

Section IterAt.
  Variable cfg : tcfg.
  Hypothesis Hcfg : cfg_ok cfg.

  (* the state with iterator object i replaced *)
  Definition with_iter (s : state) (i : nat) (it : iter) : state := snd (iter_set i (Some it) s).

  Lemma drain_of_at s i d : iter_get i s = (Val (IDrain d), s) -> drain_of i s = (Val d, s).
  Proof. intros H. unfold drain_of. rewrite (bind_val _ _ _ _ _ H). reflexivity. Qed.
  Lemma into_of_at s i t : iter_get i s = (Val (IInto t), s) -> into_of i s = (Val t, s).
  Proof. intros H. unfold into_of. rewrite (bind_val _ _ _ _ _ H). reflexivity. Qed.

  Lemma iter_set_eq s i it : iter_set i (Some it) s = (Val tt, with_iter s i it).
  Proof. reflexivity. Qed.

  Lemma set_drain_pos_at s i d p : iter_get i s = (Val (IDrain d), s) ->
    set_drain_pos i p s = (Val tt, with_iter s i (IDrain (with_pos d p))).
  Proof. intros H. unfold set_drain_pos. rewrite (bind_val _ _ _ _ _ (drain_of_at _ _ _ H)). reflexivity. Qed.
  Lemma set_drain_end_at s i d p : iter_get i s = (Val (IDrain d), s) ->
    set_drain_end i p s = (Val tt, with_iter s i (IDrain (with_end d p))).
  Proof. intros H. unfold set_drain_end. rewrite (bind_val _ _ _ _ _ (drain_of_at _ _ _ H)). reflexivity. Qed.
  Lemma set_into_pos_at s i t p : iter_get i s = (Val (IInto t), s) ->
    set_into_pos i p s = (Val tt, with_iter s i (IInto {| i_vec := i_vec t; i_pos := p |})).
  Proof. intros H. unfold set_into_pos. rewrite (bind_val _ _ _ _ _ (into_of_at _ _ _ H)). reflexivity. Qed.

  Theorem drain_next_at_eq s i d b bl off a j r :
    iter_get i s = (Val (IDrain d), s) -> drain_inv cfg s d b bl off a j r ->
    exists o d', drain_next cfg d s = (Val (o, d'), s) /\
      drain_next_at cfg i s = (Val o, match o with Some _ => with_iter s i (IDrain d') | None => s end).
  Proof.
    intros Hi Hinv. rewrite (drain_next_spec cfg Hcfg _ _ _ _ _ _ _ _ Hinv).
    unfold drain_next_at. rewrite (bind_val _ _ _ _ _ (drain_of_at _ _ _ Hi)).
    destruct Hinv as [Hv Hb Hco Hp He Hr Ho Hin]. rewrite Hp, He.
    rewrite (bind_val _ _ _ _ _ (ptr_lt_same b off a j s)).
    destruct (Z.ltb_spec a j) as [L|G]; cbn [negb].
    - assert (R : 0 <= a < h_cap bl) by (pose proof (bo_len _ _ Hb); lia).
      pose proof (slot_read_at cfg s b bl off a Hcfg (proj2 Hv) Hb Hco R) as Hrd.
      destruct (Hin a ltac:(lia)) as [e Hie]. rewrite Hie in Hrd.
      rewrite (bind_val _ _ _ _ _ Hrd).
      rewrite (bind_val _ _ _ _ _ (set_drain_pos_at _ _ _ _ Hi)). rewrite Hie.
      eexists. eexists. split; [reflexivity|]. reflexivity.
    - eexists. eexists. split; [reflexivity|]. reflexivity.
  Qed.

  Theorem drain_next_back_at_eq s i d b bl off a j r :
    iter_get i s = (Val (IDrain d), s) -> drain_inv cfg s d b bl off a j r ->
    exists o d', drain_next_back cfg d s = (Val (o, d'), s) /\
      drain_next_back_at cfg i s = (Val o, match o with Some _ => with_iter s i (IDrain d') | None => s end).
  Proof.
    intros Hi Hinv. rewrite (drain_next_back_spec cfg Hcfg _ _ _ _ _ _ _ _ Hinv).
    unfold drain_next_back_at. rewrite (bind_val _ _ _ _ _ (drain_of_at _ _ _ Hi)).
    destruct Hinv as [Hv Hb Hco Hp He Hr Ho Hin]. rewrite Hp, He.
    rewrite (bind_val _ _ _ _ _ (ptr_lt_same b off a j s)).
    destruct (Z.ltb_spec a j) as [L|G]; cbn [negb].
    - simpl padd. replace (j + -1) with (j - 1) by lia.
      assert (R : 0 <= j - 1 < h_cap bl) by (pose proof (bo_len _ _ Hb); lia).
      pose proof (slot_read_at cfg s b bl off (j - 1) Hcfg (proj2 Hv) Hb Hco R) as Hrd.
      destruct (Hin (j - 1) ltac:(lia)) as [e Hie]. rewrite Hie in Hrd.
      rewrite (bind_val _ _ _ _ _ Hrd).
      rewrite (bind_val _ _ _ _ _ (set_drain_end_at _ _ _ _ Hi)). rewrite Hie.
      eexists. eexists. split; [reflexivity|]. reflexivity.
    - eexists. eexists. split; [reflexivity|]. reflexivity.
  Qed.

  (* replacing an iterator object does not touch vectors or blocks *)
  Lemma vec_at_with_iter s i it v b bl : vec_at s v b bl -> vec_at (with_iter s i it) v b bl.
  Proof. intros [H1 H2]. split; assumption. Qed.

  Theorem into_next_at_eq s i it b bl off p :
    iter_get i s = (Val (IInto it), s) -> into_inv cfg s it b bl off p ->
    exists o it' s', into_next cfg it s = (Val (o, it'), s') /\
      into_next_at cfg i s = (Val o, match o with Some _ => with_iter s' i (IInto it') | None => s' end).
  Proof.
    intros Hi Hinv. pose proof (into_next_spec cfg Hcfg _ _ _ _ _ _ Hinv) as Hn.
    destruct Hinv as [Hv Hb Hco Hp Hbd Hin].
    unfold into_next_at. rewrite (bind_val _ _ _ _ _ (into_of_at _ _ _ Hi)).
    rewrite (bind_val _ _ _ _ _ (is_default_at _ _ _ _ Hv)).
    rewrite (bind_val _ _ _ _ _ (len_at cfg _ _ _ _ Hcfg Hv Hb)).
    rewrite Hp. simpl padd.
    rewrite (bind_val _ _ _ _ _ (ptr_lt_same b off p (p + h_len bl) s)).
    destruct (Z.leb_spec (h_len bl) 0) as [L|G].
    - assert (E : (p <? p + h_len bl) = false) by (apply Z.ltb_ge; lia). rewrite E. cbn [negb].
      eexists. eexists. eexists. split; [exact Hn|]. reflexivity.
    - assert (E : (p <? p + h_len bl) = true) by (apply Z.ltb_lt; lia). rewrite E. cbn [negb].
      eexists. eexists. eexists. split; [exact Hn|].
      rewrite (bind_val _ _ _ _ _ (set_into_pos_at _ _ _ (PElt b off (p + 1)) Hi)).
      set (it' := {| i_vec := i_vec it; i_pos := PElt b off (p + 1) |}).
      set (s1 := with_iter s i (IInto it')).
      pose proof (vec_at_with_iter s i (IInto it') _ _ _ Hv) as Hv1. fold s1 in Hv1.
      rewrite (bind_val _ _ _ _ _ (add_len_at cfg s1 _ b bl (-1) Hcfg Hv1 Hb)).
      replace (h_len bl + -1) with (h_len bl - 1) by lia.
      set (bl' := with_hdr bl (h_len bl - 1) (h_cap bl) (h_align bl)).
      assert (Hn' : nth_error (heap (upd_block s1 b bl')) b = Some bl') by (eapply upd_block_same; exact (proj2 Hv1)).
      assert (Hb' : block_ok cfg bl') by (apply block_ok_with_len; [exact Hb|pose proof (bo_len _ _ Hb); lia]).
      assert (R : 0 <= p < h_cap bl') by (simpl; lia).
      pose proof (slot_read_at cfg _ b bl' off p Hcfg Hn' Hb' Hco R) as Hr.
      destruct (Hin p ltac:(lia)) as [e He]. simpl slots in Hr. rewrite He in Hr.
      rewrite (bind_val _ _ _ _ _ Hr). rewrite He. reflexivity.
  Qed.

  Theorem into_next_back_at_eq s i it b bl off p :
    iter_get i s = (Val (IInto it), s) -> into_inv cfg s it b bl off p ->
    exists o it' s', into_next_back cfg it s = (Val (o, it'), s') /\ it' = it /\
      into_next_back_at cfg i s = (Val o, s').
  Proof.
    intros Hi Hinv. pose proof (into_next_back_spec cfg Hcfg _ _ _ _ _ _ Hinv) as Hn.
    destruct Hinv as [Hv Hb Hco Hp Hbd Hin].
    unfold into_next_back_at. rewrite (bind_val _ _ _ _ _ (into_of_at _ _ _ Hi)).
    rewrite (bind_val _ _ _ _ _ (is_default_at _ _ _ _ Hv)).
    rewrite (bind_val _ _ _ _ _ (len_at cfg _ _ _ _ Hcfg Hv Hb)).
    rewrite Hp. simpl padd.
    rewrite (bind_val _ _ _ _ _ (ptr_lt_same b off p (p + h_len bl) s)).
    destruct (Z.leb_spec (h_len bl) 0) as [L|G].
    - assert (E : (p <? p + h_len bl) = false) by (apply Z.ltb_ge; lia). rewrite E. cbn [negb].
      eexists. eexists. eexists. split; [exact Hn|]. split; reflexivity.
    - assert (E : (p <? p + h_len bl) = true) by (apply Z.ltb_lt; lia). rewrite E. cbn [negb].
      eexists. eexists. eexists. split; [exact Hn|]. split; [reflexivity|].
      rewrite (bind_val _ _ _ _ _ (add_len_at cfg s _ b bl (-1) Hcfg Hv Hb)).
      replace (h_len bl + -1) with (h_len bl - 1) by lia.
      set (bl' := with_hdr bl (h_len bl - 1) (h_cap bl) (h_align bl)).
      assert (Hv' : vec_at (upd_block s b bl') (i_vec it) b bl') by (apply vec_at_upd with (bl := bl); exact Hv).
      assert (Hb' : block_ok cfg bl') by (apply block_ok_with_len; [exact Hb|pose proof (bo_len _ _ Hb); lia]).
      rewrite (bind_val _ _ _ _ _ (len_at cfg _ _ _ _ Hcfg Hv' Hb')).
      change (h_len bl') with (h_len bl - 1).
      assert (R : 0 <= p + (h_len bl - 1) < h_cap bl') by (simpl; lia).
      pose proof (slot_read_at cfg _ b bl' off _ Hcfg (proj2 Hv') Hb' Hco R) as Hr.
      destruct (Hin (p + (h_len bl - 1)) ltac:(lia)) as [e He]. simpl slots in Hr. rewrite He in Hr.
      rewrite (bind_val _ _ _ _ _ Hr). rewrite He. reflexivity.
  Qed.

  Theorem into_len_at_eq s i it b bl off p :
    iter_get i s = (Val (IInto it), s) -> into_inv cfg s it b bl off p ->
    into_len_at i s = (Val (h_len bl), s).
  Proof.
    intros Hi [Hv Hb _ _ _ _]. unfold into_len_at. rewrite (bind_val _ _ _ _ _ (into_of_at _ _ _ Hi)).
    exact (len_at cfg _ _ _ _ Hcfg Hv Hb).
  Qed.
End IterAt.
