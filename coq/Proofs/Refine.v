(* Proofs/Refine.v -- REFINEMENT of the list specification (what std::Vec does) by the machine, for
   every history: the vector's contents as a list of element identities (`vabs`) follow the list
   operations snoc / unsnoc / delete-at / firstn exactly, for every sequence of operations with any
   arguments, every panic being caught between the operations; the results handed back are the list
   results; an operation panics exactly when the list operation is undefined (index out of range) or
   -- for the growing operations only -- when the capacity computation refuses, and then the
   contents are unchanged.  On top of Core.v's ownership invariant. *)
From Coq Require Import ZArith List Bool Lia Permutation.
From MV Require Import Ast Eval Scalar Machine.
From MV.Proofs Require Import Arith Logic Prim View OpsLocal Guards Grow CapHistory Drops Retain Sentinel Core.
Import ListNotations.
Open Scope Z_scope.

Section Refine.
  Variable cfg : tcfg.
  Variable ncap : Z -> option Z.
  Hypothesis Hcfg : cfg_ok cfg.
  Hypothesis Hpol : policy_ok ncap.
  Hypothesis Htracked : needs_drop cfg = true.

  Local Notation owned := (owned).
  Local Notation vinv := (vinv cfg).

  (* the abstraction: the list of element identities the vector holds, in order *)
  Definition vabs (s : state) (v : nat) (l : list elem) : Prop :=
    (vec_sentinel s v /\ l = []) \/
    exists b bl, vec_at s v b bl /\ block_ok cfg bl /\ owned s bl /\ velems bl = l.

  Lemma vabs_vinv s v l : vabs s v l -> vinv s v.
  Proof. intros [[H _]|(b & bl & H1 & H2 & H3 & _)]; [left; exact H|right; eauto]. Qed.

  (* what `vabs` says about ownership: the listed elements are pairwise distinct and live *)
  Lemma vabs_owned s v l : vabs s v l -> NoDup l /\ (forall e, In e l -> ledger s e = Live) /\ (forall e, In e l -> e < next_elem s).
  Proof.
    intros [[_ ->]|(b & bl & _ & _ & Ho & <-)].
    - split; [constructor|]. split; intros e [].
    - split; [exact (ow_nodup _ _ Ho)|]. split; [exact (ow_live _ _ Ho)|exact (ow_old _ _ Ho)].
  Qed.

  Lemma vinv_vabs s v : vinv s v -> exists l, vabs s v l.
  Proof. intros [H|(b & bl & H1 & H2 & H3)]; [exists []; left; auto|exists (velems bl); right; eauto 8]. Qed.

  Lemma velems_length bl : 0 <= h_len bl -> Z.of_nat (List.length (velems bl)) = h_len bl.
  Proof. intros H. unfold velems, view. rewrite map_length, seq_length. lia. Qed.

  (* s' differs from s in the ledger only at the elements of es, and creates no element *)
  Definition only_changes (s s' : state) (es : list elem) : Prop :=
    next_elem s' = next_elem s /\ forall e, ~ In e es -> ledger s' e = ledger s e.
  (* payloads and the panic scripts are the same *)
  Definition quiet (s s' : state) : Prop :=
    payload s' = payload s /\ clone_panics s' = clone_panics s /\ drop_panics s' = drop_panics s.
  Lemma quiet_refl s : quiet s s. Proof. repeat split. Qed.
  Lemma quiet_trans s1 s2 s3 : quiet s1 s2 -> quiet s2 s3 -> quiet s1 s3.
  Proof. intros (A & B & C) (D & E & F). repeat split; congruence. Qed.
  Lemma quiet_frame s s' b : frame_block s s' b -> quiet s s'.
  Proof. intros H. split; [exact (fb_payload _ _ _ H)|split; [exact (fb_cp _ _ _ H)|exact (fb_dp _ _ _ H)]]. Qed.
  Lemma quiet_same s s' : same_elems s s' -> quiet s s'.
  Proof. intros H. split; [exact (se_payload _ _ H)|split; [exact (se_cp _ _ H)|exact (se_dp _ _ H)]]. Qed.

  Lemma only_changes_refl s es : only_changes s s es.
  Proof. split; reflexivity. Qed.
  Lemma oc_frame s s' b : frame_block s s' b -> only_changes s s' [].
  Proof. intros H. split; [exact (fb_next _ _ _ H)|]. intros e _. rewrite (fb_ledger _ _ _ H). reflexivity. Qed.
  Lemma oc_same s s' : same_elems s s' -> only_changes s s' [].
  Proof. intros H. split; [exact (se_next _ _ H)|]. intros e _. rewrite (se_ledger _ _ H). reflexivity. Qed.
  Lemma oc_trans s s' s'' a b : only_changes s s' a -> only_changes s' s'' b -> only_changes s s'' (a ++ b).
  Proof.
    intros [H1 H2] [H3 H4]. split; [congruence|]. intros e He.
    rewrite H4, H2; [reflexivity| |]; intros Hin; apply He; apply in_or_app; auto.
  Qed.

  (* ------------------------------------------------------------------ pop = unsnoc *)
  Lemma pop_abs s v l : vabs s v l ->
    post (pop cfg v s)
      (fun r s' => (l = [] /\ r = None /\ vabs s' v [] /\ s' = s) \/
                   (exists l0 x, l = l0 ++ [x] /\ r = Some x /\ vabs s' v l0 /\ ledger s' x = Out /\ only_changes s s' [x]))
      (fun _ => False).
  Proof.
    intros [[Hs ->]|(b & bl & Hv & Hb & Ho & Hl)].
    - rewrite (sn_pop cfg s v Hs). simpl. left. repeat split. left. auto.
    - pose proof (bo_len _ _ Hb) as Hlen.
      destruct (Z.eq_dec (h_len bl) 0) as [E0|N0].
      + erewrite pop_empty by eassumption. simpl. left.
        assert (l = []).
        { subst l. apply length_zero_iff_nil. pose proof (velems_length bl ltac:(lia)). lia. }
        subst l. split; [assumption|]. split; [reflexivity|]. split; [|reflexivity]. right. exists b, bl. rewrite H. auto.
      + assert (Hpos : 0 < h_len bl) by lia.
        destruct (pop_spec cfg ncap Hcfg s v b bl Hv Hb (ow_init _ _ Ho) Hpos)
          as (e & bl' & s1 & He & Ebl & Es1 & Hpop & Hvel & Hb' & Hi'). subst bl' s1.
        rewrite Hpop.
        assert (HeIn : In e (velems bl)) by (rewrite Hvel; apply in_or_app; right; left; reflexivity).
        assert (Hlive : ledger (upd_block s b (with_hdr bl (h_len bl - 1) (h_cap bl) (h_align bl))) e = Live)
          by (simpl; apply (ow_live _ _ Ho); assumption).
        rewrite (bind_val _ _ _ _ _ (hand_out_live cfg Htracked _ e Hlive)). simpl.
        right. eexists _, e. split; [rewrite <- Hl; exact Hvel|]. split; [reflexivity|]. split.
        2:{ split; [simpl; unfold upd; rewrite Z.eqb_refl; reflexivity|].
            split; [reflexivity|]. intros e0 He0. simpl. unfold upd. destruct (Z.eqb_spec e0 e); [|reflexivity].
            exfalso. apply He0. left. symmetry. assumption. }
        right. eexists b, _. split.
        { split; [exact (proj1 Hv)|]. simpl. eapply upd_block_same. exact (proj2 Hv). }
        split; [exact Hb'|]. split; [|reflexivity].
        pose proof (ow_nodup _ _ Ho) as Hnd. rewrite Hvel in Hnd.
        eapply owned_transfer with (s := s) (bl := bl); try exact Ho; simpl.
        * lia.
        * exact Hi'.
        * eapply NoDup_app_l. exact Hnd.
        * intros x Hx. rewrite Hvel. apply in_or_app. left. exact Hx.
        * intros x Hx. unfold upd. destruct (Z.eqb_spec x e); [|reflexivity].
          subst. exfalso. eapply NoDup_app_notin; eassumption.
        * lia.
  Qed.

  (* ------------------------------------------------------------------ remove = delete at index *)
  Definition delete_at (i : nat) (l : list elem) : list elem := firstn i l ++ skipn (S i) l.

  Lemma remove_abs s v l idx : vabs s v l -> 0 <= idx ->
    post (remove cfg v idx s)
      (fun r s' => nth_error l (Z.to_nat idx) = Some r /\ vabs s' v (delete_at (Z.to_nat idx) l) /\ ledger s' r = Out /\ only_changes s s' [r])
      (fun s' => Z.of_nat (List.length l) <= idx /\ s' = s).
  Proof.
    intros [[Hs ->]|(b & bl & Hv & Hb & Ho & Hl)] Hidx.
    - rewrite (sn_remove cfg s v Hs idx Hidx). simpl. split; [lia|reflexivity].
    - pose proof (bo_len _ _ Hb) as Hlen.
      pose proof (velems_length bl ltac:(lia)) as Hvl.
      destruct (Z.le_gt_cases (h_len bl) idx) as [Hoob|Hin].
      + rewrite (remove_oob cfg s v (h_len bl) (len_at cfg s v b bl Hcfg Hv Hb) idx Hoob). simpl.
        subst l. split; [lia|reflexivity].
      + destruct (remove_spec cfg Hcfg s v b bl idx Hv Hb (ow_init _ _ Ho) ltac:(lia))
          as (x & s1 & Hx & Hv1 & Hfr & Hrm & Hb' & Hi' & Hvel & Hnth).
        rewrite Hrm.
        pose proof (nth_error_In _ _ Hnth) as HxIn.
        assert (Hlive : ledger s1 x = Live) by (rewrite (fb_ledger _ _ _ Hfr); apply (ow_live _ _ Ho); assumption).
        rewrite (bind_val _ _ _ _ _ (hand_out_live cfg Htracked _ x Hlive)). simpl.
        split; [rewrite <- Hl; exact Hnth|]. split.
        2:{ split; [simpl; unfold upd; rewrite Z.eqb_refl; reflexivity|].
            split; [simpl; exact (fb_next _ _ _ Hfr)|]. intros e0 He0. simpl. unfold upd.
            destruct (Z.eqb_spec e0 x); [exfalso; apply He0; left; symmetry; assumption|].
            rewrite (fb_ledger _ _ _ Hfr). reflexivity. }
        right. eexists b, _. split.
        { split; [simpl; exact (proj1 Hv1)|simpl; exact (proj2 Hv1)]. }
        split; [exact Hb'|]. split; [|rewrite Hvel, <- Hl; reflexivity].
        pose proof (ow_nodup _ _ Ho) as Hnd.
        pose proof (nth_split_local _ _ _ Hnth) as Hsplit.
        rewrite Hsplit in Hnd. apply NoDup_remove in Hnd. destruct Hnd as [Hnd' Hnotin].
        eapply owned_transfer with (s := s) (bl := bl); try exact Ho.
        * simpl. lia.
        * exact Hi'.
        * rewrite Hvel. exact Hnd'.
        * intros e He. rewrite Hvel in He. rewrite Hsplit. apply in_app_or in He. apply in_or_app.
          destruct He; [left; assumption|right; right; assumption].
        * intros e He. simpl. unfold upd. destruct (Z.eqb_spec e x).
          { subst. exfalso. apply Hnotin. rewrite <- Hvel. exact He. }
          { rewrite (fb_ledger _ _ _ Hfr). reflexivity. }
        * simpl. rewrite (fb_next _ _ _ Hfr). lia.
  Qed.

  (* ------------------------------------------------------------------ truncate = firstn (also when a destructor panics) *)
  Lemma truncate_abs s v l n : vabs s v l -> 0 <= n ->
    let Q := fun s' => vabs s' v (firstn (Z.to_nat n) l) /\
                       (forall e, In e (skipn (Z.to_nat n) l) -> ledger s' e = Dropped) /\
                       only_changes s s' (skipn (Z.to_nat n) l) in
    post (truncate cfg v n s) (fun _ s' => Q s') Q.
  Proof.
    intros [[Hs ->]|(b & bl & Hv & Hb & Ho & Hl)] Hn Q.
    - rewrite (sn_truncate cfg s v Hs n Hn). simpl. unfold Q. rewrite firstn_nil, skipn_nil.
      split; [left; auto|]. split; [intros e []|apply only_changes_refl].
    - pose proof (bo_len _ _ Hb) as Hlen.
      pose proof (velems_length bl ltac:(lia)) as Hvl.
      destruct (Z.le_gt_cases (h_len bl) n) as [Hge|Hlt].
      + rewrite (truncate_noop cfg s v (h_len bl) (len_at cfg s v b bl Hcfg Hv Hb) n Hge). simpl. unfold Q.
        rewrite firstn_all2 by (subst l; lia). rewrite skipn_all2 by (subst l; lia).
        split; [right; eauto 8|]. split; [intros e []|apply only_changes_refl].
      + destruct (truncate_spec cfg Hcfg Htracked s v b bl n Hv Hb (ow_init _ _ Ho) ltac:(lia) (ow_nodup _ _ Ho) (ow_live _ _ Ho))
          as (Hb' & Hvel & Hpost).
        set (bl' := with_hdr bl n (h_cap bl) (h_align bl)) in *.
        assert (Hgoal : forall s', vec_at s' v b bl' /\ destroyed (upd_block s b bl') s' (skipn (Z.to_nat n) (velems bl)) -> Q s').
        { intros s' [Hv' Hd]. unfold Q. rewrite <- Hl. split.
          2:{ split; [intros e He; exact (ds_in _ _ _ Hd e He)|].
              split; [rewrite (ds_next _ _ _ Hd); reflexivity|]. intros e He. rewrite (ds_out _ _ _ Hd e He). reflexivity. }
          right. exists b, bl'. split; [exact Hv'|]. split; [exact Hb'|]. split; [|exact Hvel].
          eapply owned_transfer with (s := s) (bl := bl); try exact Ho.
          - simpl. lia.
          - simpl. intros i Hi. apply (ow_init _ _ Ho). lia.
          - rewrite Hvel. apply NoDup_firstn. exact (ow_nodup _ _ Ho).
          - intros e He. rewrite Hvel in He. eapply In_firstn. exact He.
          - intros e He. rewrite Hvel in He.
            rewrite (ds_out _ _ _ Hd) by (apply firstn_skipn_disjoint; [exact (ow_nodup _ _ Ho)|exact He]).
            reflexivity.
          - rewrite (ds_next _ _ _ Hd). simpl. lia. }
        eapply post_weaken; [exact Hpost| |]; intros; apply Hgoal; assumption.
  Qed.

  (* ------------------------------------------------------------------ capacity operations leave the list alone *)
  Lemma capop_abs s v l o : vabs s v l -> cap_arg_ok o ->
    post (run_capop cfg ncap v o s) (fun _ s' => vabs s' v l /\ only_changes s s' [] /\ quiet s s') (fun s' => s' = s).
  Proof.
    intros Hab Ha.
    eapply post_weaken.
    - apply (run_capop_okP cfg ncap Hcfg Hpol
               (fun s' bl => owned s' bl /\ velems bl = l /\ ledger s' = ledger s /\ next_elem s' = next_elem s /\ quiet s s'))
        with (F := fun s0 => l = [] /\ ledger s0 = ledger s /\ next_elem s0 = next_elem s /\ quiet s s0) (s := s) (v := v) (o := o).
      + intros s0 s' bl c size (Ho & Hl & H1 & H2 & Hq) Hse. split; [|split; [exact Hl|]].
        * apply (owned_grown s0 s' bl c size Ho); [exact (se_ledger _ _ Hse)|exact (se_next _ _ Hse)].
        * rewrite (se_ledger _ _ Hse), (se_next _ _ Hse). split; [exact H1|]. split; [exact H2|].
          exact (quiet_trans _ _ _ Hq (quiet_same _ _ Hse)).
      + intros s0 s' (-> & H1 & H2 & Hq) Hse size a c. split; [apply owned_fresh_block|]. split; [reflexivity|].
        rewrite (se_ledger _ _ Hse), (se_next _ _ Hse). split; [exact H1|]. split; [exact H2|].
        exact (quiet_trans _ _ _ Hq (quiet_same _ _ Hse)).
      + destruct Hab as [[Hs Hl]|(b & bl & H1 & H2 & H3 & H4)]; [left; split; [exact Hs|]; split; [exact Hl|]; split; [reflexivity|]; split; [reflexivity|apply quiet_refl]|].
        right. exists b, bl. split; [exact H1|]. split; [exact H2|]. split; [exact H3|]. split; [exact H4|]. split; [reflexivity|]. split; [reflexivity|apply quiet_refl].
      + exact Ha.
    - intros u s' [[H1 (H2 & H3 & H4 & Hq)]|(b & bl & H1 & H2 & H3 & H4 & H5 & H6 & Hq)].
      + split; [left; auto|]. split; [|exact Hq]. split; [exact H4|]. intros e _. rewrite H3. reflexivity.
      + split; [right; eauto 8|]. split; [|exact Hq]. split; [exact H6|]. intros e _. rewrite H5. reflexivity.
    - intros s' H. exact H.
  Qed.

  (* ------------------------------------------------------------------ push = snoc *)
  Lemma vabs_fresh s v l p : vabs s v l -> vabs (fresh_state s p) v l.
  Proof.
    intros [[Hs Hl]|(b & bl & Hv & Hb & Ho & Hl)]; [left; auto|].
    right. exists b, bl. split; [exact Hv|]. split; [exact Hb|]. split; [apply owned_fresh; exact Ho|exact Hl].
  Qed.

  Lemma vabs_drop_other s v l e :
    vabs s v l -> ledger s e = Live -> ~ In e l ->
    let Q := fun s' => vabs s' v l /\ ledger s' e = Dropped /\ only_changes s s' [e] in
    post (drop_elem cfg e s) (fun _ s' => Q s') Q.
  Proof.
    intros Hab Hlv Hnot Q.
    destruct (drop_elem_live cfg Htracked s e Hlv) as (s' & Hd & He). rewrite He.
    assert (Hgoal : Q s').
    { unfold Q. split; [|split; [apply (ds_in _ _ _ Hd); left; reflexivity|
                                 split; [exact (ds_next _ _ _ Hd)|intros x Hx; exact (ds_out _ _ _ Hd x Hx)]]].
      destruct Hab as [[Hs Hl]|(b & bl & Hv & Hb & Ho & Hl)].
      - left. split; [|exact Hl]. unfold vec_sentinel in *. rewrite (ds_vecs _ _ _ Hd). exact Hs.
      - right. exists b, bl. split.
        + destruct Hv as [H1 H2]. split; [rewrite (ds_vecs _ _ _ Hd); exact H1|rewrite (ds_heap _ _ _ Hd); exact H2].
        + split; [exact Hb|]. split; [|exact Hl]. destruct Ho as [Hi Hn Hlv' Hod]. constructor; auto.
          * intros x Hx. rewrite (ds_out _ _ _ Hd); [apply Hlv'; exact Hx|].
            intros [<-|[]]. apply Hnot. rewrite <- Hl. exact Hx.
          * intros x Hx. rewrite (ds_next _ _ _ Hd). apply Hod. exact Hx. }
    destruct (mem e (drop_panics s)); simpl; exact Hgoal.
  Qed.

  Lemma push_abs s v l e :
    vabs s v l -> ledger s e = Live -> ~ In e l -> e < next_elem s ->
    post (push cfg ncap v e s) (fun _ s' => vabs s' v (l ++ [e]) /\ only_changes s s' [] /\ quiet s s')
                               (fun s' => vabs s' v l /\ ledger s' e = Dropped /\ only_changes s s' [e]).
  Proof.
    intros Hab Hle Hnh Hold. rewrite push_unfold.
    eapply post_on_unwind with (Qp1 := fun s' => vabs s' v l /\ ledger s' e = Live /\ only_changes s s' []).
    2:{ intros s' (H1 & H2 & H3). eapply post_weaken; [apply (vabs_drop_other s' v l e H1 H2 Hnh)| |auto].
        intros u s'' (G1 & G2 & G3). split; [exact G1|]. split; [exact G2|]. exact (oc_trans _ _ _ _ _ H3 G3). }
    destruct Hab as [[Hs ->]|(b & bl & Hv & Hb & Ho & Hl)].
    - (* never allocated *)
      destruct (sentinel_basics cfg s v Hs) as (Hl & Hc & Ha).
      rewrite (bind_val _ _ _ _ _ Hl), (bind_val _ _ _ _ _ Hc), (bind_val _ _ _ _ _ Ha).
      rewrite Z.eqb_refl.
      destruct (ncap 0) as [c1|] eqn:E1.
      2:{ simpl. split; [left; auto|]. split; [assumption|apply only_changes_refl]. }
      rewrite lift_opt_some. rewrite bind_assoc. rewrite bind_ret.
      destruct (Hpol 0 c1 ltac:(lia) E1) as (H1 & H2 & H3).
      eapply post_bind.
      { eapply post_weaken; [apply (grow_sentinel cfg ncap Hcfg s v c1 (max_align cfg) Hs ltac:(lia) (max_align_pow2 cfg Hcfg) ltac:(lia))| |].
        - intros u s' H. exact H.
        - intros s' [E _]. rewrite E. split; [left; auto|]. split; [assumption|apply only_changes_refl]. }
      intros u s' [(E & _)|(size & Hml & Hbn & Hal)]; [lia|].
      set (nbl := fresh_block size (max_align cfg) 0 c1 (max_align cfg)) in *.
      pose proof (allocated_vec_at _ _ _ _ Hal) as Hvn.
      destruct (push_tail_spec cfg Hcfg s' v _ nbl e Hvn Hbn ltac:(simpl; lia)) as (s'' & Hpt & Hv'' & Hfr & Hb'' & Hvel & Hinit).
      rewrite Hpt. simpl. split.
      2:{ split; [change (@nil elem) with (@nil elem ++ @nil elem); eapply oc_trans; [apply oc_same; exact (al_same _ _ _ _ Hal)|eapply oc_frame; exact Hfr]|].
          exact (quiet_trans _ _ _ (quiet_same _ _ (al_same _ _ _ _ Hal)) (quiet_frame _ _ _ Hfr)). }
      right. eexists _, _. split; [exact Hv''|]. split; [exact Hb''|].
      assert (Hown : owned s' nbl) by apply owned_fresh_block.
      split; [|rewrite Hvel; reflexivity].
      eapply owned_after_push with (s := s'); try exact Hown.
      + rewrite (se_ledger _ _ (al_same _ _ _ _ Hal)). exact Hle.
      + simpl. intros [].
      + rewrite (se_next _ _ (al_same _ _ _ _ Hal)). exact Hold.
      + exact (fb_ledger _ _ _ Hfr).
      + exact (fb_next _ _ _ Hfr).
      + exact Hvel.
      + apply Hinit. exact (ow_init _ _ Hown).
    - (* allocated *)
      pose proof (bo_len _ _ Hb) as Hlen. pose proof (bo_cap _ _ Hb) as Hcap.
      rewrite (bind_val _ _ _ _ _ (len_at cfg _ _ _ _ Hcfg Hv Hb)).
      rewrite (bind_val _ _ _ _ _ (capacity_at cfg _ _ _ _ Hcfg Hv Hb)).
      rewrite (bind_val _ _ _ _ _ (alignment_at cfg _ _ _ _ Hcfg Hv Hb)).
      assert (Hnot : ~ In e (velems bl)) by (rewrite Hl; exact Hnh).
      destruct (Z.eqb_spec (h_len bl) (h_cap bl)) as [Efull|Nfull].
      + destruct (ncap (h_cap bl)) as [c1|] eqn:E1.
        2:{ simpl. split; [right; eauto 8|]. split; [assumption|apply only_changes_refl]. }
        rewrite lift_opt_some. rewrite bind_assoc. rewrite bind_ret.
        destruct (Hpol (h_cap bl) c1 ltac:(lia) E1) as (H1 & H2 & H3).
        eapply post_bind.
        { eapply post_weaken; [apply (grow_realloc cfg ncap Hcfg s v b bl c1 Hv Hb ltac:(lia) ltac:(lia))| |].
          - intros u s' H. exact H.
          - intros s' [E _]. rewrite E. split; [right; eauto 8|]. split; [assumption|apply only_changes_refl]. }
        intros u s' [(E & _)|(_ & size & Hml & Hbn & Hmv)]; [lia|].
        set (nbl := grown bl c1 size) in *.
        pose proof (moved_vec_at _ _ _ _ _ Hmv) as Hvn.
        destruct (push_tail_spec cfg Hcfg s' v _ nbl e Hvn Hbn ltac:(simpl; lia)) as (s'' & Hpt & Hv'' & Hfr & Hb'' & Hvel & Hinit).
        rewrite Hpt. simpl. split.
        2:{ split; [change (@nil elem) with (@nil elem ++ @nil elem); eapply oc_trans; [apply oc_same; exact (mv_same _ _ _ _ _ Hmv)|eapply oc_frame; exact Hfr]|].
            exact (quiet_trans _ _ _ (quiet_same _ _ (mv_same _ _ _ _ _ Hmv)) (quiet_frame _ _ _ Hfr)). }
        right. eexists _, _. split; [exact Hv''|]. split; [exact Hb''|].
        assert (Hown : owned s' nbl).
        { apply (owned_grown s s' bl c1 size Ho); [exact (se_ledger _ _ (mv_same _ _ _ _ _ Hmv))|exact (se_next _ _ (mv_same _ _ _ _ _ Hmv))]. }
        split; [|rewrite Hvel; simpl; rewrite <- Hl; reflexivity].
        eapply owned_after_push with (s := s'); try exact Hown.
        * rewrite (se_ledger _ _ (mv_same _ _ _ _ _ Hmv)). exact Hle.
        * exact Hnot.
        * rewrite (se_next _ _ (mv_same _ _ _ _ _ Hmv)). exact Hold.
        * exact (fb_ledger _ _ _ Hfr).
        * exact (fb_next _ _ _ Hfr).
        * exact Hvel.
        * apply Hinit. exact (ow_init _ _ Hown).
      + rewrite bind_ret.
        destruct (push_tail_spec cfg Hcfg s v b bl e Hv Hb ltac:(lia)) as (s'' & Hpt & Hv'' & Hfr & Hb'' & Hvel & Hinit).
        rewrite Hpt. simpl. split; [|split; [eapply oc_frame; exact Hfr|exact (quiet_frame _ _ _ Hfr)]].
        right. eexists _, _. split; [exact Hv''|]. split; [exact Hb''|].
        split; [|rewrite Hvel, <- Hl; reflexivity].
        eapply owned_after_push with (s := s); try exact Ho; auto.
        * exact (fb_ledger _ _ _ Hfr).
        * exact (fb_next _ _ _ Hfr).
        * apply Hinit. exact (ow_init _ _ Ho).
  Qed.


  (* ------------------------------------------------------------------ insert = list insertion (with or without growth) *)
  Definition insert_tail (v : nat) (l idx : Z) (e : elem) : M unit :=
    p0 <- as_ptr cfg v ;;
    let p := padd cfg p0 idx in
    slot_copy cfg p (padd cfg p 1) (l - idx) ;;;
    slot_write cfg p e ;;;
    set_len v (l + 1).

  Lemma insert_unfold v idx e :
    insert cfg ncap v idx e =
    on_unwind
      (l <- len v ;;
       (if l <? idx then panic else ret tt) ;;;
       c <- capacity v ;;
       (if l =? c then reserve cfg ncap v 1 else ret tt) ;;;
       insert_tail v l idx e)
      (drop_elem cfg e).
  Proof. reflexivity. Qed.

  Lemma on_unwind_val_inv {A} (m : M A) c s a s' : on_unwind m c s = (Val a, s') -> m s = (Val a, s').
  Proof.
    unfold on_unwind. destruct (m s) as [r s1]. destruct r; try (intros H; exact H).
    destruct (c s1) as [r2 s2]. destruct r2; discriminate.
  Qed.

  Lemma insert_tail_spec s v b bl idx e :
    vec_at s v b bl -> block_ok cfg bl -> 0 <= idx <= h_len bl -> h_len bl < h_cap bl ->
    let f1 := if h_len bl - idx <=? 0 then slots bl else shift_up (slots bl) idx (h_len bl - idx) in
    let bl' := with_hdr (with_slots bl (upd f1 idx (Init e))) (h_len bl + 1) (h_cap bl) (h_align bl) in
    exists s', insert_tail v (h_len bl) idx e s = (Val tt, s') /\ vec_at s' v b bl' /\ frame_block s s' b /\
               block_ok cfg bl' /\
               velems bl' = firstn (Z.to_nat idx) (velems bl) ++ e :: skipn (Z.to_nat idx) (velems bl) /\
               (init_upto (slots bl) (h_len bl) -> init_upto (slots bl') (h_len bl')).
  Proof.
    intros Hv Hb Hidx Hlt f1 bl'.
    destruct (insert_fits cfg ncap Hcfg s v b bl idx e Hv Hb Hidx Hlt) as (s' & Hins & Hrest).
    exists s'. split; [|exact Hrest].
    rewrite insert_unfold in Hins. apply on_unwind_val_inv in Hins.
    rewrite (bind_val _ _ _ _ _ (len_at cfg _ _ _ _ Hcfg Hv Hb)) in Hins.
    assert (E1 : (h_len bl <? idx) = false) by (apply Z.ltb_ge; lia). rewrite E1 in Hins.
    rewrite bind_ret in Hins.
    rewrite (bind_val _ _ _ _ _ (capacity_at cfg _ _ _ _ Hcfg Hv Hb)) in Hins.
    assert (E2 : (h_len bl =? h_cap bl) = false) by (apply Z.eqb_neq; lia). rewrite E2 in Hins.
    rewrite bind_ret in Hins. exact Hins.
  Qed.

  Definition list_insert (i : nat) (e : elem) (l : list elem) : list elem := firstn i l ++ e :: skipn i l.

  Lemma list_insert_perm i e l : Permutation (e :: l) (list_insert i e l).
  Proof. unfold list_insert. rewrite <- (firstn_skipn i l) at 1. apply Permutation_middle. Qed.

  Lemma owned_after_insert s s' bl bl' e idx :
    owned s bl -> ledger s e = Live -> ~ In e (velems bl) -> e < next_elem s ->
    ledger s' = ledger s -> next_elem s' = next_elem s ->
    velems bl' = list_insert idx e (velems bl) -> init_upto (slots bl') (h_len bl') -> owned s' bl'.
  Proof.
    intros [Hi Hn Hl Ho] Hle Hnot Hold Hled Hnx Hvel Hi'.
    pose proof (list_insert_perm idx e (velems bl)) as Hp. rewrite <- Hvel in Hp.
    constructor.
    - exact Hi'.
    - eapply Permutation_NoDup; [exact Hp|]. constructor; assumption.
    - intros x Hx. rewrite Hled. apply (Permutation_in _ (Permutation_sym Hp)) in Hx. destruct Hx as [<-|Hx]; auto.
    - intros x Hx. rewrite Hnx. apply (Permutation_in _ (Permutation_sym Hp)) in Hx. destruct Hx as [<-|Hx]; auto.
  Qed.

  (* reserve(1) on a vector that has never allocated: a first block with room for one element *)
  Lemma reserve_one_sentinel s v : vec_sentinel s v ->
    post (reserve cfg ncap v 1 s)
      (fun _ s' => exists size c1, 1 <= c1 /\ block_ok cfg (fresh_block size (max_align cfg) 0 c1 (max_align cfg)) /\
                                   allocated s s' v (fresh_block size (max_align cfg) 0 c1 (max_align cfg)))
      (fun s' => s' = s).
  Proof.
    intros Hs. destruct (sentinel_basics cfg s v Hs) as (Hl & Hc & Hal). unfold reserve.
    rewrite (bind_val _ _ _ _ _ Hc), (bind_val _ _ _ _ _ Hl).
    unfold add_m, add_u. cbv zeta. rewrite Z.add_0_l.
    assert (E : (1 <? W64) = true) by reflexivity. rewrite E.
    rewrite lift_opt_some, bind_ret.
    assert (E0 : (1 <=? 0) = false) by reflexivity. rewrite E0.
    destruct (ncap 0) as [c1|] eqn:E1; [|simpl; reflexivity].
    rewrite lift_opt_some, bind_ret.
    destruct (Hpol 0 c1 ltac:(lia) E1) as (H1 & H2 & H3).
    assert (Hpow : 1 < c1 * 2 ^ Z.of_nat 130).
    { assert (W64 <= 2 ^ Z.of_nat 130) by (rewrite W64_val; vm_compute; discriminate). rewrite W64_val in *. nia. }
    eapply post_bind; [apply (reserve_loop_spec ncap 130 c1 1 s Hpol H1 Hpow)|].
    intros nc s' (-> & Hx & Hy & Hz & Hw).
    rewrite (bind_val _ _ _ _ _ Hal).
    eapply post_weaken; [apply (grow_sentinel cfg ncap Hcfg s v nc (max_align cfg) Hs ltac:(destruct Hw; lia) (max_align_pow2 cfg Hcfg) ltac:(lia))| |].
    - intros u s' [(E' & _)|(size & _ & Hbn & Hall)]; [lia|]. exists size, nc. auto.
    - intros s' [-> _]. reflexivity.
  Qed.

  Lemma insert_abs s v l idx e :
    vabs s v l -> ledger s e = Live -> ~ In e l -> e < next_elem s -> 0 <= idx ->
    post (insert cfg ncap v idx e s)
      (fun _ s' => idx <= Z.of_nat (List.length l) /\ vabs s' v (list_insert (Z.to_nat idx) e l) /\ only_changes s s' [])
      (fun s' => vabs s' v l /\ ledger s' e = Dropped /\ only_changes s s' [e]).
  Proof.
    intros Hab Hle Hnh Hold Hidx. rewrite insert_unfold.
    eapply post_on_unwind with (Qp1 := fun s' => vabs s' v l /\ ledger s' e = Live /\ only_changes s s' []).
    2:{ intros s' (H1 & H2 & H3). eapply post_weaken; [apply (vabs_drop_other s' v l e H1 H2 Hnh)| |auto].
        intros u s'' (G1 & G2 & G3). split; [exact G1|]. split; [exact G2|]. exact (oc_trans _ _ _ _ _ H3 G3). }
    destruct Hab as [[Hs ->]|(b & bl & Hv & Hb & Ho & Hl)].
    - (* never allocated *)
      destruct (sentinel_basics cfg s v Hs) as (Hl & Hc & Ha).
      rewrite (bind_val _ _ _ _ _ Hl).
      destruct (Z.ltb_spec 0 idx) as [Hbad|Hzero].
      { simpl. split; [left; auto|]. split; [assumption|apply only_changes_refl]. }
      assert (idx = 0) by lia. subst idx.
      rewrite bind_ret. rewrite (bind_val _ _ _ _ _ Hc). rewrite Z.eqb_refl.
      eapply post_bind.
      { eapply post_weaken; [apply (reserve_one_sentinel s v Hs)| |].
        - intros u s' H. exact H.
        - intros s' ->. split; [left; auto|]. split; [assumption|apply only_changes_refl]. }
      intros u s' (size & c1 & Hc1 & Hbn & Hal).
      set (nbl := fresh_block size (max_align cfg) 0 c1 (max_align cfg)) in *.
      pose proof (allocated_vec_at _ _ _ _ Hal) as Hvn.
      destruct (insert_tail_spec s' v _ nbl 0 e Hvn Hbn ltac:(simpl; lia) ltac:(simpl; lia))
        as (s'' & Hpt & Hv'' & Hfr & Hb'' & Hvel & Hinit).
      change (h_len nbl) with 0 in Hpt. rewrite Hpt. simpl. split; [lia|]. split.
      2:{ change (@nil elem) with (@nil elem ++ @nil elem). eapply oc_trans; [apply oc_same; exact (al_same _ _ _ _ Hal)|eapply oc_frame; exact Hfr]. }
      right. eexists _, _. split; [exact Hv''|]. split; [exact Hb''|].
      assert (Hown : owned s' nbl) by apply owned_fresh_block.
      split; [|exact Hvel].
      eapply owned_after_insert with (s := s') (bl := nbl) (e := e) (idx := Z.to_nat 0).
      + exact Hown.
      + rewrite (se_ledger _ _ (al_same _ _ _ _ Hal)). exact Hle.
      + simpl. intros [].
      + rewrite (se_next _ _ (al_same _ _ _ _ Hal)). exact Hold.
      + exact (fb_ledger _ _ _ Hfr).
      + exact (fb_next _ _ _ Hfr).
      + exact Hvel.
      + apply Hinit. exact (ow_init _ _ Hown).
    - (* allocated *)
      pose proof (bo_len _ _ Hb) as Hlen. pose proof (bo_cap _ _ Hb) as Hcap.
      pose proof (velems_length bl ltac:(lia)) as Hvl.
      rewrite (bind_val _ _ _ _ _ (len_at cfg _ _ _ _ Hcfg Hv Hb)).
      assert (Hnot : ~ In e (velems bl)) by (rewrite Hl; exact Hnh).
      destruct (Z.ltb_spec (h_len bl) idx) as [Hbad|Hin].
      { simpl. split; [right; eauto 8|]. split; [assumption|apply only_changes_refl]. }
      rewrite bind_ret.
      rewrite (bind_val _ _ _ _ _ (capacity_at cfg _ _ _ _ Hcfg Hv Hb)).
      destruct (Z.eqb_spec (h_len bl) (h_cap bl)) as [Efull|Nfull].
      + eapply post_bind.
        { eapply post_weaken; [apply (reserve_at cfg ncap Hcfg s v b bl 1 Hpol Hv Hb ltac:(lia))| |].
          - intros u s' H. exact H.
          - intros s' ->. split; [right; eauto 8|]. split; [assumption|apply only_changes_refl]. }
        intros u s' [[Hfit _]|[_ (c & size & Hc1 & Hc2 & _ & Hbn & Hmv)]]; [lia|].
        set (nbl := grown bl c size) in *.
        pose proof (moved_vec_at _ _ _ _ _ Hmv) as Hvn.
        destruct (insert_tail_spec s' v _ nbl idx e Hvn Hbn ltac:(simpl; lia) ltac:(simpl; lia))
          as (s'' & Hpt & Hv'' & Hfr & Hb'' & Hvel & Hinit).
        change (h_len nbl) with (h_len bl) in Hpt. rewrite Hpt. simpl. split; [subst l; lia|]. split.
        2:{ change (@nil elem) with (@nil elem ++ @nil elem). eapply oc_trans; [apply oc_same; exact (mv_same _ _ _ _ _ Hmv)|eapply oc_frame; exact Hfr]. }
        right. eexists _, _. split; [exact Hv''|]. split; [exact Hb''|].
        assert (Hown : owned s' nbl).
        { apply (owned_grown s s' bl c size Ho); [exact (se_ledger _ _ (mv_same _ _ _ _ _ Hmv))|exact (se_next _ _ (mv_same _ _ _ _ _ Hmv))]. }
        split; [|rewrite Hvel; simpl; rewrite <- Hl; reflexivity].
        eapply owned_after_insert with (s := s') (bl := nbl) (e := e) (idx := Z.to_nat idx).
        * exact Hown.
        * rewrite (se_ledger _ _ (mv_same _ _ _ _ _ Hmv)). exact Hle.
        * exact Hnot.
        * rewrite (se_next _ _ (mv_same _ _ _ _ _ Hmv)). exact Hold.
        * exact (fb_ledger _ _ _ Hfr).
        * exact (fb_next _ _ _ Hfr).
        * exact Hvel.
        * apply Hinit. exact (ow_init _ _ Hown).
      + rewrite bind_ret.
        destruct (insert_tail_spec s v b bl idx e Hv Hb ltac:(lia) ltac:(lia))
          as (s'' & Hpt & Hv'' & Hfr & Hb'' & Hvel & Hinit).
        rewrite Hpt. simpl. split; [subst l; lia|]. split; [|eapply oc_frame; exact Hfr].
        right. eexists _, _. split; [exact Hv''|]. split; [exact Hb''|].
        split; [|rewrite Hvel, <- Hl; reflexivity].
        eapply owned_after_insert with (s := s) (bl := bl) (e := e) (idx := Z.to_nat idx); try exact Ho; auto.
        * exact (fb_ledger _ _ _ Hfr).
        * exact (fb_next _ _ _ Hfr).
        * apply Hinit. exact (ow_init _ _ Ho).
  Qed.


  (* ------------------------------------------------------------------ swap_remove = replace by the last, drop the last *)
  Definition swap_delete (i : nat) (l : list elem) : list elem :=
    match skipn (S i) l with
    | [] => firstn i l
    | t => firstn i l ++ last t 0 :: removelast t
    end.

  Lemma swap_delete_perm i x l : nth_error l i = Some x -> Permutation l (x :: swap_delete i l).
  Proof.
    intros Hn. pose proof (nth_split_local _ _ _ Hn) as Hsp. unfold swap_delete.
    set (l1 := firstn i l) in *. set (t0 := skipn (S i) l) in *. clearbody l1 t0.
    rewrite Hsp. destruct t0 as [|z t].
    - apply Permutation_sym. apply Permutation_cons_append.
    - assert (Hne : z :: t <> []) by discriminate.
      rewrite (app_removelast_last 0 Hne) at 1.
      set (r := removelast (z :: t)). set (y := last (z :: t) 0).
      eapply Permutation_trans; [apply Permutation_sym; apply Permutation_middle|].
      apply perm_skip. apply Permutation_app_head. apply Permutation_sym. apply Permutation_cons_append.
  Qed.

  Lemma last_nth_error (l : list elem) d : l <> [] -> nth_error l (List.length l - 1) = Some (last l d).
  Proof.
    induction l as [|x l IH]; intros H; [congruence|].
    destruct l as [|y l]; [reflexivity|].
    specialize (IH ltac:(discriminate)). cbn [List.length] in *.
    replace (S (S (List.length l)) - 1)%nat with (S (S (List.length l) - 1)) by lia.
    cbn [nth_error]. rewrite IH. reflexivity.
  Qed.

  Lemma swap_delete_view f n i :
    0 <= i < n ->
    view (upd f i (Init (slot_elem (f (n - 1))))) (n - 1) = swap_delete (Z.to_nat i) (view f n).
  Proof.
    intros Hi. unfold swap_delete.
    assert (Hlen : List.length (view f n) = Z.to_nat n) by (unfold view; rewrite map_length, seq_length; reflexivity).
    apply list_ext. intros k.
    destruct (Nat.lt_ge_cases k (Z.to_nat (n - 1))) as [Lk|Gk].
    - rewrite view_nth_nat by lia.
      destruct (skipn (S (Z.to_nat i)) (view f n)) as [|z t] eqn:Esk.
      + (* i = n - 1 *)
        assert (Z.to_nat n <= S (Z.to_nat i))%nat.
        { apply (f_equal (@List.length elem)) in Esk. rewrite skipn_length, Hlen in Esk. simpl in Esk. lia. }
        rewrite nth_error_firstn_lt by lia. rewrite view_nth_nat by lia.
        unfold upd. destruct (Z.eqb_spec (Z.of_nat k) i); [lia|reflexivity].
      + assert (Hsl : List.length (z :: t) = (Z.to_nat n - S (Z.to_nat i))%nat) by (rewrite <- Esk, skipn_length, Hlen; reflexivity).
        destruct (Nat.lt_ge_cases k (Z.to_nat i)) as [L1|G1].
        * rewrite nth_error_app1 by (rewrite firstn_length; lia).
          rewrite nth_error_firstn_lt by lia. rewrite view_nth_nat by lia.
          unfold upd. destruct (Z.eqb_spec (Z.of_nat k) i); [lia|reflexivity].
        * rewrite nth_error_app2 by (rewrite firstn_length; lia).
          rewrite firstn_length, Hlen. replace (Nat.min (Z.to_nat i) (Z.to_nat n)) with (Z.to_nat i) by lia.
          destruct (Nat.eq_dec k (Z.to_nat i)) as [->|Nk].
          -- rewrite Nat.sub_diag. cbn [nth_error]. unfold upd. rewrite Z2Nat.id by lia. rewrite Z.eqb_refl. cbn [slot_elem].
             f_equal.
             (* last (z :: t) = element n-1 of the view *)
             assert (Hlast : nth_error (z :: t) (List.length (z :: t) - 1) = Some (slot_elem (f (n - 1)))).
             { rewrite Hsl. rewrite <- Esk. rewrite nth_error_skipn_local.
               replace (S (Z.to_nat i) + (Z.to_nat n - S (Z.to_nat i) - 1))%nat with (Z.to_nat (n - 1)) by lia.
               rewrite view_nth by lia. reflexivity. }
             rewrite (last_nth_error (z :: t) 0 ltac:(discriminate)) in Hlast. inversion Hlast. reflexivity.
          -- destruct (k - Z.to_nat i)%nat as [|m] eqn:Em; [lia|]. cbn [nth_error].
             rewrite removelast_firstn_len. rewrite nth_error_firstn_lt by (rewrite Hsl; lia).
             rewrite <- Esk. rewrite nth_error_skipn_local.
             replace (S (Z.to_nat i) + m)%nat with k by lia. rewrite view_nth_nat by lia.
             unfold upd. destruct (Z.eqb_spec (Z.of_nat k) i); [lia|reflexivity].
    - rewrite view_nth_none by lia. symmetry. apply nth_error_None.
      destruct (skipn (S (Z.to_nat i)) (view f n)) as [|z t] eqn:Esk.
      + rewrite firstn_length, Hlen. lia.
      + assert (Hsl : List.length (z :: t) = (Z.to_nat n - S (Z.to_nat i))%nat) by (rewrite <- Esk, skipn_length, Hlen; reflexivity).
        rewrite app_length, firstn_length, Hlen. cbn [List.length]. rewrite removelast_firstn_len, firstn_length. cbn [List.length] in *. lia.
  Qed.


  (* what swap_delete is, position by position *)
  Lemma view_of_list (l : list elem) :
    view (fun z => Init (nth (Z.to_nat z) l 0)) (Z.of_nat (List.length l)) = l.
  Proof.
    apply list_ext. intros k. destruct (Nat.lt_ge_cases k (List.length l)) as [L|G].
    - rewrite view_nth_nat by lia. cbn [slot_elem]. rewrite Nat2Z.id. symmetry. apply nth_error_nth'. exact L.
    - rewrite view_nth_none by lia. symmetry. apply nth_error_None. exact G.
  Qed.

  Lemma swap_delete_nth i (l : list elem) x : nth_error l i = Some x ->
    (forall k, (k < List.length l - 1)%nat ->
       nth_error (swap_delete i l) k = if Nat.eqb k i then nth_error l (List.length l - 1) else nth_error l k) /\
    List.length (swap_delete i l) = (List.length l - 1)%nat.
  Proof.
    intros Hn. assert (Hi : (i < List.length l)%nat) by (apply nth_error_Some; rewrite Hn; discriminate).
    set (f := fun z => Init (nth (Z.to_nat z) l 0)). set (n := Z.of_nat (List.length l)).
    pose proof (view_of_list l) as Hv. fold f n in Hv.
    pose proof (swap_delete_view f n (Z.of_nat i) ltac:(lia)) as Hsd. rewrite Nat2Z.id, Hv in Hsd.
    rewrite <- Hsd. split.
    - intros k Hk. rewrite view_nth_nat by lia. unfold upd.
      destruct (Nat.eqb_spec k i) as [->|Nk].
      + rewrite Z.eqb_refl. cbn [slot_elem]. unfold f. cbn [slot_elem].
        replace (Z.to_nat (n - 1)) with (List.length l - 1)%nat by lia.
        symmetry. apply nth_error_nth'. lia.
      + destruct (Z.eqb_spec (Z.of_nat k) (Z.of_nat i)); [lia|]. unfold f. cbn [slot_elem]. rewrite Nat2Z.id.
        symmetry. apply nth_error_nth'. lia.
    - pose proof (view_length (upd f (Z.of_nat i) (Init (slot_elem (f (n - 1))))) (n - 1) ltac:(lia)). lia.
  Qed.

  Lemma swap_remove_abs s v l idx : vabs s v l -> 0 <= idx ->
    post (swap_remove cfg v idx s)
      (fun r s' => nth_error l (Z.to_nat idx) = Some r /\ vabs s' v (swap_delete (Z.to_nat idx) l) /\ ledger s' r = Out /\ only_changes s s' [r])
      (fun s' => Z.of_nat (List.length l) <= idx /\ s' = s).
  Proof.
    intros [[Hs ->]|(b & bl & Hv & Hb & Ho & Hl)] Hidx.
    - rewrite (sn_swap_remove cfg s v Hs idx Hidx). simpl. split; [lia|reflexivity].
    - pose proof (bo_len _ _ Hb) as Hlen.
      pose proof (velems_length bl ltac:(lia)) as Hvl.
      destruct (Z.le_gt_cases (h_len bl) idx) as [Hoob|Hin].
      + rewrite (swap_remove_oob cfg s v (h_len bl) (len_at cfg s v b bl Hcfg Hv Hb) idx Hoob). simpl.
        subst l. split; [lia|reflexivity].
      + pose proof (ow_init _ _ Ho) as Hi.
        destruct (Hi (h_len bl - 1) ltac:(lia)) as [lst Hlst].
        destruct (Hi idx ltac:(lia)) as [x Hx].
        destruct (as_ptr_at cfg _ _ _ _ Hcfg Hv Hb) as (off & Hco & Hp).
        set (bl1 := with_hdr bl (h_len bl + -1) (h_cap bl) (h_align bl)).
        set (s1 := upd_block s b bl1).
        assert (Hb1 : block_ok cfg bl1) by (apply block_ok_with_len; [assumption|lia]).
        assert (Hv1 : vec_at s1 v b bl1) by (apply vec_at_upd with (bl := bl); assumption).
        destruct (as_ptr_at cfg _ _ _ _ Hcfg Hv1 Hb1) as (off1 & Hco1 & Hp1).
        assert (off1 = off) by (unfold canon_off in *; simpl in Hco1; congruence). subst off1.
        set (bl' := with_slots bl1 (upd (slots bl1) idx (Init lst))).
        unfold swap_remove.
        rewrite (bind_val _ _ _ _ _ (len_at cfg _ _ _ _ Hcfg Hv Hb)).
        assert (E0 : (h_len bl <=? idx) = false) by (apply Z.leb_gt; lia). rewrite E0.
        rewrite (bind_val _ _ _ _ _ Hp). simpl padd. rewrite ?Z.add_0_l.
        pose proof (slot_read_at cfg s b bl off (h_len bl - 1) Hcfg (proj2 Hv) Hb Hco ltac:(lia)) as Hr1. rewrite Hlst in Hr1.
        rewrite (bind_val _ _ _ _ _ Hr1).
        rewrite (bind_val _ _ _ _ _ (add_len_at cfg s v b bl (-1) Hcfg Hv Hb)). fold bl1. fold s1.
        rewrite (bind_val _ _ _ _ _ Hp1). simpl padd. rewrite ?Z.add_0_l.
        pose proof (slot_read_at cfg s1 b bl1 off idx Hcfg (proj2 Hv1) Hb1 Hco1 ltac:(simpl; lia)) as Hr2.
        change (slots bl1 idx) with (slots bl idx) in Hr2. rewrite Hx in Hr2.
        rewrite (bind_val _ _ _ _ _ Hr2).
        rewrite (bind_val _ _ _ _ _ (slot_write_at cfg s1 b bl1 off idx lst Hcfg (proj2 Hv1) Hb1 Hco1 ltac:(simpl; lia))).
        fold bl'.
        assert (Hnth : nth_error (velems bl) (Z.to_nat idx) = Some x).
        { unfold velems. rewrite view_nth by lia. rewrite Hx. reflexivity. }
        pose proof (nth_error_In _ _ Hnth) as HxIn.
        assert (Hlive : ledger (upd_block s1 b bl') x = Live) by (simpl; apply (ow_live _ _ Ho); assumption).
        rewrite (bind_val _ _ _ _ _ (hand_out_live cfg Htracked _ x Hlive)). simpl.
        assert (Hvel : velems bl' = swap_delete (Z.to_nat idx) (velems bl)).
        { unfold velems. change (h_len bl') with (h_len bl + -1). change (slots bl') with (upd (slots bl) idx (Init lst)).
          replace (h_len bl + -1) with (h_len bl - 1) by lia.
          rewrite <- (swap_delete_view (slots bl) (h_len bl) idx ltac:(lia)). rewrite Hlst. reflexivity. }
        split; [rewrite <- Hl; exact Hnth|]. split.
        2:{ split; [simpl; unfold upd; rewrite Z.eqb_refl; reflexivity|].
            split; [reflexivity|]. intros e0 He0. simpl. unfold upd.
            destruct (Z.eqb_spec e0 x); [exfalso; apply He0; left; symmetry; assumption|reflexivity]. }
        right. exists b, bl'. split.
        { pose proof (vec_at_upd s1 v b bl1 bl' Hv1) as [Ha Hbq]. split; [exact Ha|exact Hbq]. }
        split; [apply block_ok_with_slots; exact Hb1|]. split; [|rewrite Hvel, Hl; reflexivity].
        pose proof (swap_delete_perm _ _ _ Hnth) as Hperm.
        pose proof (Permutation_NoDup Hperm (ow_nodup _ _ Ho)) as Hnd. inversion Hnd as [|? ? Hnotin Hnd']; subst.
        eapply owned_transfer with (s := s) (bl := bl); try exact Ho.
        * simpl. lia.
        * simpl. intros i0 Hi0. unfold upd. destruct (Z.eqb_spec i0 idx); [eauto|]. apply Hi. lia.
        * rewrite Hvel. exact Hnd'.
        * intros e He. rewrite Hvel in He. eapply Permutation_in; [apply Permutation_sym; exact Hperm|right; exact He].
        * intros e He. simpl. unfold upd. destruct (Z.eqb_spec e x); [|reflexivity].
          subst. exfalso. apply Hnotin. rewrite <- Hvel. exact He.
        * simpl. lia.
  Qed.

  (* ------------------------------------------------------------------ every history refines the list specification *)
  Inductive rop :=
  | RPush (payload_ : Z)
  | RInsert (i : Z) (payload_ : Z)
  | RPop
  | RRemove (i : Z)
  | RSwapRemove (i : Z)
  | RTruncate (n : Z)
  | RCap (o : capop).

  Definition rop_ok (o : rop) : Prop :=
    match o with
    | RInsert i _ => 0 <= i
    | RRemove i => 0 <= i
    | RSwapRemove i => 0 <= i
    | RTruncate n => 0 <= n
    | RCap o => cap_arg_ok o
    | _ => True
    end.

  Definition run_rop (v : nat) (o : rop) : M unit :=
    match o with
    | RPush p => e <- fresh_elem p ;; push cfg ncap v e
    | RInsert i p => e <- fresh_elem p ;; insert cfg ncap v i e
    | RPop => _ <- pop cfg v ;; ret tt
    | RRemove i => _ <- remove cfg v i ;; ret tt
    | RSwapRemove i => _ <- swap_remove cfg v i ;; ret tt
    | RTruncate n => truncate cfg v n
    | RCap o => run_capop cfg ncap v o
    end.

  (* the list specification: `completed = true` when the call returned, false when it panicked *)
  Definition rstep (o : rop) (completed : bool) (l l' : list elem) : Prop :=
    match o, completed with
    | RPush _, true => exists e, ~ In e l /\ l' = l ++ [e]
    | RPush _, false => l' = l                                   (* capacity overflow: refused, unchanged *)
    | RInsert i _, true => exists e, ~ In e l /\ Z.to_nat i <= List.length l /\ l' = list_insert (Z.to_nat i) e l
    | RInsert i _, false => l' = l                               (* index > len, or capacity overflow *)
    | RPop, true => l' = removelast l
    | RPop, false => False                                       (* pop never panics *)
    | RRemove i, true => Z.to_nat i < List.length l /\ l' = delete_at (Z.to_nat i) l
    | RRemove i, false => (List.length l <= Z.to_nat i)%nat /\ l' = l   (* panics exactly out of range *)
    | RSwapRemove i, true => Z.to_nat i < List.length l /\ l' = swap_delete (Z.to_nat i) l
    | RSwapRemove i, false => (List.length l <= Z.to_nat i)%nat /\ l' = l
    | RTruncate n, _ => l' = firstn (Z.to_nat n) l               (* also when a destructor panics *)
    | RCap _, _ => l' = l
    end%nat.

  (* ---- accounting: every element created so far is in the vector, or was handed to the caller, or
     has been destroyed -- nothing is lost.  (That nothing is destroyed or handed out TWICE is part
     of "no undefined behaviour": the machine's drop_elem / hand_out are UB on a non-live element.) *)
  Definition accounted (s : state) (l : list elem) : Prop :=
    0 <= next_elem s /\
    forall e, 0 <= e < next_elem s -> In e l \/ ledger s e = Out \/ ledger s e = Dropped.

  Definition vacc (s : state) (v : nat) (l : list elem) : Prop := vabs s v l /\ accounted s l.

  Lemma acc_step s s' l l' es :
    accounted s l -> only_changes s s' es ->
    (forall e, In e es -> ledger s' e = Out \/ ledger s' e = Dropped) ->
    (forall e, In e l -> In e l' \/ In e es) ->
    accounted s' l'.
  Proof.
    intros [Hn Ha] [Hnx Hled] Hes Hsub. split; [lia|]. intros e He. rewrite Hnx in He.
    destruct (in_dec Z.eq_dec e es) as [Hin|Hnot]; [right; apply Hes; exact Hin|].
    destruct (Ha e He) as [Hl|Hr].
    - destruct (Hsub e Hl); [left; assumption|contradiction].
    - right. rewrite (Hled e Hnot). exact Hr.
  Qed.

  Lemma acc_fresh s l p : accounted s l -> accounted (fresh_state s p) (l ++ [next_elem s]).
  Proof.
    intros [Hn Ha]. split; [simpl; lia|]. simpl. intros e He.
    destruct (Z.eq_dec e (next_elem s)) as [->|Ne]; [left; apply in_or_app; right; left; reflexivity|].
    destruct (Ha e ltac:(lia)) as [Hl|Hr]; [left; apply in_or_app; left; exact Hl|].
    right. unfold upd. destruct (Z.eqb_spec e (next_elem s)); [contradiction|exact Hr].
  Qed.

  Lemma run_rop_abs s v l o : vacc s v l -> rop_ok o ->
    post (run_rop v o s) (fun _ s' => exists l', rstep o true l l' /\ vacc s' v l')
                         (fun s' => exists l', rstep o false l l' /\ vacc s' v l').
  Proof.
    intros [Hab Hacc] Hok.
    assert (Hnew : ~ In (next_elem s) l).
    { intros Hin. destruct (vabs_owned s v l Hab) as (_ & _ & Hold). specialize (Hold _ Hin). lia. }
    destruct o as [p|i p| |i|i|n|o]; simpl in *.
    - (* push *)
      rewrite (bind_val _ _ _ _ _ (fresh_elem_eq s p)).
      pose proof (acc_fresh s l p Hacc) as Hacc'.
      eapply post_weaken.
      + apply (push_abs (fresh_state s p) v l (next_elem s)).
        * apply vabs_fresh. exact Hab.
        * simpl. unfold upd. rewrite Z.eqb_refl. reflexivity.
        * exact Hnew.
        * simpl. lia.
      + intros u s' (H & Hoc & _). exists (l ++ [next_elem s]). split; [exists (next_elem s); auto|]. split; [exact H|].
        eapply acc_step; [exact Hacc'|exact Hoc|intros e []|intros e He; left; exact He].
      + intros s' (H & Hd & Hoc). exists l. split; [reflexivity|]. split; [exact H|].
        eapply acc_step; [exact Hacc'|exact Hoc| |].
        * intros e [<-|[]]. right. exact Hd.
        * intros e He. apply in_app_or in He. destruct He as [He|He]; [left; exact He|right; exact He].
    - (* insert *)
      rewrite (bind_val _ _ _ _ _ (fresh_elem_eq s p)).
      pose proof (acc_fresh s l p Hacc) as Hacc'.
      eapply post_weaken.
      + apply (insert_abs (fresh_state s p) v l i (next_elem s)).
        * apply vabs_fresh. exact Hab.
        * simpl. unfold upd. rewrite Z.eqb_refl. reflexivity.
        * exact Hnew.
        * simpl. lia.
        * exact Hok.
      + intros u s' (Hle & H & Hoc). eexists. split; [exists (next_elem s); split; [exact Hnew|split; [lia|reflexivity]]|].
        split; [exact H|].
        eapply acc_step; [exact Hacc'|exact Hoc|intros e []|].
        intros e He. left. eapply Permutation_in; [apply list_insert_perm|].
        apply in_app_or in He. destruct He as [He|[<-|[]]]; [right; exact He|left; reflexivity].
      + intros s' (H & Hd & Hoc). exists l. split; [reflexivity|]. split; [exact H|].
        eapply acc_step; [exact Hacc'|exact Hoc| |].
        * intros e [<-|[]]. right. exact Hd.
        * intros e He. apply in_app_or in He. destruct He as [He|He]; [left; exact He|right; exact He].
    - (* pop *)
      eapply post_bind; [eapply post_weaken; [apply pop_abs; exact Hab|intros r s' H; exact H|intros s' []]|].
      intros r s' H. simpl.
      destruct H as [(-> & _ & H & ->)|(l0 & x & -> & _ & H & Hout & Hoc)].
      + exists []. split; [reflexivity|]. split; assumption.
      + exists l0. split; [rewrite removelast_last; reflexivity|]. split; [exact H|].
        eapply acc_step; [exact Hacc|exact Hoc| |].
        * intros e [<-|[]]. left. exact Hout.
        * intros e He. apply in_app_or in He. destruct He as [He|He]; [left; exact He|right; exact He].
    - (* remove *)
      eapply post_bind.
      + eapply post_weaken; [apply remove_abs; eassumption|intros r s' H; exact H|].
        intros s' [Hlen ->]. exists l. split; [split; [lia|reflexivity]|]. split; assumption.
      + intros r s' (Hn & H & Hout & Hoc). simpl. exists (delete_at (Z.to_nat i) l). split.
        { split; [|reflexivity]. apply nth_error_Some. rewrite Hn. discriminate. }
        split; [exact H|].
        eapply acc_step; [exact Hacc|exact Hoc| |].
        * intros e [<-|[]]. left. exact Hout.
        * intros e He. pose proof (nth_split_local _ _ _ Hn) as Hsp. rewrite Hsp in He. unfold delete_at.
          apply in_app_or in He. destruct He as [He|[<-|He]]; [left; apply in_or_app; left; exact He|right; left; reflexivity|left; apply in_or_app; right; exact He].
    - (* swap_remove *)
      eapply post_bind.
      + eapply post_weaken; [apply swap_remove_abs; eassumption|intros r s' H; exact H|].
        intros s' [Hlen ->]. exists l. split; [split; [lia|reflexivity]|]. split; assumption.
      + intros r s' (Hn & H & Hout & Hoc). simpl. exists (swap_delete (Z.to_nat i) l). split.
        { split; [|reflexivity]. apply nth_error_Some. rewrite Hn. discriminate. }
        split; [exact H|].
        eapply acc_step; [exact Hacc|exact Hoc| |].
        * intros e [<-|[]]. left. exact Hout.
        * intros e He. pose proof (swap_delete_perm _ _ _ Hn) as Hp.
          apply (Permutation_in _ Hp) in He. destruct He as [<-|He]; [right; left; reflexivity|left; exact He].
    - (* truncate *)
      eapply post_weaken; [apply truncate_abs; eassumption| |].
      + intros u s' (H & Hd & Hoc). eexists. split; [reflexivity|]. split; [exact H|].
        eapply acc_step; [exact Hacc|exact Hoc|intros e He; right; exact (Hd e He)|].
        intros e He. rewrite <- (firstn_skipn (Z.to_nat n) l) in He. apply in_app_or in He. exact He.
      + intros s' (H & Hd & Hoc). eexists. split; [reflexivity|]. split; [exact H|].
        eapply acc_step; [exact Hacc|exact Hoc|intros e He; right; exact (Hd e He)|].
        intros e He. rewrite <- (firstn_skipn (Z.to_nat n) l) in He. apply in_app_or in He. exact He.
    - (* capacity operations *)
      eapply post_weaken; [apply capop_abs; eassumption| |].
      + intros u s' (H & Hoc & _). exists l. split; [reflexivity|]. split; [exact H|].
        eapply acc_step; [exact Hacc|exact Hoc|intros e []|intros e He; left; exact He].
      + intros s' ->. exists l. split; [reflexivity|]. split; assumption.
  Qed.

  Fixpoint run_rops (v : nat) (os : list rop) : M unit :=
    match os with
    | [] => ret tt
    | o :: os => bind (catch (run_rop v o)) (fun _ => run_rops v os)
    end.

  (* the list after a history, given which calls completed *)
  Inductive rsteps : list rop -> list elem -> list elem -> Prop :=
  | rs_nil l : rsteps [] l l
  | rs_cons o os c l l1 l2 : rstep o c l l1 -> rsteps os l1 l2 -> rsteps (o :: os) l l2.

  (* For EVERY sequence of these operations with ANY arguments and ANY set of panicking
     destructors, every panic being caught between the operations: no undefined behaviour, no hang,
     the vector's contents are those of the list specification -- the machine REFINES the list
     model that std::Vec implements -- and every element ever created is accounted for. *)
  Theorem history_refines_list_spec v os s l :
    vacc s v l -> Forall rop_ok os ->
    post (run_rops v os s) (fun _ s' => exists l', rsteps os l l' /\ vacc s' v l') (fun _ => False).
  Proof.
    revert s l. induction os as [|o os IH]; intros s l Hab Hargs.
    - simpl. exists l. split; [constructor|exact Hab].
    - inversion Hargs as [|? ? Ho Hos]; subst. simpl.
      eapply post_bind with (Q1 := fun _ s' => exists c l1, rstep o c l l1 /\ vacc s' v l1).
      + eapply post_catch; [apply run_rop_abs; eassumption| |].
        * intros a s' (l1 & H1 & H2). exists true, l1. auto.
        * intros s' (l1 & H1 & H2). exists false, l1. auto.
      + intros u s' (c & l1 & Hst & Hab').
        eapply post_weaken; [apply (IH s' l1 Hab' Hos)| |auto].
        intros u' s'' (l2 & Hrs & Hab''). exists l2. split; [econstructor; eassumption|exact Hab''].
  Qed.
End Refine.
