(* Proofs/Resize.v -- resize(new_len, value) at list level: shorter => the prefix (the cut elements are
   destroyed), longer => the old contents followed by new_len - len NEW elements carrying value's
   payload; equal => unchanged; in every case the by-value argument `value` is destroyed exactly once
   at the end (also when the call unwinds). *)
From Coq Require Import ZArith List Bool Lia Permutation.
From MV Require Import Ast Eval Scalar Machine.
From MV.Proofs Require Import Arith Logic Prim View OpsLocal Guards Grow CapHistory Drops Retain Sentinel Core Refine Clone Extend CloneSlice.
Import ListNotations.
Open Scope Z_scope.

Section Resize.
  Variable cfg : tcfg.
  Variable ncap : Z -> option Z.
  Hypothesis Hcfg : cfg_ok cfg.
  Hypothesis Hpol : policy_ok ncap.
  Hypothesis Htracked : needs_drop cfg = true.

  Local Notation vabs := (vabs cfg).

  Lemma vabs_len s v l : vabs s v l -> len v s = (Val (Z.of_nat (List.length l)), s).
  Proof.
    intros [[Hs ->]|(b & bl & Hv & Hb & Ho & Hl)].
    - simpl. eapply sn_len; eassumption.
    - rewrite (len_at cfg s v b bl Hcfg Hv Hb). subst l.
      rewrite (velems_length bl) by (pose proof (bo_len _ _ Hb); lia). reflexivity.
  Qed.

  Lemma bind_ext {A B} (m : M A) (f g : A -> M B) s :
    (forall a s', f a s' = g a s') -> bind m f s = bind m g s.
  Proof. intros H. unfold bind. destruct (m s) as [[a| | | | |] s']; auto. Qed.

  Lemma resize_loop_push_clones v e hi : forall k fuel i s,
    (k <= fuel)%nat -> 0 <= i -> i + Z.of_nat k = hi -> hi < W64 ->
    resize_loop cfg ncap fuel v e i hi s = push_clones cfg ncap v (repeat e k) s.
  Proof.
    induction k as [|k IH]; intros fuel i s Hf Hi Hk Hw.
    - assert (E : (i <? hi) = false) by (apply Z.ltb_ge; lia).
      destruct fuel; simpl; rewrite E; reflexivity.
    - destruct fuel as [|fuel]; [lia|].
      assert (E : (i <? hi) = true) by (apply Z.ltb_lt; lia).
      cbn [resize_loop repeat push_clones]. rewrite E.
      apply bind_ext. intros c s1. apply bind_ext. intros u s2.
      rewrite (bind_val _ _ _ _ _ (uadd_one cfg i Hi ltac:(lia) s2)).
      apply IH; lia.
  Qed.

  Lemma nth_repeat_local (a : elem) : forall m j, (j < m)%nat -> nth j (repeat a m) 0 = a.
  Proof.
    induction m as [|m IH]; intros j H; [lia|]. destruct j as [|j]; simpl; [reflexivity|apply IH; lia].
  Qed.

  (* dropping an element that is not in the vector: the vector is untouched, payloads too *)
  Lemma drop_value s v l e :
    vabs s v l -> ledger s e = Live -> ~ In e l ->
    let Q := fun s' => vabs s' v l /\ ledger s' e = Dropped /\ only_changes s s' [e] /\ payload s' = payload s in
    post (drop_elem cfg e s) (fun _ s' => Q s') Q.
  Proof.
    intros Hab Hlv Hnot Q.
    pose proof (vabs_drop_other cfg Htracked s v l e Hab Hlv Hnot) as H. cbv zeta in H.
    destruct (drop_elem_live cfg Htracked s e Hlv) as (s' & Hd & He). rewrite He in *.
    destruct (mem e (drop_panics s)); simpl in *; destruct H as (A & B & C);
      (split; [exact A|split; [exact B|split; [exact C|exact (ds_payload _ _ _ Hd)]]]).
  Qed.

  Theorem resize_abs s v l value n :
    vabs s v l -> ledger s value = Live -> value < next_elem s -> ~ In value l ->
    mem value (clone_panics s) = false ->
    0 <= n -> n - Z.of_nat (List.length l) <= 1000000 ->
    let L := Z.of_nat (List.length l) in
    post (resize cfg ncap v n value s)
      (fun _ s' =>
         ledger s' value = Dropped /\
         if n <=? L
         then vabs s' v (firstn (Z.to_nat n) l) /\
              (forall e, In e (skipn (Z.to_nat n) l) -> ledger s' e = Dropped) /\ next_elem s' = next_elem s
         else vabs s' v (l ++ zseq (next_elem s) (Z.to_nat (n - L))) /\
              next_elem s' = next_elem s + (n - L) /\
              (forall j, (j < Z.to_nat (n - L))%nat -> payload s' (next_elem s + Z.of_nat j) = payload s value) /\
              (forall e, In e l -> ledger s' e = ledger s e))
      (fun s' => exists l', vabs s' v l' /\
                            (l' = firstn (Z.to_nat n) l \/
                             exists k, (k <= Z.to_nat (n - L))%nat /\ l' = l ++ zseq (next_elem s) k)).
  Proof.
    intros Hab Hlive Hold Hnot Hcp Hn Hsmall L.
    destruct (vabs_owned cfg s v l Hab) as (Hnd & Hlv & Holdl).
    unfold resize, resize_body.
    (* what the body establishes, keeping `value` alive and outside the vector *)
    set (B := fun (s1 : state) (l1 : list elem) => vabs s1 v l1 /\ ledger s1 value = Live /\ ~ In value l1).
    eapply post_try_finally with
      (Q1 := fun _ s1 =>
         if n <=? L
         then B s1 (firstn (Z.to_nat n) l) /\
              (forall e, In e (skipn (Z.to_nat n) l) -> ledger s1 e = Dropped) /\ next_elem s1 = next_elem s
         else B s1 (l ++ zseq (next_elem s) (Z.to_nat (n - L))) /\
              next_elem s1 = next_elem s + (n - L) /\
              (forall j, (j < Z.to_nat (n - L))%nat -> payload s1 (next_elem s + Z.of_nat j) = payload s value) /\
              (forall e, In e l -> ledger s1 e = ledger s e))
      (Qp1 := fun s1 => exists l', B s1 l' /\
                          (l' = firstn (Z.to_nat n) l \/
                           exists k, (k <= Z.to_nat (n - L))%nat /\ l' = l ++ zseq (next_elem s) k)).
    - rewrite (bind_val _ _ _ _ _ (vabs_len s v l Hab)). fold L.
      destruct (Z.ltb_spec n L) as [Hshrink0|Hnotless].
      2: destruct (Z.eqb_spec n L) as [E|NE].
      2:{ (* same length *)
        simpl. assert (E1 : (n <=? L) = true) by (apply Z.leb_le; lia). rewrite E1.
        rewrite firstn_all2 by (unfold L in *; lia). rewrite skipn_all2 by (unfold L in *; lia).
        split; [split; [exact Hab|split; assumption]|]. split; [intros e []|reflexivity]. }
      2:{ (* longer *)
        assert (Hgrow : L < n) by lia.
        assert (E1 : (n <=? L) = false) by (apply Z.leb_gt; lia). rewrite E1.
        eapply post_bind.
        { eapply post_weaken; [apply (capop_abs cfg ncap Hcfg Hpol s v l (CReserve (n - L)) Hab); simpl; lia| |].
          - intros u s1 H. exact H.
          - intros s1 ->. exists l. split; [split; [exact Hab|split; assumption]|].
            right. exists O. split; [lia|]. simpl. rewrite app_nil_r. reflexivity. }
        intros u s1 (Hab1 & [Hn1 Hl1] & (Hq1 & Hq2 & Hq3)).
        assert (Hk : small (n - L) = Z.to_nat (n - L)) by (unfold small; rewrite Z.min_l by lia; reflexivity).
        rewrite Hk.
        rewrite (resize_loop_push_clones v value (n - L) (Z.to_nat (n - L)) (Z.to_nat (n - L)) 0 s1) by (unfold W64 in *; lia).
        set (k := Z.to_nat (n - L)).
        assert (Hcl1 : cloneable s1 (repeat value k)).
        { intros e He. apply repeat_spec in He. subst e. split; [rewrite Hl1 by (intros []); exact Hlive|]. split; [lia|]. rewrite Hq2. exact Hcp. }
        pose proof (push_clones_abs cfg ncap Hcfg Hpol Htracked (repeat value k) s1 v l Hab1 Hcl1) as Hpc.
        rewrite repeat_length in Hpc. rewrite Hn1 in Hpc.
        assert (Hfresh : forall m, ~ In value (l ++ zseq (next_elem s) m)).
        { intros m Hin. apply in_app_or in Hin. destruct Hin as [Hin|Hin]; [contradiction|]. apply zseq_in in Hin. lia. }
        eapply post_weaken; [exact Hpc| |].
        * intros u' s2 (G1 & G2 & G3 & G4 & G5).
          split; [split; [exact G1|split; [|apply Hfresh]]|].
          { destruct (G3 value Hold) as [A _]. rewrite A. rewrite Hl1 by (intros []). exact Hlive. }
          split; [unfold k in G2; lia|]. split.
          { intros j Hj. rewrite (G4 j Hj). rewrite nth_repeat_local by exact Hj. rewrite Hq1. reflexivity. }
          intros e He. destruct (G3 e (Holdl e He)) as [A _]. rewrite A. apply Hl1. intros [].
        * intros s2 (k' & Hk' & G1 & G2). exists (l ++ zseq (next_elem s) k').
          split; [split; [exact G1|split; [|apply Hfresh]]|right; exists k'; split; [exact Hk'|reflexivity]].
          rewrite (G2 value Hold). rewrite Hl1 by (intros []). exact Hlive. }
      (* shorter *)
      { assert (Hshrink : n < L) by lia.
        assert (E1 : (n <=? L) = true) by (apply Z.leb_le; lia). rewrite E1.
        pose proof (truncate_abs cfg Hcfg Htracked s v l n Hab Hn) as Ht. cbv zeta in Ht.
        assert (Hkeep : forall s1, only_changes s s1 (skipn (Z.to_nat n) l) -> ledger s1 value = Live).
        { intros s1 [_ Hl1]. rewrite Hl1; [exact Hlive|]. intros Hin. apply Hnot. eapply In_skipn. exact Hin. }
        assert (Hnf : ~ In value (firstn (Z.to_nat n) l)) by (intros Hin; apply Hnot; eapply In_firstn; exact Hin).
        eapply post_weaken; [exact Ht| |].
        * intros u s1 (G1 & G2 & G3). split; [split; [exact G1|split; [apply Hkeep; exact G3|exact Hnf]]|].
          split; [exact G2|exact (proj1 G3)].
        * intros s1 (G1 & G2 & G3). exists (firstn (Z.to_nat n) l).
          split; [split; [exact G1|split; [apply Hkeep; exact G3|exact Hnf]]|left; reflexivity]. }
    - (* normal exit: the argument is dropped *)
      intros u s1 H1.
      assert (Hdrop : forall l1, B s1 l1 ->
                post (drop_elem cfg value s1)
                  (fun _ s2 => vabs s2 v l1 /\ ledger s2 value = Dropped /\ only_changes s1 s2 [value] /\ payload s2 = payload s1)
                  (fun s2 => vabs s2 v l1 /\ ledger s2 value = Dropped /\ only_changes s1 s2 [value] /\ payload s2 = payload s1)).
      { intros l1 (A & B1 & C). exact (drop_value s1 v l1 value A B1 C). }
      destruct (n <=? L) eqn:E1.
      + destruct H1 as (HB & Hsk & Hnx). pose proof HB as (_ & _ & Hnf).
        eapply post_weaken; [exact (Hdrop _ HB)| |].
        * intros u' s2 (A & D & [On Ol] & _). split; [exact D|]. split; [exact A|]. split; [|lia].
          intros e He. rewrite Ol; [apply Hsk; exact He|]. intros [<-|[]]. apply Hnot. eapply In_skipn. exact He.
        * intros s2 (A & D & _). exists (firstn (Z.to_nat n) l). split; [exact A|left; reflexivity].
      + destruct H1 as (HB & Hnx & Hpay & Hled).
        eapply post_weaken; [exact (Hdrop _ HB)| |].
        * intros u' s2 (A & D & [On Ol] & Op). split; [exact D|]. split; [exact A|]. split; [lia|]. split.
          { intros j Hj. rewrite <- (Hpay j Hj). rewrite Op. reflexivity. }
          intros e He. rewrite Ol; [apply Hled; exact He|]. intros [<-|[]]. contradiction.
        * intros s2 (A & D & _). exists (l ++ zseq (next_elem s) (Z.to_nat (n - L))).
          split; [exact A|right; exists (Z.to_nat (n - L)); split; [lia|reflexivity]].
    - (* unwinding: the argument is dropped too *)
      intros s1 (l' & (A & B1 & C) & Hl').
      eapply post_weaken; [exact (vabs_drop_other cfg Htracked s1 v l' value A B1 C)| |auto].
      intros u s2 (A2 & _ & _). exists l'. split; [exact A2|exact Hl'].
  Qed.
  (* the premise of the translator tie EquivResize.resize_equiv: where resize_abs applies the body's loop
     never runs out of the machine's fuel *)
  Corollary resize_body_fuel s v l value n :
    vabs s v l -> ledger s value = Live -> value < next_elem s -> ~ In value l ->
    mem value (clone_panics s) = false ->
    0 <= n -> n - Z.of_nat (List.length l) <= 1000000 ->
    fst (resize_body cfg ncap v n value s) <> OutOfFuel.
  Proof.
    intros Hab Hlive Hold Hnot Hcp Hn Hsmall.
    pose proof (resize_abs s v l value n Hab Hlive Hold Hnot Hcp Hn Hsmall) as H. cbv zeta in H.
    unfold resize, try_finally in H.
    destruct (resize_body cfg ncap v n value s) as [[u| | | | |] s'] eqn:E; simpl; try discriminate.
    simpl in H. contradiction.
  Qed.
End Resize.
