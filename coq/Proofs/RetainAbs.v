(* Proofs/RetainAbs.v -- retain(pred) at list level: the vector becomes the sub-list of the elements
   the predicate accepted (in order), the rejected ones are destroyed exactly once; a predicate panic
   leaves a permutation of the original elements (nothing lost, nothing duplicated). *)
From Coq Require Import ZArith List Bool Lia Permutation.
From MV Require Import Ast Eval Scalar Machine.
From MV.Proofs Require Import Arith Logic Prim View OpsLocal Guards Grow CapHistory Drops Retain RetainSpec Sentinel Core Refine.
Import ListNotations.
Open Scope Z_scope.

Section RetainAbs.
  Variable cfg : tcfg.
  Hypothesis Hcfg : cfg_ok cfg.
  Hypothesis Htracked : needs_drop cfg = true.

  Local Notation vabs := (vabs cfg).

  Theorem retain_abs s v l sc :
    vabs s v l ->
    let '(k, j, p, u) := rspec l sc in
    post (retain cfg v sc s)
      (fun _ s' => p = false /\ vabs s' v k /\ (forall e, In e j -> ledger s' e = Dropped) /\
                   (forall e, ~ In e j -> ledger s' e = ledger s e) /\ next_elem s' = next_elem s)
      (fun s' => next_elem s' = next_elem s /\
                 ((p = true /\ exists l', Permutation l' l /\ vabs s' v l' /\ ledger s' = ledger s) \/
                  (p = false /\ vabs s' v k /\ (forall e, In e j -> ledger s' e = Dropped) /\
                   (forall e, ~ In e j -> ledger s' e = ledger s e)))).
  Proof.
    intros [[Hs ->]|(b & bl & Hv & Hb & Ho & Hl)].
    - simpl. rewrite (sn_retain cfg s v Hs sc). simpl.
      split; [reflexivity|]. split; [left; auto|]. split; [intros e []|]. split; auto.
    - pose proof (bo_len _ _ Hb) as Hlen.
      unfold retain.
      rewrite (bind_val _ _ _ _ _ (len_at cfg _ _ _ _ Hcfg Hv Hb)).
      destruct (as_ptr_at cfg _ _ _ _ Hcfg Hv Hb) as (off & Hco & Hp).
      rewrite (bind_val _ _ _ _ _ Hp).
      assert (Hseg0 : seg (slots bl) 0 (h_len bl - 0) = l) by (rewrite Z.sub_0_r, <- view_seg; exact Hl).
      assert (Hinv0 : rinv cfg s s v b bl (h_len bl) 0 0 [] []).
      { exists bl. split; [exact Hv|]. split; [exact Hb|].
        do 5 (split; [reflexivity|]). split; [exact (ow_init _ _ Ho)|].
        do 5 (split; [reflexivity|]). split; [intros b' _; reflexivity|].
        split; [apply seg_nil; lia|]. split; [rewrite seg_nil by lia; constructor|reflexivity]. }
      assert (Hlive0 : forall e, In e (view (slots bl) (h_len bl)) -> tracked cfg = false \/ ledger s e = Live).
      { intros e He. right. apply (ow_live _ _ Ho). exact He. }
      pose proof (retain_loop_fn cfg Hcfg v b bl (h_len bl) off s Hco Hlive0 (Z.to_nat (h_len bl)) s 0 0 sc [] [] Hinv0
                    ltac:(lia) ltac:(lia) ltac:(lia)) as Hloop.
      rewrite Hseg0 in Hloop. cbn [app] in Hloop.
      specialize (Hloop ltac:(rewrite <- Hl; reflexivity)).
      pose proof (rspec_perm l sc) as Hpart.
      destruct (rspec l sc) as [[[k j] p] u]. destruct Hpart as [Hpart Hnou].
      (* back from the loop invariant to an owned vector *)
      assert (Hback : forall s' r w, rinv cfg s s' v b bl (h_len bl) r w k j ->
                seg (slots bl) r (h_len bl - r) = u -> 0 <= w <= r -> r <= h_len bl ->
                exists bl', vec_at s' v b bl' /\ block_ok cfg bl' /\ owned s' bl' /\ h_len bl' = h_len bl /\
                            Permutation (velems bl') l /\ ledger s' = ledger s /\ next_elem s' = next_elem s /\
                            seg (slots bl') 0 w = k /\ Permutation (seg (slots bl') w (r - w)) j).
      { intros s' r w (bl' & Hv' & Hb' & Hl' & _ & _ & _ & _ & Hi' & Hled & Hnx & _ & _ & _ & _ & Hk' & Hr' & Hu') Hu Hw Hr.
        exists bl'. split; [exact Hv'|]. split; [exact Hb'|].
        assert (Hvel : Permutation (velems bl') l).
        { unfold velems. rewrite Hl'. rewrite view_seg.
          replace (h_len bl) with (w + ((r - w) + (h_len bl - r))) at 1 by lia.
          rewrite seg_app by lia. rewrite Z.add_0_l. rewrite seg_app by lia.
          replace (w + (r - w)) with r by lia. rewrite Hk', Hu', Hu.
          etransitivity; [|exact Hpart]. apply Permutation_app_head. apply Permutation_app_tail. exact Hr'. }
        split.
        { constructor.
          - rewrite Hl'. exact Hi'.
          - eapply Permutation_NoDup; [symmetry; exact Hvel|]. rewrite <- Hl. exact (ow_nodup _ _ Ho).
          - intros e He. rewrite Hled. apply (ow_live _ _ Ho). rewrite Hl. eapply Permutation_in; eassumption.
          - intros e He. rewrite Hnx. apply (ow_old _ _ Ho). rewrite Hl. eapply Permutation_in; eassumption. }
        split; [exact Hl'|]. split; [exact Hvel|]. split; [exact Hled|]. split; [exact Hnx|]. split; [exact Hk'|exact Hr']. }
      eapply post_bind.
      { eapply post_weaken; [exact Hloop|intros w s' H; exact H|].
        (* the predicate panicked: a permutation of the original elements *)
        intros s' (Hpp & r' & w' & Hb1' & Hb2' & Hi' & Hu').
        destruct (Hback s' r' w' Hi' Hu' Hb1' Hb2') as (bl' & G1 & G2 & G3 & G4 & G5 & G6 & G7 & _).
        split; [exact G7|]. left. split; [exact Hpp|].
        exists (velems bl'). split; [exact G5|]. split; [right; exists b, bl'; auto|exact G6]. }
      intros w s' (Hpp & Hw & Hi'). cbn [List.length app] in Hw. rewrite Z.add_0_l in Hw.
      assert (Hu0 : u = []) by (apply Hnou; exact Hpp). subst u.
      assert (Hwl : 0 <= w <= h_len bl).
      { pose proof (Permutation_length Hpart) as HL. rewrite !app_length in HL.
        pose proof (velems_length bl ltac:(lia)) as HL2. rewrite Hl in HL2.
        lia. }
      destruct (Hback s' (h_len bl) w Hi' ltac:(apply seg_nil; lia) ltac:(lia) ltac:(lia))
        as (bl' & G1 & G2 & G3 & G4 & G5 & G6 & G7 & G8 & G9).
      pose proof (bo_len _ _ G2) as Hlen'.
      assert (Hkl : Z.of_nat (List.length k) = w) by lia.
      (* kept = firstn w, rejected ~ skipn w of what the block holds now *)
      assert (Hfirst : firstn (Z.to_nat w) (velems bl') = k).
      { unfold velems. rewrite view_firstn by lia. rewrite view_seg. exact G8. }
      assert (Hskip : Permutation (skipn (Z.to_nat w) (velems bl')) j).
      { unfold velems. rewrite G4. rewrite <- (slice_elems_view (slots bl') w (h_len bl)) by lia.
        etransitivity; [|exact G9]. unfold slice_elems, seg. reflexivity. }
      destruct (Z.le_gt_cases (h_len bl') w) as [Hge|Hlt].
      + (* nothing rejected *)
        rewrite (truncate_noop cfg s' v (h_len bl') (len_at cfg s' v b bl' Hcfg G1 G2) w Hge). simpl.
        assert (Hj : j = []).
        { assert (skipn (Z.to_nat w) (velems bl') = []) by (apply skipn_all2; pose proof (velems_length bl' ltac:(lia)); lia).
          rewrite H in Hskip. apply Permutation_nil in Hskip. exact Hskip. }
        subst j. split; [exact Hpp|]. split.
        { right. exists b, bl'. split; [exact G1|]. split; [exact G2|]. split; [exact G3|].
          rewrite <- Hfirst. symmetry. apply firstn_all2. pose proof (velems_length bl' ltac:(lia)). lia. }
        split; [intros e []|]. split; [intros e _; rewrite G6; reflexivity|exact G7].
      + destruct (truncate_spec cfg Hcfg Htracked s' v b bl' w G1 G2 (ow_init _ _ G3) ltac:(lia) (ow_nodup _ _ G3) (ow_live _ _ G3))
          as (Hb'' & Hvel'' & Hpost).
        set (bl'' := with_hdr bl' w (h_cap bl') (h_align bl')) in *.
        assert (Hgoal : forall s'', vec_at s'' v b bl'' /\ destroyed (upd_block s' b bl'') s'' (skipn (Z.to_nat w) (velems bl')) ->
                  vabs s'' v k /\ (forall e, In e j -> ledger s'' e = Dropped) /\
                  (forall e, ~ In e j -> ledger s'' e = ledger s e) /\ next_elem s'' = next_elem s).
        { intros s'' [Hv'' Hd]. split; [|split; [|split]].
          - right. exists b, bl''. split; [exact Hv''|]. split; [exact Hb''|]. split; [|rewrite Hvel''; exact Hfirst].
            eapply owned_transfer with (s := s') (bl := bl'); try exact G3.
            + simpl. lia.
            + simpl. intros i Hi. apply (ow_init _ _ G3). lia.
            + rewrite Hvel''. apply NoDup_firstn. exact (ow_nodup _ _ G3).
            + intros e He. rewrite Hvel'' in He. eapply In_firstn. exact He.
            + intros e He. rewrite Hvel'' in He.
              rewrite (ds_out _ _ _ Hd) by (apply firstn_skipn_disjoint; [exact (ow_nodup _ _ G3)|exact He]). reflexivity.
            + rewrite (ds_next _ _ _ Hd). simpl. lia.
          - intros e He. apply (ds_in _ _ _ Hd). eapply Permutation_in; [symmetry; exact Hskip|exact He].
          - intros e He. rewrite (ds_out _ _ _ Hd); [simpl; rewrite G6; reflexivity|].
            intros Hin. apply He. eapply Permutation_in; [exact Hskip|exact Hin].
          - rewrite (ds_next _ _ _ Hd). simpl. exact G7. }
        eapply post_weaken; [exact Hpost| |].
        * intros u0 s'' H. split; [exact Hpp|]. apply Hgoal. exact H.
        * intros s'' H. destruct (Hgoal s'' H) as (A & B & C & D). split; [exact D|]. right. split; [exact Hpp|]. auto.
  Qed.
End RetainAbs.
