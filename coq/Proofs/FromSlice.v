(* Proofs/FromSlice.v -- END TO END for `impl From<&[T]> for MiniVec<T>`: the regenerated body
   (`MiniVec::with_capacity(s.len())`, then the `for` loop pushing a clone of every element; tied in
   EquivExtSlice.from_slice_equiv) gives a NEW vector holding one new element per source element, in
   order, each with its source's payload (T::clone ran once per element); the sources and everything that
   existed before are untouched. *)
From Coq Require Import ZArith List Bool Lia.
From MV Require Import Ast Eval Scalar Machine EquivDefs Prims EquivExtSlice.
From MV.Gen Require Import AstGen.
From MV.Proofs Require Import Arith Logic Prim View OpsLocal Guards Grow CapHistory Drops Retain Sentinel Core Refine Clone Extend CloneSlice.
Import ListNotations.
Open Scope Z_scope.

Section FromSlice.
  Variable cfg : tcfg.
  Variable ncap : Z -> option Z.
  Hypothesis Hcfg : cfg_ok cfg.
  Hypothesis Hpol : policy_ok ncap.
  Hypothesis Htracked : needs_drop cfg = true.

  (* naming a new never-allocated vector changes the names only *)
  Lemma new_vec_quiet s o :
    exists s1, new_vec cfg o s = (Val tt, s1) /\ vec_sentinel s1 o /\
               ledger s1 = ledger s /\ next_elem s1 = next_elem s /\
               clone_panics s1 = clone_panics s /\ payload s1 = payload s.
  Proof.
    unfold new_vec. assert (E : (esz cfg =? 0) = false) by (destruct Hcfg as ((He & _) & _); apply Z.eqb_neq; lia). rewrite E.
    eexists. split; [reflexivity|]. simpl. split; [apply list_put_same|]. repeat split.
  Qed.

  Theorem from_slice_body_abs s src :
    cloneable s src ->
    post (from_slice_body cfg ncap src s)
      (fun w s' =>
         w = List.length (vecs s) /\
         vabs cfg s' w (zseq (next_elem s) (List.length src)) /\
         next_elem s' = next_elem s + Z.of_nat (List.length src) /\
         (forall e, e < next_elem s -> ledger s' e = ledger s e /\ payload s' e = payload s e) /\
         (forall j, (j < List.length src)%nat -> payload s' (next_elem s + Z.of_nat j) = payload s (nth j src 0)))
      (fun s' => forall e, e < next_elem s -> ledger s' e = ledger s e).
  Proof.
    intros Hcl.
    unfold from_slice_body, with_capacity_body, new_obj. cbv [bind get ret].
    set (w := List.length (vecs s)).
    destruct (new_vec_quiet s w) as (s1 & Hn & Hsen & Hled & Hnext & Hcp & Hpay).
    rewrite Hn.
    assert (Hab1 : vabs cfg s1 w []) by (left; split; [exact Hsen|reflexivity]).
    pose proof (capop_abs cfg ncap Hcfg Hpol s1 w [] (CReserveExact (Z.of_nat (List.length src))) Hab1 ltac:(simpl; lia)) as HR.
    cbn [run_capop] in HR.
    destruct (reserve_exact cfg w (Z.of_nat (List.length src)) s1) as [[u| | | | |] s2]; simpl in HR |- *; try tauto.
    2:{ subst s2. intros e He. rewrite Hled. reflexivity. }
    destruct HR as (Hab2 & [Hn2 Hl2] & (Hq1 & Hq2 & Hq3)).
    assert (Hcl2 : cloneable s2 src).
    { intros e He. destruct (Hcl e He) as (A & B & C). split; [rewrite Hl2 by (intros []); rewrite Hled; exact A|].
      split; [rewrite Hn2, Hnext; exact B|rewrite Hq2, Hcp; exact C]. }
    pose proof (push_clones_abs cfg ncap Hcfg Hpol Htracked src s2 w [] Hab2 Hcl2) as HP.
    cbn [app] in HP. rewrite Hn2, Hnext in HP.
    destruct (push_clones cfg ncap w src s2) as [[u'| | | | |] s3]; simpl in HP |- *; try tauto.
    - destruct HP as (Hab3 & Hn3 & Hold3 & Hpay3 & _).
      split; [reflexivity|]. split; [exact Hab3|]. split; [exact Hn3|]. split.
      + intros e He. destruct (Hold3 e He) as [A B]. split.
        * rewrite A. rewrite Hl2 by (intros []). rewrite Hled. reflexivity.
        * rewrite B. rewrite Hq1, Hpay. reflexivity.
      + intros j Hj. rewrite (Hpay3 j Hj). rewrite Hq1, Hpay. reflexivity.
    - destruct HP as (k & _ & _ & Hl3). intros e He. rewrite (Hl3 e He). rewrite Hl2 by (intros []). rewrite Hled. reflexivity.
  Qed.

  Theorem from_slice_source s src F :
    cloneable s src -> (List.length src <= F)%nat ->
    match run_from_slice cfg ncap (FUEL + F) src s with
    | (Norm r, s') =>
        r = VObj (List.length (vecs s)) /\
        vabs cfg s' (List.length (vecs s)) (zseq (next_elem s) (List.length src)) /\
        next_elem s' = next_elem s + Z.of_nat (List.length src) /\
        (forall e, e < next_elem s -> ledger s' e = ledger s e /\ payload s' e = payload s e) /\
        (forall j, (j < List.length src)%nat -> payload s' (next_elem s + Z.of_nat j) = payload s (nth j src 0))
    | (Panic, s') => forall e, e < next_elem s -> ledger s' e = ledger s e
    | (Fail FAbort, _) | (Fail (FAllocAbort _ _), _) => True
    | _ => False
    end.
  Proof.
    intros Hcl HF. rewrite from_slice_equiv by exact HF.
    pose proof (from_slice_body_abs s src Hcl) as H.
    unfold lift_m. destruct (from_slice_body cfg ncap src s) as [[w| | | | |] s']; simpl in *; try tauto.
    destruct H as (-> & H). split; [reflexivity|exact H].
  Qed.
End FromSlice.
