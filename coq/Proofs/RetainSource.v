(* Proofs/RetainSource.v -- the two halves joined for `retain`: the REGENERATED body of MiniVec::retain,
   evaluated by the IR semantics in the machine world (EquivRetain.run_retain), meets the list-level
   specification -- for every vector that owns its elements, every predicate script and every fuel at
   least the length: on return the vector is the accepted sub-list in order and the rejected elements
   have been destroyed exactly once; when the predicate (or a destructor in the final truncate) panics
   the outcome is Panic and the vector is a permutation of / the filtered contents.  No outcome other
   than return or panic is possible (no undefined behaviour, no stuck IR construct, no fuel problem). *)
From Coq Require Import ZArith List Bool Lia Permutation.
From MV Require Import Ast Eval Scalar Machine EquivDefs Prims EquivRetain.
From MV.Proofs Require Import Arith Logic Prim View OpsLocal Guards Grow CapHistory Drops Retain RetainSpec Sentinel Core Refine RetainAbs Resize.
Import ListNotations.
Open Scope Z_scope.

Section RetainSource.
  Variable cfg : tcfg.
  Variable ncap : Z -> option Z.
  Hypothesis Hcfg : cfg_ok cfg.
  Hypothesis Htracked : needs_drop cfg = true.

  Lemma esz_pos : 0 < esz cfg.
  Proof. destruct Hcfg as ((He & _) & _). lia. Qed.

  Lemma vabs_shape s v l : vabs cfg s v l -> shape_ok cfg v s.
  Proof.
    intros Hab l' s1 d s2 Hl Hp.
    destruct Hab as [[Hs ->]|(b & bl & Hv & Hb & Ho & Hvl)].
    - rewrite (sn_len s v Hs) in Hl. inversion Hl; subst.
      rewrite (sn_as_ptr cfg s1 v Hs) in Hp. inversion Hp; subst. right. split; [reflexivity|lia].
    - rewrite (len_at cfg s v b bl Hcfg Hv Hb) in Hl. inversion Hl; subst.
      destruct (as_ptr_at cfg s1 v b bl Hcfg Hv Hb) as (off & _ & Hp'). rewrite Hp' in Hp. inversion Hp; subst.
      left. exists b, off. split; [reflexivity|]. pose proof (bo_len _ _ Hb). lia.
  Qed.

  Theorem retain_source_meets_the_list_spec kind s v l sc F :
    vabs cfg s v l -> (List.length l <= F)%nat ->
    let '(k, j, p, u) := rspec l sc in
    match run_retain cfg ncap kind (FUEL + F) v sc s with
    | (Norm _, s') =>
        p = false /\ vabs cfg s' v k /\ (forall e, In e j -> ledger s' e = Dropped) /\
        (forall e, ~ In e j -> ledger s' e = ledger s e) /\ next_elem s' = next_elem s
    | (Panic, s') =>
        next_elem s' = next_elem s /\
        ((p = true /\ exists l', Permutation l' l /\ vabs cfg s' v l' /\ ledger s' = ledger s) \/
         (p = false /\ vabs cfg s' v k /\ (forall e, In e j -> ledger s' e = Dropped) /\
          (forall e, ~ In e j -> ledger s' e = ledger s e)))
    | (Fail FAbort, _) | (Fail (FAllocAbort _ _), _) => True      (* a second panic while unwinding / allocation failure *)
    | _ => False
    end.
  Proof.
    intros Hab HF.
    rewrite (retain_equiv cfg ncap esz_pos kind v sc s F (vabs_shape s v l Hab)).
    2:{ intros l' s1 Hl. rewrite (vabs_len cfg Hcfg s v l Hab) in Hl. inversion Hl; subst. lia. }
    pose proof (retain_abs cfg Hcfg Htracked s v l sc Hab) as H.
    destruct (rspec l sc) as [[[k j] p] u].
    unfold lift_m. destruct (retain cfg v sc s) as [[a| | | | |] s']; simpl in *; auto.
  Qed.
End RetainSource.
