(* Proofs/Align.v -- powers of two, alignment of the element storage (C08), with_alignment's
   acceptance rule (C08), and the raw-pointer round trip (C14). *)
From Coq Require Import ZArith List Bool Lia.
From MV Require Import Ast Eval Scalar Machine.
From MV.Proofs Require Import Arith Logic Prim View OpsLocal Grow CapHistory.
Import ListNotations.
Open Scope Z_scope.

(* is_pow2 (a > 0 and a land (a-1) = 0) is "a = 2^k" *)
Lemma is_pow2_spec a : is_pow2 a = true <-> exists k, 0 <= k /\ a = 2 ^ k.
Proof.
  unfold is_pow2. split.
  - intros H. apply andb_true_iff in H. destruct H as [Hpos Hland].
    apply Z.ltb_lt in Hpos. apply Z.eqb_eq in Hland.
    exists (Z.log2 a). split; [apply Z.log2_nonneg|].
    destruct (Z.log2_spec a Hpos) as [Hlo Hhi].
    destruct (Z.eq_dec a (2 ^ Z.log2 a)) as [E|N]; [exact E|exfalso].
    assert (Hgt : 2 ^ Z.log2 a <= a - 1) by lia.
    assert (Hlog : Z.log2 (a - 1) = Z.log2 a).
    { apply Z.log2_unique; [apply Z.log2_nonneg|]. split; [exact Hgt|]. lia. }
    assert (B1 : Z.testbit a (Z.log2 a) = true) by (apply Z.bit_log2; lia).
    assert (B2 : Z.testbit (a - 1) (Z.log2 a) = true).
    { rewrite <- Hlog. apply Z.bit_log2. pose proof (Z.pow_pos_nonneg 2 (Z.log2 a) ltac:(lia) (Z.log2_nonneg a)). lia. }
    assert (B : Z.testbit (Z.land a (a - 1)) (Z.log2 a) = true) by (rewrite Z.land_spec, B1, B2; reflexivity).
    rewrite Hland in B. rewrite Z.bits_0 in B. discriminate.
  - intros (k & Hk & ->). apply andb_true_iff. split.
    + apply Z.ltb_lt. apply Z.pow_pos_nonneg; lia.
    + apply Z.eqb_eq. apply Z.bits_inj'. intros n Hn. rewrite Z.land_spec, Z.bits_0.
      destruct (Z.eq_dec n k) as [->|Nk].
      * rewrite Z.pow2_bits_true by lia.
        replace (2 ^ k - 1) with (Z.ones k) by (rewrite Z.ones_equiv; lia).
        rewrite Z.ones_spec_high by lia. reflexivity.
      * rewrite Z.pow2_bits_false by lia. reflexivity.
Qed.

(* a smaller power of two divides a larger one *)
Lemma pow2_divides a b : is_pow2 a = true -> is_pow2 b = true -> a <= b -> b mod a = 0.
Proof.
  intros Ha Hb Hle. apply is_pow2_spec in Ha. apply is_pow2_spec in Hb.
  destruct Ha as (j & Hj & ->). destruct Hb as (k & Hk & ->).
  assert (j <= k) by (apply (Z.pow_le_mono_r_iff 2); lia).
  replace k with ((k - j) + j) by lia. rewrite Z.pow_add_r by lia.
  apply Z.mod_mul. apply Z.pow_nonzero; lia.
Qed.

Lemma mod_mod_divides x a b : 0 < a -> b mod a = 0 -> x mod b = 0 -> x mod a = 0.
Proof.
  intros Ha Hb Hx.
  destruct (Z.eq_dec b 0) as [->|Nb].
  { rewrite Zmod_0_r in Hx. subst. apply Z.mod_0_l. lia. }
  apply Z.mod_divide in Hb; [|lia]. apply Z.mod_divide in Hx; [|lia].
  apply Z.mod_divide; [lia|]. eapply Z.divide_trans; eassumption.
Qed.

Section Align.
  Variable cfg : tcfg.
  Variable ncap : Z -> option Z.
  Hypothesis Hcfg : cfg_ok cfg.

  (* C08: whatever address the allocator returns for the block (a multiple of the block's
     alignment), element 0 is at a multiple of align_of::<T>() and of the stored alignment *)
  Lemma storage_aligned bl base :
    block_ok cfg bl -> base mod (b_align bl) = 0 ->
    exists off, canon_off bl = Some off /\
                (base + off) mod (h_align bl) = 0 /\ (base + off) mod (ealign cfg) = 0 /\
                max_align cfg <= h_align bl.
  Proof.
    intros Hb Hbase. pose proof Hb as [Hl Ha Hp Hm Hlen Hc Hlay].
    pose proof (is_pow2_pos _ Hp) as Hpos.
    destruct Hcfg as ((He & _) & Hpe & _).
    pose proof Hlay as Hlay'. apply make_layout_some in Hlay'; try lia.
    destruct Hlay' as (_ & _ & _ & off & Hoff & H24 & Hmod & _ & _).
    exists off. unfold canon_off. rewrite <- Ha. split; [exact Hoff|].
    rewrite <- Ha in Hbase.
    assert (Hsum : (base + off) mod h_align bl = 0).
    { rewrite Z.add_mod by lia. rewrite Hbase, Hmod. reflexivity. }
    split; [exact Hsum|]. split; [|exact Hm].
    assert (Hea : ealign cfg <= h_align bl) by (unfold max_align in Hm; lia).
    eapply mod_mod_divides; [apply is_pow2_pos; exact Hpe| |exact Hsum].
    apply pow2_divides; assumption.
  Qed.

  (* with_alignment accepts exactly the powers of two >= max(align_of T, align_of usize), and
     reports the others through its error result: it panics only on an unrepresentable size *)
  Lemma with_alignment_spec s v c a :
    0 <= c < W64 -> 0 <= a < W64 -> esz cfg <> 0 ->
    post (with_alignment cfg v c a s)
      (fun r s' =>
         (r = 1 /\ a < max_align cfg /\ s' = s) \/
         (r = 2 /\ max_align cfg <= a /\ is_pow2 a = false /\ s' = s) \/
         (r = 0 /\ max_align cfg <= a /\ is_pow2 a = true /\
          exists s1, vec_sentinel s1 v /\ heap s1 = heap s /\
            ((c = 0 /\ a = max_align cfg /\ s' = s1) \/
             exists size, make_layout cfg c a = Some (size, a) /\
                block_ok cfg (fresh_block size a 0 c a) /\ allocated s1 s' v (fresh_block size a 0 c a))))
      (fun s' => is_pow2 a = true /\ max_align cfg <= a /\ make_layout cfg c a = None).
  Proof.
    intros Hc Ha He. unfold with_alignment.
    destruct (Z.ltb_spec a (max_align cfg)) as [L|L]. { simpl. left. auto. }
    destruct (is_pow2 a) eqn:Ep; cbn [negb].
    2:{ simpl. right. left. auto. }
    unfold new_vec. destruct (Z.eqb_spec (esz cfg) 0); [contradiction|].
    set (s1 := {| heap := heap s; vecs := list_put None (vecs s) v (Some Sentinel); iters := iters s;
                  ledger := ledger s; payload := payload s; next_elem := next_elem s;
                  drop_panics := drop_panics s; clone_panics := clone_panics s;
                  alloc_fail := alloc_fail s; alloc_limit := alloc_limit s; events := events s |}).
    assert (Hs1 : set_handle v (Some Sentinel) s = (Val tt, s1)) by reflexivity.
    rewrite (bind_val _ _ _ _ _ Hs1).
    assert (Hv1 : vec_sentinel s1 v) by (unfold vec_sentinel; simpl; apply list_put_same).
    eapply post_bind.
    { eapply post_on_unwind.
      - apply (grow_sentinel cfg ncap Hcfg s1 v c a Hv1 Hc Ep L).
      - intros s' [_ H]. simpl. split; [reflexivity|]. split; assumption. }
    intros u s' Hg. simpl. right. right. split; [reflexivity|]. split; [assumption|]. split; [reflexivity|].
    exists s1. split; [assumption|]. split; [reflexivity|].
    destruct Hg as [(E1 & E2 & ->)|(size & H1 & H2 & H3)].
    - left. repeat split; [assumption|lia].
    - right. exists size. auto.
  Qed.

  (* C14: from_raw_part(s) rebuilds the same handle exactly when the header distance computed
     from align_of::<T>() equals the one computed from the stored alignment *)
  Lemma into_raw_parts_at s v b bl :
    vec_at s v b bl -> block_ok cfg bl ->
    exists off, canon_off bl = Some off /\ data_offset (h_align bl) = Some off /\
                into_raw_parts cfg v s = (Val (PElt b off 0, h_len bl, h_cap bl), s).
  Proof.
    intros Hv Hb. destruct (as_ptr_at cfg _ _ _ _ Hcfg Hv Hb) as (off & Hco & Hp).
    destruct (block_ok_off cfg bl Hcfg Hb) as (off' & Hco' & Hdo & _ & _).
    rewrite Hco in Hco'. inversion Hco'; subst off'.
    exists off. split; [exact Hco|]. split; [exact Hdo|]. unfold into_raw_parts.
    rewrite (bind_val _ _ _ _ _ Hp).
    rewrite (bind_val _ _ _ _ _ (len_at cfg _ _ _ _ Hcfg Hv Hb)).
    rewrite (bind_val _ _ _ _ _ (capacity_at cfg _ _ _ _ Hcfg Hv Hb)). reflexivity.
  Qed.

  Lemma debug_nonnull s b off i :
    (if release cfg then ret tt else match PElt b off i with PNull => panic | _ => ret tt end) s = (Val tt, s).
  Proof. destruct (release cfg); reflexivity. Qed.

  Lemma from_raw_part_at s b off i a :
    next_aligned HEADER_SIZE (ealign cfg) = Some a ->
    from_raw_part cfg (PElt b off i) s = (Val (At b (off + i * esz cfg - a)), s).
  Proof.
    intros H. unfold from_raw_part. rewrite (bind_val _ _ _ _ _ (debug_nonnull s b off i)).
    rewrite H. rewrite lift_opt_some, bind_ret. unfold byte_of. rewrite bind_ret. reflexivity.
  Qed.

  Lemma raw_roundtrip_same s v b bl three :
    vec_at s v b bl -> block_ok cfg bl ->
    next_aligned HEADER_SIZE (ealign cfg) = next_aligned HEADER_SIZE (h_align bl) ->
    raw_roundtrip cfg v three s = (Val (h_len bl, h_cap bl), s).
  Proof.
    intros Hv Hb Heq. unfold raw_roundtrip.
    destruct (into_raw_parts_at s v b bl Hv Hb) as (off & Hco & Hdo & Hir).
    rewrite (bind_val _ _ _ _ _ Hir).
    unfold data_offset in Hdo.
    assert (Hset : set_handle v (Some (At b 0)) s = (Val tt, s)).
    { unfold set_handle, bind, get, set_vecs. simpl. f_equal. destruct s; simpl. f_equal.
      destruct Hv as [Hv0 _]. simpl in Hv0. clear - Hv0.
      revert v Hv0. induction vecs as [|x l IH]; intros [|v] H; simpl in *; try discriminate.
      - inversion H; reflexivity.
      - f_equal. apply IH. exact H. }
    assert (Hh : forall (m : M handle), m = (if three then from_raw_parts cfg (PElt b off 0) (h_len bl) (h_cap bl) else from_raw_part cfg (PElt b off 0)) ->
                 m s = (Val (At b 0), s)).
    { intros m ->. destruct three.
      - unfold from_raw_parts. rewrite (bind_val _ _ _ _ _ (debug_nonnull s b off 0)).
        rewrite Heq, Hdo. rewrite lift_opt_some, bind_ret. unfold byte_of. rewrite bind_ret. cbn [fst snd].
        replace (off + 0 * esz cfg - off) with 0 by lia.
        destruct (release cfg).
        + rewrite !bind_ret. reflexivity.
        + rewrite bind_assoc. rewrite (bind_val _ _ _ _ _ (hdr_block_at cfg _ _ _ _ Hcfg Hv Hb)). cbn [snd].
          rewrite Z.eqb_refl. rewrite bind_ret.
          rewrite bind_assoc. rewrite (bind_val _ _ _ _ _ (hdr_block_at cfg _ _ _ _ Hcfg Hv Hb)). cbn [snd].
          rewrite Z.eqb_refl. rewrite bind_ret. reflexivity.
      - unfold from_raw_part. rewrite (bind_val _ _ _ _ _ (debug_nonnull s b off 0)).
        rewrite Heq, Hdo. rewrite lift_opt_some, bind_ret. unfold byte_of. rewrite bind_ret. cbn [fst snd].
        replace (off + 0 * esz cfg - off) with 0 by lia. reflexivity. }
    rewrite (bind_val _ _ _ _ _ (Hh _ eq_refl)).
    rewrite (bind_val _ _ _ _ _ Hset). reflexivity.
  Qed.

  (* ... and when the two distances differ the rebuilt handle points `d` bytes off the block start:
     every later header access is undefined behaviour (the known finding D10) *)
  Lemma raw_roundtrip_off s v b bl a1 a2 :
    vec_at s v b bl -> block_ok cfg bl ->
    next_aligned HEADER_SIZE (ealign cfg) = Some a1 -> next_aligned HEADER_SIZE (h_align bl) = Some a2 ->
    a1 <> a2 ->
    exists s', raw_roundtrip cfg v false s = (Val (h_len bl, h_cap bl), s') /\
               nth_error (vecs s') v = Some (Some (At b (a2 - a1))) /\
               len v s' = (UB MisplacedHeader, s').
  Proof.
    intros Hv Hb H1 H2 Hne. unfold raw_roundtrip.
    destruct (into_raw_parts_at s v b bl Hv Hb) as (off & Hco & Hdo & Hir).
    rewrite (bind_val _ _ _ _ _ Hir).
    unfold data_offset in Hdo. rewrite H2 in Hdo. inversion Hdo; subst off.
    cbv beta iota. rewrite (bind_val _ _ _ _ _ (from_raw_part_at s b a2 0 a1 H1)).
    replace (a2 + 0 * esz cfg - a1) with (a2 - a1) by lia.
    eexists. split; [reflexivity|]. simpl. split; [apply list_put_same|].
    unfold len, vec_handle, bind. cbn [vecs]. rewrite list_put_same. cbn [hdr_block].
    destruct (Z.eqb_spec (a2 - a1) 0); [lia|reflexivity].
  Qed.
End Align.
