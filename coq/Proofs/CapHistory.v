(* Proofs/CapHistory.v -- the capacity family over ALL sequences of capacity operations on a
   vector (induction over the operation list): from any state in which the vector is either
   never-allocated or owns a block satisfying the layout invariant, every operation sequence
   keeps that invariant, never reaches undefined behaviour (in particular never quotes a wrong
   layout to the allocator) and never hangs. *)
From Coq Require Import ZArith List Bool Lia.
From MV Require Import Ast Eval Scalar Machine.
From MV.Proofs Require Import Arith Logic Prim View OpsLocal Grow.
Import ListNotations.
Open Scope Z_scope.

Section CapHistory.
  Variable cfg : tcfg.
  Variable ncap : Z -> option Z.
  Hypothesis Hcfg : cfg_ok cfg.
  Hypothesis Hpol : policy_ok ncap.

  (* the vector is well-formed: never allocated, or the handle of a block with the layout invariant *)
  Definition vec_ok (s : state) (v : nat) : Prop :=
    vec_sentinel s v \/ exists b bl, vec_at s v b bl /\ block_ok cfg bl.

  Lemma moved_vec_at s s' v b nbl : moved s s' v b nbl -> vec_at s' v (List.length (heap s)) nbl.
  Proof.
    intros [Hh Hv _]. split.
    - rewrite Hv. apply list_put_same.
    - rewrite Hh. rewrite <- (list_set_length (heap s) b (kill (nth b (heap s) nbl))). apply nth_error_snoc.
  Qed.

  Lemma allocated_vec_at s s' v nbl : allocated s s' v nbl -> vec_at s' v (List.length (heap s)) nbl.
  Proof.
    intros [Hh Hv _]. split.
    - rewrite Hv. apply list_put_same.
    - rewrite Hh. apply nth_error_snoc.
  Qed.

  (* frames: a vector that moves to a fresh block, or obtains its first one, leaves every other
     block and every other handle exactly as they were, and the fresh block's index is new *)
  Lemma moved_frame s s' v b nbl : moved s s' v b nbl ->
    (forall b', b' <> b -> (b' < List.length (heap s))%nat -> nth_error (heap s') b' = nth_error (heap s) b') /\
    (forall w, w <> v -> flat (nth_error (vecs s') w) = flat (nth_error (vecs s) w)) /\
    List.length (heap s') = S (List.length (heap s)).
  Proof.
    intros [Hh Hv _]. split; [|split].
    - intros b' Hne Hlt. rewrite Hh. rewrite nth_error_app1 by (rewrite list_set_length; exact Hlt).
      apply list_set_other. congruence.
    - intros w Hw. rewrite Hv. apply list_put_other. congruence.
    - rewrite Hh, app_length, list_set_length. simpl. lia.
  Qed.

  Lemma allocated_frame s s' v nbl : allocated s s' v nbl ->
    (forall b', (b' < List.length (heap s))%nat -> nth_error (heap s') b' = nth_error (heap s) b') /\
    (forall w, w <> v -> flat (nth_error (vecs s') w) = flat (nth_error (vecs s) w)) /\
    List.length (heap s') = S (List.length (heap s)).
  Proof.
    intros [Hh Hv _]. split; [|split].
    - intros b' Hlt. rewrite Hh. apply nth_error_app1. exact Hlt.
    - intros w Hw. rewrite Hv. apply list_put_other. congruence.
    - rewrite Hh, app_length. simpl. lia.
  Qed.

  Lemma max_align_pow2 : is_pow2 (max_align cfg) = true.
  Proof.
    destruct Hcfg as (_ & Hp & _). unfold max_align, HEADER_ALIGN.
    destruct (Z.max_spec (ealign cfg) 8) as [[_ ->]|[_ ->]]; [reflexivity|exact Hp].
  Qed.

  (* capacity operations on the sentinel *)
  Lemma sentinel_basics s v : vec_sentinel s v ->
    len v s = (Val 0, s) /\ capacity v s = (Val 0, s) /\ alignment cfg v s = (Val (max_align cfg), s).
  Proof.
    intros Hv.
    assert (Hh : vec_handle v s = (Val Sentinel, s)) by (unfold vec_handle; rewrite Hv; reflexivity).
    repeat split; [unfold len|unfold capacity|unfold alignment]; rewrite (bind_val _ _ _ _ _ Hh); reflexivity.
  Qed.

  Lemma grow_sentinel_ok s v c :
    vec_sentinel s v -> 0 <= c < W64 ->
    post (grow cfg v c (max_align cfg) s) (fun _ s' => vec_ok s' v) (fun s' => s' = s).
  Proof.
    intros Hv Hc.
    eapply post_weaken; [apply (grow_sentinel cfg ncap Hcfg s v c (max_align cfg) Hv Hc max_align_pow2); lia | |].
    - intros _ s' [(_ & _ & ->)|(size & _ & Hb & Ha)]; [left; assumption|].
      right. eexists. eexists. split; [eapply allocated_vec_at; exact Ha|exact Hb].
    - intros s' [-> _]. reflexivity.
  Qed.

  Lemma reserve_ok s v n : vec_ok s v -> 0 <= n ->
    post (reserve cfg ncap v n s) (fun _ s' => vec_ok s' v) (fun s' => s' = s).
  Proof.
    intros [Hs|(b & bl & Hv & Hb)] Hn.
    - destruct (sentinel_basics s v Hs) as (Hl & Hc & Ha). unfold reserve.
      rewrite (bind_val _ _ _ _ _ Hc), (bind_val _ _ _ _ _ Hl).
      unfold add_m, add_u. cbv zeta. rewrite Z.add_0_l.
      destruct (Z.ltb_spec n W64); [|simpl; reflexivity].
      rewrite lift_opt_some, bind_ret.
      destruct (Z.leb_spec n 0). { simpl. left. assumption. }
      destruct (ncap 0) as [c1|] eqn:E1; [|simpl; reflexivity].
      rewrite lift_opt_some, bind_ret.
      destruct (Hpol 0 c1 ltac:(lia) E1) as (H1 & H2 & H3).
      assert (Hpow : n < c1 * 2 ^ Z.of_nat 130).
      { assert (W64 <= 2 ^ Z.of_nat 130) by (rewrite W64_val; vm_compute; discriminate). nia. }
      eapply post_bind; [apply (reserve_loop_spec ncap 130 c1 n s Hpol H1 Hpow)|].
      intros nc s' (-> & Hx & Hy & Hz & Hw).
      rewrite (bind_val _ _ _ _ _ Ha).
      apply grow_sentinel_ok; [assumption|]. destruct Hw; lia.
    - eapply post_weaken; [apply (reserve_at cfg ncap Hcfg s v b bl n Hpol Hv Hb Hn)| |auto].
      intros _ s' [[_ ->]|[_ (c & size & _ & _ & _ & Hb' & Hm)]].
      + right. eauto.
      + right. eexists. eexists. split; [eapply moved_vec_at; exact Hm|exact Hb'].
  Qed.

  Lemma reserve_exact_ok s v n : vec_ok s v -> 0 <= n ->
    post (reserve_exact cfg v n s) (fun _ s' => vec_ok s' v) (fun s' => s' = s).
  Proof.
    intros [Hs|(b & bl & Hv & Hb)] Hn.
    - destruct (sentinel_basics s v Hs) as (Hl & Hc & Ha). unfold reserve_exact.
      rewrite (bind_val _ _ _ _ _ Hc), (bind_val _ _ _ _ _ Hl).
      unfold add_m, add_u. cbv zeta. rewrite Z.add_0_l.
      destruct (Z.ltb_spec n W64); [|simpl; reflexivity].
      rewrite lift_opt_some, bind_ret.
      destruct (Z.leb_spec n 0). { simpl. left. assumption. }
      rewrite (bind_val _ _ _ _ _ Ha).
      apply grow_sentinel_ok; [assumption|lia].
    - eapply post_weaken; [apply (reserve_exact_at cfg ncap Hcfg s v b bl n Hv Hb Hn)| |auto].
      intros _ s' [[_ ->]|[_ (size & _ & Hb' & Hm)]].
      + right. eauto.
      + right. eexists. eexists. split; [eapply moved_vec_at; exact Hm|exact Hb'].
  Qed.

  Lemma shrink_to_fit_ok s v : vec_ok s v ->
    post (shrink_to_fit cfg v s) (fun _ s' => vec_ok s' v) (fun s' => s' = s).
  Proof.
    intros [Hs|(b & bl & Hv & Hb)].
    - destruct (sentinel_basics s v Hs) as (Hl & Hc & Ha). unfold shrink_to_fit.
      rewrite (bind_val _ _ _ _ _ Hl), (bind_val _ _ _ _ _ Hc). simpl. left. assumption.
    - eapply post_weaken; [apply (shrink_to_fit_at cfg ncap Hcfg s v b bl Hv Hb)| |auto].
      intros _ s' [[_ ->]|[_ (size & _ & Hb' & Hm)]].
      + right. eauto.
      + right. eexists. eexists. split; [eapply moved_vec_at; exact Hm|exact Hb'].
  Qed.

  Lemma shrink_to_ok s v m : vec_ok s v -> 0 <= m ->
    post (shrink_to cfg v m s) (fun _ s' => vec_ok s' v) (fun s' => s' = s).
  Proof.
    intros [Hs|(b & bl & Hv & Hb)] Hm.
    - destruct (sentinel_basics s v Hs) as (Hl & Hc & Ha). unfold shrink_to.
      rewrite (bind_val _ _ _ _ _ Hl), (bind_val _ _ _ _ _ Hc).
      destruct (Z.ltb_spec m 0); [lia|].
      destruct (Z.eqb_spec 0 m). { simpl. left. assumption. }
      destruct (Z.ltb_spec 0 m); [simpl; reflexivity|lia].
    - eapply post_weaken; [apply (shrink_to_at cfg ncap Hcfg s v b bl m Hv Hb Hm)| |auto].
      intros _ s' (_ & [[-> _]|(c & size & _ & _ & _ & Hb' & Hmv)]).
      + right. eauto.
      + right. eexists. eexists. split; [eapply moved_vec_at; exact Hmv|exact Hb'].
  Qed.

  (* sequences *)
  Inductive capop :=
  | CReserve (n : Z) | CReserveExact (n : Z) | CShrinkToFit | CShrinkTo (m : Z).

  Definition cap_arg_ok (o : capop) : Prop :=
    match o with CReserve n | CReserveExact n | CShrinkTo n => 0 <= n | CShrinkToFit => True end.

  Definition run_capop (v : nat) (o : capop) : M unit :=
    match o with
    | CReserve n => reserve cfg ncap v n
    | CReserveExact n => reserve_exact cfg v n
    | CShrinkToFit => shrink_to_fit cfg v
    | CShrinkTo m => shrink_to cfg v m
    end.

  (* a panicking operation is caught (catch_unwind) and the history goes on *)
  Fixpoint run_capops (v : nat) (os : list capop) : M unit :=
    match os with
    | [] => ret tt
    | o :: os => bind (catch (run_capop v o)) (fun _ => run_capops v os)
    end.

  Lemma run_capop_ok s v o : vec_ok s v -> cap_arg_ok o ->
    post (run_capop v o s) (fun _ s' => vec_ok s' v) (fun s' => s' = s).
  Proof.
    intros Hv Ha. destruct o; simpl in *.
    - apply reserve_ok; assumption.
    - apply reserve_exact_ok; assumption.
    - apply shrink_to_fit_ok; assumption.
    - apply shrink_to_ok; assumption.
  Qed.

  Theorem capacity_history_safe v os s :
    vec_ok s v -> Forall cap_arg_ok os ->
    post (run_capops v os s) (fun _ s' => vec_ok s' v) (fun _ => False).
  Proof.
    revert s. induction os as [|o os IH]; intros s Hv Hargs.
    - simpl. exact Hv.
    - inversion Hargs as [|? ? Ho Hos]; subst. simpl.
      eapply post_bind with (Q1 := fun _ s' => vec_ok s' v).
      + eapply post_catch; [apply run_capop_ok; eassumption| |].
        * intros a s' H. exact H.
        * intros s' E. rewrite E. exact Hv.
      + intros _ s' Hv'. apply IH; assumption.
  Qed.

  (* ---------------------------------------------------------------- keeping an over-alignment *)
  (* the vector owns a block whose stored (= real) alignment is A *)
  Definition vec_aligned (A : Z) (s : state) (v : nat) : Prop :=
    exists b bl, vec_at s v b bl /\ block_ok cfg bl /\ h_align bl = A.

  Lemma run_capop_aligned A s v o : vec_aligned A s v -> cap_arg_ok o ->
    post (run_capop v o s) (fun _ s' => vec_aligned A s' v) (fun s' => s' = s).
  Proof.
    intros (b & bl & Hv & Hb & HA) Ha. destruct o; simpl in *.
    - eapply post_weaken; [apply (reserve_at cfg ncap Hcfg s v b bl n Hpol Hv Hb Ha)| |auto].
      intros u s' [[_ ->]|[_ (c & size & _ & _ & _ & Hb' & Hm)]].
      + exists b, bl. auto.
      + eexists. eexists. split; [eapply moved_vec_at; exact Hm|]. split; [exact Hb'|exact HA].
    - eapply post_weaken; [apply (reserve_exact_at cfg ncap Hcfg s v b bl n Hv Hb Ha)| |auto].
      intros u s' [[_ ->]|[_ (size & _ & Hb' & Hm)]].
      + exists b, bl. auto.
      + eexists. eexists. split; [eapply moved_vec_at; exact Hm|]. split; [exact Hb'|exact HA].
    - eapply post_weaken; [apply (shrink_to_fit_at cfg ncap Hcfg s v b bl Hv Hb)| |auto].
      intros u s' [[_ ->]|[_ (size & _ & Hb' & Hm)]].
      + exists b, bl. auto.
      + eexists. eexists. split; [eapply moved_vec_at; exact Hm|]. split; [exact Hb'|exact HA].
    - eapply post_weaken; [apply (shrink_to_at cfg ncap Hcfg s v b bl m Hv Hb Ha)| |auto].
      intros u s' (_ & [[-> _]|(c & size & _ & _ & _ & Hb' & Hmv)]).
      + exists b, bl. auto.
      + eexists. eexists. split; [eapply moved_vec_at; exact Hmv|]. split; [exact Hb'|exact HA].
  Qed.

  Theorem aligned_history A v os s :
    vec_aligned A s v -> Forall cap_arg_ok os ->
    post (run_capops v os s) (fun _ s' => vec_aligned A s' v) (fun _ => False).
  Proof.
    revert s. induction os as [|o os IH]; intros s Hv Hargs.
    - simpl. exact Hv.
    - inversion Hargs as [|? ? Ho Hos]; subst. simpl.
      eapply post_bind with (Q1 := fun _ s' => vec_aligned A s' v).
      + eapply post_catch; [apply run_capop_aligned; eassumption| |].
        * intros a s' H. exact H.
        * intros s' E. rewrite E. exact Hv.
      + intros u s' Hv'. apply IH; assumption.
  Qed.
End CapHistory.

(* ---------------------------------------------------------------------------------------------
   The same induction for any property P of (state, block) that is stable under the two ways the
   capacity family changes a block: moving its bytes to a block of another capacity, and the first
   allocation (an empty block).  Instances: the ownership invariant of Core.v. *)
Section GenericCap.
  Variable cfg : tcfg.
  Variable ncap : Z -> option Z.
  Hypothesis Hcfg : cfg_ok cfg.
  Hypothesis Hpol : policy_ok ncap.
  Variable P : state -> block -> Prop.
  Hypothesis P_grown : forall s s' bl c size, P s bl -> same_elems s s' -> P s' (grown bl c size).
  (* F: what is known while the vector has never allocated (e.g. "the abstract list is empty");
     a first block only has to satisfy P under F *)
  Variable F : state -> Prop.
  Hypothesis P_fresh : forall s s', F s -> same_elems s s' -> forall size a c, P s' (fresh_block size a 0 c a).

  Definition vec_okP (s : state) (v : nat) : Prop :=
    (vec_sentinel s v /\ F s) \/ exists b bl, vec_at s v b bl /\ block_ok cfg bl /\ P s bl.

  Lemma grow_sentinel_okP s v c :
    vec_sentinel s v -> F s -> 0 <= c < W64 ->
    post (grow cfg v c (max_align cfg) s) (fun _ s' => vec_okP s' v) (fun s' => s' = s).
  Proof.
    intros Hv HF Hc.
    eapply post_weaken; [apply (grow_sentinel cfg ncap Hcfg s v c (max_align cfg) Hv Hc (max_align_pow2 cfg Hcfg)); lia | |].
    - intros u s' [(_ & _ & ->)|(size & _ & Hb & Ha)]; [left; split; assumption|].
      right. eexists. eexists. split; [eapply allocated_vec_at; exact Ha|]. split; [exact Hb|apply P_fresh with (s := s); [exact HF|exact (al_same _ _ _ _ Ha)]].
    - intros s' [-> _]. reflexivity.
  Qed.

  Lemma movedP s s' v b bl c size : P s bl -> block_ok cfg (grown bl c size) -> moved s s' v b (grown bl c size) -> vec_okP s' v.
  Proof.
    intros HP Hb Hm. right. eexists. eexists. split; [eapply moved_vec_at; exact Hm|]. split; [exact Hb|].
    eapply P_grown; [exact HP|exact (mv_same _ _ _ _ _ Hm)].
  Qed.

  Lemma run_capop_okP s v o : vec_okP s v -> cap_arg_ok o ->
    post (run_capop cfg ncap v o s) (fun _ s' => vec_okP s' v) (fun s' => s' = s).
  Proof.
    intros Hinv Ha. destruct o as [n|n| |m]; simpl in *.
    - (* reserve *)
      destruct Hinv as [[Hs HF]|(b & bl & Hv & Hb & HP)].
      + destruct (sentinel_basics cfg s v Hs) as (Hl & Hc & Hal). unfold reserve.
        rewrite (bind_val _ _ _ _ _ Hc), (bind_val _ _ _ _ _ Hl).
        unfold add_m, add_u. cbv zeta. rewrite Z.add_0_l.
        destruct (Z.ltb_spec n W64); [|simpl; reflexivity].
        rewrite lift_opt_some, bind_ret.
        destruct (Z.leb_spec n 0). { simpl. left. split; assumption. }
        destruct (ncap 0) as [c1|] eqn:E1; [|simpl; reflexivity].
        rewrite lift_opt_some, bind_ret.
        destruct (Hpol 0 c1 ltac:(lia) E1) as (H1 & H2 & H3).
        assert (Hpow : n < c1 * 2 ^ Z.of_nat 130).
        { assert (W64 <= 2 ^ Z.of_nat 130) by (rewrite W64_val; vm_compute; discriminate). nia. }
        eapply post_bind; [apply (reserve_loop_spec ncap 130 c1 n s Hpol H1 Hpow)|].
        intros nc s' (-> & Hx & Hy & Hz & Hw).
        rewrite (bind_val _ _ _ _ _ Hal).
        apply grow_sentinel_okP; [assumption|assumption|]. destruct Hw; lia.
      + eapply post_weaken; [apply (reserve_at cfg ncap Hcfg s v b bl n Hpol Hv Hb Ha)| |auto].
        intros u s' [[_ ->]|[_ (c & size & _ & _ & _ & Hb' & Hm)]]; [right; eauto|eapply movedP; eassumption].
    - (* reserve_exact *)
      destruct Hinv as [[Hs HF]|(b & bl & Hv & Hb & HP)].
      + destruct (sentinel_basics cfg s v Hs) as (Hl & Hc & Hal). unfold reserve_exact.
        rewrite (bind_val _ _ _ _ _ Hc), (bind_val _ _ _ _ _ Hl).
        unfold add_m, add_u. cbv zeta. rewrite Z.add_0_l.
        destruct (Z.ltb_spec n W64); [|simpl; reflexivity].
        rewrite lift_opt_some, bind_ret.
        destruct (Z.leb_spec n 0). { simpl. left. split; assumption. }
        rewrite (bind_val _ _ _ _ _ Hal).
        apply grow_sentinel_okP; [assumption|assumption|lia].
      + eapply post_weaken; [apply (reserve_exact_at cfg ncap Hcfg s v b bl n Hv Hb Ha)| |auto].
        intros u s' [[_ ->]|[_ (size & _ & Hb' & Hm)]]; [right; eauto|eapply movedP; eassumption].
    - (* shrink_to_fit *)
      destruct Hinv as [[Hs HF]|(b & bl & Hv & Hb & HP)].
      + destruct (sentinel_basics cfg s v Hs) as (Hl & Hc & Hal). unfold shrink_to_fit.
        rewrite (bind_val _ _ _ _ _ Hl), (bind_val _ _ _ _ _ Hc). simpl. left. split; assumption.
      + eapply post_weaken; [apply (shrink_to_fit_at cfg ncap Hcfg s v b bl Hv Hb)| |auto].
        intros u s' [[_ ->]|[_ (size & _ & Hb' & Hm)]]; [right; eauto|eapply movedP; eassumption].
    - (* shrink_to *)
      destruct Hinv as [[Hs HF]|(b & bl & Hv & Hb & HP)].
      + destruct (sentinel_basics cfg s v Hs) as (Hl & Hc & Hal). unfold shrink_to.
        rewrite (bind_val _ _ _ _ _ Hl), (bind_val _ _ _ _ _ Hc).
        destruct (Z.ltb_spec m 0); [lia|].
        destruct (Z.eqb_spec 0 m). { simpl. left. split; assumption. }
        destruct (Z.ltb_spec 0 m); [simpl; reflexivity|lia].
      + eapply post_weaken; [apply (shrink_to_at cfg ncap Hcfg s v b bl m Hv Hb Ha)| |auto].
        intros u s' (_ & [[-> _]|(c & size & _ & _ & _ & Hb' & Hmv)]); [right; eauto|eapply movedP; eassumption].
  Qed.
End GenericCap.
