(* Proofs/DrainIt.v -- Drain (and the stepping half of Splice, which shares the representation):
   creation, the iterator protocol for ANY interleaving of front and back steps (C10), that the
   stepping never touches the vector so that forgetting the iterator at any point leaves a valid,
   shorter vector (C05), and that dropping it restores prefix ++ suffix (C01/C10). *)
From Coq Require Import ZArith List Bool Lia.
From MV Require Import Ast Eval Scalar Machine.
From MV.Proofs Require Import Arith Logic Prim View OpsLocal Guards Drops Retain.
Import ListNotations.
Open Scope Z_scope.

(* the double-ended cursor of the list-level specification *)
Inductive istep := SFront | SBack.

Fixpoint cursor (w : list elem) (steps : list istep) : list (option elem) * list elem :=
  match steps with
  | [] => ([], w)
  | SFront :: steps =>
      match w with
      | [] => let '(o, r) := cursor [] steps in (None :: o, r)
      | x :: w' => let '(o, r) := cursor w' steps in (Some x :: o, r)
      end
  | SBack :: steps =>
      match w with
      | [] => let '(o, r) := cursor [] steps in (None :: o, r)
      | _ => let '(o, r) := cursor (removelast w) steps in (Some (last w 0) :: o, r)
      end
  end.

Section DrainIt.
  Variable cfg : tcfg.
  Hypothesis Hcfg : cfg_ok cfg.

  (* a live Drain/Splice over vector v in block b: cursors i <= j inside the hole [len, r), tail
     of d_rem elements at r *)
  Record drain_inv (s : state) (d : drain_it) (b : nat) (bl : block) (off i j r : Z) : Prop := {
    di_vec : vec_at s (d_vec d) b bl;
    di_ok : block_ok cfg bl;
    di_off : canon_off bl = Some off;
    di_pos : d_pos d = PElt b off i;
    di_end : d_end d = PElt b off j;
    di_rpos : d_rpos d = PElt b off r;
    di_order : h_len bl <= i /\ i <= j /\ j <= r /\ 0 <= d_rem d /\ r + d_rem d <= h_cap bl;
    di_init : forall k, (0 <= k < h_len bl \/ i <= k < j \/ r <= k < r + d_rem d) -> exists e, slots bl k = Init e }.

  Definition window (bl : block) (i j : Z) : list elem := slice_elems (slots bl) i (Z.to_nat (j - i)).

  Lemma window_nil bl i j : j <= i -> window bl i j = [].
  Proof. intros H. unfold window. replace (Z.to_nat (j - i)) with O by lia. reflexivity. Qed.

  Lemma window_cons bl i j : i < j -> window bl i j = slot_elem (slots bl i) :: window bl (i + 1) j.
  Proof.
    intros H. unfold window. replace (Z.to_nat (j - i)) with (S (Z.to_nat (j - (i + 1)))) by lia.
    apply slice_elems_S.
  Qed.

  Lemma window_snoc bl i j : i < j -> window bl i j = window bl i (j - 1) ++ [slot_elem (slots bl (j - 1))].
  Proof.
    intros H. unfold window, slice_elems.
    replace (Z.to_nat (j - i)) with (S (Z.to_nat (j - 1 - i))) by lia.
    rewrite seq_S, map_app. cbn [map]. f_equal. f_equal. f_equal. f_equal. lia.
  Qed.

  Lemma ptr_lt_same b off i j s : ptr_lt (PElt b off i) (PElt b off j) s = (Val (i <? j), s).
  Proof. unfold ptr_lt. rewrite Nat.eqb_refl. reflexivity. Qed.

  (* one front step: yields the first element of the window, touches nothing *)
  Lemma drain_next_spec s d b bl off i j r :
    drain_inv s d b bl off i j r ->
    drain_next cfg d s =
      (Val (if i <? j then (Some (slot_elem (slots bl i)), with_pos d (PElt b off (i + 1))) else (None, d)), s).
  Proof.
    intros [Hv Hb Hco Hp He Hr Ho Hi]. unfold drain_next. rewrite Hp, He.
    rewrite (bind_val _ _ _ _ _ (ptr_lt_same b off i j s)).
    destruct (Z.ltb_spec i j) as [L|G]; cbn [negb]; [|reflexivity].
    assert (R : 0 <= i < h_cap bl) by (pose proof (bo_len _ _ Hb); lia).
    pose proof (slot_read_at cfg s b bl off i Hcfg (proj2 Hv) Hb Hco R) as Hrd.
    destruct (Hi i ltac:(lia)) as [e Hie]. rewrite Hie in Hrd.
    rewrite (bind_val _ _ _ _ _ Hrd). rewrite Hie. reflexivity.
  Qed.

  Lemma drain_next_back_spec s d b bl off i j r :
    drain_inv s d b bl off i j r ->
    drain_next_back cfg d s =
      (Val (if i <? j then (Some (slot_elem (slots bl (j - 1))), with_end d (PElt b off (j - 1))) else (None, d)), s).
  Proof.
    intros [Hv Hb Hco Hp He Hr Ho Hi]. unfold drain_next_back. rewrite Hp, He.
    rewrite (bind_val _ _ _ _ _ (ptr_lt_same b off i j s)).
    destruct (Z.ltb_spec i j) as [L|G]; cbn [negb]; [|reflexivity].
    simpl padd. replace (j + -1) with (j - 1) by lia.
    assert (R : 0 <= j - 1 < h_cap bl) by (pose proof (bo_len _ _ Hb); lia).
    pose proof (slot_read_at cfg s b bl off (j - 1) Hcfg (proj2 Hv) Hb Hco R) as Hrd.
    destruct (Hi (j - 1) ltac:(lia)) as [e Hie]. rewrite Hie in Hrd.
    rewrite (bind_val _ _ _ _ _ Hrd). rewrite Hie. reflexivity.
  Qed.

  Lemma drain_hint_spec s d b bl off i j r :
    drain_inv s d b bl off i j r -> drain_hint d s = (Val (j - i), s).
  Proof.
    intros [Hv Hb Hco Hp He Hr Ho Hi]. unfold drain_hint, ptr_diff. rewrite Hp, He, Nat.eqb_refl. reflexivity.
  Qed.

  Lemma drain_inv_front s d b bl off i j r :
    drain_inv s d b bl off i j r -> i < j -> drain_inv s (with_pos d (PElt b off (i + 1))) b bl off (i + 1) j r.
  Proof. intros [Hv Hb Hco Hp He Hr Ho Hi] L. constructor; simpl; auto; try lia. intros k Hk. apply Hi. lia. Qed.

  Lemma drain_inv_back s d b bl off i j r :
    drain_inv s d b bl off i j r -> i < j -> drain_inv s (with_end d (PElt b off (j - 1))) b bl off i (j - 1) r.
  Proof. intros [Hv Hb Hco Hp He Hr Ho Hi] L. constructor; simpl; auto; try lia. intros k Hk. apply Hi. lia. Qed.

  (* any interleaving of steps *)
  Fixpoint drain_steps (d : drain_it) (steps : list istep) : M (list (option elem) * drain_it) :=
    match steps with
    | [] => ret ([], d)
    | st :: steps =>
        r <- (match st with SFront => drain_next cfg d | SBack => drain_next_back cfg d end) ;;
        rs <- drain_steps (snd r) steps ;;
        ret (fst r :: fst rs, snd rs)
    end.

  Lemma last_snoc {A} (l : list A) x d : last (l ++ [x]) d = x.
  Proof. induction l as [|y l IH]; simpl; [reflexivity|]. destruct (l ++ [x]) eqn:E; [destruct l; discriminate|exact IH]. Qed.
  Lemma removelast_snoc {A} (l : list A) x : removelast (l ++ [x]) = l.
  Proof. induction l as [|y l IH]; simpl; [reflexivity|]. destruct (l ++ [x]) eqn:E; [destruct l; discriminate|]. rewrite IH. reflexivity. Qed.

  (* C10 for Drain/Splice: for EVERY interleaving of front and back steps of ANY length the yielded
     values are exactly those of the double-ended cursor over the selected window, the state of the
     machine is untouched, the reported remaining count stays exact, and after the ends meet every
     further step yields None *)
  Theorem drain_protocol steps : forall s d b bl off i j r,
    drain_inv s d b bl off i j r ->
    exists d' i' j',
      drain_steps d steps s = (Val (fst (cursor (window bl i j) steps), d'), s) /\
      drain_inv s d' b bl off i' j' r /\ i <= i' /\ j' <= j /\
      window bl i' j' = snd (cursor (window bl i j) steps).
  Proof.
    induction steps as [|st steps IH]; intros s d b bl off i j r Hinv.
    - exists d, i, j. simpl. split; [reflexivity|]. split; [exact Hinv|]. split; [lia|]. split; [lia|]. reflexivity.
    - simpl drain_steps. destruct st.
      + rewrite (bind_val _ _ _ _ _ (drain_next_spec _ _ _ _ _ _ _ _ Hinv)).
        destruct (Z.ltb_spec i j) as [L|G]; cbn [fst snd].
        * destruct (IH s _ b bl off (i + 1) j r (drain_inv_front _ _ _ _ _ _ _ _ Hinv L)) as (d' & i' & j' & Hs & Hi' & H1 & H2 & Hw).
          rewrite (bind_val _ _ _ _ _ Hs). exists d', i', j'. cbn [fst snd].
          rewrite (window_cons bl i j L). simpl cursor.
          destruct (cursor (window bl (i + 1) j) steps) as [o rr] eqn:Ec. simpl in *.
          split; [reflexivity|]. split; [exact Hi'|]. split; [lia|]. split; [lia|]. exact Hw.
        * destruct (IH s d b bl off i j r Hinv) as (d' & i' & j' & Hs & Hi' & H1 & H2 & Hw).
          rewrite (bind_val _ _ _ _ _ Hs). exists d', i', j'. cbn [fst snd].
          rewrite (window_nil bl i j G) in *. simpl cursor.
          destruct (cursor [] steps) as [o rr] eqn:Ec. simpl in *. split; [reflexivity|]. split; [exact Hi'|]. split; [lia|]. split; [lia|]. exact Hw.
      + rewrite (bind_val _ _ _ _ _ (drain_next_back_spec _ _ _ _ _ _ _ _ Hinv)).
        destruct (Z.ltb_spec i j) as [L|G]; cbn [fst snd].
        * destruct (IH s _ b bl off i (j - 1) r (drain_inv_back _ _ _ _ _ _ _ _ Hinv L)) as (d' & i' & j' & Hs & Hi' & H1 & H2 & Hw).
          rewrite (bind_val _ _ _ _ _ Hs). exists d', i', j'. cbn [fst snd].
          rewrite (window_snoc bl i j L). simpl cursor.
          destruct (window bl i (j - 1) ++ [slot_elem (slots bl (j - 1))]) eqn:E; [destruct (window bl i (j - 1)); discriminate|].
          rewrite <- E. rewrite removelast_snoc, last_snoc.
          destruct (cursor (window bl i (j - 1)) steps) as [o rr] eqn:Ec. simpl in *.
          split; [reflexivity|]. split; [exact Hi'|]. split; [lia|]. split; [lia|]. exact Hw.
        * destruct (IH s d b bl off i j r Hinv) as (d' & i' & j' & Hs & Hi' & H1 & H2 & Hw).
          rewrite (bind_val _ _ _ _ _ Hs). exists d', i', j'. cbn [fst snd].
          rewrite (window_nil bl i j G) in *. simpl cursor.
          destruct (cursor [] steps) as [o rr] eqn:Ec. simpl in *. split; [reflexivity|]. split; [exact Hi'|]. split; [lia|]. split; [lia|]. exact Hw.
  Qed.

  Lemma drain_hint_exact s d b bl off i j r :
    drain_inv s d b bl off i j r -> Z.of_nat (List.length (window bl i j)) = j - i.
  Proof. intros [_ _ _ _ _ _ Ho _]. unfold window, slice_elems. rewrite map_length, seq_length. lia. Qed.

  (* creation: the length is cut to the start of the range BEFORE the iterator exists, so whatever
     happens to the iterator (including mem::forget) the vector exposes only the untouched prefix *)
  Lemma make_drain_spec s v b bl bs be fill a e :
    vec_at s v b bl -> block_ok cfg bl -> init_upto (slots bl) (h_len bl) ->
    resolve_pure bs be (h_len bl) = Some (a, e) -> 0 <= a ->
    exists off d,
      let bl' := with_hdr bl a (h_cap bl) (h_align bl) in
      let s' := upd_block s b bl' in
      make_drain cfg v bs be fill s = (Val d, s') /\ d_vec d = v /\ d_fill d = fill /\
      d_rem d = h_len bl - e /\
      drain_inv s' d b bl' off a e e /\
      velems bl' = firstn (Z.to_nat a) (velems bl).
  Proof.
    intros Hv Hb Hi Hres Ha.
    pose proof Hres as Hres'. apply resolve_pure_some in Hres'. destruct Hres' as (_ & _ & Hae).
    pose proof (bo_len _ _ Hb) as Hlen.
    destruct (as_ptr_at cfg _ _ _ _ Hcfg Hv Hb) as (off & Hco & Hp).
    set (d := {| d_vec := v; d_pos := PElt b off a; d_end := PElt b off e; d_rpos := PElt b off e;
                 d_rem := h_len bl - e; d_fill := fill |}).
    assert (Hm : make_drain cfg v bs be fill s = (Val d, upd_block s b (with_hdr bl a (h_cap bl) (h_align bl)))).
    { unfold make_drain.
      rewrite (bind_val _ _ _ _ _ (len_at cfg _ _ _ _ Hcfg Hv Hb)).
      assert (Hr : resolve bs be (h_len bl) s = (Val (a, e), s)) by (rewrite resolve_eq, Hres; reflexivity).
      rewrite (bind_val _ _ _ _ _ Hr).
      rewrite (bind_val _ _ _ _ _ Hp).
      rewrite (bind_val _ _ _ _ _ (set_len_at cfg s v b bl a Hcfg Hv Hb)).
      unfold d. simpl padd. rewrite ?Z.add_0_l. reflexivity. }
    exists off, d. cbv zeta.
    split; [exact Hm|]. split; [reflexivity|]. split; [reflexivity|]. split; [reflexivity|].
    split.
    - constructor; simpl; auto; try lia.
      + apply vec_at_upd with (bl := bl). assumption.
      + apply block_ok_with_len; [assumption|lia].
      + intros k Hk. apply Hi. lia.
    - unfold velems. simpl. symmetry. apply view_firstn. lia.
  Qed.

  (* C05 for Drain/Splice: between creation and drop the stepping does not touch the machine state
     (drain_protocol: the state component is returned unchanged), so forgetting the iterator after ANY
     steps leaves exactly the state of creation: the vector is the untouched prefix, still satisfying
     the layout invariant; the window and the tail are merely unreachable (leaked), never duplicated *)
  Theorem forget_after_any_steps s d b bl off i j r steps :
    drain_inv s d b bl off i j r ->
    exists out d', drain_steps d steps s = (Val (out, d'), s) /\
      vec_at s (d_vec d) b bl /\ block_ok cfg bl /\ init_upto (slots bl) (h_len bl).
  Proof.
    intros Hinv. destruct (drain_protocol steps s d b bl off i j r Hinv) as (d' & i' & j' & Hs & _).
    eexists. exists d'. split; [exact Hs|]. destruct Hinv as [Hv Hb _ _ _ _ _ Hi].
    split; [exact Hv|]. split; [exact Hb|]. intros k Hk. apply Hi. left. exact Hk.
  Qed.

  (* ---------------------------------------------------------------- dropping a Drain *)
  (* the guard's tail move when the window has been emptied (i = j): the tail [r, r+rem) is moved down
     to [len, len+rem) and the length restored: the vector becomes prefix ++ suffix *)
  Definition guard_tail (d : drain_it) : M unit :=
    if 0 <? d_rem d then
      let v := d_vec d in
      vl <- len v ;;
      p <- as_ptr cfg v ;;
      slot_copy cfg (d_rpos d) (padd cfg p vl) (d_rem d) ;;;
      set_len v (vl + d_rem d)
    else ret tt.

  Lemma drain_guard_unfold d : drain_guard cfg d = bind (drain_rest cfg (window_fuel d) d) guard_tail.
  Proof. reflexivity. Qed.

  Lemma guard_tail_spec s d b bl off i r :
    drain_inv s d b bl off i i r ->
    let n := d_rem d in
    let f' := if n <=? 0 then slots bl else (fun k => if (h_len bl <=? k) && (k <? h_len bl + n) then slots bl (k - h_len bl + r) else slots bl k) in
    let bl' := if 0 <? n then with_hdr (with_slots bl f') (h_len bl + n) (h_cap bl) (h_align bl) else bl in
    exists s', guard_tail d s = (Val tt, s') /\ vec_at s' (d_vec d) b bl' /\ frame_block s s' b /\
               block_ok cfg bl' /\
               velems bl' = velems bl ++ window bl r (r + n) /\
               init_upto (slots bl') (h_len bl').
  Proof.
    intros Hinv n f' bl'.
    pose proof Hinv as [Hv Hb Hco Hp He Hr Ho Hi].
    pose proof (bo_len _ _ Hb) as Hlen.
    unfold guard_tail. fold n.
    destruct (Z.ltb_spec 0 n) as [Hpos|Hz]; subst bl'.
    - cbv zeta. rewrite (bind_val _ _ _ _ _ (len_at cfg _ _ _ _ Hcfg Hv Hb)).
      destruct (as_ptr_at cfg _ _ _ _ Hcfg Hv Hb) as (off' & Hco' & Hpt).
      rewrite Hco in Hco'. inversion Hco'; subst off'.
      rewrite (bind_val _ _ _ _ _ Hpt). rewrite Hr. simpl padd. rewrite ?Z.add_0_l.
      assert (Hcopy : slot_copy cfg (PElt b off r) (PElt b off (h_len bl)) n s =
                      (Val tt, upd_block s b (with_slots bl f'))).
      { subst f'. assert (E : (n <=? 0) = false) by (apply Z.leb_gt; lia). rewrite E.
        apply (slot_copy_at cfg s b bl off r (h_len bl) n Hcfg (proj2 Hv) Hb Hco); unfold n in *; lia. }
      rewrite (bind_val _ _ _ _ _ Hcopy).
      set (bl1 := with_slots bl f').
      assert (Hb1 : block_ok cfg bl1) by (apply block_ok_with_slots; exact Hb).
      assert (Hv1 : vec_at (upd_block s b bl1) (d_vec d) b bl1) by (apply vec_at_upd with (bl := bl); exact Hv).
      rewrite (set_len_at cfg _ _ _ _ (h_len bl + n) Hcfg Hv1 Hb1).
      eexists. split; [reflexivity|].
      split; [apply vec_at_upd with (bl := bl1); exact Hv1|].
      split; [eapply frame_trans; apply frame_upd|].
      split; [apply block_ok_with_len with (bl := bl1); [exact Hb1|simpl; unfold n in *; lia]|].
      assert (Hinit' : init_upto f' (h_len bl + n)).
      { intros k Hk. subst f'. assert (E : (n <=? 0) = false) by (apply Z.leb_gt; lia). rewrite E.
        destruct (Z.leb_spec (h_len bl) k); destruct (Z.ltb_spec k (h_len bl + n)); cbn [andb]; try lia.
        - apply Hi. right. right. unfold n in *. lia.
        - apply Hi. left. lia. }
      split; [|exact Hinit'].
      unfold velems. cbn [h_len slots with_hdr with_slots bl1].
      rewrite view_seg. rewrite (seg_app f' 0 (h_len bl) n) by lia. f_equal.
      + rewrite view_seg. apply seg_ext. intros k Hk. subst f'.
        assert (E : (n <=? 0) = false) by (apply Z.leb_gt; lia). rewrite E.
        destruct (Z.leb_spec (h_len bl) k); [lia|reflexivity].
      + unfold window, slice_elems, seg. rewrite Z.add_0_l.
        replace (r + n - r) with n by lia. apply map_ext_in. intros k Hk. apply in_seq in Hk.
        subst f'. assert (E : (n <=? 0) = false) by (apply Z.leb_gt; lia). rewrite E.
        destruct (Z.leb_spec (h_len bl) (h_len bl + Z.of_nat k)); [|lia].
        destruct (Z.ltb_spec (h_len bl + Z.of_nat k) (h_len bl + n)); [|lia]. cbn [andb].
        f_equal. f_equal. lia.
    - exists s. split; [reflexivity|]. split; [exact Hv|]. split; [apply frame_refl|].
      split; [exact Hb|]. split.
      + unfold n in *. assert (d_rem d = 0) by lia. rewrite window_nil by lia. rewrite app_nil_r. reflexivity.
      + intros k Hk. apply Hi. left. exact Hk.
  Qed.

  Hypothesis Htracked : needs_drop cfg = true.

  Lemma drain_inv_destroyed s s' d b bl off i j r es :
    drain_inv s d b bl off i j r -> destroyed s s' es -> drain_inv s' d b bl off i j r.
  Proof.
    intros [Hv Hb Hco Hp He Hr Ho Hi] Hd. constructor; auto.
    destruct Hv as [H1 H2]. split; [rewrite (ds_vecs _ _ _ Hd); exact H1|rewrite (ds_heap _ _ _ Hd); exact H2].
  Qed.

  Lemma destroyed_trans s1 s2 s3 es1 es2 :
    destroyed s1 s2 es1 -> destroyed s2 s3 es2 -> (forall e, In e es1 -> ~ In e es2) ->
    destroyed s1 s3 (es1 ++ es2).
  Proof.
    intros [] [] Hdis. constructor; try congruence.
    - intros e He. apply in_app_or in He. destruct He as [He|He].
      + rewrite ds_out0 by (apply Hdis; exact He). apply ds_in. exact He.
      + apply ds_in0. exact He.
    - intros e He. rewrite ds_out0 by (intros H; apply He; apply in_or_app; right; exact H).
      apply ds_out. intros H. apply He. apply in_or_app. left. exact H.
  Qed.

  (* the guard's first half: destroy what is left of the window (inside a cleanup a panic aborts) *)
  Lemma drain_rest_spec : forall fuel s d b bl off i j r,
    drain_inv s d b bl off i j r -> (Z.to_nat (j - i) < fuel)%nat ->
    NoDup (window bl i j) -> (forall e, In e (window bl i j) -> ledger s e = Live) ->
    post (drain_rest cfg fuel d s)
      (fun d' s' => destroyed s s' (window bl i j) /\ drain_inv s' d' b bl off j j r /\ d_rem d' = d_rem d /\ d_fill d' = d_fill d /\ d_vec d' = d_vec d)
      (fun _ => True).
  Proof.
    induction fuel as [|fuel IH]; intros s d b bl off i j r Hinv Hf Hnd Hlive; [lia|].
    simpl drain_rest.
    rewrite (bind_val _ _ _ _ _ (drain_next_spec _ _ _ _ _ _ _ _ Hinv)).
    destruct (Z.ltb_spec i j) as [L|G]; cbn [fst snd].
    - rewrite (window_cons bl i j L) in *.
      set (e := slot_elem (slots bl i)) in *.
      inversion Hnd as [|? ? Hnin Hnd']; subst.
      destruct (drop_elem_live cfg Htracked s e (Hlive e (or_introl eq_refl))) as (s1 & Hd1 & He1).
      unfold bind at 1. rewrite He1.
      destruct (mem e (drop_panics s)); [simpl; exact I|].
      pose proof (drain_inv_front _ _ _ _ _ _ _ _ Hinv L) as Hinv1.
      pose proof (drain_inv_destroyed _ _ _ _ _ _ _ _ _ _ Hinv1 Hd1) as Hinv1'.
      eapply post_weaken; [apply (IH s1 _ b bl off (i + 1) j r Hinv1' ltac:(lia) Hnd')| |auto].
      + intros x Hx. rewrite (ds_out _ _ _ Hd1) by (intros [<-|[]]; contradiction). apply Hlive. right. exact Hx.
      + intros d' s' (Hd2 & Hi2 & H3 & H4 & H5). split; [|auto].
        change (e :: window bl (i + 1) j) with ([e] ++ window bl (i + 1) j).
        eapply destroyed_trans; [exact Hd1|exact Hd2|]. intros x [<-|[]]. exact Hnin.
    - rewrite (window_nil bl i j G). simpl. split; [apply destroyed_nil|].
      assert (i = j) by (destruct Hinv as [_ _ _ _ _ _ Ho _]; lia). subst. auto.
  Qed.

  (* what is true after the iterator is gone, however that came about: the vector is the untouched
     prefix followed by the untouched suffix, and exactly the elements that were still in the window
     have been destroyed, once each *)
  Definition drain_gone (s s' : state) (d : drain_it) (b : nat) (bl : block) (i j r : Z) : Prop :=
    exists bl', vec_at s' (d_vec d) b bl' /\ block_ok cfg bl' /\
                velems bl' = velems bl ++ window bl r (r + d_rem d) /\
                init_upto (slots bl') (h_len bl') /\
                (forall e, In e (window bl i j) -> ledger s' e = Dropped) /\
                (forall e, ~ In e (window bl i j) -> ledger s' e = ledger s e) /\
                next_elem s' = next_elem s.

  Lemma drain_guard_spec s d b bl off i j r :
    drain_inv s d b bl off i j r ->
    NoDup (window bl i j) -> (forall e, In e (window bl i j) -> ledger s e = Live) ->
    post (drain_guard cfg d s) (fun _ s' => drain_gone s s' d b bl i j r) (fun _ => True).
  Proof.
    intros Hinv Hnd Hlive. rewrite drain_guard_unfold.
    eapply post_bind.
    { apply (drain_rest_spec (window_fuel d) s d b bl off i j r Hinv); [|exact Hnd|exact Hlive].
      unfold window_fuel. rewrite (di_pos _ _ _ _ _ _ _ _ Hinv), (di_end _ _ _ _ _ _ _ _ Hinv). lia. }
    intros d' s1 (Hd & Hinv' & Hrem & Hfill & Hvec).
    destruct (guard_tail_spec s1 d' b bl off j r Hinv') as (s' & Hg & Hv' & Hfr & Hb' & Hvel & Hini).
    rewrite Hg. simpl.
    rewrite Hvec in Hv'. rewrite Hrem in Hv', Hb', Hvel, Hini. eexists. split; [exact Hv'|]. split; [exact Hb'|].
    split; [exact Hvel|]. split; [exact Hini|].
    split; [|split].
    - intros e He. rewrite (fb_ledger _ _ _ Hfr). apply (ds_in _ _ _ Hd). exact He.
    - intros e He. rewrite (fb_ledger _ _ _ Hfr). apply (ds_out _ _ _ Hd). exact He.
    - rewrite (fb_next _ _ _ Hfr). exact (ds_next _ _ _ Hd).
  Qed.

  (* Drain::drop, with ANY set of panicking destructors: the loop drops the rest of the window one
     by one under the guard; when a destructor panics the guard finishes the job; in every non-aborting
     outcome the vector is prefix ++ suffix and the window has been destroyed exactly once *)
  Theorem drain_drop_spec : forall fuel s d b bl off i j r,
    drain_inv s d b bl off i j r -> d_fill d = None -> (Z.to_nat (j - i) < fuel)%nat ->
    NoDup (window bl i j) -> (forall e, In e (window bl i j) -> ledger s e = Live) ->
    post (bind (drain_drop_loop cfg fuel (drain_guard cfg) d) (drain_guard cfg) s)
      (fun _ s' => drain_gone s s' d b bl i j r) (fun s' => drain_gone s s' d b bl i j r).
  Proof.
    induction fuel as [|fuel IH]; intros s d b bl off i j r Hinv Hfill Hf Hnd Hlive; [lia|].
    simpl drain_drop_loop. rewrite bind_assoc.
    rewrite (bind_val _ _ _ _ _ (drain_next_spec _ _ _ _ _ _ _ _ Hinv)).
    destruct (Z.ltb_spec i j) as [L|G]; cbn [fst snd].
    - pose proof (window_cons bl i j L) as Hwc.
      set (e := slot_elem (slots bl i)) in *.
      assert (HeIn : In e (window bl i j)) by (rewrite Hwc; left; reflexivity).
      assert (Hnd' : NoDup (window bl (i + 1) j) /\ ~ In e (window bl (i + 1) j)).
      { rewrite Hwc in Hnd. inversion Hnd; subst. split; assumption. }
      destruct Hnd' as [Hnd' Hnin].
      destruct (drop_elem_live cfg Htracked s e (Hlive e HeIn)) as (s1 & Hd1 & He1).
      pose proof (drain_inv_front _ _ _ _ _ _ _ _ Hinv L) as Hinv1.
      pose proof (drain_inv_destroyed _ _ _ _ _ _ _ _ _ _ Hinv1 Hd1) as Hinv1'.
      assert (Hlive1 : forall x, In x (window bl (i + 1) j) -> ledger s1 x = Live).
      { intros x Hx. rewrite (ds_out _ _ _ Hd1) by (intros [<-|[]]; contradiction). apply Hlive. rewrite Hwc. right. exact Hx. }
      (* what drain_gone from s1 over the rest gives for s over the whole window *)
      assert (Hlift : forall s', drain_gone s1 s' (with_pos d (PElt b off (i + 1))) b bl (i + 1) j r -> drain_gone s s' d b bl i j r).
      { intros s' (bl' & H1 & H2 & H3 & H4 & H5 & H6 & H7). exists bl'. simpl in *.
        split; [exact H1|]. split; [exact H2|]. split; [exact H3|]. split; [exact H4|]. split; [|split].
        - intros x Hx. rewrite Hwc in Hx. destruct Hx as [<-|Hx].
          + rewrite H6 by exact Hnin. apply (ds_in _ _ _ Hd1). left. reflexivity.
          + apply H5. exact Hx.
        - intros x Hx. rewrite Hwc in Hx.
          rewrite H6 by (intros H; apply Hx; right; exact H).
          apply (ds_out _ _ _ Hd1). intros [<-|[]]. apply Hx. left. reflexivity.
        - rewrite H7. exact (ds_next _ _ _ Hd1). }
      rewrite bind_assoc.
      unfold bind at 1. unfold on_unwind. rewrite He1.
      destruct (mem e (drop_panics s)).
      + (* the destructor panics: the guard runs as cleanup *)
        pose proof (drain_guard_spec s1 _ b bl off (i + 1) j r Hinv1' Hnd' Hlive1) as Hg.
        destruct (drain_guard cfg (with_pos d (PElt b off (i + 1))) s1) as [[u| | | | |] s2]; simpl in *; auto.
      + (* the destructor returns: go on *)
        specialize (IH s1 _ b bl off (i + 1) j r Hinv1' Hfill ltac:(lia) Hnd' Hlive1).
        eapply post_weaken; [exact IH| |]; intros; apply Hlift; assumption.
    - (* the window is empty: the final guard cannot panic *)
      rewrite bind_ret.
      assert (i = j) by (destruct Hinv as [_ _ _ _ _ _ Ho _]; lia). subst j.
      rewrite drain_guard_unfold.
      assert (Hrest : drain_rest cfg (window_fuel d) d s = (Val d, s)).
      { unfold window_fuel. rewrite (di_pos _ _ _ _ _ _ _ _ Hinv), (di_end _ _ _ _ _ _ _ _ Hinv). rewrite Z.sub_diag. simpl.
        rewrite (bind_val _ _ _ _ _ (drain_next_spec _ _ _ _ _ _ _ _ Hinv)).
        rewrite Z.ltb_irrefl. reflexivity. }
      rewrite (bind_val _ _ _ _ _ Hrest).
      destruct (guard_tail_spec s d b bl off i r Hinv) as (s' & Hg & Hv' & Hfr & Hb' & Hvel & Hini).
      rewrite Hg. simpl.
      eexists. split; [exact Hv'|]. split; [exact Hb'|]. split; [exact Hvel|]. split; [exact Hini|].
      rewrite (window_nil bl i i) by lia.
      split; [intros e []|]. split; [intros e _; rewrite (fb_ledger _ _ _ Hfr); reflexivity|exact (fb_next _ _ _ Hfr)].
  Qed.

  (* the statement for Machine.drain_drop itself (Drain: no replacement iterator) *)
  Corollary drain_drop_machine ncap tmp s d b bl off i j r :
    drain_inv s d b bl off i j r -> d_fill d = None ->
    NoDup (window bl i j) -> (forall e, In e (window bl i j) -> ledger s e = Live) ->
    post (drain_drop cfg ncap tmp d s)
      (fun _ s' => drain_gone s s' d b bl i j r) (fun s' => drain_gone s s' d b bl i j r).
  Proof.
    intros Hinv Hfill Hnd Hlive. unfold drain_drop. rewrite Hfill.
    apply (drain_drop_spec (window_fuel d) s d b bl off i j r Hinv Hfill); [|exact Hnd|exact Hlive].
    unfold window_fuel. rewrite (di_pos _ _ _ _ _ _ _ _ Hinv), (di_end _ _ _ _ _ _ _ _ Hinv). lia.
  Qed.
End DrainIt.
