(* Proofs/DrainIt.v -- Drain (and the stepping half of Splice, which shares the representation):
   creation, the iterator protocol for ANY interleaving of front and back steps (C10), that the
   stepping never touches the vector so that forgetting the iterator at any point leaves a valid,
   shorter vector (C05), and that dropping it restores prefix ++ suffix (C01/C10). *)
From Coq Require Import ZArith List Bool Lia.
From MV Require Import Ast Eval Scalar Machine.
From MV.Proofs Require Import Arith Logic Prim View OpsLocal Guards Drops.
Import ListNotations.
Open Scope Z_scope.

(* the double-ended cursor of the list-level specification *)
Inductive istep := SFront | SBack.

Fixpoint cursor (w : list elem) (steps : list istep) : list (option elem) * list elem :=
  match steps with
  | [] => ([], w)
  | SFront :: steps =>
      match w with
      | [] => let '(o, r) := cursor [] steps in (None :: o, r)
      | x :: w' => let '(o, r) := cursor w' steps in (Some x :: o, r)
      end
  | SBack :: steps =>
      match w with
      | [] => let '(o, r) := cursor [] steps in (None :: o, r)
      | _ => let '(o, r) := cursor (removelast w) steps in (Some (last w 0) :: o, r)
      end
  end.

Section DrainIt.
  Variable cfg : tcfg.
  Hypothesis Hcfg : cfg_ok cfg.

  (* a live Drain/Splice over vector v in block b: cursors i <= j inside the hole [len, r), tail
     of d_rem elements at r *)
  Record drain_inv (s : state) (d : drain_it) (b : nat) (bl : block) (off i j r : Z) : Prop := {
    di_vec : vec_at s (d_vec d) b bl;
    di_ok : block_ok cfg bl;
    di_off : canon_off bl = Some off;
    di_pos : d_pos d = PElt b off i;
    di_end : d_end d = PElt b off j;
    di_rpos : d_rpos d = PElt b off r;
    di_order : h_len bl <= i /\ i <= j /\ j <= r /\ 0 <= d_rem d /\ r + d_rem d <= h_cap bl;
    di_init : forall k, (0 <= k < h_len bl \/ i <= k < j \/ r <= k < r + d_rem d) -> exists e, slots bl k = Init e }.

  Definition window (bl : block) (i j : Z) : list elem := slice_elems (slots bl) i (Z.to_nat (j - i)).

  Lemma window_nil bl i j : j <= i -> window bl i j = [].
  Proof. intros H. unfold window. replace (Z.to_nat (j - i)) with O by lia. reflexivity. Qed.

  Lemma window_cons bl i j : i < j -> window bl i j = slot_elem (slots bl i) :: window bl (i + 1) j.
  Proof.
    intros H. unfold window. replace (Z.to_nat (j - i)) with (S (Z.to_nat (j - (i + 1)))) by lia.
    apply slice_elems_S.
  Qed.

  Lemma window_snoc bl i j : i < j -> window bl i j = window bl i (j - 1) ++ [slot_elem (slots bl (j - 1))].
  Proof.
    intros H. unfold window, slice_elems.
    replace (Z.to_nat (j - i)) with (S (Z.to_nat (j - 1 - i))) by lia.
    rewrite seq_S, map_app. cbn [map]. f_equal. f_equal. f_equal. f_equal. lia.
  Qed.

  Lemma ptr_lt_same b off i j s : ptr_lt (PElt b off i) (PElt b off j) s = (Val (i <? j), s).
  Proof. unfold ptr_lt. rewrite Nat.eqb_refl. reflexivity. Qed.

  (* one front step: yields the first element of the window, touches nothing *)
  Lemma drain_next_spec s d b bl off i j r :
    drain_inv s d b bl off i j r ->
    drain_next cfg d s =
      (Val (if i <? j then (Some (slot_elem (slots bl i)), with_pos d (PElt b off (i + 1))) else (None, d)), s).
  Proof.
    intros [Hv Hb Hco Hp He Hr Ho Hi]. unfold drain_next. rewrite Hp, He.
    rewrite (bind_val _ _ _ _ _ (ptr_lt_same b off i j s)).
    destruct (Z.ltb_spec i j) as [L|G]; cbn [negb]; [|reflexivity].
    assert (R : 0 <= i < h_cap bl) by (pose proof (bo_len _ _ Hb); lia).
    pose proof (slot_read_at cfg s b bl off i Hcfg (proj2 Hv) Hb Hco R) as Hrd.
    destruct (Hi i ltac:(lia)) as [e Hie]. rewrite Hie in Hrd.
    rewrite (bind_val _ _ _ _ _ Hrd). rewrite Hie. reflexivity.
  Qed.

  Lemma drain_next_back_spec s d b bl off i j r :
    drain_inv s d b bl off i j r ->
    drain_next_back cfg d s =
      (Val (if i <? j then (Some (slot_elem (slots bl (j - 1))), with_end d (PElt b off (j - 1))) else (None, d)), s).
  Proof.
    intros [Hv Hb Hco Hp He Hr Ho Hi]. unfold drain_next_back. rewrite Hp, He.
    rewrite (bind_val _ _ _ _ _ (ptr_lt_same b off i j s)).
    destruct (Z.ltb_spec i j) as [L|G]; cbn [negb]; [|reflexivity].
    simpl padd. replace (j + -1) with (j - 1) by lia.
    assert (R : 0 <= j - 1 < h_cap bl) by (pose proof (bo_len _ _ Hb); lia).
    pose proof (slot_read_at cfg s b bl off (j - 1) Hcfg (proj2 Hv) Hb Hco R) as Hrd.
    destruct (Hi (j - 1) ltac:(lia)) as [e Hie]. rewrite Hie in Hrd.
    rewrite (bind_val _ _ _ _ _ Hrd). rewrite Hie. reflexivity.
  Qed.

  Lemma drain_hint_spec s d b bl off i j r :
    drain_inv s d b bl off i j r -> drain_hint d s = (Val (j - i), s).
  Proof.
    intros [Hv Hb Hco Hp He Hr Ho Hi]. unfold drain_hint, ptr_diff. rewrite Hp, He, Nat.eqb_refl. reflexivity.
  Qed.

  Lemma drain_inv_front s d b bl off i j r :
    drain_inv s d b bl off i j r -> i < j -> drain_inv s (with_pos d (PElt b off (i + 1))) b bl off (i + 1) j r.
  Proof. intros [Hv Hb Hco Hp He Hr Ho Hi] L. constructor; simpl; auto; try lia. intros k Hk. apply Hi. lia. Qed.

  Lemma drain_inv_back s d b bl off i j r :
    drain_inv s d b bl off i j r -> i < j -> drain_inv s (with_end d (PElt b off (j - 1))) b bl off i (j - 1) r.
  Proof. intros [Hv Hb Hco Hp He Hr Ho Hi] L. constructor; simpl; auto; try lia. intros k Hk. apply Hi. lia. Qed.

  (* any interleaving of steps *)
  Fixpoint drain_steps (d : drain_it) (steps : list istep) : M (list (option elem) * drain_it) :=
    match steps with
    | [] => ret ([], d)
    | st :: steps =>
        r <- (match st with SFront => drain_next cfg d | SBack => drain_next_back cfg d end) ;;
        rs <- drain_steps (snd r) steps ;;
        ret (fst r :: fst rs, snd rs)
    end.

  Lemma last_snoc {A} (l : list A) x d : last (l ++ [x]) d = x.
  Proof. induction l as [|y l IH]; simpl; [reflexivity|]. destruct (l ++ [x]) eqn:E; [destruct l; discriminate|exact IH]. Qed.
  Lemma removelast_snoc {A} (l : list A) x : removelast (l ++ [x]) = l.
  Proof. induction l as [|y l IH]; simpl; [reflexivity|]. destruct (l ++ [x]) eqn:E; [destruct l; discriminate|]. rewrite IH. reflexivity. Qed.

  (* C10 for Drain/Splice: for EVERY interleaving of front and back steps of ANY length the yielded
     values are exactly those of the double-ended cursor over the selected window, the state of the
     machine is untouched, the reported remaining count stays exact, and after the ends meet every
     further step yields None *)
  Theorem drain_protocol steps : forall s d b bl off i j r,
    drain_inv s d b bl off i j r ->
    exists d' i' j',
      drain_steps d steps s = (Val (fst (cursor (window bl i j) steps), d'), s) /\
      drain_inv s d' b bl off i' j' r /\ i <= i' /\ j' <= j /\
      window bl i' j' = snd (cursor (window bl i j) steps).
  Proof.
    induction steps as [|st steps IH]; intros s d b bl off i j r Hinv.
    - exists d, i, j. simpl. split; [reflexivity|]. split; [exact Hinv|]. split; [lia|]. split; [lia|]. reflexivity.
    - simpl drain_steps. destruct st.
      + rewrite (bind_val _ _ _ _ _ (drain_next_spec _ _ _ _ _ _ _ _ Hinv)).
        destruct (Z.ltb_spec i j) as [L|G]; cbn [fst snd].
        * destruct (IH s _ b bl off (i + 1) j r (drain_inv_front _ _ _ _ _ _ _ _ Hinv L)) as (d' & i' & j' & Hs & Hi' & H1 & H2 & Hw).
          rewrite (bind_val _ _ _ _ _ Hs). exists d', i', j'. cbn [fst snd].
          rewrite (window_cons bl i j L). simpl cursor.
          destruct (cursor (window bl (i + 1) j) steps) as [o rr] eqn:Ec. simpl in *.
          split; [reflexivity|]. split; [exact Hi'|]. split; [lia|]. split; [lia|]. exact Hw.
        * destruct (IH s d b bl off i j r Hinv) as (d' & i' & j' & Hs & Hi' & H1 & H2 & Hw).
          rewrite (bind_val _ _ _ _ _ Hs). exists d', i', j'. cbn [fst snd].
          rewrite (window_nil bl i j G) in *. simpl cursor.
          destruct (cursor [] steps) as [o rr] eqn:Ec. simpl in *. split; [reflexivity|]. split; [exact Hi'|]. split; [lia|]. split; [lia|]. exact Hw.
      + rewrite (bind_val _ _ _ _ _ (drain_next_back_spec _ _ _ _ _ _ _ _ Hinv)).
        destruct (Z.ltb_spec i j) as [L|G]; cbn [fst snd].
        * destruct (IH s _ b bl off i (j - 1) r (drain_inv_back _ _ _ _ _ _ _ _ Hinv L)) as (d' & i' & j' & Hs & Hi' & H1 & H2 & Hw).
          rewrite (bind_val _ _ _ _ _ Hs). exists d', i', j'. cbn [fst snd].
          rewrite (window_snoc bl i j L). simpl cursor.
          destruct (window bl i (j - 1) ++ [slot_elem (slots bl (j - 1))]) eqn:E; [destruct (window bl i (j - 1)); discriminate|].
          rewrite <- E. rewrite removelast_snoc, last_snoc.
          destruct (cursor (window bl i (j - 1)) steps) as [o rr] eqn:Ec. simpl in *.
          split; [reflexivity|]. split; [exact Hi'|]. split; [lia|]. split; [lia|]. exact Hw.
        * destruct (IH s d b bl off i j r Hinv) as (d' & i' & j' & Hs & Hi' & H1 & H2 & Hw).
          rewrite (bind_val _ _ _ _ _ Hs). exists d', i', j'. cbn [fst snd].
          rewrite (window_nil bl i j G) in *. simpl cursor.
          destruct (cursor [] steps) as [o rr] eqn:Ec. simpl in *. split; [reflexivity|]. split; [exact Hi'|]. split; [lia|]. split; [lia|]. exact Hw.
  Qed.

  Lemma drain_hint_exact s d b bl off i j r :
    drain_inv s d b bl off i j r -> Z.of_nat (List.length (window bl i j)) = j - i.
  Proof. intros [_ _ _ _ _ _ Ho _]. unfold window, slice_elems. rewrite map_length, seq_length. lia. Qed.

  (* creation: the length is cut to the start of the range BEFORE the iterator exists, so whatever
     happens to the iterator (including mem::forget) the vector exposes only the untouched prefix *)
  Lemma make_drain_spec s v b bl bs be fill a e :
    vec_at s v b bl -> block_ok cfg bl -> init_upto (slots bl) (h_len bl) ->
    resolve_pure bs be (h_len bl) = Some (a, e) -> 0 <= a ->
    exists off d,
      let bl' := with_hdr bl a (h_cap bl) (h_align bl) in
      let s' := upd_block s b bl' in
      make_drain cfg v bs be fill s = (Val d, s') /\ d_vec d = v /\ d_fill d = fill /\
      d_rem d = h_len bl - e /\
      drain_inv s' d b bl' off a e e /\
      velems bl' = firstn (Z.to_nat a) (velems bl).
  Proof.
    intros Hv Hb Hi Hres Ha.
    pose proof Hres as Hres'. apply resolve_pure_some in Hres'. destruct Hres' as (_ & _ & Hae).
    pose proof (bo_len _ _ Hb) as Hlen.
    destruct (as_ptr_at cfg _ _ _ _ Hcfg Hv Hb) as (off & Hco & Hp).
    set (d := {| d_vec := v; d_pos := PElt b off a; d_end := PElt b off e; d_rpos := PElt b off e;
                 d_rem := h_len bl - e; d_fill := fill |}).
    assert (Hm : make_drain cfg v bs be fill s = (Val d, upd_block s b (with_hdr bl a (h_cap bl) (h_align bl)))).
    { unfold make_drain.
      rewrite (bind_val _ _ _ _ _ (len_at cfg _ _ _ _ Hcfg Hv Hb)).
      assert (Hr : resolve bs be (h_len bl) s = (Val (a, e), s)) by (rewrite resolve_eq, Hres; reflexivity).
      rewrite (bind_val _ _ _ _ _ Hr).
      rewrite (bind_val _ _ _ _ _ Hp).
      rewrite (bind_val _ _ _ _ _ (set_len_at cfg s v b bl a Hcfg Hv Hb)).
      unfold d. simpl padd. rewrite ?Z.add_0_l. reflexivity. }
    exists off, d. cbv zeta.
    split; [exact Hm|]. split; [reflexivity|]. split; [reflexivity|]. split; [reflexivity|].
    split.
    - constructor; simpl; auto; try lia.
      + apply vec_at_upd with (bl := bl). assumption.
      + apply block_ok_with_len; [assumption|lia].
      + intros k Hk. apply Hi. lia.
    - unfold velems. simpl. symmetry. apply view_firstn. lia.
  Qed.

  (* C05 for Drain/Splice: between creation and drop the stepping does not touch the machine state
     (drain_protocol: the state component is returned unchanged), so forgetting the iterator after ANY
     steps leaves exactly the state of creation: the vector is the untouched prefix, still satisfying
     the layout invariant; the window and the tail are merely unreachable (leaked), never duplicated *)
  Theorem forget_after_any_steps s d b bl off i j r steps :
    drain_inv s d b bl off i j r ->
    exists out d', drain_steps d steps s = (Val (out, d'), s) /\
      vec_at s (d_vec d) b bl /\ block_ok cfg bl /\ init_upto (slots bl) (h_len bl).
  Proof.
    intros Hinv. destruct (drain_protocol steps s d b bl off i j r Hinv) as (d' & i' & j' & Hs & _).
    eexists. exists d'. split; [exact Hs|]. destruct Hinv as [Hv Hb _ _ _ _ _ Hi].
    split; [exact Hv|]. split; [exact Hb|]. intros k Hk. apply Hi. left. exact Hk.
  Qed.
End DrainIt.
