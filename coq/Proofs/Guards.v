(* Proofs/Guards.v -- C11: every guarded entry point rejects exactly the out-of-range
   arguments, by panicking, BEFORE any mutation: the whole machine state is unchanged (for
   insert the by-value element is destroyed by the unwinding, nothing else changes). *)
From Coq Require Import ZArith List Bool Lia.
From MV Require Import Ast Eval Scalar Machine.
From MV.Proofs Require Import Arith Logic Prim View OpsLocal.
Import ListNotations.
Open Scope Z_scope.

Section Resolve.
  (* range resolution without wrap-around: what std's RangeBounds resolution accepts *)
  Definition start_of (bs : bound) : option Z :=
    match bs with BIncl n => Some n | BExcl n => if n + 1 <? W64 then Some (n + 1) else None | BUnb => Some 0 end.
  Definition end_of (be : bound) (l : Z) : option Z :=
    match be with BIncl n => if n + 1 <? W64 then Some (n + 1) else None | BExcl n => Some n | BUnb => Some l end.
  Definition resolve_pure (bs be : bound) (l : Z) : option (Z * Z) :=
    match start_of bs, end_of be l with
    | Some s, Some e => if (s <=? e) && (e <=? l) then Some (s, e) else None
    | _, _ => None
    end.

  Lemma resolve_eq bs be l s :
    resolve bs be l s = (match resolve_pure bs be l with Some r => Val r | None => Panicking end, s).
  Proof.
    unfold resolve, resolve_pure, start_of, end_of, add_m, add_u, lift_opt, bind, ret, panic.
    destruct bs as [n|n|]; destruct be as [m|m|]; cbv zeta;
      repeat match goal with
             | |- context [if ?b then _ else _] => destruct b eqn:?
             end; try reflexivity;
      repeat match goal with
             | H : (_ <? _) = true |- _ => apply Z.ltb_lt in H
             | H : (_ <? _) = false |- _ => apply Z.ltb_ge in H
             | H : (_ <=? _) = true |- _ => apply Z.leb_le in H
             | H : (_ <=? _) = false |- _ => apply Z.leb_gt in H
             | H : (_ && _) = true |- _ => apply andb_true_iff in H; destruct H
             | H : (_ && _) = false |- _ => apply andb_false_iff in H; destruct H
             end; try lia.
  Qed.

  (* accepted ranges are exactly start <= end <= len, with Excluded(usize::MAX) as a start and
     Included(usize::MAX) as an end rejected instead of wrapping to 0 *)
  Lemma resolve_pure_some bs be l a b :
    resolve_pure bs be l = Some (a, b) <->
    (start_of bs = Some a /\ end_of be l = Some b /\ a <= b <= l).
  Proof.
    unfold resolve_pure. destruct (start_of bs) as [x|], (end_of be l) as [y|]; split; intros H;
      try discriminate; try (destruct H as (H1 & H2 & H3); discriminate).
    - destruct (Z.leb_spec x y), (Z.leb_spec y l); simpl in H; inversion H; subst. repeat split; lia.
    - destruct H as (H1 & H2 & H3). inversion H1; inversion H2; subst.
      destruct (Z.leb_spec a b), (Z.leb_spec b l); simpl; try lia. reflexivity.
  Qed.

  Lemma start_of_no_wrap : start_of (BExcl (W64 - 1)) = None.
  Proof. unfold start_of. destruct (Z.ltb_spec (W64 - 1 + 1) W64); [lia|reflexivity]. Qed.
  Lemma end_of_no_wrap l : end_of (BIncl (W64 - 1)) l = None.
  Proof. unfold end_of. destruct (Z.ltb_spec (W64 - 1 + 1) W64); [lia|reflexivity]. Qed.

End Resolve.

Section Guards.
  Variable cfg : tcfg.
  Variable ncap : Z -> option Z.

  Lemma drop_elem_keeps_vector s e r s' :
    drop_elem cfg e s = (r, s') -> heap s' = heap s /\ vecs s' = vecs s /\ iters s' = iters s.
  Proof.
    unfold drop_elem. destruct (negb (tracked cfg)); [intros H; inversion H; auto|].
    unfold bind, status_of, get, set_ledger, emit, ub, panic, ret. simpl.
    destruct (ledger s e); intros H; inversion H; subst; auto.
    destruct (mem e (drop_panics s)); inversion H; subst; auto.
  Qed.

  Variable s : state.
  Variable v : nat.
  Variable l : Z.
  Hypothesis Hlen : len v s = (Val l, s).

  Lemma remove_oob idx : l <= idx -> remove cfg v idx s = (Panicking, s).
  Proof. intros H. unfold remove. rewrite (bind_val _ _ _ _ _ Hlen). apply Z.leb_le in H. rewrite H. reflexivity. Qed.

  Lemma swap_remove_oob idx : l <= idx -> swap_remove cfg v idx s = (Panicking, s).
  Proof. intros H. unfold swap_remove. rewrite (bind_val _ _ _ _ _ Hlen). apply Z.leb_le in H. rewrite H. reflexivity. Qed.

  Lemma split_off_oob o at_ : l < at_ -> split_off cfg v o at_ s = (Panicking, s).
  Proof. intros H. unfold split_off. rewrite (bind_val _ _ _ _ _ Hlen). apply Z.ltb_lt in H. rewrite H. reflexivity. Qed.

  (* insert: the rejected call only destroys the element it was given *)
  Lemma insert_oob idx e : l < idx ->
    insert cfg ncap v idx e s =
      (match drop_elem cfg e s with
       | (Val _, s') => (Panicking, s')
       | (Panicking, s') => (Abort, s')
       | (UB k, s') => (UB k, s')
       | (AllocAbort x y, s') => (AllocAbort x y, s')
       | (Abort, s') => (Abort, s')
       | (OutOfFuel, s') => (OutOfFuel, s')
       end).
  Proof.
    intros H. unfold insert, on_unwind. rewrite (bind_val _ _ _ _ _ Hlen).
    apply Z.ltb_lt in H. rewrite H. unfold bind at 1. unfold panic at 1.
    destruct (drop_elem cfg e s) as [[u| | | | |] s']; reflexivity.
  Qed.

  Lemma make_drain_reject bs be fill : resolve_pure bs be l = None ->
    make_drain cfg v bs be fill s = (Panicking, s).
  Proof.
    intros H. unfold make_drain. rewrite (bind_val _ _ _ _ _ Hlen).
    unfold bind at 1. rewrite resolve_eq, H. reflexivity.
  Qed.

  Lemma extend_from_within_reject bs be : resolve_pure bs be l = None ->
    extend_from_within cfg ncap v bs be s = (Panicking, s).
  Proof.
    intros H. unfold extend_from_within. rewrite (bind_val _ _ _ _ _ Hlen).
    unfold bind at 1. rewrite resolve_eq, H. reflexivity.
  Qed.

  Lemma truncate_noop n : l <= n -> truncate cfg v n s = (Val tt, s).
  Proof. intros H. unfold truncate. rewrite (bind_val _ _ _ _ _ Hlen). apply Z.leb_le in H. rewrite H. reflexivity. Qed.
End Guards.
