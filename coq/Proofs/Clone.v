(* Proofs/Clone.v -- Clone for MiniVec is DEEP and INDEPENDENT: the clone owns a block of its own
   holding newly created elements (T::clone ran once per element, in order) with the payloads of the
   originals; the source vector, its block and its elements are untouched. *)
From Coq Require Import ZArith List Bool Lia Permutation.
From MV Require Import Ast Eval Scalar Machine.
From MV.Proofs Require Import Arith Logic Prim View OpsLocal Guards Grow CapHistory Drops Retain Deref Sentinel Core Refine.
Import ListNotations.
Open Scope Z_scope.

Section Clone.
  Variable cfg : tcfg.
  Variable ncap : Z -> option Z.
  Hypothesis Hcfg : cfg_ok cfg.
  Hypothesis Hpol : policy_ok ncap.
  Hypothesis Htracked : needs_drop cfg = true.

  Local Notation vabs := (vabs cfg).

  Local Notation clone_go := (clone_go cfg ncap).

  Lemma clone_vec_unfold v w :
    clone_vec cfg ncap v w =
    (d <- is_default v ;;
     if d then new_vec cfg w else
     new_vec cfg w ;;;
     building cfg w (l <- len v ;; reserve cfg ncap w l ;;; l2 <- len v ;; clone_go v w (Z.to_nat l2) 0 l2)).
  Proof. reflexivity. Qed.

  (* consecutive identities *)
  Fixpoint zseq (a : Z) (n : nat) : list Z :=
    match n with O => [] | S n => a :: zseq (a + 1) n end.
  Lemma zseq_length a n : List.length (zseq a n) = n.
  Proof. revert a; induction n; intros; simpl; auto. Qed.
  Lemma zseq_in a n x : In x (zseq a n) <-> a <= x < a + Z.of_nat n.
  Proof.
    revert a; induction n as [|n IH]; intros a; simpl; [lia|].
    rewrite IH. lia.
  Qed.
  Lemma zseq_nodup a n : NoDup (zseq a n).
  Proof.
    revert a; induction n as [|n IH]; intros a; simpl; constructor; auto.
    rewrite zseq_in. lia.
  Qed.
  Lemma zseq_snoc a n : zseq a (S n) = zseq a n ++ [a + Z.of_nat n].
  Proof.
    revert a; induction n as [|n IH]; intros a.
    - simpl. f_equal. lia.
    - change (zseq a (S (S n))) with (a :: zseq (a + 1) (S n)). rewrite IH. simpl. f_equal. f_equal. f_equal. lia.
  Qed.
  Lemma zseq_nth a n j : (j < n)%nat -> nth j (zseq a n) 0 = a + Z.of_nat j.
  Proof.
    revert a j; induction n as [|n IH]; intros a j Hj; [lia|]. destruct j as [|j]; simpl; [lia|].
    rewrite IH by lia. lia.
  Qed.

  (* T::clone on a live element that does not panic: a new live element with the same payload *)
  Lemma clone_elem_spec s e :
    ledger s e = Live -> mem e (clone_panics s) = false ->
    exists s', clone_elem cfg e s = (Val (next_elem s), s') /\
      heap s' = heap s /\ vecs s' = vecs s /\ iters s' = iters s /\
      next_elem s' = next_elem s + 1 /\ clone_panics s' = clone_panics s /\ drop_panics s' = drop_panics s /\
      ledger s' = upd (ledger s) (next_elem s) Live /\
      payload s' = upd (payload s) (next_elem s) (payload s e).
  Proof.
    intros Hl Hnp. unfold clone_elem, tracked. rewrite Htracked. cbn [negb].
    rewrite (bind_val _ _ _ _ _ (expose_live cfg s e (or_intror Hl))).
    unfold bind at 1. unfold get. rewrite Hnp.
    eexists. split; [reflexivity|]. simpl. repeat split; reflexivity.
  Qed.

  (* what stays the same between two states for everybody but the clone under construction *)
  Record cloning (s s' : state) (n0 : Z) (k : nat) (src : list elem) (i0 : Z) : Prop := {
    cl_next : next_elem s' = n0 + Z.of_nat k;
    cl_old_ledger : forall e, e < n0 -> ledger s' e = ledger s e;
    cl_old_payload : forall e, e < n0 -> payload s' e = payload s e;
    cl_new_live : forall j, (j < k)%nat -> ledger s' (n0 + Z.of_nat j) = Live;
    cl_new_payload : forall j, (j < k)%nat ->
        payload s' (n0 + Z.of_nat j) = payload s (nth (Z.to_nat i0 + j) src 0);
    cl_cp : clone_panics s' = clone_panics s;
    cl_vecs : vecs s' = vecs s;
    cl_len : List.length (heap s') = List.length (heap s) }.

  Lemma nth_error_Some_lt_local {A} (l0 : list A) k x : nth_error l0 k = Some x -> (k < List.length l0)%nat.
  Proof. intros H. apply nth_error_Some. congruence. Qed.

  Lemma uadd_one a : 0 <= a -> a + 1 < W64 -> forall s, uadd cfg a 1 s = (Val (a + 1), s).
  Proof. intros H0 H1 s. unfold uadd. assert (E : (a + 1 <? W64) = true) by (apply Z.ltb_lt; lia). rewrite E. reflexivity. Qed.

  Lemma clone_go_spec v w b bl bw : forall n fuel i s0 s blw, (n <= fuel)%nat ->
    (* the source *)
    vec_at s v b bl -> block_ok cfg bl -> owned s bl ->
    (forall e, In e (velems bl) -> e < next_elem s0) ->
    (forall e, In e (velems bl) -> mem e (clone_panics s) = false) ->
    (* the clone so far: i elements, the consecutive identities created since s0 *)
    vec_at s w bw blw -> block_ok cfg blw -> b <> bw ->
    h_len blw = i -> velems blw = zseq (next_elem s0) (Z.to_nat i) -> init_upto (slots blw) i ->
    cloning s0 s (next_elem s0) (Z.to_nat i) (velems bl) 0 ->
    0 <= i -> i + Z.of_nat n = h_len bl -> h_len bl <= h_cap blw ->
    exists s' blw',
      clone_go v w fuel i (h_len bl) s = (Val tt, s') /\
      vec_at s' v b bl /\ vec_at s' w bw blw' /\ block_ok cfg blw' /\
      h_len blw' = h_len bl /\ velems blw' = zseq (next_elem s0) (Z.to_nat (h_len bl)) /\
      init_upto (slots blw') (h_len bl) /\
      cloning s0 s' (next_elem s0) (Z.to_nat (h_len bl)) (velems bl) 0 /\
      (forall b', b' <> bw -> nth_error (heap s') b' = nth_error (heap s) b').
  Proof.
    induction n as [|n IH]; intros fuel i s0 s blw Hfuel Hv Hb Ho Hold Hnp Hw Hbw Hne Hli Hvel Hinit Hcl Hi0 Hin Hcap.
    - assert (Ei : i = h_len bl) by lia.
      assert (Eg : clone_go v w fuel i (h_len bl) s = (Val tt, s)).
      { destruct fuel; simpl; rewrite Ei, Z.ltb_irrefl; reflexivity. }
      exists s, blw. rewrite Eg. rewrite Ei in *.
      split; [reflexivity|]. split; [exact Hv|]. split; [exact Hw|]. split; [exact Hbw|]. split; [exact Hli|].
      split; [exact Hvel|]. split; [exact Hinit|]. split; [exact Hcl|]. intros; reflexivity.
    - pose proof (bo_len _ _ Hb) as Hlen.
      destruct fuel as [|fuel]; [lia|].
      cbn [Machine.clone_go].
      assert (Econd : (i <? h_len bl) = true) by (apply Z.ltb_lt; lia). rewrite Econd.
      rewrite (bind_val _ _ _ _ _ (deref_at cfg Hcfg s v b bl Hv Hb (ow_init _ _ Ho) (ow_nodup _ _ Ho)
                                     (fun e He => or_intror (ow_live _ _ Ho e He)))).
      assert (Hilt : i < h_len bl) by lia.
      destruct (ow_init _ _ Ho i ltac:(lia)) as [e He].
      assert (Hnth : nth_error (velems bl) (Z.to_nat i) = Some e).
      { unfold velems. rewrite view_nth by lia. rewrite He. reflexivity. }
      rewrite Hnth.
      pose proof (nth_error_In _ _ Hnth) as HeIn.
      destruct (clone_elem_spec s e (ow_live _ _ Ho e HeIn) (Hnp e HeIn))
        as (s1 & Hce & Hh1 & Hv1 & Hi1 & Hn1 & Hcp1 & Hdp1 & Hl1 & Hp1).
      rewrite (bind_val _ _ _ _ _ Hce).
      set (c := next_elem s) in *.
      assert (Hc : c = next_elem s0 + i) by (unfold c; rewrite (cl_next _ _ _ _ _ _ Hcl); lia).
      assert (Hw1 : vec_at s1 w bw blw) by (destruct Hw as [A B]; split; [rewrite Hv1; exact A|rewrite Hh1; exact B]).
      destruct (push_fits cfg ncap Hcfg s1 w bw blw c Hw1 Hbw ltac:(lia)) as (s2 & Hpush & Hw2 & Hfr & Hbw2 & Hvel2 & Hinit2).
      rewrite (bind_val _ _ _ _ _ Hpush).
      rewrite (bind_val _ _ _ _ _ (uadd_one i Hi0 ltac:(pose proof (bo_cap _ _ Hbw); lia) s2)).
      set (blw2 := with_hdr (with_slots blw (upd (slots blw) (h_len blw) (Init c))) (h_len blw + 1) (h_cap blw) (h_align blw)) in *.
      assert (Hv2 : vec_at s2 v b bl).
      { destruct Hv as [A B]. split; [rewrite (fb_vecs _ _ _ Hfr), Hv1; exact A|].
        rewrite (fb_other _ _ _ Hfr b Hne), Hh1. exact B. }
      assert (Hled2 : ledger s2 = upd (ledger s) c Live) by (rewrite (fb_ledger _ _ _ Hfr); exact Hl1).
      assert (Hold_s : forall x, In x (velems bl) -> x < c).
      { intros x Hx. specialize (Hold x Hx). rewrite Hc. lia. }
      assert (Ho2 : owned s2 bl).
      { destruct Ho as [A B C D]. constructor; auto.
        - intros x Hx. rewrite Hled2. unfold upd. destruct (Z.eqb_spec x c); [specialize (Hold_s x Hx); lia|apply C; exact Hx].
        - intros x Hx. rewrite (fb_next _ _ _ Hfr), Hn1. specialize (D x Hx). lia. }
      assert (Hnp2 : forall x, In x (velems bl) -> mem x (clone_panics s2) = false).
      { intros x Hx. rewrite (fb_cp _ _ _ Hfr), Hcp1. apply Hnp. exact Hx. }
      assert (Hcl2 : cloning s0 s2 (next_elem s0) (Z.to_nat (i + 1)) (velems bl) 0).
      { destruct Hcl as [C1 C2 C3 C4 C5 C6 C7 C8].
        replace (Z.to_nat (i + 1)) with (S (Z.to_nat i)) by lia.
        constructor.
        - rewrite (fb_next _ _ _ Hfr), Hn1. fold c. lia.
        - intros x Hx. rewrite Hled2. unfold upd. destruct (Z.eqb_spec x c); [lia|]. apply C2. exact Hx.
        - intros x Hx. rewrite (fb_payload _ _ _ Hfr), Hp1. unfold upd. destruct (Z.eqb_spec x c); [lia|]. apply C3. exact Hx.
        - intros j Hj. rewrite Hled2. unfold upd. destruct (Z.eqb_spec (next_elem s0 + Z.of_nat j) c); [reflexivity|].
          apply C4. lia.
        - intros j Hj. rewrite (fb_payload _ _ _ Hfr), Hp1. unfold upd.
          destruct (Z.eqb_spec (next_elem s0 + Z.of_nat j) c) as [E|N].
          + assert (j = Z.to_nat i) by lia. subst j.
            rewrite (C3 e (Hold e HeIn)). f_equal.
            change (Z.to_nat 0) with O. cbn [Nat.add]. symmetry. apply nth_error_nth with (d := 0) in Hnth. exact Hnth.
          + apply C5. lia.
        - rewrite (fb_cp _ _ _ Hfr), Hcp1. exact C6.
        - rewrite (fb_vecs _ _ _ Hfr), Hv1. exact C7.
        - rewrite (fb_len _ _ _ Hfr), Hh1. exact C8. }
      assert (Hvelw2 : velems blw2 = zseq (next_elem s0) (Z.to_nat (i + 1))).
      { rewrite Hvel2, Hvel. replace (Z.to_nat (i + 1)) with (S (Z.to_nat i)) by lia. rewrite zseq_snoc. f_equal. f_equal. lia. }
      destruct (IH fuel (i + 1) s0 s2 blw2 ltac:(lia) Hv2 Hb Ho2 Hold Hnp2 Hw2 Hbw2 Hne ltac:(simpl; lia) Hvelw2
                   ltac:(rewrite <- Hli; apply Hinit2; rewrite Hli; exact Hinit) Hcl2 ltac:(lia) ltac:(lia) ltac:(simpl; exact Hcap))
        as (s' & blw' & Hgo & G1 & G2 & G3 & G4 & G5 & G6 & G7 & G8).
      exists s', blw'. split; [exact Hgo|]. repeat (split; [assumption|]).
      intros b' Hb'. rewrite (G8 b' Hb'). rewrite (fb_other _ _ _ Hfr b') by congruence. rewrite Hh1. reflexivity.
  Qed.

  (* ------------------------------------------------------------------ helpers about names *)
  Lemma flat_some {A} (o : option (option A)) x : flat o = Some x -> o = Some (Some x).
  Proof. destruct o as [[y|]|]; simpl; intros H; inversion H; reflexivity. Qed.

  Lemma set_handle_other s w h v hv :
    v <> w -> nth_error (vecs s) v = Some (Some hv) ->
    exists s', set_handle w h s = (Val tt, s') /\ heap s' = heap s /\ ledger s' = ledger s /\ payload s' = payload s /\
               next_elem s' = next_elem s /\ clone_panics s' = clone_panics s /\
               nth_error (vecs s') v = Some (Some hv) /\ nth_error (vecs s') w = Some h.
  Proof.
    intros Hne Hv. eexists. split; [reflexivity|]. simpl. repeat split.
    - apply flat_some. rewrite list_put_other by congruence. rewrite Hv. reflexivity.
    - apply list_put_same.
  Qed.

  (* reserve(n) on a vector that has never allocated: a first block with room for n elements *)
  Lemma reserve_sentinel s v n : vec_sentinel s v -> 0 < n < W64 ->
    post (reserve cfg ncap v n s)
      (fun _ s' => exists size c1, n <= c1 /\ block_ok cfg (fresh_block size (max_align cfg) 0 c1 (max_align cfg)) /\
                                   allocated s s' v (fresh_block size (max_align cfg) 0 c1 (max_align cfg)))
      (fun s' => s' = s).
  Proof.
    intros Hs Hn. destruct (sentinel_basics cfg s v Hs) as (Hl & Hc & Hal). unfold reserve.
    rewrite (bind_val _ _ _ _ _ Hc), (bind_val _ _ _ _ _ Hl).
    unfold add_m, add_u. cbv zeta. rewrite Z.add_0_l.
    assert (E : (n <? W64) = true) by (apply Z.ltb_lt; lia). rewrite E.
    rewrite lift_opt_some, bind_ret.
    assert (E0 : (n <=? 0) = false) by (apply Z.leb_gt; lia). rewrite E0.
    destruct (ncap 0) as [c1|] eqn:E1; [|simpl; reflexivity].
    rewrite lift_opt_some, bind_ret.
    destruct (Hpol 0 c1 ltac:(lia) E1) as (H1 & H2 & H3).
    assert (Hpow : n < c1 * 2 ^ Z.of_nat 130).
    { assert (W64 <= 2 ^ Z.of_nat 130) by (rewrite W64_val; vm_compute; discriminate). nia. }
    eapply post_bind; [apply (reserve_loop_spec ncap 130 c1 n s Hpol H1 Hpow)|].
    intros nc s' (-> & Hx & Hy & Hz & Hw).
    rewrite (bind_val _ _ _ _ _ Hal).
    eapply post_weaken; [apply (grow_sentinel cfg ncap Hcfg s v nc (max_align cfg) Hs ltac:(destruct Hw; lia) (max_align_pow2 cfg Hcfg) ltac:(lia))| |].
    - intros u s' [(E' & _)|(size & _ & Hbn & Hall)]; [lia|]. exists size, nc. auto.
    - intros s' [-> _]. reflexivity.
  Qed.

  (* ------------------------------------------------------------------ the theorem *)
  (* Clone for MiniVec: the source is untouched; the clone holds length-many NEW elements -- the
     consecutive identities created by this call, one T::clone per source element in order -- whose
     payloads are the sources'; the two vectors live in different blocks; no element that existed
     before is touched.  (No element's clone panics here; capacity overflow is the only panic.) *)
  Theorem clone_vec_spec s v w l :
    vabs s v l -> v <> w -> (forall e, In e l -> mem e (clone_panics s) = false) ->
    post (clone_vec cfg ncap v w s)
      (fun _ s' =>
         vabs s' v l /\ vabs s' w (zseq (next_elem s) (List.length l)) /\
         (forall j, (j < List.length l)%nat -> payload s' (next_elem s + Z.of_nat j) = payload s (nth j l 0)) /\
         (forall e, e < next_elem s -> ledger s' e = ledger s e /\ payload s' e = payload s e) /\
         next_elem s' = next_elem s + Z.of_nat (List.length l) /\
         (forall b1 bl1 b2 bl2, vec_at s' v b1 bl1 -> vec_at s' w b2 bl2 -> b1 <> b2))
      (fun s' => vabs s' v l).
  Proof.
    intros Hab Hvw Hnp. rewrite clone_vec_unfold.
    assert (Hesz : (esz cfg =? 0) = false) by (destruct Hcfg as ((He & _) & _); apply Z.eqb_neq; lia).
    destruct Hab as [[Hs ->]|(b & bl & Hv & Hb & Ho & Hl)].
    - (* the source has never allocated: so does the clone *)
      assert (Hd : is_default v s = (Val true, s)) by (apply (sn_is_default s v Hs)).
      rewrite (bind_val _ _ _ _ _ Hd). unfold new_vec. rewrite Hesz.
      destruct (set_handle_other s w (Some Sentinel) v Sentinel Hvw Hs) as (s1 & E & H1 & H2 & H3 & H4 & H5 & H6 & H7).
      rewrite E. simpl.
      split; [left; split; [exact H6|reflexivity]|]. split; [left; split; [exact H7|reflexivity]|].
      split; [intros j Hj; lia|]. split; [intros e He; rewrite H2, H3; auto|]. split; [lia|].
      intros b1 bl1 b2 bl2 [A _] _. unfold vec_sentinel in H6. congruence.
    - pose proof (bo_len _ _ Hb) as Hlen. pose proof (bo_cap _ _ Hb) as Hcapw.
      pose proof (velems_length bl ltac:(lia)) as Hvl.
      rewrite (bind_val _ _ _ _ _ (is_default_at _ _ _ _ Hv)). unfold new_vec. rewrite Hesz.
      destruct (set_handle_other s w (Some Sentinel) v (At b 0) Hvw (proj1 Hv)) as (s1 & E & H1 & H2 & H3 & H4 & H5 & H6 & H7).
      rewrite (bind_val _ _ _ _ _ E).
      assert (Hv1 : vec_at s1 v b bl) by (split; [exact H6|rewrite H1; exact (proj2 Hv)]).
      assert (Ho1 : owned s1 bl).
      { destruct Ho as [A B C D]. constructor; auto; [intros e He; rewrite H2; auto|intros e He; rewrite H4; auto]. }
      assert (Hkeep : forall s', vec_at s' v b bl -> owned s' bl -> vabs s' v l) by (intros s' A B; right; exists b, bl; auto).
      unfold building.
      eapply post_on_unwind with (Qp1 := fun s' => s' = s1).
      2:{ intros s' ->. destruct (sn_drop cfg s1 w H7) as (s2 & Ed & Hh2 & _). rewrite Ed. simpl.
          (* the never-allocated local is dropped: nothing else changes *)
          unfold drop_vec, try_finally, drop_body in Ed. rewrite (bind_val _ _ _ _ _ (sn_is_default s1 w H7)) in Ed.
          cbn [ret] in Ed. unfold set_handle, bind, get, set_vecs in Ed. inversion Ed; subst s2. clear Ed.
          apply Hkeep.
          - split; [simpl; apply flat_some; rewrite list_put_other by congruence; rewrite H6; reflexivity|simpl; exact (proj2 Hv1)].
          - destruct Ho1 as [A B C D]. constructor; auto. }
      rewrite (bind_val _ _ _ _ _ (len_at cfg _ _ _ _ Hcfg Hv1 Hb)).
      destruct (Z.eq_dec (h_len bl) 0) as [E0|N0].
      + (* an empty source: nothing to reserve, nothing to clone *)
        rewrite E0.
        assert (Hres : reserve cfg ncap w 0 s1 = (Val tt, s1)).
        { unfold reserve. destruct (sentinel_basics cfg s1 w H7) as (Hl1 & Hc1 & _).
          rewrite (bind_val _ _ _ _ _ Hc1), (bind_val _ _ _ _ _ Hl1). unfold add_m, add_u. cbv zeta. reflexivity. }
        rewrite (bind_val _ _ _ _ _ Hres).
        rewrite (bind_val _ _ _ _ _ (len_at cfg _ _ _ _ Hcfg Hv1 Hb)). rewrite E0.
        change (Z.to_nat 0) with O. cbn [Machine.clone_go].
        assert (Hnil : l = []) by (apply length_zero_iff_nil; rewrite <- Hl; lia). simpl.
        rewrite Hnil. simpl.
        split; [rewrite <- Hnil; apply Hkeep; assumption|]. split; [left; split; [exact H7|reflexivity]|].
        split; [intros j Hj; lia|]. split; [intros e He; rewrite H2, H3; auto|]. split; [lia|].
        intros b1 bl1 b2 bl2 _ [A _]. unfold vec_sentinel in H7. congruence.
      + eapply post_bind.
        { eapply post_weaken; [apply (reserve_sentinel s1 w (h_len bl) H7 ltac:(lia))| |].
          - intros u s' H. exact H.
          - intros s' ->. reflexivity. }
        intros u s2 (size & c1 & Hc1 & Hbn & Hal).
        set (nbl := fresh_block size (max_align cfg) 0 c1 (max_align cfg)) in *.
        pose proof (allocated_vec_at _ _ _ _ Hal) as Hw2.
        set (bw := List.length (heap s1)) in *.
        assert (Hbl : (b < bw)%nat) by (unfold bw; apply nth_error_Some; rewrite (proj2 Hv1); discriminate).
        assert (Hv2 : vec_at s2 v b bl).
        { split.
          - rewrite (al_vecs _ _ _ _ Hal). apply flat_some. rewrite list_put_other by congruence. rewrite H6. reflexivity.
          - rewrite (al_heap _ _ _ _ Hal). rewrite nth_error_app1 by exact Hbl. exact (proj2 Hv1). }
        pose proof (al_same _ _ _ _ Hal) as Hse.
        assert (Ho2 : owned s2 bl).
        { destruct Ho1 as [A B C D]. constructor; auto; [intros e He; rewrite (se_ledger _ _ Hse); auto|intros e He; rewrite (se_next _ _ Hse); auto]. }
        assert (Hcl0 : cloning s2 s2 (next_elem s2) (Z.to_nat 0) (velems bl) 0).
        { constructor; auto; try lia; intros j Hj; simpl in Hj; lia. }
        destruct (clone_go_spec v w b bl bw (Z.to_nat (h_len bl)) (Z.to_nat (h_len bl)) 0 s2 s2 nbl ltac:(lia) Hv2 Hb Ho2
                    (ow_old _ _ Ho2)
                    ltac:(intros e He; rewrite (se_cp _ _ Hse), H5; apply Hnp; rewrite <- Hl; exact He)
                    Hw2 Hbn ltac:(lia) eq_refl eq_refl ltac:(intros i Hi; simpl in Hi; lia) Hcl0 ltac:(lia) ltac:(lia) ltac:(simpl; lia))
          as (s3 & blw & Hgo & G1 & G2 & G3 & G4 & G5 & G6 & G7 & G8).
        rewrite (bind_val _ _ _ _ _ (len_at cfg _ _ _ _ Hcfg Hv2 Hb)).
        rewrite Hgo. simpl.
        assert (Hn2 : next_elem s2 = next_elem s) by (rewrite (se_next _ _ Hse); exact H4).
        assert (Hlen_l : Z.to_nat (h_len bl) = List.length l) by (rewrite <- Hl; lia).
        destruct G7 as [C1 C2 C3 C4 C5 C6 C7 C8].
        assert (Hold2 : forall e, e < next_elem s -> ledger s3 e = ledger s e /\ payload s3 e = payload s e).
        { intros e He. rewrite C2, C3 by lia. rewrite (se_ledger _ _ Hse), (se_payload _ _ Hse), H2, H3. auto. }
        split.
        { apply Hkeep; [exact G1|]. destruct Ho as [A B C D]. constructor; auto.
          - intros e He. rewrite (proj1 (Hold2 e (D e He))). apply C. exact He.
          - intros e He. specialize (D e He). lia. }
        split.
        { right. exists bw, blw. split; [exact G2|]. split; [exact G3|]. split; [|rewrite G5, Hn2, Hlen_l; reflexivity].
          constructor.
          - rewrite G4. exact G6.
          - rewrite G5. apply zseq_nodup.
          - intros e He. rewrite G5 in He. apply zseq_in in He.
            replace e with (next_elem s2 + Z.of_nat (Z.to_nat (e - next_elem s2))) by lia. apply C4. lia.
          - intros e He. rewrite G5 in He. apply zseq_in in He. lia. }
        split.
        { intros j Hj. rewrite <- Hn2. rewrite C5 by lia. rewrite (se_payload _ _ Hse), H3. rewrite Hl. reflexivity. }
        split; [exact Hold2|]. split; [lia|].
        intros b1 bl1 b2 bl2 [A1 _] [A2 _]. destruct G1 as [B1 _], G2 as [B2 _].
        assert (b1 = b) by congruence. assert (b2 = bw) by congruence. lia.
  Qed.
  (* ------------------------------------------------------------------ the body as written *)
  (* clone_body (the function the regenerated `impl Clone` is tied to, EquivClone.v) is clone_vec with the
     result's name chosen as the first unused one, without the unwinding glue: in particular its loop does
     not run out of fuel where clone_vec's theorem applies -- the premise of EquivClone.clone_equiv *)
  Lemma clone_body_fuel s v l :
    vabs s v l -> (forall e, In e l -> mem e (clone_panics s) = false) ->
    fst (clone_body cfg ncap v s) <> OutOfFuel.
  Proof.
    intros Hab Hnp.
    set (w := List.length (vecs s)).
    assert (Hvw : v <> w).
    { destruct Hab as [[Hs _]|(b & bl & [Hv _] & _)]; unfold vec_sentinel in *; unfold w;
        intros ->; match goal with H : nth_error (vecs s) (List.length (vecs s)) = Some _ |- _ =>
                     apply nth_error_Some_lt_local in H; lia end. }
    pose proof (clone_vec_spec s v w l Hab Hvw Hnp) as Hspec.
    unfold clone_body, clone_vec in *.
    unfold bind at 1. unfold bind at 1 in Hspec.
    destruct (is_default v s) as [[d| | | | |] s1] eqn:Ed; simpl; try discriminate; try (simpl in Hspec; contradiction).
    assert (Hs1 : s1 = s).
    { unfold is_default, bind, vec_handle, ret in Ed. destruct (nth_error (vecs s) v) as [[h|]|]; inversion Ed; reflexivity. }
    subst s1.
    assert (Hnew : new_obj cfg s = (match new_vec cfg w s with (Val _, s') => (Val w, s') | (Panicking, s') => (Panicking, s')
                                    | (UB k, s') => (UB k, s') | (AllocAbort x y, s') => (AllocAbort x y, s')
                                    | (Abort, s') => (Abort, s') | (OutOfFuel, s') => (OutOfFuel, s') end)).
    { unfold new_obj, bind, get, ret. fold w. destruct (new_vec cfg w s) as [[u| | | | |] s']; reflexivity. }
    destruct d.
    - rewrite Hnew. destruct (new_vec cfg w s) as [[u| | | | |] s'] eqn:En; simpl in *; try discriminate; try contradiction.
    - unfold bind at 1. rewrite Hnew. unfold bind at 1 in Hspec.
      destruct (new_vec cfg w s) as [[u| | | | |] s'] eqn:En; simpl in *; try discriminate; try contradiction.
      unfold building, on_unwind in Hspec. unfold bind at 1.
      destruct (clone_fill cfg ncap v w s') as [[u'| | | | |] s''] eqn:Ef; simpl in *; try discriminate; try contradiction.
  Qed.
End Clone.
