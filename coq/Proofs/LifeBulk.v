(* Proofs/LifeBulk.v -- the whole life of a vector with the closure-driven bulk operations: an empty vector,
   ANY history of push / insert / pop / remove / swap_remove / truncate / capacity operations /
   retain(any predicate script) / extend(any iterator script) with every panic caught, then drop: every
   element ever created has been handed out or destroyed, the vector's name is gone. *)
From Coq Require Import ZArith List Bool Lia Permutation.
From MV Require Import Ast Eval Scalar Machine.
From MV.Proofs Require Import Arith Logic Prim View OpsLocal Guards Grow CapHistory Drops Retain RetainSpec Sentinel Core Refine Clone Extend RetainAbs History Life.
Import ListNotations.
Open Scope Z_scope.

Section LifeBulk.
  Variable cfg : tcfg.
  Variable ncap : Z -> option Z.
  Hypothesis Hcfg : cfg_ok cfg.
  Hypothesis Hpol : policy_ok ncap.
  Hypothesis Htracked : needs_drop cfg = true.

  Definition life_bulk (v : nat) (os : list hop) : M unit :=
    bind (run_hops cfg ncap v os) (fun _ => drop_vec cfg v).

  Theorem whole_life_bulk_nothing_lost v os s :
    vec_sentinel s v -> all_settled s -> Forall hop_ok os ->
    let Q := fun s' => all_settled s' /\ nth_error (vecs s') v = Some None in
    post (life_bulk v os s) (fun _ s' => Q s') Q.
  Proof.
    intros Hs Hacc Hargs Q. unfold life_bulk.
    eapply post_bind.
    - eapply post_weaken; [apply (history_refines_list_spec_bulk cfg ncap Hcfg Hpol Htracked v os s [])| |].
      + split; [left; auto|exact Hacc].
      + exact Hargs.
      + intros u s' H. exact H.
      + intros s' [].
    - intros u s' (l' & _ & Hab & Hac).
      assert (Hfin : forall s'', dropped_all s' s'' v l' -> Q s'').
      { intros s'' [H1 H2 H3]. split; [|exact H3].
        eapply acc_step; [exact Hac|exact H2| |].
        - intros e He. right. exact (H1 e He).
        - intros e He. right. exact He. }
      eapply post_weaken; [apply (drop_vec_abs cfg Hcfg Htracked s' v l' Hab)| |].
      + intros u' s'' [H _]. apply Hfin. exact H.
      + intros s'' (H & _ & _). apply Hfin. exact H.
  Qed.
End LifeBulk.
