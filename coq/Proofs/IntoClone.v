(* Proofs/IntoClone.v -- IntoIter::clone at ANY point of the iterator's consumption: the clone holds
   one NEW element per element the original still holds, in order, with the sources' payloads, in a
   block of its own; the original iterator, its block and its elements are untouched; nothing else
   changes.  (No element's Clone panics here; a refused capacity is the only panic and leaves the
   original untouched.) *)
From Coq Require Import ZArith List Bool Lia Permutation.
From MV Require Import Ast Eval Scalar Machine.
From MV.Proofs Require Import Arith Logic Prim View OpsLocal Guards Grow CapHistory Drops Retain DrainIt Deref IntoIt Sentinel Core Refine Clone SplitOff.
Import ListNotations.
Open Scope Z_scope.

Section IntoClone.
  Variable cfg : tcfg.
  Variable ncap : Z -> option Z.
  Hypothesis Hcfg : cfg_ok cfg.
  Hypothesis Hpol : policy_ok ncap.
  Hypothesis Htracked : needs_drop cfg = true.

  (* cloning a list of elements onto the end of a vector whose block has room for all of them: every
     push is in place, only that block changes *)
  Lemma push_clones_fits w bw (all : list elem) : forall n i s0 s blw,
    (forall e, In e all -> e < next_elem s0 /\ ledger s0 e = Live /\ mem e (clone_panics s0) = false) ->
    vec_at s w bw blw -> block_ok cfg blw ->
    h_len blw = i -> velems blw = zseq (next_elem s0) (Z.to_nat i) -> init_upto (slots blw) i ->
    cloning s0 s (next_elem s0) (Z.to_nat i) all 0 ->
    0 <= i -> (Z.to_nat i + n = List.length all)%nat -> Z.of_nat (List.length all) <= h_cap blw ->
    exists s' blw',
      push_clones cfg ncap w (skipn (Z.to_nat i) all) s = (Val tt, s') /\
      vec_at s' w bw blw' /\ block_ok cfg blw' /\
      h_len blw' = Z.of_nat (List.length all) /\ velems blw' = zseq (next_elem s0) (List.length all) /\
      init_upto (slots blw') (h_len blw') /\
      cloning s0 s' (next_elem s0) (List.length all) all 0 /\
      (forall b', b' <> bw -> nth_error (heap s') b' = nth_error (heap s) b').
  Proof.
    induction n as [|n IH]; intros i s0 s blw Hsrc Hw Hbw Hli Hvel Hinit Hcl Hi0 Hin Hcap.
    - rewrite skipn_all2 by lia. simpl. exists s, blw.
      assert (Ei : Z.to_nat i = List.length all) by lia.
      split; [reflexivity|]. split; [exact Hw|]. split; [exact Hbw|]. split; [lia|].
      split; [rewrite <- Ei; exact Hvel|]. split; [rewrite Hli; exact Hinit|]. split; [rewrite <- Ei; exact Hcl|].
      intros; reflexivity.
    - assert (Hlt : (Z.to_nat i < List.length all)%nat) by lia.
      destruct (nth_error all (Z.to_nat i)) as [e|] eqn:Hnth; [|apply nth_error_None in Hnth; lia].
      assert (Hsk : skipn (Z.to_nat i) all = e :: skipn (S (Z.to_nat i)) all).
      { clear -Hnth. revert all Hnth. generalize (Z.to_nat i). induction n as [|n IHn]; intros [|x l] H; simpl in *; try discriminate.
        - inversion H; reflexivity.
        - apply IHn. exact H. }
      rewrite Hsk. cbn [push_clones].
      pose proof (nth_error_In _ _ Hnth) as HeIn.
      destruct (Hsrc e HeIn) as (Heold & Helive & Hecp).
      assert (Hlive_s : ledger s e = Live) by (rewrite (cl_old_ledger _ _ _ _ _ _ Hcl e Heold); exact Helive).
      assert (Hcp_s : mem e (clone_panics s) = false) by (rewrite (cl_cp _ _ _ _ _ _ Hcl); exact Hecp).
      destruct (clone_elem_spec cfg Htracked s e Hlive_s Hcp_s)
        as (s1 & Hce & Hh1 & Hv1 & Hi1 & Hn1 & Hcp1 & Hdp1 & Hl1 & Hp1).
      rewrite (bind_val _ _ _ _ _ Hce).
      set (c := next_elem s) in *.
      assert (Hc : c = next_elem s0 + i) by (unfold c; rewrite (cl_next _ _ _ _ _ _ Hcl); lia).
      assert (Hw1 : vec_at s1 w bw blw) by (destruct Hw as [A B]; split; [rewrite Hv1; exact A|rewrite Hh1; exact B]).
      destruct (push_fits cfg ncap Hcfg s1 w bw blw c Hw1 Hbw ltac:(lia)) as (s2 & Hpush & Hw2 & Hfr & Hbw2 & Hvel2 & Hinit2).
      rewrite (bind_val _ _ _ _ _ Hpush).
      set (blw2 := with_hdr (with_slots blw (upd (slots blw) (h_len blw) (Init c))) (h_len blw + 1) (h_cap blw) (h_align blw)) in *.
      assert (Hled2 : ledger s2 = upd (ledger s) c Live) by (rewrite (fb_ledger _ _ _ Hfr); exact Hl1).
      assert (Hcl2 : cloning s0 s2 (next_elem s0) (Z.to_nat (i + 1)) all 0).
      { destruct Hcl as [C1 C2 C3 C4 C5 C6 C7 C8].
        replace (Z.to_nat (i + 1)) with (S (Z.to_nat i)) by lia.
        constructor.
        - rewrite (fb_next _ _ _ Hfr), Hn1. fold c. lia.
        - intros x Hx. rewrite Hled2. unfold upd. destruct (Z.eqb_spec x c); [lia|]. apply C2. exact Hx.
        - intros x Hx. rewrite (fb_payload _ _ _ Hfr), Hp1. unfold upd. destruct (Z.eqb_spec x c); [lia|]. apply C3. exact Hx.
        - intros j Hj. rewrite Hled2. unfold upd. destruct (Z.eqb_spec (next_elem s0 + Z.of_nat j) c); [reflexivity|].
          apply C4. lia.
        - intros j Hj. rewrite (fb_payload _ _ _ Hfr), Hp1. unfold upd.
          destruct (Z.eqb_spec (next_elem s0 + Z.of_nat j) c) as [E|N].
          + assert (j = Z.to_nat i) by lia. subst j.
            rewrite (C3 e Heold). f_equal.
            change (Z.to_nat 0) with O. cbn [Nat.add]. symmetry. apply nth_error_nth with (d := 0) in Hnth. exact Hnth.
          + apply C5. lia.
        - rewrite (fb_cp _ _ _ Hfr), Hcp1. exact C6.
        - rewrite (fb_vecs _ _ _ Hfr), Hv1. exact C7.
        - rewrite (fb_len _ _ _ Hfr), Hh1. exact C8. }
      assert (Hvelw2 : velems blw2 = zseq (next_elem s0) (Z.to_nat (i + 1))).
      { rewrite Hvel2, Hvel. replace (Z.to_nat (i + 1)) with (S (Z.to_nat i)) by lia. rewrite zseq_snoc. f_equal. f_equal. lia. }
      replace (S (Z.to_nat i)) with (Z.to_nat (i + 1)) by lia.
      destruct (IH (i + 1) s0 s2 blw2 Hsrc Hw2 Hbw2 ltac:(simpl; lia) Hvelw2
                   ltac:(rewrite <- Hli; apply Hinit2; rewrite Hli; exact Hinit) Hcl2 ltac:(lia) ltac:(lia) ltac:(simpl; exact Hcap))
        as (s' & blw' & Hgo & G2 & G3 & G4 & G5 & G6 & G7 & G8).
      exists s', blw'. split; [exact Hgo|]. repeat (split; [assumption|]).
      intros b' Hb'. rewrite (G8 b' Hb'). rewrite (fb_other _ _ _ Hfr b') by congruence. rewrite Hh1. reflexivity.
  Qed.
  (* a state that differs from s only in names and blocks the iterator does not use keeps its invariant *)
  Lemma into_inv_transfer s s' it b bl off p :
    into_inv cfg s it b bl off p ->
    nth_error (vecs s') (i_vec it) = nth_error (vecs s) (i_vec it) ->
    nth_error (heap s') b = nth_error (heap s) b ->
    into_inv cfg s' it b bl off p.
  Proof.
    intros [[Hv1 Hv2] Hb Hco Hp Hbd Hi] Hvs Hh. constructor; auto. split; [rewrite Hvs; exact Hv1|rewrite Hh; exact Hv2].
  Qed.

  Lemma nth_error_Some_lt {A} (l : list A) k x : nth_error l k = Some x -> (k < List.length l)%nat.
  Proof. intros H. apply nth_error_Some. congruence. Qed.

  Lemma flat_eq {A} (o1 o2 : option (option A)) x : flat o1 = flat o2 -> o2 = Some (Some x) -> o1 = Some (Some x).
  Proof. intros H ->. simpl in H. apply flat_some. exact H. Qed.

  Theorem into_clone_spec s it b bl off p w :
    into_inv cfg s it b bl off p -> w <> i_vec it ->
    NoDup (remaining bl p) ->
    (forall e, In e (remaining bl p) -> e < next_elem s /\ ledger s e = Live /\ mem e (clone_panics s) = false) ->
    let src := remaining bl p in
    let n := List.length src in
    post (into_clone cfg ncap it w s)
      (fun it' s' =>
         i_vec it' = w /\
         (* the original: same block, same cursor, same elements *)
         into_inv cfg s' it b bl off p /\
         (* the clone: new elements, in order, same payloads, in another block (none when nothing is left) *)
         ((n = O /\ vec_sentinel s' w /\ i_pos it' = PNull) \/
          (exists bw blw offw, bw <> b /\ into_inv cfg s' it' bw blw offw 0 /\
                               remaining blw 0 = zseq (next_elem s) n)) /\
         next_elem s' = next_elem s + Z.of_nat n /\
         (forall e, e < next_elem s -> ledger s' e = ledger s e /\ payload s' e = payload s e) /\
         (forall j, (j < n)%nat -> ledger s' (next_elem s + Z.of_nat j) = Live /\
                                   payload s' (next_elem s + Z.of_nat j) = payload s (nth j src 0)))
      (fun s' => nth_error (heap s') b = Some bl).
  Proof.
    intros Hinv Hw Hnd Hsrc src n.
    unfold into_clone.
    destruct (new_vec_spec cfg Hcfg s w) as (s1 & E1 & Hs1 & Hh1 & Hl1 & Hn1 & Hv1).
    rewrite (bind_val _ _ _ _ _ E1).
    pose proof Hinv as [[Hva Hvb] Hbk Hco Hp Hbd Hi].
    assert (Hinv1 : into_inv cfg s1 it b bl off p).
    { apply (into_inv_transfer s s1 it b bl off p Hinv); [|rewrite Hh1; reflexivity].
      rewrite (Hv1 (i_vec it) (At b 0) ltac:(congruence) Hva). symmetry. exact Hva. }
    assert (Hslice : into_as_slice cfg it s1 = (Val src, s1)).
    { apply (into_as_slice_spec cfg Hcfg s1 it b bl off p Hinv1 Hnd).
      intros e He. right. rewrite Hl1. apply (Hsrc e He). }
    (* new_vec touches names only *)
    assert (Hsame1 : payload s1 = payload s /\ clone_panics s1 = clone_panics s).
    { unfold new_vec in E1. destruct (esz cfg =? 0); [discriminate|]. inversion E1; subst. split; reflexivity. }
    destruct Hsame1 as [Hp1 Hcp1].
    unfold building.
    eapply post_bind with (Q1 := fun _ s3 =>
         into_inv cfg s3 it b bl off p /\
         ((n = O /\ vec_sentinel s3 w) \/
          (exists bw blw, bw <> b /\ vec_at s3 w bw blw /\ block_ok cfg blw /\
                          h_len blw = Z.of_nat n /\ velems blw = zseq (next_elem s) n /\ init_upto (slots blw) (h_len blw))) /\
         next_elem s3 = next_elem s + Z.of_nat n /\
         (forall e, e < next_elem s -> ledger s3 e = ledger s e /\ payload s3 e = payload s e) /\
         (forall j, (j < n)%nat -> ledger s3 (next_elem s + Z.of_nat j) = Live /\
                                   payload s3 (next_elem s + Z.of_nat j) = payload s (nth j src 0))).
    - (* building w (...) *)
      eapply post_on_unwind with (Qp1 := fun s2 => s2 = s1).
      2:{ intros s2 ->. destruct (sn_drop cfg s1 w Hs1) as (s3 & E3 & Hh3 & _). rewrite E3. simpl.
          rewrite Hh3, Hh1. exact Hvb. }
      rewrite (bind_val _ _ _ _ _ Hslice). unfold extend_from_slice. fold n.
      destruct n as [|n'] eqn:En.
      + (* nothing left to clone: no allocation *)
        assert (Hsrc0 : src = []) by (destruct src; [reflexivity|discriminate]).
        rewrite Hsrc0. simpl push_clones.
        destruct (sentinel_basics cfg s1 w Hs1) as (Hl0 & Hc0 & _).
        assert (Hr0 : reserve cfg ncap w (Z.of_nat 0) s1 = (Val tt, s1)).
        { unfold reserve. rewrite (bind_val _ _ _ _ _ Hc0), (bind_val _ _ _ _ _ Hl0). reflexivity. }
        rewrite (bind_val _ _ _ _ _ Hr0). simpl.
        split; [exact Hinv1|]. split; [left; split; [reflexivity|exact Hs1]|]. split; [lia|].
        split; [intros e He; rewrite Hl1, Hp1; auto|intros j Hj; lia].
      + eapply post_bind.
        { eapply post_weaken; [apply (reserve_sentinel cfg ncap Hcfg Hpol s1 w (Z.of_nat (S n')) Hs1)| |intros s2 H; exact H].
          - pose proof (bo_len _ _ Hbk). pose proof (bo_cap _ _ Hbk) as Hcw.
            assert (Z.of_nat (List.length src) <= h_len bl).
            { unfold src, remaining, window, slice_elems. rewrite map_length, seq_length. lia. }
            fold n in H0. rewrite En in H0. lia.
          - intros u s2 H. exact H. }
        intros u s2 (size & c1 & Hc1 & Hbn & Hall).
        set (nbl := fresh_block size (max_align cfg) 0 c1 (max_align cfg)) in *.
        pose (bw := List.length (heap s1)).
        pose proof (allocated_vec_at s1 s2 w nbl Hall) as Hw2. fold bw in Hw2.
        destruct (allocated_frame s1 s2 w nbl Hall) as (Hfh & Hfv & Hfl).
        pose proof (al_same _ _ _ _ Hall) as Hse.
        assert (Hbne : bw <> b).
        { unfold bw. intros Heq. assert (Hx : nth_error (heap s1) b = Some bl) by (rewrite Hh1; exact Hvb).
          apply nth_error_Some_lt in Hx. lia. }
        assert (Hsrc2 : forall e, In e src -> e < next_elem s2 /\ ledger s2 e = Live /\ mem e (clone_panics s2) = false).
        { intros e He. destruct (Hsrc e He) as (A & B & C).
          rewrite (se_next _ _ Hse), (se_ledger _ _ Hse), (se_cp _ _ Hse), Hn1, Hl1, Hcp1. auto. }
        assert (Hcl0 : cloning s2 s2 (next_elem s2) (Z.to_nat 0) src 0).
        { constructor; simpl; auto; try lia; intros j Hj; lia. }
        destruct (push_clones_fits w bw src (S n') 0 s2 s2 nbl Hsrc2 Hw2 Hbn eq_refl eq_refl
                    ltac:(intros k Hk; simpl in Hk; lia) Hcl0 ltac:(lia) ltac:(simpl; fold n; lia)
                    ltac:(fold n; rewrite En; simpl h_cap; lia))
          as (s3 & blw & Hpc & G2 & G3 & G4 & G5 & G6 & G7 & G8).
        simpl skipn in Hpc. rewrite Hpc. simpl. fold n in G4, G5, G7. rewrite En in G4, G5, G7.
        assert (Hn2 : next_elem s2 = next_elem s) by (rewrite (se_next _ _ Hse); exact Hn1).
        split.
        { apply (into_inv_transfer s1 s3 it b bl off p Hinv1).
          - rewrite (cl_vecs _ _ _ _ _ _ G7).
            assert (Hv1a : nth_error (vecs s1) (i_vec it) = Some (Some (At b 0))) by (destruct Hinv1 as [[A _] _ _ _ _ _]; exact A).
            rewrite Hv1a. apply (flat_eq _ _ (At b 0) (Hfv (i_vec it) ltac:(congruence)) Hv1a).
          - rewrite (G8 b ltac:(congruence)). apply Hfh. apply nth_error_Some_lt with (x := bl). rewrite Hh1. exact Hvb. }
        split.
        { right. exists bw, blw. split; [exact Hbne|]. split; [exact G2|]. split; [exact G3|]. split; [exact G4|].
          split; [rewrite G5, Hn2; reflexivity|exact G6]. }
        split; [rewrite (cl_next _ _ _ _ _ _ G7), Hn2; lia|].
        split.
        { intros e He. rewrite (cl_old_ledger _ _ _ _ _ _ G7 e ltac:(lia)), (cl_old_payload _ _ _ _ _ _ G7 e ltac:(lia)).
          rewrite (se_ledger _ _ Hse), (se_payload _ _ Hse), Hl1, Hp1. auto. }
        intros j Hj. rewrite <- Hn2. split; [apply (cl_new_live _ _ _ _ _ _ G7 j Hj)|].
        rewrite (cl_new_payload _ _ _ _ _ _ G7 j Hj). simpl. rewrite (se_payload _ _ Hse), Hp1. reflexivity.
    - (* make_into w *)
      intros u s3 (Hinv3 & Hclone & Hnx & Hold & Hnew).
      destruct Hclone as [(En & Hs3)|(bw & blw & Hbne & Hw3 & Hbw3 & Hlen3 & Hvel3 & Hini3)].
      + unfold make_into. rewrite (bind_val _ _ _ _ _ (sn_is_default s3 w Hs3)). simpl.
        split; [reflexivity|]. split; [exact Hinv3|]. split; [left; auto|]. auto.
      + destruct (data_at cfg s3 w bw blw Hcfg Hw3 Hbw3) as (offw & Hcow & Hdw).
        unfold make_into. rewrite (bind_val _ _ _ _ _ (is_default_at _ _ _ _ Hw3)). cbn iota.
        rewrite (bind_val _ _ _ _ _ Hdw). simpl.
        split; [reflexivity|]. split; [exact Hinv3|]. split; [|auto].
        right. exists bw, blw, offw. split; [exact Hbne|]. split.
        * constructor; simpl; auto; try (pose proof (bo_len _ _ Hbw3); lia);
            try (intros k Hk; apply Hini3; lia).
        * unfold remaining, window. rewrite Z.add_0_l.
          rewrite (slice_elems_view (slots blw) 0 (h_len blw)) by (pose proof (bo_len _ _ Hbw3); lia).
          simpl skipn. exact Hvel3.
  Qed.
End IntoClone.
