(* Proofs/Retain.v -- the swap discipline of retain (and dedup_by): WHATEVER the predicate answers
   -- any script of true / false / panic, of any length, consistent or not -- the slots [0, len) stay
   a permutation of the original elements: nothing is duplicated, nothing is lost, on the normal
   exit and on the panicking exit (C04, C17). *)
From Coq Require Import ZArith List Bool Lia Permutation.
From MV Require Import Ast Eval Scalar Machine.
From MV.Proofs Require Import Arith Logic Prim View OpsLocal.
Import ListNotations.
Open Scope Z_scope.

Lemma swap_perm {A} (l1 l2 l3 : list A) a b :
  Permutation (l1 ++ a :: l2 ++ b :: l3) (l1 ++ b :: l2 ++ a :: l3).
Proof.
  apply Permutation_app_head.
  transitivity (a :: b :: l2 ++ l3).
  - constructor. symmetry. apply Permutation_middle.
  - transitivity (b :: a :: l2 ++ l3); [apply perm_swap|].
    constructor. apply Permutation_middle.
Qed.

Definition seg (f : Z -> slot) (i n : Z) : list elem :=
  map (fun k => slot_elem (f (i + Z.of_nat k))) (seq 0 (Z.to_nat n)).

Lemma seq_shift_n n a len : seq (a + n) len = map (fun k => (k + n)%nat) (seq a len).
Proof.
  revert a; induction len as [|len IH]; intros a; simpl; [reflexivity|].
  f_equal. rewrite <- IH. reflexivity.
Qed.

Lemma seg_app f i n m : 0 <= n -> 0 <= m -> seg f i (n + m) = seg f i n ++ seg f (i + n) m.
Proof.
  intros Hn Hm. unfold seg. rewrite Z2Nat.inj_add by lia. rewrite seq_app, map_app. f_equal.
  replace (0 + Z.to_nat n)%nat with (0 + Z.to_nat n)%nat by reflexivity.
  rewrite (seq_shift_n (Z.to_nat n) 0). rewrite map_map. apply map_ext. intros k.
  f_equal. f_equal. lia.
Qed.

Lemma seg_one f i : seg f i 1 = [slot_elem (f i)].
Proof. unfold seg. simpl. rewrite Z.add_0_r. reflexivity. Qed.

Lemma view_seg f n : view f n = seg f 0 n.
Proof. unfold view, seg. apply map_ext. intros k. reflexivity. Qed.

Lemma seg_ext f g i n : (forall k, i <= k < i + n -> f k = g k) -> seg f i n = seg g i n.
Proof.
  intros H. unfold seg. apply map_ext_in. intros k Hk. apply in_seq in Hk. rewrite H by lia. reflexivity.
Qed.

(* swapping two slots of [0,n) permutes the view *)
Lemma view_swap_perm f n w r :
  0 <= w -> w < r -> r < n ->
  Permutation (view (upd (upd f r (f w)) w (f r)) n) (view f n).
Proof.
  intros Hw Hwr Hrn. set (g := upd (upd f r (f w)) w (f r)).
  assert (Hdec : forall h, view h n = seg h 0 w ++ slot_elem (h w) :: seg h (w + 1) (r - w - 1) ++ slot_elem (h r) :: seg h (r + 1) (n - r - 1)).
  { intros h. rewrite view_seg.
    replace n with (w + (1 + ((r - w - 1) + (1 + (n - r - 1))))) at 1 by lia.
    rewrite seg_app by lia. f_equal. rewrite Z.add_0_l.
    rewrite seg_app by lia. rewrite seg_one. cbn [app]. f_equal.
    rewrite seg_app by lia. f_equal.
    replace (w + 1 + (r - w - 1)) with r by lia.
    rewrite seg_app by lia. rewrite seg_one. reflexivity. }
  rewrite (Hdec g), (Hdec f).
  assert (E1 : seg g 0 w = seg f 0 w).
  { apply seg_ext. intros k Hk. unfold g, upd. destruct (Z.eqb_spec k w); [lia|]. destruct (Z.eqb_spec k r); [lia|reflexivity]. }
  assert (E2 : seg g (w + 1) (r - w - 1) = seg f (w + 1) (r - w - 1)).
  { apply seg_ext. intros k Hk. unfold g, upd. destruct (Z.eqb_spec k w); [lia|]. destruct (Z.eqb_spec k r); [lia|reflexivity]. }
  assert (E3 : seg g (r + 1) (n - r - 1) = seg f (r + 1) (n - r - 1)).
  { apply seg_ext. intros k Hk. unfold g, upd. destruct (Z.eqb_spec k w); [lia|]. destruct (Z.eqb_spec k r); [lia|reflexivity]. }
  assert (Gw : g w = f r) by (unfold g, upd; rewrite Z.eqb_refl; reflexivity).
  assert (Gr : g r = f w).
  { unfold g, upd. destruct (Z.eqb_spec r w); [lia|]. rewrite Z.eqb_refl. reflexivity. }
  rewrite E1, E2, E3, Gw, Gr. apply swap_perm.
Qed.

Section Retain.
  Variable cfg : tcfg.
  Hypothesis Hcfg : cfg_ok cfg.

  (* the vector still owns block b, same header, and its [0,l) is a permutation of es0 *)
  Definition permuted (s0 s : state) (v b : nat) (bl0 : block) (l : Z) : Prop :=
    exists bl, vec_at s v b bl /\ block_ok cfg bl /\ h_len bl = l /\ h_cap bl = h_cap bl0 /\
               h_align bl = h_align bl0 /\ b_size bl = b_size bl0 /\ b_align bl = b_align bl0 /\
               init_upto (slots bl) l /\
               Permutation (view (slots bl) l) (view (slots bl0) l) /\
               ledger s = ledger s0 /\ next_elem s = next_elem s0 /\ vecs s = vecs s0 /\ iters s = iters s0 /\
               List.length (heap s) = List.length (heap s0) /\
               (forall b', b' <> b -> nth_error (heap s) b' = nth_error (heap s0) b').

  Lemma emit_keeps e s : exists s', emit e s = (Val tt, s') /\ heap s' = heap s /\ vecs s' = vecs s /\
    ledger s' = ledger s /\ iters s' = iters s /\ next_elem s' = next_elem s.
  Proof. eexists. split; [reflexivity|]. simpl. auto 6. Qed.

  Lemma expose_live s e : (tracked cfg = false \/ ledger s e = Live) -> expose cfg e s = (Val tt, s).
  Proof.
    intros H. unfold expose. destruct (tracked cfg) eqn:Et; cbn [negb]; [|reflexivity].
    destruct H as [H|H]; [discriminate|]. unfold bind, status_of. rewrite H. reflexivity.
  Qed.

  Lemma slot_swap_at s b bl off r w er ew :
    nth_error (heap s) b = Some bl -> block_ok cfg bl -> canon_off bl = Some off ->
    0 <= w < h_cap bl -> 0 <= r < h_cap bl -> slots bl r = Init er -> slots bl w = Init ew ->
    slot_swap cfg (PElt b off r) (PElt b off w) s =
      (Val tt, upd_block s b (with_slots bl (upd (upd (slots bl) r (slots bl w)) w (slots bl r)))).
  Proof.
    intros Hn Hb Hco Hw Hr Er Ew. unfold slot_swap.
    pose proof (slot_read_at cfg s b bl off r Hcfg Hn Hb Hco Hr) as H1. rewrite Er in H1.
    rewrite (bind_val _ _ _ _ _ H1).
    pose proof (slot_read_at cfg s b bl off w Hcfg Hn Hb Hco Hw) as H2. rewrite Ew in H2.
    rewrite (bind_val _ _ _ _ _ H2).
    rewrite (bind_val _ _ _ _ _ (slot_write_at cfg s b bl off r ew Hcfg Hn Hb Hco Hr)).
    set (bl1 := with_slots bl (upd (slots bl) r (Init ew))).
    assert (Hn1 : nth_error (heap (upd_block s b bl1)) b = Some bl1) by (eapply upd_block_same; eassumption).
    assert (Hb1 : block_ok cfg bl1) by (apply block_ok_with_slots; assumption).
    rewrite (slot_write_at cfg (upd_block s b bl1) b bl1 off w er Hcfg Hn1 Hb1 Hco Hw).
    f_equal. unfold upd_block. simpl. f_equal. rewrite Er, Ew.
    change (with_slots bl1 (upd (upd (slots bl) r (Init ew)) w (Init er)))
      with (with_slots bl (upd (upd (slots bl) r (Init ew)) w (Init er))).
    generalize (with_slots bl (upd (upd (slots bl) r (Init ew)) w (Init er))). intros y.
    generalize bl1. intros x. generalize (heap s). clear. intros l. revert b.
    induction l as [|z l IH]; intros [|b]; simpl; auto. f_equal. apply IH.
  Qed.

  Lemma permuted_elems_live s0 s v b bl0 l bl :
    vec_at s v b bl -> h_len bl = l ->
    Permutation (view (slots bl) l) (view (slots bl0) l) -> ledger s = ledger s0 ->
    (forall e, In e (view (slots bl0) l) -> tracked cfg = false \/ ledger s0 e = Live) ->
    forall e, In e (view (slots bl) l) -> tracked cfg = false \/ ledger s e = Live.
  Proof.
    intros _ _ Hp Hl Hlive e He. rewrite Hl. apply Hlive. eapply Permutation_in; eassumption.
  Qed.

  (* the loop of retain, for EVERY script of predicate answers (true / false / panic, any length):
     no UB; on both exits the vector's [0, l) is a permutation of what it was; the ledger is
     untouched (nothing destroyed, nothing duplicated) *)
  Theorem retain_loop_spec v b bl0 l off s0 (Hco : canon_off bl0 = Some off)
      (Hlive : forall e, In e (view (slots bl0) l) -> tracked cfg = false \/ ledger s0 e = Live) :
    forall fuel s read write sc,
    permuted s0 s v b bl0 l -> 0 <= write <= read -> read <= l -> (Z.to_nat (l - read) <= fuel)%nat ->
    post (retain_loop cfg fuel (PElt b off 0) l read write sc s)
      (fun w s' => 0 <= w <= l /\ permuted s0 s' v b bl0 l)
      (fun s' => permuted s0 s' v b bl0 l).
  Proof.
    induction fuel as [|fuel IH]; intros s read write sc Hperm Hwr Hrl Hfuel.
    - simpl. split; [lia|exact Hperm].
    - simpl retain_loop.
      destruct (Z.leb_spec l read) as [Hdone|Hmore].
      { simpl. split; [lia|exact Hperm]. }
      destruct Hperm as (bl & Hv & Hb & Hlen & Hcap & Hal & Hsz & Hbal & Hinit & Hp & Hled & Hnx & Hvecs & Hit & Hhl & Hoth).
      assert (Hco' : canon_off bl = Some off) by (unfold canon_off in *; rewrite Hbal; exact Hco).
      pose proof (bo_len _ _ Hb) as Hlb. rewrite Hlen in Hlb.
      simpl padd. rewrite ?Z.add_0_l.
      assert (Rr : 0 <= read < h_cap bl) by lia.
      destruct (Hinit read ltac:(lia)) as [er Her].
      pose proof (slot_read_at cfg s b bl off read Hcfg (proj2 Hv) Hb Hco' Rr) as Hrd. rewrite Her in Hrd.
      rewrite (bind_val _ _ _ _ _ Hrd).
      assert (Hin : In er (view (slots bl) l)).
      { apply nth_error_In with (n := Z.to_nat read). rewrite view_nth by lia. rewrite Her. reflexivity. }
      rewrite (bind_val _ _ _ _ _ (expose_live s er (permuted_elems_live s0 s v b bl0 l bl Hv Hlen Hp Hled Hlive er Hin))).
      destruct (emit_keeps (EvCall "p" [er]) s) as (s1 & Hem & Hh1 & Hv1 & Hl1 & Hi1 & Hnx1).
      rewrite (bind_val _ _ _ _ _ Hem).
      assert (Hperm1 : permuted s0 s1 v b bl0 l).
      { exists bl. destruct Hv as [Hva Hvb]. split; [split; [rewrite Hv1; exact Hva|rewrite Hh1; exact Hvb]|].
        repeat (split; [assumption|]). split; [congruence|]. split; [congruence|]. split; [congruence|]. split; [congruence|].
        split; [rewrite Hh1; exact Hhl|]. intros b' Hb'. rewrite Hh1. apply Hoth. exact Hb'. }
      destruct (pop_script sc A_T) as [x sc'] eqn:Eps.
      destruct (Z.eqb_spec x A_P). { simpl. exact Hperm1. }
      destruct (Z.eqb_spec x A_F) as [EF|NF]; cbn [negb].
      + apply IH; [exact Hperm1|lia|lia|lia].
      + destruct (Z.eqb_spec read write) as [Erw|Nrw]; cbn [negb].
        * rewrite bind_ret. apply IH; [exact Hperm1|lia|lia|lia].
        * assert (Rw : 0 <= write < h_cap bl) by lia.
          destruct (Hinit write ltac:(lia)) as [ew Hew].
          assert (Hn1 : nth_error (heap s1) b = Some bl) by (rewrite Hh1; exact (proj2 Hv)).
          simpl padd. rewrite ?Z.add_0_l.
          rewrite (bind_val _ _ _ _ _ (slot_swap_at s1 b bl off read write er ew Hn1 Hb Hco' Rw Rr Her Hew)).
          set (bl2 := with_slots bl (upd (upd (slots bl) read (slots bl write)) write (slots bl read))).
          apply IH; [|lia|lia|lia].
          exists bl2. split.
          { split; [simpl; rewrite Hv1; exact (proj1 Hv)|eapply upd_block_same; exact Hn1]. }
          split; [apply block_ok_with_slots; exact Hb|].
          repeat (split; [assumption|]).
          split.
          { simpl. intros k Hk. unfold upd. destruct (Z.eqb_spec k write); [rewrite Her; eauto|].
            destruct (Z.eqb_spec k read); [rewrite Hew; eauto|]. apply Hinit. exact Hk. }
          split.
          { simpl. etransitivity; [|exact Hp]. apply view_swap_perm; lia. }
          simpl. split; [congruence|]. split; [congruence|]. split; [congruence|]. split; [congruence|].
          split; [rewrite list_set_length, Hh1; exact Hhl|].
          intros b' Hb'. rewrite list_set_other by congruence. rewrite Hh1. apply Hoth. exact Hb'.
  Qed.
End Retain.
