(* Proofs/Deref.v -- the slice a vector exposes is exactly its elements [0, len): capacity,
   alignment, block size and the stale slots beyond len play no part (C15). *)
From Coq Require Import ZArith List Bool Lia.
From MV Require Import Ast Eval Scalar Machine Run.
From MV.Proofs Require Import Arith Logic Prim View OpsLocal Drops Retain.
Import ListNotations.
Open Scope Z_scope.

Section Deref.
  Variable cfg : tcfg.
  Hypothesis Hcfg : cfg_ok cfg.

  Lemma expose_list_live s es :
    (forall e, In e es -> tracked cfg = false \/ ledger s e = Live) -> expose_list cfg es s = (Val tt, s).
  Proof.
    induction es as [|e es IH]; intros H; [reflexivity|].
    simpl. rewrite (bind_val _ _ _ _ _ (expose_live cfg s e (H e (or_introl eq_refl)))).
    apply IH. intros x Hx. apply H. right. exact Hx.
  Qed.

  Lemma has_dup_false es : NoDup es -> has_dup es = false.
  Proof.
    induction 1 as [|e es Hn Hnd IH]; [reflexivity|]. simpl. rewrite IH, orb_false_r.
    unfold mem. apply not_true_is_false. intros H. apply existsb_exists in H.
    destruct H as (x & Hx & E). apply Z.eqb_eq in E. subst. contradiction.
  Qed.

  Lemma deref_at s v b bl :
    vec_at s v b bl -> block_ok cfg bl -> init_upto (slots bl) (h_len bl) ->
    NoDup (velems bl) -> (forall e, In e (velems bl) -> tracked cfg = false \/ ledger s e = Live) ->
    deref cfg v s = (Val (velems bl), s).
  Proof.
    intros Hv Hb Hi Hnd Hlive. unfold deref.
    rewrite (bind_val _ _ _ _ _ (is_default_at _ _ _ _ Hv)).
    rewrite (bind_val _ _ _ _ _ (len_at cfg _ _ _ _ Hcfg Hv Hb)).
    destruct (data_at cfg _ _ _ _ Hcfg Hv Hb) as (off & Hco & Hd).
    rewrite (bind_val _ _ _ _ _ Hd).
    unfold expose_slice.
    pose proof (bo_len _ _ Hb) as Hlen.
    assert (Hrl : read_list cfg (PElt b off 0) (h_len bl) s = (Val (velems bl), s)).
    { rewrite (read_list_at cfg Hcfg s b bl off 0 (h_len bl) (proj2 Hv) Hb Hco); try lia.
      - unfold velems. replace (Z.to_nat (h_len bl)) with (Z.to_nat (h_len bl - 0)) by (f_equal; lia).
        rewrite (slice_elems_view (slots bl) 0 (h_len bl)) by lia. reflexivity.
      - intros k Hk. apply Hi. lia. }
    rewrite (bind_val _ _ _ _ _ Hrl).
    rewrite (bind_val _ _ _ _ _ (expose_list_live s _ Hlive)).
    rewrite (has_dup_false _ Hnd), andb_false_r. reflexivity.
  Qed.
End Deref.
