(* Proofs/Arith.v -- laws of the layout arithmetic (helpers.rs), over all of Z with the
   2^64 / isize::MAX limits explicit. *)
From Coq Require Import ZArith List Bool Lia.
From MV Require Import Ast Eval Scalar.
Open Scope Z_scope.

Ltac Zify.zify_post_hook ::= Z.div_mod_to_equations.

Lemma W64_val : W64 = 18446744073709551616. Proof. reflexivity. Qed.
Lemma ISIZE_MAX_val : ISIZE_MAX = 9223372036854775807. Proof. reflexivity. Qed.
Lemma HEADER_SIZE_val : HEADER_SIZE = 24. Proof. reflexivity. Qed.

Lemma add_u_some a b r : add_u a b = Some r <-> (r = a + b /\ a + b < W64).
Proof. unfold add_u; cbv zeta. destruct (Z.ltb_spec (a + b) W64); split; intros H1; try (inversion H1; subst); try lia; try (destruct H1; subst; reflexivity); intuition lia. Qed.

Lemma mul_u_some a b r : mul_u a b = Some r <-> (r = a * b /\ a * b < W64).
Proof. unfold mul_u; cbv zeta. destruct (Z.ltb_spec (a * b) W64); split; intros H1; try (inversion H1; subst); try lia; try (destruct H1; subst; reflexivity); intuition lia. Qed.

(* next_aligned rounds up to the next multiple and never wraps *)
Lemma next_aligned_spec n a r :
  0 <= n < W64 -> 0 < a ->
  next_aligned n a = Some r ->
  r mod a = 0 /\ n <= r /\ r < n + a /\ r < W64.
Proof.
  intros Hn Ha. unfold next_aligned.
  destruct (Z.eqb_spec a 0); [lia|]. cbv zeta.
  destruct (Z.eqb_spec (n mod a) 0) as [E|E].
  - intros H; inversion H; subst r. repeat split; lia.
  - intros H. apply add_u_some in H. destruct H as [-> Hlt].
    pose proof (Z.mod_pos_bound n a Ha).
    repeat split; try lia.
    rewrite Z.add_sub_assoc, Z.add_comm.
    replace (a + n - n mod a) with (a + (n - n mod a)) by lia.
    rewrite (Z.div_mod n a) at 1 by lia.
    replace (a + (a * (n / a) + n mod a - n mod a)) with ((1 + n / a) * a) by lia.
    apply Z.mod_mul; lia.
Qed.

Lemma next_aligned_none n a :
  0 <= n < W64 -> 0 <= a ->
  next_aligned n a = None <-> (a = 0 \/ (n mod a <> 0 /\ W64 <= n + (a - n mod a))).
Proof.
  intros Hn Ha. unfold next_aligned.
  destruct (Z.eqb_spec a 0); [intuition|]. cbv zeta.
  destruct (Z.eqb_spec (n mod a) 0) as [E|E].
  - split; [discriminate|]. intros [?|[? ?]]; lia.
  - unfold add_u; cbv zeta. destruct (Z.ltb_spec (n + (a - n mod a)) W64); split; try discriminate; try tauto.
    + intros [?|[? ?]]; lia.
Qed.

(* the block described by a layout really has room for the header and `cap` elements *)
Lemma layout_size_room c cap a n :
  0 <= cap < W64 -> 0 <= esz c -> 0 < a ->
  layout_size c cap a = Some n ->
  exists off, data_offset a = Some off /\ HEADER_SIZE <= off /\ off mod a = 0 /\
              off + cap * esz c <= n /\ n < W64 /\ n mod a = 0.
Proof.
  intros Hc He Ha. unfold layout_size, data_offset, bindo.
  destruct (next_aligned HEADER_SIZE a) as [h|] eqn:Eh; [|discriminate].
  pose proof HEADER_SIZE_val. pose proof W64_val.
  apply next_aligned_spec in Eh; [|lia|lia]. destruct Eh as (Hm & Hle & Hlt & Hw).
  destruct (Z.eqb_spec cap 0).
  - intros H1; inversion H1; subst. exists n. repeat split; try lia.
  - destruct (mul_u cap (esz c)) as [m|] eqn:Em; [|discriminate].
    apply mul_u_some in Em. destruct Em as [-> Hm2].
    destruct (next_aligned (cap * esz c) a) as [d|] eqn:Ed; [|discriminate].
    apply next_aligned_spec in Ed; [|nia|lia]. destruct Ed as (Hdm & Hdle & Hdlt & Hdw).
    intros H1. apply add_u_some in H1. destruct H1 as [-> Hs].
    exists h. repeat split; try lia.
    rewrite Z.add_mod, Hm, Hdm by lia. reflexivity.
Qed.

Lemma layout_size_none_overflow c cap a :
  0 <= cap < W64 -> 0 <= esz c < W64 -> 0 < a < W64 ->
  layout_size c cap a = None ->
  W64 <= HEADER_SIZE + a + cap * esz c + a.
Proof.
  intros Hc He Ha. unfold layout_size, bindo.
  pose proof HEADER_SIZE_val. pose proof W64_val.
  destruct (next_aligned HEADER_SIZE a) as [h|] eqn:Eh.
  - apply next_aligned_spec in Eh; [|lia|lia]. destruct Eh as (Hm & Hle & Hlt & Hw).
    destruct (Z.eqb_spec cap 0); [discriminate|].
    destruct (mul_u cap (esz c)) as [m|] eqn:Em.
    + apply mul_u_some in Em. destruct Em as [-> Hm2].
      destruct (next_aligned (cap * esz c) a) as [d|] eqn:Ed.
      * apply next_aligned_spec in Ed; [|nia|lia]. destruct Ed as (Hdm & Hdle & Hdlt & Hdw).
        intros H1. unfold add_u in H1; cbv zeta in H1.
        destruct (Z.ltb_spec (h + d) W64); [discriminate|]. lia.
      * intros _. apply next_aligned_none in Ed; [|nia|lia].
        destruct Ed as [?|[? ?]]; [lia|]. pose proof (Z.mod_pos_bound (cap * esz c) a). lia.
    + intros _. unfold mul_u in Em; cbv zeta in Em. destruct (Z.ltb_spec (cap * esz c) W64); [discriminate|]. nia.
  - intros _. apply next_aligned_none in Eh; [|lia|lia].
    destruct Eh as [?|[? ?]]; [lia|]. pose proof (Z.mod_pos_bound HEADER_SIZE a). lia.
Qed.

(* make_layout succeeds exactly on representable sizes, and what it returns is a valid Layout *)
Lemma make_layout_some c cap a n a' :
  0 <= cap < W64 -> 0 <= esz c -> 0 < a ->
  make_layout c cap a = Some (n, a') ->
  a' = a /\ is_pow2 a = true /\ n <= ISIZE_MAX - (a - 1) /\
  exists off, data_offset a = Some off /\ HEADER_SIZE <= off /\ off mod a = 0 /\
              off + cap * esz c <= n /\ n mod a = 0.
Proof.
  intros Hc He Ha. unfold make_layout, bindo.
  destruct (layout_size c cap a) as [m|] eqn:El; [|discriminate].
  destruct (layout_ok m a) eqn:Eo; [|discriminate].
  intros H; inversion H; subst m a'. clear H.
  unfold layout_ok in Eo. apply andb_true_iff in Eo. destruct Eo as [Ep Es].
  apply Z.leb_le in Es.
  destruct (layout_size_room _ _ _ _ Hc He Ha El) as (off & ? & ? & ? & ? & ? & ?).
  repeat split; try assumption. exists off. repeat split; assumption.
Qed.

Lemma make_layout_profile_independent c1 c2 cap a :
  esz c1 = esz c2 -> make_layout c1 cap a = make_layout c2 cap a.
Proof. intros E. unfold make_layout, layout_size. rewrite E. reflexivity. Qed.

Lemma is_pow2_pos a : is_pow2 a = true -> 0 < a.
Proof. unfold is_pow2. intros H. apply andb_true_iff in H. destruct H as [H _]. apply Z.ltb_lt in H. exact H. Qed.

Lemma map_size_hint_bounded h : 0 <= map_size_hint h <= 1024 \/ (exists n, h = Some n /\ n < 0).
Proof. destruct h as [n|]; simpl; [|left; lia]. destruct (Z.le_gt_cases 0 n); [left; lia| right; exists n; split; [reflexivity|lia]]. Qed.

Lemma map_size_hint_le h : map_size_hint h <= 1024.
Proof. destruct h; simpl; lia. Qed.
