(* Proofs/Drops.v -- destruction of elements: drop_in_place of a slice destroys every element of
   the slice exactly once -- also when destructors panic (the rest is still destroyed, a second
   panic aborts) -- and truncate lowers the length BEFORE running destructors, so that after any
   outcome the vector exposes only elements that are still alive (C02, C04). *)
From Coq Require Import ZArith List Bool Lia.
From MV Require Import Ast Eval Scalar Machine.
From MV.Proofs Require Import Arith Logic Prim View OpsLocal.
Import ListNotations.
Open Scope Z_scope.

Section Drops.
  Variable cfg : tcfg.
  Hypothesis Hcfg : cfg_ok cfg.
  Hypothesis Htracked : needs_drop cfg = true.

  (* s' is s with the elements of es destroyed (and drop events logged): nothing else changed *)
  Record destroyed (s s' : state) (es : list elem) : Prop := {
    ds_in : forall e, In e es -> ledger s' e = Dropped;
    ds_out : forall e, ~ In e es -> ledger s' e = ledger s e;
    ds_heap : heap s' = heap s;
    ds_vecs : vecs s' = vecs s;
    ds_iters : iters s' = iters s;
    ds_payload : payload s' = payload s;
    ds_next : next_elem s' = next_elem s;
    ds_dp : drop_panics s' = drop_panics s;
    ds_cp : clone_panics s' = clone_panics s;
    ds_af : alloc_fail s' = alloc_fail s;
    ds_lim : alloc_limit s' = alloc_limit s }.

  Lemma destroyed_nil s : destroyed s s [].
  Proof. constructor; auto. intros e []. Qed.

  Lemma destroyed_cons s s1 s2 e es :
    destroyed s s1 [e] -> destroyed s1 s2 es -> ~ In e es -> destroyed s s2 (e :: es).
  Proof.
    intros [] [] Hn. constructor; try congruence.
    - intros x [->|Hx].
      + rewrite ds_out1 by assumption. apply ds_in0. left; reflexivity.
      + apply ds_in1. assumption.
    - intros x Hx. rewrite ds_out1 by (intros H; apply Hx; right; assumption).
      apply ds_out0. intros [->|[]]. apply Hx. left; reflexivity.
  Qed.

  Lemma drop_elem_live s e :
    ledger s e = Live ->
    exists s', destroyed s s' [e] /\
      drop_elem cfg e s = ((if mem e (drop_panics s) then Panicking else Val tt), s').
  Proof.
    intros Hl. unfold drop_elem, tracked. rewrite Htracked. cbn [negb].
    unfold bind at 1. unfold status_of. rewrite Hl.
    unfold bind, get, set_ledger, emit, panic, ret. simpl.
    eexists. split.
    2:{ destruct (mem e (drop_panics s)); reflexivity. }
    constructor; simpl; auto; try (destruct (mem e (drop_panics s)); reflexivity).
    - intros x [<-|[]]. unfold upd. rewrite Z.eqb_refl. reflexivity.
    - intros x Hx. unfold upd. destruct (Z.eqb_spec x e); [subst; exfalso; apply Hx; left; reflexivity|reflexivity].
  Qed.

  (* exactly once, whatever the destructors do: every element of the slice ends up destroyed and
     no other identity is touched, on the normal AND on the panicking exit; the only other outcome
     is the abort of a double panic -- never a double drop *)
  Lemma drop_list_spec es : forall s,
    NoDup es -> (forall e, In e es -> ledger s e = Live) ->
    post (drop_list cfg es s) (fun _ s' => destroyed s s' es) (fun s' => destroyed s s' es).
  Proof.
    induction es as [|e es IH]; intros s Hnd Hlive.
    - simpl. apply destroyed_nil.
    - inversion Hnd as [|? ? Hnin Hnd']; subst.
      simpl drop_list.
      destruct (drop_elem_live s e (Hlive e (or_introl eq_refl))) as (s1 & Hd1 & He).
      assert (Hlive1 : forall x, In x es -> ledger s1 x = Live).
      { intros x Hx. rewrite (ds_out _ _ _ Hd1) by (intros [<-|[]]; contradiction). apply Hlive. right; assumption. }
      specialize (IH s1 Hnd' Hlive1).
      unfold try_finally. rewrite He.
      destruct (mem e (drop_panics s)).
      + destruct (drop_list cfg es s1) as [[u| | | | |] s2]; simpl in *; auto;
          eapply destroyed_cons; eassumption.
      + destruct (drop_list cfg es s1) as [[u| | | | |] s2]; simpl in *; auto;
          eapply destroyed_cons; eassumption.
  Qed.

  (* reading n consecutive written slots *)
  Definition slice_elems (f : Z -> slot) (i : Z) (n : nat) : list elem :=
    map (fun k => slot_elem (f (i + Z.of_nat k))) (seq 0 n).

  Lemma slice_elems_S f i n : slice_elems f i (S n) = slot_elem (f i) :: slice_elems f (i + 1) n.
  Proof.
    unfold slice_elems. simpl. rewrite Z.add_0_r. f_equal.
    rewrite <- seq_shift, map_map. apply map_ext. intros k. f_equal. f_equal. lia.
  Qed.

  Lemma read_from_at s b bl off : forall n i,
    nth_error (heap s) b = Some bl -> block_ok cfg bl -> canon_off bl = Some off ->
    0 <= i -> i + Z.of_nat n <= h_cap bl ->
    (forall k, i <= k < i + Z.of_nat n -> exists e, slots bl k = Init e) ->
    read_from cfg (PElt b off i) n s = (Val (slice_elems (slots bl) i n), s).
  Proof.
    induction n as [|n IH]; intros i Hn Hb Hco Hi Hle Hinit.
    - reflexivity.
    - simpl read_from.
      assert (R : 0 <= i < h_cap bl) by lia.
      pose proof (slot_read_at cfg s b bl off i Hcfg Hn Hb Hco R) as Hr.
      destruct (Hinit i ltac:(lia)) as [e He]. rewrite He in Hr.
      rewrite (bind_val _ _ _ _ _ Hr). simpl padd.
      rewrite (bind_val _ _ _ _ _ (IH (i + 1) Hn Hb Hco ltac:(lia) ltac:(lia) ltac:(intros k Hk; apply Hinit; lia))).
      rewrite slice_elems_S, He. reflexivity.
  Qed.

  Lemma read_list_at s b bl off i n :
    nth_error (heap s) b = Some bl -> block_ok cfg bl -> canon_off bl = Some off ->
    0 <= i -> 0 <= n -> i + n <= h_cap bl ->
    (forall k, i <= k < i + n -> exists e, slots bl k = Init e) ->
    read_list cfg (PElt b off i) n s = (Val (slice_elems (slots bl) i (Z.to_nat n)), s).
  Proof.
    intros Hn Hb Hco Hi Hn0 Hle Hinit. unfold read_list.
    destruct (Z.leb_spec n 0).
    - assert (n = 0) by lia. subst. reflexivity.
    - simpl padd.
      assert (R : 0 <= i + (n - 1) < h_cap bl) by lia.
      rewrite (bind_val _ _ _ _ _ (elt_block_at cfg s b bl off _ Hcfg Hn Hb Hco R)).
      apply read_from_at; try assumption; try lia.
      intros k Hk. apply Hinit. lia.
  Qed.

  Lemma slice_elems_view f n m : 0 <= n <= m ->
    slice_elems f n (Z.to_nat (m - n)) = skipn (Z.to_nat n) (view f m).
  Proof.
    intros H. apply list_ext. intros k.
    rewrite nth_error_skipn_local.
    destruct (Nat.lt_ge_cases k (Z.to_nat (m - n))) as [L|G].
    - unfold slice_elems. erewrite map_nth_error; [|rewrite nth_error_seq_local by lia; reflexivity].
      rewrite view_nth_nat by lia. simpl. do 3 f_equal. lia.
    - rewrite view_nth_none by lia. apply nth_error_None. unfold slice_elems. rewrite map_length, seq_length. lia.
  Qed.

  (* truncate: the length is lowered first, then the tail is destroyed exactly once; on every exit
     (normal or a destructor panic) the vector exposes exactly the kept prefix *)
  Lemma truncate_spec s v b bl n :
    vec_at s v b bl -> block_ok cfg bl -> init_upto (slots bl) (h_len bl) -> 0 <= n < h_len bl ->
    NoDup (velems bl) -> (forall e, In e (velems bl) -> ledger s e = Live) ->
    let bl' := with_hdr bl n (h_cap bl) (h_align bl) in
    let tail := skipn (Z.to_nat n) (velems bl) in
    let R := fun s' => vec_at s' v b bl' /\ destroyed (upd_block s b bl') s' tail in
    block_ok cfg bl' /\ velems bl' = firstn (Z.to_nat n) (velems bl) /\
    post (truncate cfg v n s) (fun _ s' => R s') R.
  Proof.
    intros Hv Hb Hi Hn Hnd Hlive bl' tail R.
    pose proof (bo_len _ _ Hb) as Hlen.
    assert (Hb' : block_ok cfg bl') by (apply block_ok_with_len; [assumption|lia]).
    split; [exact Hb'|]. split.
    { unfold velems, bl'. simpl. symmetry. apply view_firstn. lia. }
    unfold truncate.
    rewrite (bind_val _ _ _ _ _ (len_at cfg _ _ _ _ Hcfg Hv Hb)).
    assert (E : (h_len bl <=? n) = false) by (apply Z.leb_gt; lia). rewrite E.
    rewrite (bind_val _ _ _ _ _ (set_len_at cfg s v b bl n Hcfg Hv Hb)).
    fold bl'. set (s1 := upd_block s b bl').
    rewrite Htracked. cbn [negb].
    assert (Hv1 : vec_at s1 v b bl') by (apply vec_at_upd with (bl := bl); assumption).
    destruct (data_at cfg _ _ _ _ Hcfg Hv1 Hb') as (off & Hco & Hd).
    rewrite (bind_val _ _ _ _ _ Hd). simpl padd. try rewrite Z.add_0_l.
    assert (Hrl : read_list cfg (PElt b off n) (h_len bl - n) s1 = (Val tail, s1)).
    { rewrite (read_list_at s1 b bl' off n (h_len bl - n) (proj2 Hv1) Hb' Hco); try lia.
      - unfold tail, velems. rewrite <- slice_elems_view by lia. reflexivity.
      - simpl. lia.
      - intros k Hk. simpl. apply Hi. lia. }
    rewrite (bind_val _ _ _ _ _ Hrl).
    eapply post_weaken; [apply (drop_list_spec tail s1)| |].
    - unfold tail. clear - Hnd. revert Hnd. generalize (velems bl). intros l. revert l.
      induction (Z.to_nat n) as [|k IH]; intros [|x l] H; simpl; auto. inversion H; auto.
    - intros e He. apply Hlive. unfold tail in He. clear - He.
      revert He. generalize (velems bl). intros l. revert l.
      induction (Z.to_nat n) as [|k IH]; intros [|x l] H; simpl in *; auto.
    - intros u s' Hd'. split; [|exact Hd']. destruct Hv1 as [H1 H2]. split.
      + rewrite (ds_vecs _ _ _ Hd'). exact H1.
      + rewrite (ds_heap _ _ _ Hd'). exact H2.
    - intros s' Hd'. split; [|exact Hd']. destruct Hv1 as [H1 H2]. split.
      + rewrite (ds_vecs _ _ _ Hd'). exact H1.
      + rewrite (ds_heap _ _ _ Hd'). exact H2.
  Qed.
End Drops.
