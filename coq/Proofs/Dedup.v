(* Proofs/Dedup.v -- dedup / dedup_by / dedup_by_key with ANY notion of "same": the elements' own
   equality (payloads, with an element unequal to itself), a key function, or an arbitrary scripted
   comparator (true / false / panic in any order: non-reflexive, non-transitive, lying): the loop
   only permutes the vector's own elements -- nothing is destroyed, duplicated or lost in the loop, on
   both exits -- and the final truncate destroys exactly the elements moved behind the kept prefix. *)
From Coq Require Import ZArith List Bool Lia Permutation.
From MV Require Import Ast Eval Scalar Machine.
From MV.Proofs Require Import Arith Logic Prim View OpsLocal Guards Drops Retain.
Import ListNotations.
Open Scope Z_scope.

Section Dedup.
  Variable cfg : tcfg.
  Hypothesis Hcfg : cfg_ok cfg.

  (* the comparator call: whatever it answers, only the event log changes *)
  Lemma same_call_keeps k a b sc s :
    (tracked cfg = false \/ ledger s a = Live) -> (tracked cfg = false \/ ledger s b = Live) ->
    let Keeps := fun s' => heap s' = heap s /\ vecs s' = vecs s /\ ledger s' = ledger s /\ iters s' = iters s /\
                           next_elem s' = next_elem s in
    post (same_call cfg k a b sc s) (fun _ s' => Keeps s') Keeps.
  Proof.
    intros Ha Hb Keeps. destruct k; unfold same_call.
    - assert (He : exists r s', elem_eq cfg a b s = (Val r, s') /\ Keeps s').
      { unfold elem_eq. rewrite (bind_val _ _ _ _ _ (expose_live cfg s a Ha)).
        rewrite (bind_val _ _ _ _ _ (expose_live cfg s b Hb)).
        eexists _, _. split; [reflexivity|]. unfold Keeps. simpl. auto 6. }
      destruct He as (r & s' & He & Hk). rewrite (bind_val _ _ _ _ _ He). simpl. exact Hk.
    - unfold Keeps. simpl. auto 6.
    - destruct (pop_script sc A_F) as [x sc'] eqn:E. unfold Keeps.
      unfold bind, emit. simpl. destruct (x =? A_P); simpl; auto 6.
  Qed.

  Theorem dedup_loop_spec k v b bl0 l off s0 (Hco : canon_off bl0 = Some off)
      (Hlive : forall e, In e (view (slots bl0) l) -> tracked cfg = false \/ ledger s0 e = Live) :
    forall fuel s read write sc,
    permuted cfg s0 s v b bl0 l -> 1 <= write <= read -> read <= l -> (Z.to_nat (l - read) <= fuel)%nat ->
    post (dedup_loop cfg fuel k (PElt b off 0) l read write sc s)
      (fun w s' => 0 <= w <= l /\ permuted cfg s0 s' v b bl0 l)
      (fun s' => permuted cfg s0 s' v b bl0 l).
  Proof.
    induction fuel as [|fuel IH]; intros s read write sc Hperm Hwr Hrl Hfuel.
    - simpl. split; [lia|exact Hperm].
    - simpl dedup_loop.
      destruct (Z.leb_spec l read) as [Hdone|Hmore].
      { simpl. split; [lia|exact Hperm]. }
      destruct Hperm as (bl & Hv & Hb & Hlen & Hcap & Hal & Hsz & Hbal & Hinit & Hp & Hled & Hnx & Hvecs & Hit & Hhl & Hoth).
      assert (Hco' : canon_off bl = Some off) by (unfold canon_off in *; rewrite Hbal; exact Hco).
      pose proof (bo_len _ _ Hb) as Hlb. rewrite Hlen in Hlb.
      simpl padd. rewrite ?Z.add_0_l.
      assert (Rr : 0 <= read < h_cap bl) by lia.
      assert (Rw1 : 0 <= write - 1 < h_cap bl) by lia.
      destruct (Hinit read ltac:(lia)) as [er Her].
      destruct (Hinit (write - 1) ltac:(lia)) as [ep Hep].
      pose proof (slot_read_at cfg s b bl off read Hcfg (proj2 Hv) Hb Hco' Rr) as Hrd. rewrite Her in Hrd.
      rewrite (bind_val _ _ _ _ _ Hrd).
      pose proof (slot_read_at cfg s b bl off (write - 1) Hcfg (proj2 Hv) Hb Hco' Rw1) as Hrd2. rewrite Hep in Hrd2.
      rewrite (bind_val _ _ _ _ _ Hrd2).
      assert (Hin : In er (view (slots bl) l)).
      { apply nth_error_In with (n := Z.to_nat read). rewrite view_nth by lia. rewrite Her. reflexivity. }
      assert (Hin2 : In ep (view (slots bl) l)).
      { apply nth_error_In with (n := Z.to_nat (write - 1)). rewrite view_nth by lia. rewrite Hep. reflexivity. }
      pose proof (permuted_elems_live cfg s0 s v b bl0 l bl Hv Hlen Hp Hled Hlive) as Hl'.
      assert (Hkeep : forall s1, heap s1 = heap s /\ vecs s1 = vecs s /\ ledger s1 = ledger s /\ iters s1 = iters s /\ next_elem s1 = next_elem s ->
                       permuted cfg s0 s1 v b bl0 l).
      { intros s1 (Hh1 & Hv1 & Hl1 & Hi1 & Hn1).
        exists bl. destruct Hv as [Hva Hvb]. split; [split; [rewrite Hv1; exact Hva|rewrite Hh1; exact Hvb]|].
        repeat (split; [assumption|]). split; [congruence|]. split; [congruence|]. split; [congruence|]. split; [congruence|].
        split; [rewrite Hh1; exact Hhl|]. intros b' Hb'. rewrite Hh1. apply Hoth. exact Hb'. }
      eapply post_bind.
      { eapply post_weaken; [apply (same_call_keeps k er ep sc s (Hl' er Hin) (Hl' ep Hin2))| |].
        - intros r s1 H. exact H.
        - intros s1 H. apply Hkeep. exact H. }
      intros [m sc'] s1 Hk1. pose proof (Hkeep s1 Hk1) as Hperm1. destruct Hk1 as (Hh1 & Hv1 & Hl1 & Hi1 & Hn1).
      destruct m.
      + apply IH; [exact Hperm1|lia|lia|lia].
      + destruct (Z.eqb_spec read write) as [Erw|Nrw]; cbn [negb].
        * rewrite bind_ret. apply IH; [exact Hperm1|lia|lia|lia].
        * assert (Rw : 0 <= write < h_cap bl) by lia.
          destruct (Hinit write ltac:(lia)) as [ew Hew].
          assert (Hn1' : nth_error (heap s1) b = Some bl) by (rewrite Hh1; exact (proj2 Hv)).
          simpl padd. rewrite ?Z.add_0_l.
          rewrite (bind_val _ _ _ _ _ (slot_swap_at cfg Hcfg s1 b bl off read write er ew Hn1' Hb Hco' Rw Rr Her Hew)).
          set (bl2 := with_slots bl (upd (upd (slots bl) read (slots bl write)) write (slots bl read))).
          apply IH; [|lia|lia|lia].
          exists bl2. split.
          { split; [simpl; rewrite Hv1; exact (proj1 Hv)|eapply upd_block_same; exact Hn1']. }
          split; [apply block_ok_with_slots; exact Hb|].
          repeat (split; [assumption|]).
          split.
          { simpl. intros k0 Hk. unfold upd. destruct (Z.eqb_spec k0 write); [rewrite Her; eauto|].
            destruct (Z.eqb_spec k0 read); [rewrite Hew; eauto|]. apply Hinit. exact Hk. }
          split.
          { simpl. etransitivity; [|exact Hp]. apply view_swap_perm; lia. }
          simpl. split; [congruence|]. split; [congruence|]. split; [congruence|]. split; [congruence|].
          split; [rewrite list_set_length, Hh1; exact Hhl|].
          intros b' Hb'. rewrite list_set_other by congruence. rewrite Hh1. apply Hoth. exact Hb'.
  Qed.
End Dedup.
