(* Proofs/Abort.v -- C18: when the allocator refuses a request made by grow, the outcome is the
   allocation-error abort carrying the requested layout, and at that point nothing has been
   written, recorded or freed: heap and handles are exactly as before the call. *)
From Coq Require Import ZArith List Bool Lia.
From MV Require Import Ast Eval Scalar Machine.
From MV.Proofs Require Import Arith Logic Prim View OpsLocal Grow.
Import ListNotations.
Open Scope Z_scope.

Definition on_abort {A} (r : res A * state) (Qa : Z -> Z -> state -> Prop) : Prop :=
  match r with (AllocAbort x y, s) => Qa x y s | _ => True end.

Section Abort.
  Variable cfg : tcfg.
  Variable ncap : Z -> option Z.
  Hypothesis Hcfg : cfg_ok cfg.

  Lemma grow_realloc_abort s v b bl c :
    vec_at s v b bl -> block_ok cfg bl -> 0 <= c < W64 -> h_len bl <= c ->
    on_abort (grow cfg v c (h_align bl) s)
      (fun size align s' =>
         make_layout cfg c (h_align bl) = Some (size, align) /\
         heap s' = heap s /\ vecs s' = vecs s /\ same_elems s s').
  Proof.
    intros Hv Hb Hc Hlen. unfold grow.
    assert (E1 : (if release cfg then ret tt else l0 <- len v ;; if l0 <=? c then ret tt else panic) s = (Val tt, s)).
    { destruct (release cfg); [reflexivity|]. rewrite (bind_val _ _ _ _ _ (len_at cfg _ _ _ _ Hcfg Hv Hb)).
      assert (E : (h_len bl <=? c) = true) by (apply Z.leb_le; lia). rewrite E. reflexivity. }
    rewrite (bind_val _ _ _ _ _ E1).
    rewrite (bind_val _ _ _ _ _ (capacity_at cfg _ _ _ _ Hcfg Hv Hb)).
    destruct (Z.eqb_spec c (h_cap bl)) as [Ec|Ec].
    { rewrite bind_assoc. rewrite (bind_val _ _ _ _ _ (is_default_at _ _ _ _ Hv)). rewrite bind_ret. simpl. exact I. }
    rewrite bind_ret.
    destruct (make_layout cfg c (h_align bl)) as [[nsize nalign]|] eqn:Eml; [|simpl; exact I].
    rewrite lift_opt_some. rewrite bind_ret.
    rewrite (bind_val _ _ _ _ _ (len_at cfg _ _ _ _ Hcfg Hv Hb)).
    rewrite (bind_val _ _ _ _ _ (is_default_at _ _ _ _ Hv)).
    pose proof (bo_layout _ _ Hb) as Hlay. rewrite Hlay. rewrite lift_opt_some. rewrite bind_assoc. rewrite bind_ret.
    rewrite bind_assoc. rewrite (bind_val _ _ _ _ _ (vec_handle_at _ _ _ _ Hv)).
    cbn [fst snd].
    destruct (do_realloc_spec s b bl nsize (proj2 Hv) (bo_live _ _ Hb)) as (r & s1 & Hre & Hv1 & Hs1 & Hcase).
    rewrite (bind_val _ _ _ _ _ Hre).
    destruct Hcase as [[-> Hh1]|[-> Hh1]].
    - simpl. split; [reflexivity|]. split; [assumption|]. split; assumption.
    - assert (Hnth : nth_error (heap s1) (List.length (heap s)) = Some (reblock bl nsize)).
      { rewrite Hh1. rewrite <- (list_set_length (heap s) b (kill bl)). apply nth_error_snoc. }
      rewrite (bind_val _ _ _ _ _ (get_block_at _ _ _ Hnth eq_refl)).
      destruct (HEADER_SIZE <=? b_size (reblock bl nsize)); simpl; exact I.
  Qed.

  Lemma grow_sentinel_abort s v c a :
    vec_sentinel s v -> 0 <= c < W64 ->
    on_abort (grow cfg v c a s)
      (fun size align s' =>
         make_layout cfg c a = Some (size, align) /\
         heap s' = heap s /\ vecs s' = vecs s /\ same_elems s s').
  Proof.
    intros Hv Hc. unfold grow.
    assert (Hh : vec_handle v s = (Val Sentinel, s)) by (unfold vec_handle; rewrite Hv; reflexivity).
    assert (Hl : len v s = (Val 0, s)) by (unfold len; rewrite (bind_val _ _ _ _ _ Hh); reflexivity).
    assert (Hcap : capacity v s = (Val 0, s)) by (unfold capacity; rewrite (bind_val _ _ _ _ _ Hh); reflexivity).
    assert (Hd : is_default v s = (Val true, s)) by (unfold is_default; rewrite (bind_val _ _ _ _ _ Hh); reflexivity).
    assert (E1 : (if release cfg then ret tt else l0 <- len v ;; if l0 <=? c then ret tt else panic) s = (Val tt, s)).
    { destruct (release cfg); [reflexivity|]. rewrite (bind_val _ _ _ _ _ Hl).
      assert (E : (0 <=? c) = true) by (apply Z.leb_le; lia). rewrite E. reflexivity. }
    rewrite (bind_val _ _ _ _ _ E1).
    rewrite (bind_val _ _ _ _ _ Hcap).
    assert (Hearly : (if c =? 0 then dflt <- is_default v ;; ret (negb (if dflt then max_align cfg <? a else false)) else ret false) s
                     = (Val ((c =? 0) && negb (max_align cfg <? a)), s)).
    { destruct (c =? 0); [|reflexivity]. rewrite (bind_val _ _ _ _ _ Hd). reflexivity. }
    rewrite (bind_val _ _ _ _ _ Hearly).
    destruct ((c =? 0) && negb (max_align cfg <? a)); [simpl; exact I|].
    destruct (make_layout cfg c a) as [[nsize nalign]|] eqn:Eml; [|simpl; exact I].
    rewrite lift_opt_some, bind_ret, (bind_val _ _ _ _ _ Hl), (bind_val _ _ _ _ _ Hd).
    destruct (do_alloc_spec s nsize nalign) as (r & s1 & Hre & Hv1 & Hs1 & Hcase); rewrite (bind_val _ _ _ _ _ Hre).
    destruct Hcase as [[-> Hh1]|[-> Hh1]].
    - simpl. split; [reflexivity|]. split; [assumption|]. split; assumption.
    - assert (Hnth : nth_error (heap s1) (List.length (heap s)) = Some (fresh_block nsize nalign 0 0 0)) by (rewrite Hh1; apply nth_error_snoc).
      rewrite (bind_val _ _ _ _ _ (get_block_at _ _ _ Hnth eq_refl)).
      destruct (HEADER_SIZE <=? b_size (fresh_block nsize nalign 0 0 0)); simpl; exact I.
  Qed.
End Abort.
