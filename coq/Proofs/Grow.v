(* Proofs/Grow.v -- the capacity family on one vector: grow, reserve, reserve_exact,
   shrink_to_fit, shrink_to, with_capacity, with_alignment.  Every (re)allocation quotes exactly
   the layout the block has (C03), the new block satisfies the layout invariant with the
   requested capacity (C07), keeps its alignment (C08), and a failing or impossible request
   leaves everything in place (C09, C18). *)
From Coq Require Import ZArith List Bool Lia.
From MV Require Import Ast Eval Scalar Machine.
From MV.Proofs Require Import Arith Logic Prim View OpsLocal.
Import ListNotations.
Open Scope Z_scope.

Section Grow.
  Variable cfg : tcfg.
  Variable ncap : Z -> option Z.
  Hypothesis Hcfg : cfg_ok cfg.

  (* fields that no capacity operation touches *)
  Record same_elems (s s' : state) : Prop := {
    se_iters : iters s' = iters s;
    se_ledger : ledger s' = ledger s;
    se_payload : payload s' = payload s;
    se_next : next_elem s' = next_elem s;
    se_dp : drop_panics s' = drop_panics s;
    se_cp : clone_panics s' = clone_panics s;
    se_lim : alloc_limit s' = alloc_limit s }.

  Lemma same_elems_refl s : same_elems s s. Proof. constructor; reflexivity. Qed.
  Lemma same_elems_trans s1 s2 s3 : same_elems s1 s2 -> same_elems s2 s3 -> same_elems s1 s3.
  Proof. intros [] []. constructor; congruence. Qed.

  Definition kill (bl : block) : block :=
    {| b_size := b_size bl; b_align := b_align bl; h_len := h_len bl; h_cap := h_cap bl;
       h_align := h_align bl; slots := slots bl; b_live := false |}.

  (* v's storage moved from block b to a fresh block nbl (appended to the heap); b is dead *)
  Record moved (s s' : state) (v b : nat) (nbl : block) : Prop := {
    mv_heap : heap s' = list_set (heap s) b (kill (nth b (heap s) nbl)) ++ [nbl];
    mv_vecs : vecs s' = list_put None (vecs s) v (Some (At (List.length (heap s)) 0));
    mv_same : same_elems s s' }.

  (* v was never allocated and now owns the fresh block nbl *)
  Record allocated (s s' : state) (v : nat) (nbl : block) : Prop := {
    al_heap : heap s' = heap s ++ [nbl];
    al_vecs : vecs s' = list_put None (vecs s) v (Some (At (List.length (heap s)) 0));
    al_same : same_elems s s' }.

  Definition grown (bl : block) (c : Z) (size : Z) : block :=
    {| b_size := size; b_align := b_align bl; h_len := h_len bl; h_cap := c; h_align := h_align bl;
       slots := slots bl; b_live := true |}.

  Lemma count_request_cases size s :
    exists b s', count_request size s = (Val b, s') /\ heap s' = heap s /\ vecs s' = vecs s /\
                 same_elems s s' /\ events s' = events s.
  Proof.
    unfold count_request, bind, get. simpl.
    destruct (alloc_fail s) as [k|].
    - destruct (k =? 0); simpl; eexists; eexists; (split; [reflexivity|]); simpl;
        repeat split; try reflexivity.
    - eexists; eexists; (split; [reflexivity|]); repeat split; reflexivity.
  Qed.

  Lemma list_put_same {A} (d : A) l n a : nth_error (list_put d l n a) n = Some a.
  Proof. revert l; induction n as [|n IH]; intros [|x l]; simpl; auto. Qed.
  Definition flat {A} (o : option (option A)) : option A :=
    match o with Some (Some x) => Some x | _ => None end.
  Lemma list_put_other {A} (l : list (option A)) n m a : n <> m ->
    flat (nth_error (list_put None l n a) m) = flat (nth_error l m).
  Proof.
    revert l m; induction n as [|n IHn]; intros [|x l] [|m] H; simpl; try congruence; auto;
      try (destruct m; reflexivity).
    all: try (rewrite IHn by congruence; destruct m; reflexivity).
    all: try (apply IHn; congruence).
  Qed.

  Lemma lift_opt_some {A} (a : A) : lift_opt (Some a) = ret a.
  Proof. reflexivity. Qed.

  Definition reblock (bl : block) (size : Z) : block :=
    {| b_size := size; b_align := b_align bl; h_len := h_len bl; h_cap := h_cap bl; h_align := h_align bl;
       slots := slots bl; b_live := true |}.

  (* realloc quoting the block's own layout: fails cleanly or moves the bytes to a fresh block *)
  Lemma do_realloc_spec s b bl nsize :
    nth_error (heap s) b = Some bl -> b_live bl = true ->
    exists r s', do_realloc (At b 0) (b_size bl) (b_align bl) nsize s = (Val r, s') /\
      vecs s' = vecs s /\ same_elems s s' /\
      ((r = None /\ heap s' = heap s) \/
       (r = Some (List.length (heap s)) /\ heap s' = list_set (heap s) b (kill bl) ++ [reblock bl nsize])).
  Proof.
    intros Hn Hl. unfold do_realloc. rewrite Z.eqb_refl. cbn [negb].
    rewrite (bind_val _ _ _ _ _ (get_block_at _ _ _ Hn Hl)).
    rewrite !Z.eqb_refl. cbn [andb negb].
    destruct (count_request_cases nsize s) as (fails & s1 & Hcr & Hh1 & Hv1 & Hs1 & He1).
    rewrite (bind_val _ _ _ _ _ Hcr).
    destruct fails.
    - eexists. eexists. split; [reflexivity|]. simpl. split; [exact Hv1|]. split.
      + destruct Hs1. constructor; simpl; assumption.
      + left. split; [reflexivity|exact Hh1].
    - eexists. eexists. split; [reflexivity|]. simpl. split; [exact Hv1|]. split.
      + destruct Hs1. constructor; simpl; assumption.
      + right. rewrite Hh1. split; reflexivity.
  Qed.

  Lemma nth_error_snoc {A} (l : list A) x : nth_error (l ++ [x]) (List.length l) = Some x.
  Proof. rewrite nth_error_app2 by lia. rewrite Nat.sub_diag. reflexivity. Qed.

  Lemma list_set_snoc {A} (l : list A) x y : list_set (l ++ [x]) (List.length l) y = l ++ [y].
  Proof. induction l as [|z l IH]; simpl; [reflexivity|]. rewrite IH. reflexivity. Qed.

  (* ---------------------------------------------------------------- grow on an allocated vector *)
  Lemma grow_realloc s v b bl c :
    vec_at s v b bl -> block_ok cfg bl -> 0 <= c < W64 -> h_len bl <= c ->
    post (grow cfg v c (h_align bl) s)
      (fun _ s' =>
         (c = h_cap bl /\ s' = s) \/
         (c <> h_cap bl /\ exists size,
            make_layout cfg c (h_align bl) = Some (size, b_align bl) /\
            block_ok cfg (grown bl c size) /\ moved s s' v b (grown bl c size)))
      (fun s' => s' = s /\ make_layout cfg c (h_align bl) = None).
  Proof.
    intros Hv Hb Hc Hlen. unfold grow.
    assert (E1 : (if release cfg then ret tt else l0 <- len v ;; if l0 <=? c then ret tt else panic) s = (Val tt, s)).
    { destruct (release cfg); [reflexivity|]. rewrite (bind_val _ _ _ _ _ (len_at cfg _ _ _ _ Hcfg Hv Hb)).
      assert (E : (h_len bl <=? c) = true) by (apply Z.leb_le; lia). rewrite E. reflexivity. }
    rewrite (bind_val _ _ _ _ _ E1).
    rewrite (bind_val _ _ _ _ _ (capacity_at cfg _ _ _ _ Hcfg Hv Hb)).
    destruct (Z.eqb_spec c (h_cap bl)) as [Ec|Ec].
    { rewrite bind_assoc. rewrite (bind_val _ _ _ _ _ (is_default_at _ _ _ _ Hv)). rewrite bind_ret.
      cbn [negb]. simpl. left. split; [assumption|reflexivity]. }
    rewrite bind_ret.
    destruct (make_layout cfg c (h_align bl)) as [[nsize nalign]|] eqn:Eml.
    2:{ simpl. split; reflexivity. }
    rewrite lift_opt_some. rewrite bind_ret.
    rewrite (bind_val _ _ _ _ _ (len_at cfg _ _ _ _ Hcfg Hv Hb)).
    rewrite (bind_val _ _ _ _ _ (is_default_at _ _ _ _ Hv)).
    pose proof (bo_layout _ _ Hb) as Hlay. rewrite Hlay. rewrite lift_opt_some. rewrite bind_assoc. rewrite bind_ret.
    rewrite bind_assoc. rewrite (bind_val _ _ _ _ _ (vec_handle_at _ _ _ _ Hv)).
    cbn [fst snd].
    pose proof (is_pow2_pos _ (bo_pow2 _ _ Hb)) as Hapos.
    destruct Hcfg as ((Hesz & _) & _).
    pose proof (make_layout_some cfg c (h_align bl) nsize nalign Hc ltac:(lia) Hapos Eml) as (-> & Hp2 & Hmax & off & Hoff & H24 & Hmod & Hroom & Hnmod).
    destruct (do_realloc_spec s b bl nsize (proj2 Hv) (bo_live _ _ Hb)) as (r & s1 & Hre & Hv1 & Hs1 & Hcase).
    rewrite (bind_val _ _ _ _ _ Hre).
    destruct Hcase as [[-> Hh1]|[-> Hh1]].
    { simpl. exact I. }
    assert (Hnth : nth_error (heap s1) (List.length (heap s)) = Some (reblock bl nsize)).
    { rewrite Hh1. rewrite <- (list_set_length (heap s) b (kill bl)). apply nth_error_snoc. }
    rewrite (bind_val _ _ _ _ _ (get_block_at _ _ _ Hnth eq_refl)).
    assert (E24 : (HEADER_SIZE <=? b_size (reblock bl nsize)) = true) by (apply Z.leb_le; simpl; nia).
    rewrite E24. rewrite bind_ret.
    simpl.
    right. split; [assumption|]. exists nsize.
    pose proof (bo_align _ _ Hb) as Hal.
    split; [rewrite <- Hal; reflexivity|].
    assert (Hgb : block_ok cfg (grown bl c nsize)).
    { constructor; simpl.
      - reflexivity.
      - exact Hal.
      - exact (bo_pow2 _ _ Hb).
      - exact (bo_min _ _ Hb).
      - pose proof (bo_len _ _ Hb). lia.
      - lia.
      - rewrite <- Hal. exact Eml. }
    split; [exact Hgb|].
    constructor.
    - simpl. rewrite Hh1.
      assert (Hnb : nth b (heap s) (grown bl c nsize) = bl) by (apply nth_error_nth; exact (proj2 Hv)).
      rewrite Hnb.
      rewrite <- (list_set_length (heap s) b (kill bl)) at 1.
      rewrite list_set_snoc. unfold grown, reblock, with_hdr. simpl. reflexivity.
    - simpl. rewrite Hv1. reflexivity.
    - destruct Hs1. constructor; simpl; assumption.
  Qed.

  (* ---------------------------------------------------------------- grow on the sentinel *)
  Definition fresh_block (size align len_ cap_ al : Z) : block :=
    {| b_size := size; b_align := align; h_len := len_; h_cap := cap_; h_align := al;
       slots := fun _ => Uninit; b_live := true |}.

  Lemma do_alloc_spec s size align :
    exists r s', do_alloc size align s = (Val r, s') /\ vecs s' = vecs s /\ same_elems s s' /\
      ((r = None /\ heap s' = heap s) \/
       (r = Some (List.length (heap s)) /\ heap s' = heap s ++ [fresh_block size align 0 0 0])).
  Proof.
    unfold do_alloc.
    destruct (count_request_cases size s) as (fails & s1 & Hcr & Hh1 & Hv1 & Hs1 & He1).
    rewrite (bind_val _ _ _ _ _ Hcr).
    destruct fails.
    - eexists. eexists. split; [reflexivity|]. simpl. split; [exact Hv1|]. split.
      + destruct Hs1. constructor; simpl; assumption.
      + left. split; [reflexivity|exact Hh1].
    - eexists. eexists. split; [reflexivity|]. simpl. split; [exact Hv1|]. split.
      + destruct Hs1. constructor; simpl; assumption.
      + right. rewrite Hh1. split; reflexivity.
  Qed.

  Definition vec_sentinel (s : state) (v : nat) : Prop := nth_error (vecs s) v = Some (Some Sentinel).

  Lemma grow_sentinel s v c a :
    vec_sentinel s v -> 0 <= c < W64 -> is_pow2 a = true -> max_align cfg <= a ->
    post (grow cfg v c a s)
      (fun _ s' =>
         (c = 0 /\ a <= max_align cfg /\ s' = s) \/
         (exists size, make_layout cfg c a = Some (size, a) /\
            block_ok cfg (fresh_block size a 0 c a) /\ allocated s s' v (fresh_block size a 0 c a)))
      (fun s' => s' = s /\ make_layout cfg c a = None).
  Proof.
    intros Hv Hc Hp Hm. unfold grow.
    assert (Hh : vec_handle v s = (Val Sentinel, s)) by (unfold vec_handle; rewrite Hv; reflexivity).
    assert (Hl : len v s = (Val 0, s)) by (unfold len; rewrite (bind_val _ _ _ _ _ Hh); reflexivity).
    assert (Hcap : capacity v s = (Val 0, s)) by (unfold capacity; rewrite (bind_val _ _ _ _ _ Hh); reflexivity).
    assert (Hd : is_default v s = (Val true, s)) by (unfold is_default; rewrite (bind_val _ _ _ _ _ Hh); reflexivity).
    assert (E1 : (if release cfg then ret tt else l0 <- len v ;; if l0 <=? c then ret tt else panic) s = (Val tt, s)).
    { destruct (release cfg); [reflexivity|]. rewrite (bind_val _ _ _ _ _ Hl).
      assert (E : (0 <=? c) = true) by (apply Z.leb_le; lia). rewrite E. reflexivity. }
    rewrite (bind_val _ _ _ _ _ E1).
    rewrite (bind_val _ _ _ _ _ Hcap).
    assert (Hearly : (if c =? 0 then dflt <- is_default v ;; ret (negb (if dflt then max_align cfg <? a else false)) else ret false) s
                     = (Val ((c =? 0) && negb (max_align cfg <? a)), s)).
    { destruct (c =? 0); [|reflexivity]. rewrite (bind_val _ _ _ _ _ Hd). reflexivity. }
    rewrite (bind_val _ _ _ _ _ Hearly).
    destruct (Z.eqb_spec c 0) as [Ec|Ec]; destruct (Z.ltb_spec (max_align cfg) a) as [La|La]; cbn [andb negb].
    2:{ simpl. left. repeat split; [assumption|lia]. }
    all: destruct (make_layout cfg c a) as [[nsize nalign]|] eqn:Eml; [|simpl; split; reflexivity].
    all: rewrite lift_opt_some; rewrite bind_ret; rewrite (bind_val _ _ _ _ _ Hl); rewrite (bind_val _ _ _ _ _ Hd).
    all: pose proof (is_pow2_pos _ Hp) as Hapos; destruct Hcfg as ((Hesz & _) & _).
    all: pose proof (make_layout_some cfg c a nsize nalign Hc ltac:(lia) Hapos Eml) as (-> & Hp2 & Hmax & off & Hoff & H24 & Hmod & Hroom & Hnmod).
    all: destruct (do_alloc_spec s nsize a) as (r & s1 & Hre & Hv1 & Hs1 & Hcase); rewrite (bind_val _ _ _ _ _ Hre).
    all: destruct Hcase as [[-> Hh1]|[-> Hh1]]; [simpl; exact I|].
    all: assert (Hnth : nth_error (heap s1) (List.length (heap s)) = Some (fresh_block nsize a 0 0 0)) by (rewrite Hh1; apply nth_error_snoc).
    all: rewrite (bind_val _ _ _ _ _ (get_block_at _ _ _ Hnth eq_refl)).
    all: assert (E24 : (HEADER_SIZE <=? b_size (fresh_block nsize a 0 0 0)) = true) by (apply Z.leb_le; simpl; nia).
    all: rewrite E24; rewrite bind_ret; simpl.
    all: right; exists nsize; split; [reflexivity|].
    all: assert (Hgb : block_ok cfg (fresh_block nsize a 0 c a)) by (constructor; simpl; try reflexivity; try assumption; try lia).
    all: split; [exact Hgb|].
    all: constructor; [simpl; rewrite Hh1; rewrite list_set_snoc; reflexivity | simpl; rewrite Hv1; reflexivity | destruct Hs1; constructor; simpl; assumption].
  Qed.

  (* ---------------------------------------------------------------- the growth policy *)
  (* what the properties need from next_capacity (proved for the regenerated AST in Policy.v) *)
  Definition policy_ok : Prop :=
    forall c c', 0 <= c -> ncap c = Some c' -> 1 <= c' /\ 2 * c <= c' /\ c' < W64.

  Lemma reserve_loop_spec fuel c total s :
    policy_ok -> 1 <= c -> total < c * 2 ^ (Z.of_nat fuel) ->
    post (reserve_loop ncap fuel c total s) (fun nc s' => s' = s /\ total <= nc /\ c <= nc /\ 1 <= nc /\ (nc < W64 \/ nc = c))
         (fun s' => s' = s).
  Proof.
    intros Hpol. revert c. induction fuel as [|fuel IH]; intros c Hc Hlt.
    - simpl reserve_loop. destruct (Z.leb_spec total c).
      + simpl. repeat split; try lia.
      + simpl in Hlt. lia.
    - simpl reserve_loop. destruct (Z.leb_spec total c).
      + simpl. repeat split; try lia.
      + destruct (ncap c) as [c'|] eqn:En.
        * rewrite lift_opt_some, bind_ret.
          assert (Hc0 : 0 <= c) by lia.
          destruct (Hpol c c' Hc0 En) as (H1 & H2 & H3).
          assert (Hlt' : total < c' * 2 ^ Z.of_nat fuel).
          { rewrite Nat2Z.inj_succ, Z.pow_succ_r in Hlt by lia. nia. }
          specialize (IH c' H1 Hlt').
          eapply post_weaken; [exact IH| |auto].
          intros nc s' (-> & Ha & Hb & Hc' & Hd). repeat split; try lia.
        * simpl. reflexivity.
  Qed.

  Definition unchanged_or_moved (s s' : state) (v b : nat) (bl : block) (c : Z) : Prop :=
    (s' = s /\ True) \/
    (exists size, make_layout cfg c (h_align bl) = Some (size, b_align bl) /\
       block_ok cfg (grown bl c size) /\ moved s s' v b (grown bl c size)).

  Lemma reserve_exact_at s v b bl n :
    vec_at s v b bl -> block_ok cfg bl -> 0 <= n ->
    post (reserve_exact cfg v n s)
      (fun _ s' => (h_len bl + n <= h_cap bl /\ s' = s) \/
                   (h_cap bl < h_len bl + n /\ exists size,
                      make_layout cfg (h_len bl + n) (h_align bl) = Some (size, b_align bl) /\
                      block_ok cfg (grown bl (h_len bl + n) size) /\ moved s s' v b (grown bl (h_len bl + n) size)))
      (fun s' => s' = s).
  Proof.
    intros Hv Hb Hn. unfold reserve_exact.
    rewrite (bind_val _ _ _ _ _ (capacity_at cfg _ _ _ _ Hcfg Hv Hb)).
    rewrite (bind_val _ _ _ _ _ (len_at cfg _ _ _ _ Hcfg Hv Hb)).
    unfold add_m, add_u. cbv zeta.
    pose proof (bo_len _ _ Hb) as Hlen. pose proof (bo_cap _ _ Hb) as Hcap.
    destruct (Z.ltb_spec (h_len bl + n) W64) as [Hw|Hw]; [|simpl; reflexivity].
    rewrite lift_opt_some, bind_ret.
    destruct (Z.leb_spec (h_len bl + n) (h_cap bl)) as [Hle|Hgt].
    { simpl. left. split; [assumption|reflexivity]. }
    rewrite (bind_val _ _ _ _ _ (alignment_at cfg _ _ _ _ Hcfg Hv Hb)).
    eapply post_weaken; [apply (grow_realloc s v b bl (h_len bl + n) Hv Hb); lia | |].
    - intros _ s' [[E _]|[_ H]]; [lia|]. right. split; [lia|exact H].
    - intros s' [E _]. exact E.
  Qed.

  Lemma reserve_at s v b bl n :
    policy_ok -> vec_at s v b bl -> block_ok cfg bl -> 0 <= n ->
    post (reserve cfg ncap v n s)
      (fun _ s' => (h_len bl + n <= h_cap bl /\ s' = s) \/
                   (h_cap bl < h_len bl + n /\ exists c size,
                      h_len bl + n <= c /\ h_cap bl < c /\
                      make_layout cfg c (h_align bl) = Some (size, b_align bl) /\
                      block_ok cfg (grown bl c size) /\ moved s s' v b (grown bl c size)))
      (fun s' => s' = s).
  Proof.
    intros Hpol Hv Hb Hn. unfold reserve.
    rewrite (bind_val _ _ _ _ _ (capacity_at cfg _ _ _ _ Hcfg Hv Hb)).
    rewrite (bind_val _ _ _ _ _ (len_at cfg _ _ _ _ Hcfg Hv Hb)).
    unfold add_m, add_u. cbv zeta.
    pose proof (bo_len _ _ Hb) as Hlen. pose proof (bo_cap _ _ Hb) as Hcap.
    destruct (Z.ltb_spec (h_len bl + n) W64) as [Hw|Hw]; [|simpl; reflexivity].
    rewrite lift_opt_some, bind_ret.
    destruct (Z.leb_spec (h_len bl + n) (h_cap bl)) as [Hle|Hgt].
    { simpl. left. split; [assumption|reflexivity]. }
    destruct (ncap (h_cap bl)) as [c1|] eqn:E1; [|simpl; reflexivity].
    rewrite lift_opt_some, bind_ret.
    assert (Hc0 : 0 <= h_cap bl) by lia.
    destruct (Hpol _ _ Hc0 E1) as (H1 & H2 & H3).
    assert (Hpow : h_len bl + n < c1 * 2 ^ Z.of_nat 130).
    { assert (W64 <= 2 ^ Z.of_nat 130) by (rewrite W64_val; vm_compute; discriminate). nia. }
    eapply post_bind; [apply (reserve_loop_spec 130 c1 (h_len bl + n) s Hpol H1 Hpow)|].
    intros nc s' (-> & Ha & Hb' & Hc' & Hd).
    rewrite (bind_val _ _ _ _ _ (alignment_at cfg _ _ _ _ Hcfg Hv Hb)).
    eapply post_weaken; [apply (grow_realloc s v b bl nc Hv Hb); lia | |].
    - intros _ s' [[E _]|[_ (size & H)]]; [lia|]. right. split; [lia|]. exists nc, size. destruct H as (Hx & Hy & Hz). split; [lia|]. split; [lia|]. split; [assumption|]. split; assumption.
    - intros s' [E _]. exact E.
  Qed.

  Lemma shrink_to_fit_at s v b bl :
    vec_at s v b bl -> block_ok cfg bl ->
    post (shrink_to_fit cfg v s)
      (fun _ s' => (h_len bl = h_cap bl /\ s' = s) \/
                   (h_len bl <> h_cap bl /\ exists size,
                      make_layout cfg (h_len bl) (h_align bl) = Some (size, b_align bl) /\
                      block_ok cfg (grown bl (h_len bl) size) /\ moved s s' v b (grown bl (h_len bl) size)))
      (fun s' => s' = s).
  Proof.
    intros Hv Hb. unfold shrink_to_fit.
    rewrite (bind_val _ _ _ _ _ (len_at cfg _ _ _ _ Hcfg Hv Hb)).
    rewrite (bind_val _ _ _ _ _ (capacity_at cfg _ _ _ _ Hcfg Hv Hb)).
    pose proof (bo_len _ _ Hb) as Hlen. pose proof (bo_cap _ _ Hb) as Hcap.
    destruct (Z.eqb_spec (h_len bl) (h_cap bl)) as [E|E].
    { simpl. left. split; [assumption|reflexivity]. }
    rewrite (bind_val _ _ _ _ _ (alignment_at cfg _ _ _ _ Hcfg Hv Hb)).
    eapply post_weaken; [apply (grow_realloc s v b bl (h_len bl) Hv Hb); lia | |].
    - intros _ s' [[E' _]|[_ H]]; [lia|]. right. split; [lia|exact H].
    - intros s' [E' _]. exact E'.
  Qed.

  (* shrink_to: rejects a target above the capacity (leaving everything in place), never grows,
     never goes below max(len, target) *)
  Lemma shrink_to_at s v b bl m :
    vec_at s v b bl -> block_ok cfg bl -> 0 <= m ->
    post (shrink_to cfg v m s)
      (fun _ s' => m <= h_cap bl /\
                   ((s' = s /\ (m = h_cap bl \/ (m < h_len bl /\ h_len bl = h_cap bl))) \/
                    (exists c size, c = Z.max (h_len bl) m /\ c < h_cap bl /\
                       make_layout cfg c (h_align bl) = Some (size, b_align bl) /\
                       block_ok cfg (grown bl c size) /\ moved s s' v b (grown bl c size))))
      (fun s' => s' = s).
  Proof.
    intros Hv Hb Hm. unfold shrink_to.
    rewrite (bind_val _ _ _ _ _ (len_at cfg _ _ _ _ Hcfg Hv Hb)).
    rewrite (bind_val _ _ _ _ _ (capacity_at cfg _ _ _ _ Hcfg Hv Hb)).
    pose proof (bo_len _ _ Hb) as Hlen. pose proof (bo_cap _ _ Hb) as Hcap.
    destruct (Z.ltb_spec m (h_len bl)) as [L|L].
    - eapply post_weaken; [apply (shrink_to_fit_at s v b bl Hv Hb)| |auto].
      intros _ s' [[E ->]|[E (size & H1 & H2 & H3)]].
      + split; [lia|]. left. split; [reflexivity|]. right. lia.
      + split; [lia|]. right. exists (h_len bl), size. rewrite Z.max_l by lia. split; [reflexivity|]. split; [lia|]. split; [assumption|]. split; assumption.
    - destruct (Z.eqb_spec (h_cap bl) m) as [E|E].
      { simpl. split; [lia|]. left. split; [reflexivity|]. left. lia. }
      destruct (Z.ltb_spec (h_cap bl) m) as [L2|L2]; [simpl; reflexivity|].
      rewrite (bind_val _ _ _ _ _ (alignment_at cfg _ _ _ _ Hcfg Hv Hb)).
      eapply post_weaken; [apply (grow_realloc s v b bl m Hv Hb); lia | |].
      + intros _ s' [[E' _]|[_ (size & H1 & H2 & H3)]]; [lia|]. split; [lia|]. right.
        exists m, size. rewrite Z.max_r by lia. split; [reflexivity|]. split; [lia|]. split; [assumption|]. split; assumption.
      + intros s' [E' _]. exact E'.
  Qed.
End Grow.
