(* Proofs/SerdeSource.v -- END TO END for the deserialization visitor: the tie (EquivSerdeSeq.v) and the
   list-level theorem (Proofs/SerdeSeq.v) composed into one statement about the regenerated
   `VecVisitor::visit_seq`. *)
From Coq Require Import ZArith List Bool Lia.
From MV Require Import Ast Eval Scalar Machine SerdeSeq EquivDefs Prims EquivSerdeSeq.
From MV.Gen Require Import AstGen.
From MV.Proofs Require Import Arith Logic Prim View OpsLocal Guards Grow CapHistory Drops Retain Sentinel Core Refine Clone Extend SerdeSeq.
Import ListNotations.
Open Scope Z_scope.

Section SerdeSource.
  Variable cfg : tcfg.
  Variable ncap : Z -> option Z.
  Hypothesis Hcfg : cfg_ok cfg.
  Hypothesis Hpol : policy_ok ncap.
  Hypothesis Htracked : needs_drop cfg = true.

  (* for ANY input script and ANY claimed hint: Ok(a NEW vector holding exactly the elements the input
     yielded before its end, in order) or the input's error; nothing that existed before is touched *)
  Theorem visit_seq_source h sc s F :
    (match h with Some n => 0 <= n < W64 | None => True end) ->
    (S (List.length sc) <= F)%nat ->
    let '(n, p) := yields sc in
    match projQ (run_visit cfg ncap h (FUEL + F) sc s) with
    | (Norm r, s') =>
        (forall e, e < next_elem s -> ledger s' e = ledger s e) /\
        if p then r = VCtor "Err" [VUnit]
        else r = VCtor "Ok" [VObj (List.length (vecs s))] /\
             vabs cfg s' (List.length (vecs s)) (zseq (next_elem s) n) /\
             next_elem s' = next_elem s + Z.of_nat n
    | (Panic, s') => forall e, e < next_elem s -> ledger s' e = ledger s e
    | (Fail FAbort, _) | (Fail (FAllocAbort _ _), _) => True
    | _ => False
    end.
  Proof.
    intros Hh HF.
    assert (Hh' : match h with Some n => 0 <= n | None => True end) by (destruct h; [lia|exact I]).
    pose proof (visit_body_abs cfg ncap Hcfg Hpol Htracked s h sc Hh') as H.
    destruct (yields sc) as [n p].
    rewrite (visit_seq_equiv cfg ncap h sc s F Hh HF).
    unfold lift_m. destruct (visit_body cfg ncap h sc s) as [[r| | | | |] s']; simpl in *; try tauto.
    destruct H as [Hl Hr]. split; [exact Hl|].
    destruct p; [subst r; reflexivity|].
    destruct Hr as (-> & Hv & Hn). split; [reflexivity|]. split; [exact Hv|exact Hn].
  Qed.
End SerdeSource.
