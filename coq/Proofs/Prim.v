(* Proofs/Prim.v -- what the checked primitives do on a vector whose block satisfies the
   layout invariant ("focused" equations used for symbolic execution of the operations). *)
From Coq Require Import ZArith List Bool Lia.
From MV Require Import Ast Eval Scalar Machine.
From MV.Proofs Require Import Arith Logic.
Import ListNotations.
Open Scope Z_scope.

Section Prim.
  Variable cfg : tcfg.

  (* standing facts about the element type *)
  Definition cfg_ok : Prop :=
    0 < esz cfg < W64 /\ is_pow2 (ealign cfg) = true /\ ealign cfg < W64.

  (* the layout invariant of one allocated block *)
  Record block_ok (bl : block) : Prop := {
    bo_live : b_live bl = true;
    bo_align : h_align bl = b_align bl;
    bo_pow2 : is_pow2 (h_align bl) = true;
    bo_min : max_align cfg <= h_align bl;
    bo_len : 0 <= h_len bl <= h_cap bl;
    bo_cap : h_cap bl < W64;
    bo_layout : make_layout cfg (h_cap bl) (h_align bl) = Some (b_size bl, b_align bl) }.

  Definition upd_block (s : state) (b : nat) (bl : block) : state :=
    {| heap := list_set (heap s) b bl; vecs := vecs s; iters := iters s; ledger := ledger s;
       payload := payload s; next_elem := next_elem s; drop_panics := drop_panics s;
       clone_panics := clone_panics s; alloc_fail := alloc_fail s; alloc_limit := alloc_limit s;
       events := events s |}.

  (* vector v is the handle of block b, whose content is bl *)
  Definition vec_at (s : state) (v b : nat) (bl : block) : Prop :=
    nth_error (vecs s) v = Some (Some (At b 0)) /\ nth_error (heap s) b = Some bl.

  Lemma block_ok_off bl :
    cfg_ok -> block_ok bl ->
    exists off, canon_off bl = Some off /\ data_offset (h_align bl) = Some off /\
                HEADER_SIZE <= off /\ off + h_cap bl * esz cfg <= b_size bl.
  Proof.
    intros (He & _ & _) [Hl Ha Hp Hm Hlen Hc Hlay].
    pose proof (is_pow2_pos _ Hp) as Hpos.
    apply make_layout_some in Hlay; try lia.
    destruct Hlay as (_ & _ & _ & off & Hoff & H24 & _ & Hroom & _).
    exists off. unfold canon_off. rewrite <- Ha. repeat split; auto.
  Qed.

  Lemma block_ok_header bl : cfg_ok -> block_ok bl -> HEADER_SIZE <= b_size bl.
  Proof.
    intros Hc Hb. destruct (block_ok_off bl Hc Hb) as (off & _ & _ & H1 & H2).
    destruct Hc as ((He & _) & _). destruct Hb as [_ _ _ _ Hlen _ _]. nia.
  Qed.

  Lemma get_block_at s b bl : nth_error (heap s) b = Some bl -> b_live bl = true ->
    get_block b s = (Val bl, s).
  Proof. intros H L. unfold get_block. rewrite H, L. reflexivity. Qed.

  Lemma vec_handle_at s v b bl : vec_at s v b bl -> vec_handle v s = (Val (At b 0), s).
  Proof. intros [H _]. unfold vec_handle. rewrite H. reflexivity. Qed.

  Lemma hdr_block_at s v b bl : cfg_ok -> vec_at s v b bl -> block_ok bl ->
    hdr_block (At b 0) s = (Val (b, bl), s).
  Proof.
    intros Hc [_ H] Hb. unfold hdr_block. simpl.
    rewrite (bind_val _ _ _ _ _ (get_block_at _ _ _ H (bo_live _ Hb))).
    pose proof (block_ok_header _ Hc Hb) as Hh. apply Z.leb_le in Hh. rewrite Hh. reflexivity.
  Qed.

  Lemma len_at s v b bl : cfg_ok -> vec_at s v b bl -> block_ok bl -> len v s = (Val (h_len bl), s).
  Proof.
    intros Hc Hv Hb. unfold len. rewrite (bind_val _ _ _ _ _ (vec_handle_at _ _ _ _ Hv)).
    rewrite (bind_val _ _ _ _ _ (hdr_block_at _ _ _ _ Hc Hv Hb)). reflexivity.
  Qed.

  Lemma capacity_at s v b bl : cfg_ok -> vec_at s v b bl -> block_ok bl -> capacity v s = (Val (h_cap bl), s).
  Proof.
    intros Hc Hv Hb. unfold capacity. rewrite (bind_val _ _ _ _ _ (vec_handle_at _ _ _ _ Hv)).
    rewrite (bind_val _ _ _ _ _ (hdr_block_at _ _ _ _ Hc Hv Hb)). reflexivity.
  Qed.

  Lemma alignment_at s v b bl : cfg_ok -> vec_at s v b bl -> block_ok bl ->
    alignment cfg v s = (Val (h_align bl), s).
  Proof.
    intros Hc Hv Hb. unfold alignment. rewrite (bind_val _ _ _ _ _ (vec_handle_at _ _ _ _ Hv)).
    rewrite (bind_val _ _ _ _ _ (hdr_block_at _ _ _ _ Hc Hv Hb)). reflexivity.
  Qed.

  Lemma is_default_at s v b bl : vec_at s v b bl -> is_default v s = (Val false, s).
  Proof. intros Hv. unfold is_default. rewrite (bind_val _ _ _ _ _ (vec_handle_at _ _ _ _ Hv)). reflexivity. Qed.

  (* the data pointer of an allocated vector: element 0 of its block at the canonical offset *)
  Lemma data_at s v b bl : cfg_ok -> vec_at s v b bl -> block_ok bl ->
    exists off, canon_off bl = Some off /\ data cfg v s = (Val (PElt b off 0), s).
  Proof.
    intros Hc Hv Hb. destruct (block_ok_off _ Hc Hb) as (off & Hco & Hdo & _ & _).
    exists off. split; [exact Hco|]. unfold data.
    assert (G : (if release cfg then ret tt else d <- is_default v;; (if d then panic else ret tt)) s = (Val tt, s)).
    { destruct (release cfg); [reflexivity|].
      rewrite (bind_val _ _ _ _ _ (is_default_at _ _ _ _ Hv)). reflexivity. }
    rewrite (bind_val _ _ _ _ _ G).
    rewrite (bind_val _ _ _ _ _ (alignment_at _ _ _ _ Hc Hv Hb)).
    unfold lift_opt. rewrite Hdo.
    change ((o <- ret off;; h <- vec_handle v;; ret match h with Sentinel => PWild | At b0 off0 => PElt b0 (off0 + o) 0 end) s)
      with ((h <- vec_handle v;; ret match h with Sentinel => PWild | At b0 off0 => PElt b0 (off0 + off) 0 end) s).
    rewrite (bind_val _ _ _ _ _ (vec_handle_at _ _ _ _ Hv)). reflexivity.
  Qed.

  Lemma as_ptr_at s v b bl : cfg_ok -> vec_at s v b bl -> block_ok bl ->
    exists off, canon_off bl = Some off /\ as_ptr cfg v s = (Val (PElt b off 0), s).
  Proof.
    intros Hc Hv Hb. destruct (data_at _ _ _ _ Hc Hv Hb) as (off & Hco & Hd).
    exists off. split; [exact Hco|]. unfold as_ptr.
    rewrite (bind_val _ _ _ _ _ (is_default_at _ _ _ _ Hv)). exact Hd.
  Qed.

  Lemma put_block_eq s b bl : put_block b bl s = (Val tt, upd_block s b bl).
  Proof. reflexivity. Qed.

  Lemma set_len_at s v b bl n : cfg_ok -> vec_at s v b bl -> block_ok bl ->
    set_len v n s = (Val tt, upd_block s b (with_hdr bl n (h_cap bl) (h_align bl))).
  Proof.
    intros Hc Hv Hb. unfold set_len.
    rewrite (bind_val _ _ _ _ _ (vec_handle_at _ _ _ _ Hv)).
    rewrite (bind_val _ _ _ _ _ (hdr_block_at _ _ _ _ Hc Hv Hb)). reflexivity.
  Qed.

  Lemma add_len_at s v b bl n : cfg_ok -> vec_at s v b bl -> block_ok bl ->
    add_len v n s = (Val tt, upd_block s b (with_hdr bl (h_len bl + n) (h_cap bl) (h_align bl))).
  Proof.
    intros Hc Hv Hb. unfold add_len.
    rewrite (bind_val _ _ _ _ _ (vec_handle_at _ _ _ _ Hv)).
    rewrite (bind_val _ _ _ _ _ (hdr_block_at _ _ _ _ Hc Hv Hb)). reflexivity.
  Qed.

  (* element access inside the capacity *)
  Lemma elt_block_at s b bl off i :
    cfg_ok -> nth_error (heap s) b = Some bl -> block_ok bl -> canon_off bl = Some off ->
    0 <= i < h_cap bl ->
    elt_block cfg (PElt b off i) s = (Val (b, bl, i), s).
  Proof.
    intros Hc H Hb Hco Hi. unfold elt_block.
    rewrite (bind_val _ _ _ _ _ (get_block_at _ _ _ H (bo_live _ Hb))).
    rewrite Hco. rewrite Z.eqb_refl. simpl.
    destruct (block_ok_off _ Hc Hb) as (off' & Hco' & _ & _ & Hroom).
    rewrite Hco in Hco'. inversion Hco'; subst off'.
    destruct Hc as ((He & _) & _).
    assert (E1 : (0 <=? i) = true) by (apply Z.leb_le; lia).
    assert (E2 : (off + (i + 1) * esz cfg <=? b_size bl) = true) by (apply Z.leb_le; nia).
    rewrite E1, E2. reflexivity.
  Qed.

  Lemma slot_read_at s b bl off i :
    cfg_ok -> nth_error (heap s) b = Some bl -> block_ok bl -> canon_off bl = Some off ->
    0 <= i < h_cap bl ->
    slot_read cfg (PElt b off i) s =
      (match slots bl i with Init e => Val e | Uninit => UB UninitExposed end, s).
  Proof.
    intros Hc H Hb Hco Hi. unfold slot_read.
    rewrite (bind_val _ _ _ _ _ (elt_block_at _ _ _ _ _ Hc H Hb Hco Hi)).
    destruct (slots bl i); reflexivity.
  Qed.

  Lemma slot_write_at s b bl off i e :
    cfg_ok -> nth_error (heap s) b = Some bl -> block_ok bl -> canon_off bl = Some off ->
    0 <= i < h_cap bl ->
    slot_write cfg (PElt b off i) e s =
      (Val tt, upd_block s b (with_slots bl (upd (slots bl) i (Init e)))).
  Proof.
    intros Hc H Hb Hco Hi. unfold slot_write.
    rewrite (bind_val _ _ _ _ _ (elt_block_at _ _ _ _ _ Hc H Hb Hco Hi)). reflexivity.
  Qed.

  (* memmove inside the capacity *)
  Lemma slot_copy_at s b bl off i j n :
    cfg_ok -> nth_error (heap s) b = Some bl -> block_ok bl -> canon_off bl = Some off ->
    0 < n -> 0 <= i -> i + n <= h_cap bl -> 0 <= j -> j + n <= h_cap bl ->
    slot_copy cfg (PElt b off i) (PElt b off j) n s =
      (Val tt, upd_block s b (with_slots bl (fun k => if (j <=? k) && (k <? j + n) then slots bl (k - j + i) else slots bl k))).
  Proof.
    intros Hc H Hb Hco Hn Hi Hin Hj Hjn. unfold slot_copy.
    assert (E : (n <=? 0) = false) by (apply Z.leb_gt; lia). rewrite E.
    rewrite Nat.eqb_refl. change (negb true) with false. cbv iota.
    rewrite (bind_val _ _ _ _ _ (elt_block_at _ _ _ _ (i + n - 1) Hc H Hb Hco ltac:(lia))).
    rewrite (bind_val _ _ _ _ _ (elt_block_at _ _ _ _ i Hc H Hb Hco ltac:(lia))).
    rewrite (bind_val _ _ _ _ _ (elt_block_at _ _ _ _ j Hc H Hb Hco ltac:(lia))).
    rewrite (bind_val _ _ _ _ _ (elt_block_at _ _ _ _ (j + n - 1) Hc H Hb Hco ltac:(lia))).
    reflexivity.
  Qed.

  (* facts about upd_block *)
  Lemma list_set_same {A} (l : list A) n a : (n < List.length l)%nat -> nth_error (list_set l n a) n = Some a.
  Proof. revert n; induction l as [|x l IH]; intros [|n]; simpl; intros H; try lia; auto. apply IH; lia. Qed.
  Lemma list_set_other {A} (l : list A) n m a : n <> m -> nth_error (list_set l n a) m = nth_error l m.
  Proof. revert n m; induction l as [|x l IH]; intros [|n] [|m]; simpl; intros H; try congruence; auto. Qed.
  Lemma list_set_length {A} (l : list A) n a : List.length (list_set l n a) = List.length l.
  Proof. revert n; induction l as [|x l IH]; intros [|n]; simpl; auto. Qed.

  Lemma upd_block_same s b bl bl0 : nth_error (heap s) b = Some bl0 ->
    nth_error (heap (upd_block s b bl)) b = Some bl.
  Proof. intros H. simpl. apply list_set_same. apply nth_error_Some. congruence. Qed.
  Lemma upd_block_other s b bl b' : b <> b' ->
    nth_error (heap (upd_block s b bl)) b' = nth_error (heap s) b'.
  Proof. intros H. simpl. apply list_set_other; assumption. Qed.

  Lemma vec_at_upd s v b bl bl' : vec_at s v b bl -> vec_at (upd_block s b bl') v b bl'.
  Proof. intros [H1 H2]. split; [exact H1|]. eapply upd_block_same; eauto. Qed.
End Prim.
