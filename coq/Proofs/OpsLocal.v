(* Proofs/OpsLocal.v -- functional specifications of the element-shifting operations on one
   vector whose block satisfies the layout invariant: the effect on the block, and the
   refinement to the list-level operation (C01), with a frame. *)
From Coq Require Import ZArith List Bool Lia.
From MV Require Import Ast Eval Scalar Machine.
From MV.Proofs Require Import Arith Logic Prim View.
Import ListNotations.
Open Scope Z_scope.

Section OpsLocal.
  Variable cfg : tcfg.
  Variable ncap : Z -> option Z.
  Hypothesis Hcfg : cfg_ok cfg.

  (* s' differs from s at most in the content of block b *)
  Record frame_block (s s' : state) (b : nat) : Prop := {
    fb_vecs : vecs s' = vecs s;
    fb_iters : iters s' = iters s;
    fb_ledger : ledger s' = ledger s;
    fb_payload : payload s' = payload s;
    fb_next : next_elem s' = next_elem s;
    fb_dp : drop_panics s' = drop_panics s;
    fb_cp : clone_panics s' = clone_panics s;
    fb_af : alloc_fail s' = alloc_fail s;
    fb_lim : alloc_limit s' = alloc_limit s;
    fb_events : events s' = events s;
    fb_len : List.length (heap s') = List.length (heap s);
    fb_other : forall b', b' <> b -> nth_error (heap s') b' = nth_error (heap s) b' }.

  Lemma frame_refl s b : frame_block s s b.
  Proof. constructor; auto. Qed.

  Lemma frame_upd s b bl : frame_block s (upd_block s b bl) b.
  Proof.
    constructor; auto; simpl.
    - apply list_set_length.
    - intros b' H. apply list_set_other. congruence.
  Qed.

  Lemma frame_trans s1 s2 s3 b : frame_block s1 s2 b -> frame_block s2 s3 b -> frame_block s1 s3 b.
  Proof.
    intros [] []. constructor; try congruence.
    intros b' H. rewrite fb_other1, fb_other0 by assumption. reflexivity.
  Qed.

  Lemma block_ok_with_slots bl f : block_ok cfg bl -> block_ok cfg (with_slots bl f).
  Proof. intros []. constructor; assumption. Qed.

  Lemma block_ok_with_len bl n : block_ok cfg bl -> 0 <= n <= h_cap bl ->
    block_ok cfg (with_hdr bl n (h_cap bl) (h_align bl)).
  Proof. intros [] H. constructor; simpl; assumption. Qed.

  Lemma on_unwind_val {A} (m : M A) c s a s' : m s = (Val a, s') -> on_unwind m c s = (Val a, s').
  Proof. intros H. unfold on_unwind. rewrite H. reflexivity. Qed.

  Lemma on_unwind_other {A} (m : M A) c s r s' :
    m s = (r, s') -> (match r with Panicking => False | _ => True end) -> on_unwind m c s = (r, s').
  Proof. intros H Hr. unfold on_unwind. rewrite H. destruct r; try reflexivity; contradiction. Qed.

  Ltac run H := erewrite (bind_val _ _ _ _ _ H).

  (* ------------------------------------------------------------------ pop *)
  Lemma pop_empty s v b bl :
    vec_at s v b bl -> block_ok cfg bl -> h_len bl = 0 -> pop cfg v s = (Val None, s).
  Proof.
    intros Hv Hb H0. unfold pop. run (len_at cfg _ _ _ _ Hcfg Hv Hb). rewrite H0. reflexivity.
  Qed.

  Lemma pop_spec s v b bl :
    vec_at s v b bl -> block_ok cfg bl -> init_upto (slots bl) (h_len bl) -> 0 < h_len bl ->
    exists e bl' s1,
      slots bl (h_len bl - 1) = Init e /\
      bl' = with_hdr bl (h_len bl - 1) (h_cap bl) (h_align bl) /\
      s1 = upd_block s b bl' /\
      pop cfg v s = bind (hand_out cfg e) (fun _ => ret (Some e)) s1 /\
      velems bl = velems bl' ++ [e] /\ block_ok cfg bl' /\ init_upto (slots bl') (h_len bl').
  Proof.
    intros Hv Hb Hi Hl.
    destruct (Hi (h_len bl - 1)) as [e He]; [lia|].
    exists e. eexists. eexists. split; [exact He|]. split; [reflexivity|]. split; [reflexivity|].
    pose proof (bo_len _ _ Hb) as Hlen.
    split; [|split; [|split]].
    - unfold pop. run (len_at cfg _ _ _ _ Hcfg Hv Hb).
      assert (E : (h_len bl =? 0) = false) by (apply Z.eqb_neq; lia). rewrite E.
      destruct (as_ptr_at cfg _ _ _ _ Hcfg Hv Hb) as (off & Hco & Hp). run Hp.
      simpl padd. try rewrite Z.add_0_l.
      assert (R : 0 <= h_len bl - 1 < h_cap bl) by lia.
      pose proof (slot_read_at cfg s b bl off (h_len bl - 1) Hcfg (proj2 Hv) Hb Hco R) as Hr.
      rewrite He in Hr. run Hr. run (set_len_at cfg s v b bl (h_len bl - 1) Hcfg Hv Hb). reflexivity.
    - unfold velems. simpl. replace (h_len bl) with ((h_len bl - 1) + 1) at 1 by lia.
      rewrite view_snoc by lia. rewrite He. reflexivity.
    - apply block_ok_with_len; [assumption|lia].
    - simpl. intros i H. apply Hi. lia.
  Qed.

  (* ------------------------------------------------------------------ push (no growth) *)
  Lemma push_fits s v b bl e :
    vec_at s v b bl -> block_ok cfg bl -> h_len bl < h_cap bl ->
    let bl' := with_hdr (with_slots bl (upd (slots bl) (h_len bl) (Init e))) (h_len bl + 1) (h_cap bl) (h_align bl) in
    exists s', push cfg ncap v e s = (Val tt, s') /\ vec_at s' v b bl' /\ frame_block s s' b /\
               block_ok cfg bl' /\ velems bl' = velems bl ++ [e] /\
               (init_upto (slots bl) (h_len bl) -> init_upto (slots bl') (h_len bl')).
  Proof.
    intros Hv Hb Hlt bl'.
    pose proof (bo_len _ _ Hb) as Hlen.
    destruct (data_at cfg _ _ _ _ Hcfg Hv Hb) as (off & Hco & Hd).
    set (bl1 := with_slots bl (upd (slots bl) (h_len bl) (Init e))).
    set (s1 := upd_block s b bl1).
    assert (Hv1 : vec_at s1 v b bl1) by (apply vec_at_upd with (bl := bl); assumption).
    assert (Hb1 : block_ok cfg bl1) by (apply block_ok_with_slots; assumption).
    exists (upd_block s1 b bl'). split; [|split; [|split; [|split; [|split]]]].
    - unfold push. apply on_unwind_val.
      run (len_at cfg _ _ _ _ Hcfg Hv Hb). run (capacity_at cfg _ _ _ _ Hcfg Hv Hb).
      run (alignment_at cfg _ _ _ _ Hcfg Hv Hb).
      assert (E : (h_len bl =? h_cap bl) = false) by (apply Z.eqb_neq; lia). rewrite E.
      rewrite bind_ret.
      run (len_at cfg _ _ _ _ Hcfg Hv Hb). run Hd. simpl padd. try rewrite Z.add_0_l.
      assert (R : 0 <= h_len bl < h_cap bl) by lia.
      run (slot_write_at cfg s b bl off (h_len bl) e Hcfg (proj2 Hv) Hb Hco R).
      fold bl1. fold s1.
      rewrite (add_len_at cfg s1 v b bl1 1 Hcfg Hv1 Hb1). reflexivity.
    - apply vec_at_upd with (bl := bl1). assumption.
    - eapply frame_trans; apply frame_upd.
    - apply block_ok_with_len with (bl := bl1); [assumption|simpl; lia].
    - unfold velems. simpl. rewrite view_snoc by lia. unfold upd at 2. rewrite Z.eqb_refl. simpl.
      f_equal. apply view_ext. intros i Hi. unfold upd.
      destruct (Z.eqb_spec i (h_len bl)); [lia|reflexivity].
    - intros Hi. simpl. intros i H. unfold upd. destruct (Z.eqb_spec i (h_len bl)); [eauto|].
      apply Hi. lia.
  Qed.

  (* ------------------------------------------------------------------ insert (no growth) *)
  Definition shift_up (f : Z -> slot) (idx n : Z) : Z -> slot :=
    fun k => if (idx + 1 <=? k) && (k <? idx + 1 + n) then f (k - (idx + 1) + idx) else f k.

  Lemma insert_fits s v b bl idx e :
    vec_at s v b bl -> block_ok cfg bl -> 0 <= idx <= h_len bl -> h_len bl < h_cap bl ->
    let f1 := if h_len bl - idx <=? 0 then slots bl else shift_up (slots bl) idx (h_len bl - idx) in
    let bl' := with_hdr (with_slots bl (upd f1 idx (Init e))) (h_len bl + 1) (h_cap bl) (h_align bl) in
    exists s', insert cfg ncap v idx e s = (Val tt, s') /\ vec_at s' v b bl' /\ frame_block s s' b /\
               block_ok cfg bl' /\
               velems bl' = firstn (Z.to_nat idx) (velems bl) ++ e :: skipn (Z.to_nat idx) (velems bl) /\
               (init_upto (slots bl) (h_len bl) -> init_upto (slots bl') (h_len bl')).
  Proof.
    intros Hv Hb Hidx Hlt f1 bl'.
    pose proof (bo_len _ _ Hb) as Hlen.
    destruct (as_ptr_at cfg _ _ _ _ Hcfg Hv Hb) as (off & Hco & Hp).
    set (bl1 := with_slots bl f1).
    set (s1 := upd_block s b bl1).
    assert (Hb1 : block_ok cfg bl1) by (apply block_ok_with_slots; assumption).
    assert (Hv1 : vec_at s1 v b bl1) by (apply vec_at_upd with (bl := bl); assumption).
    set (bl2 := with_slots bl1 (upd f1 idx (Init e))).
    set (s2 := upd_block s1 b bl2).
    assert (Hb2 : block_ok cfg bl2) by (apply block_ok_with_slots; assumption).
    assert (Hv2 : vec_at s2 v b bl2) by (apply vec_at_upd with (bl := bl1); assumption).
    assert (Hcopy : slot_copy cfg (PElt b off idx) (PElt b off (idx + 1)) (h_len bl - idx) s = (Val tt, s1)).
    { subst s1 bl1 f1. destruct (Z.leb_spec (h_len bl - idx) 0) as [L|L].
      - unfold slot_copy. assert (E : (h_len bl - idx <=? 0) = true) by (apply Z.leb_le; lia). rewrite E.
        unfold ret. f_equal. unfold upd_block. destruct s; simpl. f_equal.
        destruct Hv as [_ Hh]. simpl in Hh. clear - Hh.
        revert b Hh. induction heap as [|x l IH]; intros [|b] Hh; simpl in *; try discriminate.
        + inversion Hh; subst. destruct bl; reflexivity.
        + f_equal. apply IH. exact Hh.
      - rewrite (slot_copy_at cfg s b bl off idx (idx + 1) (h_len bl - idx) Hcfg (proj2 Hv) Hb Hco); try lia.
        reflexivity. }
    exists (upd_block s2 b bl'). split; [|split; [|split; [|split; [|split]]]].
    - unfold insert. apply on_unwind_val.
      run (len_at cfg _ _ _ _ Hcfg Hv Hb).
      assert (E0 : (h_len bl <? idx) = false) by (apply Z.ltb_ge; lia). rewrite E0. rewrite bind_ret.
      run (capacity_at cfg _ _ _ _ Hcfg Hv Hb).
      assert (E : (h_len bl =? h_cap bl) = false) by (apply Z.eqb_neq; lia). rewrite E. rewrite bind_ret.
      run Hp. simpl padd. try rewrite Z.add_0_l.
      run Hcopy.
      assert (R : 0 <= idx < h_cap bl1) by (simpl; lia).
      run (slot_write_at cfg s1 b bl1 off idx e Hcfg (proj2 Hv1) Hb1 Hco R).
      change (upd_block s1 b (with_slots bl1 (upd (slots bl1) idx (Init e)))) with s2.
      rewrite (set_len_at cfg s2 v b bl2 (h_len bl + 1) Hcfg Hv2 Hb2). reflexivity.
    - apply vec_at_upd with (bl := bl2). assumption.
    - eapply frame_trans; [|apply frame_upd]. eapply frame_trans; apply frame_upd.
    - apply block_ok_with_len with (bl := bl2); [assumption|simpl; lia].
    - unfold velems. simpl. apply list_ext. intros k.
      assert (Hl0 : List.length (view (slots bl) (h_len bl)) = Z.to_nat (h_len bl)).
      { unfold view. rewrite map_length, seq_length. reflexivity. }
      destruct (Nat.lt_ge_cases k (Z.to_nat (h_len bl + 1))) as [Lk|Gk].
      + rewrite view_nth_nat by lia.
        destruct (Nat.lt_ge_cases k (Z.to_nat idx)) as [L1|G1].
        * rewrite nth_error_app1 by (rewrite firstn_length; lia).
          rewrite nth_error_firstn_lt by lia. rewrite view_nth_nat by lia.
          unfold upd. destruct (Z.eqb_spec (Z.of_nat k) idx); [lia|].
          subst f1. destruct (Z.leb_spec (h_len bl - idx) 0); [reflexivity|].
          unfold shift_up. destruct (Z.leb_spec (idx + 1) (Z.of_nat k)); [lia|reflexivity].
        * rewrite nth_error_app2 by (rewrite firstn_length; lia).
          rewrite firstn_length, Hl0. replace (Nat.min (Z.to_nat idx) (Z.to_nat (h_len bl))) with (Z.to_nat idx) by lia.
          destruct (Nat.eq_dec k (Z.to_nat idx)) as [Ek|Nk].
          -- subst k. rewrite Nat.sub_diag. simpl. unfold upd. rewrite Z2Nat.id by lia. rewrite Z.eqb_refl. reflexivity.
          -- replace (k - Z.to_nat idx)%nat with (S (k - Z.to_nat idx - 1)) by lia. simpl.
             rewrite nth_error_skipn_local. rewrite view_nth_nat by lia.
             unfold upd. destruct (Z.eqb_spec (Z.of_nat k) idx); [lia|].
             subst f1. destruct (Z.leb_spec (h_len bl - idx) 0); [lia|].
             unfold shift_up.
             destruct (Z.leb_spec (idx + 1) (Z.of_nat k)); [|lia].
             destruct (Z.ltb_spec (Z.of_nat k) (idx + 1 + (h_len bl - idx))); [|lia]. cbn [andb].
             f_equal. f_equal. f_equal. lia.
      + rewrite view_nth_none by lia. symmetry. apply nth_error_None.
        rewrite app_length, firstn_length. simpl. rewrite skipn_length, Hl0. lia.
    - intros Hi. simpl. intros i H. unfold upd. destruct (Z.eqb_spec i idx); [eauto|].
      subst f1. destruct (Z.leb_spec (h_len bl - idx) 0); [apply Hi; lia|].
      unfold shift_up. destruct (Z.leb_spec (idx + 1) i); destruct (Z.ltb_spec i (idx + 1 + (h_len bl - idx))); simpl; apply Hi; lia.
  Qed.
End OpsLocal.
